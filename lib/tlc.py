"""TLC launcher with JVM flags tuned for this sandbox, and output parsing.

The stock `tlc` wrapper is 5-10x slower here (see DESIGN.md §3); every TLC run of the framework goes
through run_tlc().  Nothing in here decides a property: it only runs TLC and reports what TLC said.
"""
import os
import re
import shutil
import subprocess
import tempfile
import time

JAR = "/opt/veriftools/tla/tla2tools.jar"
DEPS = "/opt/veriftools/tla/CommunityModules-deps.jar"


class TLCResult(dict):
    __getattr__ = dict.get


_RE_STATES = re.compile(r"(\d+) states generated, (\d+) distinct states found, (\d+) states left on queue")
_RE_SIM = re.compile(r"The number of states generated: (\d+)")
_RE_DEPTH = re.compile(r"The depth of the complete state graph search is (\d+)")


def run_tlc(spec_dir, module, cfg, workdir, *, workers=4, timeout=600, env=None, heap="6g",
            simulate=None, depth=None, seed=None, extra=(), deadlock=False, coverage=False,
            stateq_deque=False, lib_dirs=()):
    """Run TLC on spec_dir/module.tla with spec_dir/cfg.  Specs are copied to a private scratch directory
    (TLC litters states/ and *_TTrace files next to the spec).  Returns TLCResult with fields:
      rc, ok (finished, no error), generated, distinct, depth, violated (invariant / property name or None),
      error (text or None), out (full text), wall_s
    """
    scratch = tempfile.mkdtemp(prefix="tlc-", dir=workdir)
    # copy the spec directory and the shared modules flat into scratch
    for d in tuple(lib_dirs) + (spec_dir,):
        for f in os.listdir(d):
            if f.endswith(".tla") or (d == spec_dir and f.endswith(".cfg")):
                shutil.copy(os.path.join(d, f), os.path.join(scratch, f))
    meta = os.path.join(scratch, "meta")
    jopts = ["-Xmx" + heap, "-Xss512m", "-XX:TieredStopAtLevel=1", "-XX:+UseParallelGC",
             "-XX:ParallelGCThreads=%d" % max(2, min(4, workers)),
             "-Dtlc2.tool.fp.FPSet.impl=tlc2.tool.fp.OffHeapDiskFPSet" if False else "-Dnop=1"]
    if stateq_deque:
        jopts.append("-Dtlc2.tool.queue.IStateQueue=StateDeque")
    cmd = ["java"] + jopts + ["-cp", JAR + ":" + DEPS, "tlc2.TLC", "-metadir", meta, "-config", cfg,
                              "-workers", str(workers), "-noGenerateSpecTE"]
    if not deadlock:
        cmd += ["-deadlock"]  # -deadlock *disables* deadlock checking
    if coverage:
        cmd += ["-coverage", "1"]
    if simulate is not None:
        cmd += ["-simulate", "num=%d" % simulate]
        if depth:
            cmd += ["-depth", str(depth)]
    if seed is not None:
        cmd += ["-seed", str(seed)]
    cmd += list(extra) + [module]
    e = dict(os.environ)
    e.pop("JAVA_TOOL_OPTIONS", None)
    if env:
        e.update({k: str(v) for k, v in env.items()})
    t0 = time.time()
    try:
        p = subprocess.run(cmd, cwd=scratch, env=e, stdout=subprocess.PIPE, stderr=subprocess.STDOUT,
                           timeout=timeout, text=True, errors="replace")
        out, rc, timed_out = p.stdout, p.returncode, False
    except subprocess.TimeoutExpired as ex:
        out = (ex.stdout or b"")
        if isinstance(out, bytes):
            out = out.decode("utf-8", "replace")
        rc, timed_out = -9, True
        subprocess.run(["pkill", "-f", meta], check=False)
    res = TLCResult(rc=rc, out=out, wall_s=time.time() - t0, timed_out=timed_out, scratch=scratch, cmd=cmd)
    m = None
    for m in _RE_STATES.finditer(out):
        pass
    if m:
        res["generated"], res["distinct"], res["queue"] = int(m.group(1)), int(m.group(2)), int(m.group(3))
    else:
        ms = None
        for ms in _RE_SIM.finditer(out):
            pass
        res["generated"] = int(ms.group(1)) if ms else 0
        res["distinct"] = 0
    md = _RE_DEPTH.search(out)
    res["depth"] = int(md.group(1)) if md else None
    res["violated"] = None
    mv = re.search(r"Invariant (\S+) is violated", out)
    if mv:
        res["violated"] = mv.group(1)
    mv = re.search(r"(?:Action|Temporal) propert(?:y|ies) (\S*) ?(?:is|were) violated", out)
    if mv and not res["violated"]:
        res["violated"] = mv.group(1) or "property"
    err = None
    if "Error:" in out and not res["violated"]:
        i = out.index("Error:")
        err = out[i:i + 1500]
    if timed_out:
        err = "timeout after %ss" % timeout
    res["error"] = err
    finished = "Model checking completed" in out or "Finished in" in out or simulate is not None
    res["ok"] = (not timed_out) and err is None and res["violated"] is None and finished and rc == 0
    res["postcondition_failed"] = "Postcondition" in out and "violated" in out
    return res


def coverage_zero_actions(out):
    """Names of actions that TLC's -coverage reports as never taken: lines '<Name line .. of module M>: 0:0'."""
    zero = []
    for m in re.finditer(r"^<(\w+) line \d+, col \d+ to line \d+, col \d+ of module (\w+)>: (\d+):(\d+)", out, re.M):
        if m.group(3) == "0" and m.group(4) == "0":
            zero.append(m.group(2) + "!" + m.group(1))
    return zero


def sany(path, workdir):
    p = subprocess.run(["java", "-cp", JAR + ":" + DEPS, "tla2sany.SANY", path], cwd=workdir,
                       stdout=subprocess.PIPE, stderr=subprocess.STDOUT, text=True)
    ok = p.returncode == 0 and "Semantic errors" not in p.stdout and "***Parse Error***" not in p.stdout \
        and "Could not parse" not in p.stdout and "Fatal errors" not in p.stdout
    return ok, p.stdout
