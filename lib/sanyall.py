"""Parse every TLA+ module of /verif/spec with SANY (syntax + semantic analysis)."""
import os, shutil, sys, tempfile, concurrent.futures
sys.path.insert(0, os.path.dirname(os.path.abspath(__file__)))
import tlc
VERIF = os.path.dirname(os.path.dirname(os.path.abspath(__file__)))
spec = os.path.join(VERIF, "spec")
tmp = tempfile.mkdtemp(prefix="sany-", dir=os.path.join(VERIF, ".work"))
mods = []
for d, _, fs in os.walk(spec):
    for f in fs:
        if f.endswith(".tla"):
            shutil.copy(os.path.join(d, f), os.path.join(tmp, f))
            mods.append(f)
tlaps_std = "/opt/veriftools/tlapm/lib/tlapm/stdlib/TLAPS.tla"    # proof modules EXTEND TLAPS (not on SANY's classpath)
if os.path.exists(tlaps_std):
    shutil.copy(tlaps_std, os.path.join(tmp, "TLAPS.tla"))
elif "CursorProof.tla" in mods:
    mods = [m for m in mods if not m.endswith("Proof.tla")]
bad = 0
with concurrent.futures.ThreadPoolExecutor(8) as ex:
    for f, (ok, out) in zip(mods, ex.map(lambda m: tlc.sany(os.path.join(tmp, m), tmp), mods)):
        if not ok:
            bad += 1
            print("SANY FAILED:", f, out[-1500:])
shutil.rmtree(tmp, ignore_errors=True)
print("sany: %d modules, %d failed" % (len(mods), bad))
sys.exit(1 if bad else 0)
