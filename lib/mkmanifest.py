"""Regenerates /verif/MANIFEST.json from the table below and validates it against the schema."""
import json, os, subprocess, sys
VERIF = os.path.dirname(os.path.dirname(os.path.abspath(__file__)))

# property -> (technique, level text, level note, design ref)
CHECKS = {
    "C12": ("TLA+ refinement CursorImpl=>Cursor (TLC, exhaustive) + replay of every model transition on the code + TLC trace validation of recorded histories against Cursor.tla + TLAPS proof that Cursor.tla keeps the cursor inside data of any length",
            "TLC exhausts the implementation-shaped model of input.go/buffer/lexer.go against the property-level cursor for all inputs up to length 3-4 over 7 byte classes; every one of those transitions is executed on the real Input/Lexer through six constructors, and those executions plus thousands of random contract-respecting histories are validated event by event by TLC against Cursor.tla. CursorProof.tla (tlapm, 99 obligations) shows for data of any length that no action of Cursor.tla lets the cursor leave the data.",
            "Bounded: input length <= 4 in the exhaustive part, 7 representative byte values; random histories are sampled. Trusted: TLC, the harness's slice-address arithmetic.",
            "DESIGN.md §4 C12"),
    "C13": ("TLA+ refinement StreamImpl=>Stream (TLC, exhaustive over reader schedules x call sequences) + replay of every model behaviour on the code with a scripted reader + TLC trace validation of recorded histories (every Reader.Read logged) against Stream.tla + TLAPS proof of Stream.tla's ordering invariant for streams of any length",
            "TLC exhausts the implementation-shaped model of streamlexer.go (arrays, bufferPool free/reuse/in-place/allocate, growth rule, one step per underlying Read) against the property-level spec for all reader schedules and call sequences on streams of 4-5 bytes; each emitted behaviour is executed on the real StreamLexer with a scripted reader and compared with the model; thousands of random histories with random chunkers, sizes, free disciplines and long streams (memory clause, hook VerifHeld) are validated event by event by TLC against Stream.tla, which watches every handed-out slice for stability. StreamProof.tla (tlapm) shows freed <= start <= pos <= N, reported <= start and read <= N for streams, schedules and Free disciplines of any size.",
            "Bounded: stream length <= 5, depth 6 calls in the exhaustive part; memory bound is the generous 16*(size+token+backlog)+64. Trusted: TLC, the scripted reader, the harness's absolute-offset arithmetic. One recorded finding (Lexeme slices across refills) is listed in known_findings.jsonl.",
            "DESIGN.md §4 C13"),
    "C01": ("TLA+ protocol spec NextProtocol.tla (no action for panic/hang/fatal) judging TLC-generated inputs (all class strings, nesting families) and harvested test literals run through every entry point; TLC trace validation",
            "TLC enumerates every string of character classes up to length 3-4 per language and every recursive construct x depth (to 10^5 quick, 10^6 thorough) x truncation variant; the harness drives each input through every entry point (css lexer/parser/inline, html + 6 template dialects, xml, json, js lexer with/without RegExp, js.Parse x 4 Options followed by String/JS/Walk/JSON), continuing after errors and after the end; deep cases run in child processes so that fatal stack exhaustion is observed; every recorded call is validated by TLC against NextProtocol.tla (in-bounds cursor and slices, linear call bound, final and repeated end report, sticky io.EOF).",
            "Bounded input length for the exhaustive part; representatives per class chosen by seed. 'End report' is read as an error report repeated identically. Trusted: TLC, slice-address arithmetic, recover()/process exit status.",
            "DESIGN.md §4 C01"),
    "C02": ("TLA+ token-stream spec TokenStream.tla judging, by TLC trace validation, every token the css/js/html/xml lexers return on TLC-generated class strings and harvested test literals",
            "Same TLC-generated input space as C01; for each token the harness measures its location in the caller's array by slice address, capacity, the bytes it differs in from the pristine input, uncovered bytes before it, sub-slice containment and (CSS/JS) whether lexing it alone yields it again; TLC validates every token event against TokenStream.tla.",
            "Gap/edit rules for HTML/XML are judged up to the first error report (DESIGN.md §4 C02 reading). RegExp() results are outside this property. Trusted: TLC, slice-address arithmetic.",
            "DESIGN.md §4 C02"),
    "C10": ("TLA+ push-down monitor JsonStream.tla judging, by TLC trace validation, the units json.Parser returns for documents TLC derives from the RFC 8259 grammar (JsonGrammar.tla), for every token-class sequence, and for mutated documents",
            "TLC derives every document skeleton of RFC 8259 up to 11 (quick) / 15 (thorough) tokens and every sequence of token classes up to 5 / 6; the harness spells each several times (all escape, number and literal forms, whitespace at every structural position), mutates the grammatical ones, parses them with the real parser and logs every unit with its location, State() before/after and the separators between units; TLC validates every event against JsonStream.tla: nesting and matching of Start/End, State() = innermost container, non-string key / missing colon / missing comma are errors not units, and for inputs encoding/json accepts: no parse error and the re-joined units equal encoding/json.Compact of the input.",
            "Bounded document size; spellings sampled by seed. Validity and the whitespace-free form are taken from encoding/json as the statement names it. Units are judged up to the first error report.",
            "DESIGN.md §4 C10"),
    "C19": ("TLA+ spec Binary.tla (reader/writer/bitmap semantics from the statement and io contracts) with TLC-generated call sequences replayed on every backend, an implementation-shaped model BinaryImpl.tla checked to refine it, and TLC trace validation of recorded histories",
            "TLC enumerates call sequences (typed reads of all widths, ReadBytes, Read, ReadAt, Seek with every whence and target in [-1, Len+1], writer round trips, bitmap reads) over data of length <= 9 in both byte orders; each scenario is executed on ten reader backends (memory, Bytes()-reader, io.Reader with and without EOF-with-data, read-all, ReadSeeker with and without known length, ReaderAt, file, mmap) and every execution that deviates from the canonical expectation, plus random histories, is validated event by event by TLC against Binary.tla.",
            "Bounded depth (2-4 calls) and data length; 64-bit values are compared as byte sequences. Not driven: ReadString/WriteString, Clone, InPageCache, invalid whence. Trusted: TLC, the harness's backend constructors.",
            "DESIGN.md §4 C19"),
    "C14": ("TLA+ function tables over decimal digit strings (Digits.tla, Numeric.tla): TLC enumerates every numeric literal up to a length plus boundary families with the expected result; replay on the code; TLC trace validation of random calls (floats projected to exact digits)",
            "TLC enumerates all strings up to length 5 (quick) / 6 (thorough) over the numeric alphabet and boundary families around 2^63, 2^64, 19-20 digit mantissas and extreme exponents, with the expected consumed length and value as digit strings computed in TLA+, and formatting cases for AppendInt/AppendDecimal/AppendNumber; the harness replays each with several concrete spellings and records random int64/float64/AppendNumber calls, whose results (floats as exact decimal digits, stdlib ParseFloat logged as the reference the statement names) are judged by TLC against Numeric.tla: exact integers, (0,0) on overflow, digit-level tolerance for floats, sign, well-formedness, prefix preservation, NaN/Inf.",
            "Float clauses are decided on the first 15 significant digits with a tolerance that never rejects a result within 1e-14; AppendFloat 'within the requested digits' is read on min(prec,15) digits. Six recorded findings (known_findings.jsonl).",
            "DESIGN.md §4 C14"),
    "C15": ("TLA+ definition of line/column/context over character-class texts (Position.tla) enumerated by TLC with expectations, plus an error-position spec (ErrorPos.tla) validating by TLC every *parse.Error harvested from the lexers/parsers and the single-illegal-character insertion experiment generated in TLA+ (InsertGen.tla)",
            "TLC enumerates all texts up to 4-5 character classes (1-4 byte printable, non-printable, the five line-break kinds) x every offset in [-1,len+1] and run-length texts around the elision cut points with the expected line, column and caret target; the harness replays them on parse.Position; every *parse.Error produced on swept and random mutations of JS/JSON/CSS/XML/HTML documents and on TLA+-generated documents with one illegal character inserted at a token boundary is validated by TLC: some byte of the input has exactly the reported line/column/context, and for the insertion experiment it is the inserted character.",
            "'Roughly 60 characters' is read as a displayed width of 40-66; inside a multi-byte character the column may be that of the character or one more. One recorded finding (xml error position after in-place attribute normalisation).",
            "DESIGN.md §4 C15"),
    "C16": ("TLA+ function tables (Helpers.tla): the definitions in the statement transcribed as operators, TLC enumerates every class string up to a bound with the expected result; replay; TLC trace validation of random calls with stdlib results logged as observed facts",
            "Seven generator families (Number, Dimension, percent-decoding, text helpers, EqualFold, encoding tables, data URIs, media types) enumerate all strings up to length 2-7 over the relevant class alphabets with expectations computed in TLA+ from the definitions in the statement; the harness replays 1.4M cases (quick), runs all 256 byte values and hash-table probes (every constant, case variants, one-edit neighbours, non-members), and TLC validates the recorded calls against Helpers.tla, requiring agreement with url.QueryUnescape / mime.ParseMediaType only where the statement demands it.",
            "Bounded string length; literal '+' in data URIs is accepted in either decoding (the statement is ambiguous). No defect found.",
            "DESIGN.md §4 C16"),
    "C17": ("TLA+ spec Normalise.tla: whitespace replacement by definition (TLC-enumerated expectations), relational clauses for entities and attribute escaping judged by TLC trace validation over observed facts (html.UnescapeString of input and output, the real lexer's reading of the escaped attribute)",
            "TLC enumerates all whitespace strings up to length 7, all sequences of up to 5-6 entity fragments, all attribute values up to length 5 x original quote x mustQuote and CDATA texts; the harness runs ReplaceMultipleWhitespace / ReplaceEntities / the combined function / html+xml EscapeAttrVal / EscapeCDATAVal on private copies (also checking nothing outside the argument is written), feeds escaped attributes to the real html/xml lexers, and TLC validates every event against Normalise.tla: exact output for whitespace, never-longer / idempotent / decoded-text-preserving for entities, read-back and quoting rules for attributes.",
            "Entity decoding reference is Go's html.UnescapeString as the statement names HTML decoding. Two recorded findings (abutting references, hex overflow) in known_findings.jsonl.",
            "DESIGN.md §4 C17"),
    "C18": ("TLA+ stack-machine spec Walk.tla; TLC checks the recursive traversal model WalkImpl.tla against it on every tree <= 5-6 nodes x every policy; TLC validates Enter/Exit traces of the real js.Walk against ground-truth trees obtained by reflection",
            "For every program of a corpus that covers every AST node kind (snippets, the repository's own js test literals that parse, seeded combinations) the harness builds the tree by reflection over the AST independently of Walk, runs js.Walk with a recording visitor under three policies, and TLC validates the whole Enter/Exit sequence against Walk.tla: root first, a node only inside its open ancestor, never twice, nothing below a stopped node, Exit only for the innermost open node, and at the end every required node entered unless under a stopped node.",
            "Programs are sampled, not exhaustive; node identity is by slot (address+type, or content for copies). Trusted: the reflection walker's notion of 'part of the tree' (exported fields except scope tables).",
            "DESIGN.md §4 C18"),
    "C08": ("TLA+ monitor CssStream.tla (nesting, token conservation, final io.EOF) judging by TLC trace validation every unit css.Parser reports on TLC-generated class strings, mutated test literals and grammar-generated stylesheets; TLA+ grammar CssGrammar.tla generating well-formed stylesheets with the expected units and Values()",
            "TLC enumerates every css class string up to length 3-4 and (CssGrammar.tla) well-formed stylesheets and inline declaration lists with the units the statement prescribes; the harness parses each in both modes, locates every reported token in css.Lexer's token list of the same input, and TLC validates each unit against CssStream.tla: End matches the innermost Begin and depth stays >= 0 while no parse error was reported, everything is closed before the end-of-input report, reported tokens are input tokens in strictly increasing source order (with the statement's rewritings), and the stream ends with ErrorGrammar/io.EOF; generated stylesheets are additionally compared unit by unit (type, lower-cased name, Values with whitespace exactly where expected).",
            "Bounded input length / document size; DESIGN.md C08 fixes the reading of 'punctuation'. Values() of End units is not judged.",
            "DESIGN.md §4 C08"),
    "C04": ("TLA+ generator with a semantic oracle (ScopeSem.tla): programs as sequences of scope constructs, the ECMAScript resolution function defined in TLA+, all programs up to a size enumerated by TLC and larger ones sampled with -simulate; the partition observed on the real tree (fresh names + printing, re-parse, Uses) judged by TLC trace validation (ScopeTrace.tla)",
            "TLC enumerates every program of up to 4-5 items (var/let/const declarations, uses, arrow-head look-alikes, and brackets of nine scope kinds -- function declarations/expressions, arrows, blocks, for-let/for-var heads, catch, class declarations/expressions -- with parameter lists and defaults) over two names, and samples larger programs over three names; for each it computes which binding every identifier occurrence denotes under the ECMAScript rules the statement lists, or that the program must be rejected; the harness parses the spelled program, gives every declared Var a fresh name, prints, reads the identifiers back in order, re-parses the renamed text and compares Uses with printed occurrences; TLC validates that the observed partition is isomorphic to the oracle's.",
            "Programs whose treatment the statement leaves open are not generated (listed in the evidence assumptions). Four recorded findings (class-expression names, default naming a later parameter, use-before-let in a for-var loop body, body use merged with a same-named outer reference in a parameter default).",
            "DESIGN.md §4 C04"),
    "C20": ("TLA+ interleaving spec Isolation.tla model-checked over package-level access facts extracted from the current source (GlobalsGen.tla, generated); concurrent executions under the Go race detector and history-independence runs validated by TLC (IsolationTrace.tla)",
            "The harness extracts from /repo's current source every package-level variable and every function outside init that writes, reads or passes one on, and emits them as a TLA+ module; TLC checks NonInterference and RaceFree for all interleavings of three goroutines; the decisive part are executions: eleven kinds of entry-point tasks on private data run by 2-16 goroutines at GOMAXPROCS 1-16 with seeded perturbation under -race, each result compared with its solo result, plus history runs (after unrelated calls, reversed, second process); TLC validates every per-goroutine log, the race detector's verdict and the history digests.",
            "The race detector observes only schedules that occur; the static extraction is syntactic. A write found only by the model is reported as a candidate in the evidence, not as a violation.",
            "DESIGN.md §4 C20"),
    "C05": ("TLA+ round-trip protocol spec Printer.tla and hazard generator PrinterGen.tla (contexts x frames x inner constructs with the parenthesisation and separator relations of the ECMAScript grammar); replay and recorded inputs judged by TLC trace validation",
            "TLC enumerates the spacing / parenthesisation hazard scenarios (27 statement contexts, 85 frames with required ladder level, 84 inner constructs, minimal and forced parentheses, multi-line literals at indentation depth 0-3) and samples nested ones; the harness parses each under all four Options, prints, re-parses, compares the two trees by reflection modulo GroupExpr, prints again and checks literal and preserved-comment fidelity; inputs not designed by the spec (harvested test literals, snippet combinations, ScopeSem programs) go through the same protocol; TLC validates every event sequence against Printer.tla.",
            "Tree comparison ignores scope tables and Var identity (names only); 'expression position' is read as any literal the first tree does not hold in a non-expression slot.",
            "DESIGN.md §4 C05"),
    "C07": ("TLA+ token grammar CssTokens.tla (173 atoms, Merges/NeedsSep derived from the standard) cross-checked in TLC against an independent transcription of CSS Syntax §4.3 (CssRef.tla: invariants RefAgrees, Tight); all atom pairs x separators, triples and class strings replayed on css.Lexer / IsIdent / IsURLUnquoted and judged by TLC trace validation",
            "TLC enumerates every pair of token atoms with every admissible separator, look-ahead-sensitive triples, deep random sequences, and every class string up to length 4-5 for the IsIdent/IsURLUnquoted agreement; before the code is involved TLC checks that the reference tokeniser maps every generated text to the expected tokens; the harness lexes each concretised text and TLC validates (kind, text) lists and the Is-facts against CssTokens.tla.",
            "2014 CR edition of CSS Syntax (the only one with every token the statement lists). One recorded finding (unicode range followed by '-').",
            "DESIGN.md §4 C07"),
    "C11": ("TLA+ grammar-as-behaviour XmlDoc.tla (XML 1.0 productions with expected tokens) and monitor XmlStream.tla; documents, seeded spellings and mutations lexed by xml.Lexer and by encoding/xml; TLC trace validation",
            "TLC derives every document of up to 3-4 constructs (prolog, PIs with pseudo-attributes, DOCTYPE with internal subset, comments, CDATA with look-alikes, elements with both quote styles, empty-element tags, character data) with the expected token list; the harness spells each (several seeded spellings), lexes it, runs encoding/xml on it, and mutates it (truncation, NUL, 0xFF, lone lead byte); TLC validates the token list, the three-way agreement of element/attribute names and values, and for all inputs that attribute tokens occur only inside a tag and that an embedded NUL ends in a non-EOF error.",
            "Entity references in attribute values, CRLF inside values and conditional sections are not generated; DOCTYPE text compared after trimming.",
            "DESIGN.md §4 C11"),
    "C09": ("TLA+ construct grammar HtmlDoc.tla (documents as sequences of constructs with expected tokens, script data/escaped/double-escaped states transcribed) and all-input monitor HtmlStream.tla; documents x spellings x dialects x mutations lexed by html.Lexer; TLC trace validation",
            "TLC derives every document of up to 3 constructs (text, comments, doctype, CDATA, start tags with four attribute styles, void and end tags, the seven raw-text elements with look-alike end tags and double-escape shapes, svg/math subtrees) and, per template dialect, delimited regions in text, tags, attribute names and values and raw text; the harness spells each with case and whitespace variations, lexes it under the plain lexer and the dialects, mutates it, and TLC validates one token per construct with type, lower-cased Text()/AttrKey(), verbatim AttrVal(), HasTemplate(), and for all inputs that attribute tokens occur only inside a tag and raw text is never tokenised as markup.",
            "Regions directly followed by name characters, and regions in comments/doctype/CDATA/plaintext/svg are not generated. 17 recorded finding signatures from six defects (nested svg/math, closers in single-quoted attributes, template regions after a prefix / in raw text / inside script escapes).",
            "DESIGN.md §4 C09"),
    "C03": ("TLA+ stratified ECMAScript grammar JsGrammar.tla (ladder levels, Spell with exactly the mandatory or redundant parentheses, Canon in the format of String(), ASI spellings, negative cases) enumerated by TLC; JsClimb.tla: TLC shows the parser's precedence-climbing loop equal to the declarative ladder; replay under all four Options judged by TLC trace validation",
            "TLC derives every expression with up to 2 operator nodes over the full operator vocabulary (every pair of operators in both nestings) and up to 3 over a reduced set, every statement kind with nested statements, bindings and destructuring, classes, arrow and assignment patterns, for-in/of heads, every legal terminator spelling (semicolon, line break, nothing) and the restricted productions, plus random large programs; for each it emits the token spelling, the String() rendering the grammar prescribes (also under WhileToFor) and negative variants (one bracket deleted or inserted, -a**b, ?? mixed with || or &&, assignment to a binary expression, two lexical declarations of a name); the harness parses ~1.15M programs x 4 Options and TLC validates accept => String() = canon, reject => error.",
            "import/export, with, super and some exotic forms are not generated; a vocabulary constructor that never occurs in the quick cases is a fatal error of the check. Seven recorded findings (grammatical programs that js.Parse rejects).",
            "DESIGN.md §4 C03"),
    "C06": ("TLA+ token grammar JsTokens.tla (200 atoms from ECMA-262 §12, MergesStrict / NeedsSep by maximal munch, bracket context of '}') with generator JsTokensGen.tla; all pairs x separators, context pairs, triples, nested templates, regexp re-reads lexed by js.Lexer; TLC trace validation",
            "TLC enumerates every pair of the 181 significant-token atoms with every admissible separator (none where safe, space, tab, newline, U+2028, comment), pairs inside template substitutions, triples, separator sequences, edge cases, regular-expression literals re-read with RegExp() after '/' and '/=', and nested templates to depth 3 (longer sequences by -simulate in thorough); the harness lexes each and TLC validates the exact (type, text) list, that keyword/punctuator/operator types are those whose canonical spelling equals the text, and CommentLineTerminator iff the comment holds a line terminator.",
            "Legacy octal forms and escape-spelled keywords are not generated; valid UTF-8 only, as the statement says. No defect found.",
            "DESIGN.md §4 C06"),
}
NOT_APPLICABLE = {
}

def main():
    props = [json.loads(l) for l in open(os.path.join(VERIF, "properties.jsonl"))]
    checks = []
    for p in props:
        pid = p["id"]
        if pid in CHECKS:
            tech, text, note, ref = CHECKS[pid]
            checks.append({
                "property_id": pid,
                "quick_cmd": "bin/check %s --tier quick" % pid,
                "thorough_cmd": "bin/check %s --tier thorough" % pid,
                "evidence_file": "/verif/evidence/%s.json" % pid,
                "replay_cmd_template": "bin/check %s --replay {path}" % pid,
                "engine": "tlc+vdrive",
                "level_claimed": {"category": "model_checking", "text": text, "design_ref": ref},
                "level_note": note,
                "technique": tech,
            })
    na = [{"property_id": p["id"], "reason": NOT_APPLICABLE.get(p["id"], "not yet built in this revision of /verif: the check is planned (DESIGN.md §4) and will be claimed once it runs; nothing is claimed for it now")}
          for p in props if p["id"] not in CHECKS]
    hooks_commits = []
    hp = os.path.join(VERIF, "hooks_commits.txt")
    if os.path.exists(hp):
        hooks_commits = [l.split()[0] for l in open(hp) if l.strip()]
    m = {
        "version": 1,
        "setup_cmd": "bin/setup",
        "hooks": {"guard": "verif", "enable": "go build -tags verif (harness module /verif/harness with replace github.com/tdewolff/parse/v2 => /repo)",
                  "baseline_off_cmd": "cd /repo && GOFLAGS=-mod=mod go test -vet=off -count=1 ./...",
                  "source_commits": hooks_commits, "add_only": True},
        "engines": [
            {"name": "tlc", "path": "/verif/lib/tlc.py", "serves_properties": sorted(CHECKS), "kind_free_text": "TLC 1.8 model checker: exhaustive checking of I=>P refinements, generation of cases from specifications, validation of traces recorded from the code"},
            {"name": "vdrive", "path": "/verif/harness", "serves_properties": sorted(CHECKS), "kind_free_text": "Go conformance harness (replace => /repo): replays TLC-generated cases on the real code and records traces for TLC"},
        ],
        "checks": checks,
        "not_applicable": na,
        "notes": "Verdicts come only from the behaviour of the real code judged by the property-level TLA+ specifications (DESIGN.md §2.3). known_findings.jsonl lists recorded and fixed defects.",
    }
    out = os.path.join(VERIF, "MANIFEST.json")
    json.dump(m, open(out, "w"), indent=1)
    r = subprocess.run(["python3-vt", "-c", "import json,jsonschema,sys; jsonschema.validate(json.load(open(sys.argv[1])), json.load(open('/root/.vp/MANIFEST.schema.json'))); print('manifest valid')", out])
    sys.exit(r.returncode)

if __name__ == "__main__":
    main()
