"""Binding self-test: for several suites record a few real traces, then (a) corrupt one logged result and (b) drop one event, and require
the trace specification to reject both while accepting the untouched trace.  Shows that the specifications are bound to what the code
logs and not merely to the length or shape of the trace.  Usage: python3 lib/selftest.py   (exit 0 = all bindings demonstrated)"""
import json
import os
import sys

sys.path.insert(0, os.path.dirname(os.path.abspath(__file__)))
import vcheck

CASES = [
    # (suite args producing a trace, spec dir, T module, cfg, extra spec dirs, event name to corrupt, field, corruption)
    (["cursor", "record", "-n", "40", "-seed", "7"], "cursor", "CursorTrace", "CursorTrace.cfg", (), "Peek", "r", lambda v: (v + 1) % 256),
    (["stream", "record", "-n", "40", "-seed", "7"], "stream", "StreamTrace", "StreamTrace.cfg", ("cursor",), "Peek", "r", lambda v: (v + 1) % 256),
    (["rw", "record", "-n", "40", "-seed", "7"], "buffer", "RWTrace", "RWTrace.cfg", (), "Write", "n", lambda v: v + 1),
    (["walk", "record", "-harvest", "5", "-combos", "5"], "js", "WalkTrace", "WalkTrace.cfg", (), "Exit", "id", lambda v: v + 1),
    (["conc", "history", "-tasks", "30"], "conc", "IsolationTrace", "IsolationTrace.cfg", (), "History", "same", lambda v: not v),
]


def main():
    ck = vcheck.Check("SELFTEST", "quick", 1)
    ck.build_harness()
    bad = 0
    for args, sdir, mod, cfg, extra, evname, field, corrupt in CASES:
        tp = ck.path("st-%s.ndjson" % args[0])
        ck.drive(*args, "-out", tp)
        lines = open(tp).read().split("\n")
        lines = [x for x in lines if x.strip()]
        base = ck.validate(sdir, mod, cfg, tp, shards=1, extra_dirs=extra)
        # (a) corrupt one result
        k = next(i for i, x in enumerate(lines) if json.loads(x).get("ev") == evname and field in json.loads(x) and i > len(lines) // 3)
        e = json.loads(lines[k])
        e[field] = corrupt(e[field])
        cp = ck.path("st-%s-corrupt.ndjson" % args[0])
        open(cp, "w").write("\n".join(lines[:k] + [json.dumps(e, separators=(",", ":"))] + lines[k + 1:]) + "\n")
        rc = ck.validate(sdir, mod, cfg, cp, shards=1, extra_dirs=extra)
        # (b) drop one state-changing event (renumber the rest of its trace so that only the content is missing)
        # (b) drop one state-changing event whose effect a later event of the same trace observes
        plan = {"cursor": ("Move", ("Offset", "Peek", "PeekErr", "Lexeme", "Shift", "Pos"), ("Reset", "Rewind", "Restore")),
                "stream": ("Shift", ("ShiftLen", "Pos", "Free"), ()),
                "rw": ("Write", ("Bytes", "Len"), ("ResetW",)),
                "walk": ("Enter", ("Exit",), ()), "conc": None}[args[0]]
        names = plan[0] if plan else None
        rd = None
        if plan:
            evs = [json.loads(x) for x in lines]

            def observed(j):
                if evs[j].get("ev") != plan[0] or evs[j].get("n") == 0 or evs[j].get("p") == []:
                    return False
                for o in evs[j + 1:]:
                    if o["t"] != evs[j]["t"] or o["ev"] in plan[2]:
                        return False
                    if o["ev"] in plan[1]:
                        return True
                return False
            j = next(i for i in range(len(evs) // 3, len(evs)) if observed(i))
            t = evs[j]["t"]
            out = lines[:j]
            for x in lines[j + 1:]:
                o = json.loads(x)
                if o["t"] == t:
                    o["i"] -= 1
                out.append(json.dumps(o, separators=(",", ":")))
            dp = ck.path("st-%s-drop.ndjson" % args[0])
            open(dp, "w").write("\n".join(out) + "\n")
            rd = ck.validate(sdir, mod, cfg, dp, shards=1, extra_dirs=extra)
        known_base = len(base)
        ok = len(rc) > known_base and (rd is None or len(rd) > known_base)
        print("%-8s untouched: %d rejected | corrupted %s.%s: %d rejected | dropped %s: %s  -> %s" % (
            args[0], len(base), evname, field, len(rc), names, "n/a" if rd is None else "%d rejected" % len(rd), "bound" if ok else "NOT BOUND"))
        bad += 0 if ok else 1
    import shutil
    shutil.rmtree(ck.work, ignore_errors=True)
    return 1 if bad else 0


if __name__ == "__main__":
    try:
        sys.exit(main())
    except vcheck.Fatal as ex:
        print("SELFTEST-ERROR:", ex)
        sys.exit(2)
