"""Binding self-test: for EVERY trace specification (kind T) used by the checks, record a few real traces the way the check does,
then (a) corrupt logged result fields (one event each, up to three per specification, each in a trace of its own) - fields the
property says matter and the T spec's Step reads - and, where the specification is stateful, (b) drop one state-changing event whose
effect a later event of the same trace observes, and require TLC to reject every corrupted / dropped trace while accepting the
untouched file.  Shows that the specifications are bound to what the
code logs and not merely to the length or shape of the trace.

Usage: python3 lib/selftest.py [--only Name[,Name...]] [--out FILE] [--jobs N]
Exit:  0 every specification is bound, 1 some corruption / drop was accepted, 2 the machinery failed.

One table (SPECS) drives everything; per specification there is a small function that records the trace file (`rec_*`) and small
functions that say which event / field to corrupt and which event to drop.  Per specification two TLC runs: the untouched file,
then corrupted + dropped copies of the whole file in one run (the dropped copy's trace ids are shifted by DROP_T).  A trace that the
untouched run already rejects (an OPEN entry of known_findings.jsonl) is never chosen as a target: the baseline is subtracted."""
import concurrent.futures
import json
import os
import re
import shutil
import sys
import time

sys.path.insert(0, os.path.dirname(os.path.abspath(__file__)))
import vcheck

DROP_T = 10 ** 8          # shift of the trace ids of the "dropped" copy inside the combined second run
TLC_TIMEOUT = 300


# ---------------------------------------------------------------------------------------------------------------- trace files
def dumps(e):
    return json.dumps(e, separators=(",", ":"))


def read_events(path):
    return [json.loads(x) for x in open(path) if x.strip()]


def write_events(path, evs):
    with open(path, "w") as f:
        for e in evs:
            f.write(dumps(e) + "\n")


def traces_of(evs):
    """[(lo, hi)] index ranges of the traces (a trace starts at i = 0)."""
    starts = [k for k, e in enumerate(evs) if e.get("i") == 0]
    return [(lo, (starts[n + 1] if n + 1 < len(starts) else len(evs))) for n, lo in enumerate(starts)]


def thin(path, keep, skip=None):
    """Keep at most `keep` traces of a recorded file (every k-th, so that all families of the recorder stay represented).  `skip` (a
    predicate on the events of a trace) leaves out the inputs that hit an OPEN entry of known_findings.jsonl / a known
    beyond-property note, so that the untouched file is accepted."""
    evs = read_events(path)
    tr = [(lo, hi) for lo, hi in traces_of(evs) if not (skip and skip(evs[lo:hi]))]
    step = max(1, (len(tr) + keep - 1) // keep)
    while step > 1 and any(step % q == 0 for q in range(2, step)):
        step += 1                   # a prime stride: recorders cycle through their families with small periods
    write_events(path, [e for lo, hi in tr[::step] for e in evs[lo:hi]])
    return path


def few_cases(path, keep, header=lambda line: False, skip=None):
    """Reduce a TLC-written case file to about `keep` lines: sorted (TLC's workers write in no fixed order), every k-th line;
    header lines (vocabulary / vacuity records some harnesses expect first) are kept.  `skip` (a predicate on the JSON text of a
    case) leaves out the inputs that hit an OPEN entry of known_findings.jsonl, so that the untouched file is accepted."""
    lines = sorted(set(x for x in open(path) if x.strip()))
    head = [x for x in lines if header(x)]
    rest = [x for x in lines if not header(x) and not (skip and skip(json.loads(x) if x.startswith('"') else x))]
    step = max(1, len(rest) // keep)
    with open(path, "w") as f:
        f.writelines(head + rest[::step])
    return path


# ---------------------------------------------------------------------------------------------------------------- recorders
# Each returns the path of a small trace file produced exactly the way the check of that specification produces its traces
# (same vdrive suite and mode; where the check replays TLC-generated cases, TLC generates them here too, from the smallest
# existing configuration, and only every k-th case is replayed).
def gen(ck, name, sdir, module, cfg, keep, header=lambda line: False, skip=None, **kw):
    cases = ck.path("cases-%s.ndjson" % name)
    kw.setdefault("workers", 2)
    ck.tlc(sdir, module, cfg, env={"VERIF_CASES": cases, "VERIF_SEED": 1}, timeout=TLC_TIMEOUT, count=False, label="selftest generator", **kw)
    if not os.path.exists(cases) or os.path.getsize(cases) == 0:
        ck.fatal("selftest: generator %s/%s %s wrote no cases" % (sdir, module, cfg))
    return few_cases(cases, keep, header, skip)


def rec_simple(*args):
    def rec(ck, name):
        tp = ck.path("st-%s.ndjson" % name)
        ck.drive(*args, "-out", tp)
        return tp
    return rec


PROTO_INPUTS = [("css.lex", "a{b:c}"), ("css.parse", "a{b:c d}e{f:1px}"), ("html", "<a href=x  id='y'>t</a><!--c-->"),
                ("xml", "<a b=\"c\"  d='e'><f/>t</a>"), ("json", "{\"a\":[1,true]}"), ("js.lex", "var a = 1+b;"),
                ("js.parse", "let a=1;if(a){b()}"), ("html.tmpl.go", "<p {{x}}>{{ y }}</p>")]


def rec_lexers(token_level_only):
    def rec(ck, name):
        inp, tp = ck.path("st-%s-in.ndjson" % name), ck.path("st-%s.ndjson" % name)
        with open(inp, "w") as f:
            for lang, s in PROTO_INPUTS:
                f.write(json.dumps({"lang": lang, "input": list(s.encode())}) + "\n")
        ck.drive("lexers", "file", "-in", inp, "-out", tp, "-family")
        if token_level_only:        # C02 says nothing about the parsers (checks/C02.py token_level_only)
            evs = read_events(tp)
            write_events(tp, [e for lo, hi in traces_of(evs) if evs[lo].get("tokenLvl") for e in evs[lo:hi]])
        return tp
    return rec


def rec_jsgram(ck, name):
    cases = gen(ck, name, "js", "JsGrammar", "G_classasi.cfg", 60)
    tp = ck.path("st-%s.ndjson" % name)
    ck.drive("jsgram", "replay", "-cases", cases, "-out", tp, "-seed", 1, "-muts", 1, "-sample", 1)
    return thin(tp, 150)


def scope_skip(s):
    """not replayed: parameter defaults, class expressions, for-var loops, loop conditions (the open C04 findings live there)"""
    return any(it.get("k") == "open" and (it.get("s") in ("cx", "forvar") or it.get("c") or any(p.get("d") for p in it.get("ps") or []))
               for it in json.loads(s).get("prog") or [])


TREE_PROGRAMS = ["x = a + b * c ;\nfor ( y = ( p in q ) ; ; ) ;\nfunction f ( ) { return 1 }",
                 "let a = 1 , b = [ a , 2 ] ; if ( a ) { b ( a ) } else c = a ? b : d", "class A extends B { m ( x ) { return x ** 2 } }",
                 "function * g ( ) { yield a + 1 ; }", "a = b || c && d ; e = - f * g"]


def rec_jstree(ck, name):
    inp, tp = ck.path("st-%s-in.ndjson" % name), ck.path("st-%s.ndjson" % name)
    with open(inp, "w") as f:
        for p in TREE_PROGRAMS:
            f.write(json.dumps({"src": list(p.encode())}) + "\n")
    ck.drive("jsgram", "treefile", "-in", inp, "-out", tp)
    return tp


def rec_scope(ck, name):
    cases = gen(ck, name, "js", "ScopeSem", "ScopeSem_sim.cfg", 150, skip=scope_skip, simulate=60, depth=12, seed=1, workers=1)
    tp = ck.path("st-%s.ndjson" % name)
    ck.drive("scope", "replay", "-cases", cases, "-out", tp, "-sample", 1, "-inputs", ck.path("st-%s-programs.ndjson" % name))
    return tp


def rec_printer(ck, name):
    tp = ck.path("st-%s.ndjson" % name)
    ck.drive("printer", "record", "-out", tp, "-seed", 1, "-harvest", 30, "-combos", 10, "-sample", 50)
    return thin(tp, 150)


def rec_jstok(ck, name):
    cases = gen(ck, name, "js", "JsTokensGen", "Gen_edges.cfg", 150, header=lambda x: '\\"vocab\\"' in x[:12])
    tp = ck.path("st-%s.ndjson" % name)
    ck.drive("jstok", "replay", "-cases", cases, "-out", tp, "-seed", 1, "-double", "-", "-mutevery", 1000000)
    return tp


def rec_csstok(ck, name):
    cases = gen(ck, name, "css", "CssTokensGen", "Gen_seps.cfg", 150, header=lambda x: '\\"meta\\"' in x[:12],
                skip=lambda s: '"n":"ur.' in s)       # unicode-range atoms: open C07 finding (U+1- abandoned)
    tp = ck.path("st-%s.ndjson" % name)
    ck.drive("csstok", "replay", "-cases", cases, "-out", tp, "-seed", 1, "-variants", 1, "-sample", 1)
    return tp


def rec_cssp(ck, name):
    tp = ck.path("st-%s.ndjson" % name)
    ck.drive("cssp", "record", "-out", tp, "-seed", 1, "-harvest", 30, "-muts", 1)
    return tp


def rec_cssgrammar(ck, name):
    cases = gen(ck, name, "css", "CssGrammar", "Grammar_kinds.cfg", 150)
    tp = ck.path("st-%s.ndjson" % name)
    ck.drive("cssp", "replay", "-cases", cases, "-out", tp, "-inputs", ck.path("st-%s-inputs.ndjson" % name), "-seed", 1, "-variants", 1, "-keep", 1)
    return tp


def rec_html(ck, name):
    cases = gen(ck, name, "html", "HtmlDoc", "Gen_html_quick.cfg", 150, header=lambda x: '\\"required\\"' in x[:16],
                skip=lambda s: '"svg"' in s or '"math"' in s)      # svg / math subtrees: open C09 findings
    tp = ck.path("st-%s.ndjson" % name)
    ck.drive("htmldoc", "replay", "-cases", cases, "-out", tp, "-seed", 1, "-variants", 1, "-muts", 0, "-alsotmpl", 1000000)
    return tp


def rec_json(ck, name):
    cases = gen(ck, name, "json", "JsonGrammar", "Gen_grammar_quick.cfg", 100)
    tp = ck.path("st-%s.ndjson" % name)
    ck.drive("jsonp", "replay", "-cases", cases, "-out", tp, "-seed", 1, "-variants", 1, "-muts", 0)
    return tp


def rec_xml(ck, name):
    cases = gen(ck, name, "xml", "XmlDoc", "Gen_deep.cfg", 60, simulate=40, depth=400, seed=1, workers=1)
    tp = ck.path("st-%s.ndjson" % name)
    ck.drive("xmldoc", "replay", "-cases", cases, "-out", tp, "-seed", 1, "-variants", 1, "-muts", 0)
    return tp


def rec_record(suite, keep, *flags, skip=None):
    def rec(ck, name):
        tp = ck.path("st-%s.ndjson" % name)
        extra = []
        if suite == "binary":
            os.makedirs(ck.path("tmp-%s" % name), exist_ok=True)
            extra = ["-tmp", ck.path("tmp-%s" % name)]
        ck.drive(suite, "record", *flags, *extra, "-out", tp)
        return thin(tp, keep, skip)
    return rec


def position_skip(tr):      # open C15 finding: xml error position after in-place attribute normalisation
    return any(e.get("ev") == "ErrPos" and e.get("msg") == "unexpected NULL character" for e in tr)


def helpers2_skip(tr):      # known beyond-property notes: IsIdent("") is true, AsIdentifierName is false for non-ASCII names
    o = tr[0]
    return (o.get("fam") == "css" and o.get("cls_id") == "empty") or (o.get("fam") == "js" and o.get("cls_id") == "non-ascii")


# ---------------------------------------------------------------------------------------------------------------- what to corrupt
# A corruption is (event names, field, f): f(event, trace, field) returns the corrupted value of event[field], or None when this
# event is not a suitable target (then the next candidate is tried).  `trace` is the list of events of the event's trace.  Every
# field named in the table is one the T spec's Step reads and the property statement speaks about; several corruptions of one
# specification go into different traces of the same file.
def bump(mod=None):
    return lambda e, tr, fld: (e[fld] + 1) % mod if mod else e[fld] + 1


def flip(e, tr, fld):
    return not e[fld]


def setv(value, when=lambda e, tr: True):
    return lambda e, tr, fld: value if when(e, tr) else None


def swap(a, b):
    """a -> b, anything else -> a"""
    return lambda e, tr, fld: b if e[fld] == a else a


def last_elem(f, when=lambda e, tr: True):
    """one element (the last) of a logged sequence of bytes / digits"""
    def g(e, tr, fld):
        v = e[fld]
        return v[:-1] + [f(v[-1])] if v and when(e, tr) else None
    return g


def a_token(e, tr):                  # a report that is a token (not an error report)
    return not e.get("err")


def proto_off(e, tr, fld):           # C01: the cursor leaves the input
    return e[fld] + 100000 if a_token(e, tr) else None


def token_slice(e, tr):              # C02: a token that is a slice of the input
    return e.get("al") and not e.get("err")


def concat_slice(e, tr):             # C02: ... of a CSS / JS lexer before any error report (tokens concatenate to the input)
    return token_slice(e, tr) and tr[0].get("concat") and not any(x.get("err") for x in tr if x["i"] < e["i"])


def accepted_program(e, tr):         # C03: js.Parse returned the tree of a derivable program
    return tr[0].get("kind") == "accept" and e.get("ok")


def scope_obs(e, tr, fld):           # C04: one identifier occurrence is attributed to another binding
    v = e[fld]
    if len(v) < 2:
        return None
    k = len(v) - 1
    if v[k] > 0 and v[k] in v[:k]:
        new = max(v) + 1             # split from the binding it shares with an earlier occurrence
    else:
        others = [x for x in v[:k] if x != v[k] and x > 0]
        if not others:
            return None
        new = others[0]              # merged with a different binding
    return v[:k] + [new]


def expected(flag):
    """a token of a trace that carries an expectation (Open[flag] true)"""
    return lambda e, tr: bool(tr[0].get(flag)) and not e.get("err")


def kind_swap(a, b, when):
    return lambda e, tr, fld: (b if e[fld] == a else a) if when(e, tr) else None


def derived(e, tr):                  # C06: a token of an input JsTokensGen derived
    return not tr[0].get("free") and not e.get("err")


def no_parse_error(tr):              # C08: nesting is judged while no parse error was reported
    return not any(x.get("pe") for x in tr)


def cssstream_gt(e, tr, fld):        # C08: a Begin reported as an End
    if not no_parse_error(tr) or e[fld] not in ("BeginRuleset", "BeginAtRule"):
        return None
    return "EndRuleset" if e[fld] == "BeginRuleset" else "EndAtRule"


def cssstream_tok(e, tr, fld):       # C08: a reported token that is not a token of the input
    v = e[fld]
    k = next((n for n, t in enumerate(v) if t.get("k") == "tok"), None)
    return None if k is None else v[:k] + [dict(v[k], k="none")] + v[k + 1:]


def json_kind(e, tr, fld):           # C10: an array start reported as an object start (and vice versa)
    return {"StartArray": "StartObject", "StartObject": "StartArray"}.get(e[fld]) if not e.get("err") else None


def read_ok(e, tr):                  # C19: a read that succeeded
    return e.get("x") == "nil"


FIXED_READS = tuple("Read%s%d" % (s, w) for s in ("Uint", "Int") for w in (8, 16, 24, 32, 64))
FIXED_WRITES = tuple("Write%s%d" % (s, w) for s in ("Uint", "Int") for w in (8, 16, 24, 32, 64))


# ---------------------------------------------------------------------------------------------------------------- what to drop
# A drop is (event names, observed): observed(events, j) says whether dropping events[j] is seen by a later event of its trace.
def later(target=lambda e, tr: True, observer=(), reset=(), trace_ok=lambda tr: True):
    """events[j] satisfies `target` and, before the end of its trace and before any `reset` event, an `observer` event follows."""
    def observed(evs, j, bounds):
        lo, hi = bounds
        tr = evs[lo:hi]
        if not trace_ok(tr) or not target(evs[j], tr):
            return False
        for o in evs[j + 1:hi]:
            if o["ev"] in reset:
                return False
            if (o["ev"] in observer) if isinstance(observer, tuple) else observer(o):
                return True
        return False
    return observed


def next_is(ev, kname):
    def observed(evs, j, bounds):
        return j + 1 < bounds[1] and evs[j].get("kname") == "StartTag" and evs[j + 1].get("ev") == ev and evs[j + 1].get("kname") == kname
    return observed


def proto_open(evs, j, bounds):
    """The constructor event of a trace whose first report is a token, directly after a trace that ended with io.EOF: without it
    the reports continue the finished stream of the previous input (NextProtocol: io.EOF is final)."""
    lo, hi = bounds
    if j != lo or lo == 0 or hi - lo < 2:
        return False
    first = evs[lo + 1]
    prev_t = evs[lo - 1]["t"]
    prev = [e for e in evs[:lo] if e["t"] == prev_t]
    return first.get("ev") == "Next" and not first.get("err") and any(e.get("ev") == "Next" and e.get("err") and e.get("eof") for e in prev)


def nonempty(e, tr):
    return e.get("n") != 0 and e.get("p") != []


# ---------------------------------------------------------------------------------------------------------------- the table
# name (= T module; its cfg is <name>.cfg), spec dir, extra spec dirs, recorder, corruptions [(events, field, f)], drop (events, observed) or None
SPECS = [
    ("CursorTrace", "cursor", (), rec_simple("cursor", "record", "-n", "40", "-seed", "7"),
     [(("Peek",), "r", bump(256))],
     (("Move",), later(nonempty, ("Offset", "Peek", "PeekErr", "Lexeme", "Shift", "Pos"), ("Reset", "Rewind", "Restore")))),
    ("StreamTrace", "stream", ("cursor",), rec_simple("stream", "record", "-n", "40", "-seed", "8"),
     [(("Peek",), "r", bump(256))],
     (("Shift",), later(nonempty, ("ShiftLen", "Pos", "Free")))),
    ("RWTrace", "buffer", (), rec_simple("rw", "record", "-n", "40", "-seed", "7"),
     [(("Write",), "n", bump())],
     (("Write",), later(nonempty, ("Bytes", "Len"), ("ResetW",)))),
    ("WalkTrace", "js", (), rec_simple("walk", "record", "-harvest", "5", "-combos", "5"),
     [(("Exit",), "id", bump())],
     (("Enter",), later(observer=("Exit",)))),
    ("IsolationTrace", "conc", (), rec_simple("conc", "history", "-tasks", "30"),
     [(("History",), "same", flip)],
     None),
    ("ProtoTrace", "proto", (), rec_lexers(False),                                                              # C01
     [(("Next",), "off", proto_off), (("Next",), "oob", flip), (("Parse", "String", "JS", "Walk", "JSON"), "out", setv("panic"))],
     (("Open",), proto_open)),
    ("TokenTrace", "proto", (), rec_lexers(True),                                                               # C02
     [(("Next",), "hi", lambda e, tr, fld: e[fld] + 1 if token_slice(e, tr) else None),
      (("Next",), "lo", lambda e, tr, fld: e[fld] + 1 if concat_slice(e, tr) else None),
      (("Next",), "capEq", setv(False, token_slice))],
     (("Next",), later(concat_slice, lambda o: o.get("ev") == "Next" and o.get("al") and not o.get("err"),
                       trace_ok=lambda tr: not any(x.get("err") and not x.get("eof") for x in tr)))),
    ("JsGrammarTrace", "js", (), rec_jsgram,                                                                    # C03
     [(("Parse",), "str", last_elem(lambda c: c ^ 1, accepted_program)), (("Parse",), "ok", setv(True, lambda e, tr: tr[0].get("kind") == "reject"))],
     None),
    ("JsTreeTrace", "js", (), rec_jstree,                                                                       # C03, the returned tree
     [(("Node",), "op", lambda e, tr, fld: "*" if e.get("k") == "bin" and e[fld] == "+" and e.get("ck") == ["id", "bin"] else None),   # a + b * c as a * (b * c): operand below the demanded level
      (("Node",), "g", lambda e, tr, fld: [[e[fld][0][0] + 16]] if e.get("k") == "id" and len(e[fld]) == 1 and len(e[fld][0]) == 1 else None)],  # another terminal
     (("Node",), later(lambda e, tr: e.get("n") == 0 and e.get("d", 0) > 0, ("Node", "Close")))),
    ("ScopeTrace", "js", (), rec_scope,                                                                         # C04
     [(("Vars",), "obs", scope_obs), (("Reparse",), "obs", scope_obs), (("Parse",), "ok", flip),
      (("Vars",), "keys", lambda e, tr, fld: (e[fld] + ["zz"]) if e.get("xkeys") else None)],      # a property key more than the source has
     None),
    ("PrinterTrace", "js", (), rec_printer,                                                                     # C05
     [(("Trees",), "equal", flip), (("Print2",), "same", flip), (("Literals",), "missing", setv([1]))],
     (("Parse2",), later(observer=("Trees", "Print2")))),
    ("JsTokensTrace", "js", (), rec_jstok,                                                                      # C06
     [(("Tok",), "kname", kind_swap("Identifier", "String", derived)), (("Tok",), "hi", lambda e, tr, fld: e[fld] + 1 if derived(e, tr) else None),
      (("Tok",), "same", setv(False, derived))],
     (("Tok",), later(derived, ("Tok", "End")))),
    ("CssTokensTrace", "css", (), rec_csstok,                                                                   # C07
     [(("Tok",), "kname", swap("Dimension", "Ident")), (("Tok",), "same", flip)],
     (("Tok",), later(observer=("Tok", "End"), trace_ok=lambda tr: tr[0].get("mode") == "tok"))),
    ("CssStreamTrace", "css", (), rec_cssp,                                                                     # C08, all inputs
     [(("Next",), "gt", cssstream_gt), (("Next",), "toks", cssstream_tok)],
     (("Next",), later(lambda e, tr: e.get("gt") in ("BeginRuleset", "BeginAtRule"), lambda o: o.get("gt") in ("EndRuleset", "EndAtRule"),
                       trace_ok=no_parse_error))),
    ("CssGrammarTrace", "css", (), rec_cssgrammar,                                                              # C08, well-formed
     [(("Unit",), "gt", swap("Declaration", "AtRule")), (("Unit",), "m", setv(-1))],
     (("Unit",), later(observer=("Unit", "Finish")))),
    ("HtmlTrace", "html", (), rec_html,                                                                         # C09
     [(("Tok",), "kname", kind_swap("Text", "Comment", expected("checked"))), (("Tok",), "dOK", setv(False, expected("checked"))),
      (("Tok",), "tmpl", lambda e, tr, fld: (not e[fld]) if expected("checked")(e, tr) else None)],
     (("Tok",), next_is("Tok", "Attribute"))),
    ("JsonTrace", "json", (), rec_json,                                                                         # C10
     [(("Next",), "kname", json_kind), (("Next",), "data", last_elem(lambda c: c ^ 1, a_token)), (("Next",), "sa", setv("Value", lambda e, tr: a_token(e, tr) and e["sa"] != "Value"))],
     (("Next",), later(lambda e, tr: e.get("kname") in ("StartObject", "StartArray"), lambda o: o.get("kname") in ("EndObject", "EndArray")))),
    ("XmlTrace", "xml", (), rec_xml,                                                                            # C11
     [(("Tok",), "kname", kind_swap("Text", "Comment", expected("wf"))), (("Tok",), "text", last_elem(lambda c: c ^ 1, expected("wf"))),
      (("Tok",), "val", last_elem(lambda c: c ^ 1, lambda e, tr: expected("wf")(e, tr) and e.get("kname") == "Attribute"))],
     (("Tok",), next_is("Tok", "Attribute"))),
    ("NumericTrace", "strconv", (), rec_record("numeric", 150, "-n", 120, "-seed", 7),                          # C14
     [(("ParseUint", "ParseInt"), "d", last_elem(lambda d: (d + 1) % 10)), (("AppendInt",), "o", last_elem(lambda c: 48 + (c - 47) % 10)),
      (("ParseUint", "ParseInt"), "n", bump())],
     None),
    ("PositionTrace", "text", (), rec_record("position", 200, "-n", 30, "-offs", 3, "-m", 10, "-seed", 7, skip=position_skip),   # C15
     [(("Pos",), "line", bump()), (("Pos",), "col", lambda e, tr, fld: e[fld] + 1000),
      (("ErrPos",), "same", lambda e, tr, fld: False if e.get(fld) is True else None)],              # position depends on earlier Err() calls
     None),
    ("HelpersTrace", "text", (), rec_record("helpers", 300, "-n", 100, "-seed", 7),                             # C16
     [(("Number",), "r", bump()), (("IsAllWhitespace",), "r", flip), (("ToLower",), "r", last_elem(lambda c: c ^ 1))],
     None),
    ("NormaliseTrace", "text", (), rec_record("normalise", 150, "-n", 100, "-seed", 7),                         # C17
     [(("RMW",), "o", lambda e, tr, fld: e[fld] + [120]), (("RE",), "o", lambda e, tr, fld: e[fld] + [120]), (("Esc",), "rb", last_elem(lambda c: c ^ 1))],
     None),
    ("BinaryTrace", "binary", (), rec_record("binary", 60, "-n", 40, "-steps", 12, "-seed", 7),                 # C19
     [(FIXED_READS, "v", last_elem(lambda c: (c + 1) % 256, read_ok)), (FIXED_READS + ("ReadBytes",), "x", setv("eof", read_ok)), (("Pos",), "r", bump())],
     (FIXED_WRITES + ("WriteBytes",), later(nonempty, FIXED_WRITES + ("WriteBytes", "WLen", "WBytes"), ("Open", "BitOpen")))),
    ("Helpers2Trace", "text", ("css",), rec_record("helpers2", 400, "-n", 40, "-seed", 7, skip=helpers2_skip),  # growth beyond C16
     [(("LenUint",), "r", bump()), (("Copy",), "r", last_elem(lambda c: c ^ 1)), (("Printable",), "og", flip)],
     (("Write",), later(lambda e, tr: e.get("p"), ("Out",)))),
]


# ---------------------------------------------------------------------------------------------------------------- one specification
def candidates(evs, names, excluded):
    """indices of events with one of the names in traces the untouched run accepted (and not yet used), starting a third into the file"""
    n = len(evs)
    order = list(range(n // 3, n)) + list(range(0, n // 3))
    return [k for k in order if evs[k].get("ev") in names and evs[k]["t"] not in excluded]


def bounds_of(tr_bounds, k):
    return next(b for b in tr_bounds if b[0] <= k < b[1])


def run_spec(ck, spec):
    name, sdir, extra, rec, corruptions, drop = spec
    cfg = name + ".cfg"
    t0 = time.time()
    tp = rec(ck, name)
    evs = read_events(tp)
    if not evs:
        ck.fatal("selftest %s: the recorder wrote no events" % name)
    write_events(tp, evs)                        # canonical form (one line per event), whatever the recorder's spacing
    tb = traces_of(evs)

    def validate(path):
        return ck.validate(sdir, name, cfg, path, shards=1, extra_dirs=extra, timeout=TLC_TIMEOUT)
    base = validate(tp)
    base_t = {f["t"] for f in base}
    if len(base_t) * 2 > len(tb):
        ck.fatal("selftest %s: the untouched file is rejected for %d of %d traces" % (name, len(base_t), len(tb)))

    # (a) corrupt result fields, each in a trace of its own that the untouched run accepted
    changed, used, labels = {}, set(base_t), []
    for cnames, field, cf in corruptions:
        hit = None
        for k in candidates(evs, cnames, used):
            if field in evs[k]:
                lo, hi = bounds_of(tb, k)
                new = cf(evs[k], evs[lo:hi], field)
                if new is not None and new != evs[k][field]:
                    hit = (k, new)
                    break
        if hit is None:
            ck.fatal("selftest %s: no event %s with a field %s to corrupt in %d events" % (name, "/".join(cnames), field, len(evs)))
        changed[hit[0]] = (field, hit[1])
        used.add(evs[hit[0]]["t"])
        labels.append("%s.%s" % (evs[hit[0]]["ev"], field))
    second = [dict(e, **{changed[k][0]: changed[k][1]}) if k in changed else e for k, e in enumerate(evs)]
    c_ts = {evs[k]["t"]: evs[k]["i"] for k in changed}

    # (b) drop one state-changing event that a later event observes (the rest of its trace is renumbered: only the content is missing)
    d_t = d_ev = None
    if drop:
        dnames, observed = drop
        j = next((k for k in candidates(evs, dnames, base_t) if observed(evs, k, bounds_of(tb, k))), None)
        if j is None:
            ck.fatal("selftest %s: no event %s whose absence a later event observes" % (name, "/".join(dnames)))
        lo, hi = bounds_of(tb, j)
        d_t, d_ev = evs[j]["t"] + DROP_T, evs[j]["ev"]
        for k, e in enumerate(evs):
            if k == j:
                continue
            e = dict(e, t=e["t"] + DROP_T)
            if j < k < hi and evs[j]["i"] > 0:
                e["i"] -= 1
            second.append(e)
    sp = ck.path("st-%s-mutated.ndjson" % name)
    write_events(sp, second)
    fails = validate(sp)
    rc = [f for f in fails if f["t"] < DROP_T]
    rd = [f for f in fails if f["t"] >= DROP_T]
    # every corrupted trace must be rejected at the corrupted event or at a later one that observes it (a JSON unit's bytes are
    # compared when the document ends), on top of whatever the untouched file had rejected
    ok_c = all(any(f["t"] == t and f["i"] >= i for f in rc) for t, i in c_ts.items()) and len(rc) == len(base) + len(c_ts)
    ok_d = (not drop) or (d_t in {f["t"] for f in rd} and len(rd) == len(base) + 1)
    line = "%-16s untouched: %d rejected | corrupted %s: %d rejected | dropped %s: %s -> %s" % (
        name, len(base), " ".join(labels), len(rc), d_ev if drop else "-", ("%d rejected" % len(rd)) if drop else "n/a",
        "bound" if ok_c and ok_d else "NOT BOUND")
    return {"name": name, "ok": ok_c and ok_d, "line": line, "wall": time.time() - t0, "traces": len(tb), "events": len(evs)}


def main(argv):
    import argparse
    ap = argparse.ArgumentParser()
    ap.add_argument("--only", default="", help="comma separated T module names")
    ap.add_argument("--out", default="", help="also write the result lines to this file")
    ap.add_argument("--jobs", type=int, default=4, help="specifications handled in parallel (one TLC process each)")
    a = ap.parse_args(argv)
    only = [x for x in a.only.split(",") if x]
    unknown = [x for x in only if x not in [s[0] for s in SPECS]]
    if unknown:
        print("SELFTEST-ERROR: unknown specification(s) %s" % unknown)
        return 2
    specs = [s for s in SPECS if not only or s[0] in only]
    import signal
    for sg in (signal.SIGTERM, signal.SIGINT, signal.SIGHUP):      # leave no TLC or driver process behind
        signal.signal(sg, vcheck._kill_descendants)
    t0 = time.time()
    ck = vcheck.Check("SELFTEST", "quick", 1)
    try:
        ck.build_harness()
        results = {}
        with concurrent.futures.ThreadPoolExecutor(max_workers=max(1, a.jobs)) as ex:
            futs = {ex.submit(run_spec, ck, s): s[0] for s in specs}
            for f in concurrent.futures.as_completed(futs):
                try:
                    results[futs[f]] = f.result()
                except Exception as ex:          # vcheck.Fatal (TLC / the driver failed to run) or a bug in this file: never a verdict
                    msg = str(ex) if isinstance(ex, vcheck.Fatal) else "%s: %s" % (type(ex).__name__, ex)
                    results[futs[f]] = {"ok": False, "error": True, "line": "%-16s SELFTEST-ERROR: %s" % (futs[f], " ".join(msg.split())[:300])}
    finally:
        shutil.rmtree(ck.work, ignore_errors=True)
    lines = [results[s[0]]["line"] for s in specs]
    errors = [s[0] for s in specs if results[s[0]].get("error")]
    bad = [s[0] for s in specs if not results[s[0]]["ok"] and not results[s[0]].get("error")]
    lines.append("%d trace specifications, %d bound, %d NOT BOUND%s%s; wall %.0f s" % (
        len(specs), len(specs) - len(bad) - len(errors), len(bad), (" (" + ", ".join(bad) + ")") if bad else "",
        (", %d not judged because the machinery failed (%s)" % (len(errors), ", ".join(errors))) if errors else "", time.time() - t0))
    print("\n".join(lines))
    if a.out:
        os.makedirs(os.path.dirname(os.path.abspath(a.out)), exist_ok=True)
        with open(a.out, "w") as f:
            f.write("\n".join(lines) + "\n")
    return 2 if errors else 1 if bad else 0


if __name__ == "__main__":
    try:
        sys.exit(main(sys.argv[1:]))
    except vcheck.Fatal as ex:
        print("SELFTEST-ERROR:", ex)
        sys.exit(2)
