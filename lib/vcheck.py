"""Shared machinery of every check: work directory, harness build, TLC steps, trace validation, verdicts,
known findings, evidence.  A property script (checks/Cnn.py) only strings these steps together.

Exit codes (DESIGN.md §2.3): 0 property held on everything explored (KNOWN-FINDING lines allowed),
1 at least one violation not listed in known_findings.jsonl, 2 the machinery itself failed (never a violation).
"""
import concurrent.futures
import hashlib
import json
import os
import shutil
import subprocess
import sys
import tempfile
import time

import tlc as tlcmod

VERIF = os.path.dirname(os.path.dirname(os.path.abspath(__file__)))
REPO = os.environ.get("VERIF_REPO", "/repo")
OUT = os.environ.get("VERIF_OUT") or VERIF      # where evidence/ and replay/ are written (mutation runs redirect it)
SPEC = os.path.join(VERIF, "spec")
COMMON = os.path.join(SPEC, "common")
GOENV = {"GOFLAGS": "-mod=mod", "GOPROXY": "off", "GOSUMDB": "off", "GOTOOLCHAIN": "local"}


SHARD_EVENTS = 150000


class Fatal(Exception):
    pass


def load_known():
    path = os.path.join(VERIF, "known_findings.jsonl")
    out = []
    if os.path.exists(path):
        for line in open(path):
            line = line.strip()
            if line and not line.startswith("#"):
                out.append(json.loads(line))
    return out


class Check:
    def __init__(self, pid, tier="quick", seed=1, replay=None):
        self.pid, self.tier, self.seed, self.replay = pid, tier, int(seed), replay
        self.t0 = time.time()
        self.work = os.path.join(VERIF, ".work", "%s-%s-%d" % (pid, tier, os.getpid()))
        shutil.rmtree(self.work, ignore_errors=True)
        os.makedirs(self.work)
        self.vdrive = None
        self.hooks = "unknown"
        self.cov = {"states": 0, "transitions": 0, "traces_validated_against_impl": 0, "samples": [],
                    "evaluations": 0, "distinct_nontrivial": 0, "rule": "", "exhaustive": False,
                    "tlc_runs": [], "harness_runs": [], "model_drift": [], "constants": {}}
        self.assumptions = []
        self.violations = {}   # sig -> dict
        self.known_hits = {}
        self.notes = []
        self.cores = int(os.environ.get("VERIF_CORES", os.cpu_count() or 4))

    # ------------------------------------------------------------------ plumbing
    def log(self, *a):
        print("[%s %6.1fs]" % (self.pid, time.time() - self.t0), *a, flush=True)

    def path(self, name):
        return os.path.join(self.work, name)

    def fatal(self, msg):
        raise Fatal(msg)

    def modfile(self):
        """go build arguments selecting the checkout to build against: none for /repo (harness/go.mod replaces the module
        with /repo); for $VERIF_REPO (a scratch clone used by mutation runs) a private go.mod whose replace points there."""
        hdir = os.path.join(VERIF, "harness")
        if REPO == "/repo":
            shutil.copy(os.path.join(REPO, "go.sum"), os.path.join(hdir, "go.sum"))
            return []
        mf = self.path("go.mod")
        with open(mf, "w") as f:
            f.write(open(os.path.join(hdir, "go.mod")).read().replace("=> /repo", "=> " + REPO))
        shutil.copy(os.path.join(REPO, "go.sum"), self.path("go.sum"))
        return ["-modfile", mf]

    def build_harness(self):
        """Build vdrive against /repo's current working tree, with the verif hooks if they still compile."""
        hdir = os.path.join(VERIF, "harness")
        env = dict(os.environ)
        env.update(GOENV)
        out = self.path("vdrive")
        last = ""
        mf = self.modfile()
        for tags, label in ((["-tags", "verif"], "on"), ([], "unavailable")):
            p = subprocess.run(["go", "build"] + mf + tags + ["-o", out, "./cmd/vdrive"], cwd=hdir, env=env,
                               stdout=subprocess.PIPE, stderr=subprocess.STDOUT, text=True)
            last = p.stdout
            if p.returncode == 0:
                self.vdrive, self.hooks = out, label
                if label != "on":
                    self.notes.append("hooks_unavailable: -tags verif build failed; verdicts do not depend on hooks")
                return
        self.fatal("harness does not build against /repo:\n" + last[-3000:])

    def drive(self, *args, timeout=3600, stdin=None, env=None, check=True):
        """Run vdrive; the last line of stdout is a JSON summary."""
        e = dict(os.environ)
        if env:
            e.update({k: str(v) for k, v in env.items()})
        t0 = time.time()

        def once():
            for a in args:
                if isinstance(a, str) and os.path.exists(a + ".hang"):
                    os.remove(a + ".hang")
            try:
                return subprocess.run([self.vdrive] + [str(a) for a in args], cwd=self.work, env=e, input=stdin,
                                      stdout=subprocess.PIPE, stderr=subprocess.PIPE, text=True, timeout=timeout)
            except subprocess.TimeoutExpired:
                self.fatal("vdrive %s timed out after %ss" % (" ".join(map(str, args[:2])), timeout))
        p = once()
        if p.returncode == 3:
            # The driver's watchdog fired.  Before this counts as "a call did not return" it must happen again in a second run of
            # the same (seeded, deterministic) driver with the per-case limit multiplied by 6: a machine under load is not a defect.
            e["VERIF_WD_SCALE"] = "6"
            self.notes.append("watchdog fired in vdrive %s; re-running with a 6x limit to confirm" % " ".join(map(str, args[:2])))
            p = once()
            if p.returncode != 3:
                self.notes.append("not confirmed: the second run completed (first firing attributed to machine load)")
        if p.returncode == 3:
            # the watchdog of the driver: a call into the library did not return
            hang = None
            for a in args:
                if isinstance(a, str) and os.path.exists(a + ".hang"):
                    hang = json.load(open(a + ".hang"))
            self.hangs = getattr(self, "hangs", [])
            self.hangs.append({"args": [str(a) for a in args[:2]], "hang": hang})
            return {"_rc": 3, "_hang": hang, "cases": 1, "executions": 0, "mismatches": 0, "traces": 0, "events": 0, "distinct_nontrivial": 0}
        if p.returncode != 0 and check:
            self.fatal("vdrive %s failed rc=%d:\n%s" % (" ".join(map(str, args)), p.returncode, (p.stderr or "")[-3000:]))
        lines = [x for x in p.stdout.strip().split("\n") if x.strip()]
        try:
            summ = json.loads(lines[-1]) if lines else {}
        except ValueError:
            self.fatal("vdrive %s: no JSON summary: %s" % (args[:2], p.stdout[-500:]))
        summ["_rc"] = p.returncode
        summ["_stderr"] = (p.stderr or "")[-2000:]
        self.cov["harness_runs"].append({"args": [str(a) for a in args[:2]], "wall_s": round(time.time() - t0, 2),
                                         **{k: v for k, v in summ.items() if isinstance(v, (int, float, str)) and not k.startswith("_")}})
        return summ

    # ------------------------------------------------------------------ TLC steps
    def tlc(self, subdir, module, cfg, *, label=None, expect_violation=None, count=True, **kw):
        """Model-check / generate with TLC.  Any TLC failure is a failure of the machinery (exit 2), except an
        expected violation (used by the 'defect' configurations that document what a model of the broken code does)."""
        kw.setdefault("workers", min(8, self.cores))
        kw.setdefault("lib_dirs", (COMMON,))
        r = tlcmod.run_tlc(os.path.join(SPEC, subdir), module, cfg, self.work, **kw)
        rec = {"spec": "%s/%s" % (subdir, module), "cfg": cfg, "generated": r.generated, "distinct": r.distinct,
               "depth": r.depth, "wall_s": round(r.wall_s, 2), "label": label or ""}
        self.cov["tlc_runs"].append(rec)
        if expect_violation:
            if r.violated != expect_violation:
                self.fatal("TLC %s/%s %s: expected violation of %s, got %s\n%s" %
                           (subdir, module, cfg, expect_violation, r.violated, r.out[-2000:]))
            rec["expected_violation"] = expect_violation
        elif not r.ok:
            self.fatal("TLC %s/%s %s failed (violated=%s, error=%s)\n%s" %
                       (subdir, module, cfg, r.violated, r.error, r.out[-3000:]))
        if count and not expect_violation:
            self.cov["states"] += r.distinct or 0
            self.cov["transitions"] += r.generated or 0
        shutil.rmtree(r.scratch, ignore_errors=True)
        return r

    def tlaps(self, subdir, module, deps=(), timeout=600):
        """Check the proofs of spec/<subdir>/<module>.tla with the TLA+ proof system (unbounded-parameter safety of a P spec).
        A failed obligation is an error of the specification (exit 2), never a violation; a missing tlapm is recorded and skipped."""
        import re
        if not shutil.which("tlapm"):
            self.notes.append("tlapm not installed: proofs of %s not re-checked" % module)
            return None
        d = tempfile.mkdtemp(prefix="tlaps-", dir=self.work)
        for f in (module,) + tuple(deps):            # a dependency of another directory is written "dir/Module"
            shutil.copy(os.path.join(VERIF, "spec", *(f.split("/") if "/" in f else (subdir, f))) + ".tla", d)
        t0 = time.time()
        try:
            p = subprocess.run(["tlapm", "--threads", "8", "--cleanfp", module + ".tla"], cwd=d, capture_output=True, text=True, timeout=timeout)
        except subprocess.TimeoutExpired:
            self.fatal("tlapm timed out on %s" % module)
        out = p.stdout + p.stderr
        m = re.search(r"All (\d+) obligations? proved", out)
        rec = {"spec": "%s/%s" % (subdir, module), "tool": "tlapm", "wall_s": round(time.time() - t0, 1), "obligations_proved": int(m.group(1)) if m else 0}
        self.cov["tlc_runs"].append(rec)
        shutil.rmtree(d, ignore_errors=True)
        if not m:
            self.fatal("tlapm did not prove %s: %s" % (module, out[-600:]))
        self.log("tlapm %s: %s obligations proved in %.1fs" % (module, m.group(1), rec["wall_s"]))
        return rec

    def validate(self, subdir, module, cfg, trace_path, *, shards=None, lib_dirs=None, timeout=1800, extra_dirs=()):
        """Validate a (concatenated) trace file against a T spec.  Returns the list of rejected events
        [{t, i, l, ev, trace: [events...]}].  Traces are split into shards validated by parallel TLC processes."""
        events_by_shard, n_traces, n_events = self._split(trace_path, shards)
        if n_events == 0:
            return []
        self._action_histogram(subdir, module, events_by_shard)
        results = []

        def one(k):
            tp = self.path("shard-%s-%d.ndjson" % (os.path.basename(trace_path), k))
            fp = tp + ".fail"
            with open(tp, "w") as f:
                f.writelines(events_by_shard[k])
            if os.path.exists(fp):
                os.remove(fp)
            r = tlcmod.run_tlc(os.path.join(SPEC, subdir), module, cfg, self.work, workers=1, timeout=timeout,
                               lib_dirs=(COMMON,) + tuple(os.path.join(SPEC, d) for d in extra_dirs),
                               env={"VERIF_TRACE": tp, "VERIF_FAIL": fp}, heap="3g")
            fails = []
            if os.path.exists(fp):
                for line in open(fp):
                    line = line.strip()
                    if line:
                        fails.append(json.loads(json.loads(line)))
            return k, r, fails, len(events_by_shard[k])

        with concurrent.futures.ThreadPoolExecutor(max_workers=min(len(events_by_shard), self.cores)) as ex:
            for k, r, fails, nev in ex.map(one, range(len(events_by_shard))):
                if not r.ok or r.postcondition_failed:
                    self.fatal("trace validation %s/%s failed to run (shard %d): violated=%s error=%s\n%s" %
                               (subdir, module, k, r.violated, r.error, r.out[-3000:]))
                if (r.distinct or 0) < nev + 1:
                    self.fatal("trace validation %s/%s consumed %s of %d events" % (subdir, module, r.distinct, nev))
                self.cov["tlc_runs"].append({"spec": "%s/%s" % (subdir, module), "cfg": cfg, "label": "trace-validation",
                                             "events": nev, "rejected": len(fails), "wall_s": round(r.wall_s, 2)})
                lines = events_by_shard[k]
                for f in fails:
                    tid = f["t"]
                    f["trace"] = self._trace_of(lines, f["l"] - 1, tid)
                    results.append(f)
                shutil.rmtree(r.scratch, ignore_errors=True)
        self.cov["traces_validated_against_impl"] += n_traces
        self.cov.setdefault("trace_events_validated", 0)
        self.cov["trace_events_validated"] += n_events
        return results

    def _action_histogram(self, subdir, module, events_by_shard):
        """Vacuity report: how often each event kind (= action of the property spec) occurred in the validated traces, and which
        event kinds the trace specification names that no trace of this run contained."""
        import collections
        import re
        hist = collections.Counter()
        rx = re.compile(r'"ev":"([A-Za-z0-9_.]+)"')
        for lines in events_by_shard:
            for x in lines:
                m = rx.search(x)
                if m:
                    hist[m.group(1)] += 1
        named = set()
        try:
            txt = open(os.path.join(SPEC, subdir, module + ".tla")).read()
            named |= set(re.findall(r'\.ev = "([A-Za-z0-9_.]+)"', txt))
            for grp in re.findall(r'\.ev \\in \{([^}]*)\}', txt):
                named |= set(re.findall(r'"([A-Za-z0-9_.]+)"', grp))
        except OSError:
            pass
        a = self.cov.setdefault("actions_observed", {}).setdefault(module, {})
        for k, v in hist.items():
            a[k] = a.get(k, 0) + v
        self.cov.setdefault("actions_named_but_never_observed", {})[module] = sorted(named - set(a))

    @staticmethod
    def _trace_of(lines, idx, tid):
        # events of one trace are contiguous and numbered i = 0, 1, 2, ...
        lo = idx - json.loads(lines[idx])["i"]
        hi = idx
        while hi + 1 < len(lines) and json.loads(lines[hi + 1]).get("t") == tid and hi - lo < 5000:
            hi += 1
        return [json.loads(x) for x in lines[lo:hi + 1]]

    def _split(self, trace_path, shards):
        lines = open(trace_path).readlines()
        n_events = len(lines)
        if shards is None:
            # as many shards as cores, but no shard larger than SHARD_EVENTS events (TLC reads a shard's trace into memory as
            # one TLA+ value): large traces are validated in waves of `cores` shards
            shards = max(1, min(self.cores, n_events // 20000 + 1), -(-n_events // SHARD_EVENTS))
        # split at trace boundaries ("i":0 marks the first event of a trace)
        bounds = [k for k, x in enumerate(lines) if '"i":0,' in x or '"i":0}' in x]
        n_traces = len(bounds)
        if n_traces == 0:
            return [lines], 0, n_events
        if not getattr(self, "_sample_fallback", None):      # a trace of this run, in case the suite's summary carries no sample
            mid = bounds[n_traces // 2]
            nxt = bounds[n_traces // 2 + 1] if n_traces // 2 + 1 < n_traces else n_events
            try:
                self._sample_fallback = [json.loads(x) for x in lines[mid:min(nxt, mid + 6)]]
            except ValueError:
                pass
        per = max(1, (n_traces + shards - 1) // shards)
        out = []
        for s in range(0, n_traces, per):
            lo = bounds[s]
            hi = bounds[s + per] if s + per < n_traces else n_events
            out.append(lines[lo:hi])
        return out, n_traces, n_events

    # ------------------------------------------------------------------ verdicts
    def violation(self, sig, what, replay_obj):
        """Register a reproduced disagreement between the code and the property-level specification."""
        alias = getattr(self, "known_alias", {}).get(sig)
        if sig in self.violations or sig in self.known_hits or alias:
            (self.violations.get(sig) or self.known_hits.get(sig) or self.known_hits.get(alias))["count"] += 1
            return
        for k in load_known():
            ks = k.get("sig", "")
            if k.get("property") == self.pid and k.get("status") == "open" and (ks == sig or (ks.endswith("*") and sig.startswith(ks[:-1]))):
                # one KNOWN-FINDING line per listed finding (its own sig), however many concrete variants matched it
                if ks in self.known_hits:
                    self.known_hits[ks]["count"] += 1
                    self.known_hits[ks].setdefault("variants", set()).add(sig)
                else:
                    self.known_hits[ks] = {"what": k.get("what", what), "count": 1, "variants": {sig}}
                self.known_alias = getattr(self, "known_alias", {})
                self.known_alias[sig] = ks
                return
        rdir = os.path.join(OUT, "replay", self.pid)
        os.makedirs(rdir, exist_ok=True)
        name = hashlib.sha1(sig.encode()).hexdigest()[:12] + ".json"
        rp = os.path.join(rdir, name)
        with open(rp, "w") as f:
            json.dump({"property": self.pid, "sig": sig, "what": what, "tier": self.tier, "seed": self.seed, **replay_obj}, f, indent=1)
        self.violations[sig] = {"what": what, "replay": rp, "count": 1}

    def beyond(self, sig, what, obj):
        """A disagreement between the code and a GROWTH specification (behaviour outside the listed property's statement):
        recorded in the evidence and printed as a NOTE, never a VIOLATION of the property this check decides."""
        b = self.cov.setdefault("beyond_property", {})
        if sig in b:
            b[sig]["count"] += 1
        else:
            b[sig] = {"what": what, "count": 1, **obj}

    def finish(self, level="model_checking"):
        for s, v in self.cov.get("beyond_property", {}).items():
            print("NOTE beyond-property (growth specification, not part of %s): %s (sig=%s, %d occurrence(s))" % (self.pid, v["what"], s, v["count"]))
        if not self.cov.get("samples") and getattr(self, "_sample_fallback", None):
            self.cov["samples"] = [self._sample_fallback]
        ev = {
            "property_id": self.pid, "tier": self.tier, "seed": self.seed, "level": level,
            "coverage": self.cov, "assumptions": self.assumptions, "wall_s": round(time.time() - self.t0, 2),
            "violations": len(self.violations),
            "known_findings_hit": [{"sig": s, **{k: (sorted(x) if isinstance(x, set) else x) for k, x in v.items()}} for s, v in self.known_hits.items()],
            "hooks": self.hooks, "notes": self.notes,
        }
        os.makedirs(os.path.join(OUT, "evidence"), exist_ok=True)
        with open(os.path.join(OUT, "evidence", self.pid + ".json"), "w") as f:
            json.dump(ev, f, indent=1, default=str)
        for s, v in self.known_hits.items():
            print("KNOWN-FINDING: property=%s %s (sig=%s, %d occurrence(s))" % (self.pid, v["what"], s, v["count"]))
        for s, v in self.violations.items():
            print("VIOLATION property=%s replay=%s  # %s (sig=%s, %d occurrence(s))" % (self.pid, v["replay"], v["what"], s, v["count"]))
        shutil.rmtree(self.work, ignore_errors=True)
        if self.violations:
            return 1
        print("OK property=%s tier=%s seed=%d states=%d transitions=%d traces=%d wall=%.1fs" % (
            self.pid, self.tier, self.seed, self.cov["states"], self.cov["transitions"],
            self.cov["traces_validated_against_impl"], time.time() - self.t0))
        return 0


def _kill_descendants(*a):
    """On SIGTERM/SIGINT/SIGHUP: leave no TLC or driver process behind."""
    import signal
    kids = {}
    for d in os.listdir("/proc"):
        if d.isdigit():
            try:
                st = open("/proc/%s/stat" % d).read()
                kids.setdefault(int(st[st.rindex(")") + 2:].split()[1]), []).append(int(d))
            except (OSError, ValueError):
                pass
    todo, seen = [os.getpid()], []
    while todo:
        for c in kids.get(todo.pop(), []):
            seen.append(c)
            todo.append(c)
    for c in seen:
        try:
            os.kill(c, signal.SIGKILL)
        except OSError:
            pass
    if a:
        os._exit(2)


def main(argv):
    import argparse
    import importlib
    import signal
    for sg in (signal.SIGTERM, signal.SIGINT, signal.SIGHUP):
        signal.signal(sg, _kill_descendants)
    ap = argparse.ArgumentParser()
    ap.add_argument("pid")
    ap.add_argument("--tier", default=os.environ.get("VERIF_TIER", "quick"), choices=["quick", "thorough"])
    ap.add_argument("--seed", default=os.environ.get("VERIF_SEED", "1"))
    ap.add_argument("--replay", default=None)
    a = ap.parse_args(argv)
    try:
        seed = int(a.seed)
    except ValueError:
        seed = 1
    sys.path.insert(0, os.path.join(VERIF, "checks"))
    ck = Check(a.pid, a.tier, seed, a.replay)
    try:
        mod = importlib.import_module(a.pid)
        ck.build_harness()
        if a.replay:
            mod.replay(ck, a.replay)
        else:
            mod.run(ck)
        return ck.finish(getattr(mod, "LEVEL", "model_checking"))
    except Fatal as ex:
        print("CHECK-ERROR property=%s: %s" % (a.pid, ex), file=sys.stderr)
        if os.environ.get("VERIF_KEEP") != "1":
            shutil.rmtree(ck.work, ignore_errors=True)
        return 2
