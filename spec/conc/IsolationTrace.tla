--------------------------- MODULE IsolationTrace ---------------------------
(***************************************************************************)
(* Trace specification for C20: every goroutine logs its own sequence of   *)
(* tasks (no cross-goroutine ordering is used).  A task is one entry-point *)
(* call on private data; `same` says that the digest of everything it      *)
(* returned equals the digest of the same task run alone in a fresh        *)
(* sequential pass.  The race detector's verdict for the whole run and the *)
(* history-independence runs (fresh process / after unrelated calls /      *)
(* reversed order) are events too.  The property allows only: same = TRUE, *)
(* races = 0, history digests equal.                                       *)
(***************************************************************************)
EXTENDS Integers, Sequences, TraceIO

VARIABLES l, bad, n
tvars == <<l, bad, n>>
e == Trace[l]

TInit == l = 1 /\ bad = FALSE /\ n = 0
IsStart == e.ev = "Open"
Returned == e.out = "ret"
Step == CASE e.ev = "Task"    -> e.same /\ n' = n + 1
          [] e.ev = "Race"    -> e.races = 0 /\ UNCHANGED n
          [] e.ev = "History" -> e.same /\ UNCHANGED n
          [] OTHER -> FALSE

TStart == l <= NEvents /\ IsStart /\ n' = 0 /\ bad' = FALSE /\ l' = l + 1
TStep  == l <= NEvents /\ ~IsStart /\ ~bad /\ Returned /\ Step /\ l' = l + 1 /\ UNCHANGED bad
TFail  == /\ l <= NEvents /\ ~IsStart /\ ~bad /\ ~(Returned /\ ENABLED Step)
          /\ RecordFail(e, l) /\ bad' = TRUE /\ l' = l + 1 /\ UNCHANGED n
TSkip  == l <= NEvents /\ ~IsStart /\ bad /\ l' = l + 1 /\ UNCHANGED <<bad, n>>
TNext == TStart \/ TStep \/ TFail \/ TSkip
TSpec == TInit /\ [][TNext]_tvars
Accepted == TLCGet("stats").diameter = NEvents + 1
=============================================================================
