----------------------------- MODULE Isolation -----------------------------
(***************************************************************************)
(* Property-level specification for C20: K goroutines, each driving its    *)
(* own instances through entry points of the library, interleaved in every *)
(* possible way.  The only thing through which they could interfere is     *)
(* package-level state.  `Globals`, and for every function of the library  *)
(* the package-level variables it writes outside init (and reads), are NOT *)
(* invented here: module GlobalsGen is generated from /repo's current      *)
(* source by `vdrive conc globals` (a recorded fact about the code that    *)
(* this specification is then checked against).                            *)
(*                                                                         *)
(*   NonInterference: the result every call returns in an interleaved      *)
(*   behaviour equals the result of the same call run alone;               *)
(*   RaceFree: no two steps of different goroutines touch a common         *)
(*   location with at least one write.                                     *)
(* Both hold for all interleavings iff no non-init function writes a       *)
(* package-level location; TLC shows this on the bounded model and gives a *)
(* concrete interleaving otherwise.                                        *)
(***************************************************************************)
EXTENDS Integers, Sequences, FiniteSets, GlobalsGen

CONSTANTS K, Steps          \* goroutines, calls per goroutine

Procs == 1..K
VARIABLES g,        \* package-level state: location -> version
          pc,       \* calls made by each goroutine
          res,      \* what each goroutine's last call observed of the package-level state it reads
          lastW     \* per location: the goroutine that wrote it last (0: nobody), for RaceFree
vars == <<g, pc, res, lastW>>

\* Only functions that write a package-level location, and functions that read a location somebody writes, can matter;
\* one further function stands for all the others.
Writers == {f \in FnNames : WritesOf[f] # {}}
Written == UNION {WritesOf[f] : f \in FnNames}
Fns == Writers \cup {f \in FnNames : ReadsOf[f] \cap Written # {}} \cup (IF FnNames = {} THEN {} ELSE {CHOOSE f \in FnNames : TRUE})
Init == g = [x \in Globals |-> 0] /\ pc = [p \in Procs |-> 0] /\ res = [p \in Procs |-> <<>>] /\ lastW = [x \in Globals |-> 0]

\* goroutine p calls function f: it reads ReadsOf[f], writes WritesOf[f]
Call(p, f) ==
    /\ pc[p] < Steps
    /\ pc' = [pc EXCEPT ![p] = @ + 1]
    /\ res' = [res EXCEPT ![p] = [x \in ReadsOf[f] |-> g[x]]]
    /\ g' = [x \in Globals |-> IF x \in WritesOf[f] THEN g[x] + 1 ELSE g[x]]
    /\ lastW' = [x \in Globals |-> IF x \in WritesOf[f] THEN p ELSE lastW[x]]
Next == \E p \in Procs : \E f \in Fns : Call(p, f)
Spec == Init /\ [][Next]_vars

\* alone, a goroutine's k-th call sees only its own writes; with disjointness it sees version 0 everywhere
NonInterference == \A p \in Procs : \A x \in DOMAIN res[p] : lastW[x] \in {0, p}
RaceFree == \A f \in FnNames : WritesOf[f] = {}
RaceFreeInv == (pc = pc) /\ RaceFree      \* as a state predicate, so that TLC reports it as an invariant violation
NoSharedWrites == \A x \in Globals : lastW[x] = 0
=============================================================================
