SPECIFICATION Spec
CONSTANTS
  K = 3
  Steps = 2
INVARIANT NonInterference
INVARIANT NoSharedWrites
INVARIANT RaceFreeInv
CHECK_DEADLOCK FALSE
