SPECIFICATION Spec
CONSTANTS
  Prefixes = {"dq"}
  Alphabet = {"letter", "nl", "cr"}
  MaxLen = 2
  Emit = FALSE
  UnicodeRangeAsStandard = FALSE
  BadStringAsStandard = FALSE
  BslashEofAsStandard = FALSE
  DashedFunctionAsStandard = FALSE
  UrlNameAsStandard = FALSE
  NulAsStandard = FALSE
  Excuse = {"unicode-range", "bslash-eof", "dashed-function", "url-name"}
  Defect = "none"
INVARIANT TypeOK
PROPERTY RefinesTok
PROPERTY AgreesStd
PROPERTY Tight
CHECK_DEADLOCK FALSE
