SPECIFICATION Spec
CONSTANTS
  Prefixes = {"none"}
  Alphabet = {"letter", "nul"}
  MaxLen = 2
  Emit = FALSE
  UnicodeRangeAsStandard = FALSE
  BadStringAsStandard = FALSE
  BslashEofAsStandard = FALSE
  DashedFunctionAsStandard = FALSE
  UrlNameAsStandard = FALSE
  NulAsStandard = TRUE
  Excuse = {"unicode-range", "badstring-newline", "bslash-eof", "dashed-function", "url-name"}
  Defect = "none"
INVARIANT TypeOK
PROPERTY RefinesTok
PROPERTY AgreesStd
PROPERTY Tight
CHECK_DEADLOCK FALSE
