SPECIFICATION Spec
CONSTANTS
  Modes = {"stylesheet", "inline"}
  MaxTop = 2
  MaxUnits = 4
  MaxDepth = 2
  MaxFeat = 0
  MaxWs = 0
  AtKinds = {"import", "charset", "namespace", "layer", "media", "supports", "document", "keyframes", "wkeyframes", "fontface", "page", "unknown"}
  MinAtoms = 0
  EndBias = 0
CHECK_DEADLOCK FALSE
