SPECIFICATION Spec
CONSTANTS
  Prefixes = {"u"}
  Alphabet = {"bslash", "r", "l", "lparen"}
  MaxLen = 5
  Emit = FALSE
  UnicodeRangeAsStandard = FALSE
  BadStringAsStandard = FALSE
  BslashEofAsStandard = FALSE
  DashedFunctionAsStandard = FALSE
  UrlNameAsStandard = TRUE
  NulAsStandard = FALSE
  Excuse = {"unicode-range", "badstring-newline", "bslash-eof", "dashed-function"}
  Defect = "none"
INVARIANT TypeOK
PROPERTY RefinesTok
PROPERTY AgreesStd
PROPERTY Tight
CHECK_DEADLOCK FALSE
