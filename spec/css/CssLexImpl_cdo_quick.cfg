SPECIFICATION Spec
CONSTANTS
  Prefixes = {"none"}
  Alphabet = {"lt", "bang", "dash", "gt", "digit", "letter", "cdo", "cdc"}
  MaxLen = 5
  Emit = TRUE
  UnicodeRangeAsStandard = FALSE
  BadStringAsStandard = FALSE
  BslashEofAsStandard = FALSE
  DashedFunctionAsStandard = FALSE
  UrlNameAsStandard = FALSE
  NulAsStandard = FALSE
  Excuse = {"unicode-range", "badstring-newline", "bslash-eof", "dashed-function", "url-name"}
  Defect = "none"
INVARIANT TypeOK
PROPERTY RefinesTok
PROPERTY AgreesStd
PROPERTY Tight
CHECK_DEADLOCK FALSE
