SPECIFICATION Spec
CONSTANTS
  Prefixes = {"none", "bshex", "bslash"}
  Alphabet = {"bslash", "hex", "digit", "d5", "ws", "nl", "cr", "crlf", "ff", "letter"}
  MaxLen = 5
  Emit = FALSE
  UnicodeRangeAsStandard = TRUE
  BadStringAsStandard = TRUE
  BslashEofAsStandard = TRUE
  DashedFunctionAsStandard = TRUE
  UrlNameAsStandard = TRUE
  NulAsStandard = FALSE
  Excuse = {}
  Defect = "none"
INVARIANT TypeOK
PROPERTY RefinesTok
PROPERTY AgreesStd
PROPERTY Tight
CHECK_DEADLOCK FALSE
