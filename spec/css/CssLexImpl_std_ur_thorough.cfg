SPECIFICATION Spec
CONSTANTS
  Prefixes = {"uplus"}
  Alphabet = {"e", "digit", "qmark", "dash", "d5", "plus", "letter", "gt"}
  MaxLen = 6
  Emit = FALSE
  UnicodeRangeAsStandard = TRUE
  BadStringAsStandard = TRUE
  BslashEofAsStandard = TRUE
  DashedFunctionAsStandard = TRUE
  UrlNameAsStandard = TRUE
  NulAsStandard = FALSE
  Excuse = {}
  Defect = "none"
INVARIANT TypeOK
PROPERTY RefinesTok
PROPERTY AgreesStd
PROPERTY Tight
CHECK_DEADLOCK FALSE
