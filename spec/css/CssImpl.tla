---------------------------- MODULE CssImpl ----------------------------
(***************************************************************************)
(* Implementation-shaped specification (kind I) of css.Parser.Next         *)
(* (/repo/css/parse.go) over TOKEN CLASSES as css.Lexer delivers them:     *)
(* the stack of state functions (parseStylesheet, parseDeclarationList,    *)
(* parseAtRuleRuleList, parseAtRuleDeclarationList, parseAtRuleUnknown,    *)
(* parseQualifiedRuleDeclarationList), the functions they call             *)
(* (parseAtRule, parseQualifiedRule, parseDeclaration with the nested      *)
(* ruleset branch, parseDeclarationError, parseCustomProperty, popToken)   *)
(* and the variables p.state, p.level, p.prevEnd, p.keepWS and p.err.      *)
(* One model step is one call of Next: it consumes token classes and       *)
(* yields one grammar unit <<GrammarType, HasParseError(), Err()=io.EOF>>. *)
(* Values() is not modelled (prevWS / prevComment only feed Values()).     *)
(*                                                                         *)
(* TLC checks  I => P  (the nesting clauses of CssStream.tla) for EVERY    *)
(* sequence of token classes up to MaxTok in both modes, and writes every  *)
(* sequence with the predicted unit list as a differential test case       *)
(* (harness/suites/cssp/impl.go spells it, parses it with the real parser  *)
(* and compares; a difference is model drift, see checks/c08impl.py).      *)
(*                                                                         *)
(* Token classes (what the harness spells them with):                      *)
(*   ident    IdentToken                                                   *)
(*   delim    DelimToken other than '*'  (. & > + ~ ! / = % ...)           *)
(*   star     DelimToken '*'             (the IE hack of declaration lists)*)
(*   open     ( or [ or a FunctionToken  (all three only do level++)       *)
(*   close    ) or ]                                                       *)
(*   lbrace rbrace colon semi                                              *)
(*   atrl     at-keyword whose block is a rule list  (media supports document keyframes layer, vendor prefixed too) *)
(*   atdl     at-keyword whose block is a declaration list  (font-face page)                  *)
(*   atun     any other at-keyword       (block = raw tokens)              *)
(*   ws comment cpname(--x)  cdo (CDO or CDC)                              *)
(*   other    every remaining token type: hash number percentage dimension *)
(*            string url comma match-tokens ... (the parser never looks at them outside Values()) *)
(* The lexer is stateless and max-munch, so some adjacent pairs cannot be  *)
(* delivered at all (Feasible); they are not enumerated.                   *)
(*                                                                         *)
(* What TLC establishes (CssImpl_quick / _quick5 / _thorough / _thorough6):*)
(*   Refines              every step is a step of CssStream.tla: while no  *)
(*                        parse error was reported an End unit closes the  *)
(*                        innermost open Begin of its kind, the depth is   *)
(*                        never negative, every Begin is closed before the *)
(*                        final report, nothing follows ErrorGrammar/io.EOF*)
(*   StackAgrees          until the first parse error p.state IS the stack *)
(*                        of open blocks (the "TODO: buggy" pops of the    *)
(*                        error branches come with a parse error)          *)
(*   KeepWSOnlyInUnknown, Terminates (at most 2n+2 calls for n tokens),    *)
(*   EndSticky            (a further call reports io.EOF again, no change) *)
(* p.level is NOT restored by errors: `@x{)}` or a declaration error at a  *)
(* ')' leave it negative for the rest of the input, after which ';' and '}'*)
(* no longer end anything until the end of input unwinds the stack.  The   *)
(* nesting clauses are not affected (they stop at the first parse error,   *)
(* and parseAtRuleUnknown reports no unit but Token / EndAtRule), which is *)
(* why no "level" regression is among the defect configurations: P can   *)
(* not see it; the differential replay does (see checks/c08impl.py).       *)
(*                                                                         *)
(* Defect configurations (each must violate Refines):                      *)
(*   CssImpl_defect_atdecl  AtDeclEndsAtEOF = FALSE   `@page{`             *)
(*   CssImpl_defect_iehack  StarAloneAtEOF  = FALSE   `a{*`                *)
(*   CssImpl_defect_pop     GuardedPop      = FALSE   `}` then a panic     *)
(*                                                                         *)
(* Model drift on the unchanged tree: none.  Every enumerated sequence     *)
(* (2.6M at MaxTok = 5) is spelled, lexes back to the same classes, and    *)
(* the GrammarType / HasParseError / io.EOF lists of css.Parser equal the  *)
(* prediction.  The first version of the model differed in one place, now  *)
(* modelled: the IE hack joined with an at-keyword (see DeclarationList).  *)
(***************************************************************************)
EXTENDS Integers, Sequences, FiniteSets, TLC, Json, CSV, IOUtils

CONSTANTS MaxTok,
          Alphabet,           \* the token classes enumerated (a subset of Classes)
          Modes,              \* the modes enumerated: a subset of BOOLEAN (TRUE = inline style attribute)
          Emit,               \* TRUE: write every sequence with its predicted units to IOEnv.VERIF_CASES
          \* --- switches that turn the model into a plausible regression (all TRUE = the code as it is) ---
          AtDeclEndsAtEOF,    \* parseAtRuleDeclarationList pops its state and reports EndAtRule at end of input too
          StarAloneAtEOF,     \* IE hack: a '*' that is the last token stays a delimiter (the repair of today);
                              \* FALSE: the end-of-input token replaces it (ErrorGrammar / io.EOF inside the open block)
          GuardedPop          \* the error branch of parseQualifiedRule / parseAtRule pops the state only if 1 < len(p.state)

Classes == {"ident", "delim", "star", "open", "close", "lbrace", "rbrace", "colon", "semi",
            "atrl", "atdl", "atun", "ws", "comment", "cpname", "cdo", "other"}
ASSUME Alphabet \subseteq Classes

AtKw == {"atrl", "atdl", "atun"}
Openers == {"open", "lbrace"}       \* LeftParenthesis, LeftBrace, LeftBracket, Function
Closers == {"close", "rbrace"}      \* RightParenthesis, RightBrace, RightBracket
\* b can directly follow a in the output of css.Lexer: an identifier-like token absorbs a following identifier start,
\* and a whitespace run is one token
NameLike == {"ident", "atrl", "atdl", "atun", "cpname"}
Feasible(a, b) == ~(a \in NameLike /\ b \in {"ident", "cpname"}) /\ ~(a = "ws" /\ b = "ws")

VARIABLES toks,        \* the input as token classes
          inline,      \* NewParser(_, isInline)
          idx,         \* index of the next token the lexer will deliver (1-based; beyond Len(toks): ErrorToken / io.EOF)
          st,          \* p.state, innermost last: "SS" "DL" "ARL" "ADL" "AU" "QDL"
          level,       \* p.level (an integer: parseAtRuleUnknown and parseDeclarationError decrement it unchecked)
          prevEnd,     \* p.prevEnd: a '}' that ended a declaration / at-rule is delivered again to the next call
          keepWS,      \* p.keepWS
          openG, perrG,      \* ghosts: the bookkeeping of CssStream.tla (open Begin kinds, a parse error was reported)
          units,       \* the units returned so far: <<gt, pe, eof>>
          halted,      \* ErrorGrammar with io.EOF was returned (or the call panicked): the caller stops
          out          \* the last call's result
ivars == <<toks, inline, idx, st, level, prevEnd, keepWS, openG, perrG, units, halted, out>>

Tok(i) == IF i <= Len(toks) THEN toks[i] ELSE "eof"
Terminator(t, lv) == (t \in {"semi", "rbrace"} /\ lv = 0) \/ t = "eof"
Bump(t, lv) == IF t \in Openers THEN lv + 1 ELSE IF t \in Closers THEN lv - 1 ELSE lv

\* the parser's registers during one call: i next token index, st, lv, pe (prevEnd), kw (keepWS)
Ret(gt, err, s) == [gt |-> gt, err |-> err, s |-> s]
Push(s, f) == [s EXCEPT !.st = Append(@, f)]
PopSt(s) == [s EXCEPT !.st = SubSeq(@, 1, Len(@) - 1)]
PopStGuarded(s) == IF GuardedPop /\ Len(s.st) <= 1 THEN s ELSE PopSt(s)

\* TLC re-evaluates a LET definition or an operator argument at every use inside an action; binding through a set
\* constructor evaluates e once (x is bound to a value).  With(e, F) = F(e).
With(e, F(_)) == CHOOSE r \in {F(x) : x \in {e}} : TRUE

\* popToken(allowComment): skips whitespace (unless keepWS) and comments (a comment is returned if allowComment and the
\* parser is at the top level); result: the token class and the index after it
RECURSIVE PopTok(_, _, _)
PopTok(i, kw, stopAtComment) ==
    With(Tok(i), LAMBDA c :
    IF c = "eof" THEN [t |-> "eof", i |-> i]
    ELSE IF c = "ws" /\ ~kw THEN PopTok(i + 1, kw, stopAtComment)
    ELSE IF c = "comment" THEN (IF stopAtComment THEN [t |-> c, i |-> i + 1] ELSE PopTok(i + 1, kw, stopAtComment))
    ELSE [t |-> c, i |-> i + 1])
\* popToken(false) on the registers s: [t |-> the token, s |-> the registers after it]
Adv(s) == With(PopTok(s.i, s.kw, FALSE), LAMBDA p : [t |-> p.t, s |-> [s EXCEPT !.i = p.i]])

\* `for p.tt == SemicolonToken { popToken(false) }`
RECURSIVE SkipSemis(_, _)
SkipSemis(t, s) == IF t = "semi" THEN With(Adv(s), LAMBDA a : SkipSemis(a.t, a.s)) ELSE [t |-> t, s |-> s]

BlockOf(kind) == CASE kind = "atrl" -> "ARL" [] kind = "atdl" -> "ADL" [] OTHER -> "AU"

\* parseAtRule: prelude up to '{' (block), ';' / '}' / end of input (AtRuleGrammar; the '}' is delivered again)
RECURSIVE AtRule(_, _)
AtRule(kind, s) ==
    With(Adv(s), LAMBDA a :
    IF a.t = "lbrace" /\ a.s.lv = 0 THEN Ret("BeginAtRule", FALSE, Push(a.s, BlockOf(kind)))
    ELSE IF Terminator(a.t, a.s.lv) THEN Ret("AtRule", FALSE, [a.s EXCEPT !.pe = (a.t = "rbrace")])
    ELSE IF a.t \in Closers /\ a.s.lv = 0 THEN Ret("Error", TRUE, PopStGuarded(a.s))     \* "unexpected ending in at rule"
    ELSE AtRule(kind, [a.s EXCEPT !.lv = Bump(a.t, @)]))

\* parseQualifiedRule: t is the token the call started with, then popToken(false) until '{' at level 0
RECURSIVE QualifiedRule(_, _)
QualifiedRule(t, s) ==
    IF t = "lbrace" /\ s.lv = 0 THEN Ret("BeginRuleset", FALSE, Push(s, "QDL"))
    ELSE IF t = "eof" THEN Ret("Error", TRUE, s)                                         \* "unexpected ending in qualified rule"
    ELSE IF t \in Closers /\ s.lv = 0 THEN Ret("Error", TRUE, PopStGuarded(s))
    ELSE With(Adv([s EXCEPT !.lv = Bump(t, @)]), LAMBDA a : QualifiedRule(a.t, a.s))

\* parseDeclarationError: t is the offending token; skip to ';' / '}' at level 0 or the end of input
RECURSIVE DeclError(_, _)
DeclError(t, s) ==
    IF Terminator(t, s.lv) THEN Ret("Error", TRUE, [s EXCEPT !.pe = (t = "rbrace")])
    ELSE With(Adv([s EXCEPT !.lv = Bump(t, @)]), LAMBDA a : DeclError(a.t, a.s))

\* parseDeclaration: the name is in the buffer; first = what the first token after the name was ("none" so far | "colon" | "other")
RECURSIVE Declaration(_, _)
Declaration(first, s) ==
    With(Adv(s), LAMBDA a :
    IF Terminator(a.t, a.s.lv) THEN
         (IF first = "colon" THEN Ret("Declaration", FALSE, [a.s EXCEPT !.pe = (a.t = "rbrace")])
          ELSE DeclError(a.t, a.s))                                                       \* "expected colon in declaration"
    ELSE IF a.t = "lbrace" /\ a.s.lv = 0 /\ ~inline THEN Ret("BeginRuleset", FALSE, Push(a.s, "QDL"))   \* nested ruleset
    ELSE IF a.t \in Closers /\ a.s.lv = 0 THEN DeclError(a.t, a.s)                        \* "unexpected ending in declaration"
    ELSE Declaration(IF first # "none" \/ a.t = "ws" THEN first ELSE IF a.t = "colon" THEN "colon" ELSE "other",
                     [a.s EXCEPT !.lv = Bump(a.t, @)]))

\* parseCustomProperty: colon, then the lexer's raw tokens (whitespace and comments included) up to ';' / '}' at level 0
RECURSIVE CustomValue(_)
CustomValue(s) ==
    With([t |-> Tok(s.i), s |-> [s EXCEPT !.i = IF @ > Len(toks) THEN @ ELSE @ + 1]], LAMBDA a :
    IF Terminator(a.t, a.s.lv) THEN Ret("CustomProperty", FALSE, [a.s EXCEPT !.pe = (a.t = "rbrace")])
    ELSE IF a.t \in Closers /\ a.s.lv = 0 THEN Ret("Error", TRUE, a.s)                    \* "unexpected ending in custom property"
    ELSE CustomValue([a.s EXCEPT !.lv = Bump(a.t, @)]))
CustomProperty(s) ==
    With(Adv(s), LAMBDA a :
    IF a.t # "colon" THEN Ret("Error", TRUE, a.s)                                         \* "expected colon in custom property"
    ELSE CustomValue(a.s))

\* parseDeclarationList
DeclarationList(t0, s0) ==
    With(IF t0 = "comment" THEN Adv(s0) ELSE [t |-> t0, s |-> s0], LAMBDA a :
    With(SkipSemis(a.t, a.s), LAMBDA b :
    \* IE hack: '*' is joined with the next token and takes its type.  Joined with an at-keyword the name is "*@media":
    \* parseAtRule hashes "@media", which is none of the known names, so the rule is of the unknown kind whatever it was
    \* (found by the differential replay: `*@media{;` in a style attribute yields Token units).
    With(IF b.t # "star" THEN b
         ELSE With(Adv(b.s), LAMBDA n : IF n.t = "eof" /\ StarAloneAtEOF THEN [t |-> "star", s |-> n.s]
                                        ELSE IF n.t \in AtKw THEN [t |-> "atun", s |-> n.s] ELSE n), LAMBDA c :
    IF c.t = "eof" THEN Ret("Error", FALSE, c.s)
    ELSE IF c.t \in AtKw THEN AtRule(c.t, c.s)
    ELSE IF c.t \in {"ident", "delim", "star"} THEN Declaration("none", c.s)
    ELSE IF c.t = "cpname" THEN CustomProperty(c.s)
    ELSE IF c.t = "rbrace" THEN Ret("Error", TRUE, c.s)                                   \* "unexpected token in declaration"
    ELSE DeclError(c.t, c.s))))

Stylesheet(t, s) ==
    IF t = "cdo" THEN Ret("Token", FALSE, s)
    ELSE IF t \in AtKw THEN AtRule(t, s)
    ELSE IF t = "comment" THEN Ret("Comment", FALSE, s)
    ELSE IF t = "cpname" THEN CustomProperty(s)
    ELSE IF t = "eof" THEN Ret("Error", FALSE, s)
    ELSE QualifiedRule(t, s)

AtRuleRuleList(t, s) ==
    IF t \in {"rbrace", "eof"} THEN Ret("EndAtRule", FALSE, PopSt(s))
    ELSE IF t \in AtKw THEN AtRule(t, s)
    ELSE QualifiedRule(t, s)

AtRuleDeclarationList(t0, s0) ==
    With(SkipSemis(t0, s0), LAMBDA b :
    IF b.t = "rbrace" \/ (b.t = "eof" /\ AtDeclEndsAtEOF) THEN Ret("EndAtRule", FALSE, PopSt(b.s))
    ELSE DeclarationList(b.t, b.s))

QualifiedRuleDeclarationList(t0, s0) ==
    With(SkipSemis(t0, s0), LAMBDA b :
    IF b.t \in {"rbrace", "eof"} THEN Ret("EndRuleset", FALSE, PopSt(b.s))
    ELSE DeclarationList(b.t, b.s))

AtRuleUnknown(t, s) ==
    \* p.keepWS = true, first thing
    IF (t = "rbrace" /\ s.lv = 0) \/ t = "eof" THEN Ret("EndAtRule", FALSE, [PopSt(s) EXCEPT !.kw = FALSE])
    ELSE Ret("Token", FALSE, [s EXCEPT !.lv = Bump(t, @), !.kw = TRUE])

\* Parser.Next on the registers r = [i, st, lv, pe, kw]
Call(r) ==
    With(IF r.pe THEN [t |-> "rbrace", i |-> r.i]                                         \* the synthesised '}'
         ELSE PopTok(r.i, r.kw, Len(r.st) = 1), LAMBDA cur :                              \* popToken(true)
    With([r EXCEPT !.i = cur.i, !.pe = FALSE], LAMBDA s :
    With(r.st[Len(r.st)], LAMBDA top :
    CASE top = "SS"  -> Stylesheet(cur.t, s)
      [] top = "DL"  -> DeclarationList(cur.t, s)
      [] top = "ARL" -> AtRuleRuleList(cur.t, s)
      [] top = "ADL" -> AtRuleDeclarationList(cur.t, s)
      [] top = "AU"  -> AtRuleUnknown(cur.t, s)
      [] top = "QDL" -> QualifiedRuleDeclarationList(cur.t, s))))

Regs == [i |-> idx, st |-> st, lv |-> level, pe |-> prevEnd, kw |-> keepWS]
\* Err() is io.EOF iff there is no parse error and the lexer has consumed the whole input
EofAfter(c) == ~c.err /\ c.s.i > Len(toks)
Final(c) == c.gt = "Error" /\ EofAfter(c)

KindOf(gt) == IF gt \in {"BeginAtRule", "EndAtRule"} THEN "at" ELSE "rs"
OpenAfter(o, gt) == IF gt \in {"BeginAtRule", "BeginRuleset"} THEN Append(o, KindOf(gt))
                    ELSE IF gt \in {"EndAtRule", "EndRuleset"} /\ o # <<>> THEN SubSeq(o, 1, Len(o) - 1) ELSE o

Init == /\ \E n \in 0..MaxTok : toks \in [1..n -> Alphabet]
        /\ \A k \in 1..(Len(toks) - 1) : Feasible(toks[k], toks[k + 1])
        /\ inline \in Modes
        /\ idx = 1 /\ st = <<IF inline THEN "DL" ELSE "SS">> /\ level = 0 /\ prevEnd = FALSE /\ keepWS = FALSE
        /\ openG = <<>> /\ perrG = FALSE /\ units = <<>> /\ halted = FALSE /\ out = [op |-> "none"]

CaseFile == IOEnv.VERIF_CASES
EmitCase(us) == Emit => CSVWrite("%1$s", <<ToJson([inline |-> inline, cls |-> toks, units |-> us])>>, CaseFile)

Step ==
    /\ ~halted
    /\ IF st = <<>>
       THEN \* p.state[len(p.state)-1] with an empty stack: index out of range
            /\ out' = [op |-> "panic"] /\ halted' = TRUE
            /\ UNCHANGED <<toks, inline, idx, st, level, prevEnd, keepWS, openG, perrG, units>>
       ELSE \E c \in {Call(Regs)} :          \* (binds the result once, see With)
               /\ out' = [op |-> "Unit", gt |-> c.gt, pe |-> c.err, eof |-> EofAfter(c)]
               /\ idx' = c.s.i /\ st' = c.s.st /\ level' = c.s.lv /\ prevEnd' = c.s.pe /\ keepWS' = c.s.kw
               /\ openG' = OpenAfter(openG, c.gt) /\ perrG' = (perrG \/ c.err)
               /\ units' = Append(units, <<c.gt, c.err, EofAfter(c)>>)
               /\ halted' = Final(c)
               /\ (Final(c) => EmitCase(units'))
               /\ UNCHANGED <<toks, inline>>

Next == Step
Spec == Init /\ [][Next]_ivars

------------------------------------------------------------------------------
\* I => P: the nesting clauses of CssStream.tla (token conservation instantiated with no located tokens)
P == INSTANCE CssStream WITH open <- openG, perr <- perrG, last <- 0, ended <- (halted /\ out.op = "Unit")
o == out'
PStep == CASE o.op = "Unit"  -> P!Unit(o.gt, <<>>, o.pe, o.eof)
           [] OTHER -> FALSE                \* a panic is no unit
Refines == [][PStep]_ivars

\* while no parse error has been reported the state stack IS the stack of open blocks
OpenOf(s) == [k \in 1..(Len(s) - 1) |-> IF s[k + 1] = "QDL" THEN "rs" ELSE "at"]
StackAgrees == ~perrG /\ st # <<>> => openG = OpenOf(st)
\* keepWS is on exactly inside the block of an unknown at-rule after its first unit
KeepWSOnlyInUnknown == keepWS => st # <<>> /\ st[Len(st)] = "AU"
\* the stream ends: every call consumes a token, re-delivers a '}' it consumed, or pops a state at the end of input
Terminates == Len(units) <= 2 * Len(toks) + 2
\* ... and stays there: another call after the final report would report ErrorGrammar / io.EOF again and change nothing
EndSticky == halted /\ out.op = "Unit" => LET c == Call(Regs) IN Final(c) /\ c.s = Regs
=============================================================================
