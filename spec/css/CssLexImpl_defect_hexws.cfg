SPECIFICATION Spec
CONSTANTS
  Prefixes = {"bshex"}
  Alphabet = {"ws", "letter"}
  MaxLen = 2
  Emit = FALSE
  UnicodeRangeAsStandard = FALSE
  BadStringAsStandard = FALSE
  BslashEofAsStandard = FALSE
  DashedFunctionAsStandard = FALSE
  UrlNameAsStandard = FALSE
  NulAsStandard = FALSE
  Excuse = {"unicode-range", "badstring-newline", "bslash-eof", "dashed-function", "url-name"}
  Defect = "hexws"
INVARIANT TypeOK
PROPERTY RefinesTok
PROPERTY AgreesStd
PROPERTY Tight
CHECK_DEADLOCK FALSE
