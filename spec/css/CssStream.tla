---------------------------- MODULE CssStream ----------------------------
(***************************************************************************)
(* Property-level specification (kind P) for the all-input clauses of C08: *)
(* the grammar stream of css.Parser is well nested while no parse error    *)
(* has been reported, every reported token is a token of the input in      *)
(* source order, and the stream ends with ErrorGrammar / io.EOF.           *)
(*                                                                         *)
(* The harness runs css.Lexer over the same input and locates every token  *)
(* the parser reports (the unit's data and each element of Values()) in    *)
(* that token list; `toks` is what it found, in reporting order:           *)
(*   [k |-> "ws"]                   the single-space token standing for a whitespace/comment run *)
(*   [k |-> "tok", i |-> index]     the lexer's token number i (same type, same text up to ASCII case) *)
(*   [k |-> "brace", i |-> index]   the synthesised '}' re-delivering brace token i              *)
(*   [k |-> "join", i |-> index]    IE hack: a '*' (after the last reported token) joined with    *)
(*                                  input token i, whitespace/comments between them dropped      *)
(*   [k |-> "custom", i, j]         custom property value: exact source text of tokens i..j       *)
(*   [k |-> "none"]                 not a token of the input at or after the last one             *)
(***************************************************************************)
EXTENDS Integers, Sequences

VARIABLES open,      \* stack of open blocks, innermost last: "at" | "rs"
          perr,      \* a parse error has been reported
          last,      \* index of the last input token reported so far (0: none)
          ended      \* the end of input has been reported
cvars2 == <<open, perr, last, ended>>

Open0 == open' = <<>> /\ perr' = FALSE /\ last' = 0 /\ ended' = FALSE

Top == IF open = <<>> THEN "none" ELSE open[Len(open)]

\* fold the located tokens of one unit over `last`; result [ok, last]
RECURSIVE Conserve(_, _, _)
Conserve(toks, k, la) ==
    IF k > Len(toks) THEN [ok |-> TRUE, last |-> la]
    ELSE LET t == toks[k] IN
         IF t.k = "ws" THEN Conserve(toks, k + 1, la)
         ELSE IF t.k = "none" THEN [ok |-> FALSE, last |-> la]
         ELSE IF t.k = "join" THEN (IF t.i > la + 1 THEN Conserve(toks, k + 1, t.i) ELSE [ok |-> FALSE, last |-> la])
         ELSE IF t.k = "custom" THEN (IF t.i > la /\ t.j >= t.i - 1 THEN Conserve(toks, k + 1, t.j) ELSE [ok |-> FALSE, last |-> la])
         ELSE (IF t.i > la THEN Conserve(toks, k + 1, t.i) ELSE [ok |-> FALSE, last |-> la])      \* "tok" and "brace"

\* one unit: gt = grammar type name, toks as above, pe = HasParseError() after the call, eof = Err() is io.EOF
Unit(gt, toks, pe, eof) ==
    LET c == Conserve(toks, 1, last)
        isBegin == gt \in {"BeginAtRule", "BeginRuleset"}
        isEnd == gt \in {"EndAtRule", "EndRuleset"}
        kind == IF gt \in {"BeginAtRule", "EndAtRule"} THEN "at" ELSE "rs"
    IN
    /\ ~ended
    /\ c.ok                                                   \* every reported token is a token of the input, in source order
    /\ (~perr /\ ~pe /\ isEnd => Top = kind)                  \* while no parse error was reported: an End closes the matching Begin
    /\ (gt = "Error" /\ eof /\ ~perr /\ ~pe => open = <<>>)   \* ... and every Begin is closed before the final end-of-input report
    /\ open' = (IF isBegin THEN Append(open, kind)
                ELSE IF isEnd /\ open # <<>> THEN SubSeq(open, 1, Len(open) - 1) ELSE open)
    /\ (~perr /\ ~pe /\ isEnd => open # <<>>)                 \* the nesting depth never becomes negative
    /\ perr' = (perr \/ pe)
    /\ last' = c.last
    /\ ended' = (gt = "Error" /\ eof /\ ~pe)

\* the caller stopped: the stream must have ended with ErrorGrammar whose Err() is io.EOF
Finish == ended /\ UNCHANGED cvars2
=============================================================================
