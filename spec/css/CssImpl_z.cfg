SPECIFICATION Spec
CONSTANTS
  MaxTok = 4
  Alphabet = {"ident", "delim", "star", "open", "close", "lbrace", "rbrace", "colon", "semi", "atrl", "atdl", "atun", "ws", "comment", "cpname", "cdo", "other"}
  Emit = FALSE
  AtDeclEndsAtEOF = TRUE
  StarAloneAtEOF = TRUE
  GuardedPop = TRUE
PROPERTY Refines
CHECK_DEADLOCK FALSE
