SPECIFICATION Spec
CONSTANTS
  MaxTok = 6
  Alphabet = {"ident", "star", "open", "close", "lbrace", "rbrace", "colon", "semi", "atrl", "atdl"}
  Modes = {TRUE, FALSE}
  Emit = FALSE
  AtDeclEndsAtEOF = TRUE
  StarAloneAtEOF = TRUE
  GuardedPop = TRUE
PROPERTY Refines
INVARIANTS StackAgrees KeepWSOnlyInUnknown Terminates EndSticky
CHECK_DEADLOCK FALSE
