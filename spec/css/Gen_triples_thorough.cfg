SPECIFICATION Spec
CONSTANTS
  AtomChoice = "all"
  MaxLen = 3
  SepChoice = "none"
  EmitMin = 3
  WithFinal = TRUE
  AssertRef = FALSE
INVARIANTS RefAgrees
CHECK_DEADLOCK FALSE
