SPECIFICATION Spec
CONSTANTS
  Prefixes = {"none"}
  Alphabet = {"dash", "letter", "lparen"}
  MaxLen = 4
  Emit = FALSE
  UnicodeRangeAsStandard = FALSE
  BadStringAsStandard = FALSE
  BslashEofAsStandard = FALSE
  DashedFunctionAsStandard = TRUE
  UrlNameAsStandard = FALSE
  NulAsStandard = FALSE
  Excuse = {"unicode-range", "badstring-newline", "bslash-eof", "url-name"}
  Defect = "none"
INVARIANT TypeOK
PROPERTY RefinesTok
PROPERTY AgreesStd
PROPERTY Tight
CHECK_DEADLOCK FALSE
