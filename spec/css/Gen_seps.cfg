SPECIFICATION Spec
CONSTANTS
  AtomChoice = "reduced"
  MaxLen = 2
  SepChoice = "all"
  EmitMin = 2
  WithFinal = TRUE
  AssertRef = FALSE
INVARIANTS RefAgrees
CHECK_DEADLOCK FALSE
