SPECIFICATION Spec
CONSTANTS
  Modes = {"stylesheet", "inline"}
  MaxTop = 1
  MaxUnits = 3
  MaxDepth = 2
  MaxFeat = 1
  MaxWs = 1
  AtKinds = {"import", "charset", "namespace", "layer", "media", "supports", "document", "keyframes", "wkeyframes", "fontface", "page", "unknown"}
  MinAtoms = 0
  EndBias = 0
CHECK_DEADLOCK FALSE
