SPECIFICATION Spec
CONSTANTS
  Prefixes = {"none"}
  Alphabet = {"letter", "e", "u", "r", "l", "hex", "digit", "nonascii", "plus", "dash", "dot", "bslash", "dq", "sq", "lparen", "rparen", "hash", "at", "slash", "star", "lt", "gt", "bang", "pipe", "tilde", "caret", "dollar", "eq", "pct", "qmark", "ws", "nl", "cr", "ff", "nul", "np", "other", "colon", "semi", "comma", "lbrack", "rbrack", "lbrace", "rbrace"}
  MaxLen = 3
  Emit = FALSE
  UnicodeRangeAsStandard = TRUE
  BadStringAsStandard = TRUE
  BslashEofAsStandard = TRUE
  DashedFunctionAsStandard = TRUE
  UrlNameAsStandard = TRUE
  NulAsStandard = FALSE
  Excuse = {}
  Defect = "none"
INVARIANT TypeOK
PROPERTY RefinesTok
PROPERTY AgreesStd
PROPERTY Tight
CHECK_DEADLOCK FALSE
