SPECIFICATION Spec
CONSTANTS
  Modes = {"stylesheet"}
  MaxTop = 1
  MaxUnits = 1
  MaxDepth = 1
  MaxFeat = 3
  MaxWs = 0
  AtKinds = {"media"}
  MinAtoms = 0
  EndBias = 0
CHECK_DEADLOCK FALSE
