SPECIFICATION Spec
CONSTANTS
  MaxTok = 5
  Alphabet = {"ident", "star", "open", "close", "lbrace", "rbrace", "colon", "semi", "atrl", "atdl", "atun"}
  Modes = {TRUE, FALSE}
  Emit = FALSE
  AtDeclEndsAtEOF = TRUE
  StarAloneAtEOF = TRUE
  GuardedPop = TRUE
PROPERTY Refines
INVARIANTS StackAgrees KeepWSOnlyInUnknown Terminates EndSticky
CHECK_DEADLOCK FALSE
