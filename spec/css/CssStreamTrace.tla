---------------------------- MODULE CssStreamTrace ----------------------------
(* Trace specification (kind T) for the all-input clauses of C08: judges traces of harness/suites/cssp against CssStream.tla. *)
EXTENDS CssStream, TraceIO

VARIABLES l, bad
tvars == <<cvars2, l, bad>>
e == Trace[l]

TInit == l = 1 /\ bad = FALSE /\ open = <<>> /\ perr = FALSE /\ last = 0 /\ ended = FALSE
IsStart == e.ev = "Open"
Returned == e.out = "ret"
Step == CASE e.ev = "Next" -> Unit(e.gt, e.toks, e.pe, e.eof)
          [] e.ev = "Finish" -> Finish
          [] OTHER -> FALSE

TStart == l <= NEvents /\ IsStart /\ Open0 /\ bad' = FALSE /\ l' = l + 1
TStep  == l <= NEvents /\ ~IsStart /\ ~bad /\ Returned /\ Step /\ l' = l + 1 /\ UNCHANGED bad
TFail  == /\ l <= NEvents /\ ~IsStart /\ ~bad /\ ~(Returned /\ ENABLED Step)
          /\ RecordFail(e, l) /\ bad' = TRUE /\ l' = l + 1 /\ UNCHANGED cvars2
TSkip  == l <= NEvents /\ ~IsStart /\ bad /\ l' = l + 1 /\ UNCHANGED <<cvars2, bad>>
TNext == TStart \/ TStep \/ TFail \/ TSkip
TSpec == TInit /\ [][TNext]_tvars
Accepted == TLCGet("stats").diameter = NEvents + 1
=============================================================================
