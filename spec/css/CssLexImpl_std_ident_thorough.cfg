SPECIFICATION Spec
CONSTANTS
  Prefixes = {"none"}
  Alphabet = {"letter", "hex", "digit", "dash", "bslash", "lparen", "hash", "at", "nonascii"}
  MaxLen = 6
  Emit = FALSE
  UnicodeRangeAsStandard = TRUE
  BadStringAsStandard = TRUE
  BslashEofAsStandard = TRUE
  DashedFunctionAsStandard = TRUE
  UrlNameAsStandard = TRUE
  NulAsStandard = FALSE
  Excuse = {}
  Defect = "none"
INVARIANT TypeOK
PROPERTY RefinesTok
PROPERTY AgreesStd
PROPERTY Tight
CHECK_DEADLOCK FALSE
