----------------------------- MODULE CssTokens -----------------------------
(***************************************************************************)
(* Property C07, constant level: the CSS token grammar as a table of ATOMS *)
(* (one spelling shape of one token of the railroad diagrams of CSS Syntax *)
(* Level 3 section 4.2, in the edition that has every token the property   *)
(* names: the Candidate Recommendation of 20 February 2014, with custom    *)
(* property names `--x` as identifiers, css-variables-1), the relation     *)
(* NeedsSep (which adjacent tokens would lex differently when juxtaposed,  *)
(* derived from the look-ahead rules of section 4.3 / the table of section *)
(* 9 "Serialization", refined to character level), and the acceptance rule *)
(* for what the lexer returns.  Nothing here is taken from css/lex.go but  *)
(* the NAMES of the token kinds (css.TokenType.String()).                  *)
(*                                                                         *)
(* Text is modelled as a sequence of character CLASSES; the harness picks  *)
(* a representative byte sequence for every class symbol:                  *)
(*   letter  g-z G-Z _ without u r l (non-hex name-start code points)      *)
(*   hex     a b c d f A B C D F      e  e E      u  u U    r  r R   l l L *)
(*   digit   0-9      nonascii  any code point >= U+0080                   *)
(*   sp      space, tab               nl  LF, CR, FF, CRLF (one newline)   *)
(*   np      a non-printable code point (U+0001-8, B, E-1F, 7F)            *)
(*   other   a code point with no role in the grammar (& `)                *)
(*   the rest name one ASCII character each.                               *)
(***************************************************************************)
EXTENDS Integers, Sequences, FiniteSets

Digit(c)     == c = "digit"
HexDigit(c)  == c \in {"digit", "hex", "e"}
NameStart(c) == c \in {"letter", "hex", "e", "u", "r", "l", "nonascii"}
NameChar(c)  == NameStart(c) \/ c \in {"digit", "dash"}

A(n, k, c) == [n |-> n, k |-> k, c |-> c]
URL == <<"u", "r", "l", "lparen">>

(***************************************************************************)
(* Token atoms.  k is the token kind the standard assigns to the text c.   *)
(***************************************************************************)
TokenAtoms == {
  \* ---- <ident-token>: name-start or escape or '-' followed by one of these, then name code points / escapes
  A("id.one",        "Ident", <<"letter">>),
  A("id.plain",      "Ident", <<"letter", "letter">>),
  A("id.hex",        "Ident", <<"hex", "hex">>),
  A("id.e",          "Ident", <<"e">>),
  A("id.e3",         "Ident", <<"e", "digit">>),                                      \* looks like an exponent behind `1` `.`
  A("id.u",          "Ident", <<"u">>),
  A("id.url",        "Ident", <<"u", "r", "l">>),
  A("id.digit",      "Ident", <<"letter", "digit">>),
  A("id.dash",       "Ident", <<"dash", "letter">>),
  A("id.inner-dash", "Ident", <<"letter", "dash", "letter">>),
  A("id.trail-dash", "Ident", <<"letter", "dash">>),
  A("id.nonascii",   "Ident", <<"nonascii">>),
  A("id.mixed",      "Ident", <<"letter", "nonascii", "digit">>),
  A("id.esc.hexws",  "Ident", <<"bslash", "digit", "hex", "sp">>),                  \* \2f<space>  (the space belongs to the escape)
  A("id.esc.hexcont","Ident", <<"bslash", "digit", "digit", "sp", "hex">>),         \* \26 B
  A("id.esc.hexnl",  "Ident", <<"bslash", "digit", "digit", "nl", "letter">>),      \* escape terminated by a newline
  A("id.esc.hex6",   "Ident", <<"bslash", "digit", "digit", "digit", "digit", "hex", "digit", "hex">>),   \* \000026B
  A("id.esc.hex6ws", "Ident", <<"bslash", "digit", "hex", "digit", "e", "digit", "digit", "sp", "letter">>),     \* six digits, then the whitespace
  A("id.esc.hex7",   "Ident", <<"bslash", "digit", "digit", "digit", "digit", "digit", "digit", "digit">>),       \* the 7th digit is a name code point
  A("id.esc.hexopen","Ident", <<"letter", "bslash", "digit", "digit">>),            \* a\26   (escape not terminated)
  A("id.esc.char",   "Ident", <<"bslash", "letter">>),
  A("id.esc.punct",  "Ident", <<"bslash", "hash", "letter">>),
  A("id.esc.paren",  "Ident", <<"letter", "bslash", "lparen">>),
  A("id.esc.quote",  "Ident", <<"bslash", "quote">>),
  A("id.esc.nonascii","Ident", <<"letter", "bslash", "nonascii">>),
  A("id.esc.bslash", "Ident", <<"bslash", "bslash">>),
  A("id.dash.esc",   "Ident", <<"dash", "bslash", "letter">>),
  \* ---- custom property names (css-variables-1: an identifier that starts with two dashes)
  A("custom.plain",  "CustomPropertyName", <<"dash", "dash", "letter", "letter">>),
  A("custom.digit",  "CustomPropertyName", <<"dash", "dash", "digit">>),
  A("custom.inner",  "CustomPropertyName", <<"dash", "dash", "letter", "dash", "hex">>),
  A("custom.esc",    "CustomPropertyName", <<"dash", "dash", "bslash", "letter">>),
  \* ---- <function-token>
  A("func.plain",    "Function", <<"letter", "letter", "lparen">>),
  A("func.dash",     "Function", <<"dash", "letter", "lparen">>),
  A("func.esc",      "Function", <<"letter", "bslash", "dot", "lparen">>),
  A("func.urx",      "Function", <<"u", "r", "letter", "lparen">>),                 \* url look-alikes
  A("func.xurl",     "Function", <<"letter", "u", "r", "l", "lparen">>),
  A("func.urll",     "Function", <<"u", "r", "l", "l", "lparen">>),
  A("func.ur",       "Function", <<"u", "r", "lparen">>),
  A("func.hex",      "Function", <<"hex", "e", "lparen">>),
  \* ---- <at-keyword-token>
  A("at.plain",      "AtKeyword", <<"at", "letter", "letter">>),
  A("at.dash",       "AtKeyword", <<"at", "dash", "letter">>),
  A("at.esc",        "AtKeyword", <<"at", "bslash", "letter", "hex">>),
  A("at.nonascii",   "AtKeyword", <<"at", "nonascii">>),
  \* ---- <hash-token>: id type and unrestricted
  A("hash.id",       "Hash", <<"hash", "letter", "letter">>),
  A("hash.hex",      "Hash", <<"hash", "hex", "digit", "e">>),
  A("hash.digit",    "Hash", <<"hash", "digit", "digit">>),
  A("hash.dash",     "Hash", <<"hash", "dash">>),
  A("hash.dashdigit","Hash", <<"hash", "dash", "digit">>),
  A("hash.esc",      "Hash", <<"hash", "bslash", "hash", "letter">>),
  \* ---- <string-token>
  A("str.dq",        "String", <<"quote", "letter", "sp", "letter", "quote">>),
  A("str.sq",        "String", <<"apos", "letter", "apos">>),
  A("str.empty",     "String", <<"quote", "quote">>),
  A("str.esc.nl",    "String", <<"quote", "letter", "bslash", "nl", "letter", "quote">>),
  A("str.esc.quote", "String", <<"apos", "bslash", "apos", "letter", "apos">>),
  A("str.esc.dq",    "String", <<"quote", "letter", "bslash", "quote", "quote">>),
  A("str.esc.hex",   "String", <<"quote", "bslash", "digit", "sp", "quote">>),
  A("str.esc.bslash","String", <<"quote", "bslash", "bslash", "quote">>),
  A("str.otherquote","String", <<"quote", "apos", "quote">>),
  A("str.cmt",       "String", <<"apos", "slash", "star", "apos">>),
  A("str.paren",     "String", <<"quote", "rparen", "lparen", "quote">>),
  A("str.np",        "String", <<"quote", "np", "nonascii", "quote">>),
  \* ---- <url-token>, unquoted and (2014 edition) quoted, any ASCII case of `url`, inner whitespace
  A("url.unq",       "URL", URL \o <<"slash", "letter", "dot", "letter", "rparen">>),
  A("url.empty",     "URL", URL \o <<"rparen">>),
  A("url.ws",        "URL", URL \o <<"sp", "slash", "slash", "letter", "nl", "sp", "rparen">>),
  A("url.wsonly",    "URL", URL \o <<"sp", "rparen">>),
  A("url.esc",       "URL", URL \o <<"letter", "bslash", "rparen", "letter", "rparen">>),
  A("url.eschex",    "URL", URL \o <<"bslash", "digit", "digit", "sp", "letter", "rparen">>),
  A("url.punct",     "URL", URL \o <<"hash", "qmark", "star", "colon", "at", "pct", "rparen">>),
  A("url.cmt",       "URL", URL \o <<"slash", "star", "letter", "star", "slash", "rparen">>),
  A("url.nonascii",  "URL", URL \o <<"nonascii", "dash", "digit", "rparen">>),
  A("url.dq",        "URL", URL \o <<"quote", "letter", "quote", "rparen">>),
  A("url.sq.ws",     "URL", URL \o <<"sp", "apos", "letter", "rparen", "apos", "nl", "rparen">>),
  A("url.dq.empty",  "URL", URL \o <<"quote", "quote", "rparen">>),
  A("url.dq.esc",    "URL", URL \o <<"quote", "bslash", "quote", "sp", "lparen", "quote", "rparen">>),
  \* ---- <bad-url-token>: ONE token extending to the first unescaped ')'
  A("badurl.quote",  "BadURL", URL \o <<"letter", "quote", "letter", "rparen">>),
  A("badurl.apos",   "BadURL", URL \o <<"letter", "apos", "rparen">>),
  A("badurl.paren",  "BadURL", URL \o <<"letter", "lparen", "letter", "rparen">>),
  A("badurl.ws",     "BadURL", URL \o <<"letter", "sp", "letter", "rparen">>),
  A("badurl.wsnl",   "BadURL", URL \o <<"sp", "letter", "nl", "letter", "sp", "rparen">>),
  A("badurl.np",     "BadURL", URL \o <<"letter", "np", "rparen">>),
  A("badurl.escnl",  "BadURL", URL \o <<"letter", "bslash", "nl", "rparen">>),
  A("badurl.str",    "BadURL", URL \o <<"quote", "letter", "quote", "letter", "rparen">>),
  A("badurl.badstr", "BadURL", URL \o <<"quote", "letter", "nl", "rparen">>),
  A("badurl.esc",    "BadURL", URL \o <<"letter", "sp", "letter", "bslash", "rparen", "letter", "rparen">>),
  A("badurl.stuff",  "BadURL", URL \o <<"letter", "quote", "lbrace", "semi", "sp", "slash", "star", "rparen">>),
  \* ---- <number-token>
  A("num.int",       "Number", <<"digit">>),
  A("num.int2",      "Number", <<"digit", "digit">>),
  A("num.plus",      "Number", <<"plus", "digit">>),
  A("num.minus",     "Number", <<"dash", "digit">>),
  A("num.frac",      "Number", <<"dot", "digit">>),
  A("num.dec",       "Number", <<"digit", "dot", "digit">>),
  A("num.plusfrac",  "Number", <<"plus", "dot", "digit">>),
  A("num.minusfrac", "Number", <<"dash", "dot", "digit">>),
  A("num.exp",       "Number", <<"digit", "e", "digit">>),
  A("num.exp+",      "Number", <<"digit", "e", "plus", "digit">>),
  A("num.exp-",      "Number", <<"digit", "e", "dash", "digit", "digit">>),
  A("num.decexp",    "Number", <<"dash", "digit", "dot", "digit", "e", "digit">>),
  A("num.fracexp",   "Number", <<"dot", "digit", "e", "dash", "digit">>),
  \* ---- <percentage-token>
  A("pct.int",       "Percentage", <<"digit", "pct">>),
  A("pct.frac",      "Percentage", <<"dot", "digit", "pct">>),
  A("pct.exp",       "Percentage", <<"plus", "digit", "e", "digit", "pct">>),
  \* ---- <dimension-token>, including the look-alikes of an exponent
  A("dim.plain",     "Dimension", <<"digit", "letter", "letter">>),
  A("dim.em",        "Dimension", <<"digit", "e", "letter">>),
  A("dim.e",         "Dimension", <<"digit", "e">>),
  A("dim.e-",        "Dimension", <<"digit", "e", "dash">>),
  A("dim.e-x",       "Dimension", <<"digit", "e", "dash", "letter">>),
  A("dim.dash",      "Dimension", <<"digit", "dash", "letter">>),
  A("dim.expunit",   "Dimension", <<"digit", "e", "digit", "letter">>),
  A("dim.expe",      "Dimension", <<"digit", "e", "digit", "e">>),
  A("dim.dec",       "Dimension", <<"digit", "dot", "digit", "hex">>),
  A("dim.minus",     "Dimension", <<"dash", "digit", "letter">>),
  A("dim.frac",      "Dimension", <<"dot", "digit", "letter">>),
  A("dim.esc",       "Dimension", <<"digit", "bslash", "letter">>),
  A("dim.nonascii",  "Dimension", <<"digit", "nonascii">>),
  A("dim.u",         "Dimension", <<"digit", "u">>),
  \* ---- <unicode-range-token>
  A("ur.single",     "UnicodeRange", <<"u", "plus", "digit", "digit">>),
  A("ur.hex",        "UnicodeRange", <<"u", "plus", "hex", "e", "digit">>),
  A("ur.six",        "UnicodeRange", <<"u", "plus", "digit", "hex", "digit", "digit", "e", "digit">>),
  A("ur.range",      "UnicodeRange", <<"u", "plus", "digit", "dash", "digit", "hex">>),
  A("ur.range6",     "UnicodeRange", <<"u", "plus", "hex", "dash", "digit", "digit", "digit", "digit", "digit", "hex">>),
  A("ur.wild",       "UnicodeRange", <<"u", "plus", "digit", "qmark", "qmark">>),
  A("ur.wild6",      "UnicodeRange", <<"u", "plus", "hex", "digit", "qmark", "qmark", "qmark", "qmark">>),
  A("ur.allwild",    "UnicodeRange", <<"u", "plus", "qmark">>),
  \* ---- match operators, column, CDO, CDC
  A("match.incl",    "IncludeMatch",   <<"tilde", "eq">>),
  A("match.dash",    "DashMatch",      <<"pipe", "eq">>),
  A("match.prefix",  "PrefixMatch",    <<"caret", "eq">>),
  A("match.suffix",  "SuffixMatch",    <<"dollar", "eq">>),
  A("match.substr",  "SubstringMatch", <<"star", "eq">>),
  A("column",        "Column", <<"pipe", "pipe">>),
  A("cdo",           "CDO", <<"lt", "bang", "dash", "dash">>),
  A("cdc",           "CDC", <<"dash", "dash", "gt">>),
  \* ---- single code point tokens
  A("colon",  "Colon", <<"colon">>), A("semi", "Semicolon", <<"semi">>), A("comma", "Comma", <<"comma">>),
  A("lbrack", "LeftBracket", <<"lbrack">>), A("rbrack", "RightBracket", <<"rbrack">>),
  A("lparen", "LeftParenthesis", <<"lparen">>), A("rparen", "RightParenthesis", <<"rparen">>),
  A("lbrace", "LeftBrace", <<"lbrace">>), A("rbrace", "RightBrace", <<"rbrace">>),
  \* ---- <delim-token>
  A("delim.star", "Delim", <<"star">>), A("delim.dot", "Delim", <<"dot">>), A("delim.gt", "Delim", <<"gt">>),
  A("delim.plus", "Delim", <<"plus">>), A("delim.slash", "Delim", <<"slash">>), A("delim.hash", "Delim", <<"hash">>),
  A("delim.at", "Delim", <<"at">>), A("delim.dash", "Delim", <<"dash">>), A("delim.lt", "Delim", <<"lt">>),
  A("delim.bang", "Delim", <<"bang">>), A("delim.pipe", "Delim", <<"pipe">>), A("delim.eq", "Delim", <<"eq">>),
  A("delim.tilde", "Delim", <<"tilde">>), A("delim.caret", "Delim", <<"caret">>), A("delim.dollar", "Delim", <<"dollar">>),
  A("delim.pct", "Delim", <<"pct">>), A("delim.qmark", "Delim", <<"qmark">>), A("delim.other", "Delim", <<"other">>),
  \* ---- comments (the library reports them as tokens; the standard drops them) in shapes that look like their own end
  A("cmt.stars",     "Comment", <<"slash", "star", "star", "letter", "slash", "star", "star", "slash">>),
  A("cmt.nl",        "Comment", <<"slash", "star", "nl", "quote", "sp", "star", "slash">>),
  A("cmt.punct",     "Comment", <<"slash", "star", "lt", "bang", "dash", "dash", "rparen", "bslash", "star", "slash">>),
  \* ---- negative shape: a string cut by a raw newline.  The atom is the part before the newline; the generator always
  \*      puts a whitespace item that starts with a newline behind it.
  A("badstr.dq",     "BadString", <<"quote", "letter">>),
  A("badstr.sq",     "BadString", <<"apos", "letter", "sp", "quote", "letter">>),
  A("badstr.esc",    "BadString", <<"quote", "bslash", "quote", "rparen">>),
  A("badstr.empty",  "BadString", <<"apos">>)
}

(***************************************************************************)
(* Separator items: whitespace and comments between two token atoms.       *)
(***************************************************************************)
SepAtoms == {
  A("sep.sp",   "Whitespace", <<"sp">>),
  A("sep.nl",   "Whitespace", <<"nl">>),
  A("sep.mix",  "Whitespace", <<"sp", "nl", "sp">>),
  A("sep.nlsp", "Whitespace", <<"nl", "sp">>),
  A("sep.cmt",  "Comment",    <<"slash", "star", "letter", "star", "slash">>),
  A("sep.cmt0", "Comment",    <<"slash", "star", "star", "slash">>)
}
\* only at the very end of the text: constructs ended by the end of input
FinalAtoms == {
  A("badurl.eof",    "BadURL", URL \o <<"letter", "quote", "letter">>),
  A("badurl.eofesc", "BadURL", URL \o <<"letter", "lparen", "bslash", "rparen">>)
}

AllItems   == TokenAtoms \cup SepAtoms \cup FinalAtoms
TokenNames == {d.n : d \in TokenAtoms}
SepNames   == {d.n : d \in SepAtoms}
FinalNames == {d.n : d \in FinalAtoms}
ItemNames  == {d.n : d \in AllItems}
Def  == [n \in ItemNames |-> CHOOSE d \in AllItems : d.n = n]
Kind == [n \in ItemNames |-> Def[n].k]
Cls  == [n \in ItemNames |-> Def[n].c]

\* unicode ranges: number of hex digits after '+', number of '?', number of hex digits after '-' (0: no range part)
URShape == [n \in {"ur.single", "ur.hex", "ur.six", "ur.range", "ur.range6", "ur.wild", "ur.wild6", "ur.allwild"} |->
   CASE n = "ur.single" -> <<2, 0, 0>> [] n = "ur.hex" -> <<3, 0, 0>> [] n = "ur.six" -> <<6, 0, 0>>
     [] n = "ur.range" -> <<1, 0, 2>>  [] n = "ur.range6" -> <<1, 0, 6>>
     [] n = "ur.wild" -> <<1, 2, 0>>   [] n = "ur.wild6" -> <<2, 4, 0>> [] n = "ur.allwild" -> <<0, 1, 0>>]
\* atoms that end in a hexadecimal escape without its terminating whitespace: a following whitespace code point would
\* be consumed as part of the escape, so such an atom can only be separated by a comment
OpenEscape == {"id.esc.hexopen"}

(***************************************************************************)
(* Merges(a, t): token atom a directly followed by text t (the classes of  *)
(* everything up to the next separator) would NOT be tokenised as a        *)
(* followed by the tokens of t.  One disjunct per look-ahead rule of       *)
(* section 4.3 ("would start an identifier", "starts with a number",       *)
(* consume a name / number / unicode-range, the two-code-point operators). *)
(* `--` is treated as the start of an identifier (css-variables / later    *)
(* editions), so texts on which the editions differ are never juxtaposed.  *)
(*                                                                         *)
(* NeedsSep(a, b) is the table of section 9 "Serialization": it speaks     *)
(* about token TYPES (delimiters by their character), and asks for a       *)
(* separator between two types as soon as SOME token of the first type     *)
(* merges with some token of the second.  It is derived here as exactly    *)
(* that closure of Merges over the atoms, which reproduces the rows of the *)
(* standard's table (ident x ident/function/url/bad-url/-/number/          *)
(* percentage/dimension/CDC/(, number x ident/.../%, # - @ . + / rows) and *)
(* extends them to the tokens the later editions dropped (unicode-range    *)
(* x ident/function/number/percentage/dimension/?, `$*^~|` x `=`, `|`x`|`) *)
(* and to custom property names.  The property quantifies over sequences   *)
(* "separated wherever the specification says two tokens would otherwise   *)
(* merge": a pair is juxtaposed only if the table allows it.               *)
(***************************************************************************)
F(t, i) == IF i <= Len(t) THEN t[i] ELSE "EOF"
StartsEscape(t) == F(t, 1) = "bslash" /\ F(t, 2) \notin {"nl", "EOF"}
StartsNameCh(t) == NameChar(F(t, 1)) \/ StartsEscape(t)
StartsIdent(t)  == \/ NameStart(F(t, 1)) \/ StartsEscape(t)
                   \/ F(t, 1) = "dash" /\ (NameStart(F(t, 2)) \/ F(t, 2) = "dash" \/ StartsEscape(Tail(t)))
DotDigit(t)     == F(t, 1) = "dot" /\ Digit(F(t, 2))
NameEnding(k)   == k \in {"Ident", "CustomPropertyName", "AtKeyword", "Hash", "Dimension"}
Has(c, x)       == \E i \in 1..Len(c) : c[i] = x

Merges(a, t) ==
  LET k == Kind[a]  c == Cls[a]  f1 == F(t, 1)  f2 == F(t, 2)  f3 == F(t, 3) IN
  \/ NameEnding(k) /\ StartsNameCh(t)                                  \* the name goes on
  \/ k = "Dimension" /\ c[Len(c)] = "e" /\ (\A i \in 1..(Len(c) - 1) : c[i] \in {"digit", "dot", "plus", "dash"})
       /\ f1 = "plus" /\ Digit(f2)                                    \* the unit `e` becomes an exponent (1e +5)
  \/ k \in {"Ident", "CustomPropertyName"} /\ f1 = "lparen"            \* becomes a function (or url)
  \/ k = "Ident" /\ c = <<"u">> /\ f1 = "plus" /\ (HexDigit(f2) \/ f2 = "qmark")     \* becomes a unicode range
  \/ k = "Number" /\ \/ StartsIdent(t)                                 \* becomes a dimension (or gets an exponent)
                     \/ f1 = "pct" \/ Digit(f1)
                     \/ DotDigit(t) /\ ~Has(c, "dot") /\ ~Has(c, "e")  \* gets a fraction
  \/ k = "UnicodeRange" /\
       LET n1 == URShape[a][1]  q == URShape[a][2]  n2 == URShape[a][3] IN
       IF q > 0 THEN n1 + q < 6 /\ f1 = "qmark"
       ELSE IF n2 > 0 THEN n2 < 6 /\ HexDigit(f1)
       ELSE \/ n1 < 6 /\ (HexDigit(f1) \/ f1 = "qmark")
            \/ f1 = "dash" /\ HexDigit(f2)                             \* becomes a range
  \/ k = "Delim" /\
       CASE c[1] = "hash"  -> StartsNameCh(t)                          \* hash token
         [] c[1] = "at"    -> StartsIdent(t)                           \* at-keyword
         [] c[1] = "dash"  -> \/ NameStart(f1) \/ f1 = "dash" \/ StartsEscape(t)     \* identifier, custom property, CDC
                              \/ Digit(f1) \/ DotDigit(t)                             \* number
         [] c[1] = "plus"  -> Digit(f1) \/ DotDigit(t)
         [] c[1] = "dot"   -> Digit(f1)
         [] c[1] = "slash" -> f1 = "star"                              \* opens a comment
         [] c[1] = "lt"    -> f1 = "bang" /\ f2 = "dash" /\ f3 = "dash"             \* CDO
         [] c[1] = "pipe"  -> f1 \in {"pipe", "eq"}                    \* column, dash-match
         [] c[1] \in {"tilde", "caret", "dollar", "star"} -> f1 = "eq"
         [] OTHER -> FALSE

TokenOrFinal == TokenNames \cup FinalNames
TypeKey(a)  == IF Kind[a] = "Delim" THEN Cls[a][1] ELSE Kind[a]
TypeKeys    == {TypeKey(a) : a \in TokenOrFinal}
OfType      == [k \in TypeKeys |-> {a \in TokenOrFinal : TypeKey(a) = k}]
TypeTable   == [ka \in TypeKeys, kb \in TypeKeys |-> \E a \in OfType[ka] \cap TokenNames, b \in OfType[kb] : Merges(a, Cls[b])]
NeedsSep(a, b) == TypeTable[TypeKey(a), TypeKey(b)]

\* separator choices behind a token atom: "none" only where NeedsSep and Merges allow (decided by the generator on the whole run)
BasicSeps == {"sep.sp", "sep.nl", "sep.cmt"}
SepsAfter(a, basic) == IF Kind[a] = "BadString" THEN (IF basic THEN {"sep.nl"} ELSE {"sep.nl", "sep.nlsp"})
                       ELSE IF a \in OpenEscape THEN (IF basic THEN {"none", "sep.cmt"} ELSE {"none", "sep.cmt", "sep.cmt0"})
                       ELSE {"none"} \cup (IF basic THEN BasicSeps ELSE SepNames)

(***************************************************************************)
(* Acceptance (used by CssTokensTrace).  The expectation is the sequence   *)
(* of items with their byte spans in the concrete text; the lexer must     *)
(* return exactly one token per item, of the item's kind, covering exactly *)
(* the item's bytes, then report the end of input.  Only latitude: the     *)
(* statement says a raw newline in a string "gives BadString" without      *)
(* saying whether the newline belongs to that token (the standard leaves   *)
(* it to the following whitespace), so a BadString may end anywhere inside *)
(* the whitespace item behind it, the rest being the whitespace token.     *)
(* State: [j |-> next expected item, pos |-> offset where the next token   *)
(* must start].                                                            *)
(***************************************************************************)
TokEnabled(names, los, his, st, kname, lo, hi, same) ==
  /\ st.j <= Len(names) /\ same /\ lo = st.pos /\ hi > lo
  /\ LET j == st.j IN
     IF lo = los[j]
     THEN /\ kname = Kind[names[j]]
          /\ \/ hi = his[j]
             \/ /\ kname = "BadString" /\ j < Len(names) /\ Kind[names[j + 1]] = "Whitespace"
                /\ hi > his[j] /\ hi <= his[j + 1]
     ELSE kname = "Whitespace" /\ Kind[names[j]] = "Whitespace" /\ lo > los[j] /\ hi = his[j]
TokNext(names, los, his, st, hi) ==
  LET j == st.j IN [j |-> IF hi = his[j] THEN j + 1 ELSE IF hi = his[j + 1] THEN j + 2 ELSE j + 1, pos |-> hi]
EndEnabled(names, st, eof) == st.j = Len(names) + 1 /\ eof

(***************************************************************************)
(* css.IsIdent / css.IsURLUnquoted agree with the lexer (relational: both  *)
(* sides are observed).  oneIdent: the whole argument was returned as one  *)
(* Ident or CustomPropertyName token; oneURL: "url(" argument ")" was      *)
(* returned as one URL token.                                              *)
(***************************************************************************)
IsFactOK(len, isIdent, oneIdent, isURL, oneURL) ==
  /\ len > 0 => (isIdent <=> oneIdent)
  /\ isURL => oneURL
=============================================================================
