SPECIFICATION Spec
CONSTANTS
  Modes = {"stylesheet", "inline"}
  MaxTop = 1
  MaxUnits = 2
  MaxDepth = 1
  MaxFeat = 2
  MaxWs = 0
  AtKinds = {"media", "import"}
  MinAtoms = 0
  EndBias = 0
CHECK_DEADLOCK FALSE
