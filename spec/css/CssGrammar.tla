---------------------------- MODULE CssGrammar ----------------------------
(***************************************************************************)
(* Generator (kind G) for the well-formed clause of C08: CSS Syntax Level 3 *)
(* section 5 (stylesheet -> rules; at-rule = at-keyword, prelude, `;` or a  *)
(* block; qualified rule = selector prelude + declaration block;           *)
(* declaration = name `:` value [`!important`]; custom property            *)
(* `--x: <anything>`) as grammar-as-behaviour, together with what the      *)
(* property statement says css.Parser must report for such a document.     *)
(*                                                                         *)
(* A state is a left-most derivation in progress: everything to the left   *)
(* of the first non-terminal has already been turned into                  *)
(*    atoms   the document as a sequence of ATOMS (one token each, named by *)
(*            its token kind; "S" / "C" / "W" are separators: whitespace-   *)
(*            bearing run, comment only, pure whitespace).  The harness     *)
(*            spells every atom (several spellings per atom, by seed).      *)
(*    units   the EXPECTED grammar stream: per unit the GrammarType name g, *)
(*            where it occurs (c), the token type tt and the atom d whose   *)
(*            (lower-cased) spelling is the unit's data, and Values() as a  *)
(*            sequence of [t |-> token type, i, j]: the spelling of atom i  *)
(*            (i = 0: the single " " whitespace token; custom property      *)
(*            value: the exact source text of atoms i..j, empty if i > j).  *)
(* `todo` is the rest of the sentential form.  A step expands the first    *)
(* non-terminal by one production, or decides one optional separator;      *)
(* steps without a choice are folded into their predecessor (Norm).        *)
(*                                                                         *)
(* Where whitespace is placed and what is expected (DESIGN.md C08 reading): *)
(*  - between two tokens of a value / at-rule prelude that are neither      *)
(*    punctuation nor brackets, between an at-keyword and a first prelude   *)
(*    token that is neither, and as descendant combinator after an          *)
(*    identifier / hash / `*` / `&`: a whitespace-bearing run "S" (a comment *)
(*    alone does not separate) => exactly one " " token in Values();        *)
(*  - next to a punctuation token (`, : / ! =` in values, `, :` in at-rule  *)
(*    preludes, `, > + ~ = ~=` in selectors), before/after the colon of a   *)
(*    declaration, at the start / end of a prelude or value, after `{`,     *)
(*    `;`, `}`: optionally "S" or "C" => no whitespace token;               *)
(*  - next to ( ) [ ] and function tokens: never generated;                 *)
(*  - between top-level units (and after `;` in inline mode): pure          *)
(*    whitespace "W" only, since a comment there is a unit of its own (or,  *)
(*    inline, not covered by the statement).                               *)
(* Three budgets bound the enumeration: MaxUnits (rules, declarations,     *)
(* comments, ... in the whole document), MaxFeat (productions beyond the    *)
(* simplest selector `a` / value `b` / prelude) and MaxWs (optional         *)
(* separators); the default alternatives (selector `a`, value `b`, the      *)
(* simplest prelude of the at-rule kind, no optional separator) are free.  *)
(* -simulate draws deep derivations from the same spec (EndBias keeps the  *)
(* lists from ending early, MinAtoms drops the short documents).  After an *)
(* at-keyword the run is required when the next token would otherwise be   *)
(* glued to the name (NeedsSep), optional before a string or a hash.       *)
(***************************************************************************)
EXTENDS Integers, Sequences, FiniteSets, TLC, Json, CSV, IOUtils

CONSTANTS Modes,      \* subset of {"stylesheet", "inline"}
          MaxTop,     \* top-level units of a stylesheet
          MaxUnits,   \* structural units in the whole document
          MaxDepth,   \* block levels allowed below a top-level rule
          MaxFeat,    \* non-default selector / value / prelude productions
          MaxWs,      \* optional separators
          AtKinds,    \* at-rule kinds to use
          MinAtoms,   \* emit only documents of at least this many atoms (0 for the exhaustive runs)
          EndBias     \* 0: exhaustive enumeration; n > 0 (-simulate): while units remain in the budget a list ends with probability 1/n only

AllKinds == {"import", "charset", "namespace", "layer", "media", "supports", "document", "keyframes", "wkeyframes",
             "fontface", "page", "unknown"}
ASSUME AtKinds \subseteq AllKinds /\ Modes \subseteq {"stylesheet", "inline"}
AtAtoms == {"at." \o K : K \in AllKinds}

(***************************************************************************)
(* Atoms and the token type css.TokenType.String() of each.                *)
(***************************************************************************)
IdentLike == {"ident", "prop", "important"}
Plain     == {"ident", "num", "dim", "pct", "str", "hash", "url", "important"}   \* value tokens that are neither punctuation nor brackets
Brackets  == {"func", "pfunc", "lparen", "rparen", "lbrack", "rbrack"}
Seps      == {"S", "C", "W"}
TokType(a) ==
    CASE a \in IdentLike -> "Ident"
      [] a = "num" -> "Number"      [] a = "dim" -> "Dimension"   [] a = "pct" -> "Percentage"
      [] a = "str" -> "String"      [] a = "hash" -> "Hash"       [] a = "url" -> "URL"
      [] a \in {"func", "pfunc"} -> "Function"
      [] a = "comma" -> "Comma"     [] a = "colon" -> "Colon"     [] a = "semi" -> "Semicolon"
      [] a = "lbrace" -> "LeftBrace"       [] a = "rbrace" -> "RightBrace"
      [] a = "lparen" -> "LeftParenthesis" [] a = "rparen" -> "RightParenthesis"
      [] a = "lbrack" -> "LeftBracket"     [] a = "rbrack" -> "RightBracket"
      [] a \in {"slash", "bang", "eq", "gt", "plus", "tilde", "dot", "star", "amp"} -> "Delim"
      [] a = "incl" -> "IncludeMatch"
      [] a \in AtAtoms -> "AtKeyword"
      [] a = "cpname" -> "CustomPropertyName"
      [] a = "cdo" -> "CDO"         [] a = "cdc" -> "CDC"         [] a = "comment" -> "Comment"
      [] a = "W" -> "Whitespace"
      [] OTHER -> ""                \* S, C, cpblock, cpparen: never reported as a token of their own

(***************************************************************************)
(* Which adjacent tokens would lex differently when juxtaposed (CSS Syntax *)
(* Level 3 section 9, the serialization table, on atoms; "at" stands for   *)
(* any at-keyword).  Over-approximated on the "needs" side.                *)
(***************************************************************************)
NameStartish == IdentLike \cup {"cpname", "func", "pfunc", "url", "num", "dim", "pct", "cdc"}
NeedsSep(a, b) ==
    \/ a \in IdentLike \cup AtAtoms \cup {"at", "cpname", "hash", "dim", "num"} /\ b \in NameStartish
    \/ a \in IdentLike /\ b = "lparen"
    \/ a \in {"dot", "plus"} /\ b \in {"num", "dim", "pct"}
    \/ a = "slash" /\ b = "star"

(***************************************************************************)
(* Separator between two tokens a, b of one Values() run, by context:      *)
(*   "none" juxtaposed   "req" a whitespace-bearing run, " " expected      *)
(*   "opt"  nothing, or a run / a comment: no whitespace token expected    *)
(***************************************************************************)
PunctOf(ctx) == CASE ctx = "sel" -> {"comma", "gt", "plus", "tilde", "eq", "incl"}
                  [] ctx = "val" -> {"comma", "colon", "slash", "bang", "eq"}
                  [] OTHER       -> {"comma", "colon"}                            \* "pre": at-rule prelude
TightOf(ctx) == IF ctx = "pre" THEN Brackets \cup {"slash", "eq", "bang"} ELSE Brackets
SepKind(a, b, ctx) ==
    IF a \in TightOf(ctx) \/ b \in TightOf(ctx) THEN "none"
    ELSE IF a \in PunctOf(ctx) \/ b \in PunctOf(ctx) THEN "opt"
    ELSE IF ctx = "sel" THEN "none"          \* inside a compound selector (a#b, a.b, a:hover); combinators are explicit
    ELSE "req"

(***************************************************************************)
(* Grammar symbols.                                                        *)
(***************************************************************************)
Sym(k, n, a, b, c, d) == [k |-> k, n |-> n, a |-> a, b |-> b, c |-> c, d |-> d]
NT(n, a, d)    == Sym("nt", n, a, "", "", d)        \* non-terminal n with argument a and depth / count d
T(n, a, b, c)  == Sym("t", n, a, b, c, 0)            \* terminal: atom n with role a
TV(n, ctx)     == T(n, "val", ctx, "")               \* a token of the current unit's Values(), context sel | val | pre
Skip(n)        == T(n, "skip", "", "")               \* a token that is not reported (`:` of a declaration, `;`, `{`)
CV(n)          == T(n, "cpv", "", "")                \* part of a custom property value
TU(n)          == T(n, "unit", "Token", "unknown")   \* a token of an unknown at-rule's block: a unit of its own
Begin(n, g, c) == T(n, "begin", g, c)                \* the token that names a unit of GrammarType g
End(g, c)      == T("rbrace", "end", g, c)
Desc           == T("S", "ws", "", "")               \* descendant combinator
Mark(g, c)     == Sym("mark", "", "", g, c, 0)       \* a unit without a naming token (BeginRuleset)
Slot           == Sym("slot", "opt", "", "", "", 0)  \* optional separator, no whitespace token expected
SlotW          == Sym("slot", "optW", "", "", "", 0) \* optional pure whitespace
First(a)       == Sym("slot", "first", a, "", "", 0) \* between the at-keyword and a first prelude token a
SlotC          == Sym("slot", "C", "", "", "", 0)    \* a comment (inline declaration lists: between / before declarations)

P(p, cu, cf, rhs) == [p |-> p, cu |-> cu, cf |-> cf, rhs |-> rhs]
EndOK(s) == EndBias = 0 \/ s.bu = 0 \/ RandomElement(1..EndBias) = 1      \* deep random derivations: do not stop early
Ends(p, s) == IF EndOK(s) THEN {P(p, 0, 0, <<>>)} ELSE {}
Vs(seq, ctx) == [i \in 1..Len(seq) |-> TV(seq[i], ctx)]
Pre(seq)  == Vs(seq, "pre")
PreF(seq) == <<First(seq[1])>> \o Pre(seq)
Us(seq)   == [i \in 1..Len(seq) |-> TU(seq[i])]
Cs(seq)   == [i \in 1..Len(seq) |-> CV(seq[i])]

VARIABLE st
(* st = [mode, atoms, units, todo, pv, bu, bf, bw, used]; pv: the previous token of the current Values() run ("" at its start) *)

\* ---- productions ---------------------------------------------------------
SemiKinds(ctx)  == IF ctx = "top" THEN {"import", "charset", "namespace", "layer", "unknown"} ELSE {"layer", "unknown"}
BlockKinds(ctx) == IF ctx = "top" THEN AllKinds \ {"import", "charset", "namespace"} ELSE {"media", "supports", "layer", "unknown"}
Body(K, d) ==
    CASE K \in {"media", "supports", "document", "layer"} -> <<Slot, NT("RuleList", "", d)>>     \* the library's rule-list kinds
      [] K \in {"keyframes", "wkeyframes"}               -> <<Slot, NT("KfList", "", d)>>
      [] K \in {"fontface", "page"}                      -> <<Slot, NT("DeclList", "atdecl", 0)>> \* declaration-list kinds
      [] OTHER                                           -> <<NT("UnkBody", "", 0)>>              \* any other name: tokens

PreludeProds(K) ==
    CASE K = "import;"    -> {P("pre.import.str", 0, 0, PreF(<<"str">>)), P("pre.import.url", 0, 1, PreF(<<"url">>)),
                              P("pre.import.str-medium", 0, 1, PreF(<<"str", "ident">>)),
                              P("pre.import.url-media", 0, 1, PreF(<<"url", "ident", "comma", "ident">>))}
      [] K = "charset;"   -> {P("pre.charset", 0, 0, PreF(<<"str">>))}
      [] K = "namespace;" -> {P("pre.ns.prefix-url", 0, 0, PreF(<<"ident", "url">>)), P("pre.ns.url", 0, 1, PreF(<<"url">>)),
                              P("pre.ns.prefix-str", 0, 1, PreF(<<"ident", "str">>))}
      [] K = "layer;"     -> {P("pre.layer.name", 0, 0, PreF(<<"ident">>)), P("pre.layer.names", 0, 1, PreF(<<"ident", "comma", "ident">>))}
      [] K = "layer"      -> {P("pre.layer.anon", 0, 0, <<>>), P("pre.layer.block-name", 0, 0, PreF(<<"ident">>))}
      [] K = "media"      -> {P("pre.media.type", 0, 0, PreF(<<"ident">>)), P("pre.media.list", 0, 1, PreF(<<"ident", "comma", "ident">>)),
                              P("pre.media.only", 0, 1, PreF(<<"ident", "ident">>)),
                              P("pre.media.feature", 0, 1, Pre(<<"lparen", "ident", "colon", "dim", "rparen">>)),
                              P("pre.media.ratio", 0, 1, Pre(<<"lparen", "ident", "colon", "num", "slash", "num", "rparen">>))}
      [] K = "supports"   -> {P("pre.supports.decl", 0, 0, Pre(<<"lparen", "ident", "colon", "ident", "rparen">>)),
                              P("pre.supports.decl2", 0, 1, Pre(<<"lparen", "ident", "colon", "ident", "ident", "rparen">>))}
      [] K = "document"   -> {P("pre.document.url", 0, 0, PreF(<<"url">>)), P("pre.document.func", 0, 1, PreF(<<"func", "str", "rparen">>))}
      [] K \in {"keyframes", "wkeyframes"} ->
                             {P("pre.keyframes.name", 0, 0, PreF(<<"ident">>)), P("pre.keyframes.str", 0, 1, PreF(<<"str">>))}
      [] K = "fontface"   -> {P("pre.fontface", 0, 0, <<>>)}
      [] K = "page"       -> {P("pre.page.none", 0, 0, <<>>), P("pre.page.pseudo", 0, 1, Pre(<<"colon", "ident">>)),
                              P("pre.page.name", 0, 1, PreF(<<"ident">>)), P("pre.page.name-pseudo", 0, 1, PreF(<<"ident", "colon", "ident">>))}
      [] OTHER            -> {P("pre.unknown.none", 0, 0, <<>>), P("pre.unknown.ident", 0, 1, PreF(<<"ident">>)),
                              P("pre.unknown.two", 0, 1, PreF(<<"ident", "ident">>)), P("pre.unknown.list", 0, 1, PreF(<<"ident", "comma", "num">>)),
                              P("pre.unknown.str", 0, 1, PreF(<<"str">>)), P("pre.unknown.paren", 0, 1, Pre(<<"lparen", "ident", "rparen">>)),
                              P("pre.unknown.hash", 0, 1, PreF(<<"hash">>)), P("pre.unknown.pair", 0, 1, PreF(<<"ident", "colon", "ident">>))}

SubProds(a) ==
    {P("sub.class", 0, 0, Vs(<<"dot", "ident">>, "sel"))} \cup
    (IF a = "nested" THEN {} ELSE       \* a nested ruleset is recognised inside a declaration list: it starts like a declaration or with a delimiter
     {P("sub.id", 0, 0, Vs(<<"hash">>, "sel")),
      P("sub.attr", 0, 0, Vs(<<"lbrack", "ident", "rbrack">>, "sel")),
      P("sub.attr-eq", 0, 0, Vs(<<"lbrack", "ident", "eq", "ident", "rbrack">>, "sel")),
      P("sub.attr-eq-str", 0, 0, Vs(<<"lbrack", "ident", "eq", "str", "rbrack">>, "sel")),
      P("sub.attr-incl", 0, 0, Vs(<<"lbrack", "ident", "incl", "ident", "rbrack">>, "sel")),
      P("sub.pseudo", 0, 0, Vs(<<"colon", "ident">>, "sel")),
      P("sub.pseudo-el", 0, 0, Vs(<<"colon", "colon", "ident">>, "sel")),
      P("sub.not", 0, 0, Vs(<<"colon", "pfunc", "ident", "rparen">>, "sel")),
      P("sub.not-class", 0, 0, Vs(<<"colon", "pfunc", "dot", "ident", "rparen">>, "sel")),
      P("sub.is-attrs", 0, 0, Vs(<<"colon", "pfunc", "lbrack", "ident", "rbrack", "comma", "lbrack", "ident", "rbrack", "rparen">>, "sel"))})

PlainComp == {P("v.num", 0, 1, <<TV("num", "val")>>), P("v.dim", 0, 1, <<TV("dim", "val")>>), P("v.pct", 0, 1, <<TV("pct", "val")>>),
              P("v.str", 0, 1, <<TV("str", "val")>>), P("v.hash", 0, 1, <<TV("hash", "val")>>), P("v.url", 0, 1, <<TV("url", "val")>>)}

Prods(h, s) ==
    LET n == h.n  a == h.a  d == h.d IN
    CASE n = "Sheet" ->
           Ends("sheet.end", s) \cup
           (IF d = 0 THEN {} ELSE
            LET rest == <<SlotW, NT("Sheet", "", d - 1)>> IN
            {P("top.comment", 1, 0, <<T("comment", "unit", "Comment", "top")>> \o rest),
             P("top.cdo", 1, 0, <<T("cdo", "unit", "Token", "top")>> \o rest),
             P("top.cdc", 1, 0, <<T("cdc", "unit", "Token", "top")>> \o rest),
             P("top.at-rule", 1, 0, <<NT("AtRule", "top", MaxDepth)>> \o rest),
             P("top.ruleset", 1, 0, <<NT("QRule", "top", MaxDepth)>> \o rest)})
      [] n = "AtRule" ->
           {P("at.semi." \o K, 0, 0, <<Begin("at." \o K, "AtRule", a), NT("Prelude", K \o ";", 0), Slot, Skip("semi")>>)
              : K \in SemiKinds(a) \cap AtKinds}
           \cup (IF d = 0 THEN {} ELSE
           {P("at.block." \o K, 0, 0, <<Begin("at." \o K, "BeginAtRule", a), NT("Prelude", K, 0), Slot, Skip("lbrace")>>
                                       \o Body(K, d - 1) \o <<End("EndAtRule", a)>>)
              : K \in BlockKinds(a) \cap AtKinds})
      [] n = "Prelude" -> PreludeProds(a)
      [] n = "RuleList" ->
           Ends("rl.end", s) \cup {
            P("rl.ruleset", 1, 0, <<NT("QRule", "rulelist", d), Slot, NT("RuleList", "", d)>>),
            P("rl.at-rule", 1, 0, <<NT("AtRule", "rulelist", d), Slot, NT("RuleList", "", d)>>)}
      [] n = "KfList" ->
           Ends("kf.end", s) \cup {
            P("kf.rule", 1, 0, <<Mark("BeginRuleset", "keyframes"), NT("KfSel", "", 0), Slot, Skip("lbrace"), Slot,
                                 NT("DeclList", "kfdecl", 0), End("EndRuleset", "keyframes"), Slot, NT("KfList", "", d)>>)}
      [] n = "KfSel" ->
           {P("kfs.ident", 0, 0, Vs(<<"ident">>, "sel")), P("kfs.pct", 0, 1, Vs(<<"pct">>, "sel")),
            P("kfs.list", 0, 1, Vs(<<"pct", "comma", "pct">>, "sel")), P("kfs.mixed", 0, 1, Vs(<<"ident", "comma", "pct">>, "sel"))}
      [] n = "QRule" ->      \* qualified rule: selector prelude and declaration block
           {P("ruleset", 0, 0, <<Mark("BeginRuleset", a), NT("Compound", IF a = "nested" THEN "nested" ELSE "any", 0), NT("CxRest", "", 0),
                                 Slot, Skip("lbrace"), Slot, NT("DeclList", "ruleset", d), End("EndRuleset", a)>>)}
      [] n = "Compound" ->
           {P("cmp.type", 0, 0, <<TV("ident", "sel"), NT("SubRest", "", 0)>>),
            P("cmp.sub", 0, 1, <<NT("Sub", a, 0), NT("SubRest", "", 0)>>)}
           \cup (IF a = "nested" THEN {P("cmp.amp", 0, 1, <<TV("amp", "sel"), NT("SubRest", "", 0)>>)}
                 ELSE {P("cmp.star", 0, 1, <<TV("star", "sel"), NT("SubRest", "", 0)>>)})
      [] n = "SubRest" -> {P("subs.end", 0, 0, <<>>), P("subs.more", 0, 1, <<NT("Sub", "any", 0), NT("SubRest", "", 0)>>)}
      [] n = "Sub" -> SubProds(a)
      [] n = "CxRest" ->     \* combinators and the selector list
           {P("cx.end", 0, 0, <<>>)} \cup
           {P("cx." \o c, 0, 1, <<TV(c, "sel"), NT("Compound", "any", 0), NT("CxRest", "", 0)>>) : c \in {"gt", "plus", "tilde", "comma"}} \cup
           (IF s.pv \in {"ident", "hash", "star", "amp"}
            THEN {P("cx.descendant", 0, 1, <<Desc, NT("Compound", "any", 0), NT("CxRest", "", 0)>>)} ELSE {})
      [] n = "DeclList" ->   \* a: ruleset | atdecl | kfdecl | inline
           Ends("dl.end", s) \cup {
            P("dl.declaration", 1, 0, <<NT("Decl", a, 0), NT("DRest", a, d)>>),
            P("dl.custom-property", 1, 0, <<NT("Custom", a, 0), NT("DRest", a, d)>>)} \cup
           (IF s.mode = "stylesheet" /\ a = "ruleset" /\ d > 0
            THEN {P("dl.nested-ruleset", 1, 0, <<NT("QRule", "nested", d - 1), Slot, NT("DeclList", a, d)>>)} ELSE {})
      [] n = "DRest" ->
           LET after == IF a = "inline" THEN SlotW ELSE Slot IN
           {P("dr.last", 0, 0, <<>>),
            P("dr.semicolon", 0, 0, <<Skip("semi"), after, NT("DeclList", a, d)>>),
            P("dr.semicolons", 0, 1, <<Skip("semi"), Skip("semi"), after, NT("DeclList", a, d)>>)}
           \* inline lists: a comment after the `;` (before the next declaration, before an empty declaration, at the end).
           \* Whether such a comment is a unit of its own is left open (the trace specification accepts a Comment unit or none);
           \* what is not open is that the list stays well-formed: its declarations are reported and no error is.
           \cup (IF a = "inline" THEN
                 {P("dr.semicolon-comment", 0, 1, <<Skip("semi"), SlotC, SlotW, NT("DeclList", a, d)>>),
                  P("dr.semicolon-comment-semicolon", 0, 1, <<Skip("semi"), SlotC, Skip("semi"), SlotW, NT("DeclList", a, d)>>)}
                ELSE {})
      [] n = "Decl" ->
           {P("declaration", 0, 0, <<Begin("prop", "Declaration", a), Slot, Skip("colon"), Slot, NT("Comp", "any", 0), NT("VRest", "", 0),
                                     NT("Imp", "", 0), Slot>>)}
      [] n = "Comp" ->
           {P("v.ident", 0, 0, <<TV("ident", "val")>>)} \cup PlainComp \cup
           (IF a = "any" THEN {P("v.function", 0, 1, <<TV("func", "val"), NT("Comp", "plain", 0), NT("ARest", "", 0), TV("rparen", "val")>>)} ELSE {})
      [] n = "ARest" ->      \* function arguments
           {P("arg.end", 0, 0, <<>>),
            P("arg.comma", 0, 1, <<TV("comma", "val"), NT("Comp", "plain", 0), NT("ARest", "", 0)>>),
            P("arg.eq", 0, 1, <<TV("eq", "val"), NT("Comp", "plain", 0)>>),
            P("arg.space", 0, 1, <<NT("Comp", "plain", 0), NT("ARest", "", 0)>>)}
      [] n = "VRest" ->
           {P("vr.end", 0, 0, <<>>),
            P("vr.comma", 0, 1, <<TV("comma", "val"), NT("Comp", "any", 0), NT("VRest", "", 0)>>),
            P("vr.slash", 0, 1, <<TV("slash", "val"), NT("Comp", "any", 0), NT("VRest", "", 0)>>)} \cup
           (IF s.pv \in Plain THEN {P("vr.space", 0, 1, <<NT("Comp", "plain", 0), NT("VRest", "", 0)>>)} ELSE {})
      [] n = "Imp" -> {P("imp.none", 0, 0, <<>>), P("imp.important", 0, 1, Vs(<<"bang", "important">>, "val"))}
      [] n = "Custom" ->
           {P("custom-property", 0, 0, <<Begin("cpname", "CustomProperty", a), Slot, T("colon", "cpcolon", "", ""), NT("CpVal", "", 0)>>)}
      [] n = "CpVal" ->      \* `--x: <anything>`: the value is the exact source text up to the terminator
           {P("cp.ident", 0, 0, Cs(<<"ident">>)), P("cp.empty", 0, 1, <<>>), P("cp.lead-ws", 0, 1, Cs(<<"S", "ident">>)),
            P("cp.two", 0, 1, Cs(<<"ident", "S", "ident">>)), P("cp.trail-ws", 0, 1, Cs(<<"ident", "S">>)),
            P("cp.block", 0, 1, Cs(<<"cpblock">>)), P("cp.ws-block-ws", 0, 1, Cs(<<"S", "cpblock", "S">>)),
            P("cp.paren", 0, 1, Cs(<<"cpparen">>)), P("cp.list", 0, 1, Cs(<<"num", "comma", "num">>)),
            P("cp.str", 0, 1, Cs(<<"str">>)), P("cp.comment", 0, 1, Cs(<<"ident", "C", "ident">>)),
            P("cp.function", 0, 1, Cs(<<"func", "ident", "rparen">>))}
      [] n = "UnkBody" ->    \* block of an at-rule the library does not know: every token is a unit, whitespace included
           {P("unk.empty", 0, 0, <<>>), P("unk.ident", 0, 0, Us(<<"ident">>)),
            P("unk.ws", 0, 1, Us(<<"ident", "W", "ident">>)),
            P("unk.decls", 0, 1, Us(<<"ident", "colon", "ident", "semi", "ident", "colon", "num">>)),
            P("unk.block", 0, 1, Us(<<"ident", "lbrace", "ident", "colon", "ident", "rbrace">>)),
            P("unk.paren", 0, 1, Us(<<"lparen", "ident", "semi", "ident", "rparen">>)),
            P("unk.function", 0, 1, Us(<<"func", "ident", "comma", "str", "rparen">>))}
      [] OTHER -> {}
Single == {"QRule", "Decl", "Custom"}      \* one production, no cost: folded

\* ---- building the document and the expected stream ------------------------
NewUnit(g, c, tt, d) == [g |-> g, c |-> c, tt |-> tt, d |-> d, v |-> <<>>]
Val(t, i, j) == [t |-> t, i |-> i, j |-> j]
Pop(s) == [s EXCEPT !.todo = Tail(@)]
PutSep(s, x) == [s EXCEPT !.atoms = Append(@, x), !.pv = ""]                         \* separator without expectation
PutWs(s) == [s EXCEPT !.atoms = Append(@, "S"), !.pv = "",
                      !.units[Len(s.units)].v = Append(@, Val("Whitespace", 0, 0))]   \* separator kept as one " " token
Shift(s0, h) ==      \* terminal h, already popped
    LET idx == Len(s0.atoms) + 1
        nu  == Len(s0.units)
        s   == [s0 EXCEPT !.atoms = Append(@, h.n), !.pv = ""]
    IN CASE h.a = "skip"    -> s
         [] h.a = "val"     -> [s EXCEPT !.pv = h.n, !.units[nu].v = Append(@, Val(TokType(h.n), idx, idx))]
         [] h.a = "ws"      -> [s EXCEPT !.units[nu].v = Append(@, Val("Whitespace", 0, 0))]
         [] h.a \in {"begin", "unit"} -> [s EXCEPT !.units = Append(@, NewUnit(h.b, h.c, TokType(h.n), idx))]
         [] h.a = "end"     -> [s EXCEPT !.units = Append(@, NewUnit(h.b, h.c, "", 0))]
         [] h.a = "cpcolon" -> [s EXCEPT !.units[nu].v = <<Val("CustomPropertyValue", idx + 1, idx)>>]
         [] h.a = "cpv"     -> [s EXCEPT !.units[nu].v[1].j = idx]
Kind(s, h) == IF h.a = "val" /\ s.pv # "" THEN SepKind(s.pv, h.n, h.b) ELSE "none"
Expand(s, p) == [s EXCEPT !.todo = p.rhs \o Tail(@), !.bu = @ - p.cu, !.bf = @ - p.cf, !.used = @ \cup {p.p}]

RECURSIVE Norm(_)
Norm(s) ==           \* carry out every step that involves no choice
    IF s.todo = <<>> THEN s ELSE
    LET h == Head(s.todo)  r == Pop(s) IN
    CASE h.k = "t" ->
           LET kd == Kind(s, h) IN
           IF kd = "none" THEN Norm(Shift(r, h))
           ELSE IF kd = "req" THEN Norm(Shift(PutWs(r), h))
           ELSE IF s.bw = 0 THEN Norm(Shift(r, h)) ELSE s
      [] h.k = "mark" -> Norm([r EXCEPT !.pv = "", !.units = Append(@, NewUnit(h.b, h.c, "", 0))])
      [] h.k = "slot" ->
           IF h.n = "first" /\ NeedsSep("at", h.a) THEN Norm(PutWs(r))
           ELSE IF h.n = "C" THEN Norm(PutSep(r, "C"))
           ELSE IF s.bw = 0 THEN Norm(r) ELSE s
      [] h.k = "nt" /\ h.n \in Single -> Norm(Expand(s, CHOOSE p \in Prods(h, s) : TRUE))
      [] OTHER -> s

Succ(s) ==           \* the choices of one step
    LET h == Head(s.todo)  r == Pop(s)  w == [r EXCEPT !.bw = @ - 1] IN
    CASE h.k = "nt" -> {Expand(s, p) : p \in {q \in Prods(h, s) : q.cu <= s.bu /\ q.cf <= s.bf}}
      [] h.k = "t"  -> {Shift(r, h)} \cup {Shift(PutSep(w, x), h) : x \in {"S", "C"}}
      [] h.k = "slot" /\ h.n = "first" -> {r, PutWs(w)}
      [] h.k = "slot" /\ h.n = "optW"  -> {r, PutSep(w, "W")}
      [] OTHER         -> {r} \cup {PutSep(w, x) : x \in {"S", "C"}}

\* ---- emission --------------------------------------------------------------
CaseFile == IOEnv.VERIF_CASES
ErrUnit == NewUnit("Error", "end", "Error", 0)       \* the stream ends with ErrorGrammar whose Err() is io.EOF
NoMerge(atoms) == \A i \in 1..(Len(atoms) - 1) :
                     atoms[i] \in Seps \/ atoms[i + 1] \in Seps \/ ~NeedsSep(atoms[i], atoms[i + 1])
Write(s) ==
    /\ Assert(NoMerge(s.atoms), <<"adjacent atoms would lex differently", s.atoms>>)
    /\ CSVWrite("%1$s", <<ToJson([mode |-> s.mode, atoms |-> s.atoms, units |-> Append(s.units, ErrUnit), prods |-> s.used])>>, CaseFile)

Start(m) == [mode |-> m, atoms |-> <<>>, units |-> <<>>, pv |-> "", bu |-> MaxUnits, bf |-> MaxFeat, bw |-> MaxWs, used |-> {},
             todo |-> IF m = "stylesheet" THEN <<SlotW, NT("Sheet", "", MaxTop)>> ELSE <<SlotW, NT("DeclList", "inline", 0)>>]
Init == \E m \in Modes : st = Norm(Start(m))
Next == /\ st.todo # <<>>
        /\ \E nx \in Succ(st) :
             /\ st' = Norm(nx)
             /\ (st'.todo = <<>> /\ Len(st'.atoms) >= MinAtoms => Write(st'))
Spec == Init /\ [][Next]_st
=============================================================================
