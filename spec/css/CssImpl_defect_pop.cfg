SPECIFICATION Spec
CONSTANTS
  MaxTok = 3
  Alphabet = {"ident", "delim", "star", "open", "close", "lbrace", "rbrace", "colon", "semi", "atrl", "atdl", "atun", "ws", "comment", "cpname", "cdo", "other"}
  Modes = {TRUE, FALSE}
  Emit = FALSE
  AtDeclEndsAtEOF = TRUE
  StarAloneAtEOF = TRUE
  GuardedPop = FALSE
PROPERTY Refines
CHECK_DEADLOCK FALSE
