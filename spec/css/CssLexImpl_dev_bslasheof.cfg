SPECIFICATION Spec
CONSTANTS
  Prefixes = {"none"}
  Alphabet = {"letter", "bslash", "hash"}
  MaxLen = 2
  Emit = FALSE
  UnicodeRangeAsStandard = FALSE
  BadStringAsStandard = FALSE
  BslashEofAsStandard = FALSE
  DashedFunctionAsStandard = FALSE
  UrlNameAsStandard = FALSE
  NulAsStandard = FALSE
  Excuse = {"unicode-range", "badstring-newline", "dashed-function", "url-name"}
  Defect = "none"
INVARIANT TypeOK
PROPERTY RefinesTok
PROPERTY AgreesStd
PROPERTY Tight
CHECK_DEADLOCK FALSE
