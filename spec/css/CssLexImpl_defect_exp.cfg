SPECIFICATION Spec
CONSTANTS
  Prefixes = {"none"}
  Alphabet = {"digit", "e", "plus"}
  MaxLen = 3
  Emit = FALSE
  UnicodeRangeAsStandard = FALSE
  BadStringAsStandard = FALSE
  BslashEofAsStandard = FALSE
  DashedFunctionAsStandard = FALSE
  UrlNameAsStandard = FALSE
  NulAsStandard = FALSE
  Excuse = {"unicode-range", "badstring-newline", "bslash-eof", "dashed-function", "url-name"}
  Defect = "exp"
INVARIANT TypeOK
PROPERTY RefinesTok
PROPERTY AgreesStd
PROPERTY Tight
CHECK_DEADLOCK FALSE
