SPECIFICATION Spec
CONSTANTS
  Prefixes = {"copen"}
  Alphabet = {"star", "slash", "letter"}
  MaxLen = 4
  Emit = FALSE
  UnicodeRangeAsStandard = FALSE
  BadStringAsStandard = FALSE
  BslashEofAsStandard = FALSE
  DashedFunctionAsStandard = FALSE
  UrlNameAsStandard = FALSE
  NulAsStandard = FALSE
  Excuse = {"unicode-range", "badstring-newline", "bslash-eof", "dashed-function", "url-name"}
  Defect = "comment"
INVARIANT TypeOK
PROPERTY RefinesTok
PROPERTY AgreesStd
PROPERTY Tight
CHECK_DEADLOCK FALSE
