------------------------------- MODULE CssRef -------------------------------
(***************************************************************************)
(* Second, independent formalisation for C07: section 4.3 of CSS Syntax    *)
(* Level 3 (CR 20 February 2014), "consume a token" and the algorithms it  *)
(* calls, transcribed as a deterministic function over the class alphabet  *)
(* of CssTokens.tla.  Tokens(s) is the sequence of [k, lo, hi): kind and   *)
(* half-open span (1-based) in the class sequence s.                       *)
(*                                                                         *)
(* Deliberate differences from the letter of the standard, both matching   *)
(* what the property statement asks of the library:                        *)
(*  - comments are returned as "Comment" tokens (the library's extra       *)
(*    token) instead of being dropped;                                     *)
(*  - an identifier that starts with `--` is a "CustomPropertyName"; `-`   *)
(*    followed by `-` starts an identifier (css-variables-1 and the later  *)
(*    editions of the standard; the 2014 text lexes `--x` as two delims    *)
(*    and an identifier).  The generator never juxtaposes texts on which   *)
(*    the two editions differ.                                             *)
(* Kinds use the names of css.TokenType.String().  The function name `url` *)
(* is recognised by the VALUE of the name (4.3.4): `u\rl(` opens a url,    *)
(* `u\\rl(` does not; the value of a hexadecimal escape is not determined  *)
(* on classes and counts as "not u, r or l" (the harnesses never spell one *)
(* that way).  Preprocessing (CR, FF, CRLF to LF) is the class "nl".       *)
(***************************************************************************)
EXTENDS Integers, Sequences

At(s, i) == IF i >= 1 /\ i <= Len(s) THEN s[i] ELSE "EOF"

RDigit(c)     == c = "digit"
RHex(c)       == c \in {"digit", "hex", "e"}
RNameStart(c) == c \in {"letter", "hex", "e", "u", "r", "l", "nonascii"}
RName(c)      == RNameStart(c) \/ c \in {"digit", "dash"}
RWS(c)        == c \in {"sp", "nl"}
RNonPrint(c)  == c = "np"

\* 4.3.8 check if two code points are a valid escape
ValidEscape(s, i) == At(s, i) = "bslash" /\ At(s, i + 1) # "nl"

\* 4.3.7 consume an escaped code point; i is the position behind the backslash; result: position behind the escape
RECURSIVE HexRun(_, _, _)
HexRun(s, i, max) == IF max > 0 /\ RHex(At(s, i)) THEN HexRun(s, i + 1, max - 1) ELSE i
EscEnd(s, i) ==
  IF RHex(At(s, i)) THEN LET e == HexRun(s, i, 6) IN IF RWS(At(s, e)) THEN e + 1 ELSE e
  ELSE IF At(s, i) = "EOF" THEN i
  ELSE i + 1

\* 4.3.9 check if three code points would start an identifier (with `--`, see above)
StartsIdent(s, i) ==
  LET c == At(s, i) IN
  IF c = "dash" THEN RNameStart(At(s, i + 1)) \/ At(s, i + 1) = "dash" \/ ValidEscape(s, i + 1)
  ELSE IF RNameStart(c) THEN TRUE
  ELSE IF c = "bslash" THEN ValidEscape(s, i)
  ELSE FALSE

\* 4.3.10 check if three code points would start a number
StartsNumber(s, i) ==
  LET c == At(s, i) IN
  IF c \in {"plus", "dash"}
  THEN RDigit(At(s, i + 1)) \/ (At(s, i + 1) = "dot" /\ RDigit(At(s, i + 2)))
  ELSE IF c = "dot" THEN RDigit(At(s, i + 1))
  ELSE RDigit(c)

\* 4.3.11 consume a name: position behind it
RECURSIVE NameEnd(_, _)
NameEnd(s, i) ==
  IF RName(At(s, i)) THEN NameEnd(s, i + 1)
  ELSE IF ValidEscape(s, i) THEN NameEnd(s, EscEnd(s, i + 1))
  ELSE i

\* 4.3.12 consume a number: position behind it
RECURSIVE Digits(_, _)
Digits(s, i) == IF RDigit(At(s, i)) THEN Digits(s, i + 1) ELSE i
NumberEnd(s, i) ==
  LET a == IF At(s, i) \in {"plus", "dash"} THEN i + 1 ELSE i
      b == Digits(s, a)
      c == IF At(s, b) = "dot" /\ RDigit(At(s, b + 1)) THEN Digits(s, b + 2) ELSE b
      d == IF At(s, c) = "e"
           THEN IF RDigit(At(s, c + 1)) THEN Digits(s, c + 2)
                ELSE IF At(s, c + 1) \in {"plus", "dash"} /\ RDigit(At(s, c + 2)) THEN Digits(s, c + 3)
                ELSE c
           ELSE c
  IN d

\* 4.3.3 consume a numeric token
Numeric(s, i) ==
  LET e == NumberEnd(s, i) IN
  IF StartsIdent(s, e) THEN [k |-> "Dimension", hi |-> NameEnd(s, e)]
  ELSE IF At(s, e) = "pct" THEN [k |-> "Percentage", hi |-> e + 1]
  ELSE [k |-> "Number", hi |-> e]

\* 4.3.5 consume a string token; i is behind the opening quote q.  Result [hi, bad]
RECURSIVE StringEnd(_, _, _)
StringEnd(s, i, q) ==
  LET c == At(s, i) IN
  IF c = q THEN [hi |-> i + 1, bad |-> FALSE]
  ELSE IF c = "EOF" THEN [hi |-> i, bad |-> FALSE]
  ELSE IF c = "nl" THEN [hi |-> i, bad |-> TRUE]                      \* the newline is not consumed
  ELSE IF c = "bslash"
       THEN IF At(s, i + 1) = "EOF" THEN StringEnd(s, i + 1, q)
            ELSE IF At(s, i + 1) = "nl" THEN StringEnd(s, i + 2, q)
            ELSE StringEnd(s, EscEnd(s, i + 1), q)
  ELSE StringEnd(s, i + 1, q)

\* 4.3.14 consume the remnants of a bad url: position behind them
RECURSIVE Remnants(_, _)
Remnants(s, i) ==
  IF At(s, i) = "rparen" THEN i + 1
  ELSE IF At(s, i) = "EOF" THEN i
  ELSE IF ValidEscape(s, i) THEN Remnants(s, EscEnd(s, i + 1))
  ELSE Remnants(s, i + 1)

RECURSIVE SkipWS(_, _)
SkipWS(s, i) == IF RWS(At(s, i)) THEN SkipWS(s, i + 1) ELSE i

\* 4.3.6 consume a url token; i is behind "url("
RECURSIVE Unquoted(_, _)
Unquoted(s, i) ==
  LET c == At(s, i) IN
  IF c = "rparen" THEN [k |-> "URL", hi |-> i + 1]
  ELSE IF c = "EOF" THEN [k |-> "URL", hi |-> i]
  ELSE IF RWS(c) THEN LET w == SkipWS(s, i) IN
                      IF At(s, w) = "rparen" THEN [k |-> "URL", hi |-> w + 1]
                      ELSE IF At(s, w) = "EOF" THEN [k |-> "URL", hi |-> w]
                      ELSE [k |-> "BadURL", hi |-> Remnants(s, w)]
  ELSE IF c \in {"quote", "apos", "lparen"} \/ RNonPrint(c) THEN [k |-> "BadURL", hi |-> Remnants(s, i)]
  ELSE IF c = "bslash" THEN IF ValidEscape(s, i) THEN Unquoted(s, EscEnd(s, i + 1))
                            ELSE [k |-> "BadURL", hi |-> Remnants(s, i)]
  ELSE Unquoted(s, i + 1)
Url(s, i) ==
  LET w == SkipWS(s, i) IN
  IF At(s, w) = "EOF" THEN [k |-> "URL", hi |-> w]
  ELSE IF At(s, w) \in {"quote", "apos"}
  THEN LET r == StringEnd(s, w + 1, At(s, w)) IN
       IF r.bad THEN [k |-> "BadURL", hi |-> Remnants(s, r.hi)]
       ELSE LET v == SkipWS(s, r.hi) IN
            IF At(s, v) = "rparen" THEN [k |-> "URL", hi |-> v + 1]
            ELSE IF At(s, v) = "EOF" THEN [k |-> "URL", hi |-> v]
            ELSE [k |-> "BadURL", hi |-> Remnants(s, v)]
  ELSE Unquoted(s, w)

\* the VALUE of the name s[i..e) as far as classes determine it: `\c` stands for c itself; a hexadecimal escape (or a
\* backslash at the end of input, U+FFFD) is "esc": some code point, which the harnesses never spell as u, r or l
RECURSIVE NameValue(_, _, _)
NameValue(s, i, e) ==
  IF i >= e THEN <<>>
  ELSE IF s[i] # "bslash" THEN <<s[i]>> \o NameValue(s, i + 1, e)
  ELSE IF RHex(At(s, i + 1)) \/ At(s, i + 1) = "EOF" THEN <<"esc">> \o NameValue(s, EscEnd(s, i + 1), e)
  ELSE <<At(s, i + 1)>> \o NameValue(s, i + 2, e)

\* 4.3.4 consume an ident-like token ("if the returned string's value is an ASCII case-insensitive match for url")
IdentLike(s, i) ==
  LET e == NameEnd(s, i)
      isUrl == NameValue(s, i, e) = <<"u", "r", "l">>
  IN IF At(s, e) = "lparen"
     THEN IF isUrl THEN Url(s, e + 1) ELSE [k |-> "Function", hi |-> e + 1]
     ELSE [k |-> IF At(s, i) = "dash" /\ At(s, i + 1) = "dash" THEN "CustomPropertyName" ELSE "Ident", hi |-> e]

\* 4.3.13 consume a unicode-range token; i is at the first code point behind "u+"
RECURSIVE QRun(_, _, _)
QRun(s, i, max) == IF max > 0 /\ At(s, i) = "qmark" THEN QRun(s, i + 1, max - 1) ELSE i
UnicodeRange(s, i) ==
  LET h == HexRun(s, i, 6)
      q == QRun(s, h, 6 - (h - i))
  IN IF q > h THEN q
     ELSE IF At(s, h) = "dash" /\ RHex(At(s, h + 1)) THEN HexRun(s, h + 1, 6)
     ELSE h

RECURSIVE CommentEnd(_, _)
CommentEnd(s, i) ==
  IF At(s, i) = "EOF" THEN i
  ELSE IF At(s, i) = "star" /\ At(s, i + 1) = "slash" THEN i + 2
  ELSE CommentEnd(s, i + 1)

One(k, i) == [k |-> k, hi |-> i + 1]
Two(c2, k, s, i) == IF At(s, i + 1) = c2 THEN [k |-> k, hi |-> i + 2] ELSE One("Delim", i)

\* 4.3.1 consume a token at position i (i <= Len(s))
TokenAt(s, i) ==
  LET c == s[i] IN
  CASE RWS(c) -> [k |-> "Whitespace", hi |-> SkipWS(s, i)]
    [] c \in {"quote", "apos"} -> LET r == StringEnd(s, i + 1, c) IN [k |-> IF r.bad THEN "BadString" ELSE "String", hi |-> r.hi]
    [] c = "hash" -> IF RName(At(s, i + 1)) \/ ValidEscape(s, i + 1) THEN [k |-> "Hash", hi |-> NameEnd(s, i + 1)] ELSE One("Delim", i)
    [] c = "dollar" -> Two("eq", "SuffixMatch", s, i)
    [] c = "star"   -> Two("eq", "SubstringMatch", s, i)
    [] c = "caret"  -> Two("eq", "PrefixMatch", s, i)
    [] c = "tilde"  -> Two("eq", "IncludeMatch", s, i)
    [] c = "pipe"   -> IF At(s, i + 1) = "eq" THEN [k |-> "DashMatch", hi |-> i + 2]
                       ELSE IF At(s, i + 1) = "pipe" THEN [k |-> "Column", hi |-> i + 2] ELSE One("Delim", i)
    [] c = "lparen" -> One("LeftParenthesis", i)   [] c = "rparen" -> One("RightParenthesis", i)
    [] c = "lbrack" -> One("LeftBracket", i)       [] c = "rbrack" -> One("RightBracket", i)
    [] c = "lbrace" -> One("LeftBrace", i)         [] c = "rbrace" -> One("RightBrace", i)
    [] c = "comma"  -> One("Comma", i) [] c = "colon" -> One("Colon", i) [] c = "semi" -> One("Semicolon", i)
    [] c = "plus"   -> IF StartsNumber(s, i) THEN Numeric(s, i) ELSE One("Delim", i)
    [] c = "dot"    -> IF StartsNumber(s, i) THEN Numeric(s, i) ELSE One("Delim", i)
    [] c = "dash"   -> IF StartsNumber(s, i) THEN Numeric(s, i)
                       ELSE IF At(s, i + 1) = "dash" /\ At(s, i + 2) = "gt" THEN [k |-> "CDC", hi |-> i + 3]
                       ELSE IF StartsIdent(s, i) THEN IdentLike(s, i)
                       ELSE One("Delim", i)
    [] c = "slash"  -> IF At(s, i + 1) = "star" THEN [k |-> "Comment", hi |-> CommentEnd(s, i + 2)] ELSE One("Delim", i)
    [] c = "lt"     -> IF At(s, i + 1) = "bang" /\ At(s, i + 2) = "dash" /\ At(s, i + 3) = "dash"
                       THEN [k |-> "CDO", hi |-> i + 4] ELSE One("Delim", i)
    [] c = "at"     -> IF StartsIdent(s, i + 1) THEN [k |-> "AtKeyword", hi |-> NameEnd(s, i + 1)] ELSE One("Delim", i)
    [] c = "bslash" -> IF ValidEscape(s, i) THEN IdentLike(s, i) ELSE One("Delim", i)
    [] c = "digit"  -> Numeric(s, i)
    [] c = "u"      -> IF At(s, i + 1) = "plus" /\ (RHex(At(s, i + 2)) \/ At(s, i + 2) = "qmark")
                       THEN [k |-> "UnicodeRange", hi |-> UnicodeRange(s, i + 2)]
                       ELSE IdentLike(s, i)
    [] RNameStart(c) /\ c # "u" -> IdentLike(s, i)
    [] OTHER -> One("Delim", i)

RECURSIVE TokensFrom(_, _)
TokensFrom(s, i) ==
  IF i > Len(s) THEN <<>>
  ELSE LET t == TokenAt(s, i) IN <<[k |-> t.k, lo |-> i, hi |-> t.hi]>> \o TokensFrom(s, t.hi)
Tokens(s) == TokensFrom(s, 1)
=============================================================================
