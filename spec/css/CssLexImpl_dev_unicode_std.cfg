SPECIFICATION Spec
CONSTANTS
  Prefixes = {"uplus"}
  Alphabet = {"digit", "dash", "d5", "qmark"}
  MaxLen = 3
  Emit = FALSE
  UnicodeRangeAsStandard = TRUE
  BadStringAsStandard = FALSE
  BslashEofAsStandard = FALSE
  DashedFunctionAsStandard = FALSE
  UrlNameAsStandard = FALSE
  NulAsStandard = FALSE
  Excuse = {"badstring-newline", "bslash-eof", "dashed-function", "url-name"}
  Defect = "none"
INVARIANT TypeOK
PROPERTY RefinesTok
PROPERTY AgreesStd
PROPERTY Tight
CHECK_DEADLOCK FALSE
