SPECIFICATION Spec
CONSTANTS
  Prefixes = {"none"}
  Alphabet = {"letter", "hex", "digit", "dash", "bslash", "lparen", "hash", "at", "nonascii"}
  MaxLen = 6
  Emit = TRUE
  UnicodeRangeAsStandard = FALSE
  BadStringAsStandard = FALSE
  BslashEofAsStandard = FALSE
  DashedFunctionAsStandard = FALSE
  UrlNameAsStandard = FALSE
  NulAsStandard = FALSE
  Excuse = {"unicode-range", "badstring-newline", "bslash-eof", "dashed-function", "url-name"}
  Defect = "none"
INVARIANT TypeOK
PROPERTY RefinesTok
PROPERTY AgreesStd
PROPERTY Tight
CHECK_DEADLOCK FALSE
