SPECIFICATION Spec
CONSTANTS
  Modes = {"stylesheet", "inline"}
  MaxTop = 3
  MaxUnits = 8
  MaxDepth = 3
  MaxFeat = 6
  MaxWs = 4
  AtKinds = {"import", "charset", "namespace", "layer", "media", "supports", "document", "keyframes", "wkeyframes", "fontface", "page", "unknown"}
  MinAtoms = 30
  EndBias = 3
CHECK_DEADLOCK FALSE
