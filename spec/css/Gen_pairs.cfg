SPECIFICATION Spec
CONSTANTS
  AtomChoice = "all"
  MaxLen = 2
  SepChoice = "basic"
  EmitMin = 1
  WithFinal = TRUE
  AssertRef = FALSE
INVARIANTS RefAgrees Tight
CHECK_DEADLOCK FALSE
