SPECIFICATION Spec
CONSTANTS
  AtomChoice = "all"
  MaxLen = 2
  SepChoice = "basic"
  EmitMin = 1
  WithFinal = TRUE
INVARIANTS RefAgrees Tight
CHECK_DEADLOCK FALSE
