SPECIFICATION Spec
CONSTANTS
  AtomChoice = "all"
  MaxLen = 2
  SepChoice = "all"
  EmitMin = 1
  WithFinal = TRUE
INVARIANTS RefAgrees Tight
CHECK_DEADLOCK FALSE
