SPECIFICATION Spec
CONSTANTS
  MaxTok = 5
  Alphabet = {"ident", "delim", "star", "open", "close", "lbrace", "rbrace", "colon", "semi", "atrl", "atdl", "atun", "ws", "comment", "cpname", "cdo", "other"}
  Modes = {TRUE, FALSE}
  Emit = TRUE
  AtDeclEndsAtEOF = TRUE
  StarAloneAtEOF = TRUE
  GuardedPop = TRUE
PROPERTY Refines
INVARIANTS StackAgrees KeepWSOnlyInUnknown Terminates EndSticky
CHECK_DEADLOCK FALSE
