-------------------------- MODULE CssClassStrings --------------------------
(***************************************************************************)
(* Generator (kind G) for the IsIdent / IsURLUnquoted clause of C07: every *)
(* string of character classes up to MaxLen.  The clause is relational     *)
(* (the helper against the lexer on the same bytes), so a case is only the *)
(* argument; the harness spells every class with several representatives.  *)
(*   letter a-z A-Z _ (non-hex)   hex a-f A-F   digit   dash   bslash      *)
(*   sp space/tab   nl LF/CR/FF   quote " '   lparen   rparen              *)
(*   nonascii (valid UTF-8)   bad (a byte that is not valid UTF-8)         *)
(*   nul   np (non-printable)   other (+ . # / * @ % ! u)                  *)
(***************************************************************************)
EXTENDS Integers, Sequences, TLC, Json, CSV, IOUtils
CONSTANT MaxLen
Alpha == {"letter", "hex", "digit", "dash", "bslash", "sp", "nl", "quote", "lparen", "rparen", "nonascii", "bad", "nul", "np", "other"}
VARIABLE s
Write(x) == CSVWrite("%1$s", <<ToJson([cls |-> x])>>, IOEnv.VERIF_CASES)
Init == s = <<>> /\ CSVWrite("%1$s", <<ToJson([meta |-> TRUE, alpha |-> Alpha])>>, IOEnv.VERIF_CASES)
Next == Len(s) < MaxLen /\ \E c \in Alpha : s' = Append(s, c) /\ Write(s')
Spec == Init /\ [][Next]_s
=============================================================================
