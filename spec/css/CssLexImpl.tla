----------------------------- MODULE CssLexImpl -----------------------------
(***************************************************************************)
(* Implementation-shaped specification (kind I) of css.Lexer.Next          *)
(* (/repo/css/lex.go) over a CLASS ALPHABET of input characters.           *)
(*                                                                         *)
(* The input is a sequence of ATOMS chosen by TLC (a prefix atom from      *)
(* Prefixes followed by every sequence up to MaxLen over Alphabet).  An    *)
(* atom is a single character class or a multi-character spelling that     *)
(* only shortens the way into a deep state (`url(`, `/*`, five digits,     *)
(* CR LF ...); the model runs on the flattened sequence of CHARACTER       *)
(* classes: one operator per Go function, same order of tests, same cursor *)
(* arithmetic (parse.Input: buf = input + NUL terminator; Peek, Move,      *)
(* Rewind, Err() = io.EOF iff len(buf)-1 <= pos).  Classes are the tests   *)
(* the code makes:                                                         *)
(*   letter  g-z G-Z _ without e u r l   hex a-d f A-D F   e u r l  (any   *)
(*   ASCII case)   digit   nonascii (one code point >= U+0080, valid       *)
(*   UTF-8)   ws space/tab   nl LF   cr CR   ff FF   np U+0001-8 B E-1F 7F *)
(*   nul (an embedded NUL)   other (& `)   the rest: one ASCII character.  *)
(*                                                                         *)
(* One step = one call of Next; it yields [TokenType name, lo, hi)         *)
(* (character offsets, 0-based, end exclusive) or the error report.        *)
(*                                                                         *)
(* TLC checks for EVERY atom string within the bound:                      *)
(*  RefinesTok  every step is a step of proto/TokenStream.tla (css family: *)
(*              tokens non-empty, ending at the cursor, ordered,           *)
(*              contiguous - nothing is skipped, whitespace and comments   *)
(*              are tokens -, nothing after the error report); with        *)
(*              TypeOK (every token advances, at most N tokens) the stream *)
(*              ends with exactly one error report, which is io.EOF.       *)
(*  AgreesStd   AGREEMENT WITH THE STANDARD: the token the model returns   *)
(*              is the token that css/CssRef.tla (section 4.3 of CSS       *)
(*              Syntax transcribed, an independent reference tokeniser)    *)
(*              returns at the same place of the same text: same kind,     *)
(*              same end.  CssRef runs on its own classes: CR LF is ONE    *)
(*              newline there (preprocessing 3.3), r2m maps its positions  *)
(*              back.  "The control flow of lex.go = the algorithm of the  *)
(*              standard" on all strings up to the bound.                  *)
(*  Tight       a token flagged as a deviation (below) does differ.        *)
(*                                                                         *)
(* DEVIATIONS of the code from the standard.  Each has (a) a syntactic     *)
(* characterisation - the token is FLAGGED (field dev) when the code is at *)
(* that place -, and (b) a switch that replaces the code's behaviour by    *)
(* the standard's.  With the switch off and the flag not in Excuse TLC     *)
(* REPORTS the disagreement (CssLexImpl_dev_*.cfg, expected violations);   *)
(* in the as-coded configurations (all switches off, every flag excused)   *)
(* AgreesStd holds for every token up to and excluding the first flagged   *)
(* one of an input, Tight says the flagged one differs; in the repaired    *)
(* configurations (all switches on, nothing excused) agreement is total.   *)
(* So: code = standard except exactly at the flagged places.               *)
(*  unicode-range   UnicodeRangeAsStandard.  consumeUnicodeRangeToken      *)
(*      gives the whole token up (Rewind, false) where 4.3.13 ends it at   *)
(*      the longest valid prefix: `U+1-` / `U+1-x` (known finding: Ident   *)
(*      Number Delim instead of UnicodeRange Delim), and - same mechanism, *)
(*      found with this model - more than six hex digits `U+1234567`       *)
(*      (Ident Number, standard: UnicodeRange `U+123456` Number `7`), more *)
(*      than six after the `-`, digits plus `?` exceeding six.             *)
(*  badstring-newline  BadStringAsStandard.  consumeString consumes the    *)
(*      newline that ends a bad string (one byte: the CR of CR LF); the    *)
(*      standard leaves it to the following whitespace token.  C07's       *)
(*      statement allows either (CssTokens!TokEnabled).                    *)
(*  bslash-eof      BslashEofAsStandard.  A backslash as the last          *)
(*      character is no escape for consumeEscape (Delim, and it ends a     *)
(*      name / makes url( bad); in 4.3.8 it is a valid escape (U+FFFD):    *)
(*      `a\` is one Ident, `url(a\` a URL.                                 *)
(*  dashed-function DashedFunctionAsStandard.  `--x(` is returned as       *)
(*      CustomPropertyName LeftParenthesis; 4.3.4 makes it a Function.     *)
(*  url-name        UrlNameAsStandard.  consumeIdentlike compares the      *)
(*      lexeme with ALL backslashes removed to `url`, the standard the     *)
(*      value of the name: `u\\rl(` (value `u\rl`) is a Function, the code *)
(*      reads a url.  (A hexadecimal escape spelling u, r or l - `\75 rl(` *)
(*      - is a url for the standard and a Function for the code; not       *)
(*      visible on classes, the harness never spells one that way.)        *)
(*  nul             NulAsStandard (a switch of the MAPPING to CssRef's     *)
(*      classes): the code treats an embedded NUL as a non-printable code  *)
(*      point (Delim; bad in url(); 3.3 replaces it by U+FFFD, a name code *)
(*      point.  The TODO at the head of lex.go names it.                   *)
(*                                                                         *)
(* The state graph is also the generator of the differential replay: at    *)
(* the error report the whole predicted token list is written out (Emit)   *)
(* and `vdrive csstok impl` compares it with what the code does on         *)
(* concrete bytes (MODEL-DRIFT if they differ; a verdict only from P).     *)
(* Measured on the unchanged tree (2026-09-26, seeds 1-3): no drift - the  *)
(* code returns exactly the predicted token types and byte lengths and     *)
(* ends with io.EOF on all 504 k quick (901 k spellings) and 3.68 M        *)
(* thorough (6.95 M spellings) inputs, the flagged ones included.          *)
(* Not modelled: invalid UTF-8 (a "nonascii" is one well-formed code       *)
(* point), TokenStream's relex clause (taken as TRUE).                     *)
(*                                                                         *)
(* Defect (CssLexImpl_defect_*.cfg) models plausible regressions, each     *)
(* rejected by TLC (AgreesStd):                                            *)
(*   "exp"       an exponent without digits stays part of the number (no   *)
(*               Rewind): `1e` `1e+` are Numbers                           *)
(*   "hexws"     a hexadecimal escape does not consume the whitespace      *)
(*               behind it                                                 *)
(*   "urlquoted" url( does not look for a quoted argument: `url("a")` bad  *)
(*   "remnants"  consumeRemnantsBadURL ignores escapes: stops at `\)`      *)
(*   "comment"   a `*` directly behind a `*` is skipped unexamined: `**/`  *)
(*               does not end a comment                                    *)
(***************************************************************************)
EXTENDS Integers, Sequences, FiniteSets, TLC, Json, CSV, IOUtils

CONSTANTS Prefixes,         \* every input starts with one of these atoms ("none": no prefix) ...
          Alphabet,         \* ... followed by every sequence over these atoms ...
          MaxLen,           \* ... of up to MaxLen atoms
          Emit,             \* TRUE: write every input with the predicted token list (IOEnv.VERIF_CASES)
          UnicodeRangeAsStandard, BadStringAsStandard, BslashEofAsStandard, DashedFunctionAsStandard, UrlNameAsStandard, NulAsStandard,
          Excuse,           \* deviation flags that exempt a token from AgreesStd
          Defect            \* "none" or the name of a modelled regression

Deviations == {"unicode-range", "badstring-newline", "bslash-eof", "dashed-function", "url-name"}
Single == {"letter", "e", "u", "r", "l", "hex", "digit", "nonascii", "plus", "dash", "dot", "bslash", "dq", "sq", "lparen", "rparen",
           "hash", "at", "slash", "star", "lt", "gt", "bang", "pipe", "tilde", "caret", "dollar", "eq", "pct", "qmark",
           "ws", "nl", "cr", "ff", "nul", "np", "other", "colon", "semi", "comma", "lbrack", "rbrack", "lbrace", "rbrace"}
Multi == [urlp   |-> <<"u", "r", "l", "lparen">>,                 \* url(
          urldq  |-> <<"u", "r", "l", "lparen", "dq">>,           \* url("
          urlsq  |-> <<"u", "r", "l", "lparen", "sq">>,           \* url('
          copen  |-> <<"slash", "star">>,                         \* /*
          cclose |-> <<"star", "slash">>,                         \* */
          cdo    |-> <<"lt", "bang", "dash", "dash">>,            \* <!--
          cdc    |-> <<"dash", "dash", "gt">>,                    \* -->
          uplus  |-> <<"u", "plus">>,                             \* U+
          d5     |-> <<"digit", "digit", "digit", "digit", "digit">>,
          bshex  |-> <<"bslash", "hex">>,                         \* the start of a hexadecimal escape
          crlf   |-> <<"cr", "nl">>]
Atoms == Single \cup DOMAIN Multi
ASSUME /\ Alphabet \subseteq Atoms /\ Prefixes \subseteq Atoms \cup {"none"} /\ Excuse \subseteq Deviations
       /\ Defect \in {"none", "exp", "hexws", "urlquoted", "remnants", "comment"}

Expand(a) == IF a \in Single THEN <<a>> ELSE Multi[a]
RECURSIVE Flat(_)
Flat(s) == IF s = <<>> THEN <<>> ELSE Expand(Head(s)) \o Flat(Tail(s))

VARIABLES atoms,          \* the input as atoms
          buf,            \* parse.Input.buf as character classes: Flat(atoms) \o <<"nul">> (the terminator)
          rbuf, r2m,      \* the same text in the classes of CssRef.tla (CR LF collapsed), and the offset in buf of each of its positions
          pos,            \* parse.Input.pos = start (every token is shifted out), 0-based
          halted,         \* the error report was returned
          out,            \* result of the latest call
          hist,           \* tokens returned so far (for the replay case)
          gEnd,           \* ghost mirroring TokenStream's `end`
          gRef,           \* ghost: position of the reference tokeniser in rbuf (1-based); 0 behind an excused deviation
          gDev            \* ghost: deviation flags raised so far
ivars == <<atoms, buf, rbuf, r2m, pos, halted, out, hist, gEnd, gRef, gDev>>

N == Len(buf) - 1                                   \* number of input characters; buf[N + 1] is the terminator
Pk(p) == IF p < Len(buf) THEN buf[p + 1] ELSE "oob" \* r.Peek at absolute position p
AtEof(p) == p >= N                                  \* Input.Err() != nil at p
EndNul(p) == Pk(p) = "nul" /\ AtEof(p)              \* `c == 0 && l.r.Err() != nil`

IsWs(c)        == c \in {"ws", "nl", "cr", "ff"}                                    \* ' ' '\t' '\n' '\r' '\f'
IsDigit(c)     == c = "digit"
IsHex(c)       == c \in {"digit", "hex", "e"}                                       \* 0-9 a-f A-F
IsNameStart(c) == c \in {"letter", "e", "u", "r", "l", "hex", "nonascii"}           \* a-z A-Z _ >= 0x80
IsName(c)      == IsNameStart(c) \/ c \in {"digit", "dash"}

Ref == INSTANCE CssRef
T == INSTANCE TokenStream WITH fam <- "css", concat <- TRUE, end <- gEnd, seenErr <- halted, inTag <- FALSE

(* ---- the text as CssRef reads it ---- *)
ToRef(c) == CASE c = "ws" -> "sp" [] c \in {"nl", "cr", "ff"} -> "nl" [] c = "dq" -> "quote" [] c = "sq" -> "apos"
              [] c = "nul" -> (IF NulAsStandard THEN "nonascii" ELSE "np")
              [] OTHER -> c
RECURSIVE Collapse(_, _)
Collapse(x, i) == IF i > Len(x) THEN <<>>
                  ELSE IF x[i] = "cr" /\ i < Len(x) /\ x[i + 1] = "nl" THEN <<[c |-> "nl", at |-> i - 1]>> \o Collapse(x, i + 2)
                  ELSE <<[c |-> ToRef(x[i]), at |-> i - 1]>> \o Collapse(x, i + 1)

Init == /\ \E p \in Prefixes : \E n \in 0..MaxLen : \E s \in [1..n -> Alphabet] : atoms = (IF p = "none" THEN <<>> ELSE <<p>>) \o s
        /\ buf = Flat(atoms) \o <<"nul">>
        /\ \E col \in {Collapse(Flat(atoms), 1)} :
              /\ rbuf = [j \in 1..Len(col) |-> col[j].c]
              /\ r2m = [j \in 1..(Len(col) + 1) |-> IF j <= Len(col) THEN col[j].at ELSE Len(buf) - 1]
        /\ pos = 0 /\ halted = FALSE /\ out = [op |-> "none"] /\ hist = <<>> /\ gEnd = 0 /\ gRef = 1 /\ gDev = {}

(* ---- results ---- *)
Ok(p) == [ok |-> TRUE, p |-> p]              \* a consume* function returned true; the cursor is at p
No(p) == [ok |-> FALSE, p |-> p]             \* ... returned false; the cursor is at p (after Rewind, if any)
R(k, p, d) == [k |-> k, p |-> p, dev |-> d]  \* a TokenType and where the cursor is; k = "Error": ErrorToken
Err0 == R("Error", 0, {})

(* ---- consumeNewline, consumeWhitespace, consumeDigit, consumeHexDigit (as loops where the code loops) ---- *)
Newline(p) == LET c == Pk(p) IN
    IF c \in {"nl", "ff"} THEN Ok(p + 1)
    ELSE IF c = "cr" THEN Ok(IF Pk(p + 1) = "nl" THEN p + 2 ELSE p + 1)
    ELSE No(p)
RECURSIVE SkipWs(_)
SkipWs(p) == IF IsWs(Pk(p)) THEN SkipWs(p + 1) ELSE p                  \* for l.consumeWhitespace() {}
RECURSIVE Digits(_)
Digits(p) == IF IsDigit(Pk(p)) THEN Digits(p + 1) ELSE p               \* for l.consumeDigit() {}
RECURSIVE HexRun(_, _)
HexRun(p, max) == IF max > 0 /\ IsHex(Pk(p)) THEN HexRun(p + 1, max - 1) ELSE p
RECURSIVE HexAll(_)
HexAll(p) == IF IsHex(Pk(p)) THEN HexAll(p + 1) ELSE p                 \* for l.consumeHexDigit() { k++ }
RECURSIVE QAll(_)
QAll(p) == IF Pk(p) = "qmark" THEN QAll(p + 1) ELSE p
RECURSIVE QRun(_, _)
QRun(p, max) == IF max > 0 /\ Pk(p) = "qmark" THEN QRun(p + 1, max - 1) ELSE p

(* ---- consumeEscape ---- *)
Escape(p) ==
    IF Pk(p) # "bslash" THEN No(p)
    ELSE LET q == p + 1                     \* mark = p; Move(1)
             c == Pk(q) IN
         IF Newline(q).ok THEN No(p)                                   \* Rewind(mark)
         ELSE IF IsHex(c) THEN
              LET h == HexRun(q + 1, 5)                                \* for k := 1; k < 6; k++
                  n == Newline(h) IN
              IF Defect = "hexws" THEN Ok(h)
              ELSE IF n.ok THEN Ok(n.p)                                \* \r\n counts as one
              ELSE IF IsWs(Pk(h)) THEN Ok(h + 1) ELSE Ok(h)
         ELSE IF EndNul(q) THEN (IF BslashEofAsStandard THEN Ok(q) ELSE No(p))
         ELSE Ok(q + 1)                     \* c >= 0xC0: Move(n), the whole rune = one class; otherwise Move(1)

(* ---- consumeIdentToken / consumeCustomVariableToken / consumeAtKeywordToken / consumeHashToken ---- *)
RECURSIVE NameLoop(_)
NameLoop(p) == LET c == Pk(p) IN
    IF IsName(c) THEN NameLoop(p + 1)
    ELSE IF c = "bslash" THEN (LET e == Escape(p) IN IF e.ok THEN NameLoop(e.p) ELSE p)
    ELSE p
IdentToken(p) ==
    LET d1 == Pk(p) = "dash"
        custom == d1 /\ Pk(p + 1) = "dash"
        q == IF custom THEN p + 2 ELSE IF d1 THEN p + 1 ELSE p
        c == Pk(q) IN
    IF custom THEN Ok(NameLoop(q))
    ELSE IF IsNameStart(c) THEN Ok(NameLoop(q + 1))
    ELSE IF c = "bslash" THEN (LET e == Escape(q) IN IF e.ok THEN Ok(NameLoop(e.p)) ELSE No(p))
    ELSE No(p)                                                         \* Rewind(mark)
CustomVariable(p) == IF Pk(p + 1) # "dash" THEN No(p) ELSE IdentToken(p)
AtKeyword(p) == LET i == IdentToken(p + 1) IN IF i.ok THEN i ELSE No(p)      \* Move(1) ... Move(-1)
HashToken(p) == LET c == Pk(p + 1) IN
    IF IsName(c) THEN Ok(NameLoop(p + 2))
    ELSE IF c = "bslash" THEN (LET e == Escape(p + 1) IN IF e.ok THEN Ok(NameLoop(e.p)) ELSE No(p))
    ELSE No(p)

(* ---- consumeNumberToken / consumeNumeric ---- *)
Exponent(m) ==                              \* mark = m
    IF Pk(m) # "e" THEN Ok(m)
    ELSE LET q == IF Pk(m + 1) \in {"plus", "dash"} THEN m + 2 ELSE m + 1 IN
         IF ~IsDigit(Pk(q)) THEN (IF Defect = "exp" THEN Ok(q) ELSE Ok(m))      \* e could belong to the next token: Rewind(mark)
         ELSE Ok(Digits(q + 1))
NumberToken(p) ==
    LET a == IF Pk(p) \in {"plus", "dash"} THEN p + 1 ELSE p
        firstDigit == IsDigit(Pk(a))
        b == IF firstDigit THEN Digits(a + 1) ELSE a IN
    IF Pk(b) = "dot" THEN
         IF IsDigit(Pk(b + 1)) THEN Exponent(Digits(b + 2))
         ELSE IF firstDigit THEN Ok(b)                                  \* . could belong to the next token: Move(-1)
         ELSE No(p)
    ELSE IF ~firstDigit THEN No(p)
    ELSE Exponent(b)
Numeric(p) == LET n == NumberToken(p) IN
    IF ~n.ok THEN Err0
    ELSE IF Pk(n.p) = "pct" THEN R("Percentage", n.p + 1, {})
    ELSE LET i == IdentToken(n.p) IN IF i.ok THEN R("Dimension", i.p, {}) ELSE R("Number", n.p, {})

(* ---- consumeUnicodeRangeToken: the cursor is on u / U ---- *)
URCode(p) ==                                \* as the code has it; d: the standard would return a token here
    IF Pk(p + 1) # "plus" THEN [ok |-> FALSE, p |-> p, d |-> FALSE]
    ELSE LET h == HexAll(p + 2)
             k == h - (p + 2)
             fail(d) == [ok |-> FALSE, p |-> p, d |-> d]                \* Rewind(mark)
             good(q) == [ok |-> TRUE, p |-> q, d |-> FALSE] IN
         IF Pk(h) = "dash" THEN
              IF k = 0 THEN fail(FALSE)
              ELSE IF k > 6 THEN fail(TRUE)
              ELSE IF IsHex(Pk(h + 1)) THEN (LET h2 == HexAll(h + 1) IN IF h2 - (h + 1) > 6 THEN fail(TRUE) ELSE good(h2))
              ELSE fail(TRUE)                                           \* `U+1-`: the known finding
         ELSE IF Pk(h) = "qmark" THEN (LET q == QAll(h) IN IF k + (q - h) > 6 THEN fail(TRUE) ELSE good(q))
         ELSE IF k = 0 THEN fail(FALSE) ELSE IF k > 6 THEN fail(TRUE) ELSE good(h)
URStd(p) ==                                 \* repaired: ends at the longest valid prefix
    IF Pk(p + 1) # "plus" \/ ~(IsHex(Pk(p + 2)) \/ Pk(p + 2) = "qmark") THEN [ok |-> FALSE, p |-> p, d |-> FALSE]
    ELSE LET h == HexRun(p + 2, 6)
             q == QRun(h, 6 - (h - (p + 2))) IN
         [ok |-> TRUE, d |-> FALSE,
          p |-> IF q > h THEN q ELSE IF Pk(h) = "dash" /\ IsHex(Pk(h + 1)) THEN HexRun(h + 1, 6) ELSE h]
UnicodeRange(p) == IF UnicodeRangeAsStandard THEN URStd(p) ELSE URCode(p)

(* ---- consumeComment, consumeMatch ---- *)
RECURSIVE CommentLoop(_)
CommentLoop(q) == LET c == Pk(q) IN
    IF EndNul(q) THEN q
    ELSE IF c = "star" /\ Pk(q + 1) = "slash" THEN q + 2
    ELSE IF Defect = "comment" /\ c = "star" /\ Pk(q + 1) = "star" THEN CommentLoop(q + 2)
    ELSE CommentLoop(q + 1)
Comment(p) == IF Pk(p + 1) # "star" THEN No(p) ELSE Ok(CommentLoop(p + 2))
MatchKind(c) == CASE c = "tilde" -> "IncludeMatch" [] c = "pipe" -> "DashMatch" [] c = "caret" -> "PrefixMatch"
                  [] c = "dollar" -> "SuffixMatch" [] c = "star" -> "SubstringMatch"
Match(p) == IF Pk(p + 1) = "eq" THEN R(MatchKind(Pk(p)), p + 2, {}) ELSE Err0

(* ---- consumeString: the cursor is on the opening quote ---- *)
RECURSIVE StringLoop(_, _)
StringLoop(q, delim) == LET c == Pk(q) IN
    IF EndNul(q) THEN R("String", q, {})
    ELSE IF c \in {"nl", "cr", "ff"} THEN R("BadString", IF BadStringAsStandard THEN q ELSE q + 1, {})
    ELSE IF c = delim THEN R("String", q + 1, {})
    ELSE IF c = "bslash" THEN
         (LET e == Escape(q) IN
          IF e.ok THEN StringLoop(e.p, delim)
          ELSE LET n == Newline(q + 1) IN StringLoop(IF n.ok THEN n.p ELSE q + 1, delim))    \* newline or EOF after the backslash
    ELSE StringLoop(q + 1, delim)
String(p) == StringLoop(p + 1, Pk(p))

(* ---- consumeUnquotedURL, consumeRemnantsBadURL ---- *)
RECURSIVE Unquoted(_)
Unquoted(p) == LET c == Pk(p) IN
    IF EndNul(p) \/ c = "rparen" THEN Ok(p)
    ELSE IF c \in {"dq", "sq", "lparen", "bslash", "ws", "nl", "cr", "ff", "np", "nul"} THEN       \* ... c == ' ' || c <= 0x1F || c == 0x7F
         (IF c # "bslash" THEN No(p) ELSE LET e == Escape(p) IN IF e.ok THEN Unquoted(e.p) ELSE No(p))
    ELSE Unquoted(p + 1)
RECURSIVE Remnants(_)
Remnants(p) ==
    IF Pk(p) = "rparen" THEN p + 1
    ELSE IF AtEof(p) THEN p
    ELSE IF Defect = "remnants" THEN Remnants(p + 1)
    ELSE LET e == Escape(p) IN IF e.ok THEN Remnants(e.p) ELSE Remnants(p + 1)

(* ---- consumeIdentlike ---- *)
Stripped(lo, hi) == SelectSeq(SubSeq(buf, lo + 1, hi), LAMBDA x : x # "bslash")    \* bytes.Replace(Lexeme(), `\`, nil, -1)
RECURSIVE Value(_, _)                       \* the value of the name: `\c` is c; a hexadecimal escape is some other code point
Value(lo, hi) ==
    IF lo >= hi THEN <<>>
    ELSE IF Pk(lo) # "bslash" THEN <<Pk(lo)>> \o Value(lo + 1, hi)
    ELSE IF IsHex(Pk(lo + 1)) \/ AtEof(lo + 1) THEN <<"esc">> \o Value(Escape(lo).p, hi)
    ELSE <<Pk(lo + 1)>> \o Value(lo + 2, hi)
URLname == <<"u", "r", "l">>                \* parse.EqualFold(..., "url"): the classes u r l are both ASCII cases
UrlTail(t, d) == LET w == SkipWs(t) IN
    IF Pk(w) = "rparen" THEN R("URL", w + 1, d)
    ELSE IF AtEof(w) THEN R("URL", w, d)
    ELSE R("BadURL", Remnants(w), d)
Identlike(p) == LET i == IdentToken(p) IN
    IF ~i.ok THEN Err0
    ELSE IF Pk(i.p) # "lparen" THEN R("Ident", i.p, {})
    ELSE LET asCode == Stripped(p, i.p) = URLname
             asStd == Value(p, i.p) = URLname
             d == IF ~UrlNameAsStandard /\ asCode # asStd THEN {"url-name"} ELSE {} IN
         IF ~(IF UrlNameAsStandard THEN asStd ELSE asCode) THEN R("Function", i.p + 1, d)
         ELSE LET q == SkipWs(i.p + 1) IN
              IF Pk(q) \in {"dq", "sq"} /\ Defect # "urlquoted" THEN
                   (LET s == String(q) IN IF s.k = "BadString" THEN R("BadURL", Remnants(s.p), d) ELSE UrlTail(s.p, d))
              ELSE LET u == Unquoted(q) IN
                   IF u.ok THEN UrlTail(u.p, d)
                   ELSE IF IsWs(Pk(u.p)) THEN UrlTail(u.p + 1, d)       \* `&& !l.consumeWhitespace()`: whitespace ended it, continue
                   ELSE R("BadURL", Remnants(u.p),
                          d \cup (IF Pk(u.p) = "bslash" /\ AtEof(u.p + 1) THEN {"bslash-eof"} ELSE {}))

(* ---- Next: the switch on the first byte ---- *)
Delim(p) == R("Delim", p + 1, {})
OrDelim(r, p) == IF r.k # "Error" THEN r ELSE Delim(p)
BracketKind(c) == CASE c = "lparen" -> "LeftParenthesis" [] c = "rparen" -> "RightParenthesis" [] c = "lbrack" -> "LeftBracket"
                    [] c = "rbrack" -> "RightBracket" [] c = "lbrace" -> "LeftBrace" [] c = "rbrace" -> "RightBrace"
Lex(p) == LET c == Pk(p) IN
    IF IsWs(c) THEN R("Whitespace", SkipWs(p + 1), {})
    ELSE IF c = "colon" THEN R("Colon", p + 1, {})
    ELSE IF c = "semi" THEN R("Semicolon", p + 1, {})
    ELSE IF c = "comma" THEN R("Comma", p + 1, {})
    ELSE IF c \in {"lparen", "rparen", "lbrack", "rbrack", "lbrace", "rbrace"} THEN R(BracketKind(c), p + 1, {})
    ELSE IF c = "hash" THEN (LET h == HashToken(p) IN IF h.ok THEN R("Hash", h.p, {}) ELSE Delim(p))
    ELSE IF c \in {"dq", "sq"} THEN String(p)
    ELSE IF c \in {"dot", "plus"} THEN OrDelim(Numeric(p), p)
    ELSE IF c = "dash" THEN
         IF Pk(p + 1) = "dash" /\ Pk(p + 2) = "gt" THEN R("CDC", p + 3, {})
         ELSE LET v == CustomVariable(p) IN
              IF v.ok THEN
                   (IF Pk(v.p) # "lparen" THEN R("CustomPropertyName", v.p, {})
                    ELSE IF DashedFunctionAsStandard THEN R("Function", v.p + 1, {})
                    ELSE R("CustomPropertyName", v.p, {"dashed-function"}))
              ELSE LET i == Identlike(p) IN IF i.k # "Error" THEN i ELSE OrDelim(Numeric(p), p)
    ELSE IF c = "at" THEN (LET a == AtKeyword(p) IN IF a.ok THEN R("AtKeyword", a.p, {}) ELSE Delim(p))
    ELSE IF c \in {"dollar", "star", "caret", "tilde"} THEN OrDelim(Match(p), p)
    ELSE IF c = "slash" THEN (LET m == Comment(p) IN IF m.ok THEN R("Comment", m.p, {}) ELSE Delim(p))
    ELSE IF c = "lt" THEN (IF Pk(p + 1) = "bang" /\ Pk(p + 2) = "dash" /\ Pk(p + 3) = "dash" THEN R("CDO", p + 4, {}) ELSE Delim(p))
    ELSE IF c = "bslash" THEN OrDelim(Identlike(p), p)
    ELSE IF c = "u" THEN
         (LET x == UnicodeRange(p) IN
          IF x.ok THEN R("UnicodeRange", x.p, {})
          ELSE LET i == OrDelim(Identlike(p), p) IN R(i.k, i.p, i.dev \cup (IF x.d THEN {"unicode-range"} ELSE {})))
    ELSE IF c = "pipe" THEN
         (LET m == Match(p) IN
          IF m.k # "Error" THEN m ELSE IF Pk(p + 1) = "pipe" THEN R("Column", p + 2, {}) ELSE Delim(p))
    ELSE IF c = "nul" THEN (IF AtEof(p) THEN Err0 ELSE Delim(p))        \* case 0: if l.r.Err() != nil
    ELSE LET n == Numeric(p) IN IF n.k # "Error" THEN n ELSE OrDelim(Identlike(p), p)      \* default

\* the flags that are a matter of the token as a whole
EofEsc(p) == Pk(p) = "bslash" /\ AtEof(p + 1)           \* the backslash that is the last character
IdentEofEsc(p) == EofEsc(p) \/ (Pk(p) = "dash" /\ EofEsc(p + 1))      \* only that backslash would make an identifier start here
Flags(lo, r) == r.dev
    \cup (IF r.k = "BadString" /\ ~BadStringAsStandard THEN {"badstring-newline"} ELSE {})
    \cup (IF ~BslashEofAsStandard /\
             \/ r.k \in {"Ident", "CustomPropertyName", "Hash", "AtKeyword", "Dimension"} /\ EofEsc(r.p)     \* the name ends before it
             \/ r.k = "Number" /\ IdentEofEsc(r.p)                                                         \* no unit
             \/ r.k = "Delim" /\ \/ EofEsc(lo)                                                             \* it is a Delim itself
                                 \/ Pk(lo) \in {"hash", "dash"} /\ EofEsc(lo + 1)                           \* ... and so is what it would continue
                                 \/ Pk(lo) = "at" /\ IdentEofEsc(lo + 1)
          THEN {"bslash-eof"} ELSE {})

(* ---- what the reference tokeniser returns at its own position ---- *)
StdAt == IF gRef = 0 THEN [sync |-> FALSE, k |-> "?", hi |-> 0, j |-> 0]
         ELSE IF gRef > Len(rbuf) THEN [sync |-> TRUE, k |-> "EOF", hi |-> N, j |-> gRef]
         ELSE LET t == Ref!TokenAt(rbuf, gRef) IN [sync |-> TRUE, k |-> t.k, hi |-> r2m[t.hi], j |-> t.hi]
RECURSIVE StdList(_)
StdList(ts) == IF ts = <<>> THEN <<>> ELSE <<[k |-> Head(ts).k, n |-> r2m[Head(ts).hi] - r2m[Head(ts).lo]]>> \o StdList(Tail(ts))

(* ---- the replay case ---- *)
EmitCase(h, dev) == Emit =>
    CSVWrite("%1$s", <<ToJson([cls |-> SubSeq(buf, 1, N), ks |-> [i \in 1..Len(h) |-> h[i].k], ns |-> [i \in 1..Len(h) |-> h[i].n],
                               dev |-> dev, std |-> IF dev = {} THEN <<>> ELSE StdList(Ref!Tokens(rbuf))])>>, IOEnv.VERIF_CASES)

\* (\E r \in {e} : ...  makes TLC evaluate e once)
Step ==
    /\ ~halted
    /\ \E r \in {Lex(pos)} : \E sr \in {StdAt} :
       IF r.k # "Error" THEN
            \E f \in {Flags(pos, r)} :
               /\ out' = [op |-> "Tok", k |-> r.k, lo |-> pos, hi |-> r.p, dev |-> f, std |-> sr]
               /\ pos' = r.p /\ gEnd' = r.p
               /\ hist' = Append(hist, [k |-> r.k, n |-> r.p - pos])
               /\ gDev' = gDev \cup f
               /\ gRef' = (IF ~sr.sync \/ f # {} THEN 0 ELSE sr.j)
               /\ UNCHANGED <<atoms, buf, rbuf, r2m, halted>>
       ELSE /\ halted' = TRUE
            /\ out' = [op |-> "Err", eof |-> AtEof(pos), std |-> sr]
            /\ EmitCase(hist, gDev)
            /\ UNCHANGED <<atoms, buf, rbuf, r2m, pos, hist, gEnd, gRef, gDev>>

Next == Step
Spec == Init /\ [][Next]_ivars

(* ---- I => P ---- *)
o == out'
TokRec == [err |-> FALSE, kname |-> o.k, n |-> o.hi - o.lo, al |-> TRUE, lo |-> o.lo, hi |-> o.hi, off |-> pos',
           capEq |-> TRUE, relex |-> TRUE, gap |-> {}, edits |-> {}, subsIn |-> TRUE]
ErrRec == [err |-> TRUE, kname |-> "Error", n |-> 0, al |-> FALSE, lo |-> 0, hi |-> 0, off |-> pos', capEq |-> TRUE, relex |-> TRUE,
           gap |-> {}, edits |-> {}, subsIn |-> TRUE]
TStep == CASE o.op = "Tok" -> T!Tok(TokRec)
           [] o.op = "Err" -> T!Tok(ErrRec) /\ o.eof /\ pos = N        \* the one error report: io.EOF, everything consumed
           [] OTHER -> FALSE
RefinesTok == [][TStep]_ivars

Same == o.std.k = o.k /\ o.std.hi = o.hi
StdStep == CASE o.op = "Tok" -> o.std.sync => (IF o.dev = {} THEN Same ELSE o.dev \subseteq Excuse)
             [] o.op = "Err" -> o.std.sync => o.std.k = "EOF"
             [] OTHER -> FALSE
AgreesStd == [][StdStep]_ivars
Tight == [][o.op = "Tok" /\ o.std.sync /\ o.dev # {} => ~Same]_ivars

TypeOK == /\ 0 <= pos /\ pos <= N /\ gEnd = pos
          /\ Len(hist) <= N                       \* every token advances: at most N tokens, then the error report
          /\ (halted => pos = N)
          /\ gDev \subseteq Deviations
=============================================================================
