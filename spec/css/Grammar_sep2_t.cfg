SPECIFICATION Spec
CONSTANTS
  Modes = {"stylesheet", "inline"}
  MaxTop = 1
  MaxUnits = 2
  MaxDepth = 1
  MaxFeat = 1
  MaxWs = 2
  AtKinds = {"media", "import", "unknown", "fontface"}
  MinAtoms = 0
  EndBias = 0
CHECK_DEADLOCK FALSE
