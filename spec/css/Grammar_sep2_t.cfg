SPECIFICATION Spec
CONSTANTS
  Modes = {"stylesheet", "inline"}
  MaxTop = 1
  MaxUnits = 3
  MaxDepth = 2
  MaxFeat = 1
  MaxWs = 2
  AtKinds = {"media"}
  MinAtoms = 0
  EndBias = 0
CHECK_DEADLOCK FALSE
