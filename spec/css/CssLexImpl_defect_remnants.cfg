SPECIFICATION Spec
CONSTANTS
  Prefixes = {"urlp"}
  Alphabet = {"lparen", "bslash", "rparen"}
  MaxLen = 4
  Emit = FALSE
  UnicodeRangeAsStandard = FALSE
  BadStringAsStandard = FALSE
  BslashEofAsStandard = FALSE
  DashedFunctionAsStandard = FALSE
  UrlNameAsStandard = FALSE
  NulAsStandard = FALSE
  Excuse = {"unicode-range", "badstring-newline", "bslash-eof", "dashed-function", "url-name"}
  Defect = "remnants"
INVARIANT TypeOK
PROPERTY RefinesTok
PROPERTY AgreesStd
PROPERTY Tight
CHECK_DEADLOCK FALSE
