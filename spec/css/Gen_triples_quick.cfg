SPECIFICATION Spec
CONSTANTS
  AtomChoice = "reduced"
  MaxLen = 3
  SepChoice = "none"
  EmitMin = 3
  WithFinal = FALSE
  AssertRef = FALSE
INVARIANTS RefAgrees
CHECK_DEADLOCK FALSE
