SPECIFICATION Spec
CONSTANTS
  AtomChoice = "all"
  MaxLen = 10
  SepChoice = "all"
  EmitMin = 10
  WithFinal = FALSE
INVARIANTS RefAgrees
CHECK_DEADLOCK FALSE
