SPECIFICATION Spec
CONSTANTS
  AtomChoice = "all"
  MaxLen = 10
  SepChoice = "basic"
  EmitMin = 10
  WithFinal = FALSE
  AssertRef = TRUE
INVARIANTS RefAgrees
CHECK_DEADLOCK FALSE
