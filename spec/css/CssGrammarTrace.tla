---------------------------- MODULE CssGrammarTrace ----------------------------
(***************************************************************************)
(* Trace specification (kind T) for the well-formed clause of C08.  A trace *)
(* is one generated document of CssGrammar.tla parsed by css.Parser:        *)
(*   Open   exp = the GrammarType names of the units CssGrammar.tla expects *)
(*          (the harness holds the full expectation: name, Values())        *)
(*   Unit   gt = GrammarType of the k-th observed unit, m = index of the    *)
(*          expected unit it equals in every field the statement fixes      *)
(*          (type, lower-cased name / data, Values() token types and texts  *)
(*          with whitespace exactly where expected), or -1                  *)
(*   Finish the caller stopped after the final report                       *)
(* Accepted iff the observed unit list IS the expected unit list: "Next     *)
(* yields exactly the grammar units the source contains".                   *)
(***************************************************************************)
EXTENDS Integers, Sequences, TraceIO

VARIABLES exp,   \* expected GrammarType names
          k,     \* units matched so far
          l, bad
gvars == <<exp, k>>
tvars == <<gvars, l, bad>>
e == Trace[l]

Unit(gt, m) == /\ k < Len(exp)
               /\ m = k + 1              \* the next observed unit equals the next expected one
               /\ gt = exp[k + 1]
               /\ k' = k + 1 /\ UNCHANGED exp
\* a comment between the declarations of an INLINE list reported as a unit of its own (the statement lists "top-level
\* comments" among the units and does not say whether these are such): accepted, as is not reporting it
OptComment(gt) == gt = "Comment" /\ UNCHANGED gvars
Finish == k = Len(exp) /\ UNCHANGED gvars      \* nothing missing

TInit == l = 1 /\ bad = FALSE /\ exp = <<>> /\ k = 0
IsStart == e.ev = "Open"
Returned == e.out = "ret"
Optional == "optional" \in DOMAIN e /\ e.optional
Step == CASE e.ev = "Unit" /\ Optional -> OptComment(e.gt)
          [] e.ev = "Unit" /\ ~Optional -> Unit(e.gt, e.m)
          [] e.ev = "Finish" -> Finish
          [] OTHER -> FALSE

TStart == l <= NEvents /\ IsStart /\ exp' = e.exp /\ k' = 0 /\ bad' = FALSE /\ l' = l + 1
TStep  == l <= NEvents /\ ~IsStart /\ ~bad /\ Returned /\ Step /\ l' = l + 1 /\ UNCHANGED bad
TFail  == /\ l <= NEvents /\ ~IsStart /\ ~bad /\ ~(Returned /\ ENABLED Step)
          /\ RecordFail(e, l) /\ bad' = TRUE /\ l' = l + 1 /\ UNCHANGED gvars
TSkip  == l <= NEvents /\ ~IsStart /\ bad /\ l' = l + 1 /\ UNCHANGED <<gvars, bad>>
TNext == TStart \/ TStep \/ TFail \/ TSkip
TSpec == TInit /\ [][TNext]_tvars
Accepted == TLCGet("stats").diameter = NEvents + 1
=============================================================================
