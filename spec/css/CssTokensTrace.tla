-------------------------- MODULE CssTokensTrace --------------------------
(* Trace specification (kind T) for C07: judges the traces of harness/suites/csstok against CssTokens.tla.          *)
(* Open{mode "tok"} carries the item names of a generated case and the byte span of every item in the concrete text; *)
(* the expected kind of every item is looked up HERE (CssTokens!Kind), never taken from the harness.                 *)
(* Tok: one token returned by css.Lexer.Next (kind name, span, whether its bytes are the input bytes of that span);  *)
(* End: the report that ended the run.  Open{mode "is"} is followed by Is events (css.IsIdent / css.IsURLUnquoted   *)
(* against what the lexer returned for the same bytes).                                                              *)
EXTENDS CssTokens, TraceIO

VARIABLES l, bad, mode, names, los, his, st
pvars == <<mode, names, los, his, st>>
tvars == <<pvars, l, bad>>
e == Trace[l]

TInit == l = 1 /\ bad = FALSE /\ mode = "" /\ names = <<>> /\ los = <<>> /\ his = <<>> /\ st = [j |-> 1, pos |-> 0]
IsStart == e.ev = "Open"
Returned == e.out = "ret"

Open == /\ mode' = e.mode
        /\ IF e.mode = "tok" THEN names' = e.names /\ los' = e.los /\ his' = e.his
                             ELSE names' = <<>> /\ los' = <<>> /\ his' = <<>>
        /\ st' = [j |-> 1, pos |-> 0]
Step ==
    CASE e.ev = "Tok" -> /\ mode = "tok"
                         /\ TokEnabled(names, los, his, st, e.kname, e.lo, e.hi, e.same)
                         /\ st' = TokNext(names, los, his, st, e.hi)
                         /\ UNCHANGED <<mode, names, los, his>>
      [] e.ev = "End" -> mode = "tok" /\ EndEnabled(names, st, e.eof) /\ UNCHANGED pvars
      \* intact: the argument was handed over as a piece of a longer text ("url(" argument ")"), and that text reads the same
      \* after the two questions as before -- the bytes the answers are about are still there to be lexed
      [] e.ev = "Is"  -> mode = "is" /\ IsFactOK(e.len, e.isIdent, e.oneIdent, e.isURL, e.oneURL) /\ ("intact" \in DOMAIN e => e.intact) /\ UNCHANGED pvars
      [] OTHER -> FALSE

TStart == l <= NEvents /\ IsStart /\ Open /\ bad' = FALSE /\ l' = l + 1
TStep  == l <= NEvents /\ ~IsStart /\ ~bad /\ Returned /\ Step /\ l' = l + 1 /\ UNCHANGED bad
TFail  == /\ l <= NEvents /\ ~IsStart /\ ~bad /\ ~(Returned /\ ENABLED Step)
          /\ RecordFail(e, l) /\ bad' = TRUE /\ l' = l + 1 /\ UNCHANGED pvars
TSkip  == l <= NEvents /\ ~IsStart /\ bad /\ l' = l + 1 /\ UNCHANGED <<pvars, bad>>
TNext == TStart \/ TStep \/ TFail \/ TSkip
TSpec == TInit /\ [][TNext]_tvars
Accepted == TLCGet("stats").diameter = NEvents + 1
=============================================================================
