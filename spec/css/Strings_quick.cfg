SPECIFICATION Spec
CONSTANTS
  MaxLen = 4
CHECK_DEADLOCK FALSE
