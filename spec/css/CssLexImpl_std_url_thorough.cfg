SPECIFICATION Spec
CONSTANTS
  Prefixes = {"urlp"}
  Alphabet = {"ws", "dq", "sq", "bslash", "rparen", "lparen", "letter", "nl", "np"}
  MaxLen = 6
  Emit = FALSE
  UnicodeRangeAsStandard = TRUE
  BadStringAsStandard = TRUE
  BslashEofAsStandard = TRUE
  DashedFunctionAsStandard = TRUE
  UrlNameAsStandard = TRUE
  NulAsStandard = FALSE
  Excuse = {}
  Defect = "none"
INVARIANT TypeOK
PROPERTY RefinesTok
PROPERTY AgreesStd
PROPERTY Tight
CHECK_DEADLOCK FALSE
