SPECIFICATION Spec
CONSTANTS
  Modes = {"stylesheet", "inline"}
  MaxTop = 3
  MaxUnits = 6
  MaxDepth = 3
  MaxFeat = 0
  MaxWs = 0
  AtKinds = {"media", "fontface", "unknown"}
  MinAtoms = 0
  EndBias = 0
CHECK_DEADLOCK FALSE
