SPECIFICATION Spec
CONSTANTS
  Prefixes = {"dq"}
  Alphabet = {"dq", "sq", "bslash", "nl", "cr", "crlf", "ff", "letter", "hex", "ws", "nul"}
  MaxLen = 5
  Emit = FALSE
  UnicodeRangeAsStandard = TRUE
  BadStringAsStandard = TRUE
  BslashEofAsStandard = TRUE
  DashedFunctionAsStandard = TRUE
  UrlNameAsStandard = TRUE
  NulAsStandard = FALSE
  Excuse = {}
  Defect = "none"
INVARIANT TypeOK
PROPERTY RefinesTok
PROPERTY AgreesStd
PROPERTY Tight
CHECK_DEADLOCK FALSE
