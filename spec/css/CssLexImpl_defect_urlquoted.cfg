SPECIFICATION Spec
CONSTANTS
  Prefixes = {"urldq"}
  Alphabet = {"letter", "dq", "rparen"}
  MaxLen = 3
  Emit = FALSE
  UnicodeRangeAsStandard = FALSE
  BadStringAsStandard = FALSE
  BslashEofAsStandard = FALSE
  DashedFunctionAsStandard = FALSE
  UrlNameAsStandard = FALSE
  NulAsStandard = FALSE
  Excuse = {"unicode-range", "badstring-newline", "bslash-eof", "dashed-function", "url-name"}
  Defect = "urlquoted"
INVARIANT TypeOK
PROPERTY RefinesTok
PROPERTY AgreesStd
PROPERTY Tight
CHECK_DEADLOCK FALSE
