SPECIFICATION Spec
CONSTANTS
  Prefixes = {"none", "u", "bslash"}
  Alphabet = {"u", "r", "l", "bslash", "lparen", "letter", "rparen"}
  MaxLen = 6
  Emit = FALSE
  UnicodeRangeAsStandard = TRUE
  BadStringAsStandard = TRUE
  BslashEofAsStandard = TRUE
  DashedFunctionAsStandard = TRUE
  UrlNameAsStandard = TRUE
  NulAsStandard = FALSE
  Excuse = {}
  Defect = "none"
INVARIANT TypeOK
PROPERTY RefinesTok
PROPERTY AgreesStd
PROPERTY Tight
CHECK_DEADLOCK FALSE
