SPECIFICATION Spec
CONSTANTS
  Prefixes = {"none"}
  Alphabet = {"letter", "e", "u", "r", "l", "hex", "digit", "nonascii", "plus", "dash", "dot", "bslash", "dq", "sq", "lparen", "rparen", "hash", "at", "slash", "star", "lt", "gt", "bang", "pipe", "tilde", "caret", "dollar", "eq", "pct", "qmark", "ws", "nl", "cr", "ff", "nul", "np", "other", "colon", "semi", "comma", "lbrack", "rbrack", "lbrace", "rbrace"}
  MaxLen = 3
  Emit = TRUE
  UnicodeRangeAsStandard = FALSE
  BadStringAsStandard = FALSE
  BslashEofAsStandard = FALSE
  DashedFunctionAsStandard = FALSE
  UrlNameAsStandard = FALSE
  NulAsStandard = FALSE
  Excuse = {"unicode-range", "badstring-newline", "bslash-eof", "dashed-function", "url-name"}
  Defect = "none"
INVARIANT TypeOK
PROPERTY RefinesTok
PROPERTY AgreesStd
PROPERTY Tight
CHECK_DEADLOCK FALSE
