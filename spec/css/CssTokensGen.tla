---------------------------- MODULE CssTokensGen ----------------------------
(***************************************************************************)
(* Generator (kind G) for C07, grammar-as-behaviour for token sequences:   *)
(* a step appends a separator choice and a token atom of CssTokens.tla.    *)
(* "none" is chosen only where NeedsSep allows it for EVERY atom of the    *)
(* current unseparated run (an atom may be merged with text two atoms      *)
(* further on: `<` `!` `--x`, `u` `+` `?`).  Every state is a case: the    *)
(* items with their class expansion; the expected observation is one token *)
(* per item, of the item's kind and text (CssTokens!Kind; the trace spec   *)
(* recomputes it from the names).                                          *)
(*                                                                         *)
(* Invariant RefAgrees holds the table and NeedsSep against the second     *)
(* formalisation CssRef.tla (section 4.3 transcribed): the reference       *)
(* tokeniser must split every generated text into exactly the items.       *)
(* Invariant Tight: for every pair of atoms, Merges (the character-level   *)
(* relation from which the serialisation table NeedsSep is derived) is     *)
(* exactly "the reference tokeniser splits the juxtaposed text otherwise". *)
(***************************************************************************)
EXTENDS CssTokens, TLC, Json, CSV, IOUtils

CONSTANTS AtomChoice,   \* "all" | "reduced"
          MaxLen,       \* number of token atoms in a case
          SepChoice,    \* "all": every separator choice; "basic": nothing, space, newline, comment; "none": juxtaposition only (cases stop where a separator is needed)
          EmitMin,      \* cases with fewer token atoms are not written
          WithFinal,    \* TRUE: end-of-input atoms may close a case
          AssertRef     \* TRUE: RefAgrees is asserted on every case as it is written (simulation mode writes the successors
                        \* it does not visit; there the INVARIANT alone would not see them)

Ref == INSTANCE CssRef

\* the atoms most sensitive to look-ahead, for exhaustive triples
Reduced == {"id.one", "id.e", "id.e3", "id.u", "id.dash", "id.esc.char", "custom.plain", "func.plain", "at.plain", "hash.id", "str.dq", "url.unq",
            "num.int", "num.plus", "num.minus", "num.frac", "num.exp", "pct.int", "dim.e", "dim.plain", "ur.single", "ur.wild",
            "cdo", "cdc", "colon", "lparen", "match.dash", "column",
            "delim.dash", "delim.plus", "delim.dot", "delim.hash", "delim.at", "delim.slash", "delim.star", "delim.lt", "delim.bang",
            "delim.gt", "delim.pipe", "delim.eq", "delim.qmark", "delim.pct"}
Atoms == IF AtomChoice = "all" THEN TokenNames ELSE Reduced

VARIABLE seq
CaseFile == IOEnv.VERIF_CASES
Item(n) == [n |-> n, k |-> Kind[n], c |-> Cls[n]]
Write(s) == CSVWrite("%1$s", <<ToJson([items |-> [i \in 1..Len(s) |-> Item(s[i])]])>>, CaseFile)

IsSep(n) == n \in SepNames
NAtoms(s) == Cardinality({i \in 1..Len(s) : ~IsSep(s[i])})
\* index of the first item of the trailing run of token atoms
RECURSIVE RunStart(_, _)
RunStart(s, i) == IF i >= 1 /\ ~IsSep(s[i]) THEN RunStart(s, i - 1) ELSE i + 1
RECURSIVE Concat(_, _, _)
Concat(s, i, j) == IF i > j THEN <<>> ELSE Cls[s[i]] \o Concat(s, i + 1, j)
\* x may follow s without a separator
Safe(s, x) == /\ Len(s) > 0 /\ ~IsSep(s[Len(s)]) => ~NeedsSep(s[Len(s)], x)
              /\ \A p \in RunStart(s, Len(s))..Len(s) : ~Merges(s[p], Concat(s, p + 1, Len(s)) \o Cls[x])

\* ------------------------------------------------------------------ the two formalisations against each other
Text(s) == Concat(s, 1, Len(s))
RECURSIVE Spans(_, _, _)
Spans(s, i, at) == IF i > Len(s) THEN <<>>
                   ELSE <<[k |-> Kind[s[i]], lo |-> at, hi |-> at + Len(Cls[s[i]])]>> \o Spans(s, i + 1, at + Len(Cls[s[i]]))
Expected(s) == Spans(s, 1, 1)
RefOK(s) == Ref!Tokens(Text(s)) = Expected(s)
RefAgrees == RefOK(seq)
\* for every pair of atoms (visited once, in the state where a comment separates them): Merges is exact
Tight == (Len(seq) = 3 /\ seq[2] = "sep.cmt" /\ Kind[seq[1]] # "BadString")
            => (Merges(seq[1], Cls[seq[3]]) <=> Ref!Tokens(Cls[seq[1]] \o Cls[seq[3]]) # Expected(<<seq[1], seq[3]>>))

Closed(s) == Len(s) > 0 /\ s[Len(s)] \in FinalNames
Extend(s, sep, x) ==
  LET t == IF sep = "none" THEN Append(s, x) ELSE s \o <<sep, x>> IN
  IF x \in TokenNames /\ Kind[x] = "BadString" THEN {Append(t, w) : w \in SepsAfter(x, SepChoice # "all")} ELSE {t}

Init == seq = <<>> /\ CSVWrite("%1$s", <<ToJson([meta |-> TRUE, atoms |-> Atoms, seps |-> SepNames, finals |-> FinalNames])>>, CaseFile)
Next ==
  /\ ~Closed(seq) /\ NAtoms(seq) < MaxLen
  /\ \E x \in Atoms \cup (IF WithFinal THEN FinalNames ELSE {}) :
     \E sep \in (IF seq = <<>> \/ IsSep(seq[Len(seq)]) THEN {"none"}
                 ELSE IF SepChoice = "none" THEN {"none"} ELSE SepsAfter(seq[Len(seq)], SepChoice = "basic")) :
       /\ sep = "none" => Safe(seq, x)
       /\ \E t \in Extend(seq, sep, x) :
            /\ seq' = t
            /\ NAtoms(t) >= EmitMin => /\ AssertRef => Assert(RefOK(t), <<"CssRef disagrees with the generator on", t>>)
                                       /\ Write(t)
Spec == Init /\ [][Next]_seq

=============================================================================
