----------------------------- MODULE NumericGen -----------------------------
(***************************************************************************)
(* Generator (kind G) for C14: TLC enumerates inputs of the strconv        *)
(* functions together with what Numeric.tla (the property-level spec) says *)
(* must be observed, one ndjson line per case:                             *)
(*                                                                         *)
(*  k="parse"  s: symbol string; int/uint/flt/dec: expectation of          *)
(*             ParseInt/ParseUint/ParseFloat/ParseDecimal on it            *)
(*             - every string over Symbols up to MaxLen (the state space), *)
(*             - boundary families (64-bit limits with signs, leading      *)
(*               zeros and continuations; long mantissas x exponent        *)
(*               windows; long runs of zeros)                              *)
(*  k="int"    AppendInt/LenInt: neg, d -> text o                          *)
(*  k="dec"    AppendDecimal: short decimal (neg, sd, ss), dec -> text o   *)
(*             (ties that are not exactly representable in binary are not  *)
(*             generated: the float64 argument could lie on either side)   *)
(*  k="num"    AppendNumber: neg, d, dec, group size gs, symbol lengths    *)
(*             gl, dl -> token layout o (300 = group, 301 = decimal        *)
(*             symbol), its byte length, and ParseNumber's result on it    *)
(*                                                                         *)
(* The harness concretises (x -> arbitrary other bytes, symbol lengths ->  *)
(* concrete runes, digit strings -> int64 / float64) and replays.          *)
(***************************************************************************)
EXTENDS Numeric, TLC, Json, CSV, IOUtils

CONSTANTS Symbols,      \* alphabet of the exhaustive part, e.g. {43,45,48,49,53,57,46,101,69,256}
          MaxLen,       \* all strings up to this length
          Families,     \* BOOLEAN: emit the boundary families
          FmtDigits,    \* digits of the short decimals for AppendDecimal
          FmtMaxLen,    \* their maximal length
          FmtScales,    \* their scales (value = digits * 10^-scale)
          FmtDecsNN,    \* dec arguments >= 0 (-1, "as many as a double has", is always added)
          NumDecs,      \* decimals for AppendNumber
          GroupSizes,   \* group sizes for AppendNumber
          SymLens       \* UTF-8 lengths of the group / decimal symbol

VARIABLES s
FmtDecs == FmtDecsNN \cup {-1}
CaseFile == IOEnv.VERIF_CASES
Emit(rec) == CSVWrite("%1$s", <<ToJson(rec)>>, CaseFile)

(* ------------------------------ parser cases ------------------------------ *)
ParseCase(x) == [k |-> "parse", s |-> x, int |-> IntExp(x), uint |-> UintExp(x), flt |-> FloatExp(x), dec |-> DecExp(x)]

Nines(k) == [i \in 1..k |-> 9]
WithLast(d, v) == [d EXCEPT ![Len(d)] = v]
Signs == {<<>>, <<PLUS>>, <<MINUS>>}

\* 64-bit limits: 2^63-2 .. 2^63+1, 2^64-2 .. 2^64+1, 10^18, 10^19-1 .. 10^19+1, the limits divided by ten
IntBases == {WithLast(MaxInt64D, 6), MaxInt64D, Pow63D, WithLast(Pow63D, 9),
             WithLast(MaxUint64D, 4), MaxUint64D, Inc(MaxUint64D), Inc(Inc(MaxUint64D)),
             Nines(18), Pow10D(18), Nines(19), Pow10D(19), Inc(Pow10D(19)), Nines(20),
             Trunc(MaxInt64D, 1), Inc(Trunc(MaxInt64D, 1)), Trunc(MaxUint64D, 1), Inc(Trunc(MaxUint64D, 1))}
IntSuffixes == {<<>>, <<XSYM>>, <<DOT>>, <<48>>, <<57>>, <<ELO, 49>>, <<DOT, 53>>}
IntFamily == {sg \o Txt(Zeros(z)) \o Txt(b) \o suf : sg \in Signs, z \in {0, 1, 3}, b \in IntBases, suf \in IntSuffixes}

\* mantissas of 1, 2, 16, 17, 19, 20 and 21 digits (2^53+1, 2^64-1, 2^64, 10^20-1 among them)
Mants == {<<1>>, <<5>>, <<9>>, <<1,5>>, <<9,0,0,7,1,9,9,2,5,4,7,4,0,9,9,3>>,
          <<1,2,3,4,5,6,7,8,9,0,1,2,3,4,5,6,7>>, <<1,2,3,4,5,6,7,8,9,0,1,2,3,4,5,6,7,8,9>>,
          MaxUint64D, Inc(MaxUint64D), Nines(20), <<1,2,3,4,5,6,7,8,9,0,1,2,3,4,5,6,7,8,9,0,1>>}
DotForms(m) == {Txt(m), Txt(m) \o <<DOT>>, <<DOT>> \o Txt(m), <<48, DOT>> \o Txt(m)}
                  \cup (IF Len(m) > 1 THEN {<<m[1] + 48, DOT>> \o Txt(SubSeq(m, 2, Len(m)))} ELSE {})
\* exponent windows: subnormal / underflow edge, math.Pow10's domain, the exact-power-of-ten fast paths, overflow edge
Exps == {-400, -326, -325, -324, -323, -322, -310, -309, -308, -307, -306, -293, -292, -291, -290,
         -38, -37, -23, -22, -21, -16, -15, -1, 0, 1, 15, 16, 21, 22, 23, 36, 37, 38,
         290, 291, 292, 293, 306, 307, 308, 309, 310, 400}
ExpTexts(x) == IF x < 0 THEN {<<MINUS>> \o Txt(FromNat(0 - x))}
               ELSE {Txt(FromNat(x)), <<PLUS>> \o Txt(FromNat(x))}
FloatFamily == {sg \o mf \o <<ec>> \o et : sg \in {<<>>, <<MINUS>>}, mf \in UNION {DotForms(m) : m \in Mants},
                                           ec \in {ELO, EUP}, et \in UNION {ExpTexts(x) : x \in Exps}}
\* exponents that do not fit a machine word, or are written with leading zeros
BigExpTexts == {sg \o Txt(d) : sg \in Signs, d \in {MaxInt64D, Pow63D, Nines(20), <<0,0,2,2>>, <<0,0,0,0,0,0,0,0,0,0,0,0,0,0,0,0,0,0,0,0,0,5>>}}
BigExpFamily == {mf \o <<ELO>> \o et : mf \in {<<49>>, <<49, DOT, 53>>, <<48>>, <<DOT, 48>>}, et \in BigExpTexts}
\* long runs of zeros: 0.000..0m and m000..0 (ParseDecimal has no exponent syntax, so this is how it meets the windows)
ZeroRuns == {20, 21, 22, 23, 37, 38, 290, 291, 292, 306, 307, 308, 309, 322, 323, 324, 330}
ZeroFamily == {sg \o <<48, DOT>> \o Txt(Zeros(k)) \o Txt(m) : sg \in {<<>>, <<MINUS>>}, k \in ZeroRuns,
                                                            m \in {<<1>>, <<1,2,3,4,5,6,7,8,9,0,1,2,3,4,5,6,7>>}}
         \cup {Txt(m) \o Txt(Zeros(k)) \o suf : k \in ZeroRuns, m \in {<<1>>, <<1,2,3,4,5,6,7,8,9,0,1,2,3,4,5,6,7>>},
                                                suf \in {<<>>, <<DOT, 48>>}}
FamilyStrings == IntFamily \cup FloatFamily \cup BigExpFamily \cup ZeroFamily

(* ------------------------------ formatting cases ------------------------------ *)
\* digit strings without leading zeros (and "0"), up to length n, over the digit set D
NumStrings(D, n) == UNION {{d \in [1..k -> D] : k = 1 \/ d[1] # 0} : k \in 1..n}

\* AppendInt / LenInt: around every digit-count boundary, the int64 limits, all numbers below 100
IntArgs == {[neg |-> FALSE, d |-> <<0>>]}
           \cup {[neg |-> ng, d |-> d] : ng \in BOOLEAN, d \in {Nines(k) : k \in 1..18} \cup {Pow10D(k) : k \in 1..18}
                                                             \cup (NumStrings(0..9, 2) \ {<<0>>}) \cup {MaxInt64D, WithLast(MaxInt64D, 6)}}
           \cup {[neg |-> TRUE, d |-> Pow63D]}
IntCase(a) == [k |-> "int", neg |-> a.neg, d |-> a.d, o |-> IntText(a.neg, a.d)]

DecArgs == {a \in [neg : BOOLEAN, sd : NumStrings(FmtDigits, FmtMaxLen), ss : FmtScales, dec : FmtDecs] :
              /\ (a.neg => ~IsZero(a.sd))
              /\ (DecIsTie(a.sd, a.ss, EffPrec(a.dec)) => ExactlyRepresentable(a.sd, a.ss))}
DecCase(a) == [k |-> "dec", neg |-> a.neg, sd |-> a.sd, ss |-> a.ss, dec |-> a.dec,
               o |-> DecimalText(a.neg, DecScaled(a.sd, a.ss, EffPrec(a.dec)), EffPrec(a.dec))]

NumDigits == {<<0>>, <<5>>, <<1,2>>, <<1,2,3>>, <<1,2,3,4>>, <<1,2,3,4,5>>, <<1,2,3,4,5,6>>, <<1,2,3,4,5,6,7>>,
              <<1,2,3,4,5,6,7,8,9>>, <<1,0,0,0>>, <<1,0,0,0,0,0,0>>, MaxInt64D, Pow63D}
NumArgs == {a \in [neg : BOOLEAN, d : NumDigits, dec : NumDecs, gs : GroupSizes, gl : SymLens, dl : SymLens] :
              /\ (a.neg => ~IsZero(a.d)) /\ FitsInt64(a.neg, a.d)
              /\ (a.gs = 0 => a.gl = 1)                         \* no grouping: the group symbol is irrelevant
              /\ (a.dec = 0 => a.dl = 1)}                       \* no decimals: the decimal symbol is irrelevant
NumCase(a) == LET o == NumberLayout(a.neg, a.d, a.dec, a.gs)
                  p == ParseLayout(o)
              IN  [k |-> "num", neg |-> a.neg, d |-> a.d, dec |-> a.dec, gs |-> a.gs, gl |-> a.gl, dl |-> a.dl,
                   o |-> o, bytes |-> LayoutBytes(o, a.gl, a.dl), pneg |-> p.neg, pd |-> Canon(p.d), pdec |-> p.dec, pn |-> p.n]
\* the specification's own round trip: parsing a layout gives back the arguments and consumes every token
RoundTrip == \A a \in NumArgs : LET o == NumberLayout(a.neg, a.d, a.dec, a.gs)  p == ParseLayout(o)
                                IN  p.neg = a.neg /\ Eq(p.d, a.d) /\ p.dec = a.dec /\ p.n = Len(o)

(* ------------------------------ the enumeration ------------------------------ *)
Init == /\ s = <<>> /\ calls = 0            \* (calls: the variable of Numeric's actions, unused here)
        /\ Emit(ParseCase(<<>>))
        /\ (Families => \A x \in FamilyStrings : Emit(ParseCase(x)))
        /\ \A a \in IntArgs : Emit(IntCase(a))
        /\ \A a \in DecArgs : Emit(DecCase(a))
        /\ \A a \in NumArgs : Emit(NumCase(a))
        /\ Assert(RoundTrip, "NumberLayout / ParseLayout do not round-trip")
Next == \E c \in Symbols : /\ Len(s) < MaxLen
                           /\ s' = Append(s, c)
                           /\ Emit(ParseCase(s'))
                           /\ UNCHANGED calls
Spec == Init /\ [][Next]_<<s, calls>>

\* sanity of the expectations themselves, checked on every enumerated string
GenInv == LET i == IntExp(s)  u == UintExp(s)  f == FloatExp(s)  dd == DecExp(s) IN
          /\ i.n <= Len(s) /\ u.n <= Len(s) /\ f.n <= Len(s) /\ dd.n <= Len(s)
          /\ (u.n > 0 => i.n = u.n /\ i.d = u.d)                       \* an unsigned literal is a signed one
          /\ (i.n > 0 => f.n >= i.n)                                    \* an integer literal begins a float literal
          /\ (~dd.free /\ At(s, 1) # MINUS => f.n >= dd.n)              \* so does a decimal one
=============================================================================
