---------------------------- MODULE NumericTrace ----------------------------
(***************************************************************************)
(* Trace specification (kind T) for C14: every call recorded from the real *)
(* parse/strconv -- replayed generator cases and seeded random calls --     *)
(* must be a step of Numeric.tla.  A trace is a batch: "Begin", then calls. *)
(* Every event carries the arguments and the projected result, so the      *)
(* post-state is determined and the spec never branches.                   *)
(***************************************************************************)
EXTENDS Numeric, TraceIO

VARIABLES l, bad
tvars == <<nvars, l, bad>>

e == Trace[l]

TInit == /\ l = 1 /\ bad = FALSE
         /\ calls = 0

IsStart == e.ev = "Begin"

\* the property-level action that has to explain the current event
Step ==
    CASE e.ev = "ParseInt"      -> ParseInt(e)
      [] e.ev = "ParseUint"     -> ParseUint(e)
      [] e.ev = "ParseFloat"    -> ParseFloat(e)
      [] e.ev = "ParseDecimal"  -> ParseDecimal(e)
      [] e.ev = "AppendInt"     -> AppendInt(e)
      [] e.ev = "AppendFloat"   -> AppendFloat(e)
      [] e.ev = "AppendDecimal" -> AppendDecimal(e)
      [] e.ev = "AppendNumber"  -> AppendNumber(e)
      [] OTHER                  -> FALSE

\* a call that did not return normally (panic) is explained by no action at all
Returned == IF Has(e, "out") THEN e.out = "ret" ELSE TRUE

TStart == /\ l <= NEvents /\ IsStart
          /\ Begin
          /\ bad' = FALSE /\ l' = l + 1
TStep  == /\ l <= NEvents /\ ~IsStart /\ ~bad
          /\ Returned /\ Step
          /\ l' = l + 1 /\ UNCHANGED bad
TFail  == /\ l <= NEvents /\ ~IsStart /\ ~bad
          /\ ~(Returned /\ ENABLED Step)
          /\ RecordFail(e, l)
          /\ bad' = TRUE /\ l' = l + 1 /\ UNCHANGED nvars
TSkip  == /\ l <= NEvents /\ ~IsStart /\ bad
          /\ l' = l + 1 /\ UNCHANGED <<nvars, bad>>

TNext == TStart \/ TStep \/ TFail \/ TSkip
TSpec == TInit /\ [][TNext]_tvars

TInv == bad \/ Inv
Done == Consumed(l)
Accepted == TLCGet("stats").diameter = NEvents + 1
=============================================================================
