------------------------------ MODULE Numeric ------------------------------
(***************************************************************************)
(* Property-level specification (kind P) of parse/strconv -- property C14: *)
(* "strconv parses and formats numbers consistently with the standard      *)
(* library".  Written from the property statement and the doc comments /   *)
(* documented examples of the functions, not from the Go control flow.     *)
(*                                                                         *)
(* Texts are sequences of byte values (43 '+', 45 '-', 46 '.', 48..57      *)
(* digits, 69 'E', 101 'e'); every other value (the generator uses 256 =   *)
(* "x", any other byte) ends a number.  Numbers are digit strings          *)
(* (Digits.tla); a decimal value is (neg, digits d, exponent e10) meaning  *)
(* (-1)^neg * d * 10^e10.  A float64 observed in the code is projected by  *)
(* the harness to  cls ("zero","fin","inf","nan"), neg, m (its first 17    *)
(* significant decimal digits, correctly rounded) and e (decimal exponent  *)
(* of the first digit):  |f| ~ m[1].m[2..17] * 10^e.                       *)
(*                                                                         *)
(* Part 1 defines what the statement demands as functions of the input.    *)
(* Part 2 defines, per call, the predicate  <Call>OK(ev)  on a logged      *)
(* event: TRUE exactly for results the statement allows.  Part 3 wraps     *)
(* them into actions (the trace specification takes one step per event).   *)
(***************************************************************************)
EXTENDS Digits, FiniteSets

PLUS == 43   MINUS == 45   DOT == 46   EUP == 69   ELO == 101
XSYM == 256                         \* generator symbol "x": any byte that is not one of the above / a digit
IsDig(c) == c >= 48 /\ c <= 57
At(s, i) == IF i >= 1 /\ i <= Len(s) THEN s[i] ELSE -1          \* -1: past the end
SetMin(S) == CHOOSE x \in S : \A y \in S : x <= y
\* length of the run of digit symbols starting at index i
Run(s, i) == IF i > Len(s) THEN 0
             ELSE LET stops == {j \in i..Len(s) : ~IsDig(s[j])}
                  IN  IF stops = {} THEN Len(s) - i + 1 ELSE SetMin(stops) - i
DigitsOf(s, i, k) == [j \in 1..k |-> s[i + j - 1] - 48]
Txt(d) == [j \in 1..Len(d) |-> d[j] + 48]                        \* digit string -> its text

(***************************************************************************)
(* Part 1a.  The documented syntaxes, longest prefix, value.               *)
(*   ParseInt      [+-]? digit+                                            *)
(*   ParseUint     digit+                                                  *)
(*   ParseFloat    [+-]? M ([eE] [+-]? digit+)?                            *)
(*   ParseDecimal  -? M             ("optional minus, digits with at most  *)
(*                                    one dot")                            *)
(*   M             digit+ | digit+ '.' digit* | '.' digit+                 *)
(* (documented by example: "1e" and "1e+" consume 1 byte, "." and "e1"     *)
(* none, "123." is consumed entirely.)                                     *)
(***************************************************************************)
Zero00 == [n |-> 0, neg |-> FALSE, d |-> <<0>>]                  \* "(0,0)"

IntExp(s) ==
    LET sl  == IF At(s, 1) \in {PLUS, MINUS} THEN 1 ELSE 0
        r   == Run(s, sl + 1)
        d   == Canon(DigitsOf(s, sl + 1, r))
        neg == At(s, 1) = MINUS
    IN  IF r = 0 \/ ~FitsInt64(neg, d) THEN Zero00
        ELSE [n |-> sl + r, neg |-> neg /\ ~IsZero(d), d |-> d]

UintExp(s) ==
    LET r == Run(s, 1)
        d == Canon(DigitsOf(s, 1, r))
    IN  IF r = 0 \/ ~FitsUint64(d) THEN Zero00 ELSE [n |-> r, neg |-> FALSE, d |-> d]

\* mantissa M starting at index i; len = 0 if there is none
Mant(s, i) ==
    LET r1  == Run(s, i)
        dot == At(s, i + r1) = DOT
        r2  == IF dot THEN Run(s, i + r1 + 1) ELSE 0
    IN  IF r1 + r2 = 0 THEN [len |-> 0, dot |-> FALSE, ip |-> <<>>, fp |-> <<>>]
        ELSE [len |-> r1 + (IF dot THEN 1 + r2 ELSE 0), dot |-> dot,
              ip |-> DigitsOf(s, i, r1), fp |-> IF dot THEN DigitsOf(s, i + r1 + 1, r2) ELSE <<>>]

\* exponent part starting at index p; len = 0 if there is none (an 'e' without digits is not consumed)
ExpPart(s, p) ==
    LET esl == IF At(s, p + 1) \in {PLUS, MINUS} THEN 1 ELSE 0
        er  == Run(s, p + 1 + esl)
    IN  IF At(s, p) \in {ELO, EUP} /\ er > 0
        THEN [len |-> 1 + esl + er, neg |-> At(s, p + 1) = MINUS, d |-> DigitsOf(s, p + 1 + esl, er)]
        ELSE [len |-> 0, neg |-> FALSE, d |-> <<>>]
\* exponent as a (32-bit) integer, saturated far outside anything a float64 can hold
Huge == 9999999
ExpVal(x) == LET c == Strip(x.d)
                 v == IF Len(c) > 6 THEN Huge ELSE ToNat(c)
             IN  IF x.neg THEN 0 - v ELSE v

NoNumber == [n |-> 0, neg |-> FALSE, d |-> <<>>, e10 |-> 0, free |-> FALSE]
FloatExp(s) ==
    LET sl == IF At(s, 1) \in {PLUS, MINUS} THEN 1 ELSE 0
        m  == Mant(s, sl + 1)
        x  == ExpPart(s, sl + m.len + 1)
    IN  IF m.len = 0 THEN NoNumber
        ELSE [n |-> sl + m.len + x.len, neg |-> At(s, 1) = MINUS, d |-> m.ip \o m.fp,
              e10 |-> ExpVal(x) - Len(m.fp), free |-> FALSE]

\* free = TRUE: the input does not begin with a decimal number and the statement says nothing about the result
DecExp(s) ==
    LET sl == IF At(s, 1) = MINUS THEN 1 ELSE 0
        m  == Mant(s, sl + 1)
    IN  IF m.len = 0 THEN [NoNumber EXCEPT !.free = TRUE]
        ELSE [n |-> sl + m.len, neg |-> sl = 1, d |-> m.ip \o m.fp, e10 |-> 0 - Len(m.fp), free |-> FALSE]

\* scientific form of d * 10^e10: z (zero), significant digits c (no leading zeros), se = exponent of c[1]
Sci(d, e10) == LET c == Strip(d)
               IN  IF c = <<>> THEN [z |-> TRUE, c |-> <<>>, se |-> 0]
                   ELSE [z |-> FALSE, c |-> c, se |-> e10 + Len(c) - 1]

(***************************************************************************)
(* Part 1b.  The float tolerance, on digit strings.                        *)
(*                                                                         *)
(* "within 1e-14 relative error of the reference value b": let B be the    *)
(* first 15 significant digits of b read as an integer (unit U = weight of *)
(* b's 15th digit), dd = b's first digit, and A the observed value a in    *)
(* the same unit, truncated.  a, b are known up to half a unit of their    *)
(* 17th digit and truncation loses < 1 unit, so                            *)
(*   |a - b| <= 1e-14*|b|  implies  |A - B| <= dd + 2                      *)
(* (1e-14*|b|/U < dd + 1).  The converse fails only by a factor < 3 in the *)
(* tolerance: the test never raises a false alarm and still rejects any    *)
(* relative error above 3e-14 .. 1.2e-13.  The same bound is sound against *)
(* the exact decimal value of a literal whose correctly rounded float64 is *)
(* a normal number (rounding contributes 1.2e-16, covered by the slack).   *)
(***************************************************************************)
Close(om, oe, X, xse) ==
    IF oe < xse - 1 \/ oe > xse + 1 \/ Len(om) # 17 \/ X = <<>> THEN FALSE
    ELSE LET B  == First(X, 15)
             A  == SubSeq(om, 1, 15 + (oe - xse))
             tl == B[1] + 2
         IN  Leq(A, AddNat(B, tl)) /\ Leq(B, AddNat(A, tl))

\* At the top of the range a real number within 1e-14 of the reference may round to +-Inf (or, the reference being
\* Inf, to a finite float64 next to MaxFloat64 = 1.7976931348623157e308): both are roundings of an acceptable value.
NearMax(m, e) == IF e = 308 /\ Len(m) = 17 THEN Leq(<<1,7,9,7,6,9,3,1,3,4,8,6,2,2,8>>, SubSeq(m, 1, 15)) ELSE FALSE
\* observed (cls, neg, m, e) against a reference float64 given in the same projection
MatchesRef(cls, neg, m, e, rcls, rneg, rm, re) ==
    CASE rcls = "zero" -> cls = "zero"
      [] rcls = "inf"  -> neg = rneg /\ (cls = "inf" \/ (cls = "fin" /\ NearMax(m, e)))
      [] rcls = "fin"  -> neg = rneg /\ IF cls = "fin" THEN Close(m, e, rm, re) ELSE cls = "inf" /\ NearMax(rm, re)
      [] OTHER         -> FALSE
\* observed against the exact decimal value; decided where the correctly rounded float64 is certainly normal,
\* certainly infinite or certainly zero, left to the reference in between
MatchesExact(cls, neg, m, e, xneg, d, e10) ==
    LET sci == Sci(d, e10) IN
    IF sci.z THEN cls = "zero"
    ELSE IF sci.se >= -300 /\ sci.se <= 300 THEN cls = "fin" /\ neg = xneg /\ Close(m, e, sci.c, sci.se)
    ELSE IF sci.se >= 310 THEN cls = "inf" /\ neg = xneg
    ELSE IF sci.se <= -326 THEN cls = "zero"
    ELSE TRUE

(***************************************************************************)
(* Part 1c.  Formatting.                                                   *)
(***************************************************************************)
\* AppendInt / LenInt: the text of an integer is its digit string
IntText(neg, d) == (IF neg /\ ~IsZero(d) THEN <<MINUS>> ELSE <<>>) \o Txt(Canon(d))

\* precision / decimals arguments outside 0..17 mean 17 (doc: "maximum number of significant digits in double")
EffPrec(p) == IF p < 0 \/ p > 17 THEN 17 ELSE p

\* AppendDecimal(f, dec) for f = (-1)^neg * sd * 10^-ss: |f| * 10^dec rounded half away from zero
DecScaled(sd, ss, dec) == IF dec >= ss THEN ShiftUp(sd, dec - ss) ELSE RoundHalfAway(sd, ss - dec)
DecIsTie(sd, ss, dec)  == dec < ss /\ IsTie(sd, ss - dec)
\* text of (-1)^neg * S * 10^-dec with trailing zeros of the fraction dropped
DecimalText(neg, S, dec) ==
    LET c   == Pad(Strip(S), dec + 1)                  \* at least one digit in front of the dot
        ip  == SubSeq(c, 1, Len(c) - dec)
        fp0 == SubSeq(c, Len(c) - dec + 1, Len(c))
        fp  == SubSeq(fp0, 1, Len(fp0) - TZ(fp0))
    IN  (IF neg /\ ~IsZero(S) THEN <<MINUS>> ELSE <<>>) \o Txt(ip) \o (IF fp = <<>> THEN <<>> ELSE <<DOT>> \o Txt(fp))

\* AppendNumber(num, dec, groupSize, groupSym, decSym): layout as tokens; GSYM / DSYM stand for the two symbols
GSYM == 300   DSYM == 301
NumberLayout(neg, d, dec, gs) ==
    LET c  == Pad(Strip(d), dec + 1)
        ni == Len(c) - dec                               \* digits in front of the decimal symbol
        ip == SubSeq(c, 1, ni)
        fp == SubSeq(c, ni + 1, Len(c))
        \* a group symbol precedes integer digit k iff a positive multiple of gs digits follow it (and it is not the first)
        G(k) == gs > 0 /\ k > 1 /\ (ni - k + 1) % gs = 0
        IT[k \in 0..ni] == IF k = 0 THEN <<>> ELSE IT[k-1] \o (IF G(k) THEN <<GSYM>> ELSE <<>>) \o <<ip[k] + 48>>
    IN  (IF neg /\ ~IsZero(d) THEN <<MINUS>> ELSE <<>>) \o IT[ni] \o (IF dec > 0 THEN <<DSYM>> \o Txt(fp) ELSE <<>>)
\* byte length of a layout for symbols of gl and dl UTF-8 bytes
LayoutBytes(o, gl, dl) == Len(o) + (gl - 1) * Cardinality({i \in DOMAIN o : o[i] = GSYM})
                                 + (dl - 1) * Cardinality({i \in DOMAIN o : o[i] = DSYM})
\* ParseNumber on tokens (the documented inverse): optional minus, digits and group symbols, then after the decimal
\* symbol digits only.  Returns (neg, digits, dec, tokens consumed); overflow is not modelled (layouts of int64 only).
ParseLayout(o) ==
    LET sl   == IF At(o, 1) = MINUS THEN 1 ELSE 0
        ok1(j) == IsDig(o[j]) \/ o[j] = GSYM
        st1  == {j \in (sl+1)..Len(o) : ~ok1(j)}
        e1   == IF st1 = {} THEN Len(o) + 1 ELSE SetMin(st1)          \* first token that is neither digit nor group
        hasD == At(o, e1) = DSYM
        r2   == IF hasD THEN Run(o, e1 + 1) ELSE 0
        en   == IF hasD THEN e1 + r2 ELSE e1 - 1                      \* last token consumed
        ds   == SelectSeq(SubSeq(o, sl + 1, en), IsDig)
    IN  [neg |-> sl = 1, d |-> DigitsOf(ds, 1, Len(ds)), dec |-> r2, n |-> en]

(***************************************************************************)
(* Part 2.  What the statement allows, per logged call.                    *)
(***************************************************************************)
SameInt(ev, x) == ev.n = x.n /\ ev.neg = x.neg /\ ev.d = x.d

ParseIntOK(ev)  == SameInt(ev, IntExp(ev.b))
ParseUintOK(ev) == SameInt(ev, UintExp(ev.b))

\* ev: n, cls/neg/m/e (result), rerr/rcls/rneg/rm/re (strconv.ParseFloat of the consumed prefix, an observed fact)
FloatResultOK(ev, x) ==
    /\ ev.n = x.n
    /\ IF x.n = 0 THEN ev.cls = "zero"
       ELSE /\ ev.rerr \in {"nil", "range"}
            /\ MatchesRef(ev.cls, ev.neg, ev.m, ev.e, ev.rcls, ev.rneg, ev.rm, ev.re)
            /\ MatchesExact(ev.cls, ev.neg, ev.m, ev.e, x.neg, x.d, x.e10)
ParseFloatOK(ev)   == FloatResultOK(ev, FloatExp(ev.b))
ParseDecimalOK(ev) == LET x == DecExp(ev.b) IN IF x.free THEN TRUE ELSE FloatResultOK(ev, x)

\* AppendInt / LenInt: o = appended bytes, std = strconv.AppendInt's bytes, len = LenInt, pk = prefix kept
AppendIntOK(ev) == /\ ev.pk /\ ev.o = IntText(ev.neg, ev.d) /\ ev.std = ev.o /\ ev.len = Len(ev.o)

\* AppendFloat(f, prec): the appended bytes form exactly one float literal; sign; value.  The code documents
\* "prec + 1 == number of significant digits" but the statement only says "within the requested number of
\* digits, truncating": demanded here is agreement on the first min(prec,15) significant digits of f, i.e. with U
\* the weight of that digit,  floor(f/U) - 2 <= floor(out/U) <= floor(f/U) + 1  (one unit for the truncation, one
\* for each projection/float fuzz).
TruncOK(m, e, p, D, e10) ==
    LET k  == MinOf(p, 15)
        F  == SubSeq(m, 1, k)
        c  == Strip(D)
        sh == e10 - (e - k + 1)
    IN  IF c = <<>> THEN Leq(F, <<2>>)
        ELSE IF sh > 40 THEN FALSE
        ELSE LET O == IF sh >= 0 THEN ShiftUp(c, sh) ELSE Trunc(c, 0 - sh)
             IN  Leq(F, AddNat(O, 2)) /\ Leq(O, AddNat(F, 1))
SignOK(litneg, litzero, neg) == (litneg => neg) /\ ((neg /\ ~litzero) => litneg)
AppendFloatOK(ev) ==
    /\ ev.pk
    /\ IF ev.cls \in {"nan", "inf"} THEN ev.o = <<>>
       ELSE LET lit == FloatExp(ev.o)
                sci == Sci(lit.d, lit.e10)
            IN  /\ Len(ev.o) > 0 /\ lit.n = Len(ev.o)
                /\ SignOK(lit.neg, sci.z, ev.neg)
                /\ IF ev.cls = "zero" THEN sci.z
                   ELSE TruncOK(ev.m, ev.e, EffPrec(ev.prec), lit.d, lit.e10)

\* AppendDecimal(f, dec): -? M literal without trailing zeros in the fraction, at most dec decimals, sign, and
\* out * 10^dec = round-half-away(f * 10^dec).  f is known either exactly as a short decimal (short: sd, ss) or by its
\* 17-digit projection.  float64 cannot distinguish values closer than 2^-53 relative, so where the scaled value has
\* more than 15 digits the last ones are allowed to differ (and a tie of the short decimal may fall either way,
\* unless the tie is exactly representable in binary).
\* the short decimal sd * 10^-ss is a dyadic rational, so the float64 argument is exactly that value: after dropping
\* trailing zeros, 5^scale divides the digits.  Decided for short strings only; "unknown" counts as "no".
ExactlyRepresentable(sd, ss) ==
    LET t == MinOf(TZ(sd), ss)
        c == Strip(SubSeq(sd, 1, Len(sd) - t))
        k == ss - t
    IN  Len(c) <= 9 /\ k <= 13 /\ (k <= 0 \/ ToNat(c) % (5^k) = 0)
DecTol(S, extra, keep) == LET L == Len(Strip(S)) IN Add(FromNat(extra), IF L <= keep THEN <<>> ELSE Pow10D(L - keep))
AppendDecimalOK(ev) ==
    /\ ev.pk
    /\ IF ev.cls \in {"nan", "inf"} THEN ev.o = <<>>
       ELSE LET dec == EffPrec(ev.dec)
                sl  == IF At(ev.o, 1) = MINUS THEN 1 ELSE 0
                lit == Mant(ev.o, sl + 1)
                O   == ShiftUp(lit.ip \o lit.fp, dec - Len(lit.fp))
                k   == ev.e - 16 + dec
                S   == IF ev.cls = "zero" THEN <<>>
                       ELSE IF ev.short THEN DecScaled(ev.sd, ev.ss, dec)
                       ELSE IF k >= 0 THEN ShiftUp(ev.m, k) ELSE Trunc(ev.m, 0 - k)
                tol == IF ev.cls = "zero" THEN <<>>
                       ELSE IF ev.short THEN DecTol(S, IF DecIsTie(ev.sd, ev.ss, dec) /\ ~ExactlyRepresentable(ev.sd, ev.ss) THEN 1 ELSE 0, 15)
                       ELSE DecTol(S, 1, 14)
            IN  /\ lit.len > 0 /\ sl + lit.len = Len(ev.o)
                /\ Len(lit.fp) <= dec
                /\ (lit.fp # <<>> => lit.fp[Len(lit.fp)] # 0)
                /\ SignOK(sl = 1, IsZero(O), ev.neg)
                /\ Leq(O, Add(S, tol)) /\ Leq(S, Add(O, tol))

\* AppendNumber then ParseNumber with the same symbols: original integer, decimal count, full length.
\* (neg, d, dec: arguments; olen: bytes appended; pneg, pd, pdec, pn: ParseNumber's result on them.)
AppendNumberOK(ev) ==
    /\ ev.pk
    /\ ev.pneg = (ev.neg /\ ~IsZero(ev.d)) /\ Eq(ev.pd, ev.d)
    /\ ev.pdec = ev.dec /\ ev.pn = ev.olen

(***************************************************************************)
(* Part 3.  Actions.  The functions are stateless; the only state is the   *)
(* number of calls explained so far in the current batch.                  *)
(***************************************************************************)
VARIABLES calls
nvars == <<calls>>

Begin == calls' = 0
Call(ok) == ok /\ calls' = calls + 1
ParseInt(ev)      == Call(ParseIntOK(ev))
ParseUint(ev)     == Call(ParseUintOK(ev))
ParseFloat(ev)    == Call(ParseFloatOK(ev))
ParseDecimal(ev)  == Call(ParseDecimalOK(ev))
AppendInt(ev)     == Call(AppendIntOK(ev))
AppendFloat(ev)   == Call(AppendFloatOK(ev))
AppendDecimal(ev) == Call(AppendDecimalOK(ev))
AppendNumber(ev)  == Call(AppendNumberOK(ev))

Inv == calls \in Nat
=============================================================================
