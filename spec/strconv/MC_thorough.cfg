SPECIFICATION Spec
CONSTANTS
  Symbols = {43, 45, 48, 49, 53, 57, 46, 101, 69, 256}
  MaxLen = 6
  Families = TRUE
  FmtDigits = {0, 1, 2, 4, 5, 6, 9}
  FmtMaxLen = 4
  FmtScales = {0, 1, 2, 3, 4, 5, 6}
  FmtDecsNN = {0, 1, 2, 3, 4, 5, 6, 7, 8, 9, 10, 11, 12, 13, 14, 15, 16, 17, 18}
  NumDecs = {0, 1, 2, 3, 4, 5, 6, 7, 8, 9, 17, 18}
  GroupSizes = {0, 1, 2, 3, 4, 5, 6}
  SymLens = {1, 2, 3, 4}
INVARIANT GenInv
CHECK_DEADLOCK FALSE
