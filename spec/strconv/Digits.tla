------------------------------- MODULE Digits -------------------------------
(***************************************************************************)
(* Natural numbers as decimal digit strings.                               *)
(*                                                                         *)
(* TLC integers are 32-bit and there are no floats, so every number the    *)
(* strconv property (C14) talks about is a sequence of digits 0..9, most   *)
(* significant digit first.  The empty sequence and any string of zeros    *)
(* denote 0.  All operators are total on digit strings and (apart from     *)
(* ToNat) non-recursive, so TLC evaluates them without deep stacks.        *)
(***************************************************************************)
EXTENDS Integers, Sequences

Digit == 0..9
IsDigits(s) == \A i \in DOMAIN s : s[i] \in Digit

Zeros(k) == IF k <= 0 THEN <<>> ELSE [i \in 1..k |-> 0]
MaxOf(a, b) == IF a > b THEN a ELSE b
MinOf(a, b) == IF a < b THEN a ELSE b

\* number of leading zeros
LZ(s) == IF \A i \in DOMAIN s : s[i] = 0 THEN Len(s)
         ELSE (CHOOSE i \in DOMAIN s : s[i] # 0 /\ \A j \in 1..(i-1) : s[j] = 0) - 1
\* number of trailing zeros
TZ(s) == IF \A i \in DOMAIN s : s[i] = 0 THEN Len(s)
         ELSE Len(s) - (CHOOSE i \in DOMAIN s : s[i] # 0 /\ \A j \in (i+1)..Len(s) : s[j] = 0)

Strip(s)  == SubSeq(s, LZ(s) + 1, Len(s))       \* without leading zeros; <<>> for zero
Canon(s)  == IF Strip(s) = <<>> THEN <<0>> ELSE Strip(s)      \* the way a number is written
IsZero(s) == \A i \in DOMAIN s : s[i] = 0
Pad(s, n) == Zeros(n - Len(s)) \o s             \* leading zeros up to length n

(* ------------------------------ comparison ------------------------------ *)
CmpSameLen(a, b) ==
    IF a = b THEN 0
    ELSE LET i == CHOOSE k \in DOMAIN a : a[k] # b[k] /\ \A j \in 1..(k-1) : a[j] = b[j]
         IN  IF a[i] < b[i] THEN -1 ELSE 1
\* -1, 0, 1 : a < b, a = b, a > b as numbers (leading zeros are irrelevant)
Cmp(a, b) == LET x == Strip(a)  y == Strip(b)
             IN  IF Len(x) < Len(y) THEN -1 ELSE IF Len(x) > Len(y) THEN 1 ELSE CmpSameLen(x, y)
Leq(a, b) == Cmp(a, b) <= 0
Lt(a, b)  == Cmp(a, b) < 0
Eq(a, b)  == Cmp(a, b) = 0

(* ------------------------------ arithmetic ------------------------------ *)
\* s + 1 (same length unless s is all nines)
Inc(s) ==
    IF \A i \in DOMAIN s : s[i] = 9 THEN <<1>> \o Zeros(Len(s))
    ELSE LET p == CHOOSE i \in DOMAIN s : s[i] # 9 /\ \A j \in (i+1)..Len(s) : s[j] = 9
         IN  [i \in 1..Len(s) |-> IF i < p THEN s[i] ELSE IF i = p THEN s[i] + 1 ELSE 0]

\* a + b with carry look-ahead (no recursion)
Add(a, b) ==
    LET n == MaxOf(Len(a), Len(b))
        x == Pad(a, n)
        y == Pad(b, n)
        C(k) == \E j \in k..n : x[j] + y[j] >= 10 /\ \A m \in k..(j-1) : x[m] + y[m] = 9   \* carry into k-1
        r == [i \in 1..n |-> (x[i] + y[i] + (IF C(i+1) THEN 1 ELSE 0)) % 10]
    IN  IF C(1) THEN <<1>> \o r ELSE r

\* digit string of a small natural (k < 10^9)
FromNat(k) == Canon([i \in 1..10 |-> (k \div (10^(10-i))) % 10])
AddNat(s, k) == Add(s, FromNat(k))
\* value of a short digit string (at most 9 digits)
RECURSIVE ToNat(_)
ToNat(s) == IF s = <<>> THEN 0 ELSE ToNat(SubSeq(s, 1, Len(s)-1)) * 10 + s[Len(s)]

\* 10^k as a digit string; s * 10^k
Pow10D(k)    == <<1>> \o Zeros(k)
ShiftUp(s, k) == s \o Zeros(k)

(* --------------------------- cutting off digits --------------------------- *)
\* floor(s / 10^k): truncation
Trunc(s, k) == IF k <= 0 THEN s ELSE IF k >= Len(s) THEN <<>> ELSE SubSeq(s, 1, Len(s) - k)
\* the digit of weight 10^(k-1), i.e. the first digit that Trunc(s, k) drops (0 if there is none)
DroppedDigit(s, k) == IF k >= 1 /\ k <= Len(s) THEN s[Len(s) - k + 1] ELSE 0
\* round(s / 10^k), halves away from zero (s is a magnitude)
RoundHalfAway(s, k) ==
    IF k <= 0 THEN s
    ELSE IF DroppedDigit(s, k) >= 5 THEN Inc(Trunc(s, k)) ELSE Trunc(s, k)
\* s / 10^k lies exactly half way between two integers
IsTie(s, k) == /\ k >= 1 /\ k <= Len(s) /\ s[Len(s) - k + 1] = 5
               /\ \A j \in (Len(s) - k + 2)..Len(s) : s[j] = 0
\* the first k digits of a number written without leading zeros, padded with zeros on the right
First(s, k) == IF Len(s) >= k THEN SubSeq(s, 1, k) ELSE s \o Zeros(k - Len(s))

(* ------------------------------ 64-bit limits ------------------------------ *)
MaxInt64D  == <<9,2,2,3,3,7,2,0,3,6,8,5,4,7,7,5,8,0,7>>        \* 2^63 - 1
Pow63D     == <<9,2,2,3,3,7,2,0,3,6,8,5,4,7,7,5,8,0,8>>        \* 2^63
MaxUint64D == <<1,8,4,4,6,7,4,4,0,7,3,7,0,9,5,5,1,6,1,5>>      \* 2^64 - 1
FitsInt64(neg, s) == IF neg THEN Leq(s, Pow63D) ELSE Leq(s, MaxInt64D)
FitsUint64(s)     == Leq(s, MaxUint64D)
=============================================================================
