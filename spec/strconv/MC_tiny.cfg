SPECIFICATION Spec
CONSTANTS
  Symbols = {43, 45, 48, 49, 53, 57, 46, 101, 69, 256}
  MaxLen = 2
  Families = TRUE
  FmtDigits = {0, 5}
  FmtMaxLen = 2
  FmtScales = {0, 1, 3}
  FmtDecsNN = {0, 2}
  NumDecs = {0, 2}
  GroupSizes = {0, 2}
  SymLens = {1, 2}
INVARIANT GenInv
CHECK_DEADLOCK FALSE
