------------------------------ MODULE Stream ------------------------------
(***************************************************************************)
(* Property-level specification (kind P) of buffer.StreamLexer -- C13.     *)
(*                                                                         *)
(* The lexer must behave as the cursor of Cursor.tla over `full`, the      *)
(* bytes the reader delivers in total, whatever the reader's schedule;     *)
(* plus the rules about Err, Free / ShiftLen, slice stability and memory.  *)
(* All offsets are absolute stream offsets.                                *)
(***************************************************************************)
EXTENDS Integers, Sequences, FiniteSets

CONSTANTS MemFactor, MemSlack     \* the memory clause: held <= MemFactor * (size + longest token + backlog) + MemSlack

VARIABLES full,      \* all bytes the reader will deliver before it ends (ghost: known to the test, not to the lexer)
          endKind,   \* "eof" | "fail": how the reader ends after `full`
          rdN,       \* bytes the reader has handed to the lexer so far
          rdEnd,     \* "no" | "eof" | "fail": the reader has returned its final error to the lexer
          absStart, absPos,
          freed,     \* total released with Free
          reported,  \* absStart at the previous ShiftLen call
          handed,    \* set of [id, hi]: slices given to the caller that are still protected (freed < hi)
          size,      \* initial buffer size asked for
          maxSpan,   \* longest selection-plus-lookahead requested so far
          maxLag,    \* largest backlog of shifted-but-unfreed bytes seen at a read
          memk       \* the caller's Free discipline, as far as the memory clause needs it: k >= 0: every shifted token is freed at the
                     \* latest when k further tokens have been shifted (0: at once); -1: no such promise (then nothing is claimed)
svars == <<full, endKind, rdN, rdEnd, absStart, absPos, freed, reported, handed, size, maxSpan, maxLag, memk>>

C == INSTANCE Cursor WITH data <- full, rerr <- "nil", start <- absStart, pos <- absPos, spare <- FALSE, restored <- FALSE
N == Len(full)
Max(a, b) == IF a > b THEN a ELSE b

TypeOK == /\ rdN \in 0..N /\ absStart \in 0..N /\ absPos >= absStart
          /\ freed \in 0..absStart /\ reported \in 0..absStart
          /\ endKind \in {"eof", "fail"} /\ rdEnd \in {"no", "eof", "fail"}

New(d, ek, sz, mk) ==
    /\ full' = d /\ endKind' = ek /\ rdN' = 0 /\ rdEnd' = "no" /\ absStart' = 0 /\ absPos' = 0
    /\ freed' = 0 /\ reported' = 0 /\ handed' = {} /\ size' = sz /\ maxSpan' = 0 /\ maxLag' = 0 /\ memk' = mk
\* constructor for a reader that has everything in memory (Bytes()): nothing is ever read
NewBytes(d) ==
    /\ full' = d /\ endKind' = "eof" /\ rdN' = Len(d) /\ rdEnd' = "eof" /\ absStart' = 0 /\ absPos' = 0
    /\ freed' = 0 /\ reported' = 0 /\ handed' = {} /\ size' = Len(d) /\ maxSpan' = 0 /\ maxLag' = 0 /\ memk' = -1

\* The slices the caller still relies on: `broken` are the ids whose bytes no longer equal what was handed out.
Stable(broken) == \A s \in handed : s.id \in broken => freed >= s.hi
Keep(h) == {s \in h : freed < s.hi}

(* one underlying Reader.Read call made by the lexer: it asked for `want` bytes and got bs with error e *)
ReaderRead(want, bs, e) ==
    /\ want >= 1                                        \* never an empty read (it could not make progress)
    /\ rdN + Len(bs) <= N /\ bs = SubSeq(full, rdN + 1, rdN + Len(bs))
    /\ rdN' = rdN + Len(bs)
    /\ rdEnd' = (IF e = "nil" THEN rdEnd ELSE e)
    /\ maxLag' = Max(maxLag, absStart - freed)
    /\ UNCHANGED <<full, endKind, memk, absStart, absPos, freed, reported, handed, size, maxSpan>>

Obs == UNCHANGED <<full, endKind, memk, rdN, rdEnd, absStart, absPos, freed, reported, handed, size, maxLag>>

Peek(k, r, broken) ==
    /\ absPos + k >= absStart
    /\ r = C!At(absPos + k)                               \* the byte of the complete input, 0 exactly at the end
    /\ (absPos + k < N => rdN > absPos + k)               \* it can only know the byte after reading it
    /\ (absPos + k >= N => rdEnd # "no")                  \* and only report the end after the reader ended
    /\ Stable(broken)
    /\ maxSpan' = Max(maxSpan, absPos + k - absStart + 1) /\ Obs
PeekRune(k, r, n, broken) ==
    /\ absPos + k >= absStart
    /\ (C!ValidAt(absPos + k) => r = C!RuneAt(absPos + k) /\ n = C!LeadLen(C!At(absPos + k)))
    /\ n \in 1..4
    /\ Stable(broken)
    /\ maxSpan' = Max(maxSpan, absPos + k - absStart + 4) /\ Obs
ErrOp(e, broken) ==
    /\ (e = "eof"  => endKind = "eof" /\ rdEnd = "eof" /\ absPos >= N)
    /\ (e = "fail" => endKind = "fail" /\ rdEnd = "fail")
    /\ (absPos < N /\ rdEnd # "fail" => e = "nil")        \* nil while unread data remain and the reader has not failed
    /\ (absPos >= N /\ rdEnd # "no" => e = rdEnd)         \* at the end, once the reader has ended, the error shows
    /\ e \in {"nil", "eof", "fail"}
    /\ Stable(broken) /\ UNCHANGED maxSpan /\ Obs
PosOp(r, broken) == r = absPos - absStart /\ Stable(broken) /\ UNCHANGED maxSpan /\ Obs

Mv == /\ maxSpan' = Max(maxSpan, absPos' - absStart)     \* a selection moved over counts as token length too
      /\ UNCHANGED <<full, endKind, memk, rdN, rdEnd, absStart, freed, reported, handed, size, maxLag>>
Move(n, broken)   == absPos + n >= absStart /\ absPos + n <= N /\ absPos' = absPos + n /\ Stable(broken) /\ Mv
Rewind(m, broken) == m >= 0 /\ absStart + m <= N /\ absPos' = absStart + m /\ Stable(broken) /\ Mv

\* a returned slice: n bytes, `same`: they equal full[absStart, absPos) at the time of the call
\* watch: the caller keeps this slice and will report it in `broken` if its bytes ever change
Lexeme(id, n, same, watch, broken) ==
    /\ n = absPos - absStart /\ same /\ absPos <= N
    /\ handed' = Keep(IF watch THEN handed \cup {[id |-> id, hi |-> absPos]} ELSE handed)
    /\ Stable(broken)
    /\ UNCHANGED <<full, endKind, memk, rdN, rdEnd, absStart, absPos, freed, reported, size, maxSpan, maxLag>>
Shift(id, n, same, watch, broken) ==
    /\ n = absPos - absStart /\ same /\ absPos <= N
    /\ rdN >= absPos                                      \* a shifted token has been read
    /\ handed' = Keep(IF watch THEN handed \cup {[id |-> id, hi |-> absPos]} ELSE handed)
    /\ absStart' = absPos
    /\ Stable(broken)
    /\ UNCHANGED <<full, endKind, memk, rdN, rdEnd, absPos, freed, reported, size, maxSpan, maxLag>>
Skip(broken) ==
    /\ absStart' = absPos /\ Stable(broken)
    /\ UNCHANGED <<full, endKind, memk, rdN, rdEnd, absPos, freed, reported, handed, size, maxSpan, maxLag>>
Free(n, broken) ==
    /\ n >= 0 /\ freed + n <= absStart                    \* caller contract: never free more than was shifted
    /\ freed' = freed + n
    /\ Stable(broken)                                     \* judged with the old `freed`: Free itself clobbers nothing
    /\ handed' = {s \in handed : freed + n < s.hi}
    /\ UNCHANGED <<full, endKind, memk, rdN, rdEnd, absStart, absPos, reported, size, maxSpan, maxLag>>
ShiftLen(r, broken) ==
    /\ r = absStart - reported /\ reported' = absStart
    /\ Stable(broken)
    /\ UNCHANGED <<full, endKind, memk, rdN, rdEnd, absStart, absPos, freed, handed, size, maxSpan, maxLag>>

\* memory held by the lexer (all buffers it keeps alive), "when every shifted token is freed": bounded by the buffer size plus
\* the longest token, never by the length of the stream.  Free releases bytes in stream order, so under discipline memk = k the
\* unfreed bytes are the last k tokens at most; each of them may pin the buffers retired while it was being read (at most one
\* per byte looked at), and no buffer is larger than about five times the longest selection-plus-lookahead (growth rule c := 2c+p
\* applies only while c < 2p).  The factor is generous; a leak grows without bound.  Without a promise (memk = -1: frees that
\* are partial, late or absent) the statement claims nothing.
MemBound == MemFactor * (size + maxSpan) * (1 + memk * (maxSpan + 1)) + MemSlack
Held(bytes, broken) == (memk >= 0 => bytes <= MemBound) /\ Stable(broken) /\ UNCHANGED maxSpan /\ Obs

Inv == TypeOK
=============================================================================
