SPECIFICATION Spec
CONSTANTS
  L = 5
  Sizes = {0}
  EndKinds = {"eof"}
  MaxPeek = 2
  MaxMove = 2
  MaxChunk = 3
  MaxZero = 1
  Depth = 6
  FixShiftLen = TRUE
  GuardSel = TRUE
  WatchLexeme = FALSE
  TrackMem = FALSE
  BytesMode = TRUE
  Ops = {"Peek", "Shift", "Lexeme", "Skip", "Move", "Rewind", "Free", "ShiftLen", "Err", "Pos", "Held"}
  Immediate = FALSE
  MemSlackI = 64
  Emit = FALSE
  EmitRefillOnly = TRUE
INVARIANT PInv
PROPERTY Refines
VIEW View
CHECK_DEADLOCK FALSE
