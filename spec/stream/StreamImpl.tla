---------------------------- MODULE StreamImpl ----------------------------
(***************************************************************************)
(* Implementation-shaped specification (kind I) of buffer.StreamLexer      *)
(* (buffer/streamlexer.go): the byte arrays, the current buffer slice, the *)
(* bufferPool with its lazy free / reuse / in-place compaction / allocate  *)
(* branches, the growth rule, and read() split at every underlying         *)
(* Reader.Read call -- which is where the reader's schedule interleaves.   *)
(*                                                                         *)
(* The byte at absolute stream offset i has value i+1 ("positions as       *)
(* contents"): any misplaced, duplicated, lost or overwritten byte shows.  *)
(*                                                                         *)
(* TLC checks I => P (Stream.tla) through the refinement mapping below,    *)
(* and the behaviours of this model are emitted as replay scenarios.       *)
(***************************************************************************)
EXTENDS Integers, Sequences, FiniteSets, TLC, Json, CSV, IOUtils

CONSTANTS L,             \* stream length
          Sizes,         \* initial buffer sizes to try
          EndKinds,      \* subset of {"eof", "fail"}
          MaxPeek, MaxMove, MaxChunk, MaxZero,
          Depth,         \* calls per behaviour
          FixShiftLen,   \* TRUE: read() rebases prevStart (the repaired code)
          GuardSel,      \* TRUE: Lexeme and Skip fill the buffer up to pos first, like Shift (the repaired code)
          WatchLexeme,   \* TRUE: slices returned by Lexeme are watched for stability too (a recorded finding)
          TrackMem,      \* TRUE: offer the Held observation (memory clause)
          BytesMode,     \* TRUE: the reader has a Bytes() method (everything in memory, nothing is read)
          Ops,           \* names of the calls offered in this model run
          Immediate,     \* TRUE: free-immediately discipline (every shifted/skipped byte is freed before the next call)
          MemSlackI,     \* additive slack of the memory bound used in this model run
          Emit, EmitRefillOnly

VARIABLES arrs,      \* Seq of [cap, cells]: every byte array ever allocated
          cur,       \* [arr, len]: z.buf (always starts at index 0 of its array)
          start, pos, prevStart, free, err,
          pool, head, tail, ppos,
          rdN, rdEnd, zeros,           \* the reader: bytes delivered, whether it has returned its final error
          pc, ctx,                     \* "idle" | "reading" and the suspended read()
          size, endKind,
          base,                        \* ghost: absolute offset of cur's index 0
          freedTot, reportedAbs, ihanded, maxSpan, maxLag,   \* ghosts of the property spec
          out, hist, sched             \* last result; calls so far with the model's results; reader answers so far
ivars == <<arrs, cur, start, pos, prevStart, free, err, pool, head, tail, ppos, rdN, rdEnd, zeros, pc, ctx, size, endKind,
           base, freedTot, reportedAbs, ihanded, maxSpan, maxLag, out, hist, sched>>

Max(a, b) == IF a > b THEN a ELSE b
Min(a, b) == IF a < b THEN a ELSE b
Zeros(n) == [i \in 1..n |-> 0]
Cap(a) == arrs[a].cap
Cell(a, i) == arrs[a].cells[i + 1]                 \* 0-based
Full == [i \in 1..L |-> i]

(* ------------------------------------------------------------------------------------------------ *)
(* refinement mapping                                                                               *)
Broken == {s \in ihanded : \E j \in 0..(s.hi - s.lo - 1) : Cell(s.arr, s.lo + j) # s.alo + j + 1}
P == INSTANCE Stream WITH full <- Full, absStart <- base + start, absPos <- base + pos, freed <- freedTot,
                          reported <- reportedAbs,
                          handed <- {[id |-> s, hi |-> s.ahi] : s \in ihanded},
                          memk <- (IF TrackMem THEN 0 ELSE -1),     \* the memory configuration frees at once
                          MemFactor <- 16, MemSlack <- MemSlackI

(* ------------------------------------------------------------------------------------------------ *)
Init == /\ size \in Sizes /\ endKind \in EndKinds
        /\ IF BytesMode
           THEN /\ arrs = <<[cap |-> L, cells |-> Full]>> /\ cur = [arr |-> 1, len |-> L]
                /\ err = "eof" /\ rdN = L /\ rdEnd = "eof"
           ELSE /\ arrs = <<[cap |-> size, cells |-> Zeros(size)]>> /\ cur = [arr |-> 1, len |-> 0]
                /\ err = "nil" /\ rdN = 0 /\ rdEnd = "no"
        /\ start = 0 /\ pos = 0 /\ prevStart = 0 /\ free = 0
        /\ pool = <<>> /\ head = 0 /\ tail = 0 /\ ppos = 0
        /\ zeros = MaxZero /\ pc = "idle" /\ ctx = [op |-> "none"]
        /\ base = 0 /\ freedTot = 0 /\ reportedAbs = 0 /\ ihanded = {} /\ maxSpan = 0 /\ maxLag = 0
        /\ out = [op |-> "New"] /\ hist = <<>> /\ sched = <<>>

(* ---- bufferPool.free(n): move the tail over blocks that are completely released ---- *)
RECURSIVE FreeLoop(_, _, _)
FreeLoop(pl, tl, pp) ==
    IF tl # 0 /\ pp >= pl[tl].len
    THEN FreeLoop([pl EXCEPT ![tl].active = FALSE], pl[tl].next, pp - pl[tl].len)
    ELSE [pool |-> pl, tail |-> tl, ppos |-> pp]
PoolFree(n) == LET r == FreeLoop(pool, tail, ppos + n) IN
               [pool |-> r.pool, tail |-> r.tail, ppos |-> r.ppos, head |-> IF r.tail = 0 THEN 0 ELSE head]

(* ---- read(): everything up to the first Reader.Read ---- *)
\* req: the index (in the coordinates of the current buffer) that has to become available; o: the suspended call
ReadBegin(req, o) ==
    LET pf == PoolFree(free)
        c0 == Cap(cur.arr)
        p  == req - start + 1
        c  == IF 2 * p > c0 THEN 2 * c0 + p ELSE c0
        d  == cur.len - start
        reuse == {i \in 1..Len(pf.pool) : ~pf.pool[i].active /\ c <= Cap(pf.pool[i].arr)}
        oldBlock == [arr |-> cur.arr, len |-> start, next |-> 0, active |-> TRUE]
        Link(pl, i) == IF pf.head # 0 THEN [pl EXCEPT ![pf.head].next = i] ELSE pl
        leftover == [j \in 1..d |-> Cell(cur.arr, start + j - 1)]
        PutLeft(cells) == [j \in 1..Len(cells) |-> IF j <= d THEN leftover[j] ELSE cells[j]]
    IN
    IF reuse # {} THEN
        LET i == CHOOSE x \in reuse : \A y \in reuse : x <= y
            na == pf.pool[i].arr IN
        /\ arrs' = [arrs EXCEPT ![na].cells = PutLeft(@)]
        /\ pool' = Link([pf.pool EXCEPT ![i] = oldBlock], i)
        /\ head' = i /\ tail' = (IF pf.tail = 0 THEN i ELSE pf.tail) /\ ppos' = pf.ppos
        /\ ctx' = [nb |-> na, d |-> d, req |-> req, o |-> o]
    ELSE IF pf.tail = 0 /\ pf.ppos >= start /\ c <= c0 THEN       \* reuse the current buffer in place
        /\ arrs' = [arrs EXCEPT ![cur.arr].cells = PutLeft(@)]
        /\ pool' = pf.pool /\ head' = pf.head /\ tail' = pf.tail /\ ppos' = pf.ppos - start
        /\ ctx' = [nb |-> cur.arr, d |-> d, req |-> req, o |-> o]
    ELSE                                                          \* allocate
        LET na == Len(arrs) + 1
            i  == Len(pf.pool) + 1 IN
        /\ arrs' = Append(arrs, [cap |-> c, cells |-> PutLeft(Zeros(c))])
        /\ pool' = Link(Append(pf.pool, oldBlock), i)
        /\ head' = i /\ tail' = (IF pf.tail = 0 THEN i ELSE pf.tail) /\ ppos' = pf.ppos
        /\ ctx' = [nb |-> na, d |-> d, req |-> req, o |-> o]

NeedMore == ctx.req - start >= ctx.d /\ err = "nil"

(* ---- one underlying Reader.Read(buf[d:cap]) ---- *)
ReaderRead ==
    /\ pc = "reading" /\ NeedMore
    /\ LET want == Cap(ctx.nb) - ctx.d
           left == L - rdN IN
       \E n \in 0..Min(Min(want, left), MaxChunk) : \E ends \in BOOLEAN :
          /\ ((n = 0 /\ ~ends) => zeros > 0)                      \* a zero-length read without error: finitely many
          /\ (ends => n = left)                                   \* the final error comes with or after the last bytes
          /\ want >= 1
          /\ arrs' = [arrs EXCEPT ![ctx.nb].cells = [j \in 1..Len(@) |-> IF j > ctx.d /\ j <= ctx.d + n THEN rdN + (j - ctx.d) ELSE @[j]]]
          /\ ctx' = [ctx EXCEPT !.d = @ + n]
          /\ rdN' = rdN + n
          /\ err' = (IF ends THEN endKind ELSE "nil")
          /\ rdEnd' = (IF ends THEN endKind ELSE rdEnd)
          /\ zeros' = (IF n = 0 /\ ~ends THEN zeros - 1 ELSE zeros)
          /\ maxLag' = Max(maxLag, base + start - freedTot)
          /\ sched' = Append(sched, [n |-> n, end |-> ends])
          /\ out' = [op |-> "Read", want |-> want, bs |-> [j \in 1..n |-> rdN + j], e |-> (IF ends THEN endKind ELSE "nil")]
    /\ UNCHANGED <<cur, start, pos, prevStart, free, pool, head, tail, ppos, pc, size, endKind, base, freedTot, reportedAbs,
                   ihanded, maxSpan, hist>>

(* ---- completing a call ---- *)
\* the cursor after read() returns: everything rebased to the new buffer
Rebased == [cur |-> [arr |-> ctx.nb, len |-> ctx.d], start |-> 0, pos |-> pos - start,
            prevStart |-> (IF FixShiftLen THEN prevStart - start ELSE prevStart), base |-> base + start]
Here == [cur |-> cur, start |-> start, pos |-> pos, prevStart |-> prevStart, base |-> base]

KeepH(h, f) == {s \in h : f < s.ahi}
Span(v) == Max(maxSpan, v)

\* finishing call o in cursor state cs = [cur, start, pos, prevStart, base]; arrs is not changed by this step
Complete(o, cs) ==
    LET cl(i) == IF i >= 0 /\ i < cs.cur.len THEN arrs[cs.cur.arr].cells[i + 1] ELSE 0 IN
    /\ cur' = cs.cur /\ pos' = cs.pos /\ prevStart' = cs.prevStart /\ base' = cs.base
    /\ CASE o.op = "Peek" ->
              /\ out' = [op |-> "Peek", k |-> o.k, r |-> cl(cs.pos + o.k)]
              /\ start' = cs.start /\ maxSpan' = Span(cs.pos + o.k - cs.start + 1) /\ UNCHANGED ihanded
         [] o.op \in {"Shift", "Lexeme"} ->
              LET s == [arr |-> cs.cur.arr, lo |-> cs.start, hi |-> cs.pos, alo |-> cs.base + cs.start,
                        ahi |-> cs.base + cs.pos, kind |-> o.op] IN
              /\ out' = [op |-> o.op, n |-> cs.pos - cs.start, s |-> s,
                         w |-> (cs.pos > cs.start /\ (o.op = "Shift" \/ WatchLexeme)),
                         same |-> (cs.pos <= cs.cur.len
                                   /\ \A j \in 0..(cs.pos - cs.start - 1) : cl(cs.start + j) = cs.base + cs.start + j + 1)]
              /\ ihanded' = KeepH(IF cs.pos > cs.start /\ (o.op = "Shift" \/ WatchLexeme) THEN ihanded \cup {s} ELSE ihanded, freedTot)
              /\ start' = (IF o.op = "Shift" THEN cs.pos ELSE cs.start)
              /\ UNCHANGED maxSpan
         [] o.op = "Skip" ->
              /\ out' = [op |-> "Skip"] /\ start' = cs.pos /\ UNCHANGED <<ihanded, maxSpan>>

NeedsRead(o) ==
    CASE o.op = "Peek"  -> ~(pos + o.k < cur.len) /\ err = "nil"
      [] o.op = "Shift" -> pos > cur.len /\ err = "nil"
      [] OTHER          -> GuardSel /\ pos > cur.len /\ err = "nil"
Req(o) == IF o.op = "Peek" THEN pos + o.k ELSE pos - 1

CanCall0 == pc = "idle" /\ Len(hist) < Depth
CanCall == CanCall0 /\ (Immediate => freedTot = base + start)
Rec == hist' = Append(hist, out')

RCalls == {c \in {[op |-> "Peek", k |-> k] : k \in 0..MaxPeek} \cup {[op |-> "Shift"], [op |-> "Lexeme"], [op |-> "Skip"]} : c.op \in Ops}

\* the contract: a selection is only taken within the stream
Legal(o) == (o.op = "Peek" => base + pos + o.k <= L)

Start == \E o \in RCalls :
    /\ CanCall /\ Legal(o) /\ NeedsRead(o)
    /\ ReadBegin(Req(o), o) /\ free' = 0 /\ pc' = "reading" /\ out' = [op |-> "ReadBegin"]
    /\ UNCHANGED <<cur, start, pos, prevStart, err, rdN, rdEnd, zeros, size, endKind, base, freedTot, reportedAbs, ihanded,
                   maxSpan, maxLag, hist, sched>>
Direct == \E o \in RCalls :
    /\ CanCall /\ Legal(o) /\ ~NeedsRead(o)
    /\ Complete(o, Here) /\ Rec
    /\ UNCHANGED <<arrs, free, err, pool, head, tail, ppos, rdN, rdEnd, zeros, pc, ctx, size, endKind, freedTot, reportedAbs,
                   maxLag, sched>>
Finish ==
    /\ pc = "reading" /\ ~NeedMore
    /\ Complete(ctx.o, Rebased) /\ Rec
    /\ pc' = "idle" /\ ctx' = [op |-> "none"]
    /\ UNCHANGED <<arrs, free, err, pool, head, tail, ppos, rdN, rdEnd, zeros, size, endKind, freedTot, reportedAbs, maxLag, sched>>

(* ---- calls that never touch the reader ---- *)
Simple(o) == /\ out' = o /\ Rec
             /\ UNCHANGED <<arrs, cur, err, pool, head, tail, ppos, rdN, rdEnd, zeros, pc, ctx, size, endKind, base, maxLag, sched>>
Move == \E n \in (-MaxMove)..MaxMove :
    /\ CanCall /\ "Move" \in Ops /\ n # 0 /\ pos + n >= start /\ base + pos + n <= L
    /\ pos' = pos + n /\ maxSpan' = Span(pos + n - start)
    /\ Simple([op |-> "Move", n |-> n]) /\ UNCHANGED <<start, prevStart, free, freedTot, reportedAbs, ihanded>>
Rewind == \E m \in 0..MaxMove :
    /\ CanCall /\ "Rewind" \in Ops /\ base + start + m <= L /\ start + m # pos
    /\ pos' = start + m /\ maxSpan' = Span(m)
    /\ Simple([op |-> "Rewind", m |-> m]) /\ UNCHANGED <<start, prevStart, free, freedTot, reportedAbs, ihanded>>
Free == \E n \in 1..L :
    /\ CanCall0 /\ "Free" \in Ops /\ freedTot + n <= base + start /\ (Immediate => freedTot + n = base + start)
    /\ free' = free + n /\ freedTot' = freedTot + n /\ ihanded' = KeepH(ihanded, freedTot + n)
    /\ Simple([op |-> "Free", n |-> n]) /\ UNCHANGED <<start, pos, prevStart, reportedAbs, maxSpan>>
ShiftLen ==
    /\ CanCall /\ "ShiftLen" \in Ops /\ prevStart' = start /\ reportedAbs' = base + start
    /\ Simple([op |-> "ShiftLen", r |-> start - prevStart]) /\ UNCHANGED <<start, pos, free, freedTot, ihanded, maxSpan>>
ErrCall ==
    /\ CanCall /\ "Err" \in Ops
    /\ Simple([op |-> "Err", e |-> IF err = "eof" /\ pos < cur.len THEN "nil" ELSE err])
    /\ UNCHANGED <<start, pos, prevStart, free, freedTot, reportedAbs, ihanded, maxSpan>>
PosCall ==
    /\ CanCall /\ "Pos" \in Ops /\ Simple([op |-> "Pos", r |-> pos - start])
    /\ UNCHANGED <<start, pos, prevStart, free, freedTot, reportedAbs, ihanded, maxSpan>>
RECURSIVE SumCaps(_)
SumCaps(i) == IF i = 0 THEN 0 ELSE Cap(pool[i].arr) + SumCaps(i - 1)
HeldBytes == Cap(cur.arr) + SumCaps(Len(pool))
Held ==
    /\ CanCall /\ "Held" \in Ops /\ TrackMem /\ Simple([op |-> "Held", bytes |-> HeldBytes])
    /\ UNCHANGED <<start, pos, prevStart, free, freedTot, reportedAbs, ihanded, maxSpan>>

Step == Start \/ ReaderRead \/ Finish \/ Direct \/ Move \/ Rewind \/ Free \/ ShiftLen \/ ErrCall \/ PosCall \/ Held

(* ---- scenarios for the conformance harness ---- *)
ExpOf(o) == CASE o.op = "Peek" -> o.r [] o.op \in {"Shift", "Lexeme"} -> o.n [] o.op \in {"ShiftLen", "Pos"} -> o.r
              [] o.op = "Err" -> (IF o.e = "nil" THEN 0 ELSE IF o.e = "eof" THEN 1 ELSE 2)
              [] o.op = "Held" -> o.bytes [] OTHER -> -1
CaseFile == IOEnv.VERIF_CASES
EmitCase ==
    (Emit /\ Len(hist') = Depth /\ Len(hist) < Depth /\ (EmitRefillOnly => Len(sched') >= 2)) =>
      CSVWrite("%1$s", <<ToJson([mode |-> (IF BytesMode THEN "bytes" ELSE "reader"), data |-> Full, endKind |-> endKind, size |-> size,
                                 sched |-> sched', ops |-> hist', exp |-> [i \in 1..Len(hist') |-> ExpOf(hist'[i])],
                                 noTrackLexeme |-> ~WatchLexeme])>>, CaseFile)
Next == Step /\ EmitCase
Spec == Init /\ [][Next]_ivars

(* ---- I => P ---- *)
o == out'
Br == {[id |-> s, hi |-> s.ahi].id : s \in Broken'}
PStutter == UNCHANGED <<rdN, rdEnd, base, start, pos, freedTot, reportedAbs, ihanded, maxSpan, maxLag>>
PStep ==
    CASE o.op = "ReadBegin" -> PStutter
      [] o.op = "Read"     -> P!ReaderRead(o.want, o.bs, o.e)
      [] o.op = "Peek"     -> P!Peek(o.k, o.r, Br)
      [] o.op = "Lexeme"   -> P!Lexeme(o.s, o.n, o.same, o.w, Br)
      [] o.op = "Shift"    -> P!Shift(o.s, o.n, o.same, o.w, Br)
      [] o.op = "Skip"     -> P!Skip(Br)
      [] o.op = "Move"     -> P!Move(o.n, Br)
      [] o.op = "Rewind"   -> P!Rewind(o.m, Br)
      [] o.op = "Free"     -> P!Free(o.n, Br)
      [] o.op = "ShiftLen" -> P!ShiftLen(o.r, Br)
      [] o.op = "Err"      -> P!ErrOp(o.e, Br)
      [] o.op = "Pos"      -> P!PosOp(o.r, Br)
      [] o.op = "Held"     -> P!Held(o.bytes, Br)
      [] OTHER             -> FALSE
Refines == [][PStep]_ivars
PInv == P!Inv

\* out / hist / sched are output-only: they never influence behaviour.  (Depth bounds by Len(hist).)
View == <<arrs, cur, start, pos, prevStart, free, err, pool, head, tail, ppos, rdN, rdEnd, zeros, pc, ctx, size, endKind,
          base, freedTot, reportedAbs, ihanded, maxSpan, maxLag, Len(hist)>>
\* for configurations whose call alphabet only makes progress (memory clause): the state graph is finite without a depth bound
ViewNoDepth == <<arrs, cur, start, pos, prevStart, free, err, pool, head, tail, ppos, rdN, rdEnd, zeros, pc, ctx, size, endKind,
                 base, freedTot, reportedAbs, ihanded, maxSpan, maxLag>>
=============================================================================
