SPECIFICATION TSpec
CONSTANTS
  MemFactor = 16
  MemSlack = 64
INVARIANT TInv
POSTCONDITION Accepted
CHECK_DEADLOCK FALSE
VIEW TView
