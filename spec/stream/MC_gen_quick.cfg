SPECIFICATION Spec
CONSTANTS
  L = 4
  Sizes = {0, 2}
  EndKinds = {"eof", "fail"}
  MaxPeek = 2
  MaxMove = 2
  MaxChunk = 3
  MaxZero = 1
  Depth = 6
  FixShiftLen = TRUE
  GuardSel = TRUE
  WatchLexeme = FALSE
  TrackMem = FALSE
  BytesMode = FALSE
  Ops = {"Peek", "Shift", "Lexeme", "Skip", "Move", "Rewind", "Free", "ShiftLen", "Err", "Pos", "Held"}
  Immediate = FALSE
  MemSlackI = 64
  Emit = TRUE
  EmitRefillOnly = TRUE
INVARIANT PInv
PROPERTY Refines
VIEW View
CHECK_DEADLOCK FALSE
