SPECIFICATION Spec
CONSTANTS
  L = 5
  Sizes = {0, 2, 4}
  EndKinds = {"eof", "fail"}
  MaxPeek = 2
  MaxMove = 2
  MaxChunk = 3
  MaxZero = 1
  Depth = 6
  FixShiftLen = TRUE
  GuardSel = TRUE
  WatchLexeme = FALSE
  TrackMem = FALSE
  BytesMode = FALSE
  Ops = {"Peek", "Shift", "Lexeme", "Skip", "Move", "Rewind", "Free", "ShiftLen", "Err", "Pos", "Held"}
  Immediate = FALSE
  MemSlackI = 64
  Emit = FALSE
  EmitRefillOnly = TRUE
INVARIANT PInv
PROPERTY Refines
VIEW View
CHECK_DEADLOCK FALSE
