SPECIFICATION Spec
CONSTANTS
  L = 6
  Sizes = {2}
  EndKinds = {"eof"}
  MaxPeek = 1
  MaxMove = 1
  MaxChunk = 2
  MaxZero = 0
  Depth = 100000
  FixShiftLen = TRUE
  GuardSel = TRUE
  WatchLexeme = FALSE
  TrackMem = TRUE
  BytesMode = FALSE
  Ops = {"Peek", "Shift", "Move", "Free", "Held"}
  Immediate = TRUE
  MemSlackI = 0
  Emit = FALSE
  EmitRefillOnly = TRUE
INVARIANT PInv
PROPERTY Refines
VIEW ViewNoDepth
CHECK_DEADLOCK FALSE
