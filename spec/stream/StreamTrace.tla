---------------------------- MODULE StreamTrace ----------------------------
(* Trace specification (kind T) for C13: events recorded from the real buffer.StreamLexer, including every  *)
(* underlying Reader.Read call in program order, must be steps of Stream.tla.                              *)
EXTENDS Stream, TraceIO

VARIABLES l, bad
tvars == <<svars, l, bad>>

e == Trace[l]
ToSet(s) == {s[k] : k \in DOMAIN s}
Br == ToSet(e.broken)

TInit == /\ l = 1 /\ bad = FALSE
         /\ full = <<>> /\ endKind = "eof" /\ rdN = 0 /\ rdEnd = "no" /\ absStart = 0 /\ absPos = 0
         /\ freed = 0 /\ reported = 0 /\ handed = {} /\ size = 0 /\ maxSpan = 0 /\ maxLag = 0 /\ memk = -1

IsStart == e.ev = "New"

Step ==
    CASE e.ev = "Read"     -> ReaderRead(e.want, e.bs, e.e)
      [] e.ev = "Peek"     -> Peek(e.k, e.r, Br)
      [] e.ev = "PeekRune" -> PeekRune(e.k, e.r, e.n, Br)
      [] e.ev = "Err"      -> ErrOp(e.e, Br)
      [] e.ev = "Pos"      -> PosOp(e.r, Br)
      [] e.ev = "Move"     -> Move(e.n, Br)
      [] e.ev = "Rewind"   -> Rewind(e.m, Br)
      [] e.ev = "Lexeme"   -> Lexeme(e.id, e.n, e.same, e.watch, Br)
      [] e.ev = "Shift"    -> Shift(e.id, e.n, e.same, e.watch, Br)
      [] e.ev = "Skip"     -> Skip(Br)
      [] e.ev = "Free"     -> Free(e.n, Br)
      [] e.ev = "ShiftLen" -> ShiftLen(e.r, Br)
      [] e.ev = "Held"     -> Held(e.bytes, Br)
      [] OTHER             -> FALSE

Returned == e.out = "ret"

TStart == /\ l <= NEvents /\ IsStart
          /\ IF e.mode = "bytes" THEN NewBytes(e.data) ELSE New(e.data, e.endKind, e.size, IF "memk" \in DOMAIN e THEN e.memk ELSE -1)
          /\ bad' = FALSE /\ l' = l + 1
TStep  == /\ l <= NEvents /\ ~IsStart /\ ~bad
          /\ Returned /\ Step
          /\ l' = l + 1 /\ UNCHANGED bad
TFail  == /\ l <= NEvents /\ ~IsStart /\ ~bad
          /\ ~(Returned /\ ENABLED Step)
          /\ RecordFail(e, l)
          /\ bad' = TRUE /\ l' = l + 1 /\ UNCHANGED svars
TSkip  == /\ l <= NEvents /\ ~IsStart /\ bad
          /\ l' = l + 1 /\ UNCHANGED <<svars, bad>>

TNext == TStart \/ TStep \/ TFail \/ TSkip
TSpec == TInit /\ [][TNext]_tvars
TInv == bad \/ Inv
Accepted == TLCGet("stats").diameter = NEvents + 1
\* The trace specification is deterministic: there is exactly one state per position l, so states are told apart by l alone.
\* (Fingerprinting the whole state would cost time proportional to the length of `full` at every event of a long stream.)
TView == <<l, bad>>
=============================================================================
