---------------------------- MODULE StreamProof ----------------------------
(***************************************************************************)
(* Unbounded-length safety of the property-level stream cursor (growth     *)
(* item 7 of DESIGN.md).  TLC explores Stream.tla / StreamImpl.tla for     *)
(* inputs of at most 5 bytes; here the TLA+ proof system shows for streams *)
(* of ANY length, any reader schedule and any Free discipline that every   *)
(* action of Stream.tla preserves the ordering                             *)
(*   freed <= absStart <= absPos <= N,  reported <= absStart,  rdN <= N,   *)
(* i.e. the caller can never be told of freed or reported bytes beyond     *)
(* what was shifted, and the lexer never claims to have read more than the *)
(* reader delivered -- whatever results the implementation returns within  *)
(* what each action allows.                                                *)
(* Checked with: tlapm --threads 8 StreamProof.tla                         *)
(***************************************************************************)
EXTENDS Stream, TLAPS

Bytes256 == 0..255
Ids == Nat

Next ==
    \/ \E d \in Seq(Bytes256), ek \in {"eof", "fail"}, sz \in Nat, mk \in Int : New(d, ek, sz, mk)
    \/ \E d \in Seq(Bytes256) : NewBytes(d)
    \/ \E want \in Nat, bs \in Seq(Bytes256), e \in {"nil", "eof", "fail"} : ReaderRead(want, bs, e)
    \/ \E k \in Int, r \in Int, broken \in SUBSET Ids : Peek(k, r, broken)
    \/ \E k \in Int, r \in Int, n \in Int, broken \in SUBSET Ids : PeekRune(k, r, n, broken)
    \/ \E e \in {"nil", "eof", "fail"}, broken \in SUBSET Ids : ErrOp(e, broken)
    \/ \E r \in Int, broken \in SUBSET Ids : PosOp(r, broken) \/ ShiftLen(r, broken)
    \/ \E n \in Int, broken \in SUBSET Ids : Move(n, broken) \/ Rewind(n, broken) \/ Free(n, broken)
    \/ \E id \in Ids, n \in Int, same \in BOOLEAN, watch \in BOOLEAN, broken \in SUBSET Ids :
          Lexeme(id, n, same, watch, broken) \/ Shift(id, n, same, watch, broken)
    \/ \E broken \in SUBSET Ids : Skip(broken)
    \/ \E bytes \in Nat, broken \in SUBSET Ids : Held(bytes, broken)

IInv == /\ full \in Seq(Bytes256)
        /\ rdN \in Nat /\ rdN <= Len(full)
        /\ absStart \in Nat /\ absStart <= Len(full)
        /\ absPos \in Int /\ absPos >= absStart /\ absPos <= Len(full)
        /\ freed \in Nat /\ freed <= absStart
        /\ reported \in Nat /\ reported <= absStart
        /\ endKind \in {"eof", "fail"} /\ rdEnd \in {"no", "eof", "fail"}

THEOREM StepOK == IInv /\ [Next]_svars => IInv'
  <1> SUFFICES ASSUME IInv, [Next]_svars PROVE IInv' OBVIOUS
  <1> USE DEF IInv, N
  <1>0. Len(full) \in Nat OBVIOUS
  <1>1. CASE UNCHANGED svars BY <1>1 DEF svars
  <1>2. CASE \E d \in Seq(Bytes256), ek \in {"eof", "fail"}, sz \in Nat, mk \in Int : New(d, ek, sz, mk)
     <2>1. PICK d \in Seq(Bytes256), ek \in {"eof", "fail"}, sz \in Nat, mk \in Int : New(d, ek, sz, mk) BY <1>2
     <2>2. Len(d) \in Nat OBVIOUS
     <2> QED BY <2>1, <2>2 DEF New
  <1>3. CASE \E d \in Seq(Bytes256) : NewBytes(d)
     <2>1. PICK d \in Seq(Bytes256) : NewBytes(d) BY <1>3
     <2>2. Len(d) \in Nat OBVIOUS
     <2> QED BY <2>1, <2>2 DEF NewBytes
  <1>4. CASE \E want \in Nat, bs \in Seq(Bytes256), e \in {"nil", "eof", "fail"} : ReaderRead(want, bs, e)
     <2>1. PICK want \in Nat, bs \in Seq(Bytes256), e \in {"nil", "eof", "fail"} : ReaderRead(want, bs, e) BY <1>4
     <2>2. Len(bs) \in Nat OBVIOUS
     <2> QED BY <2>1, <2>2, <1>0 DEF ReaderRead
  <1>5. CASE \E k \in Int, r \in Int, broken \in SUBSET Ids : Peek(k, r, broken) BY <1>5 DEF Peek, Obs
  <1>6. CASE \E k \in Int, r \in Int, n \in Int, broken \in SUBSET Ids : PeekRune(k, r, n, broken) BY <1>6 DEF PeekRune, Obs
  <1>7. CASE \E e \in {"nil", "eof", "fail"}, broken \in SUBSET Ids : ErrOp(e, broken) BY <1>7 DEF ErrOp, Obs
  <1>8. CASE \E r \in Int, broken \in SUBSET Ids : PosOp(r, broken) \/ ShiftLen(r, broken) BY <1>8 DEF PosOp, ShiftLen, Obs
  <1>9. CASE \E n \in Int, broken \in SUBSET Ids : Move(n, broken) \/ Rewind(n, broken) \/ Free(n, broken)
        BY <1>9, <1>0 DEF Move, Rewind, Free, Mv
  <1>10. CASE \E id \in Ids, n \in Int, same \in BOOLEAN, watch \in BOOLEAN, broken \in SUBSET Ids :
          Lexeme(id, n, same, watch, broken) \/ Shift(id, n, same, watch, broken)
        BY <1>10, <1>0 DEF Lexeme, Shift
  <1>11. CASE \E broken \in SUBSET Ids : Skip(broken)
        \* Skip sets absStart to absPos, which Move and Rewind keep <= N
        BY <1>11, <1>0 DEF Skip
  <1>12. CASE \E bytes \in Nat, broken \in SUBSET Ids : Held(bytes, broken) BY <1>12 DEF Held, Obs
  <1> QED BY <1>1, <1>2, <1>3, <1>4, <1>5, <1>6, <1>7, <1>8, <1>9, <1>10, <1>11, <1>12 DEF Next

THEOREM IInvImpliesTypeOK == IInv => TypeOK
  BY DEF IInv, TypeOK, N
=============================================================================
