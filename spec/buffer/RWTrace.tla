---------------------------- MODULE RWTrace ----------------------------
(* Trace specification for buffer.Reader / buffer.Writer against RW.tla. *)
EXTENDS RW, TraceIO
VARIABLES l, bad
tvars == <<rwvars, l, bad>>
e == Trace[l]
TInit == l = 1 /\ bad = FALSE /\ kind = "reader" /\ data = <<>> /\ pos = 0 /\ cap = 0 /\ werr = FALSE
IsStart == e.ev = "New"
Returned == e.out = "ret"
Step == CASE e.ev = "Read"   -> Read(e.k, e.bs, e.e)
          [] e.ev = "ReadAt" -> ReadAt(e.k, e.off, e.bs, e.e)
          [] e.ev = "ResetR" -> ResetR
          [] e.ev = "Bytes"  -> BytesOp(e.bs, e.cap)
          [] e.ev = "Len"    -> LenOp(e.n)
          [] e.ev = "Write"  -> Write(e.p, e.n, e.e, e.cap)
          [] e.ev = "ResetW" -> ResetW
          [] e.ev = "Close"  -> CloseW(e.e)
          [] OTHER -> FALSE
TStart == /\ l <= NEvents /\ IsStart
          /\ IF e.kind = "reader" THEN NewReader(e.data) ELSE NewWriter(e.data, e.cap, e.kind = "static")
          /\ bad' = FALSE /\ l' = l + 1
TStep  == l <= NEvents /\ ~IsStart /\ ~bad /\ Returned /\ Step /\ l' = l + 1 /\ UNCHANGED bad
TFail  == /\ l <= NEvents /\ ~IsStart /\ ~bad /\ ~(Returned /\ ENABLED Step)
          /\ RecordFail(e, l) /\ bad' = TRUE /\ l' = l + 1 /\ UNCHANGED rwvars
TSkip  == l <= NEvents /\ ~IsStart /\ bad /\ l' = l + 1 /\ UNCHANGED <<rwvars, bad>>
TNext == TStart \/ TStep \/ TFail \/ TSkip
TSpec == TInit /\ [][TNext]_tvars
Accepted == TLCGet("stats").diameter = NEvents + 1
=============================================================================
