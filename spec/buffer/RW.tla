-------------------------------- MODULE RW --------------------------------
(***************************************************************************)
(* Specification of buffer.Reader and buffer.Writer (buffer/reader.go,     *)
(* buffer/writer.go) -- growth of the specification beyond the listed      *)
(* properties (they are the readers/writers the cursors of C12 are fed     *)
(* from and the parsers' errors are built on).  Written from the doc       *)
(* comments and the io.Reader / io.Writer contracts.                       *)
(*   Reader: an io.Reader over a byte slice; Read returns io.EOF only once *)
(*   everything has been read; Reset rewinds; Bytes/Len give the whole     *)
(*   slice.  ReadAt's error on a short read is left open here (io.ReaderAt *)
(*   demands one; the implementation returns none; no listed property      *)
(*   covers it -- see DESIGN.md section 7).                                *)
(*   Writer: Write appends all bytes (n = len(p), nil); a static writer    *)
(*   that would overflow writes nothing and reports io.EOF, also from      *)
(*   Close(); Reset empties; the capacity never shrinks and grows by the   *)
(*   rule 2*cap+n.                                                         *)
(***************************************************************************)
EXTENDS Integers, Sequences

VARIABLES kind,     \* "reader" | "writer" | "static"
          data,     \* reader: the slice; writer: what has been written since the last Reset
          pos,      \* reader: read position
          cap,      \* writer: capacity of the underlying array
          werr      \* writer: an overflowing Write happened
rwvars == <<kind, data, pos, cap, werr>>

Min(a, b) == IF a < b THEN a ELSE b
NewReader(d)     == kind' = "reader" /\ data' = d /\ pos' = 0 /\ cap' = Len(d) /\ werr' = FALSE
NewWriter(d, c, st) == kind' = (IF st THEN "static" ELSE "writer") /\ data' = d /\ pos' = 0 /\ cap' = c /\ werr' = FALSE

\* Read(p) with len(p) = k returned n bytes bs and error e
Read(k, bs, e) ==
    /\ kind = "reader"
    /\ IF pos >= Len(data) THEN bs = <<>> /\ e = "eof"
       ELSE bs = SubSeq(data, pos + 1, pos + Min(k, Len(data) - pos)) /\ e = "nil"
    /\ pos' = pos + Len(bs) /\ UNCHANGED <<kind, data, cap, werr>>
ReadAt(k, off, bs, e) ==
    /\ kind = "reader" /\ off >= 0
    /\ IF off >= Len(data) THEN bs = <<>> /\ e = "eof"
       ELSE bs = SubSeq(data, off + 1, off + Min(k, Len(data) - off)) /\ (Len(bs) = k => e = "nil") /\ e \in {"nil", "eof"}
    /\ UNCHANGED rwvars
ResetR == kind = "reader" /\ pos' = 0 /\ UNCHANGED <<kind, data, cap, werr>>
BytesOp(bs, c) == bs = data /\ (kind # "reader" => c = cap) /\ UNCHANGED rwvars
LenOp(n) == n = Len(data) /\ UNCHANGED rwvars

\* Write(p) returned n, e; c = cap(Bytes()) afterwards
Write(p, n, e, c) ==
    /\ kind \in {"writer", "static"}
    /\ IF Len(data) + Len(p) <= cap
       THEN n = Len(p) /\ e = "nil" /\ data' = data \o p /\ cap' = cap /\ werr' = werr
       ELSE IF kind = "static"
            THEN n = 0 /\ e = "eof" /\ data' = data /\ cap' = cap /\ werr' = TRUE
            ELSE n = Len(p) /\ e = "nil" /\ data' = data \o p /\ cap' = 2 * cap + Len(p) /\ werr' = werr
    /\ c = cap'
    /\ UNCHANGED <<kind, pos>>
ResetW == kind \in {"writer", "static"} /\ data' = <<>> /\ UNCHANGED <<kind, pos, cap, werr>>
CloseW(e) == kind \in {"writer", "static"} /\ e = (IF werr THEN "eof" ELSE "nil") /\ UNCHANGED rwvars
=============================================================================
