---------------------------- MODULE CursorProof ----------------------------
(***************************************************************************)
(* Unbounded-length safety of the property-level cursor (growth item 7 of  *)
(* DESIGN.md): TLC checks Cursor.tla only for inputs up to 4 bytes; here   *)
(* the TLA+ proof system shows, for data of ANY length, that every action  *)
(* of Cursor.tla preserves TypeOK -- in particular that no mover, whatever *)
(* result the implementation reports within what the action allows, takes  *)
(* the cursor past the end of the data or the selection start past the     *)
(* cursor ("MoveRune never moves past the end", "Rewind/Move stay inside"). *)
(* Checked with: tlapm --threads 8 CursorProof.tla                         *)
(***************************************************************************)
EXTENDS Cursor, TLAPS

Bytes256 == 0..255
Init == \E d \in Seq(Bytes256), failed \in BOOLEAN, sp \in BOOLEAN :
           /\ data = (IF failed THEN <<>> ELSE d)
           /\ rerr = (IF failed THEN "fail" ELSE "nil")
           /\ start = 0 /\ pos = 0 /\ spare = sp /\ restored = FALSE

Next == \/ \E d \in Seq(Bytes256), failed \in BOOLEAN, sp \in BOOLEAN : New(d, failed, sp)
        \/ \E i \in Int, r \in Int : Peek(i, r)
        \/ \E i \in Int, e \in {"nil", "eof", "fail"} : PeekErr(i, e)
        \/ \E e \in {"nil", "eof", "fail"} : Err(e)
        \/ \E i \in Int, r \in Int, n \in Int : PeekRune(i, r, n)
        \/ \E r \in Int : PosOp(r) \/ Offset(r) \/ LenOp(r)
        \/ \E n \in Int, lo \in Int, capEq \in BOOLEAN, same \in BOOLEAN :
              Lexeme(n, lo, capEq, same) \/ Bytes(n, lo, capEq, same) \/ Shift(n, lo, capEq, same)
        \/ \E n \in Int : Move(n) \/ MoveRune(n) \/ Rewind(n)
        \/ Skip \/ Reset \/ Restore
        \/ \E diff \in SUBSET Int : Mem(diff)

Spec == Init /\ [][Next]_cvars

\* the part of TypeOK that matters plus what makes it inductive
IInv == /\ data \in Seq(Bytes256)
        /\ start \in Nat /\ pos \in Nat /\ start <= pos /\ pos <= Len(data)
        /\ rerr \in {"nil", "fail"} /\ (rerr = "fail" => Len(data) = 0)
        /\ spare \in BOOLEAN /\ restored \in BOOLEAN

LEMMA LenEmpty == Len(<< >>) = 0 /\ << >> \in Seq(Bytes256)
  OBVIOUS

THEOREM InitOK == Init => IInv
  <1> SUFFICES ASSUME Init PROVE IInv OBVIOUS
  <1>1. PICK d \in Seq(Bytes256), failed \in BOOLEAN, sp \in BOOLEAN :
           /\ data = (IF failed THEN <<>> ELSE d)
           /\ rerr = (IF failed THEN "fail" ELSE "nil")
           /\ start = 0 /\ pos = 0 /\ spare = sp /\ restored = FALSE
        BY DEF Init
  <1>2. data \in Seq(Bytes256) BY <1>1, LenEmpty
  <1>3. Len(data) \in Nat BY <1>2
  <1>4. rerr = "fail" => Len(data) = 0 BY <1>1, LenEmpty
  <1> QED BY <1>1, <1>2, <1>3, <1>4 DEF IInv

THEOREM StepOK == IInv /\ [Next]_cvars => IInv'
  <1> SUFFICES ASSUME IInv, [Next]_cvars PROVE IInv' OBVIOUS
  <1> USE DEF IInv, N
  <1>0. Len(data) \in Nat OBVIOUS
  <1>1. CASE UNCHANGED cvars BY <1>1 DEF cvars
  <1>2. CASE \E d \in Seq(Bytes256), failed \in BOOLEAN, sp \in BOOLEAN : New(d, failed, sp)
     <2>1. PICK d \in Seq(Bytes256), failed \in BOOLEAN, sp \in BOOLEAN : New(d, failed, sp) BY <1>2
     <2>2. data' \in Seq(Bytes256) BY <2>1, LenEmpty DEF New
     <2>3. Len(data') \in Nat BY <2>2
     <2>4. rerr' = "fail" => Len(data') = 0 BY <2>1, LenEmpty DEF New
     <2> QED BY <2>1, <2>2, <2>3, <2>4 DEF New
  <1>3. CASE \E i \in Int, r \in Int : Peek(i, r) BY <1>3 DEF Peek, cvars
  <1>4. CASE \E i \in Int, e \in {"nil", "eof", "fail"} : PeekErr(i, e) BY <1>4 DEF PeekErr, cvars
  <1>5. CASE \E e \in {"nil", "eof", "fail"} : Err(e) BY <1>5 DEF Err, cvars
  <1>6. CASE \E i \in Int, r \in Int, n \in Int : PeekRune(i, r, n) BY <1>6 DEF PeekRune, cvars
  <1>7. CASE \E r \in Int : PosOp(r) \/ Offset(r) \/ LenOp(r) BY <1>7 DEF PosOp, Offset, LenOp, cvars
  <1>8. CASE \E n \in Int, lo \in Int, capEq \in BOOLEAN, same \in BOOLEAN :
              Lexeme(n, lo, capEq, same) \/ Bytes(n, lo, capEq, same) \/ Shift(n, lo, capEq, same)
        BY <1>8 DEF Lexeme, Bytes, Shift, cvars
  <1>9. CASE \E n \in Int : Move(n) BY <1>9, <1>0 DEF Move
  <1>10. CASE \E n \in Int : MoveRune(n)
     <2>1. PICK n \in Int : MoveRune(n) BY <1>10
     <2>2. n \in 1..4 /\ n <= (IF Len(data) - pos > 1 THEN Len(data) - pos ELSE 1) /\ pos < Len(data) /\ pos' = pos + n
           BY <2>1 DEF MoveRune, RuneLenOK
     <2>3. pos + n <= Len(data) BY <2>2, <1>0
     <2> QED BY <2>1, <2>2, <2>3, <1>0 DEF MoveRune
  <1>11. CASE \E n \in Int : Rewind(n) BY <1>11, <1>0 DEF Rewind
  <1>12. CASE Skip BY <1>12 DEF Skip
  <1>13. CASE Reset BY <1>13, <1>0 DEF Reset
  <1>14. CASE Restore BY <1>14 DEF Restore
  <1>15. CASE \E diff \in SUBSET Int : Mem(diff) BY <1>15 DEF Mem, cvars
  <1> QED BY <1>1, <1>2, <1>3, <1>4, <1>5, <1>6, <1>7, <1>8, <1>9, <1>10, <1>11, <1>12, <1>13, <1>14, <1>15 DEF Next

THEOREM IInvImpliesTypeOK == IInv => TypeOK
  BY DEF IInv, TypeOK, N

THEOREM Safety == Spec => []TypeOK
  <1>1. Spec => []IInv BY InitOK, StepOK, PTL DEF Spec
  <1> QED BY <1>1, IInvImpliesTypeOK, PTL
=============================================================================
