---------------------------- MODULE CursorTrace ----------------------------
(***************************************************************************)
(* Trace specification (kind T) for C12: every event recorded from the     *)
(* real parse.Input / buffer.Lexer must be a step of Cursor.tla.           *)
(***************************************************************************)
EXTENDS Cursor, TraceIO

VARIABLES l, bad
tvars == <<cvars, l, bad>>

e == Trace[l]
ToSet(s) == {s[k] : k \in DOMAIN s}

TInit == /\ l = 1 /\ bad = FALSE
         /\ data = <<>> /\ rerr = "nil" /\ start = 0 /\ pos = 0 /\ spare = FALSE /\ restored = FALSE

IsStart == e.ev = "New"

\* the property-level action that has to explain the current event
Step ==
    CASE e.ev = "Peek"     -> Peek(e.k, e.r)
      [] e.ev = "PeekErr"  -> PeekErr(e.k, e.e)
      [] e.ev = "Err"      -> Err(e.e)
      [] e.ev = "PeekRune" -> PeekRune(e.k, e.r, e.n)
      [] e.ev = "Pos"      -> PosOp(e.r)
      [] e.ev = "Offset"   -> Offset(e.r)
      [] e.ev = "Len"      -> LenOp(e.r)
      [] e.ev = "Lexeme"   -> Lexeme(e.n, e.lo, e.capEq, e.same)
      [] e.ev = "Bytes"    -> Bytes(e.n, e.lo, e.capEq, e.same)
      [] e.ev = "Move"     -> Move(e.n)
      [] e.ev = "MoveRune" -> MoveRune(e.n)
      [] e.ev = "Rewind"   -> Rewind(e.m)
      [] e.ev = "Skip"     -> Skip
      [] e.ev = "Shift"    -> Shift(e.n, e.lo, e.capEq, e.same)
      [] e.ev = "Reset"    -> Reset
      [] e.ev = "Restore"  -> Restore
      [] e.ev = "Scribble" -> restored /\ UNCHANGED cvars     \* the caller writes to its own memory after Restore (harness-only event)
      [] e.ev = "Mem"      -> Mem(ToSet(e.diff))
      [] OTHER             -> FALSE

\* a call that did not return normally (panic) is explained by no action at all
Returned == IF Has(e, "out") THEN e.out = "ret" ELSE TRUE

TStart == /\ l <= NEvents /\ IsStart
          /\ New(e.data, e.failed, e.spare)
          /\ bad' = FALSE /\ l' = l + 1
TStep  == /\ l <= NEvents /\ ~IsStart /\ ~bad
          /\ Returned /\ Step
          /\ l' = l + 1 /\ UNCHANGED bad
TFail  == /\ l <= NEvents /\ ~IsStart /\ ~bad
          /\ ~(Returned /\ ENABLED Step)
          /\ RecordFail(e, l)
          /\ bad' = TRUE /\ l' = l + 1 /\ UNCHANGED cvars
TSkip  == /\ l <= NEvents /\ ~IsStart /\ bad
          /\ l' = l + 1 /\ UNCHANGED <<cvars, bad>>

TNext == TStart \/ TStep \/ TFail \/ TSkip
TSpec == TInit /\ [][TNext]_tvars

TInv == bad \/ Inv
Done == Consumed(l)
Accepted == TLCGet("stats").diameter = NEvents + 1
=============================================================================
