SPECIFICATION Spec
CONSTANTS
  Alphabet = {0, 97, 195, 226, 240, 169, 255}
  MaxLen = 4
  MaxArg = 4
  GuardUsesArg = TRUE
  Emit = TRUE
INVARIANT PInv
PROPERTY Refines
VIEW View
CHECK_DEADLOCK FALSE
