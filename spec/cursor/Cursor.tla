------------------------------ MODULE Cursor ------------------------------
(***************************************************************************)
(* Property-level specification (kind P) of the documented cursor that     *)
(* parse.Input and buffer.Lexer implement -- property C12.                 *)
(*                                                                         *)
(* Written from the property statement and the doc comments, not from the  *)
(* Go control flow.  Every action takes the observed result as a parameter *)
(* and is enabled exactly when that result is one the property allows.     *)
(* The post-state is a function of (pre-state, arguments, result).         *)
(*                                                                         *)
(* Bytes are integers 0..255.  Offsets are 0-based like in Go.             *)
(***************************************************************************)
EXTENDS Integers, Sequences, FiniteSets

VARIABLES data,     \* the bytes the cursor ranges over: what the caller / reader delivered (<<>> if it failed)
          rerr,     \* "nil" | "fail" : the reader handed to the constructor failed (then data = <<>>)
          start,    \* start of the current selection
          pos,      \* end of the current selection = the cursor
          spare,    \* TRUE iff the caller's slice had capacity for one more byte (terminator borrowed in place)
          restored  \* Restore() was called
cvars == <<data, rerr, start, pos, spare, restored>>

N == Len(data)
At(j) == IF j >= 0 /\ j < N THEN data[j+1] ELSE 0          \* the terminator (and nothing else) reads as 0

TypeOK == /\ start \in 0..N /\ pos \in 0..N /\ start <= pos
          /\ rerr \in {"nil", "fail"} /\ (rerr = "fail" => N = 0)
          /\ spare \in BOOLEAN /\ restored \in BOOLEAN

(* ---------------------------- UTF-8, as unicode/utf8 defines it ---------------------------- *)
IsCont(b) == b >= 128 /\ b <= 191
LeadLen(b) == IF b < 192 THEN 1 ELSE IF b < 224 THEN 2 ELSE IF b < 240 THEN 3 ELSE 4
\* a complete, valid (shortest-form, non-surrogate, <= U+10FFFF) sequence starts at offset j
ValidAt(j) ==
    LET b0 == At(j)  b1 == At(j+1)  b2 == At(j+2)  b3 == At(j+3) IN
    \/ (b0 < 128 /\ j < N)
    \/ (b0 >= 194 /\ b0 <= 223 /\ j+2 <= N /\ IsCont(b1))
    \/ (b0 >= 224 /\ b0 <= 239 /\ j+3 <= N /\ IsCont(b1) /\ IsCont(b2)
          /\ (b0 = 224 => b1 >= 160) /\ (b0 = 237 => b1 <= 159))
    \/ (b0 >= 240 /\ b0 <= 244 /\ j+4 <= N /\ IsCont(b1) /\ IsCont(b2) /\ IsCont(b3)
          /\ (b0 = 240 => b1 >= 144) /\ (b0 = 244 => b1 <= 143))
RuneAt(j) ==
    LET b0 == At(j)  b1 == At(j+1)  b2 == At(j+2)  b3 == At(j+3) IN
    CASE b0 < 128 -> b0
      [] b0 < 224 -> (b0 - 192) * 64 + (b1 - 128)
      [] b0 < 240 -> (b0 - 224) * 4096 + (b1 - 128) * 64 + (b2 - 128)
      [] OTHER    -> (b0 - 240) * 262144 + (b1 - 128) * 4096 + (b2 - 128) * 64 + (b3 - 128)
\* The reported length n for the rune at offset j.  For valid UTF-8 it is the length of the sequence.  For
\* anything else the statement only demands that it never reaches past the end (and that it is a length).
RuneLenOK(j, n) ==
    /\ n \in 1..4
    /\ n <= (IF N - j > 1 THEN N - j ELSE 1)
    /\ (ValidAt(j) => n = LeadLen(At(j)))
RuneOK(j, r, n) == RuneLenOK(j, n) /\ (ValidAt(j) => r = RuneAt(j))

(* ---------------------------- constructor ---------------------------- *)
\* d: bytes delivered; failed: the reader returned a non-EOF error; sp: caller's slice had spare capacity
New(d, failed, sp) ==
    /\ data' = (IF failed THEN <<>> ELSE d)
    /\ rerr' = (IF failed THEN "fail" ELSE "nil")
    /\ start' = 0 /\ pos' = 0 /\ spare' = sp /\ restored' = FALSE

ErrAt(i) == IF rerr = "fail" THEN "fail" ELSE IF pos + i >= N THEN "eof" ELSE "nil"
Usable == ~restored        \* after Restore the terminator is gone; only memory observations remain meaningful

(* ---------------------------- observers ---------------------------- *)
Peek(i, r)    == Usable /\ pos + i >= 0 /\ pos + i <= N /\ r = At(pos + i)  /\ UNCHANGED cvars
PeekErr(i, e) == Usable /\ pos + i >= 0 /\ pos + i <= N /\ e = ErrAt(i)     /\ UNCHANGED cvars
Err(e)        == Usable /\ e = ErrAt(0)                                     /\ UNCHANGED cvars
PeekRune(i, r, n) == Usable /\ pos + i >= 0 /\ pos + i <= N /\ RuneOK(pos + i, r, n) /\ UNCHANGED cvars
PosOp(r)      == Usable /\ r = pos - start                                  /\ UNCHANGED cvars
Offset(r)     == Usable /\ r = pos                                          /\ UNCHANGED cvars
LenOp(r)      == Usable /\ r = N                                            /\ UNCHANGED cvars
\* a returned slice: length n, offset lo inside the cursor's bytes (-1 when the slice is empty and so has no
\* address), capEq: cap = len (appending to it cannot overwrite input), same: contents equal data[lo, lo+n)
SliceOK(n, lo, capEq, same, a, b) == n = b - a /\ (n > 0 => lo = a) /\ capEq /\ same
Lexeme(n, lo, capEq, same) == Usable /\ SliceOK(n, lo, capEq, same, start, pos) /\ UNCHANGED cvars
Bytes(n, lo, capEq, same)  == Usable /\ SliceOK(n, lo, capEq, same, 0, N)       /\ UNCHANGED cvars

(* ---------------------------- movers ---------------------------- *)
Move(n)     == Usable /\ start <= pos + n /\ pos + n <= N /\ pos' = pos + n
               /\ UNCHANGED <<data, rerr, start, spare, restored>>
MoveRune(n) == Usable /\ pos < N /\ RuneLenOK(pos, n) /\ pos' = pos + n
               /\ UNCHANGED <<data, rerr, start, spare, restored>>
Rewind(m)   == Usable /\ m >= 0 /\ start + m <= N /\ pos' = start + m
               /\ UNCHANGED <<data, rerr, start, spare, restored>>
Skip        == Usable /\ start' = pos /\ UNCHANGED <<data, rerr, pos, spare, restored>>
Shift(n, lo, capEq, same) ==
               Usable /\ SliceOK(n, lo, capEq, same, start, pos) /\ start' = pos
               /\ UNCHANGED <<data, rerr, pos, spare, restored>>
Reset       == Usable /\ start' = 0 /\ pos' = 0 /\ UNCHANGED <<data, rerr, spare, restored>>
Restore     == restored' = TRUE /\ UNCHANGED <<data, rerr, start, pos, spare>>

(* ---------------------------- the caller's memory ---------------------------- *)
\* diff: set of 0-based indices of the caller's backing array (its full capacity) whose value differs now from
\* the value it had before the constructor ran.  Only the single byte after the slice may be borrowed, and
\* only until Restore.
Mem(diff) == /\ diff \subseteq (IF spare /\ ~restored THEN {N} ELSE {})
             /\ UNCHANGED cvars

\* Invariant of every behaviour of this spec (checked by TLC on the implementation-shaped spec through the
\* refinement mapping, and after every event of every validated trace).
Inv == TypeOK
=============================================================================
