---------------------------- MODULE CursorImpl ----------------------------
(***************************************************************************)
(* Implementation-shaped specification (kind I) of parse.Input (input.go)  *)
(* and buffer.Lexer (buffer/lexer.go): one action per method, computing    *)
(* what the Go code computes, on buf = data \o <<0>>.                      *)
(*                                                                         *)
(* TLC checks  I => P : every step is a step of Cursor.tla under the       *)
(* refinement mapping (start, pos, data) |-> (istart, ipos, Data).         *)
(* The state graph of this module is also the generator of replay cases:   *)
(* every transition is written out (Emit) and driven through the real code.*)
(***************************************************************************)
EXTENDS Integers, Sequences, FiniteSets, TLC, Json, CSV, IOUtils

CONSTANTS Alphabet,      \* representative byte values, e.g. {0, 97, 195, 226, 240, 169, 255}
          MaxLen,        \* inputs up to this length
          MaxArg,        \* Peek / PeekRune / PeekErr arguments 0..MaxArg (restricted to the contract)
          GuardUsesArg,  \* TRUE: PeekRune's remaining-length guards take the argument into account (fixed code)
          Emit           \* TRUE: write every transition as a replay case

VARIABLES kind,    \* "input" | "lexer"
          idata,   \* caller's bytes
          failed,  \* constructor's reader failed
          ipos, istart,
          irestored,
          out      \* [op, a, r...] : last call and its result
ivars == <<kind, idata, failed, ipos, istart, irestored, out>>

buf == IF failed THEN <<0>> ELSE idata \o <<0>>
B(j) == buf[j + 1]                  \* 0-based; evaluating it outside buf is the Go panic
InBuf(j) == j >= 0 /\ j < Len(buf)
NN == Len(buf) - 1

P == INSTANCE Cursor WITH data <- (IF failed THEN <<>> ELSE idata),
                          rerr <- (IF failed THEN "fail" ELSE "nil"),
                          start <- istart, pos <- ipos, spare <- FALSE, restored <- irestored

Datas == UNION {[1..n -> Alphabet] : n \in 0..MaxLen}

Init == /\ kind \in {"input", "lexer"}
        /\ idata \in Datas
        /\ failed \in BOOLEAN /\ (failed => Len(idata) <= 1)   \* what a failing reader delivered first is irrelevant
        /\ ipos = 0 /\ istart = 0 /\ irestored = FALSE
        /\ out = [op |-> "New"]

(* ---- what the code computes ---- *)
ErrImpl(i) == IF failed THEN "fail"
              ELSE IF kind = "input" THEN (IF Len(buf) - 1 <= ipos + i THEN "eof" ELSE "nil")
              ELSE (IF ipos + i >= Len(buf) - 1 THEN "eof" ELSE "nil")

\* remaining bytes as the guard of Input.PeekRune / MoveRune sees them
Rem(i) == IF GuardUsesArg THEN Len(buf) - 1 - ipos - i ELSE Len(buf) - 1 - ipos

\* rune assembling; an index outside buf is a panic, modelled as the value "panic"
RuneImpl(i) ==
    LET c == B(ipos + i)
        Pk(k) == B(ipos + i + k)
        Safe(k) == InBuf(ipos + i + k)
    IN IF kind = "input" THEN
         IF c < 192 \/ Rem(i) < 2 THEN [r |-> c, n |-> 1]
         ELSE IF c < 224 \/ Rem(i) < 3 THEN
              (IF Safe(1) THEN [r |-> (c % 32) * 64 + (Pk(1) % 64), n |-> 2] ELSE [r |-> -1, n |-> -1])
         ELSE IF c < 240 \/ Rem(i) < 4 THEN
              (IF Safe(2) THEN [r |-> (c % 16) * 4096 + (Pk(1) % 64) * 64 + (Pk(2) % 64), n |-> 3] ELSE [r |-> -1, n |-> -1])
         ELSE (IF Safe(3) THEN [r |-> (c % 8) * 262144 + (Pk(1) % 64) * 4096 + (Pk(2) % 64) * 64 + (Pk(3) % 64), n |-> 4]
               ELSE [r |-> -1, n |-> -1])
       ELSE \* buffer.Lexer: a NUL ahead ends the sequence
         IF c < 192 \/ Pk(1) = 0 THEN [r |-> c, n |-> 1]
         ELSE IF c < 224 \/ Pk(2) = 0 THEN [r |-> (c % 32) * 64 + (Pk(1) % 64), n |-> 2]
         ELSE IF c < 240 \/ Pk(3) = 0 THEN [r |-> (c % 16) * 4096 + (Pk(1) % 64) * 64 + (Pk(2) % 64), n |-> 3]
         ELSE [r |-> (c % 8) * 262144 + (Pk(1) % 64) * 4096 + (Pk(2) % 64) * 64 + (Pk(3) % 64), n |-> 4]

MoveRuneLen ==
    LET c == B(ipos) IN
    IF c < 192 \/ Rem(0) < 2 THEN 1 ELSE IF c < 224 \/ Rem(0) < 3 THEN 2 ELSE IF c < 240 \/ Rem(0) < 4 THEN 3 ELSE 4

Same == UNCHANGED <<kind, idata, failed, irestored>>
Live == ~irestored
Args == 0..MaxArg

(* ---- one action per method; the enabling conditions are the documented contract ---- *)
Peek     == \E i \in Args : Live /\ ipos + i <= NN /\ out' = [op |-> "Peek", k |-> i, r |-> B(ipos + i)]
                             /\ Same /\ UNCHANGED <<ipos, istart>>
PeekErr  == \E i \in Args : Live /\ ipos + i <= NN /\ out' = [op |-> "PeekErr", k |-> i, e |-> ErrImpl(i)]
                             /\ Same /\ UNCHANGED <<ipos, istart>>
Err      == Live /\ out' = [op |-> "Err", e |-> ErrImpl(0)] /\ Same /\ UNCHANGED <<ipos, istart>>
PeekRune == \E i \in Args : Live /\ ipos + i <= NN
                             /\ out' = [op |-> "PeekRune", k |-> i, r |-> RuneImpl(i).r, n |-> RuneImpl(i).n]
                             /\ Same /\ UNCHANGED <<ipos, istart>>
Move     == \E n \in (-MaxLen)..MaxLen : Live /\ n # 0 /\ istart <= ipos + n /\ ipos + n <= NN
                             /\ ipos' = ipos + n /\ out' = [op |-> "Move", n |-> n] /\ Same /\ UNCHANGED istart
MoveRune == Live /\ kind = "input" /\ ipos < NN /\ ipos' = ipos + MoveRuneLen
                             /\ out' = [op |-> "MoveRune", n |-> MoveRuneLen] /\ Same /\ UNCHANGED istart
Pos      == Live /\ out' = [op |-> "Pos", r |-> ipos - istart] /\ Same /\ UNCHANGED <<ipos, istart>>
Rewind   == \E m \in 0..MaxLen : Live /\ istart + m <= NN /\ ipos' = istart + m
                             /\ out' = [op |-> "Rewind", m |-> m] /\ Same /\ UNCHANGED istart
Lexeme   == Live /\ out' = [op |-> "Lexeme", n |-> ipos - istart, lo |-> (IF ipos > istart THEN istart ELSE -1)]
                             /\ Same /\ UNCHANGED <<ipos, istart>>
Skip     == Live /\ istart' = ipos /\ out' = [op |-> "Skip"] /\ Same /\ UNCHANGED ipos
Shift    == Live /\ istart' = ipos
                 /\ out' = [op |-> "Shift", n |-> ipos - istart, lo |-> (IF ipos > istart THEN istart ELSE -1)]
                 /\ Same /\ UNCHANGED ipos
Offset   == Live /\ out' = [op |-> "Offset", r |-> ipos] /\ Same /\ UNCHANGED <<ipos, istart>>
Bytes    == Live /\ out' = [op |-> "Bytes", n |-> NN, lo |-> (IF NN > 0 THEN 0 ELSE -1)]
                 /\ Same /\ UNCHANGED <<ipos, istart>>
LenOp    == Live /\ kind = "input" /\ out' = [op |-> "Len", r |-> NN] /\ Same /\ UNCHANGED <<ipos, istart>>
Reset    == Live /\ istart' = 0 /\ ipos' = 0 /\ out' = [op |-> "Reset"] /\ Same

Op == Peek \/ PeekErr \/ Err \/ PeekRune \/ Move \/ MoveRune \/ Pos \/ Rewind \/ Lexeme \/ Skip \/ Shift
      \/ Offset \/ Bytes \/ LenOp \/ Reset

CaseFile == IOEnv.VERIF_CASES
EmitCase == Emit =>
    CSVWrite("%1$s", <<ToJson([kind |-> kind, data |-> idata, failed |-> failed, start |-> istart, pos |-> ipos,
                               call |-> out', start2 |-> istart', pos2 |-> ipos'])>>, CaseFile)
Next == Op /\ EmitCase
Spec == Init /\ [][Next]_ivars

(* ---- I => P ---- *)
o == out'
PStep ==
    CASE o.op = "Peek"     -> P!Peek(o.k, o.r)
      [] o.op = "PeekErr"  -> P!PeekErr(o.k, o.e)
      [] o.op = "Err"      -> P!Err(o.e)
      [] o.op = "PeekRune" -> P!PeekRune(o.k, o.r, o.n)
      [] o.op = "Pos"      -> P!PosOp(o.r)
      [] o.op = "Offset"   -> P!Offset(o.r)
      [] o.op = "Len"      -> P!LenOp(o.r)
      [] o.op = "Lexeme"   -> P!Lexeme(o.n, o.lo, TRUE, TRUE)
      [] o.op = "Bytes"    -> P!Bytes(o.n, o.lo, TRUE, TRUE)
      [] o.op = "Move"     -> P!Move(o.n)
      [] o.op = "MoveRune" -> P!MoveRune(o.n)
      [] o.op = "Rewind"   -> P!Rewind(o.m)
      [] o.op = "Skip"     -> P!Skip
      [] o.op = "Shift"    -> P!Shift(o.n, o.lo, TRUE, TRUE)
      [] o.op = "Reset"    -> P!Reset
      [] OTHER             -> FALSE
Refines == [][PStep]_ivars
PInv == P!Inv

\* out is an output-only variable: it never influences behaviour
View == <<kind, idata, failed, ipos, istart, irestored>>
=============================================================================
