SPECIFICATION Spec
CONSTANTS
  Alphabet = {0, 97, 195, 226, 240, 169, 255}
  MaxLen = 3
  MaxArg = 3
  GuardUsesArg = FALSE
  Emit = FALSE
INVARIANT PInv
PROPERTY Refines
VIEW View
CHECK_DEADLOCK FALSE
