SPECIFICATION Spec
CONSTANTS
  Cons <- BrkNl
  Terms = {"semi","nl","omit"}
  MaxE = 1
  MaxS = 4
  MaxX = 1
  MaxP = 0
  MaxL = 0
  MaxTop = 1
CHECK_DEADLOCK FALSE
