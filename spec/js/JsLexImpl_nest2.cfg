SPECIFICATION Spec
CONSTANTS
  Alphabet = {"thead", "rbrace", "backtick", "lbrace"}
  MaxLen = 6
  Emit = TRUE
  ReMode = "grammar"
  Defect = "none"
INVARIANT OneError
INVARIANT MapInv
INVARIANT LevelInv
PROPERTY RefinesTok
PROPERTY Progress
PROPERTY LongestMatch
PROPERTY TokenInvP
PROPERTY Adjacent
PROPERTY NumLang
PROPERTY ReLang
PROPERTY Brackets
PROPERTY DetSound
CHECK_DEADLOCK FALSE
