SPECIFICATION Spec
CONSTANTS
  Cons <- ForInPat
  Terms = {"semi"}
  MaxE = 1
  MaxS = 3
  MaxX = 4
  MaxP = 0
  MaxL = 0
  MaxTop = 1
CHECK_DEADLOCK FALSE
