SPECIFICATION Spec
CONSTANTS
  Cons <- ClassCons
  Terms = {"semi","nl","omit"}
  MaxE = 1
  MaxS = 2
  MaxX = 3
  MaxStack = 4
CHECK_DEADLOCK FALSE
