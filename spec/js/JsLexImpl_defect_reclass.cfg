SPECIFICATION Spec
CONSTANTS
  Alphabet = {"slash", "lbrack", "rbrack", "letter"}
  MaxLen = 4
  Emit = FALSE
  ReMode = "grammar"
  Defect = "re_class_slash"
INVARIANT OneError
INVARIANT MapInv
INVARIANT LevelInv
PROPERTY RefinesTok
PROPERTY Progress
PROPERTY LongestMatch
PROPERTY TokenInvP
PROPERTY Adjacent
PROPERTY NumLang
PROPERTY ReLang
PROPERTY Brackets
CHECK_DEADLOCK FALSE
