SPECIFICATION Spec
CONSTANTS
  Alphabet = {"pipe", "pct", "tilde", "caret", "eq", "qmark", "amp", "gt", "gt3", "ell"}
  MaxLen = 4
  Emit = TRUE
  ReMode = "never"
  Defect = "none"
INVARIANT OneError
INVARIANT MapInv
INVARIANT LevelInv
PROPERTY RefinesTok
PROPERTY Progress
PROPERTY LongestMatch
PROPERTY TokenInvP
PROPERTY Adjacent
PROPERTY NumLang
PROPERTY ReLang
PROPERTY Brackets
PROPERTY DetSound
CHECK_DEADLOCK FALSE
