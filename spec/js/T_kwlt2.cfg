SPECIFICATION Spec
CONSTANTS
  Cons <- KwLt2
  Terms = {"semi","lt"}
  MaxE = 2
  MaxS = 1
  MaxX = 1
  MaxP = 1
  MaxL = 1
  MaxTop = 1
CHECK_DEADLOCK FALSE
