----------------------------- MODULE JsLexImpl -----------------------------
(***************************************************************************)
(* Implementation-shaped specification (kind I) of js.Lexer (/repo/js/     *)
(* lex.go): Next with its first-byte switch, the `level` / `templateLevels`*)
(* bookkeeping that decides whether '}' resumes a template, and the        *)
(* RegExp() re-entry, over a CLASS ALPHABET of input characters.  One TLA+ *)
(* operator per Go function, same order of tests, same cursor arithmetic   *)
(* (parse.Input: the input followed by a NUL terminator; Peek past the end *)
(* of the input reads that terminator, Err() is io.EOF exactly there).     *)
(*                                                                         *)
(* A class is one character (rune) as far as the tests of the code can     *)
(* tell characters apart; the keyword atoms kw_* are whole words that      *)
(* behave like a letter and exist because Keywords[lexeme] needs the       *)
(* spelling.  The harness (vdrive jstok impl) spells every class with a    *)
(* representative chosen by seed.                                          *)
(*                                                                         *)
(* One step = one call of Next, or of RegExp.  The DRIVER is part of the   *)
(* model, as it is part of every user of the lexer: after Next returned    *)
(* '/' or '/=' it calls RegExp() when the previous significant token makes *)
(* a regular expression possible (ReWanted); the token reported for that   *)
(* position is then what RegExp() returns (as in harness/suites/jstok).    *)
(* The driver stops at the first ErrorToken.                               *)
(*                                                                         *)
(* TLC checks  I => P  for EVERY class string up to MaxLen over Alphabet:  *)
(*  (a) RefinesTok    every report is a step of proto/TokenStream.tla with *)
(*                    concat = TRUE: non-empty, ending at the cursor,      *)
(*                    starting where the previous token ended (the JS      *)
(*                    lexer reports white space and comments: nothing is   *)
(*                    skipped).  Not expressible on classes: aliasing,     *)
(*                    capacity, re-lexing.                                 *)
(*  (b) OneError      the reports end with exactly one error report; every *)
(*                    other step moves the end of the tokens forward (so   *)
(*                    at most Len(input) + 1 calls; the check counts that  *)
(*                    every input reached its error report).               *)
(*  (c) LongestMatch  where JsTokens.tla (clause 12 of ECMA-262) defines   *)
(*                    what starts at a position - FirstLen over PunctSeqs  *)
(*                    and Openers with the '?.' look-ahead (Viable; here   *)
(*                    FirstLenBy, the same with Q indexed once) - the      *)
(*                    token is the one it prescribes and is named by its   *)
(*                    spelling; TokenInv (canonical spelling, Comment-     *)
(*                    LineTerminator iff a line terminator is inside);     *)
(*      Adjacent      no two adjacent tokens are a pair that Common (rules *)
(*                    R1-R5: identifier tails, number followers, integer + *)
(*                    '.', single-line comment, runs of trivia) says would *)
(*                    lex differently when juxtaposed, except a digit      *)
(*                    directly after a non-decimal literal (see below);    *)
(*      NumLang       a numeric token is a NumericLiteral of its kind      *)
(*                    (12.9.3, written here on classes: JsTokens.tla has   *)
(*                    number atoms but no character-level definition);     *)
(*      ReLang        RegExp() returns the longest RegularExpressionLiteral*)
(*                    (12.9.5, on classes) that starts at the '/', and an  *)
(*                    error only where none starts.                        *)
(*  (d) Brackets      `level` / `templateLevels` are exactly the           *)
(*                    abstraction of the bracket stack (MapInv), `level`   *)
(*                    is not negative while no closer came without its     *)
(*                    opener, and a '}' continues a template exactly when  *)
(*                    the innermost open bracket is a '${' - stated twice: *)
(*                    with JsTokens!Allowed / Effect (its bracket context, *)
(*                    free at top level) and with the full stack ghost.    *)
(*                                                                         *)
(*  (e) DetSound      every report carries a flag `det`: TRUE iff the      *)
(*                    property-level definition PRESCRIBES this token at   *)
(*                    this position, given the tokens before it (the       *)
(*                    clause above that speaks about it is an equality     *)
(*                    with the declarative definition, not an implication  *)
(*                    that holds vacuously).  DetSound: a token flagged    *)
(*                    det IS the token that JsTokens.tla's longest match   *)
(*                    (FirstLen, Viable, Allowed) and clause 12 written as *)
(*                    languages on classes (Presc) yield.  det is FALSE    *)
(*                    where the statement leaves the behaviour open or the *)
(*                    model merely mirrors the code (see Det).             *)
(*                                                                         *)
(* The state graph is also the generator of the differential replay: at    *)
(* the error report the input and the predicted reports are written out    *)
(* (Emit) and `vdrive jstok impl` compares them with what js.Lexer does on *)
(* concrete bytes: MODEL-DRIFT if they differ.  Where the first differing  *)
(* report is one the model flags det, the trace is written with the        *)
(* model's tokens as the EXPECTATION and the property-level trace spec     *)
(* (JsTokensTrace.tla, Matches) is the judge; every other differing trace  *)
(* is judged by the all-input invariants alone.                            *)
(*                                                                         *)
(* What the code does and the grammar does not say (kept in the model,     *)
(* outside the property):                                                  *)
(*  - `level--` is unconditional: a ')' or '}' at top level makes level    *)
(*    negative; the comparison with templateLevels is relative, so the     *)
(*    decision for '}' stays right (ghost `base`).                         *)
(*  - a ')' directly inside '${' silently lowers level to the template's   *)
(*    level; the next '}' is then a punctuator (ghost gbal = FALSE).       *)
(*  - '0b12' is BinaryToken '0b1' then IntegerToken '2': only identifiers  *)
(*    are refused after a number (prevNumericLiteral).                     *)
(*  - '<!--' anywhere and '-->' when no token but white space precedes it  *)
(*    on the line open a single-line comment (Annex B.1.1).                *)
(*                                                                         *)
(* Defect switches (constant Defect; JsLexImpl_defect_*.cfg) model         *)
(* plausible regressions that TLC must reject:                             *)
(*   "rbrace_any_level"  '}' continues a template whenever templateLevels  *)
(*                       is not empty, whatever level is                   *)
(*   "optchain_digit"    '?.' is taken although a digit follows            *)
(*   "exp_no_digits"     an exponent without digits is accepted            *)
(*   "num_ident"         prevNumericLiteral is never set                   *)
(*   "gtgtgt_eq"         '>>>' does not look for a following '='           *)
(*   "re_class_slash"    RegExp(): a '/' inside a character class ends the  *)
(*                       literal                                           *)
(*   "det_num_follow"    (a defect of the flag, not of the lexer) a numeric *)
(*                       token is flagged det whatever follows it          *)
(***************************************************************************)
EXTENDS Integers, Sequences, FiniteSets, TLC, Json, CSV, IOUtils

CONSTANTS Alphabet,   \* classes the inputs are built from
          MaxLen,     \* inputs of up to MaxLen atoms (a class, or one of the multi-character atoms Multi)
          Emit,       \* TRUE: write every input with the predicted reports (IOEnv.VERIF_CASES)
          ReMode,     \* "grammar": RegExp() where ReWanted; "always": after every '/' and '/='; "never"
          Defect      \* "none" or one of the regressions listed above

J == INSTANCE JsTokens

(* ---- the class alphabet ---- *)
\* punctuation classes and the character of JsTokens.tla's alphabet each one is
PunctCh == [slash |-> "/", star |-> "*", lt |-> "<", gt |-> ">", eq |-> "=", bang |-> "!", dash |-> "-", plus |-> "+",
            dot |-> ".", qmark |-> "?", amp |-> "&", pipe |-> "|", caret |-> "^", tilde |-> "~", pct |-> "%",
            lbrace |-> "{", rbrace |-> "}", lparen |-> "(", rparen |-> ")", lbrack |-> "[", rbrack |-> "]",
            semi |-> ";", comma |-> ",", colon |-> ":"]
PunctClasses == DOMAIN PunctCh
Digits    == {"digit0", "digit1", "digit", "digit8"}      \* '0' | '1' | '2'-'7' | '8' '9'
BinDigits == {"digit0", "digit1"}
OctDigits == {"digit0", "digit1", "digit"}
KwName  == [kw_in |-> "in", kw_of |-> "of", kw_let |-> "let", kw_async |-> "async", kw_yield |-> "yield"]
KwAtoms == DOMAIN KwName
\* letter_e 'e' 'E', letter_n 'n', letter_x 'x' 'X', letter_b 'b' 'B', letter_o 'o' 'O', letter_u 'u', hexletter: another hex
\* digit letter, letter: a letter the code tests for nowhere
Letters   == {"letter_e", "letter_n", "letter_x", "letter_b", "letter_o", "letter_u", "hexletter", "letter"} \cup KwAtoms
HexDigits == Digits \cup {"letter_e", "letter_b", "hexletter"}
IdStartA  == Letters \cup {"dollar", "underscore"}            \* identifierStartTable
IdContA   == IdStartA \cup Digits                             \* identifierTable
\* first byte >= 0xC0: a letter (ID_Start), a combining mark or ZWNJ/ZWJ (ID_Continue only), Zs/NBSP/BOM, U+2028/9, any other
HiClasses == {"uletter", "ucont", "uws", "uls", "uother"}
\* ws: space tab VT FF; nl: LF; cr: CR; nul: a NUL byte inside the input; other: an ASCII byte no token starts with ('@', DEL, ...)
Plain == {"backtick", "dquote", "squote", "bslash", "hash", "ws", "nl", "cr", "nul", "other"}
AllClasses == PunctClasses \cup Digits \cup IdStartA \cup HiClasses \cup Plain
\* multi-character atoms: they only shorten the way to deep states; the model runs on the flattened class string
Multi == [tsub  |-> <<"dollar", "lbrace">>,                                   \* ${
          thead |-> <<"backtick", "dollar", "lbrace">>,                       \* `${
          cdo   |-> <<"lt", "bang", "dash", "dash">>,                         \* <!--
          cdc   |-> <<"dash", "dash", "gt">>,                                 \* -->
          cmto  |-> <<"slash", "star">>, cmtc |-> <<"star", "slash">>,
          uesc4 |-> <<"bslash", "letter_u", "digit0", "digit", "hexletter", "letter_e">>,     \* \u03ae
          uescb |-> <<"bslash", "letter_u", "lbrace", "hexletter", "digit", "rbrace">>,       \* \u{a3}
          gt3   |-> <<"gt", "gt", "gt">>, ell |-> <<"dot", "dot", "dot">>]
ASSUME Alphabet \subseteq AllClasses \cup DOMAIN Multi
Expand(a) == IF a \in DOMAIN Multi THEN Multi[a] ELSE <<a>>
RECURSIVE Flat(_)
Flat(s) == IF s = <<>> THEN <<>> ELSE Expand(Head(s)) \o Flat(Tail(s))
\* 'async' begins with a hex digit: a hex-digit loop would stop inside the atom
ASSUME ~("kw_async" \in Alphabet /\ {"letter_x", "letter_u"} \cap Alphabet # {})
ASSUME {KwName[k] : k \in KwAtoms} \subseteq J!KwWords
ASSUME ReMode \in {"grammar", "always", "never"}
ASSUME Defect \in {"none", "rbrace_any_level", "optchain_digit", "exp_no_digits", "num_ident", "gtgtgt_eq", "re_class_slash", "det_num_follow"}

VARIABLES input,        \* the input as classes
          pos,          \* parse.Input.pos (0-based; = start between calls)
          prevLT,       \* Lexer.prevLineTerminator
          prevNum,      \* Lexer.prevNumericLiteral
          level,        \* Lexer.level
          tl,           \* Lexer.templateLevels
          redo,         \* driver: the next call is RegExp()
          prevSig,      \* driver: type of the last significant token reported ("" at the start)
          halted,       \* an ErrorToken was returned (the driver stops there)
          out,          \* result of the latest call
          hist,         \* the reports so far
          gEnd,         \* ghost mirroring TokenStream's `end`
          pstk, pok,    \* ghosts: JsTokens.tla's bracket context (section 3) and "every unit so far was Allowed"
          gs, gbal, base,   \* ghosts: the full bracket stack over {"T", "B"}, "no closer met a wrong opener",
                            \* minus the number of closers that came at top level without an opener
          clean             \* ghost: no token so far where clause 12 knows none (see LexErr): what follows such a place is open
ivars == <<input, pos, prevLT, prevNum, level, tl, redo, prevSig, halted, out, hist, gEnd, pstk, pok, gs, gbal, base, clean>>

T == INSTANCE TokenStream WITH fam <- "js", concat <- TRUE, end <- gEnd, seenErr <- halted, inTag <- FALSE

N == Len(input)
\* r.Peek at absolute position p: the terminator right after the input, the Go panic beyond it
B(p) == IF p < 0 THEN "oob" ELSE IF p < N THEN input[p + 1] ELSE IF p = N THEN "eof" ELSE "oob"
Top(s) == s[Len(s)]
Pop(s) == SubSeq(s, 1, Len(s) - 1)

(* ---- small consumers (each returns the new position; unchanged = the Go function returned false) ---- *)
ConsumeWhitespace(p) == IF B(p) \in {"ws", "uws"} THEN p + 1 ELSE p
ConsumeLineTerminator(p) ==
    IF B(p) = "nl" THEN p + 1
    ELSE IF B(p) = "cr" THEN (IF B(p + 1) = "nl" THEN p + 2 ELSE p + 1)
    ELSE IF B(p) = "uls" THEN p + 1 ELSE p
IsLineTerminator(p) == B(p) \in {"nl", "cr", "uls"}
RECURSIVE WsLoop(_), LtLoop(_), SingleLine(_), DigLoop(_, _), HexLoop(_), IdLoop(_)
HexLoop(p) == IF B(p) \in HexDigits THEN HexLoop(p + 1) ELSE p          \* for l.consumeHexDigit() {}
WsLoop(p) == IF ConsumeWhitespace(p) # p THEN WsLoop(ConsumeWhitespace(p)) ELSE p
LtLoop(p) == IF ConsumeLineTerminator(p) # p THEN LtLoop(ConsumeLineTerminator(p)) ELSE p
\* consumeSingleLineComment
SingleLine(p) == IF B(p) \in {"cr", "nl", "eof", "uls"} THEN p ELSE SingleLine(p + 1)
\* for l.consumeXDigit() || l.consumeNumericSeparator(l.consumeXDigit) {}
DigLoop(p, D) == IF B(p) \in D THEN DigLoop(p + 1, D)
                 ELSE IF B(p) = "underscore" /\ B(p + 1) \in D THEN DigLoop(p + 2, D) ELSE p

\* consumeUnicodeEscape: new position, or -1
UEsc(p) ==
    IF B(p) # "bslash" \/ B(p + 1) # "letter_u" THEN -1
    ELSE IF B(p + 2) = "lbrace"
         THEN IF B(p + 3) \in HexDigits
              THEN LET q == HexLoop(p + 4) IN IF B(q) = "rbrace" THEN q + 1 ELSE -1
              ELSE -1
    ELSE IF B(p + 2) \in HexDigits /\ B(p + 3) \in HexDigits /\ B(p + 4) \in HexDigits /\ B(p + 5) \in HexDigits THEN p + 6
    ELSE -1

\* consumeIdentifierToken: new position, or -1
IdLoop(p) == LET c == B(p) IN
    IF c \in IdContA THEN IdLoop(p + 1)
    ELSE IF c \in HiClasses THEN (IF c \in {"uletter", "ucont"} THEN IdLoop(p + 1) ELSE p)
    ELSE LET q == UEsc(p) IN IF q = -1 THEN p ELSE IdLoop(q)
ConsumeIdentifier(p) == LET c == B(p) IN
    IF c \in IdStartA THEN IdLoop(p + 1)
    ELSE IF c \in HiClasses THEN (IF c = "uletter" THEN IdLoop(p + 1) ELSE -1)
    ELSE LET q == UEsc(p) IN IF q = -1 THEN -1 ELSE IdLoop(q)
\* Keywords[string(l.r.Lexeme())]
KeywordOrIdentifier(p, q) == IF q = p + 1 /\ B(p) \in KwAtoms THEN KwName[B(p)] ELSE "Identifier"

(* ---- consumeOperatorToken: [tt, hi]; the token types are named by their spelling (TokenType.String()) ---- *)
Ch(c) == IF c \in PunctClasses THEN PunctCh[c]
         ELSE IF c \in Digits THEN "d"
         ELSE IF c \in IdStartA \/ c = "uletter" THEN "i"
         ELSE IF c \in {"dquote", "squote"} THEN "q"
         ELSE IF c = "backtick" THEN "`"
         ELSE IF c = "hash" THEN "#"
         ELSE IF c \in {"ws", "uws"} THEN "w"
         ELSE IF c \in {"nl", "cr", "uls"} THEN "n"
         ELSE IF c = "bslash" THEN "\\"
         ELSE "x"
\* the op*Tokens maps are total on the characters their guards let through
OpEqKeys   == {"eq", "bang", "lt", "gt", "plus", "dash", "star", "slash", "pct", "amp", "pipe", "caret"}
OpOpKeys   == {"lt", "plus", "dash", "star", "amp", "pipe", "qmark"}
OpOpEqKeys == {"lt", "star", "amp", "pipe", "qmark"}
ConsumeOperator(p) ==
    LET c == B(p)
        s == PunctCh[c]
        p1 == p + 1
    IN IF B(p1) = "eq" /\ c \notin {"tilde", "qmark"} THEN
            IF B(p1 + 1) = "eq" /\ c \in {"bang", "eq"} THEN [tt |-> s \o "==", hi |-> p1 + 2]
            ELSE [tt |-> IF c \in OpEqKeys THEN s \o "=" ELSE "Error", hi |-> p1 + 1]
       ELSE IF B(p1) = c /\ c \in {"plus", "dash", "star", "amp", "pipe", "qmark", "lt"} THEN
            IF B(p1 + 1) = "eq" /\ c \notin {"plus", "dash"} THEN [tt |-> IF c \in OpOpEqKeys THEN s \o s \o "=" ELSE "Error", hi |-> p1 + 2]
            ELSE [tt |-> IF c \in OpOpKeys THEN s \o s ELSE "Error", hi |-> p1 + 1]
       ELSE IF c = "qmark" /\ B(p1) = "dot" /\ (Defect = "optchain_digit" \/ B(p1 + 1) \notin Digits) THEN [tt |-> "?.", hi |-> p1 + 1]
       ELSE IF c = "eq" /\ B(p1) = "gt" THEN [tt |-> "=>", hi |-> p1 + 1]
       ELSE IF c = "gt" /\ B(p1) = "gt" THEN
            IF B(p1 + 1) = "gt" THEN
                 IF B(p1 + 2) = "eq" /\ Defect # "gtgtgt_eq" THEN [tt |-> ">>>=", hi |-> p1 + 3]
                 ELSE [tt |-> ">>>", hi |-> p1 + 2]
            ELSE IF B(p1 + 1) = "eq" THEN [tt |-> ">>=", hi |-> p1 + 2]
            ELSE [tt |-> ">>", hi |-> p1 + 1]
       ELSE [tt |-> s, hi |-> p1]

(* ---- consumeNumericToken: [tt, hi, err]; tt = "Error" with hi = p means "may be dot or ellipsis" ---- *)
NumR(tt, hi, err) == [tt |-> tt, hi |-> hi, err |-> err]
\* from "if c == 'e' || c == 'E'" on: the cursor is at q
NumExponent(q) ==
    IF B(q) = "letter_e" THEN
         LET q1 == q + 1
             q2 == IF B(q1) \in {"plus", "dash"} THEN q1 + 1 ELSE q1
         IN IF B(q2) \notin Digits
            THEN (IF Defect = "exp_no_digits" THEN NumR("Decimal", q2, "") ELSE NumR("Error", q2, "invalid number"))
            ELSE NumR("Decimal", DigLoop(q2 + 1, Digits), "")
    ELSE NumR("Decimal", q, "")
\* from "we have parsed a 0 or an integer number" on: the cursor is at q
NumRest(q, first) ==
    LET c == B(q) IN
    IF c = "dot" THEN
         IF B(q + 1) \in Digits THEN NumExponent(DigLoop(q + 2, Digits))
         ELSE IF first = "dot" THEN NumR("Error", q, "")
         ELSE NumExponent(q + 1)
    ELSE IF c = "letter_n" THEN NumR("Integer", q + 1, "")
    ELSE IF c # "letter_e" THEN NumR("Integer", q, "")
    ELSE NumExponent(q)
\* "0x" / "0b" / "0o": the cursor is on the prefix letter
NumPrefixed(p1, D, tt) ==
    IF B(p1 + 1) \in D
    THEN LET q == DigLoop(p1 + 2, D) IN NumR(tt, IF B(q) = "letter_n" THEN q + 1 ELSE q, "")
    ELSE NumR("Integer", p1, "")
ConsumeNumeric(p) ==
    LET first == B(p)
        p1 == p + 1
    IN IF first = "digit0" THEN
            IF B(p1) = "letter_x" THEN NumPrefixed(p1, HexDigits, "Hexadecimal")
            ELSE IF B(p1) = "letter_b" THEN NumPrefixed(p1, BinDigits, "Binary")
            ELSE IF B(p1) = "letter_o" THEN NumPrefixed(p1, OctDigits, "Octal")
            ELSE IF B(p1) = "letter_n" THEN NumR("Integer", p1 + 1, "")
            ELSE IF B(p1) \in Digits THEN NumR("Error", p1, "legacy octal numbers are not supported")
            ELSE NumRest(p1, first)
       ELSE IF first # "dot" THEN NumRest(DigLoop(p, Digits), first)
       ELSE NumRest(p, first)

(* ---- consumeStringToken: [tt, hi, err] ---- *)
RECURSIVE StrLoop(_, _)
StrLoop(q, delim) ==
    LET c == B(q) IN
    IF c = delim THEN NumR("String", q + 1, "")
    ELSE IF c = "bslash" THEN
         LET q1 == q + 1 IN
         IF ConsumeLineTerminator(q1) # q1 THEN StrLoop(ConsumeLineTerminator(q1), delim)
         ELSE IF B(q1) \in {delim, "bslash"} THEN StrLoop(q1 + 1, delim)
         ELSE StrLoop(q1, delim)
    ELSE IF c \in {"nl", "cr", "eof"} THEN NumR("Error", q, "unterminated string literal")
    ELSE StrLoop(q + 1, delim)
ConsumeString(p) == StrLoop(p + 1, B(p))

(* ---- consumeCommentToken: [tt, hi, err, lt] (tt = "none": not a comment) ---- *)
RECURSIVE BlockLoop(_, _)
BlockLoop(q, sawLT) ==
    IF B(q) = "star" /\ B(q + 1) = "slash"
    THEN [tt |-> IF sawLT THEN "CommentLineTerminator" ELSE "Comment", hi |-> q + 2, err |-> "", lt |-> sawLT]
    ELSE IF B(q) = "eof" THEN [tt |-> "Error", hi |-> q, err |-> "unexpected EOF in comment", lt |-> sawLT]
    ELSE IF ConsumeLineTerminator(q) # q THEN BlockLoop(ConsumeLineTerminator(q), TRUE)
    ELSE BlockLoop(q + 1, sawLT)
ConsumeComment(p) ==
    IF B(p + 1) = "slash" THEN [tt |-> "Comment", hi |-> SingleLine(p + 2), err |-> "", lt |-> FALSE]
    ELSE IF B(p + 1) = "star" THEN BlockLoop(p + 2, FALSE)
    ELSE [tt |-> "none", hi |-> p, err |-> "", lt |-> FALSE]
\* consumeHTMLLikeCommentToken: new position, or -1
ConsumeHTMLLikeComment(p, plt) ==
    IF B(p) = "lt" /\ B(p + 1) = "bang" /\ B(p + 2) = "dash" /\ B(p + 3) = "dash" THEN SingleLine(p + 4)
    ELSE IF plt /\ B(p) = "dash" /\ B(p + 1) = "dash" /\ B(p + 2) = "gt" THEN SingleLine(p + 3)
    ELSE -1

(* ---- consumeTemplateToken from p (on '`' or '}'): [k, hi]  k: "end" | "subst" | "eof" ---- *)
RECURSIVE TmplLoop(_)
TmplLoop(q) ==
    LET c == B(q) IN
    IF c = "backtick" THEN [k |-> "end", hi |-> q + 1]
    ELSE IF c = "dollar" /\ B(q + 1) = "lbrace" THEN [k |-> "subst", hi |-> q + 2]
    ELSE IF c = "bslash" THEN (IF B(q + 1) \notin {"nul", "eof"} THEN TmplLoop(q + 2) ELSE TmplLoop(q + 1))
    ELSE IF c = "eof" THEN [k |-> "eof", hi |-> q]
    ELSE TmplLoop(q + 1)

(* ---- consumeRegExpToken from s (on '/'): new position, or [fail at] as a negative number -(at + 1) ---- *)
RECURSIVE ReLoop(_, _), ReFlags(_)
ReFlags(q) == IF B(q) \in IdContA \/ B(q) \in {"uletter", "ucont"} THEN ReFlags(q + 1) ELSE q
ReLoop(q, inClass) ==
    LET c == B(q) IN
    IF (~inClass \/ Defect = "re_class_slash") /\ c = "slash" THEN ReFlags(q + 1)
    ELSE IF c = "lbrack" THEN ReLoop(q + 1, TRUE)
    ELSE IF c = "rbrack" THEN ReLoop(q + 1, FALSE)
    ELSE IF c = "bslash" THEN (IF IsLineTerminator(q + 1) \/ B(q + 1) = "eof" THEN -(q + 2) ELSE ReLoop(q + 2, inClass))
    ELSE IF IsLineTerminator(q) \/ c = "eof" THEN -(q + 1)
    ELSE ReLoop(q + 1, inClass)

(* ---- results of a call ---- *)
\* tt: token type; hi: cursor after the call; n: length of the data returned; err: l.err ("" = none); sub: which comment;
\* plt / pnum / lvl / tls: prevLineTerminator, prevNumericLiteral, level, templateLevels after the call
\* det: the token is prescribed (filled in by Step, see Det)
Tok(tt, hi) == [tt |-> tt, hi |-> hi, n |-> hi - pos, err |-> "", sub |-> "", plt |-> FALSE, pnum |-> FALSE, lvl |-> level, tls |-> tl, det |-> FALSE]
\* ErrorToken; n = 0: data nil, else the Shift()ed lexeme
ErrTok(why, hi, n) == [Tok("Error", hi) EXCEPT !.n = n, !.err = why]
\* the end of Next: "unexpected %s", MoveRune, ErrorToken with that rune
Unexpected(p) == ErrTok("unexpected", p + 1, 1)
Op(r) == Tok(r.tt, r.hi)

Template(p, continuation, lvl, tls) ==
    LET r == TmplLoop(p + 1) IN
    IF r.k = "end" THEN [Tok(IF continuation THEN "TemplateEnd" ELSE "Template", r.hi) EXCEPT !.lvl = lvl, !.tls = Pop(tls)]
    ELSE IF r.k = "subst" THEN [Tok(IF continuation THEN "TemplateMiddle" ELSE "TemplateStart", r.hi) EXCEPT !.lvl = lvl + 1, !.tls = tls]
    ELSE [ErrTok("unterminated template literal", r.hi, r.hi - p) EXCEPT !.lvl = lvl, !.tls = tls]

(* ---- Lexer.Next ---- *)
NextCall ==
    LET p == pos
        c == B(p)
    IN
    IF c = "ws" THEN [Tok("Whitespace", WsLoop(p + 1)) EXCEPT !.plt = prevLT]
    ELSE IF c \in {"nl", "cr"} THEN [Tok("LineTerminator", LtLoop(p + 1)) EXCEPT !.plt = TRUE]
    ELSE IF c \in {"gt", "eq", "bang", "plus", "star", "pct", "amp", "pipe", "caret", "tilde", "qmark"} THEN Op(ConsumeOperator(p))
    ELSE IF c \in Digits \/ c = "dot" THEN
         LET r == ConsumeNumeric(p) IN
         IF r.tt # "Error" \/ r.hi # p THEN [Tok(r.tt, r.hi) EXCEPT !.err = r.err, !.pnum = (Defect # "num_ident")]
         ELSE IF c = "dot" THEN (IF B(p + 1) = "dot" /\ B(p + 2) = "dot" THEN Tok("...", p + 3) ELSE Tok(".", p + 1))
         ELSE Unexpected(p)
    ELSE IF c = "comma" THEN Tok(",", p + 1)
    ELSE IF c = "semi" THEN Tok(";", p + 1)
    ELSE IF c = "lparen" THEN [Tok("(", p + 1) EXCEPT !.lvl = level + 1]
    ELSE IF c = "rparen" THEN [Tok(")", p + 1) EXCEPT !.lvl = level - 1]
    ELSE IF c = "slash" THEN
         LET r == ConsumeComment(p) IN
         IF r.tt = "none" THEN Op(ConsumeOperator(p))
         ELSE IF r.err # "" THEN [ErrTok(r.err, r.hi, 0) EXCEPT !.plt = r.lt]
         ELSE [Tok(r.tt, r.hi) EXCEPT !.plt = r.lt, !.sub = IF B(p + 1) = "slash" THEN "line" ELSE "block"]
    ELSE IF c = "lbrace" THEN [Tok("{", p + 1) EXCEPT !.lvl = level + 1]
    ELSE IF c = "rbrace" THEN
         IF tl # <<>> /\ (Defect = "rbrace_any_level" \/ level - 1 = Top(tl)) THEN Template(p, TRUE, level - 1, tl)
         ELSE [Tok("}", p + 1) EXCEPT !.lvl = level - 1]
    ELSE IF c = "colon" THEN Tok(":", p + 1)
    ELSE IF c \in {"squote", "dquote"} THEN
         LET r == ConsumeString(p) IN [Tok(r.tt, r.hi) EXCEPT !.err = r.err]
    ELSE IF c = "rbrack" THEN Tok("]", p + 1)
    ELSE IF c = "lbrack" THEN Tok("[", p + 1)
    ELSE IF c \in {"lt", "dash"} THEN
         LET q == ConsumeHTMLLikeComment(p, prevLT) IN
         IF q # -1 THEN [Tok("Comment", q) EXCEPT !.sub = "html"] ELSE Op(ConsumeOperator(p))
    ELSE IF c = "backtick" THEN Template(p, FALSE, level, Append(tl, level))
    ELSE IF c = "hash" THEN
         LET q == ConsumeIdentifier(p + 1) IN IF q # -1 THEN Tok("PrivateIdentifier", q) ELSE Unexpected(p)
    ELSE LET q == ConsumeIdentifier(p) IN
         IF q # -1 THEN
              IF prevNum THEN ErrTok("unexpected identifier after number", q, 0)
              ELSE Tok(KeywordOrIdentifier(p, q), q)
         ELSE IF c \in HiClasses THEN
              IF ConsumeWhitespace(p) # p THEN [Tok("Whitespace", WsLoop(p + 1)) EXCEPT !.plt = prevLT]
              ELSE IF ConsumeLineTerminator(p) # p THEN [Tok("LineTerminator", LtLoop(p + 1)) EXCEPT !.plt = TRUE]
              ELSE Unexpected(p)
         ELSE IF c = "eof" THEN ErrTok("EOF", p, 0)
         ELSE Unexpected(p)

(* ---- Lexer.RegExp (prevLineTerminator / prevNumericLiteral / level are not touched) ---- *)
RegExpCall ==
    LET s == IF B(pos - 1) = "slash" THEN pos - 1
             ELSE IF B(pos - 1) = "eq" /\ B(pos - 2) = "slash" THEN pos - 2 ELSE -1
        keep(r) == [r EXCEPT !.plt = prevLT, !.pnum = prevNum]
    IN IF s = -1 THEN keep(ErrTok("expected / or /=", pos, 0))
       ELSE LET q == ReLoop(s + 1, FALSE) IN
            IF q >= 0 THEN keep([Tok("RegExp", q) EXCEPT !.n = q - s])
            ELSE keep(ErrTok("unexpected EOF or newline", -q - 1, 0))

(* ---- the driver ---- *)
Trivia == {"Whitespace", "LineTerminator", "Comment", "CommentLineTerminator"}
PunctNames == {J!Join(q) : q \in J!PunctSeqs}
Numeric == {"Decimal", "Binary", "Octal", "Hexadecimal", "Integer"}
\* after these a '/' is a division (an operand just ended); anywhere else an expression may start
ReWanted == CASE ReMode = "always" -> TRUE
              [] ReMode = "never" -> FALSE
              [] OTHER -> prevSig \notin (Numeric \cup {"Identifier", "PrivateIdentifier", "String", "Template", "TemplateEnd", "RegExp",
                                                         ")", "]", "}", "let", "async", "of"})

Init == /\ input \in {Flat(a) : a \in UNION {[1..n -> Alphabet] : n \in 0..MaxLen}}
        /\ pos = 0 /\ prevLT = TRUE /\ prevNum = FALSE /\ level = 0 /\ tl = <<>>
        /\ redo = FALSE /\ prevSig = "" /\ halted = FALSE /\ out = [tt |-> "none"] /\ hist = <<>>
        /\ gEnd = 0 /\ pstk = <<>> /\ pok = TRUE /\ gs = <<>> /\ gbal = TRUE /\ base = 0 /\ clean = TRUE

(* ---- ghosts ---- *)
\* the unit of JsTokens.tla a reported token is, as far as its bracket context cares
UnitOf(tt) == CASE tt = "TemplateStart" -> <<"tmpl.head">> [] tt = "TemplateMiddle" -> <<"tmpl.mid">> [] tt = "TemplateEnd" -> <<"tmpl.tail">>
                [] tt \in {"{", "}", "(", ")"} -> <<"p." \o tt>> [] OTHER -> <<"id.ascii">>
Deep == MaxLen + 1
\* [gs, gbal, base] after a token
Ghost(tt) ==
    LET same == [gs |-> gs, gbal |-> gbal, base |-> base]
        bad  == [same EXCEPT !.gbal = FALSE]
    IN CASE tt \in {"(", "{"} -> [same EXCEPT !.gs = Append(gs, "B")]
         [] tt \in {")", "}"} -> IF gs = <<>> THEN [same EXCEPT !.base = base - 1]
                                 ELSE IF Top(gs) = "B" THEN [same EXCEPT !.gs = Pop(gs)] ELSE bad
         [] tt = "TemplateStart" -> [same EXCEPT !.gs = Append(gs, "T")]
         [] tt = "TemplateMiddle" -> IF gs # <<>> /\ Top(gs) = "T" THEN same ELSE bad
         [] tt = "TemplateEnd" -> IF gs # <<>> /\ Top(gs) = "T" THEN [same EXCEPT !.gs = Pop(gs)] ELSE bad
         [] OTHER -> same

(* ---- det: is the token of this call PRESCRIBED by the property-level definition? ---- *)
(* TRUE only where the clause that TLC checks for the token is an equality with the declarative definition        *)
(* (DetSound below holds it to that), per kind of token:                                                         *)
(*   punctuators          JsTokens!FirstLen over PunctSeqs and Openers (ECMA-262 12.8, longest match) with the    *)
(*                        '?.' look-ahead (Viable); not where an Annex B opener '<!--' / '-->' starts (outside    *)
(*                        the property); '}' only where JsTokens!Allowed says it is a punctuator (top level, or   *)
(*                        the innermost open bracket is a '{') and every unit before it was Allowed               *)
(*   template pieces      12.9.6: from '`' always; from '}' only where JsTokens!Allowed says a substitution ends  *)
(*                        (InputElementTemplateTail); only when terminated ('`' or '${'), else the model reports  *)
(*                        an error                                                                                *)
(*   numeric literals     12.9.3 (NumLang's languages, longest match) when the character after it is neither an   *)
(*                        IdentifierStart (a '\' counts) nor a DecimalDigit; so not '0b1' in '0b12', not '1' in    *)
(*                        '1_', '1__0', '1in'; legacy octal and 'invalid number' are error reports                *)
(*   identifiers,         12.7 IdentifierName, longest match, keyword iff the spelling is one (Keywords /         *)
(*   keywords, #names     JsTokens!KwWords); only without '\u' escapes and not directly before a '\' (the code     *)
(*                        does not look at the escaped code point, the standard does)                             *)
(*   strings              12.9.4: up to the first unescaped closing quote; only when terminated and every '\' is   *)
(*                        followed by a LineTerminatorSequence or a character that is not a digit, 'x' or 'u'     *)
(*                        (legacy octal, malformed \x / \u: open)                                                 *)
(*   comments             12.4: '//' up to the next LineTerminator, '/*' up to the first '*/', and                *)
(*                        CommentLineTerminator iff a LineTerminator is inside (TokenInv); not Annex B comments   *)
(*   line terminators     12.3: exactly one LineTerminatorSequence (LF, CR, CR LF, U+2028/9) followed by none     *)
(*   white space          12.2: exactly one WhiteSpace code point followed by none; whether a run of several is   *)
(*                        one token is left open by the statement (JsTokens.tla, readings and R5)                 *)
(*   regular expressions  12.9.5 (ReLang), whenever the driver calls RegExp() and it returns a token              *)
(* and FALSE for every error report, for everything after a place where clause 12 knows no token (~clean).        *)
LtSeqs == {<<"nl">>, <<"cr">>, <<"cr", "nl">>, <<"uls">>}
IdLike(tt) == tt = "Identifier" \/ tt = "PrivateIdentifier" \/ tt \in J!KwWords
NumFollowOK(hi) == B(hi) \notin IdStartA \cup Digits \cup {"uletter", "bslash"}
\* the characters input[i..e-1] of a terminated string whose closing quote is input[e]
RECURSIVE StrEscOK(_, _)
StrEscOK(i, e) == IF i >= e THEN TRUE
                  ELSE IF input[i] # "bslash" THEN StrEscOK(i + 1, e)
                  ELSE IF input[i + 1] \in Digits \cup {"letter_x", "letter_u"} THEN FALSE
                  ELSE IF input[i + 1] = "cr" /\ input[i + 2] = "nl" THEN StrEscOK(i + 3, e)
                  ELSE StrEscOK(i + 2, e)
NoBslash(lo, hi) == \A i \in (lo + 1)..hi : input[i] # "bslash"
HtmlOpenerAt(p) == \/ B(p) = "lt" /\ B(p + 1) = "bang" /\ B(p + 2) = "dash" /\ B(p + 3) = "dash"
                   \/ B(p) = "dash" /\ B(p + 1) = "dash" /\ B(p + 2) = "gt"
\* clause 12 knows no token here (or the class abstraction cannot tell): this token and everything after it is open
LexErr(r) == LET lo == r.hi - r.n IN
    \/ r.tt \in Numeric /\ ~NumFollowOK(r.hi)
    \/ r.tt = "String" /\ ~StrEscOK(lo + 2, r.hi)
    \/ IdLike(r.tt) /\ ~(NoBslash(lo, r.hi) /\ B(r.hi) # "bslash")
Det(r) ==
    LET lo == r.hi - r.n IN
    /\ clean /\ r.tt # "Error"
    /\ IF redo THEN r.tt = "RegExp"
       ELSE CASE r.tt = "Whitespace" -> r.n = 1 /\ B(r.hi) \notin {"ws", "uws"}
              [] r.tt = "LineTerminator" -> SubSeq(input, lo + 1, r.hi) \in LtSeqs
              [] r.tt \in {"Comment", "CommentLineTerminator"} -> r.sub # "html"
              [] r.tt = "}" -> pok /\ J!Allowed(<<"p.}">>, pstk, Deep)
              [] r.tt \in {"TemplateMiddle", "TemplateEnd"} -> pok /\ J!Allowed(<<"tmpl.tail">>, pstk, Deep)
              [] r.tt \in {"Template", "TemplateStart"} -> TRUE
              [] r.tt \in Numeric -> ~LexErr(r) \/ Defect = "det_num_follow"
              [] r.tt = "String" \/ IdLike(r.tt) -> ~LexErr(r)
              [] r.tt \in PunctNames \ {"}"} -> ~HtmlOpenerAt(pos)
              [] OTHER -> FALSE

(* ---- the replay case ---- *)
CaseFile == IOEnv.VERIF_CASES
\* pre: what Next had returned ('/' or '/=') when the report is RegExp()'s
Report(r, viaRe) == [tt |-> r.tt, n |-> r.n, hi |-> r.hi, re |-> viaRe, err |-> r.err, det |-> r.det, pre |-> IF viaRe THEN out.tt ELSE ""]
EmitCase(h) == Emit => CSVWrite("%1$s", <<ToJson([cls |-> input, toks |-> h])>>, CaseFile)

\* (\E r \in {e} : ...  makes TLC evaluate e once)
Step ==
    /\ ~halted
    /\ \E r0 \in {IF redo THEN RegExpCall ELSE NextCall} : \E r \in {[r0 EXCEPT !.det = Det(r0)]} :
       /\ out' = r
       /\ pos' = r.hi /\ prevLT' = r.plt /\ prevNum' = r.pnum /\ level' = r.lvl /\ tl' = r.tls
       /\ UNCHANGED input
       /\ IF ~redo /\ r.tt \in {"/", "/="} /\ ReWanted
          THEN \* the driver asks for the regular expression: nothing is reported yet
               /\ redo' = TRUE
               /\ UNCHANGED <<prevSig, halted, hist, gEnd, pstk, pok, gs, gbal, base, clean>>
          ELSE /\ redo' = FALSE
               /\ hist' = Append(hist, Report(r, redo))
               /\ IF r.tt = "Error"
                  THEN /\ halted' = TRUE
                       /\ EmitCase(hist')
                       /\ UNCHANGED <<prevSig, gEnd, pstk, pok, gs, gbal, base, clean>>
                  ELSE /\ halted' = FALSE
                       /\ prevSig' = (IF r.tt \in Trivia THEN prevSig ELSE r.tt)
                       /\ gEnd' = r.hi
                       /\ pok' = (pok /\ J!Allowed(UnitOf(r.tt), pstk, Deep))
                       /\ pstk' = (IF pok' THEN J!Effect(UnitOf(r.tt), pstk) ELSE pstk)
                       /\ \E g \in {Ghost(r.tt)} : gs' = g.gs /\ gbal' = g.gbal /\ base' = g.base
                       /\ clean' = (clean /\ (redo \/ ~LexErr(r)))

Next == Step
Spec == Init /\ [][Next]_ivars

(***************************************************************************)
(* I => P                                                                  *)
(***************************************************************************)
o == out'
Reported == ~redo'                       \* this step reported a token (or the error) to the driver's caller
Lo == o.hi - o.n
Text(lo, hi) == SubSeq(input, lo + 1, hi)

(* ---- (a) proto/TokenStream.tla ---- *)
TokRec == [err |-> FALSE, kname |-> o.tt, n |-> o.n, al |-> TRUE, lo |-> Lo, hi |-> o.hi, off |-> pos', capEq |-> TRUE,
           relex |-> TRUE, gap |-> {}, edits |-> {}, subsIn |-> TRUE]
ErrRec == [err |-> TRUE, kname |-> "Error", n |-> 0, al |-> FALSE, lo |-> 0, hi |-> 0, off |-> pos', capEq |-> TRUE, relex |-> TRUE,
           gap |-> {}, edits |-> {}, subsIn |-> TRUE]
TStep == IF ~Reported THEN gEnd' = gEnd /\ halted' = halted
         ELSE IF o.tt = "Error" THEN T!Tok(ErrRec) ELSE T!Tok(TokRec)
RefinesTok == [][TStep]_ivars

(* ---- (b) exactly one error report, at the end ---- *)
OneError == /\ \A i \in 1..Len(hist) : (hist[i].tt = "Error") <=> (halted /\ i = Len(hist))
            /\ (halted => hist # <<>>)
            /\ gEnd <= N /\ (~halted /\ ~redo => pos = gEnd)
Progress == [][~halted' /\ Reported => gEnd' > gEnd]_ivars

(* ---- (c) longest match, canonical names, neighbours, number language ---- *)
Min(a, b) == IF a < b THEN a ELSE b
Ahead == [i \in 1..Min(4, N - pos) |-> Ch(input[pos + i])]          \* no token or opener of JsTokens.tla is longer than 4
PunctFirst == {q[1] : q \in J!Q}
\* JsTokens!FirstLen, with its candidates Q indexed by their first character once (it is evaluated at every step)
QBy == [ch \in PunctFirst |-> {q \in J!Q : q[1] = ch}]
FirstLenBy(s) == J!MaxOf({Len(q) : q \in {r \in QBy[s[1]] : J!IsPrefix(r, s) /\ J!Viable(r, s)}})
ASSUME \A q \in J!Q : \A x \in {<<>>} \cup {<<c>> : c \in PunctFirst \cup {"d", "i", "x"}} : FirstLenBy(q \o x) = J!FirstLen(q \o x)
IsCont(r) == r.tt \in {"TemplateMiddle", "TemplateEnd"} \/ (r.tt = "Error" /\ r.err = "unterminated template literal")
LongestMatchStep ==
    (~redo /\ pos < N /\ Ahead[1] \in PunctFirst /\ ~(B(pos) = "rbrace" /\ IsCont(o))) =>
        LET L == FirstLenBy(Ahead)
            q == SubSeq(Ahead, 1, L)
        IN IF q \in J!PunctSeqs THEN o.tt = J!Join(q) /\ o.n = L
           ELSE IF q \in {<<"/", "/">>, <<"/", "*">>} THEN o.tt \in {"Comment", "CommentLineTerminator", "Error"} /\ o.hi >= pos + 2
           ELSE IF q = <<".", "d">> THEN o.tt \in {"Decimal", "Error"} /\ o.hi >= pos + 2
           ELSE TRUE        \* '<!--' and '-->': Annex B, outside the property
LongestMatch == [][LongestMatchStep]_ivars

RECURSIVE BytesOf(_)
BytesOf(t) == IF t = <<>> THEN <<>>
              ELSE (CASE t[1] = "nl" -> <<10>> [] t[1] = "cr" -> <<13>> [] t[1] = "uls" -> <<226, 128, 168>> [] OTHER -> <<120>>) \o BytesOf(Tail(t))
Spelling(t) == J!Join([i \in 1..Len(t) |-> IF t[i] \in KwAtoms THEN KwName[t[i]] ELSE Ch(t[i])])
TokenInvStep ==
    (Reported /\ o.tt # "Error") =>
        LET t == Text(Lo, o.hi) IN
        /\ (Len(t) = 1 /\ t[1] \in KwAtoms => o.tt = KwName[t[1]])        \* a keyword standing alone is reported as that keyword
        /\ IF o.tt \in PunctNames \cup J!KwWords
           THEN J!TokenInv([kname |-> o.tt, cls |-> IF o.tt \in PunctNames THEN "punct" ELSE "kw", text |-> Spelling(t), canon |-> o.tt])
           ELSE J!TokenInv([kname |-> o.tt, cls |-> "", text |-> BytesOf(t), canon |-> <<>>])
TokenInvP == [][TokenInvStep]_ivars

\* the class (field c of an atom of JsTokens.tla) of a reported token
ClassOfTok(tt, lo, hi) ==
    CASE tt = "Identifier" \/ tt \in J!KwWords -> "id"
      [] tt = "PrivateIdentifier" -> "priv"
      [] tt = "RegExp" -> "reflags"
      [] tt = "Integer" -> (IF input[hi] = "letter_n" THEN "num" ELSE "int")
      [] tt \in Numeric -> "num"
      [] tt = "String" -> "str"
      [] tt = "Template" -> "tmpl" [] tt = "TemplateStart" -> "thead" [] tt = "TemplateMiddle" -> "tmid" [] tt = "TemplateEnd" -> "ttail"
      [] tt = "Whitespace" -> "ws" [] tt = "LineTerminator" -> "lt"
      [] tt \in {"Comment", "CommentLineTerminator"} -> (IF input[lo + 1] = "slash" /\ input[lo + 2] = "star" THEN "cmtm" ELSE "cmt1")
      [] OTHER -> "punct"
AdjacentStep ==
    (Reported /\ o.tt # "Error" /\ hist # <<>>) =>
        LET pr == hist[Len(hist)]
            a  == [c |-> ClassOfTok(pr.tt, pr.hi - pr.n, pr.hi), h |-> <<>>]
            bc == ClassOfTok(o.tt, Lo, o.hi)
            b  == [c |-> bc, h |-> <<IF bc = "id" THEN "i" ELSE Ch(input[Lo + 1])>>]
        IN J!Common(a, b) => (a.c = "num" /\ b.h[1] = "d")     \* '0b12', '1n2': only identifiers are refused after a number
Adjacent == [][AdjacentStep]_ivars

\* ECMA-262 12.9.3 on classes
DigSeq(t, D) == /\ t # <<>> /\ t[1] \in D /\ t[Len(t)] \in D
                /\ \A i \in 1..Len(t) : t[i] \in D \cup {"underscore"}
                /\ \A i \in 1..(Len(t) - 1) : ~(t[i] = "underscore" /\ t[i + 1] = "underscore")
IntPart(t) == t = <<"digit0">> \/ (t # <<>> /\ t[1] \in Digits \ {"digit0"} /\ DigSeq(t, Digits))
ExpPart(t) == /\ Len(t) >= 2 /\ t[1] = "letter_e"
              /\ DigSeq(IF t[2] \in {"plus", "dash"} THEN SubSeq(t, 3, Len(t)) ELSE Tail(t), Digits)
WithSuffix(t, P(_)) == P(t) \/ (Len(t) >= 2 /\ t[Len(t)] = "letter_n" /\ P(Pop(t)))
IsInteger(t) == WithSuffix(t, IntPart)
IsDecimal(t) ==
    \/ \E d \in 1..Len(t) : /\ t[d] = "dot"
                            /\ \E e \in d..Len(t) :
                                  LET A == SubSeq(t, 1, d - 1)  F == SubSeq(t, d + 1, e)  E == SubSeq(t, e + 1, Len(t))
                                  IN /\ (A = <<>> \/ IntPart(A)) /\ (F = <<>> \/ DigSeq(F, Digits)) /\ (E = <<>> \/ ExpPart(E))
                                     /\ (A # <<>> \/ F # <<>>)
    \/ \E e \in 1..(Len(t) - 1) : IntPart(SubSeq(t, 1, e)) /\ ExpPart(SubSeq(t, e + 1, Len(t)))
IsPrefixed(t, x, D) == /\ Len(t) >= 3 /\ t[1] = "digit0" /\ t[2] = x
                       /\ LET r == SubSeq(t, 3, Len(t)) IN DigSeq(r, D) \/ (Len(r) >= 2 /\ r[Len(r)] = "letter_n" /\ DigSeq(Pop(r), D))
NumLangStep ==
    (Reported /\ o.tt \in Numeric) =>
        LET t == Text(Lo, o.hi) IN
        CASE o.tt = "Integer" -> IsInteger(t)
          [] o.tt = "Decimal" -> IsDecimal(t)
          [] o.tt = "Hexadecimal" -> IsPrefixed(t, "letter_x", HexDigits)
          [] o.tt = "Octal" -> IsPrefixed(t, "letter_o", OctDigits)
          [] o.tt = "Binary" -> IsPrefixed(t, "letter_b", BinDigits)
NumLang == [][NumLangStep]_ivars

\* ECMA-262 12.9.5 on classes: t is  / RegularExpressionBody / RegularExpressionFlags
IsLT(c) == c \in {"nl", "cr", "uls"}
RECURSIVE BodyOK(_, _, _)
BodyOK(b, i, inClass) ==
    IF i > Len(b) THEN ~inClass
    ELSE LET c == b[i] IN
         IF IsLT(c) THEN FALSE
         ELSE IF c = "bslash" THEN i + 1 <= Len(b) /\ ~IsLT(b[i + 1]) /\ BodyOK(b, i + 2, inClass)      \* RegularExpressionBackslashSequence
         ELSE IF inClass THEN BodyOK(b, i + 1, c # "rbrack")                                          \* RegularExpressionClassChar
         ELSE IF c = "slash" THEN FALSE
         ELSE BodyOK(b, i + 1, c = "lbrack")
IsFlagChar(c) == c \in IdContA \cup {"uletter", "ucont"}                                               \* IdentifierPartChar
IsReLiteral(t) ==
    /\ Len(t) >= 3 /\ t[1] = "slash" /\ t[2] # "star"
    /\ \E k \in 3..Len(t) : /\ t[k] = "slash" /\ BodyOK(SubSeq(t, 2, k - 1), 1, FALSE)
                             /\ \A j \in (k + 1)..Len(t) : IsFlagChar(t[j])
\* "RegExp() re-reads a well-formed regular-expression literal ... as one RegExpToken": the longest one, and an error only
\* where no literal starts
ReLangStep ==
    redo =>
        IF o.tt = "RegExp" THEN /\ Lo = gEnd /\ IsReLiteral(Text(Lo, o.hi))
                                /\ (o.hi < N => ~IsFlagChar(input[o.hi + 1]))
        ELSE o.tt = "Error" /\ \A m \in (gEnd + 1)..N : ~IsReLiteral(Text(gEnd, m))
ReLang == [][ReLangStep]_ivars

(* ---- (e) det is sound: a token flagged det is the one the declarative definition yields ---- *)
(* Clause 12 as languages on classes (the number and regular-expression languages are NumLang's and ReLang's);    *)
(* identifiers without \u escapes and strings with the plain escapes only - Det flags nothing else.               *)
IdStartC(c) == c \in IdStartA \cup {"uletter"}                        \* 12.7 IdentifierStartChar
IdPartC(c)  == c \in IdContA \cup {"uletter", "ucont"}                \* 12.7 IdentifierPartChar
IsIdName(t) == t # <<>> /\ IdStartC(t[1]) /\ \A i \in 2..Len(t) : IdPartC(t[i])
RECURSIVE StrChars(_, _, _), TmplChars(_, _)
\* 12.9.4 DoubleStringCharacters / SingleStringCharacters: b from i on, q the quote
StrChars(b, i, q) ==
    IF i > Len(b) THEN TRUE
    ELSE IF b[i] = q \/ b[i] \in {"nl", "cr"} THEN FALSE                                          \* U+2028 / U+2029 are allowed
    ELSE IF b[i] # "bslash" THEN StrChars(b, i + 1, q)
    ELSE /\ i + 1 <= Len(b)
         /\ IF b[i + 1] = "cr" THEN StrChars(b, IF i + 2 <= Len(b) /\ b[i + 2] = "nl" THEN i + 3 ELSE i + 2, q)     \* LineContinuation
            ELSE IF IsLT(b[i + 1]) THEN StrChars(b, i + 2, q)
            ELSE b[i + 1] \notin Digits \cup {"letter_x", "letter_u"} /\ StrChars(b, i + 2, q)       \* CharacterEscapeSequence
IsStr(t) == Len(t) >= 2 /\ t[1] \in {"dquote", "squote"} /\ t[Len(t)] = t[1] /\ StrChars(SubSeq(t, 2, Len(t) - 1), 1, t[1])
\* 12.9.6 TemplateCharacters: no '`', no '${'; a '\' takes the next character with it
TmplChars(b, i) ==
    IF i > Len(b) THEN TRUE
    ELSE IF b[i] = "backtick" THEN FALSE
    ELSE IF b[i] = "dollar" /\ i + 1 <= Len(b) /\ b[i + 1] = "lbrace" THEN FALSE
    ELSE IF b[i] = "bslash" THEN i + 1 <= Len(b) /\ TmplChars(b, i + 2)
    ELSE TmplChars(b, i + 1)
TmplKind(t) ==
    IF Len(t) >= 2 /\ t[Len(t)] = "backtick" /\ TmplChars(SubSeq(t, 2, Len(t) - 1), 1)
    THEN (IF t[1] = "backtick" THEN "Template" ELSE "TemplateEnd")
    ELSE IF Len(t) >= 3 /\ t[Len(t) - 1] = "dollar" /\ t[Len(t)] = "lbrace" /\ TmplChars(SubSeq(t, 2, Len(t) - 2), 1)
    THEN (IF t[1] = "backtick" THEN "TemplateStart" ELSE "TemplateMiddle")
    ELSE "none"
\* 12.4
IsLineCmt(t)  == Len(t) >= 2 /\ t[1] = "slash" /\ t[2] = "slash" /\ \A i \in 3..Len(t) : ~IsLT(t[i])
IsBlockCmt(t) == /\ Len(t) >= 4 /\ t[1] = "slash" /\ t[2] = "star" /\ t[Len(t) - 1] = "star" /\ t[Len(t)] = "slash"
                 /\ \A i \in 3..(Len(t) - 2) : ~(t[i] = "star" /\ t[i + 1] = "slash")
NumKind(t) == IF IsInteger(t) THEN "Integer" ELSE IF IsDecimal(t) THEN "Decimal"
              ELSE IF IsPrefixed(t, "letter_x", HexDigits) THEN "Hexadecimal" ELSE IF IsPrefixed(t, "letter_o", OctDigits) THEN "Octal"
              ELSE IF IsPrefixed(t, "letter_b", BinDigits) THEN "Binary" ELSE "none"
\* the kind of token the text t is ("none": it is not one); cont: the goal symbol is InputElementTemplateTail. Punctuators: see Presc
DeclKind(t, cont) ==
    LET c == t[1] IN
    IF c \in {"ws", "uws"} THEN (IF Len(t) = 1 THEN "Whitespace" ELSE "none")                      \* 12.2, one code point
    ELSE IF IsLT(c) THEN (IF t \in {<<"nl">>, <<"cr">>, <<"cr", "nl">>, <<"uls">>} THEN "LineTerminator" ELSE "none")   \* 12.3
    ELSE IF c \in Digits \/ c = "dot" THEN NumKind(t)
    ELSE IF c = "slash" THEN (IF IsLineCmt(t) THEN "Comment"
                              ELSE IF IsBlockCmt(t) THEN (IF \E i \in DOMAIN t : IsLT(t[i]) THEN "CommentLineTerminator" ELSE "Comment")
                              ELSE "none")
    ELSE IF c \in {"dquote", "squote"} THEN (IF IsStr(t) THEN "String" ELSE "none")
    ELSE IF c = "backtick" \/ (c = "rbrace" /\ cont) THEN TmplKind(t)
    ELSE IF c = "hash" THEN (IF IsIdName(Tail(t)) THEN "PrivateIdentifier" ELSE "none")
    ELSE IF IsIdName(t) THEN (IF Len(t) = 1 /\ c \in KwAtoms THEN KwName[c] ELSE "Identifier")
    ELSE "none"
None == [tt |-> "none", hi |-> -1]
\* the longest text at pos that is a token, unless a follow restriction makes it none
LangAt(cont) ==
    LET ms == {m \in (pos + 1)..N : DeclKind(Text(pos, m), cont) # "none"} IN
    IF ms = {} THEN None
    ELSE LET m  == J!MaxOf(ms)
             k  == DeclKind(Text(pos, m), cont)
             nx == B(m)
         IN IF k \in Numeric /\ nx \in IdStartA \cup Digits \cup {"uletter", "bslash"} THEN None      \* 12.9.3: not before IdentifierStart / DecimalDigit
            ELSE IF IdLike(k) /\ nx = "bslash" THEN None                                            \* an escape may continue it
            ELSE IF k = "Whitespace" /\ nx \in {"ws", "uws"} THEN None                               \* R5: runs are open
            ELSE IF k = "LineTerminator" /\ IsLT(nx) THEN None
            ELSE [tt |-> k, hi |-> m]
\* what the property-level definition prescribes at pos in the bracket context pstk (None: nothing)
Presc ==
    LET cont == pok /\ J!Allowed(<<"tmpl.tail">>, pstk, Deep) IN
    IF B(pos) = "rbrace" THEN (IF cont THEN LangAt(TRUE)
                               ELSE IF pok /\ J!Allowed(<<"p.}">>, pstk, Deep) THEN [tt |-> "}", hi |-> pos + 1] ELSE None)
    ELSE IF Ahead[1] \in PunctFirst THEN
         LET L == FirstLenBy(Ahead)
             q == SubSeq(Ahead, 1, L)
         IN IF q \in J!PunctSeqs THEN [tt |-> J!Join(q), hi |-> pos + L]
            ELSE IF q \in {<<"<", "!", "-", "-">>, <<"-", "-", ">">>} THEN None           \* Annex B
            ELSE LangAt(FALSE)                                                         \* '//', '/*', '.d'
    ELSE LangAt(FALSE)
DetSoundStep ==
    (Reported /\ o.det) =>
        IF redo THEN /\ o.tt = "RegExp" /\ Lo = gEnd /\ IsReLiteral(Text(Lo, o.hi))
                     /\ (o.hi < N => ~IsFlagChar(input[o.hi + 1]))
        ELSE \E p \in {Presc} : p # None /\ Lo = pos /\ o.tt = p.tt /\ o.hi = p.hi
DetSound == [][DetSoundStep]_ivars
\* ... and the flag is not more timid than its territory: where the definition prescribes a token (and nothing before made the
\* rest open) the report is flagged, hence - by DetSound - is that token (checked in the thorough configurations *_t.cfg, whose
\* inputs include those of the quick ones)
DetCompleteStep == (Reported /\ ~redo /\ clean /\ pos < N) => (Presc # None => o.det)
DetComplete == [][DetCompleteStep]_ivars

(* ---- (d) level / templateLevels ---- *)
TIdx == SelectSeq([i \in 1..Len(gs) |-> i], LAMBDA i : gs[i] = "T")
MapInv == (~halted /\ gbal) => /\ level = base + Len(gs)
                               /\ tl = [k \in 1..Len(TIdx) |-> base + TIdx[k] - 1]
LevelInv == (~halted /\ gbal /\ base = 0) => level >= 0
BraceStep ==
    (~redo /\ B(pos) = "rbrace") =>
        /\ (gbal => (IsCont(o) <=> (gs # <<>> /\ Top(gs) = "T")))
        /\ (pok => /\ (J!Allowed(<<"tmpl.tail">>, pstk, Deep) => IsCont(o))
                   /\ (J!Allowed(<<"p.}">>, pstk, Deep) => o.tt = "}"))
Brackets == [][BraceStep]_ivars
=============================================================================
