------------------------------ MODULE Printer ------------------------------
(***************************************************************************)
(* Property-level specification (kind P) for C05: printing a JS tree and   *)
(* parsing the text again gives the same tree.                             *)
(*                                                                         *)
(* The property is a protocol over what is observed for ONE input under    *)
(* ONE value of js.Options (the same value is used for both parses):       *)
(*                                                                         *)
(*   Open(utf8)        the input; utf8 = it is valid UTF-8                 *)
(*   Parse1(ok)        js.Parse(input, o)                                  *)
(*   Print1            text1 = AST.JS() of the first tree                  *)
(*   Literals(missing) the string / template / regular-expression /        *)
(*                     numeric literal tokens in expression position and   *)
(*                     the preserved comments of the SOURCE that do not    *)
(*                     occur byte for byte in text1                        *)
(*   Parse2(ok)        js.Parse(text1, o)                                  *)
(*   Trees(equal)      first and second tree compared with the parenthesis *)
(*                     (GroupExpr) nodes removed on both sides             *)
(*   Print2(same)      text2 = AST.JS() of the second tree; same = (text2  *)
(*                     = text1)                                            *)
(*                                                                         *)
(* Every action takes the observed result as its parameter and is enabled  *)
(* exactly when the statement allows that result.  The statement speaks    *)
(* about valid UTF-8 inputs that Parse accepts; for any other input every  *)
(* result is allowed (scope = FALSE) - the harness does not even record    *)
(* such inputs.  Nothing is said about panics: a call that does not return *)
(* is explained by no action (see PrinterTrace).                           *)
(*                                                                         *)
(* Rules (a)-(d) of the statement:                                         *)
(*   (a) Parse2 must accept                    Parse2(ok) needs ok         *)
(*   (b) same tree up to parentheses           Trees(equal) needs equal    *)
(*   (c) the printer is a fixed point          Print2(same) needs same     *)
(*   (d) literal fidelity at any indentation   Literals(m) needs m = <<>>  *)
(* The order of Literals / Trees / Print2 is not prescribed (each is a     *)
(* function of texts and trees that exist by then); each is reported once. *)
(***************************************************************************)
EXTENDS Integers, Sequences, FiniteSets

VARIABLES phase,   \* "idle" | "opened" | "parsed1" | "printed1" | "parsed2" | "out" (outside the property's quantifier)
          scope,   \* the input is one the statement speaks about (valid UTF-8; after Parse1: and accepted)
          did      \* which of the rules "lit", "tree", "fix" have been reported for this input
pvars == <<phase, scope, did>>

Phases == {"idle", "opened", "parsed1", "printed1", "parsed2", "out"}
Rules  == {"lit", "tree", "fix"}

TypeOK == phase \in Phases /\ scope \in BOOLEAN /\ did \subseteq Rules

Init == phase = "idle" /\ scope = FALSE /\ did = {}

Open(utf8) ==
    /\ utf8 \in BOOLEAN
    /\ phase' = "opened" /\ scope' = utf8 /\ did' = {}

Parse1(ok) ==
    /\ phase = "opened"
    /\ ok \in BOOLEAN                      \* the statement does not say which inputs are accepted (that is C03)
    /\ phase' = IF ok /\ scope THEN "parsed1" ELSE "out"
    /\ scope' = (scope /\ ok)
    /\ UNCHANGED did

Print1 ==
    /\ phase = "parsed1"
    /\ phase' = "printed1"
    /\ UNCHANGED <<scope, did>>

\* (d) every literal token in expression position and every preserved comment of the source occurs in text1
Literals(missing) ==
    /\ phase \in {"printed1", "parsed2"}
    /\ "lit" \notin did
    /\ missing = <<>>
    /\ did' = did \cup {"lit"}
    /\ UNCHANGED <<phase, scope>>

\* (a) the printed text is accepted (same Options)
Parse2(ok) ==
    /\ phase = "printed1"
    /\ ok = TRUE
    /\ phase' = "parsed2"
    /\ UNCHANGED <<scope, did>>

\* (b) identical trees except for parenthesis nodes
Trees(equal) ==
    /\ phase = "parsed2"
    /\ "tree" \notin did
    /\ equal = TRUE
    /\ did' = did \cup {"tree"}
    /\ UNCHANGED <<phase, scope>>

\* (c) printing the second tree reproduces text1 byte for byte
Print2(same) ==
    /\ phase = "parsed2"
    /\ "fix" \notin did
    /\ same = TRUE
    /\ did' = did \cup {"fix"}
    /\ UNCHANGED <<phase, scope>>

\* an input outside the quantifier: anything may be observed
Outside == phase = "out" /\ UNCHANGED pvars

\* ------------------------------------------------------------------ a closed system for model checking P by itself
\* (PrinterMC.cfg): all results the environment could report; TLC shows which are allowed and that a complete
\* round trip reports every rule exactly once.
Next == \/ \E u \in BOOLEAN : Open(u)
        \/ \E ok \in BOOLEAN : Parse1(ok)
        \/ Print1
        \/ \E m \in {<<>>, <<1>>} : Literals(m)
        \/ \E ok \in BOOLEAN : Parse2(ok)
        \/ \E q \in BOOLEAN : Trees(q)
        \/ \E s \in BOOLEAN : Print2(s)
Spec == Init /\ [][Next]_pvars

Complete == phase = "parsed2" /\ did = Rules
\* rules are only ever reported for inputs in scope, and tree/fixed-point rules only after an accepted second parse
Inv == /\ TypeOK
       /\ (did # {} => scope /\ phase \in {"printed1", "parsed2"})
       /\ (did \cap {"tree", "fix"} # {} => phase = "parsed2")
       /\ (phase \in {"parsed1", "printed1", "parsed2"} => scope)
=============================================================================
