SPECIFICATION Spec
CONSTANTS
  DefectAddRightAssoc = FALSE
  MaxLen = 5
  Ops = {"eq", "nullish", "oror", "andand", "bitor", "add", "exp"}
INVARIANT Unambiguous
INVARIANT ClimbEqualsLadder
CHECK_DEADLOCK FALSE
