SPECIFICATION Spec
CONSTANTS
  Cons <- ExprFull
  Terms = {"semi"}
  MaxE = 3
  MaxS = 1
  MaxX = 2
  MaxP = 0
  MaxL = 0
  MaxTop = 1
CHECK_DEADLOCK FALSE
