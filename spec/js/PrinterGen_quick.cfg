SPECIFICATION Spec
CONSTANTS
  MaxNest = 1
  Depths = {2}
  Lits = {"tpl", "str", "re", "cmt"}
  StartFams = TRUE
INVARIANTS EmitInv VocabInv
CHECK_DEADLOCK FALSE
