------------------------------- MODULE Walk -------------------------------
(***************************************************************************)
(* Property-level specification (kind P) for C18: the sequences of         *)
(* Enter/Exit calls that js.Walk may make on a given tree under a given    *)
(* visitor policy.  The tree is ground truth obtained independently of     *)
(* Walk (by reflection over the AST): node ids 1..N, par[n] the parent     *)
(* (0 for the root), Req the statement / expression / binding / identifier *)
(* nodes the statement says must be passed to Enter.                       *)
(***************************************************************************)
EXTENDS Integers, Sequences, FiniteSets

VARIABLES par,       \* Seq: par[n] = parent of node n, 0 for the root
          req,       \* set of required nodes
          stack,     \* nodes whose Enter returned a visitor and whose Exit is outstanding, innermost last
          entered,   \* nodes passed to Enter
          stopped,   \* nodes whose Enter returned nil
          exited     \* nodes passed to Exit
wvars == <<par, req, stack, entered, stopped, exited>>

N == Len(par)
RECURSIVE Anc(_)
Anc(n) == IF n = 0 \/ par[n] = 0 THEN {} ELSE {par[n]} \cup Anc(par[n])      \* proper ancestors
RECURSIVE Reaches(_, _)
Reaches(a, t) == IF a = 0 THEN FALSE ELSE IF a = t THEN TRUE ELSE Reaches(par[a], t)
RECURSIVE ChainOK(_, _)
ChainOK(a, os) == IF a = 0 THEN TRUE ELSE IF a \in entered /\ a \notin os THEN FALSE ELSE ChainOK(par[a], os)
RECURSIVE UnderStopped(_)
UnderStopped(a) == IF a = 0 THEN FALSE ELSE IF a \in stopped THEN TRUE ELSE UnderStopped(par[a])
OnStack == {stack[i] : i \in 1..Len(stack)}
Top == IF stack = <<>> THEN 0 ELSE stack[Len(stack)]

Open(p, r) == par' = p /\ req' = r /\ stack' = <<>> /\ entered' = {} /\ stopped' = {} /\ exited' = {}

\* Enter(n) with cont = the visitor returned is not nil.  n = -1: a node that is not part of the tree.
Enter(n, cont) ==
    /\ n \in 1..N                                   \* nothing is visited that is not part of the tree
    /\ n \notin entered                             \* once
    /\ (stack = <<>> => par[n] = 0)                 \* the walk starts at the root
    \* (the ancestors and the stack are computed once per step: deep trees make them large)
    /\ (stack # <<>> => Reaches(par[n], Top))
    /\ \E os \in {OnStack} : ChainOK(par[n], os)
    /\ entered' = entered \cup {n}
    /\ stack' = (IF cont THEN Append(stack, n) ELSE stack)
    /\ stopped' = (IF cont THEN stopped ELSE stopped \cup {n})
    /\ UNCHANGED <<par, req, exited>>

Exit(n) ==
    /\ stack # <<>> /\ n = Top                       \* only for a node whose Enter returned a visitor, after all its children
    /\ stack' = SubSeq(stack, 1, Len(stack) - 1)
    /\ exited' = exited \cup {n}
    /\ UNCHANGED <<par, req, entered, stopped>>

\* Walk returned: everything is closed and every required node was entered unless it lies under a stopped node
Done ==
    /\ stack = <<>>
    /\ \A r \in req : r \in entered \/ UnderStopped(par[r])
    /\ UNCHANGED wvars
=============================================================================
