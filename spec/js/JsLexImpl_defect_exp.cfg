SPECIFICATION Spec
CONSTANTS
  Alphabet = {"digit", "letter_e", "plus"}
  MaxLen = 3
  Emit = FALSE
  ReMode = "grammar"
  Defect = "exp_no_digits"
INVARIANT OneError
INVARIANT MapInv
INVARIANT LevelInv
PROPERTY RefinesTok
PROPERTY Progress
PROPERTY LongestMatch
PROPERTY TokenInvP
PROPERTY Adjacent
PROPERTY NumLang
PROPERTY ReLang
PROPERTY Brackets
CHECK_DEADLOCK FALSE
