--------------------------- MODULE JsTreeTrace ---------------------------
(***************************************************************************)
(* Trace specification (kinds P + T) for C03, code -> spec direction:      *)
(* for ANY program js.Parse accepts (test literals, generator programs,    *)
(* their mutations) the RETURNED TREE is judged against the grammar.       *)
(*                                                                         *)
(* A trace is one accepted program:                                        *)
(*   Open{src, toks, alt, nl, toks2, alt2, nl2}                            *)
(*        src    the input bytes                                           *)
(*        toks   the significant tokens of the input as js.Lexer yields    *)
(*               them (no white space, comments, line terminators), every  *)
(*               distinct token text numbered 1, 2, ... in order of first  *)
(*               appearance (an injective renaming done by the harness;    *)
(*               comparing is done here), closed by the sentinel 0         *)
(*        alt    per token: the number of the text between the quotes if   *)
(*               the token is a string literal, else 0 (property names:    *)
(*               the tree keeps 'a' and "a" as the name a)                 *)
(*        nl     per token: 1 if a line terminator precedes it             *)
(*        toks2/alt2/nl2  a second reading, when one '/' of the input can  *)
(*               start a division or a regular expression literal and only *)
(*               the syntactic grammar decides (empty if there is none)    *)
(*   Node{d, k, op, n, ck, g, fx, ff}   the nodes of the tree in pre-order *)
(*        d      depth (root 0)         k, op   kind / operator in the     *)
(*               vocabulary of JsGrammar.tla (extended below)              *)
(*        n, ck  number of children and their kinds                        *)
(*        g      n + 1 groups of TERMINALS the node owns itself: g[1]      *)
(*               stands before the first child, g[j + 1] after child j.    *)
(*               A terminal is 16 * (number of its text) + mode, see Item  *)
(*               (a rejected trace names the terminal and the input token  *)
(*               by these numbers; the harness keeps the texts)            *)
(*        fx, ff the [Yield, Await, Return] context the node gives its     *)
(*               children from child number ff on ("" : inherited)         *)
(*   Close{}                                                               *)
(*                                                                         *)
(* What is demanded of the tree (the property: "builds the tree the        *)
(* grammar prescribes"):                                                   *)
(*  YIELD   the terminals of the tree, in order, are exactly the tokens of *)
(*          the input: the parser neither drops, invents nor reorders a    *)
(*          token.  Where the tree does not record a token (a ';' that may *)
(*          have been inserted automatically, the braces of a loop body,   *)
(*          a trailing comma, `a => b` against `a => {return b}`, `new a`  *)
(*          against `new a()`) the terminal is optional / part of a group  *)
(*          that is present or absent as a whole; matching is exact for    *)
(*          this pattern language (set of reachable match states).  The    *)
(*          restricted productions (return / throw / break / continue /    *)
(*          yield with operand, postfix ++ --, =>, async) carry a mark     *)
(*          "[no LineTerminator here]" that is checked against the input:  *)
(*          an automatic-semicolon decision that keeps a token in the      *)
(*          statement it must end shows here.                              *)
(*  LADDER  every expression operand fits the level the stratified grammar *)
(*          demands of it, by JsGrammar.tla's own Level / ChildReq /       *)
(*          ChildNoIn / Fits (a GroupExpr is a primary expression): wrong  *)
(*          precedence or associativity, ?? mixed with || or &&, a unary   *)
(*          operand of **, `in` bare in a for-initialiser, an arrow or     *)
(*          yield as operand, a call as callee of new, an optional chain   *)
(*          as tag of a template all show as a misfit.                     *)
(*  TARGET  an optional chain is not the target of an assignment / update  *)
(*          / for-in-of (JsGrammar!IsOptChain; ECMA-262 13.15.1, 13.4.1).  *)
(*  CONTEXT return only inside a function, yield only in a generator,      *)
(*          await not in a non-async function; the body of if / while /    *)
(*          do / with is not a lexical or class declaration.               *)
(* The skeleton is the standard one: TStart / TStep / TFail / TSkip.       *)
(***************************************************************************)
EXTENDS Integers, Sequences, FiniteSets, TraceIO

G == INSTANCE JsGrammar WITH Cons <- {}, Terms <- {}, MaxE <- 0, MaxS <- 0, MaxX <- 0, MaxL <- 0, MaxP <- 0, MaxTop <- 0,
                             word <- <<>>, holes <- <<>>, ne <- 0, ns <- 0, nx <- 0, np <- 0, nv <- 0, nleaf <- 0

VARIABLES l, bad, tk, S, st
tvars == <<l, bad, tk, S, st>>
e == Trace[l]

(* ------------------------------- YIELD: matching terminals against the token list ------------------------------- *)
(* A match state is <<reading, tokens consumed, flags of the open groups>>.                                          *)
Mode(x) == x % 16
Id(x) == x \div 16
Tok(s) == tk[s[1]].t[s[2] + 1]          \* the next unread token (0 at the end of the input)
Alt(s) == tk[s[1]].a[s[2] + 1]
NL(s) == tk[s[1]].n[s[2] + 1]           \* 1 if a line terminator stands between the previous token and the next unread one
Adv(s) == <<s[1], s[2] + 1, s[3]>>
Top(s) == s[3][Len(s[3])]
RECURSIVE StarClose(_, _)
StarClose(ss, x) == LET more == {Adv(s) : s \in {q \in ss : Tok(q) = x}} IN IF more \subseteq ss THEN ss ELSE StarClose(ss \cup more, x)
Item(ss, it) ==
    LET m == Mode(it)
        x == Id(it)
        hit == {Adv(s) : s \in {q \in ss : Tok(q) = x}}
    IN CASE m = 0 -> hit                                                                   \* the token
         [] m = 1 -> ss \cup hit                                                           \* the token, or nothing
         [] m = 2 -> {<<s[1], s[2], Append(s[3], b)>> : s \in ss, b \in BOOLEAN}            \* a group opens: present or absent
         [] m = 3 -> {<<s[1], s[2], SubSeq(s[3], 1, Len(s[3]) - 1)>> : s \in ss}           \* the group closes
         [] m = 4 -> {s \in ss : ~Top(s)} \cup {Adv(s) : s \in {q \in ss : Top(q) /\ Tok(q) = x}}      \* token of a present group
         [] m = 5 -> {s \in ss : Top(s)} \cup {Adv(s) : s \in {q \in ss : ~Top(q) /\ Tok(q) = x}}      \* token that stands for the absent group
         [] m = 6 -> ss \cup {Adv(s) : s \in {q \in ss : Top(q) /\ Tok(q) = x}}            \* optional token of a present group
         [] m = 7 -> {Adv(s) : s \in {q \in ss : Tok(q) # 0}}                              \* any one token
         [] m = 8 -> hit \cup {s \in ss : Tok(s) = 0}                                      \* the token, or the end of the input
         [] m = 9 -> StarClose(ss, x)                                                      \* the token any number of times
         [] m = 10 -> {Adv(s) : s \in {q \in ss : Tok(q) = x \/ Alt(q) = x}}               \* a property name: bare or as a string literal
         [] m = 11 -> {s \in ss : ~Top(s)} \cup {Adv(s) : s \in {q \in ss : Top(q) /\ (Tok(q) = x \/ Alt(q) = x)}}   \* ... of a present group
         [] m = 12 -> {s \in ss : NL(s) = 0}                                               \* [no LineTerminator here] (restricted productions)
RECURSIVE Run(_, _, _)
Run(ss, items, i) == IF i > Len(items) \/ ss = {} THEN ss ELSE Run(Item(ss, items[i]), items, i + 1)

(* ------------------------------- LADDER: the tree against JsGrammar's levels ------------------------------- *)
(* js.Parse keeps `new a` and `new a()` as the same node ("newx"): as an operand it is read as the higher of the two levels, as a parent as  *)
(* the weaker demand; an optional template `a?.`t`` ("otag") is never derivable and is reported at the node itself.                           *)
PK(k) == CASE k = "newx" -> "new0" [] k = "otag" -> "tag" [] OTHER -> k
CK(k) == CASE k = "newx" -> "newa" [] k = "otag" -> "tag" [] OTHER -> k
\* a for statement's operator spells which of init / condition / increment are there ("e" expression, "v" declaration, "-" absent);
\* JsGrammar's ForInit only looks at the first position
ForG(op) == IF op \in {"e--", "e-e", "ee-", "eee"} THEN "e--" ELSE IF op \in {"v--", "v-e", "ve-", "vee"} THEN "v--" ELSE "---"
\* kinds of the tree that the generator vocabulary lacks
ExtKinds == {"prog", "with", "export", "import", "directive", "comment", "pshi"}
ExtReq(f, i) == CASE f.k = "with" -> (IF i = 1 THEN G!LComma ELSE -1)
                  [] f.k = "export" -> (IF f.op = "default" THEN G!LAsg ELSE -1)
                  [] f.k = "pshi" -> (IF i = 2 THEN G!LAsg ELSE -1)
                  [] OTHER -> -1
\* the node as JsGrammar's operators see a parent: kind, operator, kinds of the children
PView(f) == [k |-> PK(f.k), op |-> (IF f.k = "for" THEN f.fop ELSE f.op), c |-> [j \in 1..Len(f.ck) |-> [k |-> CK(f.ck[j])]]]
Req(f, i) == IF f.k \in ExtKinds THEN ExtReq(f, i) ELSE G!ChildReq(PView(f), i)
NoInOf(f, i) == IF f.k \in ExtKinds THEN FALSE ELSE G!ChildNoIn(PView(f), i, f.noIn)
\* what is kept of a finished child: kind, operator and (recursively) its first child - all that Level / IsOptChain / Fits look at
Sk(k, op, first) == [k |-> CK(k), op |-> op, c |-> first]
RECURSIVE Strip(_)
Strip(t) == IF t.k = "grp" /\ t.c # <<>> THEN Strip(t.c[1]) ELSE t
Name(k, op) == k \o ":" \o op
BodySlot(f, i) == CASE f.k \in {"if", "while", "with"} -> i = 2 [] f.k = "ife" -> i \in {2, 3} [] f.k = "dow" -> i = 1 [] OTHER -> FALSE
CheckChild(f, i, sk) ==
    LET req == Req(f, i)
        noIn == NoInOf(f, i)
    IN IF ~G!Fits(sk, req, noIn)
         THEN IF noIn /\ sk.k = "bin" /\ sk.op = "in" THEN Name(f.k, f.op) \o "/bin:in/in-operator-where-the-grammar-excludes-it"
              ELSE IF req = G!STag /\ G!IsOptChain(sk) THEN "tag:/optchain:/optional-chain-as-template-tag"
              ELSE Name(f.k, f.op) \o "/" \o Name(sk.k, sk.op) \o "/operand-below-the-demanded-level"
       ELSE IF i = 1 /\ (f.k \in {"asg", "pre", "post"} \/ (f.k \in {"forin", "forof", "forawait"} /\ f.op = "e")) /\ G!IsOptChain(Strip(sk))
         THEN "target:/optchain:/optional-chain-as-assignment-target"
       ELSE IF BodySlot(f, i) /\ (sk.k = "cdecl" \/ (sk.k = "var" /\ sk.op \in {"let", "const"}) \/ (sk.k = "fdecl" /\ (f.k \notin {"if", "ife"} \/ sk.op # "")))
         THEN Name(f.k, f.op) \o "/" \o Name(sk.k, sk.op) \o "/declaration-as-body"
       ELSE ""
\* [Yield, Await, Return]: cx is one of top sblock fn gen async agen arrow aarrow
OwnCheck(ev, cx) ==
    IF ev.k \in {"ret0", "ret"} /\ cx \in {"top", "sblock"} THEN "ctx:" \o cx \o "/" \o Name(ev.k, ev.op) \o "/return-outside-function"
    ELSE IF ev.k \in {"yield0", "yield", "yields"} /\ cx \notin {"gen", "agen"} THEN "ctx:" \o cx \o "/" \o Name(ev.k, ev.op) \o "/yield-outside-generator"
    ELSE IF ((ev.k = "un" /\ ev.op = "await") \/ ev.k = "forawait") /\ cx \in {"fn", "gen", "arrow"} THEN "ctx:" \o cx \o "/" \o Name(ev.k, ev.op) \o "/await-outside-async"
    ELSE IF ev.k = "otag" THEN "tag:/optchain:/optional-chain-as-template-tag"
    ELSE ""
ChildCx(f, i) == IF f.fx # "" /\ i >= f.ff THEN f.fx ELSE f.cx
\* a terminal of the tree that the input does not have at this place: which terminal (as logged), and the input token that stands there
FrontTok(ss) == LET s == CHOOSE s \in ss : \A q \in ss : s[2] >= q[2] IN Tok(s)
RECURSIVE FailItem(_, _, _)
FailItem(ss, items, i) == LET s2 == Item(ss, items[i]) IN IF s2 = {} THEN <<items[i], FrontTok(ss)>> ELSE FailItem(s2, items, i + 1)
YieldSig(k, op, ss, items) == LET fi == FailItem(ss, items, 1) IN "yield/" \o Name(k, op) \o "/" \o ToString(fi[1]) \o "/" \o ToString(fi[2])

(* ------------------------------- the tree, rebuilt from pre-order events with a stack ------------------------------- *)
(* acc = [st: frames of the unfinished nodes, S: match states, diag: "" or the first complaint]                          *)
Done(a, sk) ==      \* a node is finished: its parent (if any) checks it as operand and lays out the terminals that follow it
    IF a.diag # "" \/ a.st = <<>> THEN a
    ELSE LET f == a.st[Len(a.st)]
             i == f.i + 1
             dg == IF i > f.n \/ f.rest = <<>> THEN "trace/more-children-than-announced" ELSE CheckChild(f, i, sk)
         IN IF dg # "" THEN [a EXCEPT !.diag = dg]
            ELSE LET s2 == Run(a.S, f.rest[1], 1)
                 IN [st |-> [a.st EXCEPT ![Len(a.st)] = [f EXCEPT !.i = i, !.first = (IF i = 1 THEN <<sk>> ELSE @), !.rest = Tail(@)]],
                     S |-> s2, diag |-> (IF s2 = {} THEN YieldSig(f.k, f.op, a.S, f.rest[1]) ELSE "")]
RECURSIVE Unwind(_, _)
Unwind(a, d) ==
    IF a.diag # "" \/ Len(a.st) <= d THEN a
    ELSE LET f == a.st[Len(a.st)] IN
         IF f.i # f.n THEN [a EXCEPT !.diag = "trace/fewer-children-than-announced"]
         ELSE Unwind(Done([a EXCEPT !.st = SubSeq(a.st, 1, Len(a.st) - 1)], Sk(f.k, f.op, f.first)), d)
NodeRes(a0, ev) ==
    LET a == Unwind(a0, ev.d) IN
    IF a.diag # "" THEN a
    ELSE IF Len(a.st) # ev.d \/ Len(ev.g) # ev.n + 1 \/ Len(ev.ck) # ev.n THEN [a EXCEPT !.diag = "trace/shape"]
    ELSE LET top == ev.d = 0
             par == a.st[Len(a.st)]
             cx == IF top THEN "top" ELSE ChildCx(par, par.i + 1)
             noIn == IF top THEN FALSE ELSE NoInOf(par, par.i + 1)
             own == OwnCheck(ev, cx)
         IN IF own # "" THEN [a EXCEPT !.diag = own]
            ELSE LET s2 == Run(a.S, ev.g[1], 1) IN
                 IF s2 = {} THEN [a EXCEPT !.diag = YieldSig(ev.k, ev.op, a.S, ev.g[1])]
                 ELSE IF ev.n = 0 THEN Done([a EXCEPT !.S = s2], Sk(ev.k, ev.op, <<>>))
                 ELSE [a EXCEPT !.S = s2,
                                !.st = Append(@, [k |-> ev.k, op |-> ev.op, fop |-> ForG(ev.op), ck |-> ev.ck, n |-> ev.n, i |-> 0, first |-> <<>>,
                                                  rest |-> Tail(ev.g), noIn |-> noIn, cx |-> cx, fx |-> ev.fx, ff |-> ev.ff])]
CloseRes(a0) ==
    LET a == Unwind(a0, 0) IN
    IF a.diag # "" THEN a
    ELSE IF \E s \in a.S : Tok(s) = 0 /\ s[3] = <<>> THEN a
    ELSE [a EXCEPT !.diag = "yield/prog:/0/" \o ToString(FrontTok(a.S))]       \* the tree is complete, the input is not
Res == LET a0 == [st |-> st, S |-> S, diag |-> ""] IN
       IF e.ev = "Node" THEN NodeRes(a0, e) ELSE IF e.ev = "Close" THEN CloseRes(a0) ELSE [a0 EXCEPT !.diag = "trace/unknown-event"]

RecordFailSig(ev, ll, sig) == CSVWrite("%1$s", <<ToJson([t |-> ev.t, i |-> ev.i, l |-> ll, ev |-> ev.ev, sig |-> sig])>>, FailFile)

TInit == l = 1 /\ bad = FALSE /\ tk = <<>> /\ S = {} /\ st = <<>>
IsStart == e.ev = "Open"
Returned == e.out = "ret"
TStart == /\ l <= NEvents /\ IsStart
          /\ tk' = (IF e.toks2 = <<>> THEN <<[t |-> e.toks, a |-> e.alt, n |-> e.nl]>>
                    ELSE <<[t |-> e.toks, a |-> e.alt, n |-> e.nl], [t |-> e.toks2, a |-> e.alt2, n |-> e.nl2]>>)
          /\ S' = {<<v, 0, <<>>>> : v \in 1..(IF e.toks2 = <<>> THEN 1 ELSE 2)}
          /\ st' = <<>> /\ bad' = FALSE /\ l' = l + 1
TStep(r)  == Returned /\ r.diag = "" /\ st' = r.st /\ S' = r.S /\ l' = l + 1 /\ UNCHANGED <<bad, tk>>
TFail(r)  == ~(Returned /\ r.diag = "") /\ RecordFailSig(e, l, (IF Returned THEN r.diag ELSE "trace/panic")) /\ bad' = TRUE /\ l' = l + 1 /\ UNCHANGED <<tk, S, st>>
TEvent == l <= NEvents /\ ~IsStart /\ ~bad /\ \E r \in {Res} : (TStep(r) \/ TFail(r))      \* Res is evaluated once per event
TSkip  == l <= NEvents /\ ~IsStart /\ bad /\ l' = l + 1 /\ UNCHANGED <<bad, tk, S, st>>
TNext == TStart \/ TEvent \/ TSkip
TSpec == TInit /\ [][TNext]_tvars
Accepted == TLCGet("stats").diameter = NEvents + 1
=============================================================================
