SPECIFICATION Spec
CONSTANTS
  MaxNest = 1
  Depths = {0, 1, 2, 3}
  Lits = {"tpl", "str", "re", "cmt"}
  StartFams = TRUE
INVARIANTS EmitInv VocabInv
CHECK_DEADLOCK FALSE
