SPECIFICATION Spec
CONSTANTS
  Alphabet = {"digit0", "digit1", "digit", "digit8", "letter_x", "letter_b", "letter_o", "letter_n", "underscore", "hexletter", "letter_e"}
  MaxLen = 4
  Emit = TRUE
  ReMode = "grammar"
  Defect = "none"
INVARIANT OneError
INVARIANT MapInv
INVARIANT LevelInv
PROPERTY RefinesTok
PROPERTY Progress
PROPERTY LongestMatch
PROPERTY TokenInvP
PROPERTY Adjacent
PROPERTY NumLang
PROPERTY ReLang
PROPERTY Brackets
PROPERTY DetSound
CHECK_DEADLOCK FALSE
