SPECIFICATION Spec
CONSTANTS
  Cons <- ExprTiny
  Terms = {"semi"}
  MaxE = 4
  MaxS = 1
  MaxX = 0
  MaxP = 0
  MaxL = 0
  MaxTop = 1
CHECK_DEADLOCK FALSE
