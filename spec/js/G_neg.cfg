SPECIFICATION Spec
CONSTANTS
  Cons <- NegCons
  Terms = {"semi"}
  MaxE = 3
  MaxS = 3
  MaxX = 0
  MaxStack = 3
CHECK_DEADLOCK FALSE
