SPECIFICATION Spec
CONSTANTS
  Cons <- SimCons
  Terms = {"semi","nl","omit"}
  MaxE = 7
  MaxS = 6
  MaxX = 6
  MaxP = 2
  MaxL = 3
  MaxTop = 3
CHECK_DEADLOCK FALSE
