SPECIFICATION Spec
CONSTANTS
  Cons <- StmtCons
  Terms = {"semi"}
  MaxE = 0
  MaxS = 3
  MaxX = 2
  MaxP = 0
  MaxL = 0
  MaxTop = 1
CHECK_DEADLOCK FALSE
