---------------------------- MODULE PrinterTrace ----------------------------
(***************************************************************************)
(* Trace specification (kind T) for C05: the events the harness records    *)
(* for one (input, Options) pair - js.Parse, AST.JS(), js.Parse of the     *)
(* printed text, AST.JS() again, the structural comparison of the trees    *)
(* and the look-up of the source's literals in the printed text - must be  *)
(* steps of Printer.tla.  Done closes a trace: every rule was reported.    *)
(***************************************************************************)
EXTENDS Printer, TraceIO

VARIABLES l, bad
tvars == <<pvars, l, bad>>
e == Trace[l]

TInit == l = 1 /\ bad = FALSE /\ Init
IsStart == e.ev = "Open"
Returned == IF Has(e, "out") THEN e.out = "ret" ELSE TRUE

\* the property-level action that has to explain the current event
Step == CASE e.ev = "Parse1"   -> Parse1(e.ok)
          [] e.ev = "Print1"   -> Print1
          [] e.ev = "Literals" -> Literals(e.missing)
          [] e.ev = "Parse2"   -> Parse2(e.ok)
          [] e.ev = "Trees"    -> Trees(e.equal)
          [] e.ev = "Print2"   -> Print2(e.same)
          [] e.ev = "Done"     -> Complete /\ UNCHANGED pvars
          [] OTHER -> FALSE

TStart == l <= NEvents /\ IsStart /\ Open(e.utf8) /\ bad' = FALSE /\ l' = l + 1
TStep  == l <= NEvents /\ ~IsStart /\ ~bad /\ Returned /\ Step /\ l' = l + 1 /\ UNCHANGED bad
TFail  == /\ l <= NEvents /\ ~IsStart /\ ~bad /\ ~(Returned /\ ENABLED Step)
          /\ RecordFail(e, l) /\ bad' = TRUE /\ l' = l + 1 /\ UNCHANGED pvars
TSkip  == l <= NEvents /\ ~IsStart /\ bad /\ l' = l + 1 /\ UNCHANGED <<pvars, bad>>
TNext == TStart \/ TStep \/ TFail \/ TSkip
TSpec == TInit /\ [][TNext]_tvars
TInv == bad \/ Inv
Accepted == TLCGet("stats").diameter = NEvents + 1
=============================================================================
