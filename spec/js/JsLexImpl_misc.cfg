SPECIFICATION Spec
CONSTANTS
  Alphabet = {"ws", "uws", "nl", "cr", "uls", "nul", "other", "uother", "semi", "comma", "colon", "lbrack", "rbrack", "kw_async", "kw_let", "kw_of", "kw_yield", "dollar", "underscore"}
  MaxLen = 3
  Emit = TRUE
  ReMode = "grammar"
  Defect = "none"
INVARIANT OneError
INVARIANT MapInv
INVARIANT LevelInv
PROPERTY RefinesTok
PROPERTY Progress
PROPERTY LongestMatch
PROPERTY TokenInvP
PROPERTY Adjacent
PROPERTY NumLang
PROPERTY ReLang
PROPERTY Brackets
PROPERTY DetSound
CHECK_DEADLOCK FALSE
