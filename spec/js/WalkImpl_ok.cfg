SPECIFICATION Spec
CONSTANTS
  NN = 5
  Forget = FALSE
  EarlyExit = FALSE
PROPERTY Refines
CHECK_DEADLOCK FALSE
