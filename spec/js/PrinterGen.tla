----------------------------- MODULE PrinterGen -----------------------------
(***************************************************************************)
(* Generator (kind G) for C05.  TLC enumerates the SPACING and PARENTHESIS *)
(* hazard scenarios a JS printer has to get right, from the ECMAScript     *)
(* grammar (ECMA-262, clauses 12 lexical grammar, 13 expressions, 14       *)
(* statements), not from the Go code:                                      *)
(*                                                                         *)
(*   program = statement context [ frame_1 [ ... frame_n [ inner ] ] ]     *)
(*                                                                         *)
(*  - an INNER construct is a small expression (token atoms, its level in  *)
(*    the expression ladder, its LeftHandSide category, whether it holds   *)
(*    an unparenthesised `in`, what it starts with, ...);                  *)
(*  - a FRAME is an expression with a hole (unary/update operators, both   *)
(*    operand positions of the binary operators, member/call/new/optional  *)
(*    chains, template tags and substitutions, arguments, arrow bodies..); *)
(*  - a statement CONTEXT has a hole for an expression (assignment,        *)
(*    expression statement, for-initialiser, return, export default, ...). *)
(* The grammar decides where parentheses are REQUIRED (MustParen); each    *)
(* scenario is generated with the minimal parentheses and with forced      *)
(* ones.  A multi-line literal (template with a raw newline, string with a *)
(* line continuation, regular expression, `/*!` comment with a newline)    *)
(* can take the place of the operand, and the statement is wrapped in      *)
(* 0..3 nested blocks/functions so that it is printed at several           *)
(* indentation depths.  A family of fixed statement-level scenarios covers *)
(* ASI, dangling else, labels, accessor look-alikes and class members.     *)
(*                                                                         *)
(* The token atoms are joined by the harness with exactly the separators   *)
(* computed here: NeedsSep is the maximal-munch rule of clause 12 ("the    *)
(* longest possible sequence of code points").                             *)
(*                                                                         *)
(* Expected observation: the property itself (Printer.tla) - every         *)
(* scenario is a valid program, so the round trip must hold for it.        *)
(***************************************************************************)
EXTENDS Integers, Sequences, FiniteSets, TLC, Json, IOUtils, CSV

CONSTANTS MaxNest,     \* number of frames between context and inner (1 exhaustive; more with -simulate)
          Depths,      \* block depths for scenarios with a multi-line literal
          Lits,        \* subset of {"tpl", "str", "re", "cmt"}: multi-line literal kinds substituted for the operand
          StartFams    \* TRUE: also the statement-context family

\* ========================================================================= 1. lexical level: atoms and NeedsSep
\* An atom is its spelling.  Its lexical class is looked up in the tables below; everything else is a word
\* (IdentifierName, including keywords).
Pc == (  "{" :> <<"{">> @@ "}" :> <<"}">> @@ "(" :> <<"(">> @@ ")" :> <<")">> @@ "[" :> <<"[">> @@ "]" :> <<"]">>
      @@ "." :> <<".">> @@ "..." :> <<".", ".", ".">> @@ ";" :> <<";">> @@ "," :> <<",">> @@ "<" :> <<"<">> @@ ">" :> <<">">>
      @@ "<=" :> <<"<", "=">> @@ ">=" :> <<">", "=">> @@ "==" :> <<"=", "=">> @@ "!=" :> <<"!", "=">> @@ "===" :> <<"=", "=", "=">>
      @@ "!==" :> <<"!", "=", "=">> @@ "+" :> <<"+">> @@ "-" :> <<"-">> @@ "*" :> <<"*">> @@ "%" :> <<"%">> @@ "**" :> <<"*", "*">>
      @@ "++" :> <<"+", "+">> @@ "--" :> <<"-", "-">> @@ "<<" :> <<"<", "<">> @@ ">>" :> <<">", ">">> @@ ">>>" :> <<">", ">", ">">>
      @@ "&" :> <<"&">> @@ "|" :> <<"|">> @@ "^" :> <<"^">> @@ "!" :> <<"!">> @@ "~" :> <<"~">> @@ "&&" :> <<"&", "&">>
      @@ "||" :> <<"|", "|">> @@ "??" :> <<"?", "?">> @@ "?" :> <<"?">> @@ ":" :> <<":">> @@ "=" :> <<"=">> @@ "+=" :> <<"+", "=">>
      @@ "-=" :> <<"-", "=">> @@ "*=" :> <<"*", "=">> @@ "%=" :> <<"%", "=">> @@ "**=" :> <<"*", "*", "=">> @@ "<<=" :> <<"<", "<", "=">>
      @@ ">>=" :> <<">", ">", "=">> @@ ">>>=" :> <<">", ">", ">", "=">> @@ "&=" :> <<"&", "=">> @@ "|=" :> <<"|", "=">>
      @@ "^=" :> <<"^", "=">> @@ "&&=" :> <<"&", "&", "=">> @@ "||=" :> <<"|", "|", "=">> @@ "??=" :> <<"?", "?", "=">>
      @@ "=>" :> <<"=", ">">> @@ "?." :> <<"?", ".">> @@ "/" :> <<"/">> @@ "/=" :> <<"/", "=">> )
Puncts == DOMAIN Pc
\* every Punctuator of 12.8 plus the three comment openers (12.4, B.1.1) as sequences of characters
TokenSeqs == {Pc[p] : p \in Puncts} \cup {<<"/", "/">>, <<"/", "*">>, <<"<", "!", "-", "-">>}

\* numeric literals: open = a DecimalIntegerLiteral that a following "." would extend (12.9.3)
NumOpen   == {"0", "1", "10", "1_0"}
NumClosed == {"1.", "1.0", "0x1", "1e3", "1n", "0b1", "1.e3"}
NumDot    == {".5"}                                    \* starts with "."
Nums == NumOpen \cup NumClosed \cup NumDot
\* string and template tokens (a template head / middle / tail is one token): nothing merges with them
Strs == {"'s'", "'x\\\ny'", "`t`", "`x\ny`", "`h${", "}m${", "}t`", "`\n${", "}\n`"}
Res  == {"/r/", "/r/g", "/[/]/", "/=/", "/r\\/s/m"}
Cmts == {"/*! c\n d */", "/*!k*/"}
NL == "\n"

Kind(a) == IF a \in Puncts THEN "punct" ELSE IF a \in Nums THEN "num" ELSE IF a \in Strs THEN "str" ELSE IF a \in Res THEN "re"
           ELSE IF a \in Cmts THEN "cmt" ELSE IF a = NL THEN "nl" ELSE IF a = "" THEN "none" ELSE "word"
\* the first characters of an atom, as far as a preceding punctuator could reach into it ("0" digit, "w" letter, "x" other)
Chars(a) == CASE Kind(a) = "punct" -> Pc[a]
              [] Kind(a) = "num"   -> IF a \in NumDot THEN <<".", "0">> ELSE <<"0">>
              [] Kind(a) = "re"    -> IF a = "/=/" THEN <<"/", "=">> ELSE <<"/", "x">>
              [] Kind(a) = "cmt"   -> <<"/", "*">>
              [] Kind(a) = "word"  -> <<"w">>
              [] Kind(a) = "str"   -> <<"x">>
              [] OTHER             -> <<>>
Max(S) == CHOOSE x \in S : \A y \in S : y <= x
\* maximal munch on a character sequence that starts with a punctuator: length of the token the lexer takes.
\* "?." is not a token when a decimal digit follows (12.8, OptionalChainingPunctuator).
Munch(s) == LET ok(n) == /\ SubSeq(s, 1, n) \in TokenSeqs
                         /\ ~(SubSeq(s, 1, n) = <<"?", ".">> /\ Len(s) > n /\ s[n + 1] = "0")
                cand == {n \in 1..Len(s) : ok(n)}
            IN IF cand = {} THEN 0 ELSE Max(cand)
\* must a and b (followed by c, "" if none) be separated so that they lex as themselves ?
NeedsSep(a, b, c) ==
    CASE Kind(a) = "word"  -> Kind(b) \in {"word", "num"}                 \* IdentifierPart continues (12.7)
      [] Kind(a) = "num"   -> \/ Kind(b) \in {"word", "num"}              \* 12.9.3: no IdentifierStart / digit right after
                              \/ (a \in NumOpen /\ Kind(b) = "punct" /\ Pc[b][1] = ".")   \* "1" "." is "1."
      [] Kind(a) = "re"    -> Kind(b) \in {"word", "num"}                 \* RegularExpressionFlags :: IdentifierPartChar*
      [] Kind(a) = "punct" -> Munch(Pc[a] \o Chars(b) \o (IF Kind(b) = "punct" THEN Chars(c) ELSE <<>>)) > Len(Pc[a])
      [] OTHER             -> FALSE
At(s, i) == IF i \in DOMAIN s THEN s[i] ELSE ""
\* separator written before atom i: 0 none, 1 space (newline atoms are their own separator)
Seps(toks) == [i \in DOMAIN toks |->
                 IF i = 1 \/ toks[i] = NL \/ toks[i - 1] = NL THEN 0
                 ELSE IF NeedsSep(toks[i - 1], toks[i], At(toks, i + 1)) THEN 1 ELSE 0]

\* ========================================================================= 2. expression level
\* levels of the expression ladder (13.2 - 13.16): a frame's hole needs at least a level; an inner construct has one
LComma == 0   LAssign == 1   LCond == 2   LOr == 3   LAnd == 4   LBitOr == 5   LBitXor == 6   LBitAnd == 7   LEq == 8
LRel == 9   LShift == 10   LAdd == 11   LMul == 12   LExp == 13   LUnary == 14   LUpdate == 15   LLHS == 16
\* categories of LeftHandSideExpression: "member" (MemberExpression incl. primary and `new X()`), "call", "opt", "new" (`new X`)
AnyLHS == {"member", "call", "opt", "new"}
A == "@A"        \* the operand that a multi-line literal may replace

Expr(name, toks, lvl, cat, start, flags) ==
    [name |-> name, toks |-> toks, lvl |-> lvl, cat |-> cat, start |-> start,
     hasIn |-> "in" \in flags, coal |-> "coal" \in flags, tgt |-> "tgt" \in flags, plainA |-> "plainA" \in flags,
     async |-> "async" \in flags, gen |-> "gen" \in flags]

Inners == {
  Expr("id", <<A>>, LLHS, "member", "id", {"tgt", "plainA"}),
  Expr("this", <<"this">>, LLHS, "member", "o", {}),
  Expr("null", <<"null">>, LLHS, "member", "o", {}),
  Expr("num-int", <<"1">>, LLHS, "member", "o", {}),
  Expr("num-zero", <<"0">>, LLHS, "member", "o", {}),
  Expr("num-sep", <<"1_0">>, LLHS, "member", "o", {}),
  Expr("num-dot", <<"1.">>, LLHS, "member", "o", {}),
  Expr("num-frac", <<"1.0">>, LLHS, "member", "o", {}),
  Expr("num-lead", <<".5">>, LLHS, "member", "o", {}),
  Expr("num-hex", <<"0x1">>, LLHS, "member", "o", {}),
  Expr("num-exp", <<"1e3">>, LLHS, "member", "o", {}),
  Expr("num-dotexp", <<"1.e3">>, LLHS, "member", "o", {}),
  Expr("num-big", <<"1n">>, LLHS, "member", "o", {}),
  Expr("num-bin", <<"0b1">>, LLHS, "member", "o", {}),
  Expr("str", <<"'s'">>, LLHS, "member", "o", {}),
  Expr("tpl", <<"`t`">>, LLHS, "member", "o", {}),
  Expr("tpl-sub", <<"`h${", A, "}t`">>, LLHS, "member", "o", {}),
  Expr("tpl-sub2", <<"`h${", A, "}m${", "b", "}t`">>, LLHS, "member", "o", {}),
  Expr("tpl-nested", <<"`h${", "`\n${", A, "}\n`", "}t`">>, LLHS, "member", "o", {}),
  Expr("re", <<"/r/">>, LLHS, "member", "o", {}),
  Expr("re-flags", <<"/r/g">>, LLHS, "member", "o", {}),
  Expr("re-class", <<"/[/]/">>, LLHS, "member", "o", {}),
  Expr("re-eq", <<"/=/">>, LLHS, "member", "o", {}),
  Expr("array", <<"[", A, "]">>, LLHS, "member", "o", {}),
  Expr("array-empty", <<"[", "]">>, LLHS, "member", "o", {}),
  Expr("object-empty", <<"{", "}">>, LLHS, "member", "{", {}),
  Expr("object", <<"{", "k", ":", A, "}">>, LLHS, "member", "{", {}),
  Expr("function", <<"function", "(", ")", "{", "}">>, LLHS, "member", "function", {}),
  Expr("class", <<"class", "{", "}">>, LLHS, "member", "class", {}),
  Expr("async-function", <<"async", "function", "(", ")", "{", "}">>, LLHS, "member", "async function", {}),
  Expr("paren-id", <<"(", A, ")">>, LLHS, "member", "o", {"tgt", "plainA"}),
  Expr("paren-comma", <<"(", A, ",", "b", ")">>, LLHS, "member", "o", {}),
  Expr("let", <<"let">>, LLHS, "member", "let", {"tgt"}),
  Expr("let-index", <<"let", "[", "0", "]">>, LLHS, "member", "let[", {"tgt"}),
  Expr("async-id", <<"async">>, LLHS, "member", "async", {"tgt"}),
  Expr("dot", <<A, ".", "p">>, LLHS, "member", "o", {"tgt"}),
  Expr("index", <<A, "[", "0", "]">>, LLHS, "member", "o", {"tgt"}),
  Expr("call", <<A, "(", ")">>, LLHS, "call", "o", {}),
  Expr("call-args", <<"f", "(", A, ",", "b", ")">>, LLHS, "call", "o", {}),
  Expr("import-call", <<"import", "(", "'s'", ")">>, LLHS, "call", "o", {}),
  Expr("opt-dot", <<A, "?.", "p">>, LLHS, "opt", "o", {}),
  Expr("opt-index", <<A, "?.", "[", "0", "]">>, LLHS, "opt", "o", {}),
  Expr("opt-call", <<A, "?.", "(", ")">>, LLHS, "opt", "o", {}),
  Expr("new-args", <<"new", "K", "(", A, ")">>, LLHS, "member", "o", {}),
  Expr("new-noargs", <<"new", "K">>, LLHS, "new", "o", {}),
  Expr("new-member", <<"new", "K", ".", "p", "(", ")">>, LLHS, "member", "o", {}),
  Expr("new-new", <<"new", "new", "K">>, LLHS, "new", "o", {}),
  Expr("tagged", <<"f", "`h${", A, "}t`">>, LLHS, "member", "o", {}),
  Expr("post-inc", <<"a", "++">>, LUpdate, "", "o", {}),
  Expr("post-dec", <<"a", "--">>, LUpdate, "", "o", {}),
  Expr("pre-inc", <<"++", "a">>, LUpdate, "", "o", {}),
  Expr("pre-dec", <<"--", "a">>, LUpdate, "", "o", {}),
  Expr("plus", <<"+", A>>, LUnary, "", "o", {}),
  Expr("minus", <<"-", A>>, LUnary, "", "o", {}),
  Expr("minus-num", <<"-", "1">>, LUnary, "", "o", {}),
  Expr("not", <<"!", A>>, LUnary, "", "o", {}),
  Expr("bitnot", <<"~", A>>, LUnary, "", "o", {}),
  Expr("typeof", <<"typeof", A>>, LUnary, "", "o", {}),
  Expr("void", <<"void", A>>, LUnary, "", "o", {}),
  Expr("delete", <<"delete", A, ".", "p">>, LUnary, "", "o", {}),
  Expr("await", <<"await", A>>, LUnary, "", "o", {"async"}),
  Expr("exp", <<A, "**", "b">>, LExp, "", "o", {}),
  Expr("mul", <<A, "*", "b">>, LMul, "", "o", {}),
  Expr("div", <<A, "/", "b">>, LMul, "", "o", {}),
  Expr("div-re", <<A, "/", "/r/g">>, LMul, "", "o", {}),
  Expr("add", <<A, "+", "b">>, LAdd, "", "o", {}),
  Expr("sub", <<A, "-", "b">>, LAdd, "", "o", {}),
  Expr("shl", <<A, "<<", "b">>, LShift, "", "o", {}),
  Expr("shr", <<A, ">>>", "b">>, LShift, "", "o", {}),
  Expr("lt", <<A, "<", "b">>, LRel, "", "o", {}),
  Expr("gt", <<A, ">", "b">>, LRel, "", "o", {}),
  Expr("in", <<A, "in", "b">>, LRel, "", "o", {"in"}),
  Expr("instanceof", <<A, "instanceof", "b">>, LRel, "", "o", {}),
  Expr("eq", <<A, "===", "b">>, LEq, "", "o", {}),
  Expr("bitand", <<A, "&", "b">>, LBitAnd, "", "o", {}),
  Expr("bitor", <<A, "|", "b">>, LBitOr, "", "o", {}),
  Expr("and", <<A, "&&", "b">>, LAnd, "", "o", {}),
  Expr("or", <<A, "||", "b">>, LOr, "", "o", {}),
  Expr("coalesce", <<A, "??", "b">>, LOr, "", "o", {"coal"}),
  Expr("cond", <<A, "?", "b", ":", "c">>, LCond, "", "o", {}),
  Expr("assign", <<"a", "=", A>>, LAssign, "", "o", {}),
  Expr("assign-op", <<"a", "/=", A>>, LAssign, "", "o", {}),
  Expr("arrow", <<"y", "=>", A>>, LAssign, "", "o", {}),
  Expr("arrow-block", <<"(", ")", "=>", "{", "}">>, LAssign, "", "o", {}),
  Expr("arrow-object", <<"(", ")", "=>", "(", "{", "}", ")">>, LAssign, "", "o", {}),
  Expr("async-arrow", <<"async", "y", "=>", A>>, LAssign, "", "o", {}),
  Expr("yield", <<"yield", A>>, LAssign, "", "o", {"gen"}),
  Expr("yield-bare", <<"yield">>, LAssign, "", "o", {"gen"}),
  Expr("yield-star", <<"yield", "*", A>>, LAssign, "", "o", {"gen"}),
  Expr("comma", <<A, ",", "b">>, LComma, "", "o", {})
}
InnerNames == {x.name : x \in Inners}
Inner(n) == CHOOSE x \in Inners : x.name = n

\* A frame: pre HOLE post.  need/lhs: what the hole accepts without parentheses; lvl/cat: what the frame is.
\* flags: "target" hole must be an assignment target; "shield" brackets of the frame hide an `in` / start of the hole;
\*        "noCoal" hole may not be an unparenthesised `??` (13.13); "expBase" hole may not be a unary expression (13.6);
\*        "in" the frame is an `in` expression; "coal" the frame is a `??` expression; "arrowBody" hole may not start with "{".
Frame(name, pre, post, need, lhs, lvl, cat, flags) ==
    [name |-> name, pre |-> pre, post |-> post, need |-> need, lhs |-> lhs, lvl |-> lvl, cat |-> cat,
     target |-> "target" \in flags, shield |-> "shield" \in flags, noCoal |-> "noCoal" \in flags, expBase |-> "expBase" \in flags,
     isIn |-> "in" \in flags, isCoal |-> "coal" \in flags, arrowBody |-> "arrowBody" \in flags,
     async |-> "async" \in flags, gen |-> "gen" \in flags, fn |-> "arrowBody" \in flags]

\* binary operators: <<spelling, level, flags>>; left operand at the operator's level, right operand one above (left-assoc.)
BinOps == { <<"*", LMul, {}>>, <<"/", LMul, {}>>, <<"%", LMul, {}>>, <<"+", LAdd, {}>>, <<"-", LAdd, {}>>,
            <<"<<", LShift, {}>>, <<">>", LShift, {}>>, <<">>>", LShift, {}>>, <<"<", LRel, {}>>, <<">", LRel, {}>>, <<"<=", LRel, {}>>,
            <<"in", LRel, {"in"}>>, <<"instanceof", LRel, {}>>, <<"==", LEq, {}>>, <<"!==", LEq, {}>>,
            <<"&", LBitAnd, {}>>, <<"^", LBitXor, {}>>, <<"|", LBitOr, {}>>, <<"&&", LAnd, {"noCoal"}>>, <<"||", LOr, {"noCoal"}>> }
BinFrames ==
    UNION {{ Frame("L" \o op[1], <<>>, <<op[1], "b">>, op[2], {}, op[2], "", op[3]),
             Frame("R" \o op[1], <<"a", op[1]>>, <<>>, op[2] + 1, {}, op[2], "", op[3]) } : op \in BinOps}
Frames == BinFrames \cup {
  Frame("L**", <<>>, <<"**", "b">>, LUpdate, {}, LExp, "", {"expBase"}),
  Frame("R**", <<"a", "**">>, <<>>, LExp, {}, LExp, "", {}),
  Frame("L??", <<>>, <<"??", "b">>, LBitOr, {}, LOr, "", {"coal"}),
  Frame("R??", <<"a", "??">>, <<>>, LBitOr, {}, LOr, "", {"coal"}),
  Frame("L=", <<>>, <<"=", "b">>, LLHS, AnyLHS, LAssign, "", {"target"}),
  Frame("R=", <<"a", "=">>, <<>>, LAssign, {}, LAssign, "", {}),
  Frame("R+=", <<"a", "+=">>, <<>>, LAssign, {}, LAssign, "", {}),
  Frame("R/=", <<"a", "/=">>, <<>>, LAssign, {}, LAssign, "", {}),
  Frame("L,", <<>>, <<",", "b">>, LComma, {}, LComma, "", {}),
  Frame("R,", <<"a", ",">>, <<>>, LAssign, {}, LComma, "", {}),
  Frame("cond-test", <<>>, <<"?", "a", ":", "b">>, LOr, {}, LCond, "", {}),
  Frame("cond-then", <<"a", "?">>, <<":", "b">>, LAssign, {}, LCond, "", {"shield"}),
  Frame("cond-else", <<"a", "?", "b", ":">>, <<>>, LAssign, {}, LCond, "", {}),
  Frame("u+", <<"+">>, <<>>, LUnary, {}, LUnary, "", {}),
  Frame("u-", <<"-">>, <<>>, LUnary, {}, LUnary, "", {}),
  Frame("u!", <<"!">>, <<>>, LUnary, {}, LUnary, "", {}),
  Frame("u~", <<"~">>, <<>>, LUnary, {}, LUnary, "", {}),
  Frame("typeof", <<"typeof">>, <<>>, LUnary, {}, LUnary, "", {}),
  Frame("void", <<"void">>, <<>>, LUnary, {}, LUnary, "", {}),
  Frame("delete", <<"delete">>, <<>>, LUnary, {}, LUnary, "", {}),
  Frame("await", <<"await">>, <<>>, LUnary, {}, LUnary, "", {"async"}),
  Frame("pre++", <<"++">>, <<>>, LLHS, AnyLHS, LUpdate, "", {"target"}),
  Frame("pre--", <<"--">>, <<>>, LLHS, AnyLHS, LUpdate, "", {"target"}),
  Frame("post++", <<>>, <<"++">>, LLHS, AnyLHS, LUpdate, "", {"target"}),
  Frame("post--", <<>>, <<"--">>, LLHS, AnyLHS, LUpdate, "", {"target"}),
  Frame("member-dot", <<>>, <<".", "p">>, LLHS, {"member", "call", "opt"}, LLHS, "inherit", {}),
  Frame("member-index", <<>>, <<"[", "0", "]">>, LLHS, {"member", "call", "opt"}, LLHS, "inherit", {}),
  Frame("call", <<>>, <<"(", ")">>, LLHS, {"member", "call", "opt"}, LLHS, "call", {}),
  Frame("tag", <<>>, <<"`t`">>, LLHS, {"member", "call"}, LLHS, "inherit", {}),
  Frame("opt-dot", <<>>, <<"?.", "p">>, LLHS, {"member", "call", "opt"}, LLHS, "opt", {}),
  Frame("opt-call", <<>>, <<"?.", "(", ")">>, LLHS, {"member", "call", "opt"}, LLHS, "opt", {}),
  Frame("new", <<"new">>, <<>>, LLHS, {"member", "new"}, LLHS, "new", {}),
  Frame("new-args", <<"new">>, <<"(", ")">>, LLHS, {"member"}, LLHS, "member", {}),
  Frame("index-of", <<"a", "[">>, <<"]">>, LComma, {}, LLHS, "member", {"shield"}),
  Frame("arg", <<"f", "(">>, <<")">>, LAssign, {}, LLHS, "call", {"shield"}),
  Frame("arg-first", <<"f", "(">>, <<",", "b", ")">>, LAssign, {}, LLHS, "call", {"shield"}),
  Frame("arg-spread", <<"f", "(", "...">>, <<")">>, LAssign, {}, LLHS, "call", {"shield"}),
  Frame("array-elem", <<"[">>, <<",", "b", "]">>, LAssign, {}, LLHS, "member", {"shield"}),
  Frame("object-value", <<"{", "k", ":">>, <<"}">>, LAssign, {}, LLHS, "member", {"shield"}),
  Frame("computed-key", <<"{", "[">>, <<"]", ":", "b", "}">>, LAssign, {}, LLHS, "member", {"shield"}),
  Frame("tpl-subst", <<"`h${">>, <<"}t`">>, LComma, {}, LLHS, "member", {"shield"}),
  Frame("paren", <<"(">>, <<")">>, LComma, {}, LLHS, "member", {"shield"}),
  Frame("arrow-body", <<"y", "=>">>, <<>>, LAssign, {}, LAssign, "", {"arrowBody"}),
  Frame("yield-arg", <<"yield">>, <<>>, LAssign, {}, LAssign, "", {"gen"}),
  Frame("class-extends", <<"class", "extends">>, <<"{", "}">>, LLHS, AnyLHS, LLHS, "member", {})
}
FrameNames == {f.name : f \in Frames}
FrameOf(n) == CHOOSE f \in Frames : f.name = n
\* frames whose hole is the leftmost token: what the hole starts with is what the statement starts with
LeftFrameNames == {"L+", "L,", "L=", "Lin", "L/", "cond-test", "member-dot", "call", "tag", "post++", "opt-dot", "L**", "L??"}

\* statement contexts: pre HOLE post; flags: "stmtStart" (14.5: an ExpressionStatement may not start with {, function, class,
\* async function, let [), "forStart" (14.7.4: for ( may not be followed by let [ ), "noIn" ([~In] productions), "arrowBody",
\* "func" (needs a function around: return), "module" (only at the top level of a module), "target"
Ctx(name, pre, post, need, lhs, flags) ==
    [name |-> name, pre |-> pre, post |-> post, need |-> need, lhs |-> lhs,
     stmtStart |-> "stmtStart" \in flags, forStart |-> "forStart" \in flags, noIn |-> "noIn" \in flags,
     arrowBody |-> "arrowBody" \in flags, func |-> "func" \in flags, module |-> "module" \in flags, target |-> "target" \in flags,
     fn |-> "fn" \in flags \/ "arrowBody" \in flags]
Ctxs == {
  Ctx("assign", <<"x", "=">>, <<";">>, LAssign, {}, {}),
  Ctx("exprstmt", <<>>, <<";">>, LComma, {}, {"stmtStart"}),
  Ctx("exprstmt-asi", <<>>, <<NL, "z", ";">>, LComma, {}, {"stmtStart"}),
  Ctx("after-asi", <<"z", NL>>, <<";">>, LComma, {}, {"stmtStart"}),
  Ctx("arrow-body", <<"x", "=", "(", ")", "=>">>, <<";">>, LAssign, {}, {"arrowBody"}),
  Ctx("for-init", <<"for", "(">>, <<";", ";", ")", ";">>, LComma, {}, {"noIn", "forStart"}),
  Ctx("for-var-init", <<"for", "(", "var", "x", "=">>, <<";", ";", ")", ";">>, LAssign, {}, {"noIn"}),
  Ctx("for-cond", <<"for", "(", ";">>, <<";", ")", ";">>, LComma, {}, {}),
  Ctx("for-in-lhs", <<"for", "(">>, <<"in", "b", ")", ";">>, LLHS, AnyLHS, {"target", "forStart"}),
  Ctx("for-of-lhs", <<"for", "(">>, <<"of", "b", ")", ";">>, LLHS, AnyLHS, {"target", "forStart", "ofStart"}),
  Ctx("for-in-rhs", <<"for", "(", "x", "in">>, <<")", ";">>, LComma, {}, {}),
  Ctx("for-of-rhs", <<"for", "(", "x", "of">>, <<")", ";">>, LAssign, {}, {}),
  Ctx("var-init", <<"var", "x", "=">>, <<";">>, LAssign, {}, {}),
  Ctx("let-init-asi", <<"let", "x", "=">>, <<NL, "z", ";">>, LAssign, {}, {}),
  Ctx("return", <<"return">>, <<";">>, LComma, {}, {"func"}),
  Ctx("throw", <<"throw">>, <<";">>, LComma, {}, {}),
  Ctx("if-cond", <<"if", "(">>, <<")", "a", ";", "else", "b", ";">>, LComma, {}, {}),
  Ctx("if-body", <<"if", "(", "a", ")">>, <<";", "else", "b", ";">>, LComma, {}, {"stmtStart"}),
  Ctx("while-cond", <<"while", "(">>, <<")", "a", ";">>, LComma, {}, {}),
  Ctx("do-body", <<"do">>, <<";", "while", "(", "a", ")", ";">>, LComma, {}, {"stmtStart"}),
  Ctx("case", <<"switch", "(", "x", ")", "{", "case">>, <<":", "}">>, LComma, {}, {}),
  Ctx("label", <<"l", ":">>, <<";">>, LComma, {}, {"stmtStart"}),
  Ctx("export-default", <<"export", "default">>, <<";">>, LAssign, {}, {"module"}),
  Ctx("class-field", <<"class", "K", "{", "f", "=">>, <<";", "[", "g", "]", ";", "}">>, LAssign, {}, {"fn"}),
  Ctx("class-extends", <<"class", "K", "extends">>, <<"{", "}">>, LLHS, AnyLHS, {}),
  Ctx("param-default", <<"x", "=", "(", "y", "=">>, <<")", "=>", "0", ";">>, LAssign, {}, {"fn"}),
  Ctx("object-method-body", <<"x", "=", "{", "get", "(", ")", "{", "return">>, <<";", "}", "}", ";">>, LComma, {}, {"fn"})
}
CtxNames == {c.name : c \in Ctxs}
CtxOf(n) == CHOOSE c \in Ctxs : c.name = n
\* inner constructs that make the statement contexts interesting (restricted starts, `in`, comma, assignment-level ...)
StartInnerNames == {"id", "object-empty", "object", "function", "class", "async-function", "let", "let-index", "async-id", "in", "comma",
                    "assign", "arrow", "arrow-block", "arrow-object", "yield", "cond", "re", "tpl", "num-int", "minus", "pre-inc",
                    "new-noargs", "opt-dot", "coalesce", "paren-comma", "array", "str", "await", "call", "dot"}

Paren(e) == [e EXCEPT !.toks = <<"(">> \o e.toks \o <<")">>, !.lvl = LLHS, !.cat = "member", !.start = "o",
                      !.hasIn = FALSE, !.coal = FALSE]
\* parentheses the grammar requires around expression e in the hole of frame f
MustParenF(f, e) ==
    \/ e.lvl < f.need
    \/ (f.lhs # {} /\ e.lvl = LLHS /\ e.cat \notin f.lhs)
    \/ (f.noCoal /\ e.coal)
    \/ (f.isCoal /\ e.lvl < LBitOr /\ ~e.coal)
    \/ (f.expBase /\ e.lvl = LUnary)
    \/ (f.arrowBody /\ e.start = "{")
\* the expression a frame makes of e
Apply(f, e, force) ==
    LET p == force \/ MustParenF(f, e)
        x == IF p THEN Paren(e) ELSE e
    IN [name |-> f.name, toks |-> f.pre \o x.toks \o f.post, lvl |-> f.lvl,
        cat |-> IF f.cat = "inherit" THEN (IF x.cat \in {"call", "opt"} THEN x.cat ELSE "member") ELSE f.cat,
        start |-> IF f.pre = <<>> THEN x.start ELSE IF f.pre[1] = "{" THEN "{" ELSE IF f.pre[1] = "class" THEN "class" ELSE "o",
        hasIn |-> f.isIn \/ (~f.shield /\ x.hasIn), coal |-> f.isCoal, tgt |-> f.name \in {"member-dot", "member-index"},
        plainA |-> FALSE, async |-> f.async \/ e.async, gen |-> f.gen \/ e.gen]
RECURSIVE Build(_, _, _)
\* frames are listed from the outermost to the innermost
Build(frs, e, force) == IF frs = <<>> THEN e
                        ELSE Apply(FrameOf(Head(frs)), Build(Tail(frs), e, force), force /\ Len(frs) = 1)
\* the hole of the innermost frame must be a target if that frame says so
RECURSIVE CrossesFn(_, _)
\* does an await / yield below position k of the frames sit inside a function boundary of a frame above it ?
CrossesFn(frs, e) == IF frs = <<>> THEN FALSE
                     ELSE LET f == FrameOf(Head(frs))
                              below == Build(Tail(frs), e, FALSE)
                          IN (f.fn /\ (below.async \/ below.gen)) \/ CrossesFn(Tail(frs), e)
TargetOK(frs, e) == IF frs = <<>> THEN TRUE ELSE (~FrameOf(frs[Len(frs)]).target \/ e.tgt)
RECURSIVE TargetsOK(_)
TargetsOK(frs) == IF Len(frs) <= 1 THEN TRUE
                  ELSE (~FrameOf(frs[1]).target \/ frs[2] \in {"member-dot", "member-index"}) /\ TargetsOK(Tail(frs))

MustParenC(c, e) ==
    \/ e.lvl < c.need
    \/ (c.lhs # {} /\ e.lvl = LLHS /\ e.cat \notin c.lhs)
    \/ (c.noIn /\ e.hasIn)
    \/ (c.stmtStart /\ e.start \in {"{", "function", "class", "async function", "let["})
    \/ (c.forStart /\ e.start \in {"let[", "let", "async", "async function"})
    \/ (c.arrowBody /\ e.start = "{")
    \/ (c.module /\ e.start \in {"function", "class", "async function"})   \* 16.2.3: export default [lookahead] AssignmentExpression
    \/ (c.name = "after-asi")        \* the hazard itself: z NL ( e ) - the parentheses continue the previous line
Statement(c, e) == c.pre \o (IF MustParenC(c, e) THEN Paren(e).toks ELSE e.toks) \o c.post

\* ========================================================================= 3. statement-level scenarios (fixed)
StmtScenarios == (
     "asi-call"        :> <<"a", NL, "(", A, ")", ";">>
  @@ "asi-index"       :> <<"a", NL, "[", A, "]", ";">>
  @@ "asi-div"         :> <<"a", NL, "/", A, "/", "g", ";">>
  @@ "asi-template"    :> <<"a", NL, "`t`", ";">>
  @@ "asi-plus"        :> <<"a", NL, "+", A, ";">>
  @@ "asi-preinc"      :> <<"a", NL, "++", "b", ";">>
  @@ "asi-postinc"     :> <<"a", "++", NL, "b", ";">>
  @@ "asi-semi-paren"  :> <<"a", ";", "(", A, ")", ";">>
  @@ "asi-semi-index"  :> <<"a", ";", "[", A, "]", ";">>
  @@ "asi-semi-re"     :> <<"a", ";", "/r/g", ".", "p", ";">>
  @@ "asi-var-paren"   :> <<"var", "x", "=", "a", NL, "(", A, ")", ";">>
  @@ "asi-var-semi"    :> <<"var", "x", "=", "a", ";", "(", A, ")", ";">>
  @@ "asi-let-index"   :> <<"let", "x", "=", "a", ";", "[", A, "]", ";">>
  @@ "asi-block-paren" :> <<"{", "}", "(", A, ")", ";">>
  @@ "asi-func-paren"  :> <<"function", "f", "(", ")", "{", "}", "(", A, ")", ";">>
  @@ "asi-class-paren" :> <<"class", "K", "{", "}", "(", A, ")", ";">>
  @@ "asi-if-paren"    :> <<"if", "(", "a", ")", "b", ";", "(", A, ")", ";">>
  @@ "asi-do-while"    :> <<"do", "a", ";", "while", "(", "b", ")", "(", A, ")", ";">>
  @@ "return-nl"       :> <<"function", "f", "(", ")", "{", "return", NL, A, ";", "}">>
  @@ "return-paren"    :> <<"function", "f", "(", ")", "{", "return", "(", A, ")", ";", "}">>
  @@ "return-re"       :> <<"function", "f", "(", ")", "{", "return", "/r/g", ";", "}">>
  @@ "return-str"      :> <<"function", "f", "(", ")", "{", "return", "'s'", ";", "}">>
  @@ "return-comma"    :> <<"function", "f", "(", ")", "{", "return", A, ",", "b", ";", "}">>
  @@ "return-object"   :> <<"function", "f", "(", ")", "{", "return", "{", "k", ":", A, "}", ";", "}">>
  @@ "throw-paren"     :> <<"throw", "(", A, ")", ";">>
  @@ "throw-re"        :> <<"throw", "/r/", ";">>
  @@ "break-nl"        :> <<"l", ":", "for", "(", ";", ";", ")", "{", "break", NL, "l", ";", "}">>
  @@ "break-label"     :> <<"l", ":", "for", "(", ";", ";", ")", "{", "break", "l", ";", "}">>
  @@ "continue-label"  :> <<"l", ":", "for", "(", ";", ";", ")", "continue", "l", ";">>
  @@ "label-block"     :> <<"l", ":", "{", "break", "l", ";", "}">>
  @@ "label-label"     :> <<"l", ":", "m", ":", A, ";">>
  @@ "label-empty"     :> <<"l", ":", ";">>
  @@ "label-function"  :> <<"l", ":", "function", "f", "(", ")", "{", "}">>
  @@ "else-outer"      :> <<"if", "(", "a", ")", "{", "if", "(", "b", ")", A, ";", "}", "else", "d", ";">>
  @@ "else-inner"      :> <<"if", "(", "a", ")", "if", "(", "b", ")", A, ";", "else", "d", ";">>
  @@ "else-for"        :> <<"if", "(", "a", ")", "for", "(", ";", ";", ")", "if", "(", "b", ")", A, ";", "else", "d", ";">>
  @@ "else-while"      :> <<"if", "(", "a", ")", "while", "(", "b", ")", "if", "(", "c", ")", A, ";", "else", "d", ";">>
  @@ "else-while-out"  :> <<"if", "(", "a", ")", "{", "while", "(", "b", ")", "if", "(", "c", ")", A, ";", "}", "else", "d", ";">>
  @@ "else-label"      :> <<"if", "(", "a", ")", "l", ":", "if", "(", "b", ")", A, ";", "else", "d", ";">>
  @@ "else-with"       :> <<"if", "(", "a", ")", "with", "(", "b", ")", "if", "(", "c", ")", A, ";", "else", "d", ";">>
  @@ "else-do"         :> <<"if", "(", "a", ")", "do", "if", "(", "b", ")", A, ";", "while", "(", "c", ")", ";", "else", "d", ";">>
  @@ "else-empty"      :> <<"if", "(", "a", ")", ";", "else", ";">>
  @@ "else-if-chain"   :> <<"if", "(", "a", ")", A, ";", "else", "if", "(", "b", ")", "c", ";", "else", "d", ";">>
  @@ "if-var"          :> <<"if", "(", "a", ")", "var", "x", "=", A, ";", "else", "var", "y", ";">>
  @@ "do-var"          :> <<"do", "var", "x", "=", A, ";", "while", "(", "b", ")", ";">>
  @@ "do-empty"        :> <<"do", ";", "while", "(", "a", ")", ";">>
  @@ "do-nl"           :> <<"do", "a", NL, "while", "(", "b", ")", NL, A, ";">>
  @@ "do-block"        :> <<"do", "{", A, ";", "}", "while", "(", "b", ")", "c", ";">>
  @@ "while-empty"     :> <<"while", "(", "a", ")", ";">>
  @@ "while-nested"    :> <<"while", "(", "a", ")", "while", "(", "b", ")", A, ";">>
  @@ "while-var"       :> <<"while", "(", "a", ")", "var", "x", "=", A, ";">>
  @@ "for-empty"       :> <<"for", "(", ";", ";", ")", ";">>
  @@ "for-in-init"     :> <<"for", "(", "var", "x", "=", "(", A, "in", "b", ")", ";", ";", ")", ";">>
  @@ "for-in-cond"     :> <<"for", "(", "x", "=", "(", A, "in", "b", ")", "?", "1", ":", "2", ";", ";", ")", ";">>
  @@ "for-in-array"    :> <<"for", "(", "var", "x", "=", "[", A, "in", "b", "]", ";", ";", ")", ";">>
  @@ "for-in-arrow"    :> <<"for", "(", "var", "x", "=", "(", ")", "=>", "{", A, "in", "b", ";", "}", ";", ";", ")", ";">>
  @@ "for-in-call"     :> <<"for", "(", "f", "(", A, "in", "b", ")", ";", ";", ")", ";">>
  @@ "for-in-tpl"      :> <<"for", "(", "`h${", A, "in", "b", "}t`", ";", ";", ")", ";">>
  @@ "for-let-of"      :> <<"for", "(", "let", "x", "of", A, ")", ";">>
  @@ "for-paren-let"   :> <<"for", "(", "(", "let", ")", "of", A, ")", ";">>
  @@ "for-paren-async" :> <<"for", "(", "(", "async", ")", "of", A, ")", ";">>
  @@ "for-let-member"  :> <<"for", "(", "(", "let", ")", ".", "p", "of", A, ")", ";">>
  @@ "for-await"       :> <<"async", "function", "f", "(", ")", "{", "for", "await", "(", "x", "of", A, ")", ";", "}">>
  @@ "let-expr-stmt"   :> <<"(", "let", ")", ";">>
  @@ "let-expr-index"  :> <<"(", "let", ")", "[", "0", "]", "=", A, ";">>
  @@ "let-expr-index2" :> <<"(", "let", "[", "0", "]", ")", "=", A, ";">>
  @@ "let-nl-id"       :> <<"let", NL, "x", "=", A, ";">>
  @@ "let-assign"      :> <<"let", "=", A, ";">>
  @@ "let-member"      :> <<"let", ".", "p", "=", A, ";">>
  @@ "let-call"        :> <<"let", "(", A, ")", ";">>
  @@ "let-in-if"       :> <<"if", "(", "a", ")", "let", ";">>
  @@ "let-asi"         :> <<"let", NL, "let", "=", A, ";">>
  @@ "obj-names"       :> <<"x", "=", "{", "get", ":", "1", ",", "set", ":", "2", ",", "static", ":", "3", ",", "async", ":", A, ",", "await", ":", "5", ",", "yield", ":", "6", ",", "let", ":", "7", ",", "of", ":", "8", "}", ";">>
  @@ "obj-accessors"   :> <<"x", "=", "{", "get", "a", "(", ")", "{", "return", A, ";", "}", ",", "set", "a", "(", "v", ")", "{", "}", "}", ";">>
  @@ "obj-methods"     :> <<"x", "=", "{", "get", "(", ")", "{", "}", ",", "set", "(", ")", "{", "}", ",", "async", "(", ")", "{", "}", ",", "static", "(", ")", "{", "}", "}", ";">>
  @@ "obj-get-get"     :> <<"x", "=", "{", "get", "get", "(", ")", "{", "}", ",", "set", "set", "(", "v", ")", "{", "}", ",", "async", "async", "(", ")", "{", "}", "}", ";">>
  @@ "obj-async-gen"   :> <<"x", "=", "{", "async", "*", "a", "(", ")", "{", "}", ",", "*", "b", "(", ")", "{", "}", ",", "async", "get", "(", ")", "{", "}", "}", ";">>
  @@ "obj-get-keys"    :> <<"x", "=", "{", "get", "'s'", "(", ")", "{", "}", ",", "get", "1", "(", ")", "{", "}", ",", "get", "[", A, "]", "(", ")", "{", "}", "}", ";">>
  @@ "obj-keys"        :> <<"x", "=", "{", "'s'", ":", "1", ",", "1", ":", "2", ",", "1.0", ":", "3", ",", "0x1", ":", "4", ",", "[", A, "]", ":", "5", ",", "1n", ":", "6", ",", ".5", ":", "7", "}", ";">>
  @@ "obj-shorthand"   :> <<"x", "=", "{", "a", ":", "a", ",", "b", ",", "c", ":", A, "}", ";">>
  @@ "obj-cover-init"  :> <<"(", "{", "a", ",", "b", "=", A, "}", "=", "c", ")", ";">>
  @@ "obj-spread"      :> <<"x", "=", "{", "...", A, ",", "...", "b", "}", ";">>
  @@ "class-names"     :> <<"class", "K", "{", "get", ";", "set", ";", "static", ";", "async", ";", "}">>
  @@ "class-names-init":> <<"class", "K", "{", "get", "=", "1", ";", "set", "=", "2", ";", "static", "=", "3", ";", "async", "=", A, ";", "}">>
  @@ "class-get-nl"    :> <<"class", "K", "{", "get", NL, "a", "(", ")", "{", "}", "}">>
  @@ "class-static-nl" :> <<"class", "K", "{", "static", NL, "a", ";", "}">>
  @@ "class-async-nl"  :> <<"class", "K", "{", "async", NL, "a", "(", ")", "{", "}", "}">>
  @@ "class-field-idx" :> <<"class", "K", "{", "a", "=", A, ";", "[", "b", "]", "=", "2", ";", "}">>
  @@ "class-field-nl"  :> <<"class", "K", "{", "a", NL, "b", NL, "}">>
  @@ "class-field-comp":> <<"class", "K", "{", "a", ";", "[", "b", "]", ";", "[", "c", "]", "(", ")", "{", "}", "}">>
  @@ "class-field-gen" :> <<"class", "K", "{", "a", "=", A, ";", "*", "g", "(", ")", "{", "}", "}">>
  @@ "class-field-in"  :> <<"class", "K", "{", "a", "=", A, "in", "c", ";", "}">>
  @@ "class-static"    :> <<"class", "K", "{", "static", "static", "(", ")", "{", "}", "static", "async", "*", "a", "(", ")", "{", "}", "static", "get", "b", "(", ")", "{", "}", "static", "set", "b", "(", "v", ")", "{", "}", "}">>
  @@ "class-static-kw" :> <<"class", "K", "{", "static", "get", "(", ")", "{", "}", "static", "set", "(", ")", "{", "}", "static", "async", "(", ")", "{", "}", "}">>
  @@ "class-keys"      :> <<"class", "K", "{", "'s'", "(", ")", "{", "}", "1", "(", ")", "{", "}", "[", A, "]", "(", ")", "{", "}", "#p", "(", ")", "{", "}", "}">>
  @@ "class-static-f"  :> <<"class", "K", "{", "static", "a", "=", A, ";", "static", "#b", "=", "2", ";", "static", "[", "c", "]", "=", "3", ";", "static", "{", "d", ";", "}", "}">>
  @@ "class-private"   :> <<"class", "K", "{", "#p", "=", A, ";", "m", "(", ")", "{", "return", "#p", "in", "this", "&&", "this", ".", "#p", ";", "}", "}">>
  @@ "class-semi"      :> <<"class", "K", "{", ";", "a", "(", ")", "{", "}", ";", "}">>
  @@ "class-extends-c" :> <<"class", "K", "extends", "(", A, ",", "b", ")", "{", "}">>
  @@ "class-ctor"      :> <<"class", "K", "extends", "L", "{", "constructor", "(", ")", "{", "super", "(", A, ")", ";", "super", ".", "p", ";", "}", "}">>
  @@ "tpl-nested"      :> <<"x", "=", "`h${", "`h${", A, "}t`", "}m${", "`t`", "}t`", ";">>
  @@ "tpl-object"      :> <<"x", "=", "`h${", "{", "k", ":", A, "}", ".", "k", "}t`", ";">>
  @@ "tpl-function"    :> <<"x", "=", "`h${", "function", "(", ")", "{", "return", A, ";", "}", "}t`", ";">>
  @@ "tpl-tag-chain"   :> <<"x", "=", "f", "`t`", "`t`", ";">>
  @@ "tpl-member-tag"  :> <<"x", "=", "a", ".", "b", "`h${", A, "}t`", ";">>
  @@ "tpl-new-tag"     :> <<"x", "=", "new", "K", "`t`", ";">>
  @@ "html-open"       :> <<"x", "=", "a", "<", "!", "--", "b", ";">>
  @@ "html-close"      :> <<"x", "=", "a", "--", ">", "b", ";">>
  @@ "plus-chain"      :> <<"x", "=", "+", "+", "+", A, ";">>
  @@ "minus-chain"     :> <<"x", "=", "-", "-", "-", A, ";">>
  @@ "plus-preinc"     :> <<"x", "=", "+", "++", "a", ";">>
  @@ "minus-predec"    :> <<"x", "=", "-", "--", "a", ";">>
  @@ "postinc-plus"    :> <<"x", "=", "a", "++", "+", A, ";">>
  @@ "plus-plus"       :> <<"x", "=", "a", "+", "+", A, ";">>
  @@ "minus-minus"     :> <<"x", "=", "a", "-", "-", A, ";">>
  @@ "minus-predec2"   :> <<"x", "=", "a", "-", "--", "b", ";">>
  @@ "plus-preinc2"    :> <<"x", "=", "a", "+", "++", "b", ";">>
  @@ "postdec-minus"   :> <<"x", "=", "a", "--", "-", A, ";">>
  @@ "postdec-gt"      :> <<"x", "=", "a", "--", ">", A, ";">>
  @@ "not-predec"      :> <<"x", "=", "!", "--", "a", ";">>
  @@ "div-re"          :> <<"x", "=", "a", "/", "/r/g", ";">>
  @@ "div-div"         :> <<"x", "=", "a", "/", "b", "/", "c", ";">>
  @@ "re-div-re"       :> <<"x", "=", "/r/", "/", "/r/g", ";">>
  @@ "re-member"       :> <<"x", "=", "/r/g", ".", "p", ";">>
  @@ "re-in"           :> <<"x", "=", "/r/", "in", A, ";">>
  @@ "diveq-re"        :> <<"x", "/=", "/=/", ";">>
  @@ "num-member"      :> <<"x", "=", "1", ".", "p", ";">>
  @@ "num-dot-member"  :> <<"x", "=", "1.", ".", "p", ";">>
  @@ "num-frac-member" :> <<"x", "=", "1.0", ".", "p", ";">>
  @@ "num-paren-member":> <<"x", "=", "(", "1", ")", ".", "p", ";">>
  @@ "num-hex-member"  :> <<"x", "=", "0x1", ".", "p", ";">>
  @@ "num-exp-member"  :> <<"x", "=", "1e3", ".", "p", ";">>
  @@ "num-big-member"  :> <<"x", "=", "1n", ".", "p", ";">>
  @@ "num-lead-member" :> <<"x", "=", ".5", ".", "p", ";">>
  @@ "num-sep-member"  :> <<"x", "=", "1_0", ".", "p", ";">>
  @@ "num-opt-member"  :> <<"x", "=", "1", "?.", "p", ";">>
  @@ "num-index"       :> <<"x", "=", "1", "[", A, "]", ";">>
  @@ "num-neg-member"  :> <<"x", "=", "-", "1", ".", "p", ";">>
  @@ "num-in"          :> <<"x", "=", "1", "in", A, ";">>
  @@ "num-cond-dot"    :> <<"x", "=", "a", "?", ".5", ":", "1.", ";">>
  @@ "num-call-member" :> <<"x", "=", "1.", ".", "p", "(", ")", ".", "q", ";">>
  @@ "exp-unary"       :> <<"x", "=", "(", "-", A, ")", "**", "b", ";">>
  @@ "exp-unary-right" :> <<"x", "=", "a", "**", "-", A, ";">>
  @@ "exp-await"       :> <<"async", "function", "f", "(", ")", "{", "x", "=", "(", "await", A, ")", "**", "b", ";", "}">>
  @@ "exp-assoc"       :> <<"x", "=", "(", "a", "**", "b", ")", "**", A, ";">>
  @@ "new-call-paren"  :> <<"x", "=", "new", "(", "f", "(", ")", ")", ";">>
  @@ "new-call-member" :> <<"x", "=", "new", "(", "f", "(", ")", ".", "p", ")", "(", A, ")", ";">>
  @@ "new-opt"         :> <<"x", "=", "new", "(", "a", "?.", "p", ")", "(", ")", ";">>
  @@ "new-member-call" :> <<"x", "=", "new", "K", "(", ")", "(", A, ")", ";">>
  @@ "new-paren-member":> <<"x", "=", "(", "new", "K", ")", ".", "p", ";">>
  @@ "new-import"      :> <<"x", "=", "new", "(", "import", "(", "'s'", ")", ")", ";">>
  @@ "opt-paren-member":> <<"x", "=", "(", "a", "?.", "b", ")", ".", "c", ";">>
  @@ "opt-paren-call"  :> <<"x", "=", "(", "a", "?.", "b", ")", "(", A, ")", ";">>
  @@ "opt-cond-num"    :> <<"x", "=", "a", "?", ".5", ":", A, ";">>
  @@ "arrow-obj-body"  :> <<"x", "=", "(", ")", "=>", "(", "{", "k", ":", A, "}", ")", ";">>
  @@ "arrow-obj-member":> <<"x", "=", "(", ")", "=>", "(", "{", "}", ")", ".", "p", ";">>
  @@ "arrow-comma-body":> <<"x", "=", "y", "=>", "(", A, ",", "b", ")", ";">>
  @@ "arrow-call"      :> <<"x", "=", "(", "y", "=>", A, ")", "(", ")", ";">>
  @@ "arrow-cond"      :> <<"x", "=", "a", "?", "y", "=>", A, ":", "z", "=>", "b", ";">>
  @@ "arrow-in-binary" :> <<"x", "=", "a", "||", "(", "y", "=>", A, ")", ";">>
  @@ "arrow-async-nl"  :> <<"x", "=", "async", NL, "y", "=>", A, ";">>
  @@ "arrow-params"    :> <<"x", "=", "(", "a", ",", "b", "=", A, ",", "...", "c", ")", "=>", "{", "}", ";">>
  @@ "arg-comma"       :> <<"f", "(", "(", A, ",", "b", ")", ",", "c", ")", ";">>
  @@ "iife"            :> <<"(", "function", "(", ")", "{", "return", A, ";", "}", ")", "(", ")", ";">>
  @@ "iife-inner"      :> <<"(", "function", "(", ")", "{", "}", "(", A, ")", ")", ";">>
  @@ "iife-not"        :> <<"!", "function", "(", ")", "{", "}", "(", A, ")", ";">>
  @@ "iife-arrow"      :> <<"(", "(", ")", "=>", "{", "}", ")", "(", A, ")", ";">>
  @@ "class-expr-stmt" :> <<"(", "class", "{", "}", ")", ";">>
  @@ "object-stmt"     :> <<"(", "{", "}", ")", ".", "p", "=", A, ";">>
  @@ "object-destruct" :> <<"(", "{", "a", ",", "b", ":", "[", "c", "]", "}", "=", A, ")", ";">>
  @@ "array-destruct"  :> <<"[", "a", ",", ",", "b", "=", A, ",", "...", "c", "]", "=", "d", ";">>
  @@ "yield-forms"     :> <<"function", "*", "g", "(", ")", "{", "yield", ";", "yield", A, ";", "yield", "*", "b", ";", "x", "=", "yield", ";", "yield", NL, "c", ";", "}">>
  @@ "yield-operands"  :> <<"function", "*", "g", "(", ")", "{", "yield", "(", A, ")", ";", "yield", "[", "b", "]", ";", "yield", "/r/", ";", "yield", "`t`", ";", "yield", "'s'", ";", "}">>
  @@ "yield-paren"     :> <<"function", "*", "g", "(", ")", "{", "x", "=", "(", "yield", A, ")", "+", "1", ";", "f", "(", "yield", "b", ")", ";", "x", "=", "a", "?", "yield", ":", "b", ";", "}">>
  @@ "await-operands"  :> <<"async", "function", "f", "(", ")", "{", "await", "(", A, ")", ";", "await", "[", "b", "]", ";", "await", "/r/", ";", "await", "`t`", ";", "await", "'s'", ";", "await", "await", "c", ";", "}">>
  @@ "await-paren"     :> <<"async", "function", "f", "(", ")", "{", "(", "await", A, ")", "(", ")", ";", "x", "=", "-", "await", "b", ";", "await", "c", "(", ")", ";", "}">>
  @@ "kw-operands"     :> <<"x", "=", "typeof", "(", A, ")", ";", "x", "=", "typeof", "'s'", ";", "x", "=", "typeof", "/r/", ";", "x", "=", "typeof", "`t`", ";", "x", "=", "void", "(", "0", ")", ";", "x", "=", "void", "0", ";", "x", "=", "delete", "(", "a", ".", "p", ")", ";">>
  @@ "kw-binary"       :> <<"x", "=", "'s'", "in", A, ";", "x", "=", "a", "in", "'s'", ";", "x", "=", "a", "instanceof", "(", "b", ")", ";", "x", "=", "(", "a", ")", "in", "(", "b", ")", ";", "x", "=", "[", "a", "]", "in", "[", "b", "]", ";">>
  @@ "of-operands"     :> <<"for", "(", "x", "of", "'s'", ")", ";", "for", "(", "x", "of", "/r/", ")", ";", "for", "(", "x", "of", "(", A, ")", ")", ";", "for", "(", "x", "of", "[", "b", "]", ")", ";", "for", "(", "x", "of", "`t`", ")", ";">>
  @@ "in-operands"     :> <<"for", "(", "x", "in", "'s'", ")", ";", "for", "(", "x", "in", "/r/", ")", ";", "for", "(", "x", "in", "(", A, ")", ")", ";", "for", "(", "x", "in", "[", "b", "]", ")", ";">>
  @@ "new-operands"    :> <<"x", "=", "new", "(", A, ")", ";", "x", "=", "new", "(", "a", ")", "(", "b", ")", ";", "x", "=", "new", "new", "K", "(", ")", "(", ")", ";">>
  @@ "case-operands"   :> <<"switch", "(", "x", ")", "{", "case", "'s'", ":", "case", "/r/", ":", "case", "(", A, ")", ":", "case", "-", "1", ":", "default", ":", "case", "`t`", ":", "}">>
  @@ "switch-body"     :> <<"switch", "(", "x", ")", "{", "case", "1", ":", A, ";", "var", "y", "=", "2", ";", "break", ";", "default", ":", "{", "b", ";", "}", "}">>
  @@ "try-forms"       :> <<"try", "{", A, ";", "}", "catch", "{", "}", "try", "{", "}", "catch", "(", "e", ")", "{", "}", "finally", "{", "b", ";", "}">>
  @@ "directive"       :> <<"'use strict'", ";", A, ";", "function", "f", "(", ")", "{", "'use strict'", ";", "}">>
  @@ "directive-like"  :> <<"(", "'use strict'", ")", ";", "'use strict'", ".", "p", ";", "'use strict'", "+", A, ";">>
  @@ "var-list"        :> <<"var", "a", "=", A, ",", "b", ",", "[", "c", "]", "=", "d", ",", "{", "e", "}", "=", "f", ";">>
  @@ "with"            :> <<"with", "(", A, ")", ";", "with", "(", "b", ")", "c", ";">>
  @@ "debugger"        :> <<"debugger", ";", A, ";">>
  @@ "empty-stmts"     :> <<";", ";", A, ";", ";">>
  \* (runs of empty statements: every one is a node of its own, at the top, in a function body, in a case clause, after a
  \* statement whose body is the empty statement, after a block)
  @@ "empty-runs"      :> <<";", ";", ";", A, ";", ";", ";", ";", "function", "f", "(", ")", "{", ";", ";", ";", "}", "{", "}", ";", ";", ";">>
  @@ "empty-bodies"    :> <<"if", "(", A, ")", ";", ";", ";", "while", "(", "b", ")", ";", ";", ";", "l", ":", ";", ";", ";", "with", "(", "c", ")", ";", ";", ";",
                            "if", "(", "d", ")", ";", "else", ";", ";", ";", "switch", "(", "x", ")", "{", "case", "1", ":", ";", ";", ";", "}">>
  @@ "block-nested"    :> <<"{", "{", A, ";", "}", "{", "}", "}">>
)
StmtNames == DOMAIN StmtScenarios
\* scenarios that need a wrapper of their own kind are complete function declarations already (they carry their function)
ModuleScenarios == (
     "export-default-fn"    :> <<"export", "default", "function", "(", ")", "{", "}">>
  @@ "export-default-cls"   :> <<"export", "default", "class", "{", "}">>
  @@ "export-default-async" :> <<"export", "default", "async", "function", "(", ")", "{", "}">>
  @@ "export-default-paren" :> <<"export", "default", "(", "function", "(", ")", "{", "}", ")", ";">>
  @@ "export-default-comma" :> <<"export", "default", "(", A, ",", "b", ")", ";">>
  @@ "export-default-obj"   :> <<"export", "default", "{", "k", ":", A, "}", ";">>
  @@ "export-decls"         :> <<"export", "function", "f", "(", ")", "{", "}", "export", "class", "K", "{", "}", "export", "var", "x", "=", A, ";", "export", "let", "y", ";", "export", "const", "z", "=", "1", ";">>
  @@ "export-lists"         :> <<"export", "{", "}", ";", "export", "{", "a", ",", "b", "as", "c", "}", ";", "export", "{", "d", "as", "default", "}", ";", "export", "*", "from", "'s'", ";", "export", "*", "as", "n", "from", "'s'", ";", "export", "{", "default", "}", "from", "'s'", ";">>
  @@ "import-forms"         :> <<"import", "'s'", ";", "import", "a", "from", "'s'", ";", "import", "{", "}", "from", "'s'", ";", "import", "b", ",", "{", "c", "as", "d", "}", "from", "'s'", ";", "import", "*", "as", "n", "from", "'s'", ";", "import", "e", ",", "*", "as", "m", "from", "'s'", ";">>
  @@ "import-expr"          :> <<"import", "(", "'s'", ")", ".", "then", "(", A, ")", ";", "import", ".", "meta", ".", "url", ";", "x", "=", "import", ".", "meta", ";">>
  @@ "shebang-like"         :> <<"/*!k*/", A, ";", "/*! c\n d */", "b", ";">>
  \* (a hashbang line stays the first thing printed, whatever preserved comments the module holds)
  @@ "shebang"              :> <<"#!/usr/bin/env node", NL, "/*!k*/", A, ";", "/*! c\n d */", "b", ";">>
  @@ "shebang-only-comment" :> <<"#!x", NL, "/*!k*/">>
)
ModuleNames == DOMAIN ModuleScenarios

\* ========================================================================= 4. literals and depth
LitAtom(l) == CASE l = "tpl" -> "`x\ny`" [] l = "str" -> "'x\\\ny'" [] l = "re" -> "/r\\/s/m" [] OTHER -> "a"
\* tokens after which a LineTerminator may not follow (restricted productions 12.10.1; the comment contains one)
Restricted == {"yield", "return", "throw", "break", "continue", "async"}
RECURSIVE Subst(_, _, _, _)
\* replace the operand A; a comment is put in front of the first A (behind it after a restricted token)
Subst(toks, l, first, prev) ==
    IF toks = <<>> THEN <<>>
    ELSE IF Head(toks) = A
         THEN LET c == IF l = "cmt" /\ first THEN <<"/*! c\n d */">> ELSE <<>>
              IN (IF prev \in Restricted THEN <<LitAtom(l)>> \o c ELSE c \o <<LitAtom(l)>>) \o Subst(Tail(toks), l, FALSE, "a")
         ELSE <<Head(toks)>> \o Subst(Tail(toks), l, first, Head(toks))
HasA(toks) == \E i \in DOMAIN toks : toks[i] = A

\* the function a scenario needs around it when it is nested (or at depth 0, where only `yield` needs one)
FuncPre(async, gen, func) ==
    IF async /\ gen THEN <<"async", "function", "*", "w", "(", ")", "{">>
    ELSE IF async THEN <<"async", "function", "w", "(", ")", "{">>
    ELSE IF gen THEN <<"function", "*", "w", "(", ")", "{">>
    ELSE IF func THEN <<"function", "w", "(", ")", "{">>
    ELSE <<"{">>
Outer(k) == CASE k % 3 = 1 -> <<"function", "w", "(", ")", "{">> [] k % 3 = 2 -> <<"if", "(", "w", ")", "{">> [] OTHER -> <<"{">>
RECURSIVE WrapN(_, _, _)
WrapN(toks, k, d) == IF k > d THEN toks ELSE WrapN(Outer(k) \o <<NL>> \o toks \o <<NL, "}">>, k + 1, d)
\* depth d: the innermost wrapper is the function the scenario needs (a block if none), then d-1 more
Wrap(toks, d, async, gen, func) ==
    IF d = 0 THEN toks
    ELSE WrapN(FuncPre(async, gen, func) \o <<NL>> \o toks \o <<NL, "}">>, 2, d)

\* ========================================================================= 5. the behaviour: one choice per step
VARIABLES stage, fam, ctx, frs, inn, force, lit, depth
gvars == <<stage, fam, ctx, frs, inn, force, lit, depth>>

Init == stage = "fam" /\ fam = "" /\ ctx = "" /\ frs = <<>> /\ inn = "" /\ force = FALSE /\ lit = "none" /\ depth = 0

Fams == {"pair", "stmt", "module"} \cup (IF StartFams THEN {"start"} ELSE {})
PickFam == /\ stage = "fam"
           /\ \E f \in Fams :
                /\ fam' = f
                /\ stage' = CASE f = "pair" -> "frame" [] f = "start" -> "ctx" [] OTHER -> "scenario"
                /\ ctx' = IF f = "pair" THEN "assign" ELSE ""
           /\ UNCHANGED <<frs, inn, force, lit, depth>>
PickCtx == /\ stage = "ctx"
           /\ \E c \in CtxNames \ {"assign"} : ctx' = c
           /\ stage' = "frame"
           /\ UNCHANGED <<fam, frs, inn, force, lit, depth>>
\* "start" family: no frame or one of the frames whose hole is leftmost (and for contexts whose hole must be a target, only those that keep it one)
FrameChoices == IF fam = "pair" THEN FrameNames
                ELSE IF CtxOf(ctx).target THEN {"member-dot"} ELSE LeftFrameNames
PickFrame == /\ stage = "frame" /\ Len(frs) < MaxNest
             /\ \E f \in FrameChoices : frs' = Append(frs, f)
             /\ UNCHANGED <<stage, fam, ctx, inn, force, lit, depth>>
InnerChoices == IF fam = "pair" THEN InnerNames ELSE StartInnerNames
PickInner == /\ stage = "frame" /\ (frs # <<>> \/ fam = "start")
             /\ \E n \in InnerChoices :
                  /\ TargetOK(frs, Inner(n)) /\ TargetsOK(frs)
                  /\ (IF frs = <<>> THEN (CtxOf(ctx).target => Inner(n).tgt) ELSE TRUE)
                  /\ ~CrossesFn(frs, Inner(n))
                  /\ (CtxOf(ctx).fn => LET x == Build(frs, Inner(n), FALSE) IN ~x.async /\ ~x.gen)
                  /\ (CtxOf(ctx).module => ~Build(frs, Inner(n), FALSE).gen)
                  /\ inn' = n
             /\ stage' = "force"
             /\ UNCHANGED <<fam, ctx, frs, force, lit, depth>>
PickScenario == /\ stage = "scenario"
                /\ \E n \in (IF fam = "stmt" THEN StmtNames ELSE ModuleNames) : inn' = n
                /\ stage' = "lit"
                /\ UNCHANGED <<fam, ctx, frs, force, lit, depth>>
PickForce == /\ stage = "force"
             /\ \E b \in BOOLEAN : force' = b
             /\ stage' = "lit"
             /\ UNCHANGED <<fam, ctx, frs, inn, lit, depth>>

\* the expression and the statement of the current choice
TheExpr == Build(frs, Inner(inn), force)
TheToks == CASE fam \in {"pair", "start"} -> Statement(CtxOf(ctx), TheExpr)
             [] fam = "stmt" -> StmtScenarios[inn]
             [] OTHER -> ModuleScenarios[inn]
\* a literal may replace the operand unless the operand is the target itself
LitChoices == {"none"} \cup
    (IF ~HasA(TheToks) THEN {}
     ELSE IF fam \in {"pair", "start"} /\ Inner(inn).plainA
               /\ (IF frs # <<>> THEN FrameOf(frs[Len(frs)]).target ELSE CtxOf(ctx).target) THEN Lits \cap {"cmt"}
     ELSE IF force THEN {}                              \* literals only with the minimal parentheses
     ELSE IF fam = "start" THEN Lits \cap {"tpl"}
     ELSE Lits)
PickLit == /\ stage = "lit"
           /\ \E l \in LitChoices : lit' = l
           /\ stage' = "depth"
           /\ UNCHANGED <<fam, ctx, frs, inn, force, depth>>
NeedAsync == fam \in {"pair", "start"} /\ TheExpr.async
NeedGen   == fam \in {"pair", "start"} /\ TheExpr.gen
NeedFunc  == fam = "start" /\ CtxOf(ctx).func
IsModule  == fam = "module" \/ (fam = "start" /\ CtxOf(ctx).module)
DepthChoices == IF IsModule THEN {0}
                ELSE IF lit = "none" THEN (IF NeedGen THEN {1} ELSE {0})
                ELSE (IF NeedGen THEN Depths \ {0} ELSE Depths)
PickDepth == /\ stage = "depth"
             /\ \E d \in DepthChoices : depth' = d
             /\ stage' = "done"
             /\ UNCHANGED <<fam, ctx, frs, inn, force, lit>>

Program == Wrap(Subst(TheToks, lit, TRUE, ""), depth, NeedAsync, NeedGen, NeedFunc)

\* ---- emission
CaseFile == IOEnv.VERIF_CASES
RECURSIVE JoinNames(_)
JoinNames(s) == IF s = <<>> THEN "" ELSE IF Len(s) = 1 THEN s[1] ELSE s[1] \o " " \o JoinNames(Tail(s))
Case == LET p == Program IN
        [fam |-> fam, ctx |-> ctx, outer |-> ctx \o ":" \o JoinNames(frs), frames |-> frs, inner |-> inn, force |-> force,
         lit |-> lit, depth |-> depth, atoms |-> p, sep |-> Seps(p)]
EmitInv == stage = "done" => CSVWrite("%1$s", <<ToJson(Case)>>, CaseFile)
\* the vocabulary, once, so that the check can tell which productions a run never used
VocabInv == stage = "fam" =>
    CSVWrite("%1$s", <<ToJson([vocab |-> [frame |-> FrameNames, inner |-> InnerNames \cup StmtNames \cup ModuleNames,
                                          ctx |-> (IF StartFams THEN CtxNames ELSE {"assign"}), lit |-> Lits \cup {"none"},
                                          depth |-> Depths, fam |-> Fams]])>>, CaseFile)

Next == PickFam \/ PickCtx \/ PickFrame \/ PickInner \/ PickScenario \/ PickForce \/ PickLit \/ PickDepth
Spec == Init /\ [][Next]_gvars

\* ---- sanity of the lexical relation (an assumption TLC evaluates once, before the search)
LexSanity ==
    /\ NeedsSep("+", "+", "a") /\ NeedsSep("+", "++", "a") /\ ~NeedsSep("++", "+", "a") /\ NeedsSep("-", "--", "a") /\ NeedsSep("-", "-", "a")
    /\ ~NeedsSep("+", "-", "a") /\ NeedsSep("<", "!", "--") /\ ~NeedsSep("<", "!", "a") /\ ~NeedsSep("--", ">", "a")
    /\ NeedsSep("/", "/r/", "") /\ NeedsSep("/", "/*!k*/", "") /\ ~NeedsSep("a", "/", "b") /\ NeedsSep("1", ".", "p") /\ ~NeedsSep("1.", ".", "p")
    /\ ~NeedsSep("0x1", ".", "p") /\ NeedsSep("typeof", "a", "") /\ ~NeedsSep("typeof", "'s'", "") /\ ~NeedsSep("typeof", "/r/", "")
    /\ NeedsSep("/r/", "in", "a") /\ NeedsSep("1", "in", "a") /\ ~NeedsSep("?", ".5", ":") /\ NeedsSep("?", ".", "p") /\ ~NeedsSep("=", "/=/", ";")
    /\ NeedsSep("*", "*", "a") /\ NeedsSep("=", ">", "a") /\ ~NeedsSep(")", "=>", "a") /\ NeedsSep("&", "&", "a") /\ ~NeedsSep("a", "(", "b")
    /\ NeedsSep(".", "...", "a") /\ ~NeedsSep("...", ".5", "") /\ NeedsSep(">", ">>=", "a") /\ NeedsSep("!", "=", "a") /\ NeedsSep("?", "?.", "a")
ASSUME LexSanity
=============================================================================
