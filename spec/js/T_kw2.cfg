SPECIFICATION Spec
CONSTANTS
  Cons <- KwCons
  Terms = {"semi","nl"}
  MaxE = 2
  MaxS = 2
  MaxX = 1
  MaxP = 0
  MaxL = 1
  MaxTop = 2
CHECK_DEADLOCK FALSE
