SPECIFICATION Spec
CONSTANTS
  Plan = "regexp"
  MaxNest = 3
  MaxBody = 3
  MaxLen = 12
INVARIANTS EmitInv VocabInv
CHECK_DEADLOCK FALSE
