SPECIFICATION Spec
CONSTANTS
  Alphabet = {"thead", "backtick", "rbrace", "lbrace", "rparen", "tsub", "lparen", "letter"}
  MaxLen = 4
  Emit = TRUE
  ReMode = "grammar"
  Defect = "none"
INVARIANT OneError
INVARIANT MapInv
INVARIANT LevelInv
PROPERTY RefinesTok
PROPERTY Progress
PROPERTY LongestMatch
PROPERTY TokenInvP
PROPERTY Adjacent
PROPERTY NumLang
PROPERTY ReLang
PROPERTY Brackets
PROPERTY DetSound
CHECK_DEADLOCK FALSE
