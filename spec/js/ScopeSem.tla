------------------------------ MODULE ScopeSem ------------------------------
(***************************************************************************)
(* Generator with a semantic oracle (kinds G + P) for C04.                 *)
(*                                                                         *)
(* A program is a sequence of ITEMS with explicit scope brackets:          *)
(*   [k |-> "decl", d |-> "var"|"let"|"const", n |-> name]                 *)
(*   [k |-> "use", n |-> name]                                             *)
(*   [k |-> "grp", a |-> name, b |-> name, eq |-> BOOLEAN]                 *)
(*        a parenthesised expression that looks like an arrow head but is  *)
(*        not followed by '=>':  (a,b);  or  (a=b);                        *)
(*   [k |-> "open", s |-> kind, n |-> name or "", ps |-> parameter list,   *)
(*    c |-> name used in a loop condition or ""]                           *)
(*        kinds: fn (function declaration) fx (function expression)        *)
(*        ar (arrow function) blk (block) forlet forvar (loop heads)       *)
(*        catch cls (class declaration) cx (class expression); the body of *)
(*        a class is one method m(){...} holding the nested items          *)
(*   [k |-> "close"]                                                       *)
(* A behaviour appends one item at a time; a behaviour that closed every   *)
(* bracket is a program.  For every identifier occurrence (in source       *)
(* order) the operator Occ computes the BINDING it denotes under the       *)
(* ECMAScript scoping rules the property lists; a binding is identified by *)
(* the pair <<declaring scope, name>>.  Programs ECMAScript rejects        *)
(* (lexical redeclaration) are emitted with verdict "rejected"; programs   *)
(* whose treatment the property leaves open are not emitted.               *)
(***************************************************************************)
EXTENDS Integers, Sequences, FiniteSets, TLC, Json, CSV, IOUtils

CONSTANTS Names,      \* e.g. {"a", "b"}
          MaxItems,   \* items per program (brackets included)
          MaxDepth,   \* nesting depth of scopes
          Kinds       \* scope kinds offered, subset of {"fn","fx","ar","blk","forlet","forvar","forx","catch","cls","cx"}

VARIABLES prog, depth
vars == <<prog, depth>>

FuncLike == {"fn", "fx", "ar", "cls", "cx"}      \* kinds that are function boundaries (class: its method m)
HasParams == {"fn", "fx", "ar"}
Named == {"fn", "cls"}                            \* name is mandatory
OptNamed == {"fx", "cx"}
HeadNamed == {"forlet", "forvar", "catch"}        \* the head declares a name

NoParams == <<>>
P1(a) == <<[n |-> a, d |-> ""]>>
ParamLists == {NoParams} \cup {P1(a) : a \in Names}
              \cup {<<[n |-> a, d |-> b]>> : a \in Names, b \in Names}
              \cup UNION {{<<[n |-> a, d |-> ""], [n |-> b, d |-> ""]>> : b \in Names \ {a}} : a \in Names}
              \cup UNION {{<<[n |-> a, d |-> b], [n |-> b, d |-> ""]>> : b \in Names \ {a}} : a \in Names}
              \* a default followed by a further parameter of a name used nowhere else (the harness spells a last parameter
              \* without default as a rest parameter every third time: `function f(a=b,...r){var b}`)
              \cup {<<[n |-> a, d |-> b], [n |-> "r", d |-> ""]>> : a \in Names, b \in Names}
              \* a default naming a later parameter (first) and one naming an earlier parameter (last) of the same name
              \cup UNION {{<<[n |-> a, d |-> b], [n |-> b, d |-> ""], [n |-> "r", d |-> b]>> : b \in Names \ {a}} : a \in Names}

(* ------------------------------- structure of a program ------------------------------- *)
\* parent[i] = index of the open item enclosing item i (0: the program)
RECURSIVE ParentsFrom(_, _, _, _)
ParentsFrom(p, i, stack, acc) ==
    IF i > Len(p) THEN acc
    ELSE LET top == IF stack = <<>> THEN 0 ELSE stack[Len(stack)] IN
         IF p[i].k = "open" THEN ParentsFrom(p, i + 1, Append(stack, i), Append(acc, top))
         ELSE IF p[i].k = "close" THEN ParentsFrom(p, i + 1, SubSeq(stack, 1, Len(stack) - 1), Append(acc, top))
         ELSE ParentsFrom(p, i + 1, stack, Append(acc, top))
Parents(p) == ParentsFrom(p, 1, <<>>, <<>>)

KindOf(p, s) == IF s = 0 THEN "prog" ELSE p[s].s
IsFunc(p, s) == s = 0 \/ p[s].s \in FuncLike

\* chain of scopes enclosing item i, innermost first, ending with 0
RECURSIVE Chain(_, _, _)
Chain(p, par, s) == IF s = 0 THEN <<0>> ELSE <<s>> \o Chain(p, par, par[s])
\* the function-level scope a var-like declaration made directly in scope s belongs to
RECURSIVE FuncOf(_, _, _)
FuncOf(p, par, s) == IF IsFunc(p, s) THEN s ELSE FuncOf(p, par, par[s])

(* ------------------------------- declarations ------------------------------- *)
\* the set of [sc |-> scope, n |-> name, lex |-> BOOLEAN] declared by item j of p
DeclsOf(p, par, j) ==
    LET it == p[j] IN
    IF it.k = "decl" THEN
        IF it.d = "var" THEN {[sc |-> FuncOf(p, par, par[j]), n |-> it.n, lex |-> FALSE]}
        ELSE {[sc |-> par[j], n |-> it.n, lex |-> TRUE]}
    ELSE IF it.k = "open" THEN
        (IF it.s = "fn" THEN {[sc |-> par[j], n |-> it.n, lex |-> FALSE]} ELSE {})
        \cup (IF it.s = "cls" THEN {[sc |-> par[j], n |-> it.n, lex |-> TRUE]} ELSE {})
        \cup (IF it.s \in HasParams THEN {[sc |-> j, n |-> it.ps[q].n, lex |-> FALSE] : q \in 1..Len(it.ps)} ELSE {})
        \cup (IF it.s = "forlet" THEN {[sc |-> j, n |-> it.n, lex |-> TRUE]} ELSE {})
        \cup (IF it.s = "catch" THEN {[sc |-> j, n |-> it.n, lex |-> TRUE]} ELSE {})
        \cup (IF it.s = "forvar" THEN {[sc |-> FuncOf(p, par, par[j]), n |-> it.n, lex |-> FALSE]} ELSE {})
    ELSE {}
AllDecls(p, par) == UNION {DeclsOf(p, par, j) : j \in 1..Len(p)}
Declared(D, s, x) == \E d \in D : d.sc = s /\ d.n = x
\* parameters only (the scope a default value expression sees first)
ParamDeclared(p, s, x) == s # 0 /\ p[s].s \in HasParams /\ \E q \in 1..Len(p[s].ps) : p[s].ps[q].n = x
SelfName(p, s, x) == s # 0 /\ p[s].s \in OptNamed /\ p[s].n = x /\ x # ""

\* the binding a use of x denotes, looking outward along the chain; <<-99999, x>> if bound nowhere.
\* first: TRUE while we are at the first scope of a default-value lookup (only parameters are visible there)
RECURSIVE Lookup(_, _, _, _, _)
Lookup(p, D, ch, x, first) ==
    IF ch = <<>> THEN <<-99999, x>>
    ELSE LET s == ch[1] IN
         IF first /\ ParamDeclared(p, s, x) THEN <<s, x>>
         ELSE IF ~first /\ Declared(D, s, x) THEN <<s, x>>
         ELSE IF SelfName(p, s, x) THEN <<-s, x>>
         ELSE Lookup(p, D, SubSeq(ch, 2, Len(ch)), x, FALSE)

\* identifier occurrences of item j in source order: sequence of [n |-> name, b |-> binding]
OccOf(p, par, D, j) ==
    LET it == p[j]
        chHere == Chain(p, par, par[j])                 \* scopes enclosing the item
        chIn   == Chain(p, par, j)                       \* for an open item: its own scope first
        Use(x, ch) == [n |-> x, b |-> Lookup(p, D, ch, x, FALSE)]
    IN
    \* the name in a declaration denotes the binding it declares (`var x;` inside catch (x): the function-level x, B.3.5)
    IF it.k = "decl" THEN <<[n |-> it.n, b |-> <<(IF it.d = "var" THEN FuncOf(p, par, par[j]) ELSE par[j]), it.n>>]>>
    ELSE IF it.k = "use" THEN <<Use(it.n, chHere)>>
    ELSE IF it.k = "grp" THEN <<Use(it.a, chHere), Use(it.b, chHere)>>
    ELSE IF it.k = "open" THEN
        LET nameOcc == IF it.n = "" THEN <<>>
                       ELSE IF it.s \in Named \cup {"forx"} THEN <<Use(it.n, chHere)>>     \* forx: for (n in c) / for (n of c), n an assignment target
                       ELSE IF it.s \in OptNamed THEN <<[n |-> it.n, b |-> <<-j, it.n>>]>>
                       ELSE <<[n |-> it.n, b |-> (IF it.s = "forvar" THEN <<FuncOf(p, par, par[j]), it.n>> ELSE <<j, it.n>>)]>>
            RECURSIVE ParamOcc(_)
            ParamOcc(q) == IF q > Len(it.ps) THEN <<>>
                           ELSE <<[n |-> it.ps[q].n, b |-> <<j, it.ps[q].n>>]>>
                                \o (IF it.ps[q].d = "" THEN <<>> ELSE <<[n |-> it.ps[q].d, b |-> Lookup(p, D, chIn, it.ps[q].d, TRUE)]>>)
                                \o ParamOcc(q + 1)
            \* the loop condition sees the head's let and whatever the loop statement's surroundings see -- not the
            \* lexical declarations of the loop BODY, which is a block of its own
            condOcc == IF it.c = "" THEN <<>>
                       ELSE IF it.s = "forlet" /\ it.c = it.n THEN <<[n |-> it.c, b |-> <<j, it.c>>]>>
                       ELSE <<Use(it.c, chHere)>>
        IN nameOcc \o (IF it.s \in HasParams THEN ParamOcc(1) ELSE <<>>) \o condOcc
    ELSE <<>>
RECURSIVE OccFrom(_, _, _, _)
OccFrom(p, par, D, j) == IF j > Len(p) THEN <<>> ELSE OccOf(p, par, D, j) \o OccFrom(p, par, D, j + 1)
Occ(p) == LET par == Parents(p) IN OccFrom(p, par, AllDecls(p, par), 1)

(* ------------------------------- verdict ------------------------------- *)
\* ECMAScript early error named by the property: one lexical name (let / const / class / loop or catch head) declared
\* twice in one scope
LexItems(p, par, s, x) == {j \in 1..Len(p) : \E d \in DeclsOf(p, par, j) : d.sc = s /\ d.n = x /\ d.lex}
VarItems(p, par, s, x) == {j \in 1..Len(p) : \E d \in DeclsOf(p, par, j) : d.sc = s /\ d.n = x /\ ~d.lex}
Rejected(p) ==
    LET par == Parents(p)
        D == AllDecls(p, par)
    IN \E d \in D : d.lex /\ Cardinality(LexItems(p, par, d.sc, d.n)) > 1

\* other early errors of ECMAScript (a lexical and a var-like declaration of one name in a scope; a var hoisted through a
\* block that lexically declares the name): the property does not list them, so such programs are not emitted
MixedConflict(p) ==
    LET par == Parents(p)
        D == AllDecls(p, par)
        Hoisted == \E j \in 1..Len(p) : \E d \in DeclsOf(p, par, j) :
                      /\ ~d.lex /\ (p[j].k = "decl" \/ p[j].s = "forvar")
                      /\ \E t \in 1..Len(Chain(p, par, par[j])) :
                            LET s == Chain(p, par, par[j])[t] IN
                            s # d.sc /\ (\A u \in 1..(t - 1) : ~IsFunc(p, Chain(p, par, par[j])[u])) /\ ~IsFunc(p, s)
                            /\ LexItems(p, par, s, d.n) # {}
                            \* (Annex B.3.5: `var x;` inside catch (x) {...} is allowed; it declares the function-level x)
                            /\ ~(p[s].s = "catch" /\ p[j].k = "decl" /\ LexItems(p, par, s, d.n) = {s})
    IN (\E d \in D : d.lex /\ VarItems(p, par, d.sc, d.n) # {}) \/ Hoisted

\* constructs whose treatment the property statement leaves open (or that this tree is known to treat specially): not emitted
\* the name of a function / class expression shadowed by a parameter or declaration of the same name at the top of
\* that very function: whether the two share a Var has no observable consequence (renaming both is still an alpha-renaming).
\* The VERDICT of such a program is not open: one lexical name declared twice in that scope is still an early error.
SelfNameShadowed(p) ==
    LET par == Parents(p)
        D == AllDecls(p, par) IN
    \E j \in 1..Len(p) : p[j].k = "open" /\ p[j].s \in OptNamed /\ p[j].n # "" /\ Declared(D, j, p[j].n)
OtherUnsure(p) ==
    LET par == Parents(p)
        D == AllDecls(p, par) IN
    \/ MixedConflict(p)
    \/ \E j \in 1..Len(p) : p[j].k = "open" /\ p[j].s \in {"forlet", "catch"}
                               /\ \E i \in 1..Len(p) : i # j /\ \E d \in DeclsOf(p, par, i) : d.sc = j /\ d.n = p[j].n
    \/ \E j \in 1..Len(p) : p[j].k = "open" /\ p[j].s \in HasParams /\ (\E q \in 1..Len(p[j].ps) : p[j].ps[q].d # "")
                               /\ \E i \in 1..Len(p) : p[i].k \in {"decl", "open"} /\ i # j
                                     /\ \E d \in DeclsOf(p, par, i) : d.sc = j /\ ParamDeclared(p, j, d.n)
    \* a loop head `for (var x ...` inside catch (x) (an early error for for-of, allowed for the other loops: left open)
    \/ \E j \in 1..Len(p) : p[j].k = "open" /\ p[j].s = "catch" /\ \E i \in 1..Len(p) : i # j /\ p[i].k = "open" /\ p[i].s = "forvar" /\ p[i].n = p[j].n
                               /\ j \in {Chain(p, par, par[i])[t] : t \in 1..Len(Chain(p, par, par[i]))}
    \/ \E j \in 1..Len(p) : p[j].k = "open" /\ p[j].s \in HasParams /\ \E q \in 1..Len(p[j].ps) : \E d \in D : d.sc = j /\ d.n = p[j].ps[q].n /\ d.lex

(* ------------------------------- behaviours ------------------------------- *)
Init == prog = <<>> /\ depth = 0
CurKind == LET par == Parents(prog)
               RECURSIVE Open(_, _)
               Open(i, st) == IF i > Len(prog) THEN st
                              ELSE IF prog[i].k = "open" THEN Open(i + 1, Append(st, prog[i].s))
                              ELSE IF prog[i].k = "close" THEN Open(i + 1, SubSeq(st, 1, Len(st) - 1)) ELSE Open(i + 1, st)
               st == Open(1, <<>>)
           IN IF st = <<>> THEN "prog" ELSE st[Len(st)]
Room == Len(prog) + depth < MaxItems          \* every open bracket still needs its close

AddDecl  == \E d \in {"var", "let", "const"}, n \in Names : Room /\ prog' = Append(prog, [k |-> "decl", d |-> d, n |-> n]) /\ UNCHANGED depth
AddUse   == \E n \in Names : Room /\ prog' = Append(prog, [k |-> "use", n |-> n]) /\ UNCHANGED depth
AddGrp   == \E a \in Names, b \in Names, eq \in BOOLEAN : Room /\ prog' = Append(prog, [k |-> "grp", a |-> a, b |-> b, eq |-> eq]) /\ UNCHANGED depth
AddOpen  == \E s \in Kinds :
              /\ Len(prog) + depth + 1 < MaxItems /\ depth < MaxDepth
              /\ (s = "fn" => CurKind \in {"prog"} \cup FuncLike)      \* function declarations only at function level
              /\ \E n \in (IF s \in Named \cup HeadNamed \cup {"forx"} THEN Names ELSE IF s \in OptNamed THEN Names \cup {""} ELSE {""}) :
                 \E ps \in (IF s \in HasParams THEN ParamLists ELSE {NoParams}) :
                 \E c \in (IF s \in {"forlet", "forvar"} THEN Names \cup {""} ELSE IF s = "forx" THEN Names ELSE {""}) :     \* a name used in the loop condition / iterated expression
                    prog' = Append(prog, [k |-> "open", s |-> s, n |-> n, ps |-> ps, c |-> c])
              /\ depth' = depth + 1
AddClose == depth > 0 /\ prog' = Append(prog, [k |-> "close"]) /\ depth' = depth - 1

CaseFile == IOEnv.VERIF_CASES
Complete(p, d) == d = 0 /\ Len(p) > 0
Unsure(p) == OtherUnsure(p) \/ SelfNameShadowed(p)
Emit == (Complete(prog', depth') /\ ~OtherUnsure(prog') /\ (SelfNameShadowed(prog') => Rejected(prog'))) =>
           LET rej == Rejected(prog') IN
           CSVWrite("%1$s", <<ToJson([prog |-> prog', verdict |-> (IF rej THEN "rejected" ELSE "accepted"),
                                      occ |-> (IF rej THEN <<>> ELSE Occ(prog'))])>>, CaseFile)
Next == (AddDecl \/ AddUse \/ AddGrp \/ AddOpen \/ AddClose) /\ Emit
Spec == Init /\ [][Next]_vars
=============================================================================
