SPECIFICATION Spec
CONSTANTS
  Plan = "pairs"
  MaxNest = 3
  MaxBody = 2
  MaxLen = 12
INVARIANTS EmitInv VocabInv
CHECK_DEADLOCK FALSE
