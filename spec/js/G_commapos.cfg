SPECIFICATION Spec
CONSTANTS
  Cons <- CommaPos
  Terms = {"semi"}
  MaxE = 2
  MaxS = 1
  MaxX = 1
  MaxP = 1
  MaxL = 0
  MaxTop = 1
CHECK_DEADLOCK FALSE
