SPECIFICATION Spec
CONSTANTS
  NN = 6
  Forget = FALSE
  EarlyExit = FALSE
PROPERTY Refines
CHECK_DEADLOCK FALSE
