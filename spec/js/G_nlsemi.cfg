SPECIFICATION Spec
CONSTANTS
  Cons <- NlSemi
  Terms = {"semi","nlsemi"}
  MaxE = 1
  MaxS = 2
  MaxX = 1
  MaxP = 0
  MaxL = 0
  MaxTop = 1
CHECK_DEADLOCK FALSE
