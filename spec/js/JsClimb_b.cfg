SPECIFICATION Spec
CONSTANTS
  DefectAddRightAssoc = FALSE
  MaxLen = 5
  Ops = {"bitxor", "bitand", "eqeq", "lt", "shl", "mul", "exp"}
INVARIANT Unambiguous
INVARIANT ClimbEqualsLadder
CHECK_DEADLOCK FALSE
