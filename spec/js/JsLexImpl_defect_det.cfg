SPECIFICATION Spec
CONSTANTS
  Alphabet = {"digit0", "digit1", "letter_b", "letter", "dot"}
  MaxLen = 4
  Emit = FALSE
  ReMode = "grammar"
  Defect = "det_num_follow"
INVARIANT OneError
PROPERTY DetSound
CHECK_DEADLOCK FALSE
