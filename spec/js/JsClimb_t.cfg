SPECIFICATION Spec
CONSTANTS
  DefectAddRightAssoc = FALSE
  MaxLen = 6
  Ops = {"eq", "nullish", "oror", "bitor", "mul", "exp"}
INVARIANT Unambiguous
INVARIANT ClimbEqualsLadder
CHECK_DEADLOCK FALSE
