SPECIFICATION Spec
CONSTANTS
  DefectAddRightAssoc = FALSE
  MaxLen = 7
  Ops = {"eq", "nullish", "oror", "bitor", "mul", "exp"}
INVARIANT Unambiguous
INVARIANT ClimbEqualsLadder
CHECK_DEADLOCK FALSE
