------------------------------ MODULE JsTokens ------------------------------
(***************************************************************************)
(* C06 - JS tokens follow the ECMAScript lexical grammar.                  *)
(*                                                                         *)
(* This module is written from ECMA-262 clause 12 (lexical grammar), not   *)
(* from js/lex.go.  It holds                                               *)
(*   1. the vocabulary: one ATOM per spelling class of every token kind    *)
(*      the property names (the harness chooses a concrete spelling of the *)
(*      class by seed; keyword and punctuator atoms have one spelling);    *)
(*   2. NeedsSep / MergesStrict: which adjacent tokens the grammar's       *)
(*      longest-match rule and follow restrictions would lex differently   *)
(*      when juxtaposed;                                                   *)
(*   3. the context rule for '}' (template continuation vs punctuator);    *)
(*   4. the acceptance predicates used by JsTokensTrace.tla (kind P).      *)
(* JsTokensGen.tla (kind G) enumerates token sequences over this           *)
(* vocabulary; a scenario is a sequence of UNITS, a unit being the         *)
(* sequence of atoms that makes up exactly one token (one atom, except for *)
(* regular-expression literals: opener, body atoms, closer, flags).        *)
(*                                                                         *)
(* Readings chosen where the standard or the statement leave room:         *)
(*  - Kinds of numeric literals: Integer = DecimalIntegerLiteral with or   *)
(*    without BigInt suffix, Decimal = a DecimalLiteral with '.' or an     *)
(*    ExponentPart, Hexadecimal/Octal/Binary = the NonDecimalIntegerLiteral*)
(*    forms with or without suffix (the library's TokenType names).        *)
(*  - The goal symbol is InputElementDiv everywhere ('/' and '/=' are      *)
(*    punctuators; the caller asks for a regular expression), except that  *)
(*    inside a template substitution a '}' at brace depth 0 continues the  *)
(*    template (InputElementTemplateTail).  The standard selects the goal  *)
(*    through the syntactic grammar; scenarios therefore keep '(' ')' '{'  *)
(*    '}' balanced inside a substitution, which every syntactically valid  *)
(*    program does, and leave them free at top level.                      *)
(*  - Granularity of trivia: the statement does not say whether a run of   *)
(*    WhiteSpace code points is one token; scenarios never put two         *)
(*    whitespace atoms, or two line terminators, next to each other (CR LF *)
(*    is one LineTerminatorSequence anyway).                               *)
(*  - Annex B.1.1 HTML-like comments are outside the property; '<!--' and  *)
(*    '-->' are treated as openers that two tokens must not form.          *)
(*  - Legacy octal literals / escapes (Annex B) are not generated.         *)
(***************************************************************************)
EXTENDS Integers, Sequences, FiniteSets, TLC

RECURSIVE Join(_)
Join(s) == IF s = <<>> THEN "" ELSE s[1] \o Join(Tail(s))

(***************************************************************************)
(* 1. Vocabulary                                                           *)
(***************************************************************************)
\* 12.7.2 ReservedWord
KwReserved == {"await", "break", "case", "catch", "class", "const", "continue", "debugger", "default", "delete", "do",
               "else", "enum", "export", "extends", "false", "finally", "for", "function", "if", "import", "in",
               "instanceof", "new", "null", "return", "super", "switch", "this", "throw", "true", "try", "typeof",
               "var", "void", "while", "with", "yield"}
\* reserved in strict mode code only
KwStrict == {"let", "static", "implements", "interface", "package", "private", "protected", "public"}
\* contextual keywords the library's Keywords table knows
KwContextual == {"as", "async", "from", "get", "meta", "of", "set", "target"}
KwWords == KwReserved \cup KwStrict \cup KwContextual

\* 12.8 Punctuator (OptionalChainingPunctuator, OtherPunctuator, DivPunctuator, RightBracePunctuator), spelled
\* character by character so that longest match can be computed here
PunctSeqs == {
  <<"{">>, <<"}">>, <<"(">>, <<")">>, <<"[">>, <<"]">>, <<".">>, <<".", ".", ".">>, <<";">>, <<",">>,
  <<"<">>, <<">">>, <<"<", "=">>, <<">", "=">>, <<"=", "=">>, <<"!", "=">>, <<"=", "=", "=">>, <<"!", "=", "=">>,
  <<"+">>, <<"-">>, <<"*">>, <<"/">>, <<"%">>, <<"*", "*">>, <<"+", "+">>, <<"-", "-">>,
  <<"<", "<">>, <<">", ">">>, <<">", ">", ">">>, <<"&">>, <<"|">>, <<"^">>, <<"!">>, <<"~">>,
  <<"&", "&">>, <<"|", "|">>, <<"?", "?">>, <<"?">>, <<"?", ".">>, <<":">>,
  <<"=">>, <<"+", "=">>, <<"-", "=">>, <<"*", "=">>, <<"/", "=">>, <<"%", "=">>, <<"*", "*", "=">>,
  <<"<", "<", "=">>, <<">", ">", "=">>, <<">", ">", ">", "=">>, <<"&", "=">>, <<"|", "=">>, <<"^", "=">>,
  <<"&", "&", "=">>, <<"|", "|", "=">>, <<"?", "?", "=">>, <<"=", ">">> }
ASSUME Cardinality(PunctSeqs) = 57

(* An atom: n name, k expected token kind (for keywords and punctuators the kind IS the canonical spelling: "the  *)
(* type whose canonical spelling equals the text"), c class, h head = the first characters of every spelling of   *)
(* the atom over the alphabet  i IdentifierStart (incl. a \u escape), d DecimalDigit, q quote, ` # w n (white     *)
(* space, line terminator) and the punctuation characters themselves.                                             *)
Mk(n, k, c, h) == [n |-> n, k |-> k, c |-> c, h |-> h]

KwAtoms    == {Mk("kw." \o w, w, "kw", <<"i">>) : w \in KwWords}
PunctAtoms == {Mk("p." \o Join(s), Join(s), "punct", s) : s \in PunctSeqs}

Id(n)  == Mk(n, "Identifier", "id", <<"i">>)
IdAtoms == {Id("id.ascii"), Id("id.dollar"), Id("id.under"), Id("id.u2"), Id("id.u3"), Id("id.u4"), Id("id.ucont"),
            Id("id.esc4"), Id("id.escb"), Id("id.zw"), Id("id.kwlike")}

\* class "int": DecimalIntegerLiteral without suffix (a following '.' would extend it); "num": every other literal
NumAtoms == {
  Mk("num.int", "Integer", "int", <<"d">>), Mk("num.zero", "Integer", "int", <<"d">>), Mk("num.sep", "Integer", "int", <<"d">>),
  Mk("num.bigint", "Integer", "num", <<"d">>),
  Mk("num.frac", "Decimal", "num", <<"d">>), Mk("num.traildot", "Decimal", "num", <<"d">>),
  Mk("num.leaddot", "Decimal", "num", <<".", "d">>),
  Mk("num.exp", "Decimal", "num", <<"d">>), Mk("num.exp+", "Decimal", "num", <<"d">>), Mk("num.exp-", "Decimal", "num", <<"d">>),
  Mk("num.fracexp", "Decimal", "num", <<"d">>), Mk("num.traildotexp", "Decimal", "num", <<"d">>),
  Mk("num.leaddotexp", "Decimal", "num", <<".", "d">>),
  Mk("num.hex", "Hexadecimal", "num", <<"d">>), Mk("num.hexn", "Hexadecimal", "num", <<"d">>),
  Mk("num.oct", "Octal", "num", <<"d">>), Mk("num.octn", "Octal", "num", <<"d">>),
  Mk("num.bin", "Binary", "num", <<"d">>), Mk("num.binn", "Binary", "num", <<"d">>) }

Str(n) == Mk(n, "String", "str", <<"q">>)
StrAtoms == {Str("str.dq"), Str("str.sq"), Str("str.empty"), Str("str.esc.char"), Str("str.esc.quote"), Str("str.esc.bslash"),
             Str("str.esc.zero"), Str("str.esc.hex"), Str("str.esc.u4"), Str("str.esc.ub"), Str("str.esc.nonesc"),
             Str("str.otherquote"), Str("str.cont.lf"), Str("str.cont.cr"), Str("str.cont.crlf"), Str("str.cont.ls"),
             Str("str.cont.ps"), Str("str.rawls"), Str("str.rawps"), Str("str.unicode"), Str("str.lookalike")}

TmplAtoms == {
  Mk("tmpl.nosub", "Template", "tmpl", <<"`">>), Mk("tmpl.nosub.lt", "Template", "tmpl", <<"`">>),
  Mk("tmpl.nosub.esc", "Template", "tmpl", <<"`">>), Mk("tmpl.nosub.dollar", "Template", "tmpl", <<"`">>),
  Mk("tmpl.head", "TemplateStart", "thead", <<"`">>), Mk("tmpl.head.text", "TemplateStart", "thead", <<"`">>),
  Mk("tmpl.mid", "TemplateMiddle", "tmid", <<"}">>), Mk("tmpl.mid.text", "TemplateMiddle", "tmid", <<"}">>),
  Mk("tmpl.tail", "TemplateEnd", "ttail", <<"}">>), Mk("tmpl.tail.text", "TemplateEnd", "ttail", <<"}">>) }

Priv(n) == Mk(n, "PrivateIdentifier", "priv", <<"#">>)
PrivAtoms == {Priv("priv.ascii"), Priv("priv.u"), Priv("priv.esc"), Priv("priv.kw")}

\* parts of a RegularExpressionLiteral (12.9.5); a unit made of them is one RegExp token
ReAtoms == {
  Mk("re.open", "RegExp", "reopen", <<"/">>), Mk("re.open.eq", "RegExp", "reopen", <<"/", "=">>),
  Mk("re.plain", "", "rebody", <<>>), Mk("re.escslash", "", "rebody", <<>>), Mk("re.class.slash", "", "rebody", <<>>),
  Mk("re.class.escbracket", "", "rebody", <<>>), Mk("re.class.plain", "", "rebody", <<>>),
  Mk("re.close", "", "reclose", <<>>), Mk("re.flags", "", "reflags", <<>>) }
ReBodyNames == {a.n : a \in {x \in ReAtoms : x.c = "rebody"}}

Ws(n) == Mk(n, "Whitespace", "ws", <<"w">>)
Lt(n) == Mk(n, "LineTerminator", "lt", <<"n">>)
WsAtoms == {Ws("ws.sp"), Ws("ws.tab"), Ws("ws.vt"), Ws("ws.ff"), Ws("ws.nbsp"), Ws("ws.bom"), Ws("ws.zs")}
LtAtoms == {Lt("lt.lf"), Lt("lt.cr"), Lt("lt.crlf"), Lt("lt.ls"), Lt("lt.ps")}
CmtAtoms == {Mk("cmt.single", "Comment", "cmt1", <<"/", "/">>),
             Mk("cmt.multi", "Comment", "cmtm", <<"/", "*">>),
             Mk("cmt.multi.lt", "CommentLineTerminator", "cmtm", <<"/", "*">>)}

TriviaAtoms == WsAtoms \cup LtAtoms \cup CmtAtoms
SigAtoms == KwAtoms \cup PunctAtoms \cup IdAtoms \cup NumAtoms \cup StrAtoms \cup TmplAtoms \cup PrivAtoms
Atoms == SigAtoms \cup ReAtoms \cup TriviaAtoms
AtomNames == {a.n : a \in Atoms}
ASSUME Cardinality(AtomNames) = Cardinality(Atoms)
A == [n \in AtomNames |-> CHOOSE a \in Atoms : a.n = n]

(***************************************************************************)
(* 2. Which neighbours must be separated                                   *)
(***************************************************************************)
\* what a token can begin with besides a punctuator: comments, '.5', and the Annex B comment openers
Openers == {<<"/", "/">>, <<"/", "*">>, <<".", "d">>, <<"<", "!", "-", "-">>, <<"-", "-", ">">>}
Q == PunctSeqs \cup Openers

IsPrefix(p, s) == Len(p) <= Len(s) /\ SubSeq(s, 1, Len(p)) = p
\* OptionalChainingPunctuator :: ?. [lookahead \notin DecimalDigit]
Viable(q, s) == ~(q = <<"?", ".">> /\ Len(s) >= 3 /\ s[3] = "d")
MaxOf(S) == CHOOSE x \in S : \A y \in S : y <= x
\* length of the longest token (or opener) the grammar matches at the start of s; s starts with a punctuator
FirstLen(s) == MaxOf({Len(q) : q \in {r \in Q : IsPrefix(r, s) /\ Viable(r, s)}})

(* Rules that do not depend on what follows b:                                                                   *)
(*  R1 IdentifierName / PrivateIdentifier / RegularExpressionFlags take every following IdentifierPart           *)
(*  R2 12.9.3: the character after a NumericLiteral must not be an IdentifierStart or DecimalDigit               *)
(*  R3 DecimalLiteral :: DecimalIntegerLiteral . DecimalDigits_opt  - an integer takes a following '.'           *)
(*  R4 a SingleLineComment extends to the next LineTerminator                                                    *)
(*  R5 granularity of trivia (see the readings above)                                                            *)
IdTail(a) == a.c \in {"id", "kw", "priv", "reclose", "reflags"}
IsNum(a)  == a.c \in {"int", "num"}
Common(a, b) ==
    \/ IdTail(a) /\ b.h[1] \in {"i", "d"}
    \/ IsNum(a) /\ b.h[1] \in {"i", "d"}
    \/ a.c = "int" /\ b.h[1] = "."
    \/ a.c = "cmt1" /\ b.c # "lt"
    \/ a.c = "ws" /\ b.c = "ws"
    \/ a.c = "lt" /\ b.c = "lt"

\* exactly two tokens a b followed by the end of input or by trivia: longest match at the start of a.b is not a
MergesStrict(a, b) == Common(a, b) \/ (a.c = "punct" /\ FirstLen(a.h \o b.h) # Len(a.h))

\* in any context: some token or opener continues a with the first character of b (so that whatever follows b,
\* the longest match at the start of a is a itself when NeedsSep is false)
Extends(p, h) == \E q \in Q : /\ Len(q) > Len(p)
                              /\ SubSeq(q, 1, Len(p) + 1) = Append(p, h[1])
                              /\ Viable(q, p \o h)
NeedsSep(a, b) == MergesStrict(a, b) \/ (a.c = "punct" /\ Extends(a.h, b.h))

(***************************************************************************)
(* 3. Units and the bracket context                                        *)
(***************************************************************************)
First(u) == A[u[1]]
Last(u)  == A[u[Len(u)]]
KindOf(u) == First(u).k
\* the token Next() reports before RegExp() re-reads it
PreOf(u) == IF u[1] = "re.open" THEN "/" ELSE IF u[1] = "re.open.eq" THEN "/=" ELSE ""

(* stk: inside template substitutions, the open brackets: "T" = a substitution, "(" and "{" as they nest.        *)
(* Empty stk = top level, where brackets are free.                                                               *)
NestOf(stk) == Cardinality({i \in DOMAIN stk : stk[i] = "T"})
Top(stk) == stk[Len(stk)]
Pop(stk) == SubSeq(stk, 1, Len(stk) - 1)
Allowed(u, stk, maxNest) ==
    LET a == First(u) IN
    CASE a.c = "thead" -> NestOf(stk) < maxNest
      [] a.c \in {"tmid", "ttail"} -> (IF stk = <<>> THEN FALSE ELSE Top(stk) = "T")
      [] a.n = "p.}" -> (IF stk = <<>> THEN TRUE ELSE Top(stk) = "{")
      [] a.n = "p.)" -> (IF stk = <<>> THEN TRUE ELSE Top(stk) = "(")
      [] OTHER -> TRUE
Effect(u, stk) ==
    LET a == First(u) IN
    CASE a.c = "thead" -> Append(stk, "T")
      [] a.c = "ttail" -> Pop(stk)
      [] a.n \in {"p.{", "p.("} /\ stk # <<>> -> Append(stk, a.h[1])
      [] a.n \in {"p.}", "p.)"} /\ stk # <<>> -> Pop(stk)
      [] OTHER -> stk

(***************************************************************************)
(* 4. Acceptance (used by JsTokensTrace)                                   *)
(***************************************************************************)
\* a text (sequence of byte values, valid UTF-8) contains a LineTerminator: LF, CR, U+2028, U+2029
HasLT(text) == \E i \in DOMAIN text :
                  \/ text[i] \in {10, 13}
                  \/ text[i] = 226 /\ i + 2 <= Len(text) /\ text[i + 1] = 128 /\ text[i + 2] \in {168, 169}

(* holds for every token of every input: tok = [kname, cls, text, canon, err]                                    *)
(*   cls \in {"kw","punct","op"}: the text is the canonical spelling of the reported type                        *)
(*   a comment is CommentLineTerminator exactly when it contains a line terminator                               *)
TokenInv(tok) ==
    /\ (tok.cls \in {"kw", "punct", "op"} => tok.text = tok.canon)
    /\ (tok.kname = "CommentLineTerminator" => HasLT(tok.text))
    /\ (tok.kname = "Comment" => ~HasLT(tok.text))

(* exp: the expected tokens [k, lo, hi, pre]; the idx-th report of the lexer must be the idx-th expected token,  *)
(* and the report after the last one the end of input.                                                           *)
Matches(exp, idx, tok) ==
    IF idx <= Len(exp)
    THEN /\ ~tok.err
         /\ tok.kname = exp[idx].k
         /\ tok.lo = exp[idx].lo /\ tok.hi = exp[idx].hi
         /\ tok.same                       \* the text is that piece of the input
         /\ tok.pre = exp[idx].pre
    ELSE idx = Len(exp) + 1 /\ tok.err /\ tok.eof
=============================================================================
