SPECIFICATION Spec
CONSTANTS
  Cons <- StmtCons
  Terms = {"semi","nl","omit"}
  MaxE = 1
  MaxS = 3
  MaxX = 2
  MaxStack = 4
CHECK_DEADLOCK FALSE
