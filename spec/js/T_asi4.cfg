SPECIFICATION Spec
CONSTANTS
  Cons <- AsiCons
  Terms = {"semi","nl","omit"}
  MaxE = 1
  MaxS = 3
  MaxX = 1
  MaxP = 1
  MaxL = 1
  MaxTop = 1
CHECK_DEADLOCK FALSE
