SPECIFICATION Spec
CONSTANTS
  Cons <- LeafCons
  Terms = {"semi"}
  MaxE = 1
  MaxS = 1
  MaxX = 1
  MaxP = 1
  MaxL = 1
  MaxTop = 1
CHECK_DEADLOCK FALSE
