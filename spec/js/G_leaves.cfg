SPECIFICATION Spec
CONSTANTS
  Cons <- LeafCons
  Terms = {"semi"}
  MaxE = 2
  MaxS = 1
  MaxX = 1
  MaxStack = 3
CHECK_DEADLOCK FALSE
