----------------------------- MODULE JsGrammar -----------------------------
(***************************************************************************)
(* Generator with a grammatical oracle (kinds G + P) for C03.              *)
(*                                                                         *)
(* Written from ECMA-262 (ES2022) clauses 13-16, not from js/parse.go.     *)
(*                                                                         *)
(* A behaviour builds abstract syntax TREES bottom-up on a stack (postfix  *)
(* construction: every tree has exactly one construction sequence, so TLC  *)
(* generates every tree once).  A node is                                  *)
(*     [k |-> kind, op |-> operator/variant, nm |-> name, c |-> children,  *)
(*      z |-> statement terminator spelling]                               *)
(* The stratified expression grammar ("the ladder") is the pair            *)
(*     Level(t)        the ladder level of the production that derives t   *)
(*     ChildReq(t, i)  the ladder level the grammar demands of operand i   *)
(* A tree is derivable without parentheses iff every operand's level is at *)
(* least the demanded one; otherwise the only derivation goes through      *)
(* PrimaryExpression -> ParenthesizedExpression.  Norm inserts exactly     *)
(* those parentheses (a "grp" node, as the tree js.Parse returns keeps     *)
(* parentheses as GroupExpr); redundant parentheses are "grp" nodes put in *)
(* by the generator itself.  Two renderings of a normalised tree:          *)
(*     Spell(t)  its token sequence                                        *)
(*     Canon(t)  the pieces of the AST.String() format (joined by the      *)
(*               harness) - the observable the property names              *)
(* Statement terminators are spelled ";" / by a line break / not at all;   *)
(* ASIok says where the automatic-semicolon-insertion rules allow that.    *)
(* Ill-formed programs: bracket deletions/insertions (positions computed   *)
(* here), the parentheses whose removal gives a forbidden operator         *)
(* sequence (tagged tokens), assignment to a binary expression and lexical *)
(* redeclarations (special nodes that flip the expectation to "reject").   *)
(***************************************************************************)
EXTENDS Integers, Sequences, FiniteSets, TLC, Json, CSV, IOUtils

CONSTANTS Cons,      \* constructors offered: set of [k, op, n]
          Terms,     \* terminator spellings offered: subset of {"semi", "nl", "omit"}
          MaxE, MaxS, MaxX,   \* budgets: expression operators / statements / auxiliary nodes
          MaxL,               \* budget: leaves other than identifiers (literals, new.target, import.meta, [] and {})
          MaxP,               \* budget: composite primary expressions (function, class, object, array, arrow with block body)
          MaxTop              \* top-level statements

VARIABLES word, holes, ne, ns, nx, np, nv, nleaf
vars == <<word, holes, ne, ns, nx, np, nv, nleaf>>

Pool == <<"a","b","c","d","e","f","g","h","i","j","k","m","n","o","p","q","r","s","t","u","v","w","x","y","z",
          "a1","b1","c1","d1","e1","f1","g1","h1","i1","j1","k1","m1","n1","o1","p1","q1","r1","s1","t1","u1">>

(* ------------------------------- vocabulary ------------------------------- *)
BinOps == {"??","||","&&","|","^","&","==","!=","===","!==","<",">","<=",">=","instanceof","in",
           "<<",">>",">>>","+","-","*","/","%","**"}
AsgOps == {"=","+=","-=","*=","/=","%=","**=","<<=",">>=",">>>=","&=","|=","^=","&&=","||=","??="}
UnOps  == {"delete","void","typeof","+","-","~","!","await"}
Lits   == {"0","'s'","/r/","`t`","this","null","true","1.5e3","'('","/[)]/g","`}`"}
RegexToks == {"/r/","/[)]/g"}
TplToks == {"`t`","`}`","`h${","}m${","}t`"}
FnKinds == {"","async","*","async*"}
MethKinds == {"","get","set","async","*","async*"}
Keys == {"pr","if","3","'sk'"}

C0(k) == [k |-> k, op |-> "", n |-> 0]
CN(k, n) == [k |-> k, op |-> "", n |-> n]
CO(k, op) == [k |-> k, op |-> op, n |-> 0]
CON(k, op, n) == [k |-> k, op |-> op, n |-> n]

\* the full operator vocabulary of the expression ladder
ExprOps == {C0("grp"), C0("new0"), C0("comma"), C0("cond"), C0("idx"), C0("oidx"), C0("dot"), C0("odot"),
            C0("yield"), C0("yields"), C0("spread"), CN("tpl", 1), CN("tag", 0), CN("tag", 1),
            CN("newa", 0), CN("newa", 1), CN("call", 0), CN("call", 1), CN("ocall", 0), CN("ocall", 1),
            CN("arr", 1), CO("arrow", ""), CO("arrow", "async")}
           \cup {CO("bin", o) : o \in BinOps} \cup {CO("asg", o) : o \in AsgOps} \cup {CO("un", o) : o \in UnOps}
           \cup {CO("pre", o) : o \in {"++","--"}} \cup {CO("post", o) : o \in {"++","--"}}
ExprLeaves == {C0("id"), C0("yield0"), C0("psid"), CN("ps", 0)}
OneStmt == {C0("expr")}
ExprFull == ExprOps \cup ExprLeaves \cup OneStmt
\* one or two representatives per ladder level
ExprReduced == {C0("id"), C0("psid"), C0("expr"), C0("grp"), C0("new0"), C0("comma"), C0("cond"), C0("dot"), C0("odot"),
                C0("yield"), CN("call", 1), CN("newa", 0), CO("arrow", ""),
                CO("bin","??"), CO("bin","||"), CO("bin","=="), CO("bin","in"), CO("bin","+"), CO("bin","*"), CO("bin","**"),
                CO("asg","="), CO("un","-"), CO("un","await"), CO("post","++")}
\* the other representatives of each level (thorough tier)
ExprReduced2 == {C0("id"), C0("psid"), C0("expr"), C0("grp"), C0("idx"), C0("oidx"), C0("yields"), C0("spread"), CN("call", 1), CN("ocall", 1), CN("newa", 1), CN("tag", 0), C0("new0"), CO("arrow", "async"),
                 CO("bin","&&"), CO("bin","^"), CO("bin","&"), CO("bin","!="), CO("bin","instanceof"), CO("bin",">>>"), CO("bin","-"), CO("bin","%"), CO("bin","<="), CO("bin","|"),
                 CO("asg","**="), CO("asg","&&="), CO("un","typeof"), CO("un","!"), CO("pre","--"), C0("cond")}
\* few operators, deeper (thorough tier)
ExprTiny == {C0("id"), C0("expr"), C0("grp"), C0("cond"), C0("dot"), CN("call", 1), CO("bin","||"), CO("bin","+"), CO("bin","**"), CO("asg","="), CO("un","-")}
\* every kind of leaf / primary expression under one operator
LeafCons == {C0("id"), C0("expr"), C0("nt"), C0("im"), C0("yield0"), CN("arr", 0), CO("arr", "h0"), CN("obj", 0), CN("ps", 0), CN("blk", 0),
             CN("cls", 0), CN("clsn", 0), CON("cls", "x", 0), CON("clsn", "", 1), CON("clsn", "x", 1), CN("field", 0), C0("psh"), CN("obj", 1), CN("arr", 2), CON("arr", "h1", 1), CON("arr", "1h", 1),
             CO("arrowb", ""), CO("arrowb", "async"), CO("arrow", ""), C0("spread"), C0("pspread"), C0("pcomp"),
             CO("bin","/"), CO("bin","**"), CO("bin","in"), CO("asg","="), CO("un","typeof"), CO("post","++"),
             C0("dot"), CN("call", 1), CN("newa", 1), CN("tag", 0), C0("new0"), C0("grp"), CN("tpl", 1), C0("idx")}
            \cup {CO("lit", l) : l \in Lits} \cup {CO("fn", f) : f \in FnKinds} \cup {CO("fnn", f) : f \in FnKinds}
            \cup {CO("pkv", k) : k \in Keys} \cup {CO("pmeth", m) : m \in MethKinds}
\* negative constructions
NegCons == {C0("id"), C0("expr"), CO("bin","+"), CO("bin","*"), CO("bin","??"), CO("bin","||"), CO("bin","&&"), CO("bin","**"), CO("un","-"),
            CO("badasg","="), CO("badasg","+="), C0("grp"), CN("blk", 1), CN("blk", 2), CN("ps", 0), CO("fdecl", ""), C0("if")}
           \cup {CO("dup", d) : d \in {"let-let","let-const","const-let","const-class","class-let","class-class","let-class"}}
\* statements
ForOps == {"---","e--","-e-","--e","eee","v--","vee"}
TryOps == {"c","cp","f","cf","cpf"}
StmtCons == {C0("id"), C0("expr"), C0("empty"), CN("blk", 0), CN("blk", 1), CN("blk", 2), C0("if"), C0("ife"), C0("while"), C0("dow"),
             CN("sw", 0), CN("sw", 1), CN("sw", 2), CN("case", 0), CN("case", 1), CN("case", 2), CN("def", 0), CN("def", 1),
             CO("label", "L"), CO("label", "M"), CO("brk", ""), CO("brk", "L"), CO("cont", ""), CO("cont", "L"),
             C0("ret0"), C0("ret"), C0("throw"), C0("dbg"), C0("bid"), C0("dc"), C0("dci"), CN("ps", 0), CN("ps", 1)}
            \cup {CO("for", f) : f \in ForOps} \cup {CO("try", f) : f \in TryOps}
            \cup {CON("var", v, 1) : v \in {"var","let","const"}} \cup {CON("var", "var", 2)}
            \cup {CO(l, v) : l \in {"forin","forof","forawait"}, v \in {"e","var","let","const"}}
            \cup {CO("fdecl", f) : f \in FnKinds} \cup {CON("cdecl", "", 0)}
\* one representative per statement family, for deeper nesting
StmtRed == {C0("id"), C0("expr"), C0("empty"), CN("blk", 0), CN("blk", 2), C0("if"), C0("ife"), C0("while"), C0("dow"),
            CN("sw", 1), CN("sw", 2), CN("case", 1), CN("def", 1), CO("label", "L"), CO("brk", ""), CO("brk", "L"), CO("cont", ""), CO("cont", "L"),
            C0("ret"), C0("throw"), C0("bid"), C0("dc"), CN("ps", 0), CO("for", "eee"), CO("for", "v--"), CO("try", "cf"), CON("var", "let", 1), CON("var", "var", 1),
            CO("forin", "var"), CO("forof", "e"), CO("fdecl", ""), CO("fdecl", "async*"), CO("forawait", "const")}
\* terminator spellings: statements that end in ";" and what may follow them
AsiCons == {C0("id"), C0("expr"), CN("blk", 1), CN("blk", 2), C0("if"), C0("ife"), C0("dow"),
            CN("sw", 1), CN("case", 2), CO("label", "L"), CO("brk", ""), CO("brk", "L"), CO("cont", ""),
            C0("ret0"), C0("ret"), C0("throw"), C0("dbg"), C0("bid"), C0("dc"), C0("dci"), CN("ps", 0), CO("for", "---"),
            CON("var", "let", 1), CO("fdecl", ""),
            CO("pre", "++"), CO("pre", "--"), CO("post", "--"), CO("post", "++"), CN("call", 0), C0("grp"), C0("yield0"), CO("un", "!"), CO("un", "-"), CO("lit", "'s'"), CO("lit", "/r/"), CO("lit", "`t`"),
            CN("arr", 0), CO("arrow", ""), C0("psid")}
\* bindings and parameter lists
BindCons == {C0("id"), C0("expr"), C0("bid"), C0("bdef"), CN("barr", 0), CN("barr", 1), CN("barr", 2), CON("barr", "h1", 1), CON("barr", "r", 1),
             CON("barr", "r", 2), CN("bobj", 0), CN("bobj", 1), CN("bobj", 2), CON("bobj", "r", 0), CON("bobj", "r", 1),
             C0("bpsh"), C0("bpshd"), CO("bpkv", "pr"), CO("bpkv", "if"), C0("bpcomp"), C0("dc"), C0("dci"),
             CON("var", "let", 1), CON("var", "const", 1), CON("var", "var", 2),
             CN("ps", 0), CN("ps", 1), CN("ps", 2), CON("ps", "r", 1), CON("ps", "r", 2), C0("psid"), CN("blk", 0),
             CO("fdecl", ""), CO("arrow", ""), CO("arrow", "async"), CO("try", "cp"),
             CO("forof", "let"), CO("forin", "var"), CO("bin", "+"), CO("bin", "in"), C0("empty")}
\* destructuring assignment (the cover grammar: array / object literals re-read as patterns)
AsgPat == {C0("id"), C0("expr"), CO("asg", "="), CO("asg", "+="), CN("arr", 1), CN("arr", 2), CON("arr", "h1", 1), CN("obj", 1), CN("obj", 2), C0("psh"), CO("pkv", "pr"), C0("pcomp"),
           C0("spread"), C0("pspread"), C0("grp"), C0("dot"), C0("idx"), CO("forof", "e"), CO("forin", "e"), C0("empty"),
           CO("fn", ""), CO("fn", "async"), CN("ps", 0), CN("blk", 0), CN("cls", 0)}
\* the left side of for-in / for-of when it is an expression (LeftHandSideExpression with lookahead restrictions, or a pattern)
ForLhs == {C0("id"), C0("empty"), CO("forin", "e"), CO("forof", "e"), C0("dot"), C0("idx"), C0("grp"), CO("fn", ""), CO("fn", "async"), CN("cls", 0), CN("ps", 0), CN("blk", 0),
           CN("arr", 1), CN("obj", 1), C0("psh"), CN("call", 0), CN("newa", 0), CO("un", "await")}
\* statements inside class bodies; private names
ClassBody == {C0("id"), C0("expr"), CN("ps", 0), CN("blk", 0), CN("blk", 1), C0("ctor"), C0("sblock"), CN("pfield", 0), CO("pmeth2", ""), CO("meth", ""), CO("smeth", "async"),
              CON("cdecl", "", 2), CON("clsn", "", 2), C0("pdot"), C0("opdot"), C0("dot"), CO("asg", "="), C0("ret"), C0("nt"), CO("un", "await"), C0("ret0")}
\* arrow parameters: the cover grammar (parenthesised expression re-read as parameters), computed keys and defaults inside
ArrowPat == {C0("id"), C0("expr"), CO("arrow", ""), CO("arrow", "async"), CN("ps", 1), C0("bid"), C0("bdef"), CN("barr", 1), CN("bobj", 1), C0("bpcomp"), CO("bpkv", "pr"), C0("bpshd"),
             CN("arr", 1), CN("obj", 1), CO("pkv", "pr"), C0("psh"), CO("bin", "+"), CO("lit", "0"), C0("grp"), CN("call", 1), C0("idx"), C0("dot"), CO("un", "-"), CO("asg", "=")}
\* the [In] parameter: `in` inside the head of a for statement, bare (needs parentheses) and inside every kind of bracket (does not)
ForIn == {C0("id"), C0("empty"), CO("for", "e--"), CO("for", "v--"), CON("var", "var", 1), C0("dci"), C0("bid"),
          CO("bin", "in"), CO("bin", "||"), C0("idx"), C0("oidx"),
          CN("call", 1), CN("ocall", 1), CN("newa", 1), CN("arr", 1), CN("obj", 1), CO("pkv", "pr"), CN("tpl", 1), C0("cond"), C0("grp"), CO("arrow", ""), C0("psid")}
ForInPat == {C0("id"), C0("empty"), CO("for", "v--"), CO("forof", "var"), CO("forin", "let"), CO("forawait", "const"), CON("var", "let", 1), C0("dci"), C0("bid"),
             C0("bdef"), CN("barr", 1), CN("bobj", 1), C0("bpshd"), C0("bpcomp"), CO("bpkv", "pr"), CO("bin", "in")}
\* deeper patterns in one context
BindDeep == {C0("id"), C0("bid"), C0("bdef"), CN("barr", 0), CN("barr", 1), CN("barr", 2), CON("barr", "h1", 1), CON("barr", "r", 1), CON("barr", "r", 2),
             CN("bobj", 0), CN("bobj", 1), CN("bobj", 2), CON("bobj", "r", 0), CON("bobj", "r", 1),
             C0("bpsh"), C0("bpshd"), CO("bpkv", "pr"), C0("bpcomp"), C0("dci"), CON("var", "let", 1)}
\* terminators of class fields
ClassAsi == {C0("id"), CN("ps", 0), CN("blk", 0), CN("field", 0), CN("field", 1), CN("pfield", 0), CN("sfield", 1), CN("cfield", 0), CN("cfield", 1),
             CO("meth", ""), CO("meth", "*"), CO("meth", "get"), CO("smeth", ""), CO("cmeth", ""), C0("sblock"), CON("cdecl", "", 1), CON("cdecl", "", 2)}
\* classes
ClassCons == {C0("id"), C0("expr"), CN("ps", 0), CN("ps", 1), C0("bid"), CN("blk", 0), C0("ctor"), C0("sblock"),
              CN("field", 0), CN("field", 1), CN("sfield", 0), CN("sfield", 1), CN("pfield", 0), CN("pfield", 1), CN("cfield", 0), CN("cfield", 1),
              CON("cdecl", "", 0), CON("cdecl", "", 1), CON("cdecl", "", 2), CON("cdecl", "x", 0), CON("cdecl", "x", 1),
              C0("pdot"), C0("opdot"), C0("dot"), CO("bin", "+"), CN("call", 0),
              CO("asg", "=")}
             \cup {CO("meth", k) : k \in MethKinds} \cup {CO("smeth", k) : k \in {"", "set"}} \cup {CO("pmeth2", k) : k \in {"", "get"}}
             \cup {CO("cmeth", k) : k \in {"", "async*"}}

(* Contextual keywords as identifiers (ECMA-262 12.7.1/13.1: async, of, get, set are never reserved; let, static, yield are    *)
(* reserved in strict mode code only; await only in modules and async functions) and the [no LineTerminator here] marks of   *)
(* the productions in which they are keywords.  "kid" is an IdentifierReference with one of these names.  A node whose z is   *)
(* "lt" is spelled with a line break after its first token ("lta": before the `=>` of an arrow function):                     *)
(*   - where the grammar has no [no LineTerminator here] there (after an identifier, a unary operator, new, get, set,        *)
(*     static, let/const/var) the program keeps its derivation, hence its tree;                                               *)
(*   - after the `async` of a function expression / arrow function / object literal method (15.8, 15.9, 15.6) and before     *)
(*     `=>` (15.3, 15.9) the production does not apply; the text is generated only where no other derivation exists          *)
(*     (LtBad below), expectation: rejected;                                                                                  *)
(*   - `async <line break> function f(){}` and `async <line break> x => y` as statements, `async <line break> me(){}` in a    *)
(*     class body ARE derivable in another way (12.10.1: the restricted token gets a semicolon before it): they are the trees *)
(*     "expression statement `async` ended by a line break, then ..." / "field async, then method me" built from kid / kfield.*)
KwIds == {"async","let","of","get","set","static","await","yield"}
KwMembers == {"async","get","set","static"}
\* (a) as a whole expression statement / the right edge of one, ended by ';' or a line break, before every kind of statement start
KwCons == {C0("id"), C0("expr"), CO("asg","="), CN("call", 0), CO("post","++"), CO("pre","--"), CO("un","typeof"),
           CO("fdecl",""), CO("fdecl","async"), CO("arrow",""), CO("arrow","async"), C0("psid"), CN("ps", 0), C0("bid"), CN("blk", 0), CN("blk", 1),
           CON("varl","let",1), C0("dc"), C0("dci"), CN("barr", 1), C0("if"), CO("label","L"), C0("empty"), C0("thrownl")}
          \cup {CO("kid", w) : w \in KwIds}
\* (b) inside expressions, with a line break after the identifier / operator / keyword; the restricted productions with the line break where they forbid it
KwLt == {C0("id"), C0("expr"), CO("asg","="), CN("call", 1), C0("grp"), CO("un","await"), C0("new0"),
         CO("fn","async"), CO("arrow",""), CO("arrow","async"), C0("psid"), CN("ps", 0), CN("ps", 1), C0("bid"), CN("blk", 0),
         CN("obj", 1), CO("pmeth","async"), CO("pmeth","get"), CN("arr", 1)}
        \cup {CO("kid", w) : w \in {"async","let","of","await","yield"}}
\* (the same with more operators and bracket kinds, thorough tier)
KwLt2 == KwLt \cup {C0("idx"), CN("tpl", 1), CO("post","++"), CO("un","typeof"), CO("fnn","async*"), CO("arrowb","async"), CO("pkv","pr"), C0("dot")} \cup {CO("kid", w) : w \in KwIds}
\* class members named by a keyword, modifiers followed by a line break
KwClass == {C0("id"), CN("ps", 0), CN("ps", 1), C0("bid"), CN("blk", 0), CN("field", 0), CN("field", 1), CN("sfieldl", 0), CN("sfieldl", 1), CO("meth",""), CO("meth","get"), CO("meth","set"), CO("meth","async"), CO("meth","*"),
            CO("smeth",""), CO("smeth","async"), CO("pmeth2","get"), CN("cfield", 0), CON("cdecl","",1), CON("cdecl","",2), CO("kid","async"), CO("kid","get"), CO("kid","of")}
           \cup {CON("kfield", w, n) : w \in KwMembers, n \in {0, 1}} \cup {CO("kmeth", w) : w \in KwMembers}
\* the semicolon that ends a statement written on the next line, for every statement kind ending in ';' and inside if-else / do-while / labels / blocks
NlSemi == {C0("id"), C0("expr"), CN("blk", 1), CN("blk", 2), C0("if"), C0("ife"), C0("dow"), C0("while"), CO("label","L"), CO("brk",""), CO("cont",""), C0("ret0"), C0("ret"),
           C0("throw"), C0("dbg"), CON("var","let",1), CON("var","var",1), C0("dc"), C0("dci"), C0("bid"), CO("for","---"), CN("call", 0), CO("post","++"), C0("yield0"),
           CON("cdecl","",1), CN("field", 0), CN("field", 1), C0("empty")}
\* break / continue [no LineTerminator here] LabelIdentifier (14.8, 14.9): followed by a line break and an identifier they are two statements
BrkNl == {C0("id"), C0("expr"), CN("sw", 1), CN("case", 2), CO("brk",""), CO("cont",""), C0("while"), CO("for","---"), CN("blk", 2), CO("label","L"), CO("brk","L"), CO("cont","L"), CN("call", 0)}
(* Positions that take an AssignmentExpression, not an Expression (ChildReq = LAsg): "badcomma" is a comma expression put there *)
(* WITHOUT parentheses.  It is generated only where the text has no other derivation (BadPlaced below); expectation: rejected.  *)
(* The same positions with the parenthesised comma expression (Norm inserts the parentheses) and the contexts in which a comma   *)
(* starts the next list element (arguments, elements, declarators, parameters) are the accepted programs of this set.            *)
CommaPos == {C0("id"), C0("expr"), C0("comma"), C0("badcomma"), C0("grp"), C0("cond"), CO("arrow",""), C0("psid"), C0("yield"), CO("asg","="), C0("spread"),
             CN("call", 2), CN("obj", 1), C0("pcomp"), CO("pkv","pr"), CN("tpl", 1), C0("idx"), CN("sw", 1), CN("case", 0),
             C0("bid"), C0("dc"), C0("dci"), CON("var","var",1),
             CON("cdecl","x",0), CON("cdecl","",1), CN("field", 1), CN("cfield", 0), CO("cmeth",""), CN("ps", 0), CN("blk", 0)}
\* the heads of loops (the body is the empty statement)
CommaFor == {C0("id"), C0("comma"), C0("badcomma"), C0("grp"), C0("cond"), CO("arrow",""), C0("psid"), C0("yield"), CO("asg","="), CN("call", 1), C0("dot"),
             CO("forof","e"), CO("forof","var"), CO("forof","const"), CO("forin","e"), CO("forin","let"), CO("forawait","let"), CO("forawait","e"), CO("for","eee"), C0("while"), C0("empty"), C0("bid")}

AllCons == ExprFull \cup ExprReduced \cup ExprReduced2 \cup ExprTiny \cup LeafCons \cup NegCons \cup StmtCons \cup StmtRed \cup AsiCons \cup BindCons \cup BindDeep \cup ForIn \cup ForInPat \cup ArrowPat \cup AsgPat \cup ForLhs \cup ClassBody \cup ClassAsi \cup ClassCons
           \cup KwCons \cup KwLt \cup KwClass \cup CommaPos \cup CommaFor \cup NlSemi \cup BrkNl
\* configurations for -simulate: everything at once (without the constructions that only exist to be rejected, and without the keyword-named identifiers)
SimCons == AllCons \ {c \in AllCons : c.k \in {"badasg", "dup", "badcomma", "thrownl", "kid", "kfield", "kmeth", "sfieldl", "varl"}}

(* ------------------------------- categories and signatures ------------------------------- *)
EKinds == {"id","kid","badcomma","lit","nt","im","yield0","grp","un","pre","post","new0","newa","call","ocall","dot","odot","pdot","opdot","idx","oidx",
           "tag","tpl","bin","asg","badasg","comma","cond","yield","yields","arr","obj","fn","fnn","arrow","arrowb","cls","clsn"}
SKinds == {"expr","var","empty","blk","if","ife","while","dow","for","forin","forof","forawait","sw","label","brk","cont","ret0","ret",
           "throw","dbg","try","fdecl","cdecl","dup","varl","thrownl"}
Cat(t) == IF t.k \in EKinds THEN "E" ELSE IF t.k \in SKinds THEN "S"
          ELSE CASE t.k = "spread" -> "A"
                 [] t.k \in {"pkv","pcomp","psh","pspread","pmeth"} -> "PR"
                 [] t.k \in {"ps","psid"} -> "PS"
                 [] t.k \in {"bid","bdef","barr","bobj"} -> "B"
                 [] t.k \in {"bpsh","bpshd","bpkv","bpcomp"} -> "BP"
                 [] t.k \in {"dc","dci"} -> "DC"
                 [] t.k \in {"case","def"} -> "CL"
                 [] t.k \in {"meth","smeth","pmeth2","cmeth","ctor","field","sfield","pfield","cfield","sblock","kfield","kmeth","sfieldl"} -> "CE"
Match(code, t) == CASE code = "A" -> Cat(t) \in {"E", "A"}
                    [] code = "K" -> t.k = "blk"
                    [] code = "V" -> t.k = "var" /\ t.z = "semi"
                    [] code = "X" -> Cat(t) \in {"E", "B"}
                    [] OTHER -> Cat(t) = code
Rep(code, n) == [i \in 1..n |-> code]
ForArgs(op) == CASE op = "---" -> <<>> [] op = "e--" -> <<"E">> [] op = "-e-" -> <<"E">> [] op = "--e" -> <<"E">>
                 [] op = "eee" -> <<"E","E","E">> [] op = "v--" -> <<"V">> [] op = "vee" -> <<"V","E","E">>
ForInit(op) == IF op \in {"e--","eee"} THEN "e" ELSE IF op \in {"v--","vee"} THEN "v" ELSE "-"
ForCond(op) == op \in {"-e-","eee","vee"}
ForPost(op) == op \in {"--e","eee","vee"}
TryArgs(op) == CASE op = "c" -> <<"K","K">> [] op = "cp" -> <<"K","B","K">> [] op = "f" -> <<"K","K">>
                 [] op = "cf" -> <<"K","K","K">> [] op = "cpf" -> <<"K","B","K","K">>
\* argument categories of a constructor
SigArgs(con) ==
    LET k == con.k n == con.n IN
    CASE k \in {"id","kid","lit","nt","im","yield0","psid","psh","bid","bpsh","empty","brk","cont","ret0","dbg","dup"} -> <<>>
      [] k \in {"grp","un","pre","post","new0","dot","odot","pdot","opdot","yield","yields","spread","pspread","pkv","bpshd","expr","ret","throw","thrownl"} -> <<"E">>
      [] k \in {"idx","oidx","bin","asg","badasg","comma","badcomma","pcomp"} -> <<"E","E">>
      [] k = "cond" -> <<"E","E","E">>
      [] k \in {"newa","call","ocall"} -> <<"E">> \o Rep("A", n)
      [] k = "tag" -> <<"E">> \o Rep("E", n)
      [] k = "tpl" -> Rep("E", n)
      [] k = "arr" -> Rep("A", n)
      [] k = "obj" -> Rep("PR", n)
      [] k \in {"fn","fnn","arrowb","pmeth","fdecl","meth","smeth","pmeth2","ctor","kmeth"} -> <<"PS","K">>
      [] k = "cmeth" -> <<"E","PS","K">>
      [] k = "arrow" -> <<"PS","E">>
      [] k \in {"cls","clsn","cdecl"} -> (IF con.op = "x" THEN <<"E">> ELSE <<>>) \o Rep("CE", n)
      [] k = "ps" -> Rep("B", n)
      [] k = "bdef" -> <<"B","E">>
      [] k = "barr" -> Rep("B", n)
      [] k = "bobj" -> Rep("BP", n)
      [] k = "bpkv" -> <<"B">>
      [] k = "bpcomp" -> <<"E","B">>
      [] k = "dc" -> <<"B">>
      [] k = "dci" -> <<"B","E">>
      [] k \in {"var","varl"} -> Rep("DC", n)
      [] k = "blk" -> Rep("S", n)
      [] k \in {"if","while"} -> <<"E","S">>
      [] k = "ife" -> <<"E","S","S">>
      [] k = "dow" -> <<"S","E">>
      [] k = "for" -> ForArgs(con.op) \o <<"S">>
      [] k \in {"forin","forof","forawait"} -> <<(IF con.op = "e" THEN "E" ELSE "B"), "E", "S">>
      [] k = "sw" -> <<"E">> \o Rep("CL", n)
      [] k = "case" -> <<"E">> \o Rep("S", n)
      [] k = "def" -> Rep("S", n)
      [] k = "label" -> <<"S">>
      [] k = "try" -> TryArgs(con.op)
      [] k \in {"field","sfield","pfield","kfield","sfieldl"} -> Rep("E", n)
      [] k = "cfield" -> <<"E">> \o Rep("E", n)
      [] k = "sblock" -> <<"K">>
\* constructors that take a fresh name / a terminator spelling
Fresh(k) == k \in {"id","psid","psh","bid","bpsh","bpshd","fnn","clsn","fdecl","cdecl"}
FreshCon(con) == Fresh(con.k) \/ (con.k = "bobj" /\ con.op = "r")
HasTerm(k) == k \in {"expr","var","dow","brk","cont","ret0","ret","throw","dbg","field","sfield","pfield","cfield","varl","thrownl","kfield","sfieldl"}
\* constructors that can be spelled with a line break after their first token (z = "lt"), offered when "lt" is among Terms:
\* no [no LineTerminator here] there ...
LtFree(con) == \/ con.k \in {"kid","un","pre","new0","smeth"}
               \/ con.k \in {"meth","pmeth2","pmeth"} /\ con.op \in {"get","set"}
\* ... or the line break is where the production has [no LineTerminator here] (after async; "lta": before =>)
LtAsync(con) == con.k \in {"fn","fnn","arrow","arrowb","pmeth"} /\ con.op \in {"async","async*"}
LtChoices(con) == IF "lt" \notin Terms THEN {""}
                  ELSE {""} \cup (IF LtFree(con) \/ LtAsync(con) THEN {"lt"} ELSE {}) \cup (IF con.k \in {"arrow","arrowb"} THEN {"lta"} ELSE {})
\* cost class
Cost(con) == IF con.k = "yield0" THEN "e"
             ELSE IF con.k \in {"lit","nt","im","kid"} \/ (con.k \in {"arr","obj"} /\ con.n = 0) THEN "v"
             ELSE IF con.k \in {"fn","fnn","cls","clsn","obj","arr","arrowb"} THEN "p"
             ELSE IF SigArgs(con) = <<>> /\ con.k \notin {"brk","cont","ret0","dbg","dup"} THEN "l"
             ELSE IF con.k \in SKinds THEN "s" ELSE IF con.k \in EKinds THEN "e" ELSE "x"

(* ------------------------------- the ladder ------------------------------- *)
LComma == 0  LAsg == 1  LCond == 2  LCoal == 3  LOr == 4  LAnd == 5  LBor == 6  LXor == 7  LBand == 8  LEq == 9  LRel == 10
LShift == 11  LAdd == 12  LMul == 13  LExp == 14  LUn == 15  LUpd == 16  LNew == 17  LCall == 18  LMem == 19  LPrim == 20
SHead == 100     \* CoalesceExpressionHead: CoalesceExpression | BitwiseORExpression
STag == 101      \* MemberExpression | CallExpression followed by a TemplateLiteral (not an OptionalChain)
SNew == 102      \* NewExpression: MemberExpression | new NewExpression (neither a CallExpression nor an OptionalExpression)
BinLevel(op) == CASE op = "??" -> LCoal [] op = "||" -> LOr [] op = "&&" -> LAnd [] op = "|" -> LBor [] op = "^" -> LXor [] op = "&" -> LBand
                  [] op \in {"==","!=","===","!=="} -> LEq [] op \in {"<",">","<=",">=","instanceof","in"} -> LRel
                  [] op \in {"<<",">>",">>>"} -> LShift [] op \in {"+","-"} -> LAdd [] op \in {"*","/","%"} -> LMul [] op = "**" -> LExp

RECURSIVE IsOptChain(_)
IsOptChain(t) == t.k \in {"odot","oidx","ocall","opdot"} \/ (t.k \in {"dot","idx","call","pdot","tag"} /\ IsOptChain(t.c[1]))

RECURSIVE Level(_)
Level(t) ==
    LET k == t.k IN
    CASE k \in {"id","kid","lit","grp","arr","obj","fn","fnn","cls","clsn","tpl"} -> LPrim
      [] k = "badcomma" -> LPrim       \* the ill-formed operand is spelled bare wherever BadPlaced lets it stand
      [] k \in {"nt","im","newa"} -> LMem
      [] k \in {"dot","idx","pdot"} -> (IF Level(t.c[1]) = LCall THEN LCall ELSE LMem)
      [] k = "tag" -> (IF Level(t.c[1]) = LCall /\ ~IsOptChain(t.c[1]) THEN LCall ELSE LMem)
      [] k \in {"odot","oidx","ocall","opdot","call"} -> LCall
      [] k = "new0" -> LNew
      [] k \in {"pre","post"} -> LUpd
      [] k = "un" -> LUn
      [] k = "bin" -> BinLevel(t.op)
      [] k = "cond" -> LCond
      [] k \in {"asg","badasg","arrow","arrowb","yield","yields","yield0"} -> LAsg
      [] k = "comma" -> LComma
Fits(t, req, noIn) ==
    \/ req < 0
    \/ t.k \notin EKinds
    \/ /\ ~(noIn /\ t.k = "bin" /\ t.op = "in")
       /\ CASE req = SHead -> (t.k = "bin" /\ t.op = "??") \/ Level(t) >= LBor
            [] req = STag -> Level(t) >= LCall /\ ~IsOptChain(t)
            [] req = SNew -> t.k = "new0" \/ Level(t) >= LMem
            [] OTHER -> Level(t) >= req
\* the level the grammar demands of child i (-1: the child is not an expression)
ChildReq(t, i) ==
    LET k == t.k IN
    CASE k = "grp" -> LComma
      [] k \in {"un","pre"} -> LUn
      [] k = "post" -> LNew
      [] k = "new0" -> SNew
      [] k = "newa" -> (IF i = 1 THEN LMem ELSE LAsg)
      [] k \in {"call","ocall"} -> (IF i = 1 THEN LCall ELSE LAsg)
      [] k \in {"dot","odot","pdot","opdot"} -> LCall
      [] k \in {"idx","oidx"} -> (IF i = 1 THEN LCall ELSE LComma)
      [] k = "tag" -> (IF i = 1 THEN STag ELSE LComma)
      [] k = "tpl" -> LComma
      [] k \in {"spread","pspread","yield","yields","pkv","pcomp","arr","bpshd"} -> LAsg
      [] k = "bin" -> (IF t.op = "**" THEN (IF i = 1 THEN LUpd ELSE LExp)
                       ELSE IF t.op = "??" THEN (IF i = 1 THEN SHead ELSE LBor)
                       ELSE IF i = 1 THEN BinLevel(t.op) ELSE BinLevel(t.op) + 1)
      [] k = "asg" -> (IF i = 1 THEN LNew ELSE LAsg)
      [] k = "badasg" -> (IF i = 1 THEN LCoal ELSE LAsg)    \* the ill-formed left operand is spelled bare
      [] k = "comma" -> (IF i = 1 THEN LComma ELSE LAsg)
      [] k = "badcomma" -> LAsg
      [] k = "cond" -> (IF i = 1 THEN LCoal ELSE LAsg)
      [] k = "arrow" -> (IF i = 2 THEN LAsg ELSE -1)
      [] k \in {"bdef","dci"} -> (IF i = 2 THEN LAsg ELSE -1)
      [] k = "bpcomp" -> (IF i = 1 THEN LAsg ELSE -1)
      [] k = "cmeth" -> (IF i = 1 THEN LAsg ELSE -1)
      [] k \in {"field","sfield","pfield","cfield","kfield","sfieldl"} -> LAsg
      [] k \in {"cls","clsn","cdecl"} -> (IF t.op = "x" /\ i = 1 THEN LNew ELSE -1)
      [] k \in {"expr","ret","throw","thrownl"} -> LComma
      [] k \in {"if","ife","while","sw","case"} -> (IF i = 1 THEN LComma ELSE -1)
      [] k = "dow" -> (IF i = 2 THEN LComma ELSE -1)
      [] k = "for" -> (IF i < Len(t.c) /\ Cat(t.c[i]) = "E" THEN LComma ELSE -1)
      [] k = "forin" -> (IF i = 1 /\ t.op = "e" THEN LNew ELSE IF i = 2 THEN LComma ELSE -1)
      [] k \in {"forof","forawait"} -> (IF i = 1 /\ t.op = "e" THEN LNew ELSE IF i = 2 THEN LAsg ELSE -1)
      [] OTHER -> -1
\* [In]: does child i inherit the exclusion of the `in` operator (for-initialisers)?
ChildNoIn(t, i, noIn) ==
    LET k == t.k IN
    CASE k \in {"bin","asg","badasg","comma","badcomma","un","pre","post","yield","yields","new0","var","varl","dc"} -> noIn
      [] k = "cond" -> (IF i = 2 THEN FALSE ELSE noIn)
      [] k \in {"dot","odot","pdot","opdot","idx","oidx","call","ocall","newa","tag"} -> (IF i = 1 THEN noIn ELSE FALSE)
      [] k \in {"arrow","dci"} -> (IF i = 2 THEN noIn ELSE FALSE)
      [] k = "for" -> (i = 1 /\ ForInit(t.op) # "-")
      [] OTHER -> FALSE
\* why a pair of parentheses is there (the listed forbidden sequences are what is left when they are removed)
Why(p, i, ch) ==
    IF p.k = "bin" /\ p.op = "**" /\ i = 1 /\ ch.k = "un" /\ ch.op = "-" THEN "exp"
    ELSE IF p.k = "bin" /\ ch.k = "bin" /\ ((p.op = "??" /\ ch.op \in {"||","&&"}) \/ (p.op \in {"||","&&"} /\ ch.op = "??")) THEN "mix"
    ELSE "auto"
N(k, op, nm, c, z) == [k |-> k, op |-> op, nm |-> nm, c |-> c, z |-> z]
Grp(why, t) == N("grp", why, "", <<t>>, "")

RECURSIVE Spell(_)
RECURSIVE Norm(_, _, _, _)
RECURSIVE Flat(_)
Flat(ss) == IF ss = <<>> THEN <<>> ELSE Head(ss) \o Flat(Tail(ss))
RECURSIVE Sep(_, _)
Sep(ss, s) == IF ss = <<>> THEN <<>> ELSE IF Len(ss) = 1 THEN ss[1] ELSE ss[1] \o s \o Sep(Tail(ss), s)

\* ExpressionStatement / ConciseBody / export default lookahead restrictions
\* (14.5: lookahead \notin { {, function, async [no LineTerminator here] function, class, let [ }; a line break between `let` and `[` changes nothing;
\*  one between `async` and `function` lifts the restriction, parenthesising that spelling as well is merely redundant)
BadStart(toks0) == LET toks == SelectSeq(toks0, LAMBDA x : x # "<lt>") IN
                   \/ toks[1] \in {"{", "function", "class"}
                   \/ (Len(toks) > 1 /\ toks[1] = "async" /\ toks[2] = "function")
                   \/ (Len(toks) > 1 /\ toks[1] = "let" /\ toks[2] = "[")
Norm(t, req, noIn, why) ==
    IF ~Fits(t, req, noIn) THEN Grp(why, Norm(t, LComma, FALSE, "auto"))
    ELSE LET t2 == [t EXCEPT !.c = [i \in DOMAIN t.c |-> Norm(t.c[i], ChildReq(t, i), ChildNoIn(t, i, noIn), Why(t, i, t.c[i]))]] IN
         IF t.k = "expr" /\ BadStart(Spell(t2.c[1])) THEN [t2 EXCEPT !.c = <<Grp("auto", t2.c[1])>>]
         ELSE IF t.k = "arrow" /\ Spell(t2.c[2])[1] = "{" THEN [t2 EXCEPT !.c = <<t2.c[1], Grp("auto", t2.c[2])>>]
         ELSE t2

(* ------------------------------- spelling ------------------------------- *)
\* "nlsemi": the semicolon on the next line (it still ends THIS statement: nothing offends, nothing is inserted - 12.10.1)
Term(t) == CASE t.z = "semi" -> <<";">> [] t.z = "nl" -> <<"<nl>">> [] t.z = "omit" -> <<(IF t.k = "dow" THEN "<dw>" ELSE "<omit>")>>
             [] t.z = "nlsemi" -> <<"<lts>", ";">>
KindToks(op) == CASE op = "" -> <<>> [] op = "async*" -> <<"async","*">> [] OTHER -> <<op>>
\* a line break after the first of some tokens (z = "lt")
LtAfter1(toks, z) == IF z = "lt" /\ toks # <<>> THEN <<toks[1], "<lt>">> \o Tail(toks) ELSE toks
FnToks(op) == CASE op = "" -> <<"function">> [] op = "async" -> <<"async","function">> [] op = "*" -> <<"function","*">>
                [] op = "async*" -> <<"async","function","*">>
Spell(t) ==
    LET k == t.k
        S(i) == Spell(t.c[i])
        All == [i \in DOMAIN t.c |-> Spell(t.c[i])]
        From(j) == SubSeq(All, j, Len(All))
        Nm == IF t.nm = "" THEN <<>> ELSE <<t.nm>>
    IN
    CASE k \in {"id","psid","psh","bid","bpsh"} -> <<t.nm>>
      [] k = "kid" -> LtAfter1(<<t.op>>, t.z)
      [] k = "lit" -> <<t.op>>
      [] k = "nt" -> <<"new",".","target">>
      [] k = "im" -> <<"import",".","meta">>
      [] k = "yield0" -> <<"yield">>
      [] k = "grp" -> (IF t.op \in {"exp","mix"} THEN <<"(:" \o t.op>> \o S(1) \o <<"):" \o t.op>> ELSE <<"(">> \o S(1) \o <<")">>)
      [] k \in {"un","pre"} -> LtAfter1(<<t.op>>, t.z) \o S(1)
      [] k = "post" -> S(1) \o <<t.op>>
      [] k = "new0" -> LtAfter1(<<"new">>, t.z) \o S(1)
      [] k = "newa" -> <<"new">> \o S(1) \o <<"(">> \o Sep(From(2), <<",">>) \o <<")">>
      [] k = "call" -> S(1) \o <<"(">> \o Sep(From(2), <<",">>) \o <<")">>
      [] k = "ocall" -> S(1) \o <<"?.", "(">> \o Sep(From(2), <<",">>) \o <<")">>
      [] k = "dot" -> S(1) \o <<".", "pr">>
      [] k = "odot" -> S(1) \o <<"?.", "pr">>
      [] k = "pdot" -> S(1) \o <<".", "#q">>
      [] k = "opdot" -> S(1) \o <<"?.", "#q">>
      [] k = "idx" -> S(1) \o <<"[">> \o S(2) \o <<"]">>
      [] k = "oidx" -> S(1) \o <<"?.", "[">> \o S(2) \o <<"]">>
      [] k = "tag" -> (IF Len(t.c) = 1 THEN S(1) \o <<"`t`">> ELSE S(1) \o <<"`h${">> \o S(2) \o <<"}t`">>)
      [] k = "tpl" -> (IF Len(t.c) = 1 THEN <<"`h${">> \o S(1) \o <<"}t`">> ELSE <<"`h${">> \o S(1) \o <<"}m${">> \o S(2) \o <<"}t`">>)
      [] k \in {"bin","asg","badasg"} -> S(1) \o <<t.op>> \o S(2)
      [] k \in {"comma","badcomma"} -> S(1) \o <<",">> \o S(2)
      [] k = "cond" -> S(1) \o <<"?">> \o S(2) \o <<":">> \o S(3)
      [] k = "yield" -> <<"yield">> \o S(1)
      [] k = "yields" -> <<"yield","*">> \o S(1)
      [] k \in {"spread","pspread"} -> <<"...">> \o S(1)
      [] k = "arr" -> (CASE t.op = "" -> <<"[">> \o Sep(All, <<",">>) \o <<"]">>
                         [] t.op = "h0" -> <<"[", ",", "]">>
                         [] t.op = "h1" -> <<"[", ",">> \o S(1) \o <<"]">>
                         [] t.op = "1h" -> <<"[">> \o S(1) \o <<",", ",", "]">>)
      [] k = "obj" -> <<"{">> \o Sep(All, <<",">>) \o <<"}">>
      [] k = "pkv" -> <<t.op, ":">> \o S(1)
      [] k = "pcomp" -> <<"[">> \o S(1) \o <<"]", ":">> \o S(2)
      [] k = "pmeth" -> LtAfter1(KindToks(t.op), t.z) \o <<"me">> \o S(1) \o S(2)
      [] k \in {"fn","fnn","fdecl"} -> LtAfter1(FnToks(t.op), t.z) \o Nm \o S(1) \o S(2)
      [] k \in {"arrow","arrowb"} -> LtAfter1(KindToks(t.op), t.z) \o S(1) \o (IF t.z = "lta" THEN <<"<lt>">> ELSE <<>>) \o <<"=>">> \o S(2)
      [] k \in {"cls","clsn","cdecl"} -> <<"class">> \o Nm \o (IF t.op = "x" THEN <<"extends">> \o S(1) \o <<"{">> \o Flat(From(2)) ELSE <<"{">> \o Flat(All)) \o <<"}">>
      [] k = "ps" -> <<"(">> \o (IF t.op = "r" THEN Sep(SubSeq(All, 1, Len(All) - 1) \o <<(<<"...">> \o All[Len(All)])>>, <<",">>) ELSE Sep(All, <<",">>)) \o <<")">>
      [] k = "bdef" -> S(1) \o <<"=">> \o S(2)
      [] k = "barr" -> (CASE t.op = "" -> <<"[">> \o Sep(All, <<",">>) \o <<"]">>
                          [] t.op = "h1" -> <<"[", ",">> \o S(1) \o <<"]">>
                          [] t.op = "r" -> <<"[">> \o Sep(SubSeq(All, 1, Len(All) - 1) \o <<(<<"...">> \o All[Len(All)])>>, <<",">>) \o <<"]">>)
      [] k = "bobj" -> <<"{">> \o Sep(All \o (IF t.op = "r" THEN << <<"...", t.nm>> >> ELSE <<>>), <<",">>) \o <<"}">>
      [] k = "bpshd" -> <<t.nm, "=">> \o S(1)
      [] k = "bpkv" -> <<t.op, ":">> \o S(1)
      [] k = "bpcomp" -> <<"[">> \o S(1) \o <<"]", ":">> \o S(2)
      [] k = "dc" -> S(1)
      [] k = "dci" -> S(1) \o <<"=">> \o S(2)
      [] k = "var" -> <<t.op>> \o Sep(All, <<",">>) \o Term(t)
      [] k = "varl" -> <<t.op, "<lt>">> \o Sep(All, <<",">>) \o Term(t)
      [] k = "expr" -> S(1) \o Term(t)
      [] k = "empty" -> <<";">>
      [] k = "blk" -> <<"{">> \o Flat(All) \o <<"}">>
      [] k = "if" -> <<"if","(">> \o S(1) \o <<")">> \o S(2)
      [] k = "ife" -> <<"if","(">> \o S(1) \o <<")">> \o S(2) \o <<"else">> \o S(3)
      [] k = "while" -> <<"while","(">> \o S(1) \o <<")">> \o S(2)
      [] k = "dow" -> <<"do">> \o S(1) \o <<"while","(">> \o S(2) \o <<")">> \o Term(t)
      [] k = "for" -> LET init == ForInit(t.op)
                          a == IF init = "-" THEN 0 ELSE 1
                          b == IF ForCond(t.op) THEN a + 1 ELSE a
                          vtoks == IF init = "v" THEN SubSeq(S(1), 1, Len(S(1)) - 1) ELSE IF init = "e" THEN S(1) ELSE <<>>
                      IN <<"for","(">> \o vtoks \o <<";">> \o (IF ForCond(t.op) THEN S(b) ELSE <<>>) \o <<";">>
                         \o (IF ForPost(t.op) THEN S(b + 1) ELSE <<>>) \o <<")">> \o S(Len(t.c))
      [] k \in {"forin","forof","forawait"} ->
             <<"for">> \o (IF k = "forawait" THEN <<"await">> ELSE <<>>) \o <<"(">> \o (IF t.op = "e" THEN <<>> ELSE <<t.op>>) \o S(1)
             \o <<(IF k = "forin" THEN "in" ELSE "of")>> \o S(2) \o <<")">> \o S(3)
      [] k = "sw" -> <<"switch","(">> \o S(1) \o <<")","{">> \o Flat(From(2)) \o <<"}">>
      [] k = "case" -> <<"case">> \o S(1) \o <<":">> \o Flat(From(2))
      [] k = "def" -> <<"default",":">> \o Flat(All)
      [] k = "label" -> <<t.op, ":">> \o S(1)
      [] k = "brk" -> <<"break">> \o (IF t.op = "" THEN <<>> ELSE <<t.op>>) \o Term(t)
      [] k = "cont" -> <<"continue">> \o (IF t.op = "" THEN <<>> ELSE <<t.op>>) \o Term(t)
      [] k = "ret0" -> <<"return">> \o Term(t)
      [] k = "ret" -> <<"return">> \o S(1) \o Term(t)
      [] k = "throw" -> <<"throw">> \o S(1) \o Term(t)
      [] k = "thrownl" -> <<"throw", "<lt>">> \o S(1) \o Term(t)
      [] k = "dbg" -> <<"debugger">> \o Term(t)
      [] k = "try" -> (CASE t.op = "c" -> <<"try">> \o S(1) \o <<"catch">> \o S(2)
                         [] t.op = "cp" -> <<"try">> \o S(1) \o <<"catch","(">> \o S(2) \o <<")">> \o S(3)
                         [] t.op = "f" -> <<"try">> \o S(1) \o <<"finally">> \o S(2)
                         [] t.op = "cf" -> <<"try">> \o S(1) \o <<"catch">> \o S(2) \o <<"finally">> \o S(3)
                         [] t.op = "cpf" -> <<"try">> \o S(1) \o <<"catch","(">> \o S(2) \o <<")">> \o S(3) \o <<"finally">> \o S(4))
      [] k = "dup" -> (CASE t.op = "let-let" -> <<"let","dd",";","let","dd",";">>
                         [] t.op = "let-const" -> <<"let","dd",";","const","dd","=","0",";">>
                         [] t.op = "const-let" -> <<"const","dd","=","0",";","let","dd",";">>
                         [] t.op = "const-class" -> <<"const","dd","=","0",";","class","dd","{","}">>
                         [] t.op = "class-let" -> <<"class","dd","{","}","let","dd",";">>
                         [] t.op = "let-class" -> <<"let","dd",";","class","dd","{","}">>
                         [] t.op = "class-class" -> <<"class","dd","{","}","class","dd","{","}">>)
      [] k \in {"meth","pmeth2"} -> LtAfter1(KindToks(t.op), t.z) \o <<(IF k = "pmeth2" THEN "#q" ELSE "me")>> \o S(1) \o S(2)
      [] k = "smeth" -> LtAfter1(<<"static">>, t.z) \o KindToks(t.op) \o <<"me">> \o S(1) \o S(2)
      [] k = "kmeth" -> <<t.op>> \o S(1) \o S(2)
      [] k = "kfield" -> <<t.op>> \o (IF Len(t.c) = 1 THEN <<"=">> \o S(1) ELSE <<>>) \o Term(t)
      [] k = "sfieldl" -> <<"static", "<lt>", "fi">> \o (IF Len(t.c) = 1 THEN <<"=">> \o S(1) ELSE <<>>) \o Term(t)
      [] k = "cmeth" -> KindToks(t.op) \o <<"[">> \o S(1) \o <<"]">> \o S(2) \o S(3)
      [] k = "ctor" -> <<"constructor">> \o S(1) \o S(2)
      [] k \in {"field","sfield","pfield"} -> (IF k = "sfield" THEN <<"static">> ELSE <<>>) \o <<(IF k = "pfield" THEN "#q" ELSE "fi")>>
                                              \o (IF Len(t.c) = 1 THEN <<"=">> \o S(1) ELSE <<>>) \o Term(t)
      [] k = "cfield" -> <<"[">> \o S(1) \o <<"]">> \o (IF Len(t.c) = 2 THEN <<"=">> \o S(2) ELSE <<>>) \o Term(t)
      [] k = "sblock" -> <<"static">> \o S(1)

(* ------------------------------- the String() rendering ------------------------------- *)
Wrapped(t) == t.k \in {"grp","idx","oidx","dot","odot","pdot","opdot","nt","im","new0","newa","call","ocall","un","pre","post","bin","asg",
                       "cond","yield0","yield","yields","arrow","arrowb","comma"}
IdentOp(op) == op \in {"delete","void","typeof","await","in","instanceof"}
KeyCanon(op) == IF op = "'sk'" THEN "sk" ELSE op
MethPre(op) == CASE op = "" -> <<>> [] op = "async*" -> <<"async * ">> [] op = "*" -> <<"* ">> [] OTHER -> <<op \o " ">>
FnHead(op) == CASE op = "" -> "function" [] op = "async" -> "async function" [] op = "*" -> "function*" [] op = "async*" -> "async function*"
RECURSIVE CommaList(_)
CommaList(t) == IF t.k = "comma" THEN CommaList(t.c[1]) \o <<t.c[2]>> ELSE <<t>>
RECURSIVE Inner(_, _)
RECURSIVE Canon(_, _)
Un(t, w) == IF Wrapped(t) THEN Inner(t, w) ELSE Canon(t, w)
\* the statement list of a loop body as the tree keeps it: always a block
Body(t, w) == IF t.k = "blk" THEN Canon(t, w) ELSE IF t.k = "empty" THEN <<"Stmt({ })">> ELSE <<"Stmt({ ">> \o Canon(t, w) \o <<" })">>
Inner(t, w) ==
    LET k == t.k
        C(i) == Canon(t.c[i], w)
        All == [i \in DOMAIN t.c |-> Canon(t.c[i], w)]
        From(j) == SubSeq(All, j, Len(All))
    IN
    CASE k = "grp" -> C(1)
      [] k = "idx" -> C(1) \o <<"[">> \o C(2) \o <<"]">>
      [] k = "oidx" -> C(1) \o <<"?.[">> \o C(2) \o <<"]">>
      [] k = "dot" -> C(1) \o <<".pr">>
      [] k = "odot" -> C(1) \o <<"?.pr">>
      [] k = "pdot" -> C(1) \o <<".#q">>
      [] k = "opdot" -> C(1) \o <<"?.#q">>
      [] k = "nt" -> <<"new.target">>
      [] k = "im" -> <<"import.meta">>
      [] k = "new0" -> <<"new ">> \o C(1)
      [] k = "newa" -> <<"new ">> \o C(1) \o (IF Len(t.c) = 1 THEN <<>> ELSE <<"(">> \o Sep(From(2), <<", ">>) \o <<")">>)
      [] k = "call" -> C(1) \o <<"(">> \o Sep(From(2), <<", ">>) \o <<")">>
      [] k = "ocall" -> C(1) \o <<"?.(">> \o Sep(From(2), <<", ">>) \o <<")">>
      [] k \in {"un","pre"} -> <<t.op>> \o (IF IdentOp(t.op) THEN <<" ">> ELSE <<>>) \o C(1)
      [] k = "post" -> C(1) \o <<t.op>>
      [] k \in {"bin","asg"} -> (IF IdentOp(t.op) THEN C(1) \o <<" ", t.op, " ">> \o C(2) ELSE C(1) \o <<t.op>> \o C(2))
      [] k = "cond" -> C(1) \o <<" ? ">> \o C(2) \o <<" : ">> \o C(3)
      [] k = "yield0" -> <<"yield">>
      [] k = "yield" -> <<"yield ">> \o C(1)
      [] k = "yields" -> <<"yield* ">> \o C(1)
      [] k = "arrow" -> (IF t.op = "async" THEN <<"async ">> ELSE <<>>) \o C(1) \o <<" => Stmt({ Stmt(return ">> \o C(2) \o <<") })">>
      [] k = "arrowb" -> (IF t.op = "async" THEN <<"async ">> ELSE <<>>) \o C(1) \o <<" => ">> \o C(2)
      [] k = "comma" -> Sep([i \in 1..Len(CommaList(t)) |-> Canon(CommaList(t)[i], w)], <<",">>)
Canon(t, w) ==
    LET k == t.k
        C(i) == Canon(t.c[i], w)
        All == [i \in DOMAIN t.c |-> Canon(t.c[i], w)]
        From(j) == SubSeq(All, j, Len(All))
        SpAll(ss) == Flat([i \in DOMAIN ss |-> <<" ">> \o ss[i]])
        Nm == IF t.nm = "" THEN <<>> ELSE <<" ", t.nm>>
    IN
    IF Wrapped(t) THEN <<"(">> \o Inner(t, w) \o <<")">> ELSE
    CASE k \in {"id","psh"} -> <<t.nm>>
      [] k = "kid" -> <<t.op>>
      [] k = "lit" -> <<t.op>>
      [] k = "tag" -> (IF Len(t.c) = 1 THEN C(1) \o <<"`t`">> ELSE C(1) \o <<"`h${">> \o C(2) \o <<"}t`">>)
      [] k = "tpl" -> (IF Len(t.c) = 1 THEN <<"`h${">> \o C(1) \o <<"}t`">> ELSE <<"`h${">> \o C(1) \o <<"}m${">> \o C(2) \o <<"}t`">>)
      [] k = "spread" -> <<"...">> \o C(1)
      [] k = "arr" -> (CASE t.op = "" -> <<"[">> \o Sep(All, <<", ">>) \o <<"]">>
                         [] t.op = "h0" -> <<"[,]">>
                         [] t.op = "h1" -> <<"[, ">> \o C(1) \o <<"]">>
                         [] t.op = "1h" -> <<"[">> \o C(1) \o <<", ,]">>)
      [] k = "obj" -> <<"{">> \o Sep(All, <<", ">>) \o <<"}">>
      [] k = "pkv" -> <<KeyCanon(t.op), ": ">> \o C(1)
      [] k = "pcomp" -> <<"[">> \o Un(t.c[1], w) \o <<"]: ">> \o C(2)
      [] k = "pspread" -> <<"...">> \o C(1)
      [] k = "pmeth" -> <<"Method(">> \o MethPre(t.op) \o <<"me ">> \o C(1) \o <<" ">> \o C(2) \o <<")">>
      [] k \in {"fn","fnn","fdecl"} -> <<"Decl(", FnHead(t.op)>> \o Nm \o <<" ">> \o C(1) \o <<" ">> \o C(2) \o <<")">>
      [] k \in {"cls","clsn","cdecl"} -> <<"Decl(class">> \o Nm \o (IF t.op = "x" THEN <<" extends ">> \o C(1) \o SpAll(From(2)) ELSE SpAll(All)) \o <<")">>
      [] k = "psid" -> <<"Params(Binding(", t.nm, "))">>
      [] k = "ps" -> <<"Params(">> \o (IF t.op = "r"
                                        THEN Sep([i \in 1..Len(All) |-> IF i = Len(All) THEN <<"...Binding(">> \o All[i] \o <<")">> ELSE <<"Binding(">> \o All[i] \o <<")">>], <<", ">>)
                                        ELSE Sep([i \in 1..Len(All) |-> <<"Binding(">> \o All[i] \o <<")">>], <<", ">>)) \o <<")">>
      \* binding targets render WITHOUT the surrounding "Binding(" ")" - the parent adds it (with the default, if any)
      [] k = "bid" -> <<t.nm>>
      [] k = "bdef" -> C(1) \o <<" = ">> \o C(2)
      [] k = "barr" -> (CASE t.op = "" -> <<"[">> \o Sep([i \in 1..Len(All) |-> <<" Binding(">> \o All[i] \o <<")">>], <<",">>) \o <<" ]">>
                          [] t.op = "h1" -> <<"[ Binding(), Binding(">> \o C(1) \o <<") ]">>
                          [] t.op = "r" -> <<"[">> \o Sep([i \in 1..Len(All) |-> IF i = Len(All) THEN <<" ...Binding(">> \o All[i] \o <<")">> ELSE <<" Binding(">> \o All[i] \o <<")">>], <<",">>) \o <<" ]">>)
      [] k = "bobj" -> <<"{">> \o Sep(All \o (IF t.op = "r" THEN << <<" ...Binding(", t.nm, ")">> >> ELSE <<>>), <<",">>) \o <<" }">>
      [] k = "bpsh" -> <<" Binding(", t.nm, ")">>
      [] k = "bpshd" -> <<" Binding(", t.nm, " = ">> \o C(1) \o <<")">>
      [] k = "bpkv" -> <<" ", t.op, ": Binding(">> \o C(1) \o <<")">>
      [] k = "bpcomp" -> <<" [">> \o Un(t.c[1], w) \o <<"]: Binding(">> \o C(2) \o <<")">>
      [] k = "dc" -> <<"Binding(">> \o C(1) \o <<")">>
      [] k = "dci" -> <<"Binding(">> \o C(1) \o <<" = ">> \o C(2) \o <<")">>
      [] k \in {"var","varl"} -> <<"Decl(", t.op>> \o SpAll(All) \o <<")">>
      [] k = "expr" -> <<"Stmt(">> \o Un(t.c[1], w) \o <<")">>
      [] k = "empty" -> <<"Stmt()">>
      [] k = "blk" -> <<"Stmt({">> \o SpAll(All) \o <<" })">>
      [] k = "if" -> <<"Stmt(if ">> \o C(1) \o <<" ">> \o C(2) \o <<")">>
      [] k = "ife" -> <<"Stmt(if ">> \o C(1) \o <<" ">> \o C(2) \o <<" else ">> \o C(3) \o <<")">>
      [] k = "while" -> (IF w THEN <<"Stmt(for ; ">> \o C(1) \o <<" ; ">> \o (IF t.c[2].k = "blk" THEN C(2) ELSE <<"Stmt({ ">> \o C(2) \o <<" })">>) \o <<")">>
                         ELSE <<"Stmt(while ">> \o C(1) \o <<" ">> \o C(2) \o <<")">>)
      [] k = "dow" -> <<"Stmt(do ">> \o C(1) \o <<" while ">> \o C(2) \o <<")">>
      [] k = "for" -> LET init == ForInit(t.op)
                          a == IF init = "-" THEN 0 ELSE 1
                          b == IF ForCond(t.op) THEN a + 1 ELSE a
                      IN <<"Stmt(for">> \o (IF init = "-" THEN <<>> ELSE <<" ">> \o C(1)) \o <<" ;">> \o (IF ForCond(t.op) THEN <<" ">> \o C(b) ELSE <<>>) \o <<" ;">>
                         \o (IF ForPost(t.op) THEN <<" ">> \o C(b + 1) ELSE <<>>) \o <<" ">> \o Body(t.c[Len(t.c)], w) \o <<")">>
      [] k \in {"forin","forof","forawait"} ->
             <<"Stmt(for">> \o (IF k = "forawait" THEN <<" await">> ELSE <<>>) \o <<" ">>
             \o (IF t.op = "e" THEN C(1) ELSE <<"Decl(", t.op, " Binding(">> \o C(1) \o <<"))">>)
             \o <<(IF k = "forin" THEN " in " ELSE " of ")>> \o C(2) \o <<" ">> \o Body(t.c[3], w) \o <<")">>
      [] k = "sw" -> <<"Stmt(switch ">> \o C(1) \o Flat(From(2)) \o <<")">>
      [] k = "case" -> <<" Clause(case ">> \o C(1) \o SpAll(From(2)) \o <<")">>
      [] k = "def" -> <<" Clause(default">> \o SpAll(All) \o <<")">>
      [] k = "label" -> <<"Stmt(", t.op, " : ">> \o C(1) \o <<")">>
      [] k = "brk" -> <<"Stmt(break">> \o (IF t.op = "" THEN <<>> ELSE <<" ", t.op>>) \o <<")">>
      [] k = "cont" -> <<"Stmt(continue">> \o (IF t.op = "" THEN <<>> ELSE <<" ", t.op>>) \o <<")">>
      [] k = "ret0" -> <<"Stmt(return)">>
      [] k = "ret" -> <<"Stmt(return ">> \o C(1) \o <<")">>
      [] k = "throw" -> <<"Stmt(throw ">> \o C(1) \o <<")">>
      [] k = "dbg" -> <<"Stmt(debugger)">>
      [] k = "try" -> (CASE t.op = "c" -> <<"Stmt(try ">> \o C(1) \o <<" catch ">> \o C(2) \o <<")">>
                         [] t.op = "cp" -> <<"Stmt(try ">> \o C(1) \o <<" catch Binding(">> \o C(2) \o <<") ">> \o C(3) \o <<")">>
                         [] t.op = "f" -> <<"Stmt(try ">> \o C(1) \o <<" finally ">> \o C(2) \o <<")">>
                         [] t.op = "cf" -> <<"Stmt(try ">> \o C(1) \o <<" catch ">> \o C(2) \o <<" finally ">> \o C(3) \o <<")">>
                         [] t.op = "cpf" -> <<"Stmt(try ">> \o C(1) \o <<" catch Binding(">> \o C(2) \o <<") ">> \o C(3) \o <<" finally ">> \o C(4) \o <<")">>)
      [] k = "dup" -> <<"rejected">>
      [] k \in {"badasg","badcomma","thrownl"} -> <<"rejected">>
      [] k \in {"meth","smeth","pmeth2"} -> <<"Method(">> \o (IF k = "smeth" THEN <<"static ">> ELSE <<>>) \o MethPre(t.op) \o <<(IF k = "pmeth2" THEN "#q " ELSE "me ")>>
                                            \o C(1) \o <<" ">> \o C(2) \o <<")">>
      [] k = "cmeth" -> <<"Method(">> \o MethPre(t.op) \o <<"[">> \o Un(t.c[1], w) \o <<"] ">> \o C(2) \o <<" ">> \o C(3) \o <<")">>
      [] k = "ctor" -> <<"Method(constructor ">> \o C(1) \o <<" ">> \o C(2) \o <<")">>
      [] k = "kmeth" -> <<"Method(", t.op, " ">> \o C(1) \o <<" ">> \o C(2) \o <<")">>
      [] k \in {"field","sfield","pfield","kfield","sfieldl"} -> <<"Field(">> \o (IF k \in {"sfield","sfieldl"} THEN <<"static ">> ELSE <<>>) \o <<(IF k = "pfield" THEN "#q" ELSE IF k = "kfield" THEN t.op ELSE "fi")>>
                                              \o (IF Len(t.c) = 1 THEN <<" = ">> \o C(1) ELSE <<>>) \o <<")">>
      [] k = "cfield" -> <<"Field([">> \o Un(t.c[1], w) \o <<"]">> \o (IF Len(t.c) = 2 THEN <<" = ">> \o C(2) ELSE <<>>) \o <<")">>
      [] k = "sblock" -> <<"Static(">> \o C(1) \o <<")">>

(* ------------------------------- context requirements ([Yield], [Await], [Return], labels, ...) ------------------------------- *)
RECURSIVE Needs(_)
RECURSIVE Labels(_)
RECURSIVE Has(_, _)
Has(t, ks) == t.k \in ks \/ \E i \in DOMAIN t.c : Has(t.c[i], ks)
Labels(t) == (IF t.k = "label" THEN {t.op} ELSE {}) \cup UNION {Labels(t.c[i]) : i \in DOMAIN t.c}
Loops == {"while","dow","for","forin","forof","forawait"}
RECURSIVE IsLoopish(_)
IsLoopish(t) == t.k \in Loops \/ (t.k = "label" /\ IsLoopish(t.c[1]))
RECURSIVE IsIdLike(_)
IsIdLike(t) == t.k \in {"id","kid"} \/ (t.k = "grp" /\ IsIdLike(t.c[1]))
\* "noawait" / "nogen": an identifier named await / yield, which the [Await] / [Yield] parameter of the enclosing function must allow
FnAllowed(op) == {"ret","nt","priv","sloppy"} \cup (IF op \in {"*","async*"} THEN {"gen"} ELSE {"nogen"}) \cup (IF op \in {"async","async*"} THEN {"async"} ELSE {"noawait"})
Needs(t) ==
    LET k == t.k
        Kids == UNION {Needs(t.c[i]) : i \in DOMAIN t.c}
    IN
    CASE k = "un" /\ t.op = "await" -> Kids \cup {"async"}
      \* 13.1.1: let, static, yield are reserved words of strict mode code (class bodies); yield needs [~Yield], await [~Await] and the Script goal
      [] k = "kid" -> (IF t.op \in {"let","static","yield"} THEN {"sloppy"} ELSE {}) \cup (IF t.op = "yield" THEN {"nogen"} ELSE {}) \cup (IF t.op = "await" THEN {"noawait"} ELSE {})
      [] k = "un" /\ t.op = "delete" -> Kids \cup (IF IsIdLike(t.c[1]) THEN {"sloppy"} ELSE {})
      [] k = "forawait" -> (Kids \ {"brk","loop"}) \cup {"async"}
      [] k \in {"yield0","yield","yields"} -> Kids \cup {"gen"}
      [] k \in {"ret0","ret"} -> Kids \cup {"ret"}
      [] k = "nt" -> {"nt"}
      [] k \in {"pdot","opdot"} -> Kids \cup {"priv"}
      [] k = "brk" -> (IF t.op = "" THEN {"brk"} ELSE {"lbl:" \o t.op})
      [] k = "cont" -> (IF t.op = "" THEN {"loop"} ELSE {"clbl:" \o t.op})
      [] k \in Loops -> Kids \ {"brk","loop"}
      [] k = "sw" -> Kids \ {"brk"}
      [] k = "label" -> Kids \ ({"lbl:" \o t.op} \cup (IF IsLoopish(t.c[1]) THEN {"clbl:" \o t.op} ELSE {}))
      [] k \in {"fn","fnn","fdecl","pmeth","meth","smeth","pmeth2","ctor","sblock","kmeth"} -> Kids \cap {"priv","sloppy"}
      \* a computed key is evaluated in the context of the class / object literal
      [] k = "cmeth" -> Needs(t.c[1]) \cup (UNION {Needs(t.c[i]) : i \in 2..Len(t.c)} \cap {"priv","sloppy"})
      [] k = "arrowb" -> Kids \ ({"ret"} \cup (IF t.op = "async" THEN {"async"} ELSE {}))
      [] k = "arrow" -> Kids \ (IF t.op = "async" THEN {"async"} ELSE {})
      [] k \in {"cls","clsn","cdecl"} -> (IF \E i \in DOMAIN t.c : t.c[i].k \in {"pfield","pmeth2"} THEN Kids \ {"priv"} ELSE Kids)
      [] k \in {"field","sfield","pfield","kfield","sfieldl"} -> Kids \ {"nt"}
      [] k = "cfield" -> Needs(t.c[1]) \cup (UNION {Needs(t.c[i]) : i \in 2..Len(t.c)} \ {"nt"})
      [] OTHER -> Kids

(* ------------------------------- what the grammar's side conditions and early errors exclude ------------------------------- *)
RECURSIVE IsSimpleTarget(_)
IsSimpleTarget(t) == t.k \in {"id","kid"} \/ (t.k \in {"dot","idx","pdot"} /\ ~IsOptChain(t)) \/ (t.k = "grp" /\ IsSimpleTarget(t.c[1]))
RECURSIVE IsAsgPattern(_)
AsgElem(e) == IsSimpleTarget(e) \/ IsAsgPattern(e) \/ (e.k = "asg" /\ e.op = "=" /\ (IsSimpleTarget(e.c[1]) \/ IsAsgPattern(e.c[1])))
IsAsgPattern(t) ==
    \/ /\ t.k = "arr" /\ t.op \in {"", "h1"}
       /\ \A i \in DOMAIN t.c : IF t.c[i].k = "spread" THEN i = Len(t.c) /\ (IsSimpleTarget(t.c[i].c[1]) \/ IsAsgPattern(t.c[i].c[1])) ELSE AsgElem(t.c[i])
    \/ /\ t.k = "obj"
       /\ \A i \in DOMAIN t.c : CASE t.c[i].k = "psh" -> TRUE
                                  [] t.c[i].k = "pkv" -> AsgElem(t.c[i].c[1])
                                  [] t.c[i].k = "pcomp" -> AsgElem(t.c[i].c[2])
                                  [] t.c[i].k = "pspread" -> i = Len(t.c) /\ IsSimpleTarget(t.c[i].c[1])
                                  [] OTHER -> FALSE
RECURSIVE OpenIf(_)
OpenIf(s) == s.k = "if" \/ (s.k = "ife" /\ OpenIf(s.c[3])) \/ (s.k \in {"while","for","forin","forof","forawait","label"} /\ OpenIf(s.c[Len(s.c)]))
IsDeclaration(s) == s.k \in {"fdecl","cdecl","dup"} \/ (s.k \in {"var","varl"} /\ s.op \in {"let","const"})
RECURSIVE IsPatternB(_)
IsPatternB(b) == b.k \in {"barr","bobj"} \/ (b.k = "bdef" /\ IsPatternB(b.c[1]))
ParamNeedsOK(ps) == Needs(ps) \subseteq {"priv","sloppy","nt"}
BodyOK(node, op) == ParamNeedsOK(node.c[Len(node.c) - 1]) /\ Needs(node.c[Len(node.c)]) \subseteq FnAllowed(op)
\* a line break where the production has [no LineTerminator here]: the production does not apply
LtBad(t) == t.z \in {"lt","lta"} /\ t.k \in {"fn","fnn","arrow","arrowb","pmeth"} /\ (t.z = "lta" \/ t.op \in {"async","async*"})
\* ... and nothing else derives the text, whatever surrounds it:
\*   x <lb> => y, (a) <lb> => b, async x <lb> => y   12.10.1 puts a semicolon before `=>`, which no statement can start with
\*   async <lb> (a) => b    is the call async(a) followed by `=>` (15.9.1: the cover must be an AsyncArrowHead, which has async [no LineTerminator here])
\*   { async <lb> me(){} }  an object literal has no place for the inserted semicolon
LtBadAnywhere(t) == t.z = "lta" \/ (t.k \in {"arrow","arrowb"} /\ t.c[1].k = "ps") \/ t.k = "pmeth"
\* ... or because the operand stands between brackets: the semicolon 12.10.1 inserts before `function` / the parameter name cannot stand there
\* (as a whole statement, or as the right edge of one, the text would be two statements: those are the trees built from "kid")
Bracketed(p, i) == \/ p.k \in {"grp","arr","tpl","pkv","pcomp"}
                   \/ p.k \in {"call","ocall","newa","idx","oidx","tag"} /\ i > 1
LtOk(t) == \A i \in DOMAIN t.c : (LtBad(t.c[i]) /\ ~LtBadAnywhere(t.c[i])) => Bracketed(t, i)
\* the first token of an operand (before Norm puts parentheses around it)
FirstTok(t) == Spell(t)[1]
OkNode(t) ==
    LET k == t.k IN
    CASE k \in {"pre","post"} -> IsSimpleTarget(t.c[1])
      [] k = "asg" -> IsSimpleTarget(t.c[1]) \/ (t.op = "=" /\ IsAsgPattern(t.c[1]))
      \* 14.3.1: `let <line break> a` at the start of a statement of a StatementList is a LexicalDeclaration (nothing offends, so nothing is inserted):
      \* the statement `let` is ended by ';' or before '}' only.  (Everywhere else in an expression `let` is followed by a token no declaration can continue with.)
      [] k = "expr" -> ~(t.c[1].k = "kid" /\ t.c[1].op = "let" /\ t.z = "nl")
      [] k = "kmeth" -> BodyOK(t, "") /\ t.c[1].k = "ps"
      \* 15.7: `get <lb> a(){}`, `set <lb> a(b){}`, `static <lb> a` are an accessor / a static element (no restriction): a field named get / set / static
      \* is ended by ';' or before '}' only; `async <lb> a(){}` is the field async followed by the method a (async [no LineTerminator here] ClassElementName)
      [] k = "kfield" -> (t.op \in {"get","set","static"} => t.z # "nl") /\ Needs(t) \subseteq {"priv"}
      [] k = "sfieldl" -> Needs(t) \subseteq {"priv"}
      [] k = "badasg" -> t.c[1].k = "bin"
      [] k \in {"pcomp","bpcomp"} -> t.c[1].k # "tag"
      [] k = "bdef" -> t.c[1].k # "bdef"
      [] k \in {"ps","barr"} -> (t.op = "r" => t.c[Len(t.c)].k # "bdef") /\ ParamNeedsOK(t)
      [] k \in {"fn","fnn","fdecl","pmeth","meth","smeth","pmeth2","cmeth"} ->
             /\ BodyOK(t, t.op) /\ t.c[Len(t.c) - 1].k = "ps" /\ (k = "cmeth" => t.c[1].k # "tag")
             /\ (t.op = "get" => Len(t.c[Len(t.c) - 1].c) = 0)
             /\ (t.op = "set" => Len(t.c[Len(t.c) - 1].c) = 1 /\ t.c[Len(t.c) - 1].op = "")
      [] k = "ctor" -> BodyOK(t, "") /\ t.c[1].k = "ps"
      [] k = "sblock" -> Needs(t.c[1]) \subseteq {"priv"}
      [] k = "arrowb" -> ParamNeedsOK(t.c[1]) /\ Needs(t.c[2]) \cap {"gen","brk","loop"} = {} /\ (t.op = "" => "async" \notin Needs(t.c[2]))
                         /\ \A n \in Needs(t.c[2]) : n \in {"ret","nt","priv","sloppy","async"}
      [] k = "arrow" -> ParamNeedsOK(t.c[1]) /\ "gen" \notin Needs(t.c[2]) /\ (t.op = "" => "async" \notin Needs(t.c[2])) /\ (t.op = "async" => "noawait" \notin Needs(t.c[2]))
      [] k \in {"cls","clsn","cdecl"} ->
             /\ Cardinality({i \in DOMAIN t.c : t.c[i].k = "ctor"}) <= 1
             /\ Cardinality({i \in DOMAIN t.c : t.c[i].k \in {"pfield","pmeth2"}}) <= 1
             /\ \A i \in DOMAIN t.c : "sloppy" \notin Needs(t.c[i])
      [] k \in {"field","sfield","pfield"} -> Needs(t) \subseteq {"priv"}
      [] k = "cfield" -> t.c[1].k # "tag" /\ UNION {Needs(t.c[i]) : i \in 2..Len(t.c)} \subseteq {"priv", "nt"}
      [] k = "dci" -> TRUE
      [] k \in {"var","varl"} -> \A i \in DOMAIN t.c : (t.c[i].k = "dc" => ~IsPatternB(t.c[i].c[1]) /\ t.op # "const")
      [] k \in {"if","while","label"} -> ~IsDeclaration(t.c[Len(t.c)]) /\ (k = "label" => t.op \notin Labels(t.c[1]))
      [] k = "ife" -> ~IsDeclaration(t.c[2]) /\ ~IsDeclaration(t.c[3]) /\ ~OpenIf(t.c[2])
      [] k = "dow" -> ~IsDeclaration(t.c[1])
      [] k = "for" -> ~IsDeclaration(t.c[Len(t.c)]) /\ (ForInit(t.op) = "e" => FirstTok(t.c[1]) # "let")
      [] k \in {"forin","forof","forawait"} ->
             /\ ~IsDeclaration(t.c[3])
             /\ (t.op = "e" => IsSimpleTarget(t.c[1]) \/ IsAsgPattern(t.c[1]))
             /\ (t.op # "e" => t.c[1].k # "bdef")
             \* 14.7.5: for ( [lookahead \notin {let, async of}] LeftHandSideExpression of ...; for ( [lookahead # let [] LeftHandSideExpression in ...:
             \* a left side starting with `let` is not generated, nor `async` alone before `of`
             /\ (t.op = "e" => FirstTok(t.c[1]) # "let" /\ ~(k # "forin" /\ t.c[1].k = "kid" /\ t.c[1].op = "async"))
      [] k = "sw" -> Cardinality({i \in DOMAIN t.c : t.c[i].k = "def"}) <= 1
      \* an EmptyStatement directly after another statement of a list is not generated (js.Parse does not keep it in the tree)
      [] k \in {"blk","def"} -> \A i \in DOMAIN t.c : i > 1 => t.c[i].k # "empty"
      [] k = "case" -> \A i \in DOMAIN t.c : i > 2 => t.c[i].k # "empty"
      [] k = "try" -> (t.op \in {"cp","cpf"} => t.c[2].k # "bdef")
      [] OTHER -> TRUE
Ok(t) == OkNode(t) /\ LtOk(t)

(* ------------------------------- automatic semicolon insertion ------------------------------- *)
Markers == {"<nl>", "<omit>", "<dw>"}
\* a token that could continue the statement before it: a line break before it does NOT end that statement
UnsafeNext == {"(", "(:exp", "(:mix", "[", "/", "+", "-", "*", "%", "**", ".", "?.", ",", "<", ">", "<=", ">=", "==", "!=", "===", "!==", "<<", ">>", ">>>",
               "&", "|", "^", "&&", "||", "??", "?", ":", "=>", "in", "instanceof", "of", ";", "`h${", "}m${", "}t`"} \cup AsgOps \cup RegexToks \cup TplToks
RECURSIVE NextReal(_, _)
NextReal(toks, i) == IF i > Len(toks) THEN "<eof>" ELSE IF toks[i] \in Markers \cup {"<lt>", "<lts>"} THEN NextReal(toks, i + 1) ELSE toks[i]
\* kwYield: the token yield is the operator (FALSE: it is an identifier, a program has only one of the two)
ASIok(toks, kwYield) ==
    \A i \in 1..Len(toks) :
        toks[i] \in Markers =>
            LET nt == NextReal(toks, i + 1)
                pv == IF i = 1 THEN "" ELSE toks[i - 1] IN
            CASE toks[i] = "<omit>" -> nt \in {"}", "<eof>"}
              [] toks[i] = "<dw>" -> nt \notin UnsafeNext
              [] toks[i] = "<nl>" -> \/ nt \in {"}", "<eof>", "++", "--"}
                                    \/ pv \in {"return", "break", "continue"} \/ (pv = "yield" /\ kwYield)
                                    \/ nt \notin UnsafeNext
\* a line break inside a statement ("<lt>", spelled by the nodes with z = "lt") leaves the derivation alone unless the next token is one the grammar
\* restricts: LeftHandSideExpression [no LineTerminator here] ++ / -- (13.4), ArrowParameters [no LineTerminator here] => (15.3)
\* (the line breaks that ARE at such a place belong to LtBad nodes and are followed by function / a parameter / a method name / =>: "lta" is exempt)
\* (a line break before the terminating ';' is the business of the terminator spelling "nlsemi" alone)
LtFreeOk(toks) == \A i \in 1..Len(toks) : toks[i] = "<lt>" => NextReal(toks, i + 1) \notin {"++", "--", ";"}
\* the spelled tokens: markers resolved
Resolve(toks) == SelectSeq(toks, LAMBDA x : x \notin {"<omit>", "<dw>"})     \* "<nl>" stays: the harness writes a line break

(* ------------------------------- negative cases ------------------------------- *)
Brackets == {"(", ")", "[", "]", "{", "}", "(:exp", "):exp", "(:mix", "):mix"}
\* template nesting depth before token i (brackets inside a substitution are re-lexed with the template, so they are not mutated)
RECURSIVE TplDepth(_, _)
TplDepth(toks, i) == IF i = 0 THEN 0
                     ELSE TplDepth(toks, i - 1) + (IF toks[i] = "`h${" THEN 1 ELSE IF toks[i] = "}t`" THEN -1 ELSE 0)
\* a division sign can become the start of a regular expression literal once a bracket before it is gone, and that literal can
\* swallow later brackets (the program may then be well-formed again): programs with a division operator are not mutated
NoDiv(toks) == \A i \in 1..Len(toks) : toks[i] \notin {"/", "/="}
Dels(toks) == IF NoDiv(toks) THEN {i \in 1..Len(toks) : toks[i] \in Brackets /\ TplDepth(toks, i) = 0} ELSE {}
\* one opening bracket put before / one closing bracket put after a top-level statement (ends: token counts of the statements)
RECURSIVE Starts(_, _, _)
Starts(lens, i, acc) == IF i > Len(lens) THEN <<>> ELSE <<acc>> \o Starts(lens, i + 1, acc + lens[i])
Ins(lens, off) == LET st == Starts(lens, 1, off) IN
                  UNION {{[at |-> st[i], tok |-> b] : b \in {"(", "[", "{"}} \cup {[at |-> st[i] + lens[i], tok |-> b] : b \in {")", "]", "}"}} : i \in DOMAIN lens}

(* An un-parenthesised comma expression where the grammar takes an AssignmentExpression.  For operand i of p, what follows it in p: *)
(*   "list"    a comma there separates list elements (arguments 13.3, elements 13.2.4, properties 13.2.5, declarators 14.3,      *)
(*             parameters 15.1, pattern elements 14.3.3, the operands of a comma expression 13.16): the text is derivable        *)
(*   "closed"  a token of p that no Expression can precede unless p takes one there: `:` of a conditional (13.14), `]` of a      *)
(*             computed name (13.2.5), `)` of for-of (14.7.5), `{` after a class heritage (15.7), the end of a field (15.7)      *)
(*   "open"    nothing of p: the comma is read by whatever contains p                                                           *)
Edge(p, i) ==
    LET k == p.k IN
    CASE k \in {"call","ocall","newa"} /\ i > 1 -> "list"
      [] k \in {"arr","obj","ps","barr","bobj","var","varl","comma","badcomma"} -> "list"
      [] k = "cond" /\ i = 2 -> "closed"
      [] k \in {"pcomp","bpcomp","cmeth","cfield"} /\ i = 1 -> "closed"
      [] k \in {"forof","forawait"} /\ i = 2 -> "closed"
      [] k \in {"cls","clsn","cdecl"} /\ p.op = "x" /\ i = 1 -> "closed"
      [] k \in {"field","sfield","pfield","sfieldl","kfield"} -> "closed"
      [] k = "cfield" /\ i = 2 -> "closed"
      [] OTHER -> "open"
\* abs: a comma at the right edge of t would be read by something around t (the text is derivable in another way); that is also so when Norm
\* puts parentheses around the operand (it does not fit the level demanded, or it is an arrow body starting with `{`)
RECURSIVE BadPlaced(_, _, _)
BadPlaced(t, abs, noIn) ==
    \A i \in DOMAIN t.c :
        LET req == ChildReq(t, i)
            ni == ChildNoIn(t, i, noIn)
            e == Edge(t, i)
            heritage == t.k \in {"cls","clsn","cdecl"} /\ t.op = "x" /\ i = 1
            a == IF req = LComma \/ ~Fits(t.c[i], req, ni) \/ (t.k = "arrow" /\ i = 2 /\ FirstTok(t.c[i]) = "{") THEN TRUE
                 ELSE IF e = "list" THEN TRUE ELSE IF e = "closed" THEN FALSE ELSE abs
        IN /\ (t.c[i].k = "badcomma" => /\ ~a
                                        /\ (req = LAsg \/ heritage)
                                        \* 15.7 ClassHeritage : extends LeftHandSideExpression - the operands are such expressions (the comma is the one thing wrong)
                                        /\ (heritage => Level(t.c[i].c[1]) >= LNew /\ Level(t.c[i].c[2]) >= LNew))
           /\ BadPlaced(t.c[i], a, ni)

\* tables computed once (constant level)
SigTab == [c \in Cons |-> SigArgs(c)]
CostTab == [c \in Cons |-> Cost(c)]

(* ------------------------------- behaviours ------------------------------- *)
(* A behaviour is a leftmost derivation: `word` is the prefix-order sequence of the constructors chosen so far, `holes` the *)
(* categories of the operands still to be derived (leftmost first).  Every step fills the leftmost hole; budgets are      *)
(* reserved so that every hole can always be closed, hence every behaviour ends in a complete program.                    *)
Init == /\ word = <<>> /\ ne = 0 /\ ns = 0 /\ nx = 0 /\ np = 0 /\ nv = 0 /\ nleaf = 0
        /\ holes \in {Rep("S", n) : n \in 1..MaxTop}

\* which constructor may fill a hole of which category
TargetKinds == {"id","kid","dot","idx","pdot","grp"}
DeclCon(con) == con.k \in {"fdecl","cdecl","dup"} \/ (con.k \in {"var","varl"} /\ con.op \in {"let","const"})
Fills(con, h) ==
    LET cat == Cat(con) IN
    CASE h = "A" -> cat \in {"E", "A"}
      [] h = "K" -> con.k = "blk"
      [] h = "V" -> con.k = "var"
      [] h = "T" -> con.k \in TargetKinds
      [] h = "TP" -> con.k \in TargetKinds \cup {"arr","obj"}
      [] h = "SB" -> cat = "S" /\ ~DeclCon(con)
      [] h = "PS" -> con.k = "ps"                          \* FormalParameters in parentheses
      [] h = "PSA" -> con.k \in {"ps", "psid"}             \* ArrowParameters: also a single BindingIdentifier
      [] h = "BT" -> cat = "B" /\ con.k # "bdef"          \* BindingIdentifier | BindingPattern, without Initializer
      [] OTHER -> cat = h
\* operand categories, refined: assignment targets, statement (not declaration) bodies
ArgsFor(con, h) ==
    LET sa == SigTab[con] k == con.k IN
    CASE k = "grp" /\ h \in {"T","TP"} -> <<"T">>
      [] k \in {"pre","post"} -> <<"T">>
      [] k = "asg" -> <<(IF con.op = "=" THEN "TP" ELSE "T"), "E">>
      [] k \in {"forin","forof","forawait"} -> <<(IF con.op = "e" THEN "TP" ELSE "BT"), "E", "SB">>
      [] k = "arrow" -> <<"PSA","E">>
      [] k = "arrowb" -> <<"PSA","K">>
      [] k = "dc" -> <<"BT">>
      [] k \in {"dci","bdef"} -> <<"BT","E">>
      [] k = "try" /\ con.op = "cp" -> <<"K","BT","K">>
      [] k = "try" /\ con.op = "cpf" -> <<"K","BT","K","K">>
      [] k \in {"ps","barr"} /\ con.op = "r" -> SubSeq(sa, 1, Len(sa) - 1) \o <<"BT">>
      [] k \in {"if","while"} -> <<"E","SB">>
      [] k = "ife" -> <<"E","SB","SB">>
      [] k = "dow" -> <<"SB","E">>
      [] k = "label" -> <<"SB">>
      [] k = "for" -> SubSeq(sa, 1, Len(sa) - 1) \o <<"SB">>
      [] OTHER -> sa
CountIn(hs, cats) == Cardinality({i \in DOMAIN hs : hs[i] \in cats})
Expand(con) ==
    /\ holes # <<>>
    /\ Fills(con, Head(holes))
    /\ LET cost == CostTab[con]
           hs == ArgsFor(con, Head(holes)) \o Tail(holes)
           e2 == IF cost = "e" THEN ne + 1 ELSE ne
           s2 == IF cost = "s" THEN ns + 1 ELSE ns
           x2 == IF cost = "x" THEN nx + 1 ELSE nx
           p2 == IF cost = "p" THEN np + 1 ELSE np
           v2 == IF cost = "v" THEN nv + 1 ELSE nv
       IN /\ e2 <= MaxE /\ p2 <= MaxP /\ (v2 % 100) <= MaxL
          /\ s2 + CountIn(hs, {"S","SB","V"}) <= MaxS
          /\ x2 + CountIn(hs, {"DC","V"}) <= MaxX
          /\ (FreshCon(con) => nleaf < Len(Pool))
          \* at most one node of a program takes a line break inside a statement (z = "lt" / "lta"): counted in the hundreds of nv
          /\ \E z \in (IF Head(holes) = "V" THEN {"semi"} ELSE IF HasTerm(con.k) THEN Terms \ {"lt"} ELSE IF v2 >= 100 THEN {""} ELSE LtChoices(con)) :
                /\ word' = Append(word, [k |-> con.k, op |-> con.op, n |-> con.n, z |-> z])
                /\ nv' = IF z \in {"lt", "lta"} THEN v2 + 100 ELSE v2
          /\ holes' = hs /\ ne' = e2 /\ ns' = s2 /\ nx' = x2 /\ np' = p2
          /\ nleaf' = IF FreshCon(con) THEN nleaf + 1 ELSE nleaf

\* the trees of a complete word (prefix notation); names are given in source order
RECURSIVE BuildAt(_, _, _)
RECURSIVE BuildKids(_, _, _, _)
BuildAt(w, p, f) ==
    LET con == [k |-> w[p].k, op |-> w[p].op, n |-> w[p].n]
        f1 == IF FreshCon(con) THEN f + 1 ELSE f
        kids == BuildKids(w, p + 1, f1, Len(SigTab[con]))
    IN [t |-> N(con.k, con.op, (IF FreshCon(con) THEN Pool[f + 1] ELSE ""), kids.ts, w[p].z), pos |-> kids.pos, fresh |-> kids.fresh]
BuildKids(w, p, f, n) ==
    IF n = 0 THEN [ts |-> <<>>, pos |-> p, fresh |-> f]
    ELSE LET a == BuildAt(w, p, f)
             r == BuildKids(w, a.pos, a.fresh, n - 1)
         IN [ts |-> <<a.t>> \o r.ts, pos |-> r.pos, fresh |-> r.fresh]
RECURSIVE BuildTop(_, _, _)
BuildTop(w, p, f) == IF p > Len(w) THEN <<>> ELSE LET a == BuildAt(w, p, f) IN <<a.t>> \o BuildTop(w, a.pos, a.fresh)
RECURSIVE AllOk(_)
AllOk(t) == Ok(t) /\ \A i \in DOMAIN t.c : AllOk(t.c[i])

RECURSIVE OpsOf(_)
OpsOf(t) == <<t.k \o ":" \o t.op>> \o Flat([i \in DOMAIN t.c |-> OpsOf(t.c[i])])

\* parent>child adjacencies in prefix order (only used to name a disagreement precisely)
RECURSIVE ArOf(_)
ArOf(t) == <<Len(t.c)>> \o Flat([i \in DOMAIN t.c |-> ArOf(t.c[i])])
RECURSIVE PairsOf(_)
PairsOf(t) == Flat([i \in DOMAIN t.c |-> <<t.k \o ":" \o t.op \o ">" \o t.c[i].k \o ":" \o t.c[i].op>> \o PairsOf(t.c[i])])
CaseFile == IOEnv.VERIF_CASES
\* the function the whole program is put in when it needs [Yield] / [Await] / [Return] / new.target
WrapKind(nd) == IF "gen" \in nd /\ "async" \in nd THEN "async*" ELSE IF "gen" \in nd THEN "*" ELSE IF "async" \in nd THEN "async"
                ELSE IF nd \cap {"ret","nt","noawait"} # {} THEN "" ELSE "none"    \* js.Parse reads a top-level await as the operator (module goal)
RECURSIVE HasLtBad(_)
HasLtBad(t) == LtBad(t) \/ \E i \in DOMAIN t.c : HasLtBad(t.c[i])
Emit(st, nn) ==
    ((\A i \in DOMAIN st : AllOk(st[i]) /\ BadPlaced(st[i], TRUE, FALSE)) /\ (\A i \in DOMAIN st : i > 1 => st[i].k # "empty")
     /\ ((\E i \in DOMAIN st : Has(st[i], {"thrownl"})) => Len(st) = 1)) =>      \* (throw + line break: alone in its program)
        LET nd == UNION {Needs(st[i]) : i \in DOMAIN st}
            wk == WrapKind(nd)
            norm == [i \in DOMAIN st |-> Norm(st[i], -1, FALSE, "auto")]
            body == Flat([i \in DOMAIN st |-> Spell(norm[i])])
            raw == IF wk = "none" THEN body ELSE FnToks(wk) \o <<"wf", "(", ")", "{">> \o body \o <<"}">>
            nolt == \E i \in DOMAIN st : HasLtBad(st[i])
            bad == nolt \/ \E i \in DOMAIN st : Has(st[i], {"dup", "badasg", "badcomma", "thrownl"})
            Cn(w) == LET cs == Sep([i \in DOMAIN st |-> Canon(norm[i], w)], <<" ">>) IN
                     IF wk = "none" THEN cs ELSE <<"Decl(", FnHead(wk), " wf Params() Stmt({ ">> \o cs \o <<" }))">>
            toks == Resolve(raw)
            lens == [i \in DOMAIN st |-> Len(Resolve(Spell(norm[i])))]
            off == IF wk = "none" THEN 0 ELSE Len(FnToks(wk)) + 4
        IN (nd \subseteq {"gen","async","ret","nt","sloppy","nogen","noawait"} /\ ~{"gen","nogen"} \subseteq nd /\ ~{"async","noawait"} \subseteq nd /\ ASIok(raw, "nogen" \notin nd) /\ LtFreeOk(raw)) =>
             CSVWrite("%1$s", <<ToJson([toks |-> toks,
                                        kind |-> (IF bad THEN "reject" ELSE "accept"),
                                        why |-> (IF bad THEN (IF \E i \in DOMAIN st : Has(st[i], {"dup"}) THEN "lexical-redeclaration"
                                                              ELSE IF \E i \in DOMAIN st : Has(st[i], {"badcomma"}) THEN "comma-where-assignment-expression"
                                                              ELSE IF nolt \/ \E i \in DOMAIN st : Has(st[i], {"thrownl"}) THEN "line-break-in-restricted-production"
                                                              ELSE "assign-to-binary") ELSE ""),
                                        canon |-> (IF bad THEN <<>> ELSE Cn(FALSE)),
                                        canonw |-> (IF bad \/ ~\E i \in DOMAIN st : Has(st[i], {"while"}) THEN <<>> ELSE Cn(TRUE)),
                                        del |-> (IF bad THEN {} ELSE Dels(toks)),
                                        ins |-> (IF bad \/ ~NoDiv(toks) THEN {} ELSE Ins(lens, off)),
                                        ops |-> Flat([i \in DOMAIN st |-> OpsOf(st[i])]),
                                        pairs |-> Flat([i \in DOMAIN st |-> PairsOf(st[i])]),
                                        ar |-> Flat([i \in DOMAIN st |-> ArOf(st[i])]),
                                        nodes |-> nn])>>, CaseFile)

Next == \E con \in Cons : Expand(con) /\ (holes' = <<>> => Emit(BuildTop(word', 1, 0), ne' + ns' + np'))
Spec == Init /\ [][Next]_vars
\* vocabulary for the vacuity test of checks/C03.py
Vocab == {c.k \o ":" \o c.op : c \in AllCons}
ASSUME PrintT(<<"VOCAB", Vocab>>)
=============================================================================
