SPECIFICATION Spec
CONSTANTS
  Cons <- AsiCons
  Terms = {"nl","omit"}
  MaxE = 0
  MaxS = 3
  MaxX = 1
  MaxP = 0
  MaxL = 0
  MaxTop = 1
CHECK_DEADLOCK FALSE
