---------------------------- MODULE ScopeTrace ----------------------------
(***************************************************************************)
(* Trace specification (kinds P + T) for C04.  `exp` is the partition of   *)
(* the identifier occurrences (in source order) into bindings computed by  *)
(* ScopeSem.tla: a positive label per binding, -(name index) for a name    *)
(* bound nowhere.  `obs` is what the tree returned by js.Parse says: after *)
(* giving every declared Var a fresh name and printing, the label of each  *)
(* printed identifier.  The property: the two partitions coincide, also    *)
(* after parsing the renamed text again (alpha-equivalence), every Var's   *)
(* Uses equals the number of places its name is printed, names that are    *)
(* not variables (property keys) are printed unchanged, and programs with   *)
(* a lexical redeclaration are rejected.                                   *)
(***************************************************************************)
EXTENDS Integers, Sequences, TraceIO

VARIABLES l, bad, verdict, exp
tvars == <<l, bad, verdict, exp>>
e == Trace[l]

Iso(a, b) == /\ Len(a) = Len(b)
             /\ \A i \in 1..Len(a) : (a[i] < 0) = (b[i] < 0) /\ (a[i] < 0 => a[i] = b[i])
             /\ \A i \in 1..Len(a) : \A j \in 1..(i - 1) : (a[i] = a[j]) = (b[i] = b[j])

TInit == l = 1 /\ bad = FALSE /\ verdict = "" /\ exp = <<>>
IsStart == e.ev = "Open"
Returned == e.out = "ret"
Step == CASE e.ev = "Parse"   -> e.ok = (verdict = "accepted")
          [] e.ev = "Vars"    -> /\ Iso(exp, e.obs) /\ \A k \in 1..Len(e.uses) : e.uses[k][1] = e.uses[k][2]
                                 \* renaming variables leaves every name that is not a variable alone: the property keys of the
                                 \* printed program (keys) are those of the original (xkeys: one per shorthand property `{a}`
                                 \* whose value is a declared variable -- it has to be printed as `{a: fresh}`)
                                 /\ (Has(e, "keys") => e.keys = e.xkeys)
          [] e.ev = "Reparse" -> e.ok /\ Iso(exp, e.obs)
          [] OTHER -> FALSE

TStart == l <= NEvents /\ IsStart /\ verdict' = e.verdict /\ exp' = e.exp /\ bad' = FALSE /\ l' = l + 1
TStep  == l <= NEvents /\ ~IsStart /\ ~bad /\ Returned /\ Step /\ l' = l + 1 /\ UNCHANGED <<bad, verdict, exp>>
TFail  == /\ l <= NEvents /\ ~IsStart /\ ~bad /\ ~(Returned /\ Step)
          /\ RecordFail(e, l) /\ bad' = TRUE /\ l' = l + 1 /\ UNCHANGED <<verdict, exp>>
TSkip  == l <= NEvents /\ ~IsStart /\ bad /\ l' = l + 1 /\ UNCHANGED <<bad, verdict, exp>>
TNext == TStart \/ TStep \/ TFail \/ TSkip
TSpec == TInit /\ [][TNext]_tvars
Accepted == TLCGet("stats").diameter = NEvents + 1
=============================================================================
