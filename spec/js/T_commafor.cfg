SPECIFICATION Spec
CONSTANTS
  Cons <- CommaFor
  Terms = {"semi"}
  MaxE = 3
  MaxS = 2
  MaxX = 0
  MaxP = 0
  MaxL = 0
  MaxTop = 1
CHECK_DEADLOCK FALSE
