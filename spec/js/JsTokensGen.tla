---------------------------- MODULE JsTokensGen ----------------------------
(***************************************************************************)
(* Generator (kind G) for C06.  A behaviour appends, per step, a separator *)
(* choice (a possibly empty sequence of trivia units) and one significant  *)
(* unit; it is enabled only when no two neighbours need a separator that   *)
(* is not there and when the bracket context allows the unit.  Every state *)
(* with at least one unit is a case:                                       *)
(*    u  the units (each a sequence of atom names, one token each)         *)
(*    k  the kind the lexer must report for each unit                      *)
(*    p  for a regular-expression unit, the token Next() must report       *)
(*       before RegExp() is called ("/" or "/="), else ""                  *)
(* The harness spells the atoms; the expected texts are the spellings of   *)
(* the units, so nothing else has to be computed outside TLA+.             *)
(*                                                                         *)
(* Plan (constant) selects what is enumerated:                             *)
(*   pairs     every two significant units x six separators, top level;    *)
(*             "none" is allowed exactly when MergesStrict says the pair   *)
(*             lexes as itself (sound for two tokens before the end)       *)
(*   ctxpairs  pairs over a reduced set inside a template substitution     *)
(*   triples   three units over a smaller set x {none, space, LF}          *)
(*   seps      every trivia sequence of AllSeps between two units          *)
(*   edges     every trivia sequence before and after a single unit (also  *)
(*             a single-line comment that ends the input)                  *)
(*   nest      every sequence of up to MaxLen units over templates pieces,  *)
(*             braces, parentheses and an identifier, without separators   *)
(*             (the bracket context decides what '}' is)                   *)
(*   regexp    prefix, regular-expression literal with every body of up to *)
(*             MaxBody atoms, follower                                     *)
(*   seq       (-simulate) random sequences of MaxLen units, nesting to    *)
(*             MaxNest; cases at a third, two thirds and the full length   *)
(*   pairs_t / triples_t / regexp_t   larger thorough variants             *)
(***************************************************************************)
EXTENDS JsTokens, Json, CSV, IOUtils, Randomization

CONSTANTS Plan, MaxNest, MaxBody, MaxLen

VARIABLES units,   \* the scenario so far
          stk,     \* bracket context (JsTokens section 3)
          nsig     \* significant units appended so far (+1 once trailing trivia was added)
gvars == <<units, stk, nsig>>

U(n) == <<n>>
Names(S) == {U(a.n) : a \in S}

\* ---- regular-expression units
RECURSIVE Bodies(_)
Bodies(n) == IF n = 0 THEN {<<>>} ELSE LET B == Bodies(n - 1) IN B \cup {Append(b, x) : b \in {y \in B : Len(y) = n - 1}, x \in ReBodyNames}
ReUnits(maxBody) ==
    LET B == Bodies(maxBody)
        F == {<<"re.close">>, <<"re.close", "re.flags">>}
    IN {<<"re.open">> \o b \o f : b \in B \ {<<>>}, f \in F}          \* '//' would be a comment
       \cup {<<"re.open.eq">> \o b \o f : b \in B, f \in F}
ReFew == {<<"re.open", "re.plain", "re.close">>, <<"re.open", "re.class.slash", "re.close", "re.flags">>,
          <<"re.open.eq", "re.close">>, <<"re.open", "re.escslash", "re.plain", "re.close", "re.flags">>,
          <<"re.open.eq", "re.class.escbracket", "re.close", "re.flags">>}

\* ---- sets of significant units
Full == Names(SigAtoms) \cup ReFew
RedNames == {"id.ascii", "id.esc4", "kw.in", "kw.await", "kw.of", "num.int", "num.leaddot", "num.traildot", "num.hex", "num.exp",
             "str.dq", "tmpl.nosub", "priv.ascii", "p.{", "p.}", "p.(", "p.)", "p.[", "p.]", "p..", "p....", "p.?", "p.?.", "p./", "p./=",
             "p.+", "p.++", "p.-", "p.--", "p.>", "p.>>", "p.>=", "p.=", "p.=>", "p.*", "p.<", "p.!", "p.;",
             "tmpl.head", "tmpl.head.text", "tmpl.mid", "tmpl.mid.text", "tmpl.tail", "tmpl.tail.text"}
Red == {U(n) : n \in RedNames} \cup {<<"re.open", "re.plain", "re.close">>}
Red3Names == {"id.ascii", "kw.in", "num.int", "num.leaddot", "p..", "p.?", "p.?.", "p./", "p.+", "p.++", "p.>", "p.>=", "p.=", "p.*",
              "p.{", "p.}", "tmpl.head", "tmpl.mid", "tmpl.tail"}
Red3 == {U(n) : n \in Red3Names}
Red4 == Red3 \cup {U(n) : n \in {"id.esc4", "num.traildot", "num.hex", "str.sq", "tmpl.nosub", "priv.ascii", "p.(", "p.)", "p....", "p.-", "p.--",
                                  "p.<", "p.!", "p.>>", "p./=", "p.**", "p.??", "p.&&", "kw.await"}} \cup {<<"re.open", "re.class.slash", "re.close", "re.flags">>}
Pre  == {U(n) : n \in {"id.ascii", "p.(", "p.=", "kw.return", "p.}", "p./", "num.int"}}
Post == {U(n) : n \in {"p.;", "p..", "p./", "id.ascii", "num.int", "p.(", "p./="}}
NestNames == {"tmpl.head", "tmpl.mid", "tmpl.tail", "p.{", "p.}", "p.(", "p.)", "id.ascii", "tmpl.nosub"}
NestSet == {U(n) : n \in NestNames}
ASSUME RedNames \subseteq AtomNames /\ Red3Names \subseteq AtomNames

\* ---- separator choices (sequences of trivia units)
Six   == {<<>>, <<U("ws.sp")>>, <<U("ws.tab")>>, <<U("lt.lf")>>, <<U("lt.ls")>>, <<U("cmt.multi")>>}
Three == {<<>>, <<U("ws.sp")>>, <<U("lt.lf")>>}
Two   == {<<>>, <<U("ws.sp")>>}
AllSeps == {<<>>} \cup {<<U(a.n)>> : a \in WsAtoms \cup LtAtoms}
           \cup {<<U("cmt.multi")>>, <<U("cmt.multi.lt")>>}
           \cup {<<U("cmt.single"), U(a.n)>> : a \in LtAtoms}
           \cup {<<U("ws.sp"), U("cmt.multi")>>, <<U("cmt.multi"), U("ws.nbsp")>>, <<U("lt.crlf"), U("ws.tab")>>, <<U("ws.ff"), U("lt.cr")>>,
                 <<U("cmt.multi"), U("cmt.multi.lt")>>, <<U("cmt.multi.lt"), U("cmt.single"), U("lt.ps")>>, <<U("ws.sp"), U("cmt.single"), U("lt.lf"), U("ws.sp")>>}

None == {<<>>}
Red2 == {U(n) : n \in {"id.ascii", "num.int", "p./", "p.+", "kw.in", "str.dq", "p..", "tmpl.nosub"}}
Trail == (AllSeps \ {<<>>}) \cup {<<U("cmt.single")>>, <<U("ws.sp"), U("cmt.single")>>}
R(sig, seps, lead, trail, subst, strict) == [sig |-> sig, seps |-> seps, lead |-> lead, trail |-> trail, subst |-> subst, strict |-> strict]
PlanRec ==
    CASE Plan = "pairs"      -> R(<<Full, Full>>, Six, None, {}, FALSE, TRUE)
      [] Plan = "ctxpairs"   -> R(<<Red, Red>>, Six, Two, {}, TRUE, FALSE)
      [] Plan = "triples"    -> R(<<Red3, Red3, Red3>>, Three, None, {}, FALSE, FALSE)
      [] Plan = "seps"       -> R(<<Red3, Red3>>, AllSeps, None, {}, FALSE, FALSE)
      [] Plan = "edges"      -> R(<<Red2>>, None, AllSeps, Trail, FALSE, FALSE)
      [] Plan = "regexp"     -> R(<<Pre, ReUnits(MaxBody), Post>>, Two, None, {}, FALSE, FALSE)
      [] Plan = "nest"       -> R([i \in 1..MaxLen |-> NestSet], None, None, {}, FALSE, FALSE)
      [] Plan = "triples_t"  -> R(<<Red4, Red4, Red4>>, Three, None, {}, FALSE, FALSE)
      [] Plan = "ctxpairs_t" -> R(<<Full, Full>>, Six, Two, {}, TRUE, FALSE)
      [] Plan = "seps_t"     -> R(<<Red, Red>>, AllSeps, None, {}, FALSE, FALSE)
      [] Plan = "seq"        -> R(<<>>, Six, None, {}, FALSE, FALSE)
P == PlanRec
NSig == IF Plan = "seq" THEN MaxLen ELSE Len(P.sig)
ASSUME P.strict => NSig = 2
\* the conservative relation contains the strict one
ASSUME Plan = "pairs" => \A a \in SigAtoms, b \in Atoms : b.h # <<>> /\ MergesStrict(a, b) => NeedsSep(a, b)

\* ---- adjacency
\* for the simulation the relation is tabulated once over atom names (b must be able to start a unit); the
\* enumerations evaluate it directly (tabulating costs more than they need)
Starts == {n \in AtomNames : A[n].h # <<>>}
NSepT == IF Plan = "seq" THEN TLCEval([a \in AtomNames |-> TLCEval([b \in Starts |-> NeedsSep(A[a], A[b])])]) ELSE <<>>
Flat(us) == IF us = <<>> THEN <<>> ELSE <<Last(us[Len(us)]).n>>   \* name of the last atom of a sequence of units, as a 0/1 sequence
Sep(a, b, direct) == IF Plan = "seq" THEN NSepT[a][b] ELSE IF direct /\ P.strict THEN MergesStrict(A[a], A[b]) ELSE NeedsSep(A[a], A[b])
\* prev (0/1 sequence of atom names), then the trivia units s, then b (0/1 sequence): no neighbours that need a separator
ChainOK(prev, s, b) ==
    LET seq == prev \o [i \in 1..Len(s) |-> s[i][1]] \o b
    IN \A i \in 1..(Len(seq) - 1) : ~Sep(seq[i], seq[i + 1], s = <<>>)

Init == /\ nsig = 0
        /\ IF P.subst THEN units = <<U("tmpl.head")>> /\ stk = <<"T">> ELSE units = <<>> /\ stk = <<>>

Add(s, u) == /\ ChainOK(Flat(units), s, <<u[1]>>)
             /\ Allowed(u, stk, MaxNest)
             /\ units' = units \o s \o <<u>>
             /\ stk' = Effect(u, stk)
             /\ nsig' = nsig + 1

Enum == /\ Plan # "seq"
        /\ \/ /\ nsig < NSig
              /\ \E s \in (IF nsig = 0 THEN P.lead ELSE P.seps), u \in P.sig[nsig + 1] : Add(s, u)
           \/ /\ P.trail # {} /\ nsig = NSig          \* trailing trivia
              /\ \E s \in P.trail :
                    /\ ChainOK(Flat(units), s, <<>>)
                    /\ units' = units \o s /\ nsig' = nsig + 1 /\ UNCHANGED stk

\* ---- simulation: one random candidate per step (bound by \E, hence evaluated once)
Brackets == {U("p.("), U("p.)"), U("p.{"), U("p.}"), U("p.["), U("p.]")}
Classes == <<Names(KwAtoms), Names(PunctAtoms), Names(PunctAtoms), Names(IdAtoms), Names(NumAtoms), Names(StrAtoms),
             Names({a \in TmplAtoms : a.c = "tmpl"}), Names({a \in TmplAtoms : a.c = "thead"}), Names({a \in TmplAtoms : a.c = "thead"}),
             Names({a \in TmplAtoms : a.c = "tmid"}), Names({a \in TmplAtoms : a.c = "tmid"}),
             Names({a \in TmplAtoms : a.c = "ttail"}), Names({a \in TmplAtoms : a.c = "ttail"}),
             Names(PrivAtoms), ReUnits(2), Brackets, Brackets>>
SimSeps == AllSeps
Sim == /\ Plan = "seq" /\ nsig < MaxLen
       /\ LET avail == {ci \in DOMAIN Classes : \E u \in Classes[ci] : Allowed(u, stk, MaxNest)} IN
          \E ci \in RandomSubset(1, avail) :
          \E u \in RandomSubset(1, {x \in Classes[ci] : Allowed(x, stk, MaxNest)}) :
             LET ok == {s \in SimSeps : ChainOK(Flat(units), s, <<u[1]>>)} IN
             \E coin \in RandomSubset(1, 1..5) :                   \* no separator in 2 of 5 steps where that is safe
             \E s \in (IF coin <= 2 /\ <<>> \in ok /\ units # <<>> THEN {<<>>} ELSE RandomSubset(1, ok)) : Add(s, u)
Next == Enum \/ Sim
Spec == Init /\ [][Next]_gvars

\* ---- emission
CaseFile == IOEnv.VERIF_CASES
IsCase == /\ units # <<>>
          /\ (Plan = "seq" => nsig \in {MaxLen \div 3, (2 * MaxLen) \div 3, MaxLen})
          /\ (P.subst => Len(units) > 1)
Case == [plan |-> Plan, u |-> units, k |-> [i \in DOMAIN units |-> KindOf(units[i])], p |-> [i \in DOMAIN units |-> PreOf(units[i])]]
EmitInv == IsCase => CSVWrite("%1$s", <<ToJson(Case)>>, CaseFile)
\* the vocabulary, once, so that the check can tell which atoms a run never used
VocabInv == (units = <<>> \/ (P.subst /\ Len(units) = 1)) =>
               CSVWrite("%1$s", <<ToJson([vocab |-> AtomNames, plan |-> Plan])>>, CaseFile)
=============================================================================
