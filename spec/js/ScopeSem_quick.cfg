SPECIFICATION Spec
CONSTANTS
  Names = {"a", "b"}
  MaxItems = 4
  MaxDepth = 2
  Kinds = {"fn", "fx", "ar", "blk", "forlet", "forvar", "forx", "catch", "cls", "cx"}
CHECK_DEADLOCK FALSE
