-------------------------- MODULE JsGrammarTrace --------------------------
(***************************************************************************)
(* Trace specification (kinds P + T) for C03.  A trace is one program:     *)
(*   Open{src, kind, canon, canonw}   the source text, whether the         *)
(*        ECMAScript grammar derives it ("accept") or the program was made *)
(*        ill-formed in one of the ways the property lists ("reject"), and *)
(*        for a derivable program the rendering of the tree the grammar    *)
(*        prescribes in the format of AST.String() (computed by            *)
(*        JsGrammar.tla; canonw: the same with while-loops as for-loops)   *)
(*   Parse{ok, opts, w2f, str}        one call of js.Parse under one       *)
(*        Options value: did it return a tree, and that tree's String()    *)
(* The property: a derivable program is accepted under every Options value *)
(* and the tree is the prescribed one (WhileToFor only replacing while by  *)
(* the equivalent for); an ill-formed program is never returned as a tree. *)
(* Texts are sequences of byte values.                                     *)
(***************************************************************************)
EXTENDS Integers, Sequences, TraceIO

VARIABLES l, bad, kind, canon, canonw
tvars == <<l, bad, kind, canon, canonw>>
e == Trace[l]

TInit == l = 1 /\ bad = FALSE /\ kind = "" /\ canon = <<>> /\ canonw = <<>>
IsStart == e.ev = "Open"
Returned == e.out = "ret"
\* kind "parses": a program another generator (ScopeSem.tla) derives, for which no tree is prescribed here: it is accepted
\* under every Options value ("Parse succeeds"; "the same holds under every Options value").  With rep = n > 0 the text
\* parsed is n copies of the program, each the body of a block: a derivable statement list is a derivable block body, and a
\* sequence of blocks is a statement list (Open.why = "repetition").
Step == CASE e.ev = "Parse" -> IF kind = "accept" THEN e.ok /\ e.str = (IF e.w2f THEN canonw ELSE canon)
                               ELSE IF kind = "parses" THEN e.ok
                               ELSE kind = "reject" /\ ~e.ok
          [] OTHER -> FALSE

TStart == l <= NEvents /\ IsStart /\ kind' = e.kind /\ canon' = e.canon /\ canonw' = e.canonw /\ bad' = FALSE /\ l' = l + 1
TStep  == l <= NEvents /\ ~IsStart /\ ~bad /\ Returned /\ Step /\ l' = l + 1 /\ UNCHANGED <<bad, kind, canon, canonw>>
TFail  == /\ l <= NEvents /\ ~IsStart /\ ~bad /\ ~(Returned /\ Step)
          /\ RecordFail(e, l) /\ bad' = TRUE /\ l' = l + 1 /\ UNCHANGED <<kind, canon, canonw>>
TSkip  == l <= NEvents /\ ~IsStart /\ bad /\ l' = l + 1 /\ UNCHANGED <<bad, kind, canon, canonw>>
TNext == TStart \/ TStep \/ TFail \/ TSkip
TSpec == TInit /\ [][TNext]_tvars
Accepted == TLCGet("stats").diameter = NEvents + 1
=============================================================================
