SPECIFICATION Spec
CONSTANTS
  Cons <- BindCons
  Terms = {"semi"}
  MaxE = 1
  MaxS = 1
  MaxX = 2
  MaxP = 0
  MaxL = 0
  MaxTop = 1
CHECK_DEADLOCK FALSE
