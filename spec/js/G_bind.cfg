SPECIFICATION Spec
CONSTANTS
  Cons <- BindCons
  Terms = {"semi"}
  MaxE = 2
  MaxS = 2
  MaxX = 4
  MaxStack = 3
CHECK_DEADLOCK FALSE
