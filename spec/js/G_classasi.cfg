SPECIFICATION Spec
CONSTANTS
  Cons <- ClassAsi
  Terms = {"semi","nl","omit"}
  MaxE = 0
  MaxS = 1
  MaxX = 2
  MaxP = 0
  MaxL = 0
  MaxTop = 1
CHECK_DEADLOCK FALSE
