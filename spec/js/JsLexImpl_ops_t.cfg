SPECIFICATION Spec
CONSTANTS
  Alphabet = {"gt", "eq", "bang", "plus", "star", "qmark", "dot", "digit0", "digit8", "lt", "dash", "amp", "slash"}
  MaxLen = 5
  Emit = TRUE
  ReMode = "never"
  Defect = "none"
INVARIANT OneError
INVARIANT MapInv
INVARIANT LevelInv
PROPERTY RefinesTok
PROPERTY Progress
PROPERTY LongestMatch
PROPERTY TokenInvP
PROPERTY Adjacent
PROPERTY NumLang
PROPERTY ReLang
PROPERTY Brackets
PROPERTY DetSound
PROPERTY DetComplete
CHECK_DEADLOCK FALSE
