SPECIFICATION Spec
CONSTANTS
  Alphabet = {"qmark", "dot", "digit", "letter"}
  MaxLen = 3
  Emit = FALSE
  ReMode = "grammar"
  Defect = "optchain_digit"
INVARIANT OneError
INVARIANT MapInv
INVARIANT LevelInv
PROPERTY RefinesTok
PROPERTY Progress
PROPERTY LongestMatch
PROPERTY TokenInvP
PROPERTY Adjacent
PROPERTY NumLang
PROPERTY ReLang
PROPERTY Brackets
CHECK_DEADLOCK FALSE
