SPECIFICATION Spec
CONSTANTS
  Cons <- ForIn
  Terms = {"semi"}
  MaxE = 2
  MaxS = 3
  MaxX = 1
  MaxP = 1
  MaxL = 0
  MaxTop = 1
CHECK_DEADLOCK FALSE
