SPECIFICATION Spec
CONSTANTS
  Alphabet = {"gt", "eq"}
  MaxLen = 4
  Emit = FALSE
  ReMode = "grammar"
  Defect = "gtgtgt_eq"
INVARIANT OneError
INVARIANT MapInv
INVARIANT LevelInv
PROPERTY RefinesTok
PROPERTY Progress
PROPERTY LongestMatch
PROPERTY TokenInvP
PROPERTY Adjacent
PROPERTY NumLang
PROPERTY ReLang
PROPERTY Brackets
CHECK_DEADLOCK FALSE
