SPECIFICATION Spec
CONSTANTS
  Alphabet = {"digit0", "digit", "dot", "letter_e", "letter_n", "underscore", "plus", "dash", "letter"}
  MaxLen = 5
  Emit = TRUE
  ReMode = "grammar"
  Defect = "none"
INVARIANT OneError
INVARIANT MapInv
INVARIANT LevelInv
PROPERTY RefinesTok
PROPERTY Progress
PROPERTY LongestMatch
PROPERTY TokenInvP
PROPERTY Adjacent
PROPERTY NumLang
PROPERTY ReLang
PROPERTY Brackets
PROPERTY DetSound
PROPERTY DetComplete
CHECK_DEADLOCK FALSE
