SPECIFICATION Spec
CONSTANTS
  Alphabet = {"digit", "letter", "dot"}
  MaxLen = 3
  Emit = FALSE
  ReMode = "grammar"
  Defect = "num_ident"
INVARIANT OneError
INVARIANT MapInv
INVARIANT LevelInv
PROPERTY RefinesTok
PROPERTY Progress
PROPERTY LongestMatch
PROPERTY TokenInvP
PROPERTY Adjacent
PROPERTY NumLang
PROPERTY ReLang
PROPERTY Brackets
CHECK_DEADLOCK FALSE
