------------------------------ MODULE JsClimb ------------------------------
(***************************************************************************)
(* Implementation-shaped specification (kind I) of the precedence-climbing *)
(* core of js.Parser (js/parse.go: parseExpression(prec) and the loop of   *)
(* parseExpressionSuffix(left, prec, precLeft)) for identifiers, prefix    *)
(* minus, postfix ++ and the binary / assignment operators, checked by TLC *)
(* against the ECMAScript expression LADDER written declaratively:         *)
(*                                                                         *)
(*   for EVERY token sequence up to MaxLen over the operator vocabulary,   *)
(*   the climbing loop accepts it iff the ladder grammar derives it, and   *)
(*   then builds exactly the tree of that (unique) derivation.             *)
(*                                                                         *)
(* Levels (js/table.go OpPrec): 1 Assign, 2 Coalesce, 3 Or, 4 And, 5 BitOr,*)
(* 6 BitXor, 7 BitAnd, 8 Equals, 9 Compare, 10 Shift, 11 Add, 12 Mul,      *)
(* 13 Exp, 14 Unary, 15 Update, 16 LHS (identifier).                       *)
(***************************************************************************)
EXTENDS Integers, Sequences, FiniteSets, TLC

CONSTANTS MaxLen, DefectAddRightAssoc,   \* TRUE: model of a regression (operand of '+' parsed at its own level): must be rejected
          Ops      \* Ops: the binary operator tokens used (a subset of DOMAIN LevelOf keeps the run small)

Assign == 1  Coalesce == 2  Or == 3  And == 4  BitOr == 5  Equals == 8  Compare == 9  Add == 11  Mul == 12  Exp == 13
Unary == 14  Update == 15  LHS == 16

LevelOf == [eq |-> 1, nullish |-> 2, oror |-> 3, andand |-> 4, bitor |-> 5, bitxor |-> 6, bitand |-> 7, eqeq |-> 8, lt |-> 9,
            shl |-> 10, add |-> 11, mul |-> 12, exp |-> 13]
Toks == Ops \cup {"a", "neg", "incr"}       \* identifier, prefix minus, postfix ++
IsBin(t) == t \in Ops

(* ------------------------------------------------------------------------------------------------------------------ *)
(* The ladder, declaratively: D[lv, s] = the set of trees the grammar derives for token sequence s at ladder level lv *)
(* (ECMA-262 13.5 - 13.15).  Trees: <<"a">>, <<"neg", t>>, <<"incr", t>>, <<op, l, r>>.                               *)
(* ------------------------------------------------------------------------------------------------------------------ *)
RECURSIVE D(_, _), CoalesceTrees(_)
D(lv, s) ==
    IF s = <<>> THEN {}
    ELSE IF lv = LHS THEN (IF s = <<"a">> THEN {<<"a">>} ELSE {})
    ELSE IF lv = Update THEN        \* UpdateExpression: LeftHandSideExpression | LeftHandSideExpression ++
         D(LHS, s) \cup (IF s[Len(s)] = "incr" THEN {<<"incr", t>> : t \in D(LHS, SubSeq(s, 1, Len(s) - 1))} ELSE {})
    ELSE IF lv = Unary THEN         \* UnaryExpression: UpdateExpression | - UnaryExpression
         D(Update, s) \cup (IF s[1] = "neg" THEN {<<"neg", t>> : t \in D(Unary, SubSeq(s, 2, Len(s)))} ELSE {})
    ELSE IF lv = Exp THEN           \* ExponentiationExpression: UnaryExpression | UpdateExpression ** ExponentiationExpression
         D(Unary, s) \cup UNION {IF s[i] = "exp"
                                 THEN {<<"exp", l, r>> : l \in D(Update, SubSeq(s, 1, i - 1)), r \in D(Exp, SubSeq(s, i + 1, Len(s)))}
                                 ELSE {} : i \in 2..(Len(s) - 1)}
    ELSE IF lv = Assign THEN        \* AssignmentExpression: (Conditional ->) ShortCircuit | LeftHandSideExpression = AssignmentExpression
         D(Coalesce, s) \cup UNION {IF s[i] = "eq"
                                    THEN {<<"eq", l, r>> : l \in D(LHS, SubSeq(s, 1, i - 1)), r \in D(Assign, SubSeq(s, i + 1, Len(s)))}
                                    ELSE {} : i \in 2..(Len(s) - 1)}
    ELSE IF lv = Coalesce THEN      \* ShortCircuitExpression: LogicalORExpression | CoalesceExpression
         \* CoalesceExpression: CoalesceExpressionHead ?? BitwiseORExpression ; Head: CoalesceExpression | BitwiseORExpression
         D(Or, s) \cup CoalesceTrees(s)
    ELSE \* left-associative binary levels: L : L+1 | L op L+1
         D(lv + 1, s) \cup UNION {IF IsBin(s[i]) /\ LevelOf[s[i]] = lv
                                  THEN {<<s[i], l, r>> : l \in D(lv, SubSeq(s, 1, i - 1)), r \in D(lv + 1, SubSeq(s, i + 1, Len(s)))}
                                  ELSE {} : i \in 2..(Len(s) - 1)}
CoalesceTrees(s) ==
    UNION {IF s[i] = "nullish"
           THEN {<<"nullish", l, r>> : l \in (CoalesceTrees(SubSeq(s, 1, i - 1)) \cup D(BitOr, SubSeq(s, 1, i - 1))), r \in D(BitOr, SubSeq(s, i + 1, Len(s)))}
           ELSE {} : i \in 2..(Len(s) - 1)}

(* ------------------------------------------------------------------------------------------------------------------ *)
(* The climbing loop, as the Go code has it.  Result: [ok, tree, rest, pl] (pl = precLeft of the returned expression)   *)
(* ------------------------------------------------------------------------------------------------------------------ *)
Fail == [ok |-> FALSE, tree |-> <<>>, rest |-> <<>>, pl |-> 0]
RECURSIVE ParseExpr(_, _), Suffix(_, _, _, _)
\* parseExpression(prec): a prefix part, then the suffix loop
ParseExpr(prec, s) ==
    IF s = <<>> THEN Fail
    ELSE IF s[1] = "a" THEN Suffix(<<"a">>, prec, LHS, SubSeq(s, 2, Len(s)))      \* identifier: precLeft = OpPrimary/LHS
    ELSE IF s[1] = "neg" THEN
         LET r == ParseExpr(Unary, SubSeq(s, 2, Len(s))) IN                          \* operand parsed at OpUnary
         IF ~r.ok THEN Fail ELSE Suffix(<<"neg", r.tree>>, prec, Unary, r.rest)      \* then precLeft = OpUnary
    ELSE Fail
\* parseExpressionSuffix(left, prec, precLeft)
Suffix(left, prec, pl, s) ==
    IF s = <<>> THEN [ok |-> TRUE, tree |-> left, rest |-> s, pl |-> pl]
    ELSE LET t == s[1] rest == SubSeq(s, 2, Len(s)) IN
    IF t = "incr" THEN
         IF Update < prec THEN [ok |-> TRUE, tree |-> left, rest |-> s, pl |-> pl]
         ELSE IF pl < LHS THEN Fail
         ELSE Suffix(<<"incr", left>>, prec, Update, rest)
    ELSE IF t = "eq" THEN
         IF Assign < prec THEN [ok |-> TRUE, tree |-> left, rest |-> s, pl |-> pl]
         ELSE IF pl < LHS THEN Fail
         ELSE LET r == ParseExpr(Assign, rest) IN IF ~r.ok THEN Fail ELSE Suffix(<<"eq", left, r.tree>>, prec, Assign, r.rest)
    ELSE IF t = "exp" THEN
         IF Exp < prec THEN [ok |-> TRUE, tree |-> left, rest |-> s, pl |-> pl]
         ELSE IF pl < Update THEN Fail
         ELSE LET r == ParseExpr(Exp, rest) IN IF ~r.ok THEN Fail ELSE Suffix(<<"exp", left, r.tree>>, prec, Exp, r.rest)
    ELSE IF t = "nullish" THEN
         IF Coalesce < prec THEN [ok |-> TRUE, tree |-> left, rest |-> s, pl |-> pl]
         ELSE IF pl < BitOr /\ pl # Coalesce THEN Fail
         ELSE LET r == ParseExpr(BitOr, rest) IN IF ~r.ok THEN Fail ELSE Suffix(<<"nullish", left, r.tree>>, prec, Coalesce, r.rest)
    ELSE IF IsBin(t) THEN       \* the left-associative binary operators: operand parsed one level up
         LET lv == LevelOf[t] IN
         IF lv < prec THEN [ok |-> TRUE, tree |-> left, rest |-> s, pl |-> pl]
         ELSE IF pl < lv THEN Fail
         ELSE LET r == ParseExpr(IF DefectAddRightAssoc /\ t = "add" THEN lv ELSE lv + 1, rest) IN
              IF ~r.ok THEN Fail ELSE Suffix(<<t, left, r.tree>>, prec, lv, r.rest)
    ELSE [ok |-> TRUE, tree |-> left, rest |-> s, pl |-> pl]           \* a token that cannot continue an expression

\* a whole expression statement: everything must be consumed
Climb(s) == LET r == ParseExpr(Assign, s) IN IF r.ok /\ r.rest = <<>> THEN {r.tree} ELSE {}

(* ------------------------------------------------------------------------------------------------------------------ *)
VARIABLE s
Init == s \in UNION {[1..n -> Toks] : n \in 1..MaxLen}
Next == UNCHANGED s
Spec == Init /\ [][Next]_s

Unambiguous == Cardinality(D(Assign, s)) <= 1                   \* the ladder is unambiguous
ClimbEqualsLadder == Climb(s) = D(Assign, s)                    \* same language, same tree
=============================================================================
