SPECIFICATION Spec
CONSTANTS
  Names = {"a", "b", "c"}
  MaxItems = 9
  MaxDepth = 4
  Kinds = {"fn", "fx", "ar", "blk", "forlet", "forvar", "forx", "catch", "cls", "cx"}
CHECK_DEADLOCK FALSE
