SPECIFICATION Spec
CONSTANTS
  Cons <- AsgPat
  Terms = {"semi"}
  MaxE = 1
  MaxS = 2
  MaxX = 1
  MaxP = 2
  MaxL = 0
  MaxTop = 1
CHECK_DEADLOCK FALSE
