---------------------------- MODULE WalkTrace ----------------------------
(* Trace specification (kind T) for C18: Enter/Exit sequences recorded from js.Walk, judged against Walk.tla on the *)
(* tree the harness obtained by reflection.                                                                         *)
EXTENDS Walk, TraceIO

VARIABLES l, bad
tvars == <<wvars, l, bad>>
e == Trace[l]
ToSet(s) == {s[k] : k \in DOMAIN s}

TInit == l = 1 /\ bad = FALSE /\ par = <<>> /\ req = {} /\ stack = <<>> /\ entered = {} /\ stopped = {} /\ exited = {}
IsStart == e.ev = "Open"
Returned == e.out = "ret"
Step == CASE e.ev = "Enter" -> Enter(e.id, e.cont)
          [] e.ev = "Exit"  -> Exit(e.id)
          [] e.ev = "Done"  -> Done
          [] OTHER -> FALSE

TStart == l <= NEvents /\ IsStart /\ Open(e.par, ToSet(e.req)) /\ bad' = FALSE /\ l' = l + 1
TStep  == l <= NEvents /\ ~IsStart /\ ~bad /\ Returned /\ Step /\ l' = l + 1 /\ UNCHANGED bad
TFail  == /\ l <= NEvents /\ ~IsStart /\ ~bad /\ ~(Returned /\ ENABLED Step)
          /\ RecordFail(e, l) /\ bad' = TRUE /\ l' = l + 1 /\ UNCHANGED wvars
TSkip  == l <= NEvents /\ ~IsStart /\ bad /\ l' = l + 1 /\ UNCHANGED <<wvars, bad>>
TNext == TStart \/ TStep \/ TFail \/ TSkip
TSpec == TInit /\ [][TNext]_tvars
Accepted == TLCGet("stats").diameter = NEvents + 1
=============================================================================
