---------------------------- MODULE WalkImpl ----------------------------
(***************************************************************************)
(* Implementation-shaped specification (kind I) of js.Walk (js/walk.go):   *)
(* the recursive depth-first traversal -- Enter; if a visitor came back,   *)
(* the children in order, then the deferred Exit -- over EVERY tree of up  *)
(* to NN nodes and EVERY visitor policy (set of nodes where Enter returns  *)
(* nil).  TLC checks I => P (Walk.tla).  With Forget = TRUE one node's     *)
(* case arm omits its last child, and with EarlyExit = TRUE one node's     *)
(* Exit comes before its last child: the models of typical regressions,    *)
(* which P must reject.                                                    *)
(***************************************************************************)
EXTENDS Integers, Sequences, FiniteSets

CONSTANTS NN, Forget, EarlyExit

VARIABLES ipar, istop, ibad,         \* the tree, the policy, the node with the defective arm (0: none)
          frames,                    \* the Go call stack of Walk: [n, k] = walking node n, next child index k
          entered, stopped, exited, started, finished, out
ivars == <<ipar, istop, ibad, frames, entered, stopped, exited, started, finished, out>>

Nodes == 1..Len(ipar)
Kids(n) == {c \in Nodes : ipar[c] = n}
\* children in source order = increasing id
RECURSIVE SortedSeq(_)
SortedSeq(S) == IF S = {} THEN <<>> ELSE LET m == CHOOSE x \in S : \A y \in S : x <= y IN <<m>> \o SortedSeq(S \ {m})
KidSeq(n) == LET ks == SortedSeq(Kids(n)) IN
             IF Forget /\ n = ibad /\ ks # <<>> THEN SubSeq(ks, 1, Len(ks) - 1) ELSE ks

P == INSTANCE Walk WITH par <- ipar, req <- Nodes, stack <- [i \in 1..Len(frames) |-> frames[i].n]

Trees(n) == {p \in [1..n -> 0..(n - 1)] : p[1] = 0 /\ \A i \in 2..n : p[i] >= 1 /\ p[i] < i}

Init == /\ ipar \in UNION {Trees(n) : n \in 1..NN}
        /\ istop \in SUBSET (1..Len(ipar))
        /\ ibad \in (IF Forget \/ EarlyExit THEN 1..Len(ipar) ELSE {0})
        /\ frames = <<>> /\ entered = {} /\ stopped = {} /\ exited = {} /\ started = FALSE /\ finished = FALSE
        /\ out = [op |-> "none"]

EnterNode(n, fr) ==
    /\ entered' = entered \cup {n}
    /\ IF n \in istop
       THEN /\ stopped' = stopped \cup {n} /\ frames' = fr /\ out' = [op |-> "Enter", n |-> n, cont |-> FALSE]
       ELSE /\ stopped' = stopped /\ frames' = Append(fr, [n |-> n, k |-> 1]) /\ out' = [op |-> "Enter", n |-> n, cont |-> TRUE]

Start == ~started /\ started' = TRUE /\ EnterNode(1, <<>>) /\ UNCHANGED <<ipar, istop, ibad, exited, finished>>

Step ==
    /\ started /\ frames # <<>>
    /\ LET top == frames[Len(frames)]
           ks == KidSeq(top.n)
           rest == SubSeq(frames, 1, Len(frames) - 1) IN
       IF top.k <= Len(ks) /\ ~(EarlyExit /\ top.n = ibad /\ top.k = Len(ks) /\ top.n \notin exited)
       THEN /\ EnterNode(ks[top.k], Append(rest, [n |-> top.n, k |-> top.k + 1]))
            /\ UNCHANGED exited
       ELSE IF top.k <= Len(ks)   \* EarlyExit: Exit now, the last child afterwards
       THEN /\ exited' = exited \cup {top.n} /\ out' = [op |-> "Exit", n |-> top.n]
            /\ frames' = frames /\ UNCHANGED <<entered, stopped>>
       ELSE /\ frames' = rest /\ UNCHANGED <<entered, stopped>>
            /\ IF top.n \in exited THEN exited' = exited /\ out' = [op |-> "Skip"]
               ELSE exited' = exited \cup {top.n} /\ out' = [op |-> "Exit", n |-> top.n]
    /\ UNCHANGED <<ipar, istop, ibad, started, finished>>

Finish == started /\ frames = <<>> /\ ~finished /\ finished' = TRUE /\ out' = [op |-> "Done"]
          /\ UNCHANGED <<ipar, istop, ibad, frames, entered, stopped, exited, started>>

Next == Start \/ Step \/ Finish
Spec == Init /\ [][Next]_ivars

o == out'
PStep == CASE o.op = "Enter" -> P!Enter(o.n, o.cont)
           [] o.op = "Exit"  -> P!Exit(o.n)
           [] o.op = "Done"  -> P!Done
           [] o.op = "Skip"  -> UNCHANGED <<entered, stopped, exited>>
           [] OTHER -> FALSE
Refines == [][PStep]_ivars
=============================================================================
