SPECIFICATION Spec
CONSTANTS
  Cons <- CommaPos
  Terms = {"semi"}
  MaxE = 3
  MaxS = 1
  MaxX = 1
  MaxP = 0
  MaxL = 0
  MaxTop = 1
CHECK_DEADLOCK FALSE
