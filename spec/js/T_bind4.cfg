SPECIFICATION Spec
CONSTANTS
  Cons <- BindDeep
  Terms = {"semi"}
  MaxE = 0
  MaxS = 1
  MaxX = 4
  MaxP = 0
  MaxL = 0
  MaxTop = 1
CHECK_DEADLOCK FALSE
