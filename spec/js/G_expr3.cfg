SPECIFICATION Spec
CONSTANTS
  Cons <- ExprReduced
  Terms = {"semi"}
  MaxE = 3
  MaxS = 1
  MaxX = 0
  MaxStack = 3
CHECK_DEADLOCK FALSE
