SPECIFICATION Spec
CONSTANTS
  Plan = "nest"
  MaxNest = 3
  MaxBody = 2
  MaxLen = 6
INVARIANTS EmitInv VocabInv
CHECK_DEADLOCK FALSE
