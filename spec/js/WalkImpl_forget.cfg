SPECIFICATION Spec
CONSTANTS
  NN = 5
  Forget = TRUE
  EarlyExit = FALSE
PROPERTY Refines
CHECK_DEADLOCK FALSE
