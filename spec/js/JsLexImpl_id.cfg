SPECIFICATION Spec
CONSTANTS
  Alphabet = {"letter", "kw_in", "digit", "hash", "uesc4", "uescb", "bslash", "letter_u", "ucont", "uletter"}
  MaxLen = 4
  Emit = TRUE
  ReMode = "grammar"
  Defect = "none"
INVARIANT OneError
INVARIANT MapInv
INVARIANT LevelInv
PROPERTY RefinesTok
PROPERTY Progress
PROPERTY LongestMatch
PROPERTY TokenInvP
PROPERTY Adjacent
PROPERTY NumLang
PROPERTY ReLang
PROPERTY Brackets
PROPERTY DetSound
CHECK_DEADLOCK FALSE
