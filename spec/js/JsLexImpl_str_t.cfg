SPECIFICATION Spec
CONSTANTS
  Alphabet = {"dquote", "squote", "bslash", "nl", "cr", "letter", "uls", "nul"}
  MaxLen = 5
  Emit = TRUE
  ReMode = "grammar"
  Defect = "none"
INVARIANT OneError
INVARIANT MapInv
INVARIANT LevelInv
PROPERTY RefinesTok
PROPERTY Progress
PROPERTY LongestMatch
PROPERTY TokenInvP
PROPERTY Adjacent
PROPERTY NumLang
PROPERTY ReLang
PROPERTY Brackets
PROPERTY DetSound
PROPERTY DetComplete
CHECK_DEADLOCK FALSE
