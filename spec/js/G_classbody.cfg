SPECIFICATION Spec
CONSTANTS
  Cons <- ClassBody
  Terms = {"semi"}
  MaxE = 1
  MaxS = 3
  MaxX = 2
  MaxP = 1
  MaxL = 1
  MaxTop = 1
CHECK_DEADLOCK FALSE
