--------------------------- MODULE JsTokensTrace ---------------------------
(* Trace specification (kind T) for C06: judges the traces of harness/suites/jstok against JsTokens.tla.          *)
(* Open carries what JsTokensGen derived for the input (expected kinds, byte ranges of the units, the token that *)
(* precedes a RegExp() call) or free = TRUE for an input nobody derived; every Tok event is one report of the     *)
(* lexer, End that the driver stopped.  Accepted: every report satisfies TokenInv, and - unless free - the        *)
(* reports are exactly the expected tokens followed by the end of input.  prefix = TRUE (differential replay of    *)
(* JsLexImpl.tla: the expectation is the model's reports up to one that the property-level definition prescribes   *)
(* and the lexer did not deliver): the first reports are exactly the expected tokens; what the lexer reports after  *)
(* them is judged like a free trace.                                                                              *)
EXTENDS JsTokens, TraceIO

VARIABLES exp, idx, free, pfx, l, bad
pvars == <<exp, idx, free, pfx>>
tvars == <<pvars, l, bad>>
e == Trace[l]

TInit == l = 1 /\ bad = FALSE /\ exp = <<>> /\ idx = 1 /\ free = TRUE /\ pfx = FALSE
IsStart == e.ev = "Open"
Returned == e.out = "ret"

Open == /\ exp' = [i \in DOMAIN e.ek |-> [k |-> e.ek[i], lo |-> e.elo[i], hi |-> e.ehi[i], pre |-> e.epre[i]]]
        /\ idx' = 1
        /\ free' = e.free
        /\ pfx' = e.prefix
Tok == /\ e.ev = "Tok"
       /\ TokenInv([kname |-> e.kname, cls |-> e.cls, text |-> e.text, canon |-> e.canon])
       /\ (~free /\ ~(pfx /\ idx > Len(exp)) => Matches(exp, idx, [kname |-> e.kname, err |-> e.err, eof |-> e.eof, lo |-> e.lo, hi |-> e.hi,
                                        same |-> e.same, pre |-> e.pre]))
       /\ idx' = idx + 1
       /\ UNCHANGED <<exp, free, pfx>>

\* the driver stopped calling: unless free, that was after the expected tokens and the end report (prefix: after the expected tokens)
End == /\ e.ev = "End"
       /\ (~free => IF pfx THEN idx > Len(exp) ELSE idx = Len(exp) + 2)
       /\ UNCHANGED pvars
Step == Tok \/ End

TStart == l <= NEvents /\ IsStart /\ Open /\ bad' = FALSE /\ l' = l + 1
TStep  == l <= NEvents /\ ~IsStart /\ ~bad /\ Returned /\ Step /\ l' = l + 1 /\ UNCHANGED bad
TFail  == /\ l <= NEvents /\ ~IsStart /\ ~bad /\ ~(Returned /\ ENABLED Step)
          /\ RecordFail(e, l) /\ bad' = TRUE /\ l' = l + 1 /\ UNCHANGED pvars
TSkip  == l <= NEvents /\ ~IsStart /\ bad /\ l' = l + 1 /\ UNCHANGED <<pvars, bad>>
TNext == TStart \/ TStep \/ TFail \/ TSkip
TSpec == TInit /\ [][TNext]_tvars
Accepted == TLCGet("stats").diameter = NEvents + 1
=============================================================================
