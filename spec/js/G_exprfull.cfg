SPECIFICATION Spec
CONSTANTS
  Cons <- ExprFull
  Terms = {"semi"}
  MaxE = 2
  MaxS = 1
  MaxX = 2
  MaxStack = 3
CHECK_DEADLOCK FALSE
