SPECIFICATION Spec
CONSTANTS
  MaxNest = 3
  Depths = {0, 1, 2, 3}
  Lits = {"tpl", "str", "re", "cmt"}
  StartFams = TRUE
INVARIANTS EmitInv
CHECK_DEADLOCK FALSE
