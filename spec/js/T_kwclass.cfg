SPECIFICATION Spec
CONSTANTS
  Cons <- KwClass
  Terms = {"semi","nl","omit","lt"}
  MaxE = 1
  MaxS = 1
  MaxX = 3
  MaxP = 0
  MaxL = 0
  MaxTop = 1
CHECK_DEADLOCK FALSE
