SPECIFICATION Spec
CONSTANTS
  NN = 5
  Forget = FALSE
  EarlyExit = TRUE
PROPERTY Refines
CHECK_DEADLOCK FALSE
