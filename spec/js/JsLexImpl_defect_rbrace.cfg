SPECIFICATION Spec
CONSTANTS
  Alphabet = {"thead", "rbrace", "backtick", "lbrace"}
  MaxLen = 4
  Emit = FALSE
  ReMode = "grammar"
  Defect = "rbrace_any_level"
INVARIANT OneError
INVARIANT MapInv
INVARIANT LevelInv
PROPERTY RefinesTok
PROPERTY Progress
PROPERTY LongestMatch
PROPERTY TokenInvP
PROPERTY Adjacent
PROPERTY NumLang
PROPERTY ReLang
PROPERTY Brackets
CHECK_DEADLOCK FALSE
