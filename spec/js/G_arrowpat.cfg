SPECIFICATION Spec
CONSTANTS
  Cons <- ArrowPat
  Terms = {"semi"}
  MaxE = 2
  MaxS = 1
  MaxX = 3
  MaxP = 1
  MaxL = 1
  MaxTop = 1
CHECK_DEADLOCK FALSE
