SPECIFICATION Spec
CONSTANTS
  Cons <- KwCons
  Terms = {"semi","nl"}
  MaxE = 1
  MaxS = 2
  MaxX = 2
  MaxP = 0
  MaxL = 1
  MaxTop = 2
CHECK_DEADLOCK FALSE
