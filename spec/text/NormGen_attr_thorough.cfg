SPECIFICATION Spec
CONSTANTS
  Kind = "attr"
  MaxLen = 6
  FullLen = 99
INVARIANT Emit
CHECK_DEADLOCK FALSE
