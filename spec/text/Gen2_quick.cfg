SPECIFICATION Spec
CONSTANTS
  Tier = "quick"
  Fams = {"esc", "quote", "print", "byte", "copy", "indent", "jsid", "jsnum", "cssid", "cssurl", "lenuint", "unitab"}
INVARIANT Emit
CHECK_DEADLOCK FALSE
