SPECIFICATION Spec
CONSTANTS
  Kind = "ws"
  MaxLen = 8
  FullLen = 99
INVARIANT Emit
CHECK_DEADLOCK FALSE
