SPECIFICATION Spec
CONSTANTS
  Fam = "text"
  MaxLen = 6
INVARIANT Emit
CHECK_DEADLOCK FALSE
