----------------------------- MODULE Normalise -----------------------------
(***************************************************************************)
(* Property-level specification (kind P) for C17: whitespace, entity and   *)
(* attribute normalisation preserves meaning.                              *)
(*                                                                         *)
(* Written from the property statement and the doc comments of             *)
(* parse.ReplaceMultipleWhitespace / ReplaceEntities /                     *)
(* ReplaceMultipleWhitespaceAndEntities, html.EscapeAttrVal,               *)
(* xml.EscapeAttrVal and xml.EscapeCDATAVal - not from their control flow. *)
(*                                                                         *)
(* Texts are sequences of byte values.  One "history" is: an input is      *)
(* fixed (New), then any number of calls on *copies* of that input are     *)
(* observed.  Every action takes the observed results as parameters and is *)
(* enabled exactly when the statement allows them; nothing changes the     *)
(* state (the functions are pure from the caller's point of view: they get *)
(* a private copy).  The clauses are named so that the trace spec can say  *)
(* which one rejected an observation.                                      *)
(*                                                                         *)
(* HTML decoding is not re-defined here: the statement names it as the     *)
(* reference, and the harness logs html.UnescapeString (Go standard        *)
(* library) of the input and of the output as observed facts (di/do).      *)
(***************************************************************************)
EXTENDS Integers, Sequences, FiniteSets

VARIABLES inp,   \* the input text (byte values)
          par    \* [cfg, lang, oq, mq]: entity-map configuration, "html"/"xml", original quote (0, 39, 34), mustQuote
nvars == <<inp, par>>

SP == 32
NL == 10
AMP == 38
DQ == 34
SQ == 39
WS == {32, 9, 10, 12, 13}       \* space, tab, newline, form feed, carriage return
Break == {10, 13}               \* line breaks
IsWS(c) == c \in WS

(* ---------------------------------------------------------------------- *)
(* ReplaceMultipleWhitespace, by definition: every maximal run of          *)
(* whitespace is replaced by one space, or by one newline if the run       *)
(* contained a line break; nothing else changes.                           *)
(* ---------------------------------------------------------------------- *)
RunStart(s, i) == IsWS(s[i]) /\ (i = 1 \/ ~IsWS(s[i - 1]))
\* last index of the maximal run that starts at i
RunEnd(s, i) == CHOOSE j \in i..Len(s) : /\ \A k \in i..j : IsWS(s[k])
                                          /\ (j = Len(s) \/ ~IsWS(s[j + 1]))
\* positions that survive: every non-whitespace byte and the first byte of every run
Kept(s) == {i \in 1..Len(s) : ~IsWS(s[i]) \/ RunStart(s, i)}
Nth(S, n) == CHOOSE i \in S : Cardinality({j \in S : j < i}) = n - 1
RMW(s) == LET K == Kept(s)
          IN [n \in 1..Cardinality(K) |->
                LET i == Nth(K, n)
                IN IF IsWS(s[i])
                   THEN (IF \E k \in i..RunEnd(s, i) : s[k] \in Break THEN NL ELSE SP)
                   ELSE s[i]]

(* ---------------------------------------------------------------------- *)
(* Entities                                                                *)
(* ---------------------------------------------------------------------- *)
Digit(c) == c \in 48..57
Hex(c)   == Digit(c) \/ c \in 65..70 \/ c \in 97..102
Alnum(c) == Digit(c) \/ c \in 65..90 \/ c \in 97..122

\* the input contains a complete numeric reference to NUL: &#0; &#00; &#x0; &#X000; ...
RefsNUL(s) ==
    \E i \in 1..Len(s) :
        /\ s[i] = AMP /\ i + 2 <= Len(s) /\ s[i + 1] = 35
        /\ LET hex    == s[i + 2] \in {120, 88}
               d0     == IF hex THEN i + 3 ELSE i + 2
               IsD(c) == IF hex THEN Hex(c) ELSE Digit(c)
               run    == {k \in d0..Len(s) : \A m \in d0..k : IsD(s[m])}
           IN /\ run # {}
              /\ \A k \in run : s[k] = 48
              /\ Cardinality(run) + d0 <= Len(s)
              /\ s[Cardinality(run) + d0] = 59

(* Shapes of an input, used only to *name* a rejected observation (mechanism signature), never to accept one. *)
\* two references abut: '&' ... '&' with nothing but reference characters in between, so that what one
\* replacement writes can complete what precedes or follows it
RefCh(c) == Alnum(c) \/ c \in {35, 59}
RefsAbut(s) == \E i \in 1..Len(s) : \E j \in (i + 1)..Len(s) :
                   s[i] = AMP /\ s[j] = AMP /\ \A k \in (i + 1)..(j - 1) : RefCh(s[k])
\* a numeric reference with more than 8 digits (beyond any code point; implementations' accumulators overflow)
LongNum(s) == \E i \in 1..Len(s) :
                  /\ s[i] = AMP /\ i + 10 <= Len(s) /\ s[i + 1] = 35
                  /\ LET d0 == IF s[i + 2] \in {120, 88} THEN i + 3 ELSE i + 2
                     IN d0 + 8 <= Len(s) /\ \A k \in d0..(d0 + 8) : Hex(s[k])
Shape(s) == IF LongNum(s) THEN "numeric-overflow" ELSE IF RefsAbut(s) THEN "refs-abut" ELSE "other"

\* ReplaceEntities(in) = out, ReplaceEntities(out) = again, di/do = HTML-decoded in/out, g = nothing outside the argument was written
RE_Len(out)        == Len(out) <= Len(inp)
RE_Idem(out, ag)   == ag = out
RE_Decoded(di, do) == RefsNUL(inp) \/ do = di
REOp(out, ag, di, do, g) ==
    /\ g /\ RE_Len(out) /\ RE_Decoded(di, do) /\ RE_Idem(out, ag)
    /\ UNCHANGED nvars

\* ReplaceMultipleWhitespace(in) = out
RMWOp(out, g) == g /\ out = RMW(inp) /\ UNCHANGED nvars

\* the combined function equals applying the two in sequence; the statement does not fix the order
\* (they do not commute: a replaced reference may be whitespace), so either order is allowed.
\* s1 = RE(RMW(in)), s2 = RMW(RE(in)) as observed on the same code.
CombOp(c, s1, s2, g) == g /\ (c = s1 \/ c = s2) /\ UNCHANGED nvars

(* ---------------------------------------------------------------------- *)
(* Attribute values                                                        *)
(* ---------------------------------------------------------------------- *)
\* characters that end or break an unquoted attribute value: whitespace, quotes, '=', '<', '>', '`'
Unsafe == WS \cup {34, 39, 61, 60, 62, 96}
Safe(v) == \A k \in 1..Len(v) : v[k] \notin Unsafe
Count(v, c) == Cardinality({k \in 1..Len(v) : v[k] = c})
Quoted(r) == Len(r) >= 2 /\ r[1] \in {DQ, SQ} /\ r[Len(r)] = r[1]
Strip(r) == SubSeq(r, 2, Len(r) - 1)
Other(q) == IF q = DQ THEN SQ ELSE DQ
\* XML 1.0 3.3.3: literal tab/newline/carriage return in an attribute value are read as a space
XNorm(s) == [k \in 1..Len(s) |-> IF s[k] \in {9, 10, 13} THEN 32 ELSE s[k]]

\* token kinds as logged by the harness
StartTag == 1
Attribute == 2
StartTagClose == 3
Text == 4
EndTag == 5

\* read back by the corresponding lexer from  <a x=RESULT>  as exactly one attribute x
A_Tokens(tk, kx) == tk = <<StartTag, Attribute, StartTagClose>> /\ kx
\* rb = the attribute value the lexer returned, drb = rb decoded, dv = the original value decoded
A_ReadBack(rb, drb, dv) ==
    LET u == IF Quoted(rb) THEN Strip(drb) ELSE drb
    IN IF par.lang = "xml" THEN XNorm(u) = XNorm(dv) ELSE u = dv
\* html.EscapeAttrVal's documentation: "returns the escaped attribute value bytes with quotes. Either single or
\* double quotes are used, whichever is shorter. If there are no quotes present in the value and the value is in
\* HTML (not XML), it will return the value without quotes."
\*   - left unquoted only if that is readable at all (no whitespace, quotes, = < > `) and keeping the quotes
\*     was not requested (mustQuote with an original quote to keep);
\*   - a value that needs no quotes, in HTML (mustQuote = FALSE), is returned without quotes;
\*   - when the original quote does not occur in the value, it is kept;
\*   - the quote used is the one that needs fewer escapes ("whichever is shorter").
Requested == par.mq /\ par.oq # 0
A_UnquotedOnlyIf(r) == ~Quoted(r) => (r = inp /\ Safe(inp) /\ ~Requested)
A_UnquotedIf(r)     == (Safe(inp) /\ ~par.mq) => ~Quoted(r)
A_KeepsQuote(r)     == (Quoted(r) /\ par.oq # 0 /\ Count(inp, par.oq) = 0) => r[1] = par.oq
A_Cheaper(r)        == Quoted(r) => Count(inp, r[1]) <= Count(inp, Other(r[1]))
A_Doc(r) == IF par.lang = "html"
            THEN A_UnquotedOnlyIf(r) /\ A_UnquotedIf(r) /\ A_KeepsQuote(r) /\ A_Cheaper(r)
            ELSE TRUE   \* xml.EscapeAttrVal documents nothing about the choice
EscOp(r, tk, kx, rb, drb, dv, g) ==
    /\ g /\ A_Tokens(tk, kx) /\ A_ReadBack(rb, drb, dv) /\ A_Doc(r)
    /\ UNCHANGED nvars

\* xml.EscapeCDATAVal: either declines (the input comes back, flag false) or returns text - character data that
\* the XML lexer reads from <a>TEXT</a> as that one text - which un-escapes (ur) to the input
C_Declined(r)      == r = inp
C_Text(r, tk, tx)  == tx = r /\ tk = (IF r = <<>> THEN <<StartTag, StartTagClose, EndTag>>
                                                   ELSE <<StartTag, StartTagClose, Text, EndTag>>)
C_Unescapes(ur)    == ur = inp
CDataOp(r, used, ur, tk, tx, g) ==
    /\ g
    /\ IF used THEN C_Text(r, tk, tx) /\ C_Unescapes(ur) ELSE C_Declined(r)
    /\ UNCHANGED nvars

New(in, p) == inp' = in /\ par' = p

Inv == TRUE
=============================================================================
