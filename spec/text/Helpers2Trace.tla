---------------------------- MODULE Helpers2Trace ----------------------------
(***************************************************************************)
(* Trace specification (kind T) for the growth specification Helpers2.tla: *)
(* every event recorded from the real functions must be a step of          *)
(* Helpers2.tla.  A trace is the constructor event New{fam, s, ...}        *)
(* followed by the calls made on that argument (for an Indenter: the Write *)
(* calls in order, then what reached the underlying writer, Indent() and   *)
(* the counts the Write calls returned).                                   *)
(***************************************************************************)
EXTENDS Helpers2, TraceIO

VARIABLES l, bad
tvars == <<h2vars, l, bad>>

e == Trace[l]

TInit == /\ l = 1 /\ bad = FALSE
         /\ inp = <<>> /\ aux = [fam |-> "none"]

IsStart == e.ev = "New"

\* the property-level action that has to explain the current event
Step ==
    CASE e.ev = "AppendEscape"     -> AppendEscape(e.r, e.sAfter)
      [] e.ev = "QuoteEntity"      -> QuoteEntity(e.q, e.n)
      [] e.ev = "Printable"        -> Printable(e.o, e.og)
      [] e.ev = "IsWhitespace"     -> IsWhitespace(e.r)
      [] e.ev = "IsNewline"        -> IsNewline(e.r)
      [] e.ev = "Copy"             -> Copy(e.r, e.alias, e.sAfter)
      [] e.ev = "Write"            -> Write(e.p)
      [] e.ev = "Out"              -> Out(e.o, e.whole)
      [] e.ev = "Indent"           -> Indent(e.r)
      [] e.ev = "WriteCounts"      -> WriteCounts(e.rets, e.lens, e.errs)
      [] e.ev = "AsIdentifierName" -> AsIdentifierName(e.r)
      [] e.ev = "AsDecimalLiteral" -> AsDecimalLiteral(e.r)
      [] e.ev = "IsIdentifierStart"    -> IsIdentifierStart(e.r)
      [] e.ev = "IsIdentifierContinue" -> IsIdentifierContinue(e.r)
      [] e.ev = "IsIdentifierEnd"      -> IsIdentifierEnd(e.r)
      [] e.ev = "IsIdent"          -> IsIdent(e.r)
      [] e.ev = "IsURLUnquoted"    -> IsURLUnquoted(e.r)
      [] e.ev = "LenUint"          -> LenUint(e.r)
      [] OTHER                     -> FALSE

\* a call that did not return normally (panic) is explained by no action at all
Returned == IF Has(e, "out") THEN e.out = "ret" ELSE TRUE

TStart == /\ l <= NEvents /\ IsStart
          /\ New(e)
          /\ bad' = FALSE /\ l' = l + 1
TStep  == /\ l <= NEvents /\ ~IsStart /\ ~bad
          /\ Returned /\ Step
          /\ l' = l + 1 /\ UNCHANGED bad
TFail  == /\ l <= NEvents /\ ~IsStart /\ ~bad
          /\ ~(Returned /\ ENABLED Step)
          /\ RecordFail(e, l)
          /\ bad' = TRUE /\ l' = l + 1 /\ UNCHANGED h2vars
TSkip  == /\ l <= NEvents /\ ~IsStart /\ bad
          /\ l' = l + 1 /\ UNCHANGED <<h2vars, bad>>

TNext == TStart \/ TStep \/ TFail \/ TSkip
TSpec == TInit /\ [][TNext]_tvars

TInv == bad \/ Inv
Done == Consumed(l)
Accepted == TLCGet("stats").diameter = NEvents + 1
=============================================================================
