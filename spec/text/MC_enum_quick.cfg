SPECIFICATION Spec
CONSTANTS
  Mode = "enum"
  MaxLen = 4
  RunClasses = {1, 3}
  XClasses = {1, 2, 3, 4, 5, 6, 7, 8, 9, 10}
  Counts = {0, 1, 19, 20, 21, 39, 40, 41, 56, 57, 58, 59, 60, 61, 80}
  LineCounts = {}
  Emit = TRUE
INVARIANT EmitInv
INVARIANT AgreeInv
CHECK_DEADLOCK FALSE
