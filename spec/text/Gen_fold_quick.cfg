SPECIFICATION Spec
CONSTANTS
  Fam = "fold"
  MaxLen = 2
INVARIANT Emit
CHECK_DEADLOCK FALSE
