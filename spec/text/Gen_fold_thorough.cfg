SPECIFICATION Spec
CONSTANTS
  Fam = "fold"
  MaxLen = 3
INVARIANT Emit
CHECK_DEADLOCK FALSE
