------------------------------ MODULE Helpers2 ------------------------------
(***************************************************************************)
(* GROWTH specification (DESIGN.md section 7 item 5), kind P: public       *)
(* helpers that none of the twenty listed properties mentions.             *)
(*                                                                         *)
(*   parse   AppendEscape, QuoteEntity, Printable, IsWhitespace, IsNewline, *)
(*           Copy, NewIndenter/Indenter.Write/Indent                       *)
(*   js      AsIdentifierName, AsDecimalLiteral, IsIdentifierStart /      *)
(*           Continue / End                                                *)
(*   css     IsIdent, IsURLUnquoted                                        *)
(*   strconv LenUint  (LenInt, AppendInt, ParseInt, ParseUint are covered  *)
(*           by spec/strconv/Numeric.tla, property C14)                    *)
(*                                                                         *)
(* Every definition transcribes the function's doc comment and the         *)
(* standard it refers to (ECMAScript 2020, the edition js/README.md names; *)
(* CSS Syntax Level 3 section 4; the HTML and XML character references;    *)
(* the contract of io.Writer), never the Go control flow.  Where neither   *)
(* says anything, the action accepts every result ("open").  Two functions *)
(* have NO doc comment at all (AppendEscape, Indenter): what is demanded   *)
(* of them is stated at their definitions below together with its source.  *)
(*                                                                         *)
(* Same shape as Helpers.tla: texts are sequences of byte values, the      *)
(* state is the argument (inp) plus the constructor event (aux: further    *)
(* arguments and facts the harness vouches for), every action takes the    *)
(* observed result as parameter and is enabled exactly on allowed results. *)
(* A disagreement found with this module is reported as "beyond property", *)
(* never as a violation of C16.                                            *)
(***************************************************************************)
EXTENDS Integers, Sequences, FiniteSets

VARIABLES inp,   \* the byte-string argument (for Indenter: the text written so far)
          aux    \* the constructor event
h2vars == <<inp, aux>>

(* ------------------------------ bytes ------------------------------ *)
Dig(b)    == b >= 48 /\ b <= 57
Upper(b)  == b >= 65 /\ b <= 90
Lower(b)  == b >= 97 /\ b <= 122
Alpha(b)  == Upper(b) \/ Lower(b)
HexD(b)   == Dig(b) \/ (b >= 65 /\ b <= 70) \/ (b >= 97 /\ b <= 102)
HexVal(b) == IF Dig(b) THEN b - 48 ELSE IF b <= 70 THEN b - 55 ELSE b - 87
HexDigit(v) == IF v < 10 THEN 48 + v ELSE 55 + v            \* upper case
IsBytes(s) == \A i \in 1..Len(s) : s[i] \in 0..255
BAt(s, i)  == IF i >= 1 /\ i <= Len(s) THEN s[i] ELSE -1     \* -1: past either end
IsPrefix(p, s) == Len(p) <= Len(s) /\ SubSeq(s, 1, Len(p)) = p
StartsAt(s, i, p) == i >= 1 /\ i + Len(p) - 1 <= Len(s) /\ SubSeq(s, i, i + Len(p) - 1) = p
HasByte(s, b) == \E i \in 1..Len(s) : s[i] = b
Spaces(n) == [i \in 1..n |-> 32]
\* regular expressions as functions on sets of positions (position p: the first p-1 symbols are consumed)
POne(s, P, C)  == { p + 1 : p \in { q \in P : q <= Len(s) /\ s[q] \in C } }
PDigits1(s, P) == { j \in 2..(Len(s) + 1) : \E p \in P : p < j /\ \A k \in p..(j - 1) : Dig(s[k]) }

(* ============================== parse.AppendEscape ============================== *)
(* No doc comment.  Demanded (from the name, the signature and the package's own example table TestAppendEscape:    *)
(* foo\bar -> foo\\bar, "foobar" -> \"foobar\" with chars = {"} and escape = \): the result is b followed by str in  *)
(* which every byte that occurs in chars, and every escape byte, is preceded by one escape byte; str is not modified. *)
EscSet(chars, esc) == { chars[i] : i \in 1..Len(chars) } \cup {esc}
EscOff(str, E, i) == (i - 1) + Cardinality({ k \in 1..(i - 1) : str[k] \in E })
EscapeOK(str, chars, esc, r) ==
    LET E == EscSet(chars, esc) IN
    /\ Len(r) = EscOff(str, E, Len(str) + 1)
    /\ \A i \in 1..Len(str) :
          LET piece == SubSeq(r, EscOff(str, E, i) + 1, EscOff(str, E, i + 1))
          IN  piece = IF str[i] \in E THEN <<esc, str[i]>> ELSE <<str[i]>>
\* the same, constructively (used by the generator; the generator asserts EscapeOK of it)
RECURSIVE EscFrom(_, _, _, _)
EscFrom(str, E, esc, i) ==
    IF i > Len(str) THEN <<>>
    ELSE (IF str[i] \in E THEN <<esc, str[i]>> ELSE <<str[i]>>) \o EscFrom(str, E, esc, i + 1)
Escaped(str, chars, esc) == EscFrom(str, EscSet(chars, esc), esc, 1)

(* ============================== parse.QuoteEntity ============================== *)
(* "QuoteEntity parses the given byte slice and returns the quote that got matched (' or ") and its entity length."   *)
(* The character references of a quote, common to XML 1.0 (4.1, 4.6) and HTML (13.5 / 13.2.5.72-80):                   *)
(*    &quot;  &apos;  &#34;  &#39;  &#x22;  &#x27;   with any number of leading zeros in the numeric ones.             *)
(* They must be reported with the length of the reference; any text behind the reference is irrelevant.               *)
(* Spellings on which XML and HTML differ are open (either "not an entity" or the quote with the spelling's length):  *)
(* &#X22; (upper-case X: HTML only), a numeric reference or &quot without its semicolon (HTML: parse error but         *)
(* decoded; XML: not a reference), &QUOT; / &QUOT (HTML's table only).  Everything else is not a quote: (0, 0).        *)
DQ == 34  SQ == 39  SEMI == 59
PreDec == <<38, 35>>            \* &#
PreHex == <<38, 35, 120>>       \* &#x
PreHEX == <<38, 35, 88>>        \* &#X
ZeroRun(s, i) == Cardinality({ j \in i..Len(s) : \A k \in i..j : s[k] = 48 })
\* s begins with  pre 0* code  and continues with the byte set `then` (-1: end of text)
NumRef(s, pre, code, then) ==
    /\ IsPrefix(pre, s)
    /\ LET z == ZeroRun(s, Len(pre) + 1) IN StartsAt(s, Len(pre) + 1 + z, code) /\ BAt(s, Len(pre) + z + Len(code) + 1) \in then
NumRefLen(s, pre, code) == Len(pre) + ZeroRun(s, Len(pre) + 1) + Len(code)     \* without the semicolon
NotDec == (-1..255) \ ({SEMI} \cup (48..57))
NotHex == (-1..255) \ ({SEMI} \cup (48..57) \cup (65..70) \cup (97..102))
NamedRef(s, name, then) == IsPrefix(<<38>> \o name, s) /\ BAt(s, Len(name) + 2) \in then
NotSemi == (-1..255) \ {SEMI}
QUOTn == <<113, 117, 111, 116>>  APOSn == <<97, 112, 111, 115>>  QUOTu == <<81, 85, 79, 84>>
C34 == <<51, 52>>  C39 == <<51, 57>>  C22 == <<50, 50>>  C27 == <<50, 55>>
No == {<<0, 0>>}
\* the set of allowed results (quote, n)
QuoteAllowed(s) ==
    CASE NamedRef(s, QUOTn, {SEMI})        -> {<<DQ, 6>>}
      [] NamedRef(s, APOSn, {SEMI})        -> {<<SQ, 6>>}
      [] NumRef(s, PreDec, C34, {SEMI})    -> {<<DQ, NumRefLen(s, PreDec, C34) + 1>>}
      [] NumRef(s, PreDec, C39, {SEMI})    -> {<<SQ, NumRefLen(s, PreDec, C39) + 1>>}
      [] NumRef(s, PreHex, C22, {SEMI})    -> {<<DQ, NumRefLen(s, PreHex, C22) + 1>>}
      [] NumRef(s, PreHex, C27, {SEMI})    -> {<<SQ, NumRefLen(s, PreHex, C27) + 1>>}
      \* ---- open spellings
      [] NumRef(s, PreHEX, C22, {SEMI})    -> No \cup {<<DQ, NumRefLen(s, PreHEX, C22) + 1>>}
      [] NumRef(s, PreHEX, C27, {SEMI})    -> No \cup {<<SQ, NumRefLen(s, PreHEX, C27) + 1>>}
      [] NumRef(s, PreDec, C34, NotDec)    -> No \cup {<<DQ, NumRefLen(s, PreDec, C34)>>}
      [] NumRef(s, PreDec, C39, NotDec)    -> No \cup {<<SQ, NumRefLen(s, PreDec, C39)>>}
      [] NumRef(s, PreHex, C22, NotHex)    -> No \cup {<<DQ, NumRefLen(s, PreHex, C22)>>}
      [] NumRef(s, PreHex, C27, NotHex)    -> No \cup {<<SQ, NumRefLen(s, PreHex, C27)>>}
      [] NumRef(s, PreHEX, C22, NotHex)    -> No \cup {<<DQ, NumRefLen(s, PreHEX, C22)>>}
      [] NumRef(s, PreHEX, C27, NotHex)    -> No \cup {<<SQ, NumRefLen(s, PreHEX, C27)>>}
      [] NamedRef(s, QUOTn, NotSemi)       -> No \cup {<<DQ, 5>>}
      [] NamedRef(s, QUOTu, {SEMI})        -> No \cup {<<DQ, 6>>}
      [] NamedRef(s, QUOTu, NotSemi)       -> No \cup {<<DQ, 5>>}
      [] OTHER                             -> No

(* ============================== parse.Printable ============================== *)
(* "Printable returns a printable string for given rune".  Demanded from that sentence: the result is not empty and   *)
(* every rune of it is graphic (facts logged by the harness from package unicode: graphic = unicode.IsGraphic(r),     *)
(* og = all runes of the result are valid and graphic).  Demanded from the package's example table (TestPrintable:    *)
(* a -> a, U+0800 -> itself, 0x00 -> 0x00, 0x7F -> 0x7F, U+200F -> U+200F): a graphic rune is returned as itself; a     *)
(* non-graphic code point as 0xXX below 128 and as U+XXXX above (upper-case hex, at least 2 / 4 digits).              *)
ValidRune(r) == r >= 0 /\ r <= 1114111 /\ ~(r >= 55296 /\ r <= 57343)
Utf8(r) == IF r < 128 THEN <<r>>
           ELSE IF r < 2048 THEN <<192 + r \div 64, 128 + (r % 64)>>
           ELSE IF r < 65536 THEN <<224 + r \div 4096, 128 + ((r \div 64) % 64), 128 + (r % 64)>>
           ELSE <<240 + r \div 262144, 128 + ((r \div 4096) % 64), 128 + ((r \div 64) % 64), 128 + (r % 64)>>
RECURSIVE HexText(_, _)      \* upper-case hexadecimal text of v >= 0 with at least k digits
HexText(v, k) == IF v < 16 /\ k <= 1 THEN <<HexDigit(v)>> ELSE HexText(v \div 16, k - 1) \o <<HexDigit(v % 16)>>
CodeText(r) == IF r < 128 THEN <<48, 120>> \o HexText(r, 2) ELSE <<85, 43>> \o HexText(r, 4)
PrintableOK(r, graphic, o, og) ==
    /\ Len(o) > 0 /\ og
    /\ (graphic /\ ValidRune(r)) => o = Utf8(r)
    /\ (~graphic /\ r >= 0 /\ r <= 1114111) => o = CodeText(r)

(* ============================== parse.IsWhitespace / IsNewline ============================== *)
(* "IsWhitespace returns true for space, \n, \r, \t, \f."   "IsNewline returns true for \n, \r."  (and false otherwise) *)
WSByte(c) == c \in {32, 10, 13, 9, 12}
NLByte(c) == c \in {10, 13}

(* ============================== parse.Indenter ============================== *)
(* No doc comment.  NewIndenter(w, n) wraps an io.Writer; what js/ast.go relies on (BlockStmt.JS writes "{" to w, then  *)
(* "\n" and each statement through the indenter) is: every line that is begun through the indenter is prefixed by n   *)
(* spaces.  Whether the very first line (begun before / at the first Write) and an empty last line (a trailing        *)
(* newline with nothing behind it yet) get the prefix is not promised by anything: all four readings are allowed.     *)
(* Demanded besides: the output is a function of the bytes written, not of how they were cut into Write calls         *)
(* (io.Writer is a byte stream); an indenter built on an indenter indents by the sum; Indent() is that amount;        *)
(* and io.Writer's contract for the count: "Write returns the number of bytes written from p (0 <= n <= len(p))",     *)
(* "must return a non-nil error if it returns n < len(p)".                                                            *)
RECURSIVE IndFrom(_, _, _, _)
IndFrom(text, n, trail, i) ==
    IF i > Len(text) THEN <<>>
    ELSE IF text[i] = 10 /\ (i < Len(text) \/ trail) THEN <<10>> \o Spaces(n) \o IndFrom(text, n, trail, i + 1)
    ELSE <<text[i]>> \o IndFrom(text, n, trail, i + 1)
Indented(text, n, first, trail) == (IF first /\ Len(text) > 0 THEN Spaces(n) ELSE <<>>) \o IndFrom(text, n, trail, 1)
IndentedSet(text, n) == { Indented(text, n, f, t) : f \in BOOLEAN, t \in BOOLEAN }
WriteCountsOK(rets, lens, errs) ==
    /\ Len(rets) = Len(lens) /\ Len(errs) = Len(lens)
    /\ \A k \in 1..Len(lens) : rets[k] >= 0 /\ rets[k] <= lens[k] /\ (~errs[k] => rets[k] = lens[k])

(* ============================== UTF-8 ============================== *)
\* the code points of s; a byte that is not part of a well-formed encoding (RFC 3629: no overlong forms, no
\* surrogates, nothing above U+10FFFF) is the pseudo code point -1
Cont(b) == b >= 128 /\ b <= 191
RECURSIVE CodePointsFrom(_, _)
CodePointsFrom(s, i) ==
    IF i > Len(s) THEN <<>>
    ELSE LET b == s[i]  b1 == BAt(s, i + 1)  b2 == BAt(s, i + 2)  b3 == BAt(s, i + 3)
             c2 == (b - 192) * 64 + (b1 - 128)
             c3 == (b - 224) * 4096 + (b1 - 128) * 64 + (b2 - 128)
             c4 == (b - 240) * 262144 + (b1 - 128) * 4096 + (b2 - 128) * 64 + (b3 - 128)
         IN  IF b < 128 THEN <<b>> \o CodePointsFrom(s, i + 1)
             ELSE IF b >= 194 /\ b <= 223 /\ Cont(b1) THEN <<c2>> \o CodePointsFrom(s, i + 2)
             ELSE IF b >= 224 /\ b <= 239 /\ Cont(b1) /\ Cont(b2) /\ c3 >= 2048 /\ ~(c3 >= 55296 /\ c3 <= 57343)
                  THEN <<c3>> \o CodePointsFrom(s, i + 3)
             ELSE IF b >= 240 /\ b <= 244 /\ Cont(b1) /\ Cont(b2) /\ Cont(b3) /\ c4 >= 65536 /\ c4 <= 1114111
                  THEN <<c4>> \o CodePointsFrom(s, i + 4)
             ELSE <<-1>> \o CodePointsFrom(s, i + 1)
CodePoints(s) == CodePointsFrom(s, 1)

(* ============================== js.AsIdentifierName ============================== *)
(* "AsIdentifierName returns true if a valid identifier name is given."  ECMAScript 2020, 11.6 Names and Keywords:     *)
(*    IdentifierName  :: IdentifierStart | IdentifierName IdentifierPart                                              *)
(*    IdentifierStart :: UnicodeIDStart | $ | _ | \ UnicodeEscapeSequence                                             *)
(*    IdentifierPart  :: UnicodeIDContinue | $ | \ UnicodeEscapeSequence | <ZWNJ> | <ZWJ>                              *)
(*    UnicodeEscapeSequence :: u Hex4Digits | u{ CodePoint }      (CodePoint: hex digits, value <= 0x10FFFF)           *)
(* with the early error of 11.6.1.1: the code point an escape denotes must itself be allowed at that place.           *)
(* ID_Start / ID_Continue of the non-ASCII code points are Unicode data: the specification carries a sample           *)
(* (DerivedCoreProperties.txt; the harness checks the sample against Go's unicode tables) and is silent about every    *)
(* other non-ASCII code point (the argument is then "not determined").                                                *)
IDStartSample    == {233, 960, 8472, 119964, 20013, 170, 181}     \* e-acute pi U+2118 U+1D49C U+4E2D U+00AA U+00B5
IDContOnlySample == {768, 8255, 183, 1632}                       \* U+0300 (Mn) U+203F (Pc) U+00B7 (Other_ID_Continue) U+0660 (Nd)
NotIDSample      == {8232, 160, 215, 247, 65533, 8364, 128512, 12288}    \* U+2028 nbsp x-sign division U+FFFD euro U+1F600 U+3000
ZWNJ == 8204  ZWJ == 8205
KnownCP(c) == \/ c < 128 \/ c > 1114111 \/ (c >= 55296 /\ c <= 57343)
              \/ c \in IDStartSample \cup IDContOnlySample \cup NotIDSample \cup {ZWNJ, ZWJ}
IDStartCP(c) == (c >= 0 /\ c < 128 /\ Alpha(c)) \/ c \in IDStartSample
IDContCP(c)  == IDStartCP(c) \/ (c >= 0 /\ c < 128 /\ (Dig(c) \/ c = 95)) \/ c \in IDContOnlySample
StartChar(c) == IDStartCP(c) \/ c \in {36, 95}
PartChar(c)  == IDContCP(c) \/ c \in {36, ZWNJ, ZWJ}
HexCP(c) == c >= 0 /\ c < 128 /\ HexD(c)
CAtP(cps, i) == IF i >= 1 /\ i <= Len(cps) THEN cps[i] ELSE -2
RECURSIVE HexSat(_, _, _, _)    \* value of the hex digits cps[i..j], saturating just above U+10FFFF
HexSat(cps, i, j, acc) ==
    IF i > j THEN acc
    ELSE LET v == acc * 16 + HexVal(cps[i]) IN HexSat(cps, i + 1, j, IF v > 1114111 THEN 1114112 ELSE v)
NoEsc == [n |-> 0, v |-> 0]
\* the UnicodeEscapeSequence (with its backslash) that begins at i: number of code points it spans (0: none) and its value
UEsc(cps, i) ==
    IF ~(CAtP(cps, i) = 92 /\ CAtP(cps, i + 1) = 117) THEN NoEsc
    ELSE IF CAtP(cps, i + 2) = 123
         THEN LET close == { j \in (i + 4)..Len(cps) : cps[j] = 125 /\ \A k \in (i + 3)..(j - 1) : HexCP(cps[k]) }
              IN  IF close = {} THEN NoEsc
                  ELSE LET j == CHOOSE x \in close : TRUE IN [n |-> j - i + 1, v |-> HexSat(cps, i + 3, j - 1, 0)]
    ELSE IF \A k \in (i + 2)..(i + 5) : HexCP(CAtP(cps, k)) THEN [n |-> 6, v |-> HexSat(cps, i + 2, i + 5, 0)]
    ELSE NoEsc
Allowed(start, c) == IF start THEN StartChar(c) ELSE PartChar(c)
\* number of code points of the IdentifierStart (start) / IdentifierPart at i; 0: none
ItemLen(cps, i, start) ==
    IF cps[i] = 92 THEN LET e == UEsc(cps, i) IN IF e.n > 0 /\ Allowed(start, e.v) THEN e.n ELSE 0
    ELSE IF Allowed(start, cps[i]) THEN 1 ELSE 0
RECURSIVE AllParts(_, _)
AllParts(cps, i) == i > Len(cps) \/ (LET n == ItemLen(cps, i, FALSE) IN n > 0 /\ AllParts(cps, i + n))
IsIdentifierNameCP(cps) == Len(cps) > 0 /\ (LET n == ItemLen(cps, 1, TRUE) IN n > 0 /\ AllParts(cps, 1 + n))
IsIdentifierName(s) == IsIdentifierNameCP(CodePoints(s))
JsIdDeterminedCP(cps) == \A i \in 1..Len(cps) : KnownCP(cps[i]) /\ (LET e == UEsc(cps, i) IN e.n > 0 => KnownCP(e.v))
JsIdDetermined(s) == JsIdDeterminedCP(CodePoints(s))

(* ============================== js.IsIdentifierStart / Continue / End ============================== *)
(* "IsIdentifierStart returns true if the byte-slice start is the start of an identifier", "... is a continuation of   *)
(* an identifier", "IsIdentifierEnd returns true if the byte-slice end is a start or continuation of an identifier":   *)
(* the first (last) code point is an IdentifierStart (IdentifierPart) character of 11.6, or the backslash that begins  *)
(* a unicode escape.  An empty argument has no such character.  Determined when that code point is one the             *)
(* specification knows (for End: when the whole argument is well-formed UTF-8, since "the end" is then unambiguous).   *)
FirstCP(s) == LET c == CodePoints(s) IN IF Len(c) = 0 THEN -1 ELSE c[1]
LastCP(s)  == LET c == CodePoints(s) IN IF Len(c) = 0 THEN -1 ELSE c[Len(c)]
WellFormed(s) == \A i \in DOMAIN CodePoints(s) : CodePoints(s)[i] >= 0
IdStartOK(s) == LET c == FirstCP(s) IN StartChar(c) \/ c = 92
IdContOK(s)  == LET c == FirstCP(s) IN PartChar(c) \/ c = 92
IdEndOK(s)   == LET c == LastCP(s) IN PartChar(c) \/ c = 92
FirstDetermined(s) == KnownCP(FirstCP(s)) \/ FirstCP(s) = -1
LastDetermined(s)  == WellFormed(s) /\ (KnownCP(LastCP(s)) \/ LastCP(s) = -1)

(* ============================== js.AsDecimalLiteral ============================== *)
(* "AsDecimalLiteral returns true if a valid decimal literal is given."  ECMAScript 2020, 11.8.3:                      *)
(*    DecimalLiteral :: DecimalIntegerLiteral . DecimalDigits_opt ExponentPart_opt                                    *)
(*                    | . DecimalDigits ExponentPart_opt  |  DecimalIntegerLiteral ExponentPart_opt                    *)
(*    DecimalIntegerLiteral :: 0 | NonZeroDigit DecimalDigits_opt                                                     *)
(*    ExponentPart :: (e | E) (+ | -)_opt DecimalDigits                                                                *)
(* Open: a text with '_' (numeric separators, ES2021) and 0 followed by a digit (Annex B.1.1 legacy forms).           *)
DecIntEnds(s)  == POne(s, {1}, {48}) \cup (LET nz == POne(s, {1}, 49..57) IN nz \cup PDigits1(s, nz))
ExpEnds(s, P)  == LET e == POne(s, P, {101, 69}) IN PDigits1(s, e \cup POne(s, e, {43, 45}))
WithExp(s, P)  == P \cup ExpEnds(s, P)
DecLitEnds(s)  == LET int == DecIntEnds(s)
                      dot == POne(s, int, {46})
                  IN  WithExp(s, dot \cup PDigits1(s, dot)) \cup WithExp(s, PDigits1(s, POne(s, {1}, {46}))) \cup WithExp(s, int)
IsDecimalLiteral(s) == (Len(s) + 1) \in DecLitEnds(s)
JsNumDetermined(s)  == ~HasByte(s, 95) /\ ~(Len(s) >= 2 /\ s[1] = 48 /\ Dig(s[2]))

(* ============================== css.IsIdent / css.IsURLUnquoted ============================== *)
(* "IsIdent returns true if the bytes are a valid identifier."  "IsURLUnquoted returns true if the bytes are a valid   *)
(* unquoted URL."  CSS Syntax Level 3, section 4.2, railroad diagrams (same class alphabet as spec/css/CssTokens.tla   *)
(* and CssRef.tla; section 3.3 preprocessing: CR, FF, CR LF are one newline):                                         *)
(*    <ident-token>  ( -- | -? (name-start | escape) ) (name-char | escape)*                                          *)
(*    <url-token>    url( ws* ( not " ' ( ) \ ws non-printable | escape )* ws* )    : the part between the ws*          *)
(*    escape         \ ( not newline or hex digit | hex digit{1,6} ws? )                                              *)
(* `--` begins an identifier as in the current edition and css-variables-1 (the reading of CssRef.tla).               *)
(* Open: a NUL byte (3.3 turns it into U+FFFD, a name code point; the library's buffers use NUL as their end mark)    *)
(* and a backslash that is the last byte (4.3.7: a parse error that yields U+FFFD).                                   *)
Punct(b) ==
    CASE b = 33 -> "bang"   [] b = 34 -> "quote"  [] b = 35 -> "hash"   [] b = 36 -> "dollar" [] b = 37 -> "pct"
      [] b = 39 -> "apos"   [] b = 40 -> "lparen" [] b = 41 -> "rparen" [] b = 42 -> "star"   [] b = 43 -> "plus"
      [] b = 44 -> "comma"  [] b = 45 -> "dash"   [] b = 46 -> "dot"    [] b = 47 -> "slash"  [] b = 58 -> "colon"
      [] b = 59 -> "semi"   [] b = 60 -> "lt"     [] b = 61 -> "eq"     [] b = 62 -> "gt"     [] b = 63 -> "qmark"
      [] b = 64 -> "at"     [] b = 91 -> "lbrack" [] b = 92 -> "bslash" [] b = 93 -> "rbrack" [] b = 94 -> "caret"
      [] b = 123 -> "lbrace" [] b = 124 -> "pipe" [] b = 125 -> "rbrace" [] b = 126 -> "tilde"
      [] OTHER -> "other"
ByteCls(b) ==
    IF b >= 128 THEN "nonascii"
    ELSE IF Dig(b) THEN "digit"
    ELSE IF b \in {101, 69} THEN "e" ELSE IF b \in {117, 85} THEN "u" ELSE IF b \in {114, 82} THEN "r" ELSE IF b \in {108, 76} THEN "l"
    ELSE IF HexD(b) THEN "hex"
    ELSE IF Alpha(b) \/ b = 95 THEN "letter"
    ELSE IF b \in {32, 9} THEN "sp"
    ELSE IF b \in {10, 12, 13} THEN "nl"
    ELSE IF b <= 31 \/ b = 127 THEN "np"
    ELSE Punct(b)
RECURSIVE ClsFrom(_, _)
ClsFrom(s, i) == IF i > Len(s) THEN <<>>
                 ELSE IF s[i] = 13 /\ BAt(s, i + 1) = 10 THEN <<"nl">> \o ClsFrom(s, i + 2)
                 ELSE <<ByteCls(s[i])>> \o ClsFrom(s, i + 1)
Classes(s) == ClsFrom(s, 1)

CAt(c, i)     == IF i >= 1 /\ i <= Len(c) THEN c[i] ELSE "EOF"
CHex(x)       == x \in {"digit", "hex", "e"}
CNameStart(x) == x \in {"letter", "hex", "e", "u", "r", "l", "nonascii"}
CNameChar(x)  == CNameStart(x) \/ x \in {"digit", "dash"}
CWS(x)        == x \in {"sp", "nl"}
CUrlChar(x)   == x \notin {"quote", "apos", "lparen", "rparen", "bslash", "sp", "nl", "np", "EOF"}
\* the positions at which an <escape> that begins at p may end
CEscEnds(c, p) ==
    IF CAt(c, p) # "bslash" THEN {}
    ELSE LET hexEnds == { q \in (p + 2)..(p + 7) : \A k \in (p + 1)..(q - 1) : CHex(CAt(c, k)) }
         IN  (IF CAt(c, p + 1) \notin {"nl", "EOF"} /\ ~CHex(CAt(c, p + 1)) THEN {p + 2} ELSE {})
             \cup hexEnds \cup { h + 1 : h \in { q \in hexEnds : CWS(CAt(c, q)) } }
CChar(mode, x) == IF mode = "name" THEN CNameChar(x) ELSE CUrlChar(x)
CStep(c, P, mode) == { p + 1 : p \in { q \in P : q <= Len(c) /\ CChar(mode, c[q]) } } \cup UNION { CEscEnds(c, p) : p \in P }
RECURSIVE CStar(_, _, _)
CStar(c, P, mode) == LET Q == P \cup CStep(c, P, mode) IN IF Q = P THEN P ELSE CStar(c, Q, mode)
\* positions behind the obligatory beginning of an <ident-token>
CIdentHeads(c) == IF CAt(c, 1) = "dash" THEN {1, 2} ELSE {1}
CIdentBegun(c) ==
    (IF CAt(c, 1) = "dash" /\ CAt(c, 2) = "dash" THEN {3} ELSE {})
    \cup { p + 1 : p \in { q \in CIdentHeads(c) : CNameStart(CAt(c, q)) } } \cup UNION { CEscEnds(c, p) : p \in CIdentHeads(c) }
IsIdentCls(c) == (Len(c) + 1) \in CStar(c, CIdentBegun(c), "name")
IsUrlCls(c)   == (Len(c) + 1) \in CStar(c, {1}, "url")
\* a backslash as the last symbol at a position where an escape could begin
EofEscape(c, P) == Len(c) >= 1 /\ c[Len(c)] = "bslash" /\ Len(c) \in P
CssIdentDetermined(s) == ~HasByte(s, 0) /\ (LET c == Classes(s) IN ~EofEscape(c, CIdentHeads(c) \cup CStar(c, CIdentBegun(c), "name")))
CssUrlDetermined(s)   == ~HasByte(s, 0) /\ (LET c == Classes(s) IN ~EofEscape(c, CStar(c, {1}, "url")))
CssIsIdent(s) == IsIdentCls(Classes(s))
CssIsUrl(s)   == IsUrlCls(Classes(s))

\* Second formalisation: section 4.3 as transcribed for property C07 (spec/css/CssRef.tla, the algorithms "would start
\* an identifier", "consume a name", "consume a url token").  Helpers2Gen checks that the two agree on every
\* enumerated class string.
R == INSTANCE CssRef
RefIsIdent(c) == Len(c) > 0 /\ R!StartsIdent(c, 1) /\ R!NameEnd(c, 1) = Len(c) + 1
\* c is the whole unquoted body: "c)" is one URL token ending at the parenthesis, and it still is when one more
\* url code point is put behind c (so c does not end in the whitespace the token allows before the parenthesis)
RefIsUrl(c) == /\ R!Unquoted(c \o <<"rparen">>, 1) = [k |-> "URL", hi |-> Len(c) + 2]
               /\ R!Unquoted(c \o <<"letter", "rparen">>, 1) = [k |-> "URL", hi |-> Len(c) + 3]
RefAgrees(c) == /\ ~EofEscape(c, CIdentHeads(c) \cup CStar(c, CIdentBegun(c), "name")) => (IsIdentCls(c) <=> RefIsIdent(c))
                /\ ~EofEscape(c, CStar(c, {1}, "url")) => (IsUrlCls(c) <=> RefIsUrl(c))

(* ============================== strconv.LenUint ============================== *)
(* No doc comment; the sibling LenInt "returns the written length of an integer": the number of decimal digits.       *)
(* The argument is logged as its decimal digits (TLC integers are 32-bit).                                            *)
CanonDigits(d) == Len(d) >= 1 /\ (\A i \in 1..Len(d) : d[i] \in 0..9) /\ (Len(d) > 1 => d[1] # 0)

(* =============================== actions =============================== *)
\* constructor event: fam and
\*   esc     : s (str), chars, esc, b          quote / copy / js / css : s
\*   print   : r (rune), graphic               byte : c           lenuint : d (decimal digits)
\*   indent  : n, n2 (-1: no second indenter built on the first)
New(e) == inp' = e.s /\ aux' = e
Fam(f) == aux.fam = f

AppendEscape(r, sAfter) ==
    /\ Fam("esc") /\ IsPrefix(aux.b, r)
    /\ EscapeOK(inp, aux.chars, aux.esc, SubSeq(r, Len(aux.b) + 1, Len(r)))
    /\ sAfter = inp
    /\ UNCHANGED h2vars
QuoteEntity(q, n) == Fam("quote") /\ <<q, n>> \in QuoteAllowed(inp) /\ UNCHANGED h2vars
Printable(o, og)  == Fam("print") /\ PrintableOK(aux.r, aux.graphic, o, og) /\ UNCHANGED h2vars
IsWhitespace(r)   == Fam("byte") /\ r = WSByte(aux.c) /\ UNCHANGED h2vars
IsNewline(r)      == Fam("byte") /\ r = NLByte(aux.c) /\ UNCHANGED h2vars
\* "Copy returns a copy of the given byte slice": equal bytes in memory of its own; the argument is left alone
Copy(r, alias, sAfter) == Fam("copy") /\ r = inp /\ ~alias /\ sAfter = inp /\ UNCHANGED h2vars

IndentBy == aux.n + (IF aux.n2 >= 0 THEN aux.n2 ELSE 0)
Write(p)          == Fam("indent") /\ inp' = inp \o p /\ UNCHANGED aux
\* o: what reached the underlying writer; whole: the same text written with a single Write call
Out(o, whole)     == Fam("indent") /\ o \in IndentedSet(inp, IndentBy) /\ whole = o /\ UNCHANGED h2vars
Indent(r)         == Fam("indent") /\ r = IndentBy /\ UNCHANGED h2vars
WriteCounts(rets, lens, errs) == Fam("indent") /\ WriteCountsOK(rets, lens, errs) /\ UNCHANGED h2vars

AsIdentifierName(r) == Fam("js") /\ (JsIdDetermined(inp) => r = IsIdentifierName(inp)) /\ UNCHANGED h2vars
IsIdentifierStart(r)    == Fam("js") /\ (FirstDetermined(inp) => r = IdStartOK(inp)) /\ UNCHANGED h2vars
IsIdentifierContinue(r) == Fam("js") /\ (FirstDetermined(inp) => r = IdContOK(inp)) /\ UNCHANGED h2vars
IsIdentifierEnd(r)      == Fam("js") /\ (LastDetermined(inp) => r = IdEndOK(inp)) /\ UNCHANGED h2vars
AsDecimalLiteral(r) == Fam("js") /\ (JsNumDetermined(inp) => r = IsDecimalLiteral(inp)) /\ UNCHANGED h2vars
IsIdent(r)          == Fam("css") /\ (CssIdentDetermined(inp) => r = CssIsIdent(inp)) /\ UNCHANGED h2vars
IsURLUnquoted(r)    == Fam("css") /\ (CssUrlDetermined(inp) => r = CssIsUrl(inp)) /\ UNCHANGED h2vars
LenUint(r)          == Fam("lenuint") /\ CanonDigits(aux.d) /\ r = Len(aux.d) /\ UNCHANGED h2vars

Inv == IsBytes(inp)
=============================================================================
