SPECIFICATION Spec
CONSTANTS
  Fam = "datauri"
  MaxLen = 4
INVARIANT Emit
CHECK_DEADLOCK FALSE
