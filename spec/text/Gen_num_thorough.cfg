SPECIFICATION Spec
CONSTANTS
  Fam = "num"
  MaxLen = 7
INVARIANT Emit
CHECK_DEADLOCK FALSE
