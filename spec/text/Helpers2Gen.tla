---------------------------- MODULE Helpers2Gen ----------------------------
(***************************************************************************)
(* Generator (kind G) for the growth specification Helpers2.tla: for every *)
(* family in Fams TLC enumerates all arguments over a small alphabet of    *)
(* atoms up to the family's bound (or every member of an explicit list),   *)
(* concretises them to bytes (which alternative stands for an atom depends *)
(* on VERIF_SEED, the position and the whole atom string) and writes the   *)
(* argument WITH what Helpers2.tla says must be observed.  Every state     *)
(* writes the cases of all its one-atom extensions (ndjson lines < 8 KB).  *)
(*                                                                         *)
(*   esc     AppendEscape        str <= B atoms x chars x escape x b       *)
(*   quote   QuoteEntity         head atom + <= B tail atoms               *)
(*   print   Printable           a list of runes                           *)
(*   byte    IsWhitespace/IsNewline   all 256 bytes                        *)
(*   copy    Copy                strings <= B                              *)
(*   indent  Indenter            text <= B x every cutting into Write      *)
(*                               calls x empty writes x n x nesting        *)
(*   jsid    AsIdentifierName (+ AsDecimalLiteral on the same argument)    *)
(*   jsnum   AsDecimalLiteral (+ AsIdentifierName)                         *)
(*   cssid   IsIdent (+ IsURLUnquoted)     cssurl  IsURLUnquoted (+ IsIdent) *)
(*   lenuint LenUint             digit strings around every boundary       *)
(*   unitab  the Unicode sample of Helpers2.tla, for the harness to check  *)
(***************************************************************************)
EXTENDS Integers, Sequences, FiniteSets, TLC, Json, CSV, IOUtils

CONSTANTS Fams, Tier

VARIABLE st
H == INSTANCE Helpers2 WITH inp <- st, aux <- st

Seed     == atoi(IOEnv.VERIF_SEED)
CaseFile == IOEnv.VERIF_CASES

Bound == IF Tier = "quick"
         THEN [esc |-> 4, quote |-> 3, copy |-> 3, indent |-> 4, jsid |-> 4, jsnum |-> 5, cssid |-> 4, cssurl |-> 4]
         ELSE [esc |-> 6, quote |-> 5, copy |-> 4, indent |-> 5, jsid |-> 5, jsnum |-> 6, cssid |-> 5, cssurl |-> 5]
StringFams == DOMAIN Bound

(* ---------------------------- alphabets: atom -> alternatives (byte strings) ---------------------------- *)
EscReps == "a" :> << <<97>>, <<122>>, <<0>>, <<255>> >> @@ "q" :> << <<34>> >> @@ "b" :> << <<92>> >> @@ "s" :> << <<39>> >>

QuoteHeads == {"&#", "&#x", "&#X", "&quot", "&apos", "&QUOT", "&", "o"}
QuoteReps ==
    "&#" :> << <<38, 35>> >> @@ "&#x" :> << <<38, 35, 120>> >> @@ "&#X" :> << <<38, 35, 88>> >> @@
    "&quot" :> << <<38, 113, 117, 111, 116>> >> @@ "&apos" :> << <<38, 97, 112, 111, 115>> >> @@
    "&QUOT" :> << <<38, 81, 85, 79, 84>>, <<38, 65, 80, 79, 83>>, <<38, 81, 117, 111, 116>> >> @@      \* &QUOT &APOS &Quot
    "&" :> << <<38>>, <<38, 97, 109, 112>>, <<38, 103, 116>> >> @@                                      \* & &amp &gt
    "o" :> << <<97>>, <<120>>, <<32>>, <<35>>, <<88>>, <<113>> >> @@
    "0" :> << <<48>> >> @@ "22" :> << <<50, 50>> >> @@ "27" :> << <<50, 55>> >> @@ "34" :> << <<51, 52>> >> @@ "39" :> << <<51, 57>> >> @@
    "d" :> << <<50>>, <<51>>, <<57>>, <<52>>, <<55>> >> @@ ";" :> << <<59>> >>
QuoteTail == {"0", "22", "27", "34", "39", "d", ";", "o"}

CopyReps == "a" :> << <<97>> >> @@ "z" :> << <<0>> >> @@ "f" :> << <<255>> >>

IndentReps == "a" :> << <<97>>, <<13>>, <<123>> >> @@ "n" :> << <<10>> >> @@ "s" :> << <<32>> >>

JsIdReps ==
    "L"  :> << <<97>>, <<90>>, <<36>>, <<95>>, <<117>>, <<101>> >> @@                                    \* a Z $ _ u e
    "D"  :> << <<48>>, <<57>> >> @@
    "S"  :> << <<195, 169>>, <<207, 128>>, <<226, 132, 152>>, <<240, 157, 146, 156>>, <<228, 184, 173>>, <<194, 170>>, <<194, 181>> >> @@
    "C"  :> << <<204, 128>>, <<226, 128, 191>>, <<194, 183>>, <<217, 160>> >> @@
    "J"  :> << <<226, 128, 140>>, <<226, 128, 141>> >> @@
    "N"  :> << <<226, 128, 168>>, <<194, 160>>, <<195, 151>>, <<195, 183>>, <<239, 191, 189>>, <<226, 130, 172>>, <<240, 159, 152, 128>>, <<227, 128, 128>> >> @@
    "P"  :> << <<45>>, <<32>>, <<46>>, <<35>>, <<0>>, <<64>>, <<123>>, <<125>>, <<39>> >> @@             \* - space . # NUL @ { } '
    "Es" :> << <<92, 117, 48, 48, 54, 49>>, <<92, 117, 123, 54, 50, 125>>, <<92, 117, 48, 48, 101, 57>>,
               <<92, 117, 123, 49, 68, 52, 57, 67, 125>>, <<92, 117, 123, 48, 48, 48, 48, 48, 54, 49, 125>> >> @@    \* escapes of: a b e-acute U+1D49C a
    "Ec" :> << <<92, 117, 48, 48, 51, 48>>, <<92, 117, 50, 48, 48, 67>>, <<92, 117, 123, 51, 48, 48, 125>> >> @@     \* escapes of: 0 ZWNJ U+0300
    "En" :> << <<92, 117, 48, 48, 50, 48>>, <<92, 117, 123, 49, 49, 48, 48, 48, 48, 125>>, <<92, 117, 49, 50>>, <<92, 120, 52, 49>>,
               <<92>>, <<92, 117, 123, 125>>, <<92, 117, 50, 48, 50, 56>>, <<92, 117, 68, 56, 51, 53>> >> @@          \* escapes of: space, above U+10FFFF, too short, \x41, lone backslash, empty braces, U+2028, a surrogate
    "B"  :> << <<255>>, <<195>>, <<128>>, <<192, 128>>, <<237, 160, 128>> >>                             \* not UTF-8

JsNumReps ==
    "0" :> << <<48>> >> @@ "9" :> << <<57>>, <<49>>, <<53>> >> @@ "." :> << <<46>> >> @@ "e" :> << <<101>>, <<69>> >> @@
    "+" :> << <<43>>, <<45>> >> @@ "_" :> << <<95>> >> @@
    "x" :> << <<97>>, <<32>>, <<110>>, <<120>>, <<0>>, <<47>>, <<58>>, <<255>>, <<44>> >>               \* a space n x NUL / : 0xFF ,

CssIdReps ==
    "letter" :> << <<103>>, <<122>>, <<71>>, <<95>>, <<117>> >> @@ "hex" :> << <<97>>, <<70>>, <<101>>, <<69>> >> @@
    "hex6" :> << <<48, 48, 48, 48, 50, 54>>, <<49, 48, 70, 102, 70, 69>> >> @@           \* six hex digits: the longest escape
    "digit" :> << <<48>>, <<57>> >> @@ "dash" :> << <<45>> >> @@ "bslash" :> << <<92>> >> @@
    "nonascii" :> << <<195, 169>>, <<128>>, <<255>> >> @@ "sp" :> << <<32>>, <<9>> >> @@
    "nl" :> << <<10>>, <<13>>, <<12>>, <<13, 10>> >> @@
    "punct" :> << <<40>>, <<34>>, <<33>>, <<41>>, <<46>>, <<43>>, <<47>>, <<1>>, <<127>> >>

CssUrlReps ==
    "c" :> << <<97>>, <<47>>, <<46>>, <<35>>, <<37>>, <<42>>, <<45>>, <<122>>, <<58>>, <<63>>, <<126>>, <<33>> >> @@
    "hex" :> << <<48>>, <<70>>, <<97>> >> @@ "hex6" :> << <<48, 48, 48, 48, 50, 54>>, <<49, 48, 70, 102, 70, 69>> >> @@
    "bslash" :> << <<92>> >> @@
    "quote" :> << <<34>> >> @@ "apos" :> << <<39>> >> @@ "lparen" :> << <<40>> >> @@ "rparen" :> << <<41>> >> @@
    "sp" :> << <<32>>, <<9>> >> @@ "nl" :> << <<10>>, <<13>>, <<12>>, <<13, 10>> >> @@
    "np" :> << <<1>>, <<8>>, <<11>>, <<14>>, <<31>>, <<127>> >> @@ "nonascii" :> << <<128>>, <<195, 169>>, <<255>> >>

Reps == [esc |-> EscReps, quote |-> QuoteReps, copy |-> CopyReps, indent |-> IndentReps, jsid |-> JsIdReps,
         jsnum |-> JsNumReps, cssid |-> CssIdReps, cssurl |-> CssUrlReps]
Syms(f)  == IF f = "quote" THEN QuoteTail ELSE DOMAIN Reps[f]
Roots(f) == IF f = "quote" THEN { <<h>> : h \in QuoteHeads } ELSE { <<>> }
RootLen(f) == IF f = "quote" THEN 1 ELSE 0

\* Which alternative stands for an atom depends on the seed, the position and the whole atom string (a position-
\* weighted sum), so that every alternative meets every syntactic role within one run.
RECURSIVE Mix(_, _, _)
Mix(f, cls, i) == IF i > Len(cls) THEN 0 ELSE i * Reps[f][cls[i]][1][1] + Mix(f, cls, i + 1)
RECURSIVE ConcFrom(_, _, _, _)
ConcFrom(f, cls, i, m) ==
    IF i > Len(cls) THEN <<>>
    ELSE LET alts == Reps[f][cls[i]] IN alts[((Seed + i + m) % Len(alts)) + 1] \o ConcFrom(f, cls, i + 1, m)
Conc(f, cls) == ConcFrom(f, cls, 1, Mix(f, cls, 1))

(* ---------------------------- cases: argument + what the specification says about it ---------------------------- *)
EscChars  == { <<>>, <<34>>, <<34, 39>>, <<92, 97>> }
EscBytes  == {92, 39}
EscDsts   == { <<>>, <<120, 92>> }
EscCases(s) == { [s |-> s, chars |-> ch, esc |-> e, b |-> b, r |-> b \o H!Escaped(s, ch, e)] : ch \in EscChars, e \in EscBytes, b \in EscDsts }
EscSane(s)  == \A ch \in EscChars, e \in EscBytes : H!EscapeOK(s, ch, e, H!Escaped(s, ch, e))

QuoteCase(s) == [s |-> s, res |-> H!QuoteAllowed(s)]

\* all bytes below 256, around the blocks, the samples of Helpers2, surrogates, the ends of the range, not runes at all
PrintRunes == (0..255) \cup {256, 699, 768, 888, 1564, 2048, 8203, 8204, 8205, 8206, 8207, 8232, 8233, 8239, 8288, 12288, 55295, 55296, 57343,
                             57344, 63743, 65279, 65529, 65533, 65534, 65535, 65536, 119964, 128512, 917505, 983040, 1114109, 1114111,
                             1114112, 2147483647, -1, -128}
PrintCase(r) == [r |-> r, self |-> IF H!ValidRune(r) THEN H!Utf8(r) ELSE <<>>, code |-> IF r >= 0 /\ r <= 1114111 THEN H!CodeText(r) ELSE <<>>]

ByteCase(c) == [c |-> c, ws |-> H!WSByte(c), nl |-> H!NLByte(c)]
CopyCase(s) == [s |-> s]

\* a cutting of a text of length L into Write calls: the set of offsets 1..L-1 behind which a new call begins
SubsetsOf(S) == SUBSET S
IndentNs   == {0, 2}
IndentN2s  == {-1, 3}
IndentCases(s, cuts) ==
    { [s |-> s, n |-> n, n2 |-> n2, cuts |-> cuts, empties |-> em,
       outs |-> H!IndentedSet(s, n + (IF n2 >= 0 THEN n2 ELSE 0))]
      : n \in IndentNs, n2 \in IndentN2s, em \in BOOLEAN }

JsCase(s)  == [s |-> s, idd |-> H!JsIdDetermined(s), id |-> H!IsIdentifierName(s),
               numd |-> H!JsNumDetermined(s), num |-> H!IsDecimalLiteral(s),
               fd |-> H!FirstDetermined(s), st |-> H!IdStartOK(s), ct |-> H!IdContOK(s), ld |-> H!LastDetermined(s), en |-> H!IdEndOK(s)]
CssCase(s) == [s |-> s, idd |-> H!CssIdentDetermined(s), id |-> H!CssIsIdent(s),
               urld |-> H!CssUrlDetermined(s), url |-> H!CssIsUrl(s)]
CssSane(s) == H!RefAgrees(H!Classes(s))

\* decimal digit strings of uint64 values around every power of ten, 2^31, 2^32, 2^63 and 2^64
Pow10(k)  == <<1>> \o [i \in 1..k |-> 0]
Nines(k)  == [i \in 1..k |-> 9]
LenUintArgs == { <<0>>, <<1>>, <<5>> } \cup { Pow10(k) : k \in 1..19 } \cup { Nines(k) : k \in 1..19 }
               \cup { [i \in 1..(k + 1) |-> IF i = 1 \/ i = k + 1 THEN 1 ELSE 0] : k \in 1..19 }
               \cup { <<2,1,4,7,4,8,3,6,4,7>>, <<2,1,4,7,4,8,3,6,4,8>>, <<4,2,9,4,9,6,7,2,9,5>>, <<4,2,9,4,9,6,7,2,9,6>>,
                      <<9,2,2,3,3,7,2,0,3,6,8,5,4,7,7,5,8,0,7>>, <<9,2,2,3,3,7,2,0,3,6,8,5,4,7,7,5,8,0,8>>,
                      <<9,9,9,9,9,9,9,9,9,9,9,9,9,9,9,9,9,9,9>>, <<1,0,0,0,0,0,0,0,0,0,0,0,0,0,0,0,0,0,0,0>>,
                      <<1,8,4,4,6,7,4,4,0,7,3,7,0,9,5,5,1,6,1,4>>, <<1,8,4,4,6,7,4,4,0,7,3,7,0,9,5,5,1,6,1,5>> }
LenUintCase(d) == [d |-> d, r |-> Len(d)]

UniTab == [start |-> H!IDStartSample, cont |-> H!IDContOnlySample, notid |-> H!NotIDSample, zw |-> {H!ZWNJ, H!ZWJ}]

\* the family the harness executes a case of family f in
GoFam(f) == CASE f \in {"jsid", "jsnum"} -> "js" [] f \in {"cssid", "cssurl"} -> "css" [] OTHER -> f

\* the lines written for the argument s: each a set of cases (a line must stay below 8 KB: concurrent CSVWrite calls of
\* several TLC workers interleave beyond that)
StrLines(f, s) ==
    CASE f = "esc"    -> {EscCases(s)}
      [] f = "quote"  -> {{QuoteCase(s)}}
      [] f = "copy"   -> {{CopyCase(s)}}
      [] f = "indent" -> { IndentCases(s, cuts) : cuts \in SubsetsOf(1..(Len(s) - 1)) }
      [] f \in {"jsid", "jsnum"}   -> {{JsCase(s)}}
      [] f \in {"cssid", "cssurl"} -> {{CssCase(s)}}
StrSane(f, s) ==
    CASE f = "esc" -> EscSane(s)
      [] f \in {"cssid", "cssurl"} -> CssSane(s)
      [] OTHER -> TRUE

(* ---------------------------- the state space ---------------------------- *)
\* every state is [f, x, v]: string families use x (the atom string; v = 0), list families use v (the member; x = <<>>)
ListInit ==
    (IF "print" \in Fams THEN { [f |-> "print", x |-> <<>>, v |-> r] : r \in PrintRunes } ELSE {})
    \cup (IF "byte" \in Fams THEN { [f |-> "byte", x |-> <<>>, v |-> c] : c \in 0..255 } ELSE {})
    \cup (IF "lenuint" \in Fams THEN { [f |-> "lenuint", x |-> <<>>, v |-> d] : d \in LenUintArgs } ELSE {})
    \cup (IF "unitab" \in Fams THEN { [f |-> "unitab", x |-> <<>>, v |-> 0] } ELSE {})
Init == st \in ListInit \cup UNION { { [f |-> f, x |-> x, v |-> 0] : x \in Roots(f) } : f \in Fams \cap StringFams }

\* a state of a string family is an atom string shorter than the bound; it emits the cases of its one-atom extensions
Next == /\ st.f \in StringFams
        /\ Len(st.x) - RootLen(st.f) < Bound[st.f] - 1
        /\ \E c \in Syms(st.f) : st' = [st EXCEPT !.x = Append(st.x, c)]
Spec == Init /\ [][Next]_st

Ext(z) == (IF z.x \in Roots(z.f) THEN {z.x} ELSE {}) \cup { Append(z.x, c) : c \in Syms(z.f) }
LinesOf(z) ==
    IF z.f \in StringFams THEN UNION { StrLines(z.f, Conc(z.f, x)) : x \in Ext(z) }
    ELSE CASE z.f = "print"   -> {{PrintCase(z.v)}}
           [] z.f = "byte"    -> {{ByteCase(z.v)}}
           [] z.f = "lenuint" -> {{LenUintCase(z.v)}}
           [] z.f = "unitab"  -> {{UniTab}}
\* the two formalisations of the same definition agree on everything that is emitted (else TLC stops: a bug of the spec)
Sane(z) == z.f \in StringFams => \A x \in Ext(z) : StrSane(z.f, Conc(z.f, x))

\* evaluated once per distinct state: writes the lines
Emit == Sane(st) /\ \A cs \in LinesOf(st) : CSVWrite("%1$s", <<ToJson([f |-> GoFam(st.f), g |-> st.f, c |-> cs])>>, CaseFile)
=============================================================================
