------------------------------ MODULE Helpers ------------------------------
(***************************************************************************)
(* Property-level specification (kind P) of the text helpers of property   *)
(* C16: Number, Dimension, EncodeURL, DecodeURL, DataURI, Mediatype,       *)
(* EqualFold, ToLower, TrimWhitespace, IsAllWhitespace, css/html ToHash.   *)
(*                                                                         *)
(* Every definition below transcribes a clause of the property statement   *)
(* (or the function's doc comment), never the Go control flow.  Texts are  *)
(* sequences of byte values 0..255.  The helpers are functions, so the     *)
(* state is just the argument the calls are made on (inp) plus the facts   *)
(* the harness vouches for or observed from the standard library (aux:     *)
(* table membership of the bytes of inp, url.QueryUnescape's answer,       *)
(* mime.ParseMediaType's answer, how a data URI was built, the list of     *)
(* hash constants).  Every action takes the observed result as parameter   *)
(* and is enabled exactly when the statement allows that result; where the *)
(* statement is silent the action accepts anything.                        *)
(***************************************************************************)
EXTENDS Integers, Sequences, FiniteSets

VARIABLES inp,   \* the argument: a sequence of bytes
          aux    \* the constructor event: facts about inp (family-specific fields, see New)
hvars == <<inp, aux>>

(* ------------------------------ byte classes ------------------------------ *)
Dig(b)    == b >= 48 /\ b <= 57
Upper(b)  == b >= 65 /\ b <= 90
Lower(b)  == b >= 97 /\ b <= 122
Alpha(b)  == Upper(b) \/ Lower(b)
WS(b)     == b \in {32, 9, 10, 12, 13}                      \* space, \t, \n, \f, \r  (doc of IsWhitespace)
HexD(b)   == Dig(b) \/ (b >= 65 /\ b <= 70) \/ (b >= 97 /\ b <= 102)
HexVal(b) == IF Dig(b) THEN b - 48 ELSE IF b <= 70 THEN b - 55 ELSE b - 87
UpHex(v)  == IF v < 10 THEN 48 + v ELSE 55 + v
Low(b)    == IF Upper(b) THEN b + 32 ELSE b
IsBytes(s) == \A i \in 1..Len(s) : s[i] \in 0..255
Max(S)    == CHOOSE m \in S : \A x \in S : x <= m

(* ------------------------------ Number, Dimension ------------------------------ *)
(* The regular expression of the statement, read as a function on sets of positions: a position p means      *)
(* "the first p-1 symbols have been consumed".  Each operator maps the set of positions where a sub-          *)
(* expression may start to the set of positions where it may end.                                            *)
\* one symbol out of the set C
One(s, P, C)  == { p + 1 : p \in { q \in P : q <= Len(s) /\ s[q] \in C } }
\* [0-9]+
Digits1(s, P) == { j \in 2..(Len(s) + 1) : \E p \in P : p < j /\ \A k \in p..(j - 1) : Dig(s[k]) }
\* X?
Opt(P, Q)     == P \cup Q

\* (+|-)?([0-9]+(.[0-9]+)?|.[0-9]+)((e|E)(+|-)?[0-9]+)?
NumberEnds(s) ==
    LET sign  == Opt({1}, One(s, {1}, {43, 45}))
        int   == Digits1(s, sign)                                   \* [0-9]+
        intfr == Opt(int, Digits1(s, One(s, int, {46})))            \* [0-9]+(.[0-9]+)?
        frac  == Digits1(s, One(s, sign, {46}))                     \* .[0-9]+
        mant  == intfr \cup frac
        e     == One(s, mant, {101, 69})
        esig  == Opt(e, One(s, e, {43, 45}))
        exp   == Digits1(s, esig)
    IN  Opt(mant, exp)
\* length of the longest prefix that matches (0 when no prefix matches)
NumberLen(s) == LET ends == NumberEnds(s) IN IF ends = {} THEN 0 ELSE Max(ends) - 1

\* length of the run of alphabetic bytes starting at 1-based index i
AlphaRun(s, i) == Cardinality({ j \in i..Len(s) : \A k \in i..j : Alpha(s[k]) })
\* "a following '%' or alphabetic unit" after the first n bytes
UnitLen(s, n) == IF n >= Len(s) THEN 0 ELSE IF s[n + 1] = 37 THEN 1 ELSE AlphaRun(s, n + 1)
\* When there is no number the statement does not say whether a unit is looked for: both readings are allowed.
DimUnitsN(s, n) == IF n > 0 THEN {UnitLen(s, n)} ELSE {0, UnitLen(s, 0)}
DimUnits(s) == DimUnitsN(s, NumberLen(s))

(* ------------------------------ percent-coding ------------------------------ *)
\* marks[i] = 1 iff the table marks byte s[i] (logged by the harness: the tables are data)
EncOff(marks, i) == (i - 1) + 2 * Cardinality({ k \in 1..(i - 1) : marks[k] = 1 })
PieceOK(b, m, piece) ==
    IF m = 1 THEN /\ Len(piece) = 3 /\ piece[1] = 37 /\ HexD(piece[2]) /\ HexD(piece[3])
                  /\ 16 * HexVal(piece[2]) + HexVal(piece[3]) = b
             ELSE piece = <<b>>
\* "EncodeURL escapes exactly the bytes its table marks": r is the concatenation of one piece per byte, %XX
\* (either case of hex digit) for a marked byte and the byte itself otherwise
EncodeOK(s, marks, r) ==
    /\ Len(marks) = Len(s)
    /\ Len(r) = EncOff(marks, Len(s) + 1)
    /\ \A i \in 1..Len(s) : PieceOK(s[i], marks[i], SubSeq(r, EncOff(marks, i) + 1, EncOff(marks, i + 1)))
\* the canonical encoding (upper-case hex), used by the generator
RECURSIVE EncFrom(_, _, _)
EncFrom(s, marks, i) ==
    IF i > Len(s) THEN <<>>
    ELSE (IF marks[i] = 1 THEN <<37, UpHex(s[i] \div 16), UpHex(s[i] % 16)>> ELSE <<s[i]>>) \o EncFrom(s, marks, i + 1)
Encode(s, marks) == EncFrom(s, marks, 1)

\* a complete escape %XX starts at index i
PctAt(s, i) == s[i] = 37 /\ i + 2 <= Len(s) /\ HexD(s[i + 1]) /\ HexD(s[i + 2])
\* every '%' starts a complete escape: exactly the strings on which url.QueryUnescape succeeds
WellFormedPct(s) == \A i \in 1..Len(s) : s[i] = 37 => PctAt(s, i)
\* the inverse of Encode: %XX -> byte, '+' -> space, everything else unchanged.  On a malformed escape this
\* reference leaves the '%' as it is; that part is NOT demanded by the statement (see DecodeURL below).
RECURSIVE DecFrom(_, _)
DecFrom(s, i) ==
    IF i > Len(s) THEN <<>>
    ELSE IF PctAt(s, i) THEN <<16 * HexVal(s[i + 1]) + HexVal(s[i + 2])>> \o DecFrom(s, i + 3)
    ELSE IF s[i] = 43 THEN <<32>> \o DecFrom(s, i + 1)
    ELSE <<s[i]>> \o DecFrom(s, i + 1)
Decode(s) == DecFrom(s, 1)
\* the same with '+' standing for itself (percent-encoding in the sense of RFC 3986, where '+' is not special)
RECURSIVE DecKeepFrom(_, _)
DecKeepFrom(s, i) ==
    IF i > Len(s) THEN <<>>
    ELSE IF PctAt(s, i) THEN <<16 * HexVal(s[i + 1]) + HexVal(s[i + 2])>> \o DecKeepFrom(s, i + 3)
    ELSE <<s[i]>> \o DecKeepFrom(s, i + 1)
DecodeKeepPlus(s) == DecKeepFrom(s, 1)

(* ------------------------------ data URIs ------------------------------ *)
IsPrefix(p, s) == Len(p) <= Len(s) /\ SubSeq(s, 1, Len(p)) = p
DataScheme == <<100, 97, 116, 97, 58>>                       \* "data:"
TextPlain  == <<116, 101, 120, 116, 47, 112, 108, 97, 105, 110>>   \* "text/plain"
HasComma(s) == \E i \in 6..Len(s) : s[i] = 44
\* what follows the first comma after "data:"
AfterComma(s) == LET c == CHOOSE i \in 6..Len(s) : s[i] = 44 /\ \A j \in 6..(i - 1) : s[j] # 44
                 IN  SubSeq(s, c + 1, Len(s))
\* "the exact payload of any data: URI obtained by base64- or percent-encoding arbitrary bytes".  A literal '+' in
\* a percent-encoded payload is where two readings of "percent-encoding" part (form encoding: '+' is a space;
\* RFC 3986: '+' is a plus); the statement does not choose, so either decoding of the text is accepted there.
PayloadOK(s, enc, payload, got) ==
    LET part == AfterComma(s) IN
    IF enc # "b64" /\ (\E i \in 1..Len(part) : part[i] = 43)
    THEN got = Decode(part) \/ got = DecodeKeepPlus(part)
    ELSE got = payload
\* the statement says "the media type (text/plain when absent)": whether parameters are part of it is left open
MediaOK(base, params, got) == LET b == IF base = <<>> THEN TextPlain ELSE base IN got = b \/ got = b \o params

(* ------------------------------ media types ------------------------------ *)
\* token bytes of the well-formed *unquoted lower-case* values the statement talks about: a-z 0-9 - . +
Tok(b) == Lower(b) \/ Dig(b) \/ b \in {45, 46, 43}
Toks1(s, P)  == { j \in 2..(Len(s) + 1) : \E p \in P : p < j /\ \A k \in p..(j - 1) : Tok(s[k]) }
Spaces0(s, P) == { j \in 1..(Len(s) + 1) : \E p \in P : p <= j /\ \A k \in p..(j - 1) : s[k] = 32 }
\* one parameter:  sp* ; sp* token = token
Param(s, P) == Toks1(s, One(s, Toks1(s, Spaces0(s, One(s, Spaces0(s, P), {59}))), {61}))
RECURSIVE Star(_, _)
Star(s, P) == LET Q == P \cup Param(s, P) IN IF Q = P THEN P ELSE Star(s, Q)
\* sp* token / token (sp* ; sp* token = token)* sp*      matches the whole of s
WFMedia(s) == (Len(s) + 1) \in Spaces0(s, Star(s, Toks1(s, One(s, Toks1(s, Spaces0(s, {1})), {47}))))

(* ------------------------------ case and whitespace ------------------------------ *)
LowerSeq(s) == [i \in 1..Len(s) |-> Low(s[i])]
AllWS(s)    == \A i \in 1..Len(s) : WS(s[i])
LeadWS(s)   == Cardinality({ j \in 1..Len(s) : \A k \in 1..j : WS(s[k]) })
TrailWS(s)  == Cardinality({ j \in 1..Len(s) : \A k \in j..Len(s) : WS(s[k]) })
Trim(s)     == IF AllWS(s) THEN <<>> ELSE SubSeq(s, LeadWS(s) + 1, Len(s) - TrailWS(s))
NoUpper(s)  == \A i \in 1..Len(s) : ~Upper(s[i])
FoldEq(s, t) == Len(s) = Len(t) /\ \A i \in 1..Len(s) : Low(s[i]) = t[i]

(* ------------------------------ hash tables ------------------------------ *)
\* names[k] is the text of the constant with value vals[k] (data extracted from the package by the harness)
HashOf(names, vals, s) ==
    IF \E k \in 1..Len(names) : names[k] = s THEN vals[CHOOSE k \in 1..Len(names) : names[k] = s] ELSE 0
TableOK(names, vals) ==
    /\ Len(names) = Len(vals)
    /\ \A k \in 1..Len(vals) : vals[k] # 0 /\ names[k] # <<>>
    /\ \A j, k \in 1..Len(vals) : j # k => names[j] # names[k] /\ vals[j] # vals[k]

(* =============================== actions =============================== *)
\* constructor event: the argument and the family-specific facts
\*   num       : -
\*   url       : mu, md  (0/1 per byte of s: marked by URLEncodingTable / DataURIEncodingTable)
\*               qok, q  (url.QueryUnescape(s) succeeded, its result)
\*   datauri   : kind = "enc" (s was built from base, params, payload by base64- or percent-encoding),
\*                      "bad" (s is one of the malformed shapes: no data: prefix, no comma, invalid base64),
\*                      "any" (arbitrary bytes)
\*   mediatype : stdok, stdmt, stdk, stdv  (mime.ParseMediaType(s): ok, media type, parameters sorted by key)
\*   text      : tgt (second argument of EqualFold)
\*   hash      : names, vals
New(e) == inp' = e.s /\ aux' = e

Fam(f) == aux.fam = f

Number(r)       == Fam("num") /\ r = NumberLen(inp) /\ UNCHANGED hvars
Dimension(n, u) == Fam("num") /\ n = NumberLen(inp) /\ u \in DimUnits(inp) /\ UNCHANGED hvars

Marks(tab) == IF tab = "url" THEN aux.mu ELSE aux.md
EncodeURL(tab, r) == Fam("url") /\ tab \in {"url", "datauri"} /\ EncodeOK(inp, Marks(tab), r) /\ UNCHANGED hvars
\* "DecodeURL inverts [EncodeURL] ... and equals url.QueryUnescape wherever that succeeds".  Where
\* QueryUnescape fails (a malformed escape) nothing is demanded but a normal return.
DecodeURL(r) == /\ Fam("url")
                /\ (aux.qok => r = aux.q)
                /\ (WellFormedPct(inp) => r = Decode(inp))
                /\ UNCHANGED hvars
\* DecodeURL(EncodeURL(inp, URLEncodingTable)) = inp
RoundTrip(r) == Fam("url") /\ r = inp /\ UNCHANGED hvars

\* err: "nil" | "bad" (ErrBadDataURI) | "decode" (any other error)
DataURI(err, mt, data) ==
    /\ Fam("datauri")
    /\ CASE aux.kind = "enc" -> err = "nil" /\ PayloadOK(inp, aux.enc, aux.payload, data) /\ MediaOK(aux.base, aux.params, mt)
         [] aux.kind = "bad" -> err # "nil"
         [] OTHER            -> (~IsPrefix(DataScheme, inp) \/ ~HasComma(inp)) => err # "nil"
    /\ UNCHANGED hvars

\* "agrees with mime.ParseMediaType on well-formed unquoted values"
Mediatype(mt, k, v) ==
    /\ Fam("mediatype")
    /\ (WFMedia(inp) /\ aux.stdok) => (mt = aux.stdmt /\ k = aux.stdk /\ v = aux.stdv)
    /\ UNCHANGED hvars

ToLower(r)         == Fam("text") /\ r = LowerSeq(inp) /\ UNCHANGED hvars
IsAllWhitespace(r) == Fam("text") /\ r = AllWS(inp) /\ UNCHANGED hvars
\* r: the returned bytes; lo: offset of the returned slice in the argument (-1 if it is empty)
TrimWhitespace(r, lo) == Fam("text") /\ r = Trim(inp) /\ (Len(r) > 0 => lo = LeadWS(inp)) /\ UNCHANGED hvars
\* the doc demands a lower-case target; otherwise nothing is said
EqualFold(r)       == Fam("text") /\ (NoUpper(aux.tgt) => r = FoldEq(inp, aux.tgt)) /\ UNCHANGED hvars

\* ToHash(s) = h # 0 iff s is the name of h;  String() of a constant is its name
ToHash(s, r)     == Fam("hash") /\ TableOK(aux.names, aux.vals) /\ r = HashOf(aux.names, aux.vals, s) /\ UNCHANGED hvars
HashString(h, r) == /\ Fam("hash")
                    /\ (\E k \in 1..Len(aux.vals) : aux.vals[k] = h) => r = aux.names[CHOOSE k \in 1..Len(aux.vals) : aux.vals[k] = h]
                    /\ UNCHANGED hvars

Inv == IsBytes(inp)
=============================================================================
