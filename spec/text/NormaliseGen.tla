---------------------------- MODULE NormaliseGen ----------------------------
(***************************************************************************)
(* Generator (kind G) for C17.  TLC enumerates every input up to MaxLen    *)
(* over the alphabet of one Kind and writes one ndjson line per input      *)
(* with what Normalise.tla says must be observed:                          *)
(*   ws    symbols {sp, tab, nl, cr, ff, x}: exp = RMW(in) by definition   *)
(*   ent   sequences of entity fragments (f = fragment numbers; the text   *)
(*         is their concatenation): nul = the text references NUL (the     *)
(*         decoded-text clause is waived); the rest of the property is     *)
(*         relational and is judged on the observations                    *)
(*   attr  symbols {dq, sq, sp, tab, gt, lt, eq, bt, amp, x} x (lang,      *)
(*         origQuote, mustQuote): unq = must / may / no (may the result be *)
(*         unquoted), keep = the quote that has to be kept (0: none),      *)
(*         cheap = the quotes allowed by "whichever is shorter"            *)
(*   cdata symbols {lt, amp, rbracket, gt, x}: no expectation beyond the   *)
(*         relation (declines, or un-escapes to the input)                 *)
(* The symbol x (120) is concretised by the harness (seed-dependent: a     *)
(* letter, a multi-byte rune, an invalid byte, a near-miss of whitespace). *)
(***************************************************************************)
EXTENDS Normalise, TLC, Json, IOUtils, CSV

CONSTANTS Kind, MaxLen, FullLen   \* inputs longer than FullLen are emitted only if they hold two '&' fragments

X == 120
Frag == << <<38>>, <<35>>, <<120>>, <<88>>, <<52, 49>>, <<48>>, <<57, 57, 57, 57>>, <<59>>,
           <<97, 109, 112>>, <<108, 116>>, <<113, 117, 111, 116>>, <<97, 112, 111, 115>>,
           <<117, 110, 107, 110, 111, 119, 110>>, <<97>>, <<32>>, <<38, 35, 120>> >>
\*          &       #       x        X       41          0       9999                ;
\*          amp              lt           quot                  apos
\*          unknown                                 a       space    &#x
\* (the 16th fragment "&#x" is not in the design's list: without it two abutting numeric references such as
\*  "&#x&#x41;" need 8 fragments and stay out of reach of the bounds that can be enumerated)
AmpLike == {1, 16}

Alphabet == CASE Kind = "ws"    -> {32, 9, 10, 13, 12, X}
              [] Kind = "ent"   -> 1..Len(Frag)
              [] Kind = "attr"  -> {34, 39, 32, 9, 62, 60, 61, 96, 38, X}
              [] Kind = "cdata" -> {60, 38, 93, 62, X}

NoPar == [cfg |-> 0, lang |-> "html", oq |-> 0, mq |-> FALSE]
Pars == IF Kind = "attr"
        THEN {[cfg |-> 0, lang |-> "html", oq |-> q, mq |-> m] : q \in {0, 39, 34}, m \in BOOLEAN}
             \cup {[cfg |-> 0, lang |-> "xml", oq |-> 0, mq |-> FALSE]}
        ELSE {NoPar}

RECURSIVE Flat(_)
Flat(f) == IF f = <<>> THEN <<>> ELSE Frag[Head(f)] \o Flat(Tail(f))

Init == inp = <<>> /\ par \in Pars
Next == /\ Len(inp) < MaxLen
        /\ \E c \in Alphabet : inp' = Append(inp, c)
        /\ UNCHANGED par
Spec == Init /\ [][Next]_nvars

CaseFile == IOEnv.VERIF_CASES
Line(r) == CSVWrite("%1$s", <<ToJson(r)>>, CaseFile)

SeqOf(S) == IF S = {} THEN <<>> ELSE IF Cardinality(S) = 1 THEN <<CHOOSE q \in S : TRUE>> ELSE <<DQ, SQ>>

Emit ==
    CASE Kind = "ws"    -> Line([k |-> "ws", in |-> inp, exp |-> RMW(inp)])
      [] Kind = "ent"   -> (Len(inp) > FullLen /\ Cardinality({n \in 1..Len(inp) : inp[n] \in AmpLike}) < 2)
                           \/ Line([k |-> "ent", f |-> inp, nul |-> RefsNUL(Flat(inp))])
      [] Kind = "cdata" -> Line([k |-> "cdata", in |-> inp])
      [] Kind = "attr"  ->
            IF par.lang = "xml" THEN Line([k |-> "attr", in |-> inp, lang |-> "xml", oq |-> 0, mq |-> FALSE,
                                           unq |-> "may", keep |-> 0, cheap |-> <<DQ, SQ>>])
            ELSE Line([k |-> "attr", in |-> inp, lang |-> "html", oq |-> par.oq, mq |-> par.mq,
                       unq   |-> IF Safe(inp) /\ ~par.mq THEN "must"
                                 ELSE IF ~Safe(inp) \/ Requested THEN "no" ELSE "may",
                       keep  |-> IF par.oq # 0 /\ Count(inp, par.oq) = 0 THEN par.oq ELSE 0,
                       cheap |-> SeqOf({q \in {DQ, SQ} : Count(inp, q) <= Count(inp, Other(q))})])
=============================================================================
