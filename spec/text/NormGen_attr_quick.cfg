SPECIFICATION Spec
CONSTANTS
  Kind = "attr"
  MaxLen = 5
  FullLen = 99
INVARIANT Emit
CHECK_DEADLOCK FALSE
