SPECIFICATION Spec
CONSTANTS
  Fam = "dec"
  MaxLen = 7
INVARIANT Emit
CHECK_DEADLOCK FALSE
