SPECIFICATION TSpec
INVARIANT TInv
POSTCONDITION Accepted
CHECK_DEADLOCK FALSE
