SPECIFICATION Spec
CONSTANTS
  Kind = "ent"
  MaxLen = 6
  FullLen = 5
INVARIANT Emit
CHECK_DEADLOCK FALSE
