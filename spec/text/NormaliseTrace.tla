--------------------------- MODULE NormaliseTrace ---------------------------
(***************************************************************************)
(* Trace specification (kind T) for C17: every observation recorded from   *)
(* the real parse.Replace* / html.EscapeAttrVal / xml.EscapeAttrVal /      *)
(* xml.EscapeCDATAVal must be a step of Normalise.tla.                     *)
(*                                                                         *)
(* A trace is one input: event 0 ("In") fixes the input text and the       *)
(* parameters; every later event is one call on a private copy of it with  *)
(* everything that was observed.  Texts are arrays of byte values.         *)
(*   RMW   o                 ReplaceMultipleWhitespace(in)                 *)
(*   RE    o a di do         ReplaceEntities(in), ReplaceEntities(o),      *)
(*                           html.UnescapeString(in), html.UnescapeString(o)*)
(*   Comb  c s1 s2           combined function, RE(RMW(in)), RMW(RE(in))   *)
(*   Esc   r tk kx rb drb dv Escape*AttrVal(in), token kinds of the lexer  *)
(*                           on <a x=r>, attribute name is x, AttrVal,     *)
(*                           its decoding, decoding of in                  *)
(*   CData r u ur tk tx      EscapeCDATAVal(in), flag, un-escaped r, token *)
(*                           kinds of the xml lexer on <a>r</a>, its text  *)
(*   g (all)                 no byte outside the argument was written      *)
(***************************************************************************)
EXTENDS Normalise, TraceIO

VARIABLES l, bad
tvars == <<nvars, l, bad>>

e == Trace[l]

TInit == /\ l = 1 /\ bad = FALSE
         /\ inp = <<>> /\ par = [cfg |-> 0, lang |-> "html", oq |-> 0, mq |-> FALSE]

IsStart == e.ev = "In"

\* the property-level action that has to explain the current event
Step ==
    CASE e.ev = "RMW"   -> RMWOp(e.o, e.g)
      [] e.ev = "RE"    -> REOp(e.o, e.a, e.di, e.do, e.g)
      [] e.ev = "Comb"  -> CombOp(e.c, e.s1, e.s2, e.g)
      [] e.ev = "Esc"   -> EscOp(e.r, e.tk, e.kx, e.rb, e.drb, e.dv, e.g)
      [] e.ev = "CData" -> CDataOp(e.r, e.u, e.ur, e.tk, e.tx, e.g)
      [] OTHER          -> FALSE

\* a call that did not return normally (panic) is explained by no action at all
Returned == IF Has(e, "out") THEN e.out = "ret" ELSE TRUE

\* which clause of Normalise.tla rejects the event (only evaluated for rejected events; names the finding)
Why ==
    IF ~Returned THEN "panic"
    ELSE IF ~e.g THEN "wrote-outside-argument"
    ELSE CASE e.ev = "RMW"  -> "wrong-output"
           [] e.ev = "RE"   -> IF ~RE_Len(e.o) THEN "longer"
                               ELSE IF Shape(inp) # "other" THEN "meaning-changed:" \o Shape(inp)
                               ELSE IF ~RE_Decoded(e.di, e.do) THEN "decoded-changed"
                               ELSE "not-idempotent"
           [] e.ev = "Comb" -> "not-sequential:" \o Shape(inp)
           [] e.ev = "Esc"  -> IF ~A_Tokens(e.tk, e.kx) THEN "not-one-attribute"
                               ELSE IF ~A_ReadBack(e.rb, e.drb, e.dv) THEN "reads-back-different"
                               ELSE IF ~A_UnquotedOnlyIf(e.r) THEN "unquoted-unsafe"
                               ELSE IF ~A_UnquotedIf(e.r) THEN "quoted-needlessly"
                               ELSE IF ~A_KeepsQuote(e.r) THEN "original-quote-not-kept"
                               ELSE "dearer-quote"
           [] e.ev = "CData" -> IF ~e.u THEN "declined-but-changed"
                                ELSE IF ~C_Text(e.r, e.tk, e.tx) THEN "not-text"
                                ELSE "unescapes-different"
           [] OTHER -> "unknown-event"

NRecordFail ==
    CSVWrite("%1$s", <<ToJson([t |-> e.t, i |-> e.i, l |-> l, ev |-> e.ev, why |-> Why])>>, FailFile)

TStart == /\ l <= NEvents /\ IsStart
          /\ New(e.in, [cfg |-> e.cfg, lang |-> e.lang, oq |-> e.oq, mq |-> e.mq])
          /\ bad' = FALSE /\ l' = l + 1
TStep  == /\ l <= NEvents /\ ~IsStart /\ ~bad
          /\ Returned /\ Step
          /\ l' = l + 1 /\ UNCHANGED bad
TFail  == /\ l <= NEvents /\ ~IsStart /\ ~bad
          /\ ~(Returned /\ ENABLED Step)
          /\ NRecordFail
          /\ bad' = TRUE /\ l' = l + 1 /\ UNCHANGED nvars
TSkip  == /\ l <= NEvents /\ ~IsStart /\ bad
          /\ l' = l + 1 /\ UNCHANGED <<nvars, bad>>

TNext == TStart \/ TStep \/ TFail \/ TSkip
TSpec == TInit /\ [][TNext]_tvars

TInv == bad \/ Inv
Done == Consumed(l)
Accepted == TLCGet("stats").diameter = NEvents + 1
=============================================================================
