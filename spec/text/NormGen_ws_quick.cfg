SPECIFICATION Spec
CONSTANTS
  Kind = "ws"
  MaxLen = 7
  FullLen = 99
INVARIANT Emit
CHECK_DEADLOCK FALSE
