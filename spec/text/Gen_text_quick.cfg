SPECIFICATION Spec
CONSTANTS
  Fam = "text"
  MaxLen = 5
INVARIANT Emit
CHECK_DEADLOCK FALSE
