SPECIFICATION Spec
CONSTANTS
  Fam = "enc"
  MaxLen = 4
INVARIANT Emit
CHECK_DEADLOCK FALSE
