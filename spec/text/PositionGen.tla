---------------------------- MODULE PositionGen ----------------------------
(***************************************************************************)
(* Generator (kind G) for C15: TLC enumerates texts and, for every byte    *)
(* offset of interest, what Position.tla says must be observed.            *)
(*                                                                         *)
(*  Mode "enum": every text of at most MaxLen character classes, every     *)
(*               byte offset in -1 .. len+1.                               *)
(*  Mode "run" : texts  run(c1,n1) . x . run(c2,n2)  with n1, n2 in Counts *)
(*               (lines shorter / longer than the elision limit, the cut   *)
(*               points of the three elision regimes), x any class, and    *)
(*               the offsets around x, around the cut points, at the ends. *)
(*                                                                         *)
(*  Mode "lines": run(\n, n) . run(c, 3) with n in LineCounts: line numbers  *)
(*               with five and with more digits.                           *)
(*                                                                         *)
(* Texts are emitted in run-length form; the harness expands them.  Every  *)
(* state is one case (one text with all its offsets), written by the       *)
(* invariant EmitInv.  In mode "enum" the invariant AgreeInv checks, for   *)
(* every text and offset, that the run-length operators of Position.tla    *)
(* (section 2) equal the definition as the statement words it (section 1). *)
(***************************************************************************)
EXTENDS Position, TLC, Json, CSV, IOUtils

CONSTANTS Mode,        \* "enum" | "run" | "lines"
          MaxLen,      \* enum: texts up to this many characters
          RunClasses,  \* run: classes of the two runs
          XClasses,    \* run: classes of the single character between the runs
          Counts,      \* run: run lengths
          LineCounts,  \* lines: numbers of leading line breaks
          Emit

VARIABLES text,   \* enum: the text
          rl      \* run: <<<<c1,n1>>, <<x,1>>, <<c2,n2>>>> (counts -1: not chosen yet) or <<>>
gvars == <<text, rl>>

Init == text = <<>> /\ rl = <<>>

NextEnum == /\ Mode = "enum" /\ Len(text) < MaxLen
            /\ \E c \in Classes : text' = Append(text, c)
            /\ UNCHANGED rl
\* two steps so that the enumeration is spread over the workers
NextRun == /\ Mode = "run"
           /\ \/ /\ rl = <<>>
                 /\ \E c1 \in RunClasses, c2 \in RunClasses, x \in XClasses :
                        rl' = <<<<c1, -1>>, <<x, 1>>, <<c2, -1>>>>
              \/ /\ rl # <<>> /\ rl[1][2] = -1
                 /\ \E n1 \in Counts, n2 \in Counts :
                        rl' = <<<<rl[1][1], n1>>, rl[2], <<rl[3][1], n2>>>>
           /\ UNCHANGED text
NextLines == /\ Mode = "lines" /\ rl = <<>>
             /\ \E n \in LineCounts, c \in RunClasses : rl' = <<<<LF, n>>, <<c, 3>>>>
             /\ UNCHANGED text
Next == NextEnum \/ NextRun \/ NextLines
Spec == Init /\ [][Next]_gvars

IsCase == IF Mode = "enum" THEN TRUE ELSE rl # <<>> /\ rl[1][2] >= 0

\* the case's text in run-length form: empty runs dropped, equal neighbours merged
Runs == IF Mode = "enum" THEN AsRuns(text)
        ELSE IF Mode = "lines" THEN rl
        ELSE LET nz == SelectSeq(rl, LAMBDA r : r[2] > 0) IN
             IF Len(nz) = 3 /\ nz[1][1] = nz[2][1] /\ nz[2][1] = nz[3][1] /\ nz[1][1] \in NonBreak
                  THEN <<<<nz[1][1], nz[1][2] + 1 + nz[3][2]>>>>
             ELSE IF Len(nz) >= 2 /\ nz[1][1] = nz[2][1] /\ nz[1][1] \in NonBreak
                  THEN <<<<nz[1][1], nz[1][2] + nz[2][2]>>>> \o SubSeq(nz, 3, Len(nz))
             ELSE IF Len(nz) = 3 /\ nz[2][1] = nz[3][1] /\ nz[2][1] \in NonBreak
                  THEN <<nz[1], <<nz[2][1], nz[2][2] + nz[3][2]>>>>
             ELSE nz

(* ---- offsets ---- *)
RECURSIVE BytesOf(_, _)
BytesOf(rt, j) == IF j > Len(rt) THEN 0 ELSE rt[j][2] * W(rt[j][1]) + BytesOf(rt, j + 1)

\* run mode: character indices (0-based, index n = the end) worth looking at.  With x at index n1:
\*   A  absolute columns around the "cut the rear" limit,  B  distances to the end around the "cut the front"
\*   limit,  D  distances to x such that x sits next to the caret or at an edge of a two-sided window.
A == {0, 20, 39, 40, 41}
B == {0, 22, 23, 24, 25}
D == {0, 1, 20, 21}
RunIdx(n1, n) == {i \in 0..n : \/ i \in A \/ (n - i) \in B
                               \/ (i - n1) \in D \/ (n1 - i) \in D
                               \/ (i - (n1 + 1)) \in A}
\* byte offset at which character i (0-based) of run(c1,n1).x.run(c2,n2) starts
StartIdx(i) == LET n1 == rl[1][2]  w1 == W(rl[1][1])  wx == W(rl[2][1])  w2 == W(rl[3][1]) IN
               IF i <= n1 THEN i * w1 ELSE n1 * w1 + wx + (i - n1 - 1) * w2
RunOffsets ==
    LET n1 == rl[1][2]  n == n1 + 1 + rl[3][2]  wx == W(rl[2][1]) IN
    {StartIdx(i) : i \in RunIdx(n1, n)}
    \cup {-1, StartIdx(n) + 1}
    \cup (IF wx > 1 THEN {StartIdx(n1) + 1, StartIdx(n1) + wx - 1} ELSE {})      \* inside x

\* lines mode: the last \n, then the first, second and last character of the last line, and its end
LinesOffsets == LET n == rl[1][2]  w == W(rl[2][1]) IN {n - 1, n, n + w, n + 2 * w, n + 3 * w}

Offsets(rt) == IF Mode = "enum" THEN (-1)..(BytesOf(rt, 1) + 1) ELSE IF Mode = "lines" THEN LinesOffsets ELSE RunOffsets

(* ---- expectations, all from Position.tla ---- *)
Min2(a, b) == IF a < b THEN a ELSE b
SMin(S) == CHOOSE x \in S : \A y \in S : x <= y
SMax(S) == CHOOSE x \in S : \A y \in S : x >= y

\* one row per offset: the line, the admissible columns colLo..colHi, the start of the line (characters before
\* it), its length up to the next \n/\r/end, and the 0-based index in the line of the character the caret
\* designates when the column is colLo (= n: right after the text)
RowS(rt, off, s, cs) ==
    LET n == HardLen(rt, s.ls) IN
    [off |-> off, line |-> s.line, colLo |-> SMin(cs), colHi |-> SMax(cs), ls |-> s.ls, n |-> n,
     tgt |-> Min2(SMin(cs) - 1, n)]
Row(rt, t, off) == CHOOSE r \in {RowS(rt, off, s, ColSetS(t, s, off)) : s \in {Scan(rt, off)}} : TRUE

Case(rt, t) ==
    [mode |-> Mode,
     rl   |-> rt,
     blen |-> BytesOf(rt, 1),
     rows |-> {Row(rt, t, off) : off \in Offsets(rt)}]      \* a set: serialised as an array, order irrelevant

CaseFile == IOEnv.VERIF_CASES
EmitInv == (Emit /\ IsCase) => CSVWrite("%1$s", <<ToJson(Case(Runs, Expand(Runs)))>>, CaseFile)

AgreeInv == (IsCase /\ Mode = "enum") => \A off \in (-1)..(ByteLen(text) + 1) : Agrees(text, off)
\* run mode: the declarative definition is affordable only for a few offsets of the shorter texts
AgreeInvRun == (IsCase /\ Mode = "run" /\ rl[1][2] + rl[3][2] <= 42) =>
    LET t == Expand(Runs) IN
    /\ AsRuns(t) = Runs
    /\ \A off \in {StartIdx(rl[1][2]), StartIdx(rl[1][2] + 1), StartIdx(rl[1][2] + 1 + rl[3][2])} : Agrees(t, off)
=============================================================================
