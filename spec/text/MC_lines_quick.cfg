SPECIFICATION Spec
CONSTANTS
  Mode = "lines"
  MaxLen = 0
  RunClasses = {1, 3}
  XClasses = {}
  Counts = {}
  LineCounts = {9998, 9999, 99998, 99999}
  Emit = TRUE
INVARIANT EmitInv
CHECK_DEADLOCK FALSE
