SPECIFICATION Spec
CONSTANTS
  Fam = "num"
  MaxLen = 6
INVARIANT Emit
CHECK_DEADLOCK FALSE
