SPECIFICATION Spec
CONSTANTS
  Fam = "media"
  MaxLen = 3
INVARIANT Emit
CHECK_DEADLOCK FALSE
