SPECIFICATION Spec
CONSTANTS
  Kind = "cdata"
  MaxLen = 8
  FullLen = 99
INVARIANT Emit
CHECK_DEADLOCK FALSE
