---------------------------- MODULE HelpersTrace ----------------------------
(***************************************************************************)
(* Trace specification (kind T) for C16: every event recorded from the     *)
(* real helpers must be a step of Helpers.tla.  A trace is the constructor *)
(* event New{fam, s, facts} followed by the calls made on that argument.   *)
(***************************************************************************)
EXTENDS Helpers, TraceIO

VARIABLES l, bad
tvars == <<hvars, l, bad>>

e == Trace[l]

TInit == /\ l = 1 /\ bad = FALSE
         /\ inp = <<>> /\ aux = [fam |-> "none"]

IsStart == e.ev = "New"

\* the property-level action that has to explain the current event
Step ==
    CASE e.ev = "Number"          -> Number(e.r)
      [] e.ev = "Dimension"       -> Dimension(e.n, e.u)
      [] e.ev = "EncodeURL"       -> EncodeURL(e.tab, e.r)
      [] e.ev = "DecodeURL"       -> DecodeURL(e.r)
      [] e.ev = "RoundTrip"       -> RoundTrip(e.r)
      [] e.ev = "DataURI"         -> DataURI(e.err, e.mt, e.data)
      [] e.ev = "Mediatype"       -> Mediatype(e.mt, e.k, e.v)
      [] e.ev = "ToLower"         -> ToLower(e.r)
      [] e.ev = "IsAllWhitespace" -> IsAllWhitespace(e.r)
      [] e.ev = "TrimWhitespace"  -> TrimWhitespace(e.r, e.lo)
      [] e.ev = "EqualFold"       -> EqualFold(e.r)
      [] e.ev = "ToHash"          -> ToHash(e.s, e.r)
      [] e.ev = "HashString"      -> HashString(e.h, e.r)
      [] OTHER                    -> FALSE

\* a call that did not return normally (panic) is explained by no action at all
Returned == IF Has(e, "out") THEN e.out = "ret" ELSE TRUE

TStart == /\ l <= NEvents /\ IsStart
          /\ New(e)
          /\ bad' = FALSE /\ l' = l + 1
TStep  == /\ l <= NEvents /\ ~IsStart /\ ~bad
          /\ Returned /\ Step
          /\ l' = l + 1 /\ UNCHANGED bad
TFail  == /\ l <= NEvents /\ ~IsStart /\ ~bad
          /\ ~(Returned /\ ENABLED Step)
          /\ RecordFail(e, l)
          /\ bad' = TRUE /\ l' = l + 1 /\ UNCHANGED hvars
TSkip  == /\ l <= NEvents /\ ~IsStart /\ bad
          /\ l' = l + 1 /\ UNCHANGED <<hvars, bad>>

TNext == TStart \/ TStep \/ TFail \/ TSkip
TSpec == TInit /\ [][TNext]_tvars

TInv == bad \/ Inv
Done == Consumed(l)
Accepted == TLCGet("stats").diameter = NEvents + 1
=============================================================================
