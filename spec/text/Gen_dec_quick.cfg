SPECIFICATION Spec
CONSTANTS
  Fam = "dec"
  MaxLen = 6
INVARIANT Emit
CHECK_DEADLOCK FALSE
