---------------------------- MODULE HelpersGen ----------------------------
(***************************************************************************)
(* Generator (kind G) for C16: TLC enumerates every string over a small    *)
(* alphabet of character classes up to a length bound (or every shape of a *)
(* structured value), concretises it to bytes (representative of a class   *)
(* chosen by VERIF_SEED, position and context) and writes the argument     *)
(* with what Helpers.tla says must be observed.  One ndjson line per state *)
(* carries the cases of all one-symbol extensions of that state (fewer,    *)
(* longer lines: CSVWrite costs per line).                                 *)
(*                                                                         *)
(* Fam selects the function table:                                         *)
(*   num      Number / Dimension          strings <= MaxLen                *)
(*   dec      DecodeURL                   strings <= MaxLen                *)
(*   text     ToLower/Trim/IsAllWS        strings <= MaxLen                *)
(*   fold     EqualFold                   pairs, both <= MaxLen            *)
(*   enc      EncodeURL, both tables      all 256 bytes alone and in       *)
(*                                        context + strings <= MaxLen      *)
(*   datauri  DataURI                     shapes x payloads <= MaxLen      *)
(*   media    Mediatype                   type/subtype + <= MaxLen params  *)
(***************************************************************************)
EXTENDS Integers, Sequences, FiniteSets, TLC, Json, CSV, IOUtils

CONSTANTS Fam, MaxLen

VARIABLE st
H == INSTANCE Helpers WITH inp <- st, aux <- st

Seed     == atoi(IOEnv.VERIF_SEED)
CaseFile == IOEnv.VERIF_CASES
\* {"url":[0/1 x 256], "datauri":[0/1 x 256], ...} dumped from the package by `vdrive helpers tables`
Tables   == JsonDeserialize(IOEnv.VERIF_TABLES)

(* ---------------------------- alphabets: class symbol -> alternatives (byte strings) ---------------------------- *)
Other == << <<0>>, <<255>>, <<47>>, <<58>>, <<64>>, <<91>>, <<96>>, <<123>>, <<195, 169>>, <<32>>, <<44>>,
            <<226, 128, 168>>, <<128>>, <<240, 159, 152, 128>>, <<127>>, <<195>> >>

NumReps ==
    "+" :> << <<43>> >> @@ "-" :> << <<45>> >> @@ "." :> << <<46>> >> @@ "e" :> << <<101>> >> @@ "E" :> << <<69>> >> @@
    "0" :> << <<48>>, <<49>>, <<52>> >> @@ "9" :> << <<57>>, <<56>>, <<53>> >> @@ "%" :> << <<37>> >> @@
    "a" :> << <<97>>, <<122>>, <<65>>, <<90>>, <<112>>, <<100>>, <<102>>, <<70>>, <<120>> >> @@
    "x" :> Other

DecReps ==
    "%" :> << <<37>> >> @@ "+" :> << <<43>> >> @@
    "h" :> << <<48>>, <<57>>, <<52>>, <<49>>, <<50>> >> @@                  \* hex digit 0-9
    "l" :> << <<97>>, <<102>>, <<101>>, <<99>> >> @@                        \* hex digit a-f
    "H" :> << <<65>>, <<70>>, <<69>>, <<66>> >> @@                          \* hex digit A-F
    "n" :> << <<103>>, <<71>>, <<47>>, <<58>>, <<64>>, <<96>>, <<120>> >> @@  \* just outside the hex ranges
    "o" :> << <<0>>, <<255>>, <<32>>, <<195, 169>>, <<61>>, <<38>>, <<176>> >>

TextReps ==
    "sp" :> << <<32>> >> @@ "nl" :> << <<10>> >> @@ "tab" :> << <<9>> >> @@ "ff" :> << <<12>> >> @@ "cr" :> << <<13>> >> @@
    "nw" :> << <<11>>, <<31>>, <<33>>, <<8>>, <<14>>, <<160>>, <<133>>,          \* near misses: not whitespace
               \* ... and characters whose CODE POINT ends in a white-space byte: U+2020, U+0120, U+2009, U+200A, U+0109, U+200C
               <<226, 128, 160>>, <<196, 160>>, <<226, 128, 137>>, <<226, 128, 138>>, <<196, 137>>, <<226, 128, 140>> >> @@
    "U"  :> << <<65>>, <<90>>, <<77>> >> @@ "l" :> << <<97>>, <<122>>, <<109>> >> @@
    "o"  :> << <<0>>, <<255>>, <<64>>, <<91>>, <<96>>, <<123>>, <<195, 137>>, <<193>>, <<225>> >>

FoldS == {64, 65, 90, 91, 96, 97, 122, 123, 193, 225}       \* around the two letter ranges, and letter + 0x80
FoldT == {64, 91, 96, 97, 122, 123, 225, 33}                \* the same without upper case ('!' = 'A' - 32)

Reps == CASE Fam = "num" -> NumReps [] Fam = "dec" -> DecReps [] Fam = "text" -> TextReps [] OTHER -> <<>>
Syms == DOMAIN Reps

\* Which alternative stands for a class symbol depends on the seed, the position and the whole class string (a
\* position-weighted sum of the symbols), so that every alternative meets every syntactic role within one run.
RECURSIVE Mix(_, _)
Mix(cls, i) == IF i > Len(cls) THEN 0 ELSE i * Reps[cls[i]][1][1] + Mix(cls, i + 1)
RECURSIVE ConcFrom(_, _, _)
ConcFrom(cls, i, m) ==
    IF i > Len(cls) THEN <<>>
    ELSE LET alts == Reps[cls[i]] IN alts[((Seed + i + m) % Len(alts)) + 1] \o ConcFrom(cls, i + 1, m)
Conc(cls) == ConcFrom(cls, 1, Mix(cls, 1))

SeqsUpTo(S, n) == UNION { [1..k -> S] : k \in 0..n }

(* ---------------------------- cases: argument + what the specification says about it ---------------------------- *)
NumCase(s)  == LET n == H!NumberLen(s) IN [s |-> s, n |-> n, u |-> H!DimUnitsN(s, n)]
\* wf = 0: a malformed escape; r is then only the reference "left as is" and does not bind the code
DecCase(s)  == [s |-> s, wf |-> IF H!WellFormedPct(s) THEN 1 ELSE 0, r |-> H!Decode(s)]
TextCase(s) == [s |-> s, low |-> H!LowerSeq(s), trim |-> H!Trim(s),
                lo |-> IF H!Trim(s) = <<>> THEN -1 ELSE H!LeadWS(s), allws |-> IF H!AllWS(s) THEN 1 ELSE 0]
FoldCase(s, t) == [s |-> s, t |-> t, r |-> IF H!FoldEq(s, t) THEN 1 ELSE 0]
MarksOf(tab, s) == [i \in 1..Len(s) |-> Tables[tab][s[i] + 1]]
EncCase(s)  == [s |-> s, mu |-> MarksOf("url", s), md |-> MarksOf("datauri", s),
                ru |-> H!Encode(s, MarksOf("url", s)), rd |-> H!Encode(s, MarksOf("datauri", s))]

StringFams == {"num", "dec", "text"}
CaseOf(s) == CASE Fam = "num" -> NumCase(s) [] Fam = "dec" -> DecCase(s) [] Fam = "text" -> TextCase(s)

(* ---------------------------- structured families ---------------------------- *)
\* EncodeURL: all 256 byte values alone, doubled and in context; short strings over marked/unmarked bytes
EncStrings == { <<b>> : b \in 0..255 } \cup { <<b, b>> : b \in 0..255 } \cup { <<97, b, 37>> : b \in 0..255 }
              \cup { <<255, b>> : b \in 0..255 } \cup SeqsUpTo({0, 37, 43, 97, 255, 32, 126}, MaxLen)

\* DataURI: media type absent / present, parameters, payloads over bytes that matter to the syntax
DUBases   == { <<>>, <<116, 101, 120, 116, 47, 104, 116, 109, 108>>, <<97, 47, 98>> }        \* "", "text/html", "a/b"
DUParams  == { <<>>, <<59, 99, 104, 97, 114, 115, 101, 116, 61, 117, 116, 102, 45, 56>>,        \* ";charset=utf-8"
               <<59, 97, 61, 98, 59, 99, 61, 100>> }                                            \* ";a=b;c=d"
DUPayload == {0, 37, 43, 44, 59, 61, 97, 255, 32}
\* b64: base64;  pctall / pctlower: every byte as %XX / %xx;  pctmin: all but RFC 3986 unreserved bytes escaped;
\* query: url.QueryEscape (space becomes '+');  tab: the bytes DataURIEncodingTable marks are escaped ('+' is not)
DUEncs    == {"b64", "pctall", "pctlower", "pctmin", "query", "tab"}
Subst(s, a, b) == [i \in 1..Len(s) |-> IF s[i] = a THEN b ELSE s[i]]
\* expected: media type (text/plain when absent; parameters may or may not be part of it) and the exact payload;
\* where the encoded text has a literal '+' both readings of it are accepted (see Helpers!PayloadOK)
DUCase(base, params, enc, payload) ==
    [kind |-> "enc", base |-> base, params |-> params, enc |-> enc, payload |-> payload,
     pay |-> {payload} \cup (IF enc = "query" THEN {Subst(payload, 32, 43)} ELSE {})
                       \cup (IF enc = "tab" /\ Tables["datauri"][43 + 1] = 0 THEN {Subst(payload, 43, 32)} ELSE {}),
     mt |-> IF base = <<>> THEN H!TextPlain ELSE base]
\* malformed shapes: no "data:" prefix, no comma, invalid base64  =>  an error
DUBad == { <<>>, <<100>>, <<100, 97, 116, 97>>, <<100, 97, 116, 97, 58>>,                       \* "", "d", "data", "data:"
           <<100, 97, 116, 97, 44, 97>>, <<100, 97, 116, 58, 44, 97>>, <<97, 58, 44, 97>>,     \* "data,a" "dat:,a" "a:,a"
           <<32, 100, 97, 116, 97, 58, 44, 97>>, <<44, 100, 97, 116, 97, 58>>,                 \* " data:,a" ",data:"
           <<100, 97, 116, 97, 58, 97, 47, 98>>, <<100, 97, 116, 97, 58, 59, 98, 97, 115, 101, 54, 52>>,   \* "data:a/b" "data:;base64"
           <<100, 97, 116, 97, 58, 97, 47, 98, 59, 99, 61, 100>>, <<100, 97, 116, 97, 58, 37, 50, 67>>,    \* "data:a/b;c=d" "data:%2C"
           <<100, 97, 116, 97, 58, 59, 98, 97, 115, 101, 54, 52, 44, 81>>,                     \* "data:;base64,Q"
           <<100, 97, 116, 97, 58, 59, 98, 97, 115, 101, 54, 52, 44, 81, 81>>,                 \* "data:;base64,QQ"
           <<100, 97, 116, 97, 58, 59, 98, 97, 115, 101, 54, 52, 44, 81, 81, 61>>,             \* "data:;base64,QQ="
           <<100, 97, 116, 97, 58, 59, 98, 97, 115, 101, 54, 52, 44, 81, 33, 61, 61>>,         \* "data:;base64,Q!=="
           <<100, 97, 116, 97, 58, 59, 98, 97, 115, 101, 54, 52, 44, 81, 81, 61, 61, 81>>,     \* "data:;base64,QQ==Q"
           <<100, 97, 116, 97, 58, 59, 98, 97, 115, 101, 54, 52, 44, 37, 52, 49>>,             \* "data:;base64,%41"
           <<100, 97, 116, 97, 58, 97, 47, 98, 59, 98, 97, 115, 101, 54, 52, 44, 61, 61, 61, 61>> }   \* "data:a/b;base64,===="

\* Mediatype: lower-case unquoted type/subtype(; k=v)* with optional spaces
MTypes  == { <<97>>, <<116, 101, 120, 116>> }                     \* "a", "text"
MSubs   == { <<98>>, <<120, 45, 121, 43, 122, 46, 49>> }          \* "b", "x-y+z.1"
MKeys   == << <<107>>, <<99, 104, 97, 114, 115, 101, 116>>, <<113, 45, 49>> >>     \* "k", "charset", "q-1": the j-th parameter uses key j
MVals   == { <<118>>, <<117, 116, 102, 45, 56>>, <<48, 46, 53>> }  \* "v", "utf-8", "0.5"
Sp(n)   == [i \in 1..n |-> 32]
MParamChoices == [pre : 0..2, post : 0..1, v : MVals]
RECURSIVE MParams(_, _)
MParams(ps, j) == IF j > Len(ps) THEN <<>>
                  ELSE Sp(ps[j].pre) \o <<59>> \o Sp(ps[j].post) \o MKeys[j] \o <<61>> \o ps[j].v \o MParams(ps, j + 1)
MCase(lead, ty, sub, ps, trail) ==
    [s |-> Sp(lead) \o ty \o <<47>> \o sub \o MParams(ps, 1) \o Sp(trail),
     mt |-> ty \o <<47>> \o sub,
     k |-> [j \in 1..Len(ps) |-> MKeys[j]], v |-> [j \in 1..Len(ps) |-> ps[j].v]]

(* ---------------------------- the state space ---------------------------- *)
Init ==
    CASE Fam \in StringFams -> st = <<>>
      [] Fam = "fold"    -> st \in SeqsUpTo(FoldS, MaxLen)
      [] Fam = "enc"     -> st \in EncStrings
      [] Fam = "datauri" -> st \in ([base : DUBases, payload : SeqsUpTo(DUPayload, MaxLen)] \cup { [bad |-> TRUE] })
      [] Fam = "media"   -> st \in [lead : 0..1, ty : MTypes, sub : MSubs, ps : SeqsUpTo(MParamChoices, MaxLen), trail : 0..1]

\* string families: a state is a class string of length < MaxLen; it emits the cases of its one-symbol extensions
Next == /\ Fam \in StringFams
        /\ Len(st) < MaxLen - 1
        /\ \E c \in Syms : st' = Append(st, c)
Spec == Init /\ [][Next]_st

CasesOf(x) ==
    CASE Fam \in StringFams -> (IF x = <<>> THEN {CaseOf(<<>>)} ELSE {}) \cup { CaseOf(Conc(Append(x, c))) : c \in Syms }
      [] Fam = "fold"    -> { FoldCase(x, t) : t \in SeqsUpTo(FoldT, MaxLen) }
      [] Fam = "enc"     -> { EncCase(x) }
      [] Fam = "datauri" -> IF "bad" \in DOMAIN x THEN { [kind |-> "bad", s |-> b] : b \in DUBad }
                            ELSE { DUCase(x.base, p, en, x.payload) : p \in DUParams, en \in DUEncs }
      [] Fam = "media"   -> { MCase(x.lead, x.ty, x.sub, x.ps, x.trail) }

\* evaluated once per distinct state: writes the line
Emit == CSVWrite("%1$s", <<ToJson([f |-> Fam, c |-> CasesOf(st)])>>, CaseFile)
=============================================================================
