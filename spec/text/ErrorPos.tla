------------------------------ MODULE ErrorPos ------------------------------
(***************************************************************************)
(* Property-level specification (kind P) of C15 as a set of allowed        *)
(* observations.  Two kinds of subject:                                    *)
(*                                                                         *)
(*  a text (NewText) on which parse.Position is called at some offsets:    *)
(*      Pos(off, line, col, o) is allowed exactly when Position.tla says   *)
(*      that (line, col, context-as-parsed o) is a correct answer;         *)
(*                                                                         *)
(*  an input (NewInput) handed to a lexer/parser of the library:           *)
(*      ErrPos(line, col, matches, cur, same) for the *parse.Error it     *)
(*      produced.                                                          *)
(*      matches lists the offsets k in 0..len for which parse.Position     *)
(*      (input, k) returns exactly the error's (Line, Column, Context) --  *)
(*      the harness only tabulates that equality.  The statement demands:  *)
(*        - some byte INSIDE the input has that position (matches # {}),   *)
(*          and for a valid-UTF-8 input line/column of such a byte are     *)
(*          what Position.tla computes;                                    *)
(*        - where the caller holds the parser's Input and the parser       *)
(*          stops at the error (cur >= 0), it is the byte the parser       *)
(*          stopped at;                                                    *)
(*        - if the input is a valid document with ONE illegal character    *)
(*          inserted at a token boundary (ins >= 0), line and column are   *)
(*          exactly that character's, and an error is reported at all.     *)
(*                                                                         *)
(* For inputs the class of a character only conveys its width and break    *)
(* kind (the context is compared as a string by way of matches).           *)
(***************************************************************************)
EXTENDS Position

VARIABLES subject,  \* "none" | "text" | "input"
          rt,       \* the text / input in run-length form (<<>> for an input that is not valid UTF-8)
          text,     \* Expand(rt)
          valid,    \* input is valid UTF-8 (then rt describes it)
          ilen,     \* length in bytes
          ins       \* offset of the inserted illegal character, or -1
pvars == <<subject, rt, text, valid, ilen, ins>>

RECURSIVE BytesOfRuns(_, _)
BytesOfRuns(r, j) == IF j > Len(r) THEN 0 ELSE r[j][2] * W(r[j][1]) + BytesOfRuns(r, j + 1)

NewText(r) ==
    /\ RunsOK(r)
    /\ subject' = "text" /\ rt' = r /\ text' = Expand(r) /\ valid' = TRUE
    /\ ilen' = BytesOfRuns(r, 1) /\ ins' = -1

NewInput(r, v, n, i) ==
    /\ RunsOK(r) /\ (v => BytesOfRuns(r, 1) = n) /\ i >= -1 /\ i < n
    /\ subject' = "input" /\ rt' = r /\ text' = Expand(r) /\ valid' = v /\ ilen' = n /\ ins' = i

\* parse.Position(text, off) returned (line, col, context); o is the context as the harness parsed it
Pos(off, line, col, o) ==
    /\ subject = "text"
    /\ PositionOK(rt, text, off, line, col, o)
    /\ UNCHANGED pvars

ToSet(s) == {s[j] : j \in DOMAIN s}

\* same: a second parser over the same input that is asked for its error (Err()) ONLY at this report hands out the same line,
\* column and context -- what an error carries is decided by where the parser stopped, not by which reports the caller looked
\* at before
ErrPos(line, col, matches, cur, same) ==
    /\ subject = "input"
    /\ same
    /\ matches # <<>>                                                         \* that byte lies inside the input
    /\ \A j \in DOMAIN matches : matches[j] >= 0 /\ matches[j] <= ilen
    /\ (valid => \E j \in DOMAIN matches : LineColOK(rt, text, matches[j], line, col))
    /\ (cur >= 0 => cur \in ToSet(matches))                                   \* the byte at which the parser stopped
    /\ (ins >= 0 => valid /\ line = LineOf(rt, ins) /\ col = ColOf(rt, ins))  \* exactly the inserted character
    /\ UNCHANGED pvars

\* the parser finished without a *parse.Error: fine, unless an illegal character had been inserted
NoErr == subject = "input" /\ ins < 0 /\ UNCHANGED pvars

TypeOK == subject \in {"none", "text", "input"} /\ valid \in BOOLEAN /\ ilen >= 0 /\ ins >= -1
=============================================================================
