----------------------------- MODULE InsertGen -----------------------------
(***************************************************************************)
(* Generator (kind G) for the last clause of C15: "for a JS or JSON        *)
(* document with a single illegal character inserted between two tokens    *)
(* the reported position is exactly that character".                       *)
(*                                                                         *)
(* A document is a sequence of tokens from a fixed table (bytes of every   *)
(* token below; the harness does not know the tables, it receives bytes).  *)
(* JS documents are one statement from JsStmts, or one of them before or   *)
(* after one of the first three, joined by one of                          *)
(* JsSeps (all five line-break kinds occur, multi-byte characters occur in *)
(* strings, identifiers, comments); JSON documents are JsonDocs.  The      *)
(* harness first requires the untouched document to parse, then inserts    *)
(* each illegal character at each interior token boundary.                 *)
(*                                                                         *)
(* Expected line and column of the inserted character come from            *)
(* Position.tla applied to the classes of the document's characters.       *)
(***************************************************************************)
EXTENDS Position, TLC, Json, CSV, IOUtils

CONSTANTS Suites,     \* subset of {"js", "json"}
          TwoStmts,   \* TRUE: also JS documents made of two statements
          Emit

JsTok ==
    [var      |-> <<118, 97, 114>>,   \* 'var'
     sp       |-> <<32>>,   \* ' '
     a        |-> <<97>>,   \* 'a'
     b        |-> <<98>>,   \* 'b'
     f        |-> <<102>>,   \* 'f'
     x        |-> <<120>>,   \* 'x'
     eq       |-> <<61>>,   \* '='
     n1       |-> <<49>>,   \* '1'
     n23      |-> <<50, 51>>,   \* '23'
     semi     |-> <<59>>,   \* ';'
     plus     |-> <<43>>,   \* '+'
     lp       |-> <<40>>,   \* '('
     rp       |-> <<41>>,   \* ')'
     lb       |-> <<123>>,   \* '{'
     rb       |-> <<125>>,   \* '}'
     comma    |-> <<44>>,   \* ','
     colon    |-> <<58>>,   \* ':'
     if       |-> <<105, 102>>,   \* 'if'
     return   |-> <<114, 101, 116, 117, 114, 110>>,   \* 'return'
     function |-> <<102, 117, 110, 99, 116, 105, 111, 110>>,   \* 'function'
     str      |-> <<39, 195, 169, 226, 130, 172, 39>>,   \* "'é€'"
     ide      |-> <<195, 169>>,   \* 'é'
     cmt      |-> <<47, 42, 240, 159, 152, 128, 42, 47>>,   \* '/*😀*/'
     tpl0     |-> <<96, 116, 36, 123>>,   \* '`t${'
     tpl1     |-> <<125, 118, 96>>,   \* '}v`'
     lbr      |-> <<91>>,   \* '['
     rbr      |-> <<93>>,   \* ']'
     dot      |-> <<46>>,   \* '.'
     arrow    |-> <<61, 62>>,   \* '=>'
     lf       |-> <<10>>,   \* '\n'
     cr       |-> <<13>>,   \* '\r'
     crlf     |-> <<13, 10>>,   \* '\r\n'
     ls       |-> <<226, 128, 168>>,   \* '\u2028'
     ps       |-> <<226, 128, 169>>,   \* '\u2029'
     tab      |-> <<9>>,   \* '\t'
     re       |-> <<47, 120, 92, 47, 91, 47, 93, 47, 103>>,   \* '/x\\/[/]/g'
     class    |-> <<99, 108, 97, 115, 115>>,   \* 'class'
     A        |-> <<65>>,   \* 'A'
     m        |-> <<109>>,   \* 'm'
     for      |-> <<102, 111, 114>>,   \* 'for'
     qdot     |-> <<63, 46>>,   \* '?.'
     q        |-> <<63>>,   \* '?'
     c        |-> <<99>>,   \* 'c'
     d        |-> <<100>>,   \* 'd'
     async    |-> <<97, 115, 121, 110, 99>>,   \* 'async'
     await    |-> <<97, 119, 97, 105, 116>>,   \* 'await'
     g        |-> <<103>>,   \* 'g'
     try      |-> <<116, 114, 121>>,   \* 'try'
     catch    |-> <<99, 97, 116, 99, 104>>,   \* 'catch'
     e        |-> <<101>>,   \* 'e'
     tplA     |-> <<96, 120, 36, 123>>,   \* '`x${'
     tplM     |-> <<125, 121, 36, 123>>,   \* '}y${'
     tplZ     |-> <<125, 122, 96>>,   \* '}z`'
     of       |-> <<111, 102>>,   \* 'of'
     use      |-> <<117, 115, 101>>,   \* 'use'  (a name that begins like a unicode escape does after a backslash)
     undef    |-> <<117, 110, 100, 101, 102, 105, 110, 101, 100>>]   \* 'undefined'
JsonTok ==
    [lbr      |-> <<91>>,   \* '['
     rbr      |-> <<93>>,   \* ']'
     lb       |-> <<123>>,   \* '{'
     rb       |-> <<125>>,   \* '}'
     comma    |-> <<44>>,   \* ','
     colon    |-> <<58>>,   \* ':'
     n1       |-> <<49>>,   \* '1'
     n23      |-> <<45, 50, 46, 53, 101, 51>>,   \* '-2.5e3'
     sa       |-> <<34, 97, 34>>,   \* '"a"'
     sb       |-> <<34, 98, 34>>,   \* '"b"'
     se       |-> <<34, 195, 169, 226, 130, 172, 34>>,   \* '"é€"'
     sm       |-> <<34, 240, 159, 152, 128, 34>>,   \* '"😀"'
     true     |-> <<116, 114, 117, 101>>,   \* 'true'
     false    |-> <<102, 97, 108, 115, 101>>,   \* 'false'
     null     |-> <<110, 117, 108, 108>>,   \* 'null'
     sp       |-> <<32>>,   \* ' '
     tab      |-> <<9>>,   \* '\t'
     lf       |-> <<10>>,   \* '\n'
     cr       |-> <<13>>,   \* '\r'
     crlf     |-> <<13, 10>>]   \* '\r\n'

JsStmts == <<
    <<"var", "sp", "a", "sp", "eq", "sp", "n1", "semi">>,                       \* var a = 1;
    <<"a", "eq", "b", "plus", "n23">>,                                          \* a=b+23
    <<"if", "lp", "a", "rp", "lb", "b", "lp", "rp", "rb">>,                     \* if(a){b()}
    <<"function", "sp", "f", "lp", "x", "rp", "lb", "return", "sp", "x", "rb">>, \* function f(x){return x}
    <<"x", "eq", "lb", "a", "colon", "n1", "comma", "b", "colon", "str", "rb">>, \* x={a:1,b:'é€'}
    <<"a", "eq", "lbr", "n1", "comma", "sp", "n23", "rbr">>,                    \* a=[1, 23]
    <<"cmt", "a", "eq", "str">>,                                                \* /*😀*/a='é€'
    <<"ide", "eq", "tpl0", "b", "tpl1">>,                                       \* é=`t${b}v`
    <<"a", "eq", "lp", "x", "rp", "arrow", "x", "plus", "n1">>,                 \* a=(x)=>x+1
    <<"a", "dot", "b", "lp", "n1", "rp">>,                                      \* a.b(1)
    <<"lb", "lf", "tab", "a", "eq", "str", "crlf", "rb">>,                      \* {\n\ta='é€'\r\n}
    <<"a", "eq", "re">>,                                                        \* a=/x\/[/]/g
    <<"class", "sp", "A", "lb", "m", "lp", "rp", "lb", "rb", "rb">>,            \* class A{m(){}}
    <<"for", "lp", "semi", "semi", "rp", "lb", "rb">>,                          \* for(;;){}
    <<"a", "qdot", "b">>,                                                       \* a?.b
    <<"a", "eq", "b", "q", "c", "colon", "d">>,                                 \* a=b?c:d
    <<"async", "sp", "function", "sp", "g", "lp", "rp", "lb", "await", "sp", "x", "rb">>,  \* async function g(){await x}
    <<"try", "lb", "rb", "catch", "lp", "e", "rp", "lb", "rb">>,                \* try{}catch(e){}
    <<"a", "eq", "tplA", "b", "tplM", "c", "tplZ">>,                            \* a=`x${b}y${c}z`
    \* destructuring binding patterns: in declarations, parameters, catch clauses, loop heads, nested
    <<"var", "sp", "lbr", "a", "comma", "b", "rbr", "eq", "c", "semi">>,                               \* var [a,b]=c;
    <<"var", "sp", "lb", "a", "comma", "b", "colon", "c", "rb", "eq", "d">>,                           \* var {a,b:c}=d
    <<"function", "sp", "f", "lp", "lbr", "a", "rbr", "comma", "lb", "b", "rb", "rp", "lb", "rb">>,    \* function f([a],{b}){}
    <<"try", "lb", "rb", "catch", "lp", "lb", "e", "rb", "rp", "lb", "rb">>,                           \* try{}catch({e}){}
    <<"for", "lp", "var", "sp", "lbr", "a", "rbr", "sp", "of", "sp", "b", "rp", "lb", "rb">>,          \* for(var [a] of b){}
    <<"var", "sp", "lbr", "lbr", "a", "rbr", "comma", "lb", "b", "rb", "rbr", "eq", "c">>,             \* var [[a],{b}]=c
    <<"use", "lp", "a", "rp", "semi", "a", "eq", "undef">>                                             \* use(a);a=undefined
>>
\* statements that every statement is combined with (before and after it) in two-statement documents
JsTails == 1..3
JsSeps == << <<"semi">>, <<"lf">>, <<"crlf">>, <<"cr">>, <<"ls">>, <<"ps">>, <<"semi", "lf", "sp">> >>

JsonDocs == <<
    <<"lbr", "n1", "comma", "n23", "rbr">>,                                                        \* [1,-2.5e3]
    <<"lb", "sa", "colon", "n1", "rb">>,                                                           \* {"a":1}
    <<"lb", "sa", "colon", "lbr", "true", "comma", "null", "rbr", "comma", "sb", "colon", "se", "rb">>,
    <<"lbr", "lf", "sp", "n1", "comma", "crlf", "sp", "sa", "lf", "rbr">>,
    <<"lb", "lf", "sa", "colon", "sp", "lb", "sb", "colon", "n23", "rb", "cr", "rb">>,
    <<"lbr", "se", "comma", "sm", "comma", "false", "rbr">>,                                       \* ["é€","😀",false]
    <<"lbr", "lbr", "rbr", "comma", "lb", "rb", "rbr">>,                                           \* [[],{}]
    <<"lb", "se", "colon", "sm", "comma", "crlf", "tab", "sm", "colon", "lbr", "se", "rbr", "rb">>
>>

\* the illegal characters (bytes): '@', 0x01, '\', U+0080.  None of them can stand between two tokens of
\* either language.
Illegal == << <<64>>, <<1>>, <<92>>, <<194, 128>> >>
\* JavaScript only: '#', where the token after it does not begin like an identifier ('#' + identifier is one token, a
\* private name; before anything else a '#' is an illegal character)
IllegalJs == Illegal \o << <<35>> >>
IdStartByte(b) == (b >= 65 /\ b <= 90) \/ (b >= 97 /\ b <= 122) \/ b = 36 \/ b = 95 \/ b = 92 \/ b >= 128

VARIABLES suite, doc     \* doc: sequence of token names; <<>> initially
gvars == <<suite, doc>>

Init == suite = "" /\ doc = <<>>
Next == /\ doc = <<>>
        /\ \/ /\ "js" \in Suites /\ suite' = "js"
              /\ \/ \E i \in DOMAIN JsStmts : doc' = JsStmts[i]
                 \/ /\ TwoStmts
                    /\ \E i \in DOMAIN JsStmts, j \in JsTails, s \in DOMAIN JsSeps :
                          \/ doc' = JsStmts[i] \o JsSeps[s] \o JsStmts[j]
                          \/ doc' = JsStmts[j] \o JsSeps[s] \o JsStmts[i]
           \/ /\ "json" \in Suites /\ suite' = "json"
              /\ \E i \in DOMAIN JsonDocs : doc' = JsonDocs[i]
Spec == Init /\ [][Next]_gvars

Tok(name) == IF suite = "js" THEN JsTok[name] ELSE JsonTok[name]

RECURSIVE Flatten(_, _)
Flatten(toks, i) == IF i > Len(toks) THEN <<>> ELSE toks[i] \o Flatten(toks, i + 1)

\* classes of the characters of a valid UTF-8 byte sequence (width and break kind are exact; every other
\* character is taken as printable, which does not matter for line and column)
RECURSIVE ClassesOf(_, _)
ClassesOf(bs, i) ==
    IF i > Len(bs) THEN <<>>
    ELSE LET b == bs[i] IN
         IF b < 128 THEN <<(IF b = 10 THEN LF ELSE IF b = 13 THEN CR ELSE IF b >= 32 /\ b < 127 THEN P1 ELSE C1)>>
                         \o ClassesOf(bs, i + 1)
         ELSE IF b < 224 THEN <<P2>> \o ClassesOf(bs, i + 2)
         ELSE IF b < 240 THEN <<(IF b = 226 /\ bs[i + 1] = 128 /\ bs[i + 2] = 168 THEN LS
                                 ELSE IF b = 226 /\ bs[i + 1] = 128 /\ bs[i + 2] = 169 THEN PS ELSE P3)>>
                              \o ClassesOf(bs, i + 3)
         ELSE <<P4>> \o ClassesOf(bs, i + 4)

\* byte offset of token boundary bd (the boundary before token number bd)
RECURSIVE OffsetOf(_, _)
OffsetOf(toks, bd) == IF bd <= 1 THEN 0 ELSE OffsetOf(toks, bd - 1) + Len(toks[bd - 1])

\* expectation for inserting an illegal character at the boundary before token bd (2 <= bd <= number of tokens)
Row(toks, bd) ==
    LET off == OffsetOf(toks, bd)
        bytes == Flatten(SubSeq(toks, 1, bd - 1), 1) \o <<64>> \o Flatten(SubSeq(toks, bd, Len(toks)), 1)
        r == AsRuns(ClassesOf(bytes, 1))
    IN [bd |-> bd, off |-> off, line |-> LineOf(r, off), col |-> ColOf(r, off), idnext |-> IdStartByte(toks[bd][1])]

Case ==
    LET toks == [i \in 1..Len(doc) |-> Tok(doc[i])] IN
    [suite |-> suite, toks |-> toks, illegal |-> (IF suite = "js" THEN IllegalJs ELSE Illegal),
     rows |-> {Row(toks, bd) : bd \in 2..Len(doc)}]

CaseFile == IOEnv.VERIF_CASES
EmitInv == (Emit /\ doc # <<>>) => CSVWrite("%1$s", <<ToJson(Case)>>, CaseFile)
=============================================================================
