---------------------------- MODULE PositionTrace ----------------------------
(***************************************************************************)
(* Trace specification (kind T) for C15: every event recorded from the     *)
(* real code must be an observation ErrorPos.tla / Position.tla allow.     *)
(*   Text  {rl}                         starts a trace about a text        *)
(*   Pos   {off, line, col, wf, pl, ef, er, disp, k}                       *)
(*   Input {suite, rl, valid, ilen, ins} starts a trace about a parser run *)
(*   ErrPos{line, col, matches, cur}    NoErr{}                            *)
(***************************************************************************)
EXTENDS ErrorPos, TraceIO

VARIABLES l, bad
tvars == <<pvars, l, bad>>

e == Trace[l]

TInit == /\ l = 1 /\ bad = FALSE
         /\ subject = "none" /\ rt = <<>> /\ text = <<>> /\ valid = TRUE /\ ilen = 0 /\ ins = -1

IsStart == e.ev \in {"Text", "Input"}

\* the property-level action that has to explain the current event
Step ==
    CASE e.ev = "Pos"    -> Pos(e.off, e.line, e.col, e)
      [] e.ev = "ErrPos" -> ErrPos(e.line, e.col, e.matches, e.cur, Has(e, "same") => e.same)
      [] e.ev = "NoErr"  -> NoErr
      [] OTHER           -> FALSE

\* a call that did not return normally (panic) is explained by no action at all
Returned == IF Has(e, "out") THEN e.out = "ret" ELSE TRUE

\* RecordFail of TraceIO plus the clause that failed (named by the specification, for the finding's signature)
Why == IF ~Returned THEN "panic"
       ELSE IF e.ev = "Pos" THEN
            (IF subject # "text" THEN "no-text"
             ELSE IF ~LineColOK(rt, text, e.off, e.line, e.col) THEN "line-col" ELSE "context")
       ELSE IF e.ev = "ErrPos" THEN
            (IF subject # "input" THEN "no-input"
             ELSE IF Has(e, "same") /\ ~e.same THEN "depends-on-earlier-Err-calls"
             ELSE IF e.matches = <<>> THEN "no-byte-of-the-input-has-this-position"
             ELSE IF \E j \in DOMAIN e.matches : e.matches[j] < 0 \/ e.matches[j] > ilen THEN "outside-the-input"
             ELSE IF valid /\ ~\E j \in DOMAIN e.matches : LineColOK(rt, text, e.matches[j], e.line, e.col) THEN "line-col"
             ELSE IF e.cur >= 0 /\ e.cur \notin ToSet(e.matches) THEN "not-where-the-parser-stopped"
             ELSE "not-the-inserted-character")
       ELSE IF e.ev = "NoErr" THEN "no-error-reported"
       ELSE "unknown-event"
RecordFailWhy == CSVWrite("%1$s", <<ToJson([t |-> e.t, i |-> e.i, l |-> l, ev |-> e.ev, why |-> Why])>>, FailFile)

TStart == /\ l <= NEvents /\ IsStart
          /\ IF e.ev = "Text" THEN NewText(e.rl) ELSE NewInput(e.rl, e.valid, e.ilen, e.ins)
          /\ bad' = FALSE /\ l' = l + 1
TStep  == /\ l <= NEvents /\ ~IsStart /\ ~bad
          /\ Returned /\ Step
          /\ l' = l + 1 /\ UNCHANGED bad
TFail  == /\ l <= NEvents /\ ~IsStart /\ ~bad
          /\ ~(Returned /\ ENABLED Step)
          /\ RecordFailWhy
          /\ bad' = TRUE /\ l' = l + 1 /\ UNCHANGED pvars
TSkip  == /\ l <= NEvents /\ ~IsStart /\ bad
          /\ l' = l + 1 /\ UNCHANGED <<pvars, bad>>

TNext == TStart \/ TStep \/ TFail \/ TSkip
TSpec == TInit /\ [][TNext]_tvars

TInv == bad \/ TypeOK
Done == Consumed(l)
Accepted == TLCGet("stats").diameter = NEvents + 1
=============================================================================
