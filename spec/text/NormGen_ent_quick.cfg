SPECIFICATION Spec
CONSTANTS
  Kind = "ent"
  MaxLen = 5
  FullLen = 99
INVARIANT Emit
CHECK_DEADLOCK FALSE
