SPECIFICATION Spec
CONSTANTS
  Fam = "media"
  MaxLen = 2
INVARIANT Emit
CHECK_DEADLOCK FALSE
