SPECIFICATION Spec
CONSTANTS
  Suites = {"js", "json"}
  TwoStmts = TRUE
  Emit = TRUE
INVARIANT EmitInv
CHECK_DEADLOCK FALSE
