SPECIFICATION Spec
CONSTANTS
  Fam = "enc"
  MaxLen = 5
INVARIANT Emit
CHECK_DEADLOCK FALSE
