------------------------------ MODULE Position ------------------------------
(***************************************************************************)
(* Property-level definition (kind P) of what parse.Position must return   *)
(* -- property C15 "Reported line, column and context locate the offending *)
(* byte".  Written from the property statement, not from position.go.      *)
(*                                                                         *)
(* A text is a sequence of CHARACTER CLASSES.  Only three things matter to *)
(* the statement: how many bytes a character occupies, whether it is one   *)
(* of the five line breaks, and whether it is printable.                   *)
(*                                                                         *)
(*     P1..P4  printable character of 1..4 UTF-8 bytes                     *)
(*     C1      non-printable 1-byte character (a control)                  *)
(*     C3      non-printable 3-byte character (ZWSP, BOM, private use ...) *)
(*     LF CR   \n  \r            (\r\n is CR followed by LF)               *)
(*     LS PS   U+2028  U+2029    (3 bytes each, non-printable)             *)
(*                                                                         *)
(* Offsets are 0-based byte offsets like in Go; characters of a text are   *)
(* numbered 1..Len(text) like TLA+ sequences.                              *)
(*                                                                         *)
(* Readings taken where the statement leaves room (the spec is             *)
(* nondeterministic there, see ColSet / CtxOK):                            *)
(*  R1 an offset strictly inside a multi-byte character: the line is       *)
(*     determined (the character has not ended, so if it is LS/PS it does  *)
(*     not count); the column is that of the character or one more.        *)
(*  R2 an offset between the \r and the \n of a \r\n: the break is counted *)
(*     once and has not ended, so the line is determined; the column is    *)
(*     that of the \r or one more (\r\n treated like one character).       *)
(*  R3 offsets before 0 and after the end: "counting what ends at or       *)
(*     before the offset" is meaningful for every integer, so line and     *)
(*     column are determined (1,1 before the text; the end of the text     *)
(*     after it).  Nothing is demanded of the caret for a negative offset. *)
(*  R4 the displayed line may end at the next \n / \r / end of text, or    *)
(*     already at the next U+2028 / U+2029.                                *)
(*  R5 "roughly 60 characters": an elided display (markers included) has   *)
(*     RoughLo..RoughHi characters, an unelided line at most RoughHi.      *)
(***************************************************************************)
EXTENDS Integers, Sequences, FiniteSets

P1 == 1   P2 == 2   P3 == 3   P4 == 4   C1 == 5   C3 == 6   LF == 7   CR == 8   LS == 9   PS == 10
Classes == 1..10
NonBreak == {P1, P2, P3, P4, C1, C3}

\* UTF-8 width of a character of each class, in the order P1 P2 P3 P4 C1 C3 LF CR LS PS
Widths == <<1, 2, 3, 4, 1, 3, 1, 1, 3, 3>>
W(c) == Widths[c]

IsBreak(c)   == c \in {LF, CR, LS, PS}
IsHard(c)    == c \in {LF, CR}
Printable(c) == c \in {P1, P2, P3, P4}

Dot == 0                                          \* display form of a non-printable character (the middle dot)
Render(c) == IF Printable(c) THEN c ELSE Dot      \* a printable character is displayed as itself

RoughLo == 40
RoughHi == 66

Max(S) == CHOOSE x \in S : \A y \in S : y <= x

(* ===================== 1. the definition, as the statement words it ===================== *)

\* number of bytes taken by the first i characters = byte offset at which character i ends
RECURSIVE EndOf(_, _)
EndOf(text, i) == IF i = 0 THEN 0 ELSE EndOf(text, i - 1) + W(text[i])
StartOf(text, i) == EndOf(text, i - 1)
ByteLen(text) == EndOf(text, Len(text))

\* character i is the last character of a line break: \n (alone or closing a \r\n), U+2028, U+2029, or a \r
\* that is not followed by \n.  So \r\n is one break, ending where its \n ends.
Completes(text, i) == \/ text[i] \in {LF, LS, PS}
                      \/ text[i] = CR /\ ~(i < Len(text) /\ text[i + 1] = LF)

\* the breaks that end at or before the offset
EndedBreaks(text, off) == {i \in 1..Len(text) : Completes(text, i) /\ EndOf(text, i) <= off}

LineD(text, off) == 1 + Cardinality(EndedBreaks(text, off))

\* number of characters before the start of that line
LineStartD(text, off) == Max({0} \cup EndedBreaks(text, off))

\* complete code points between the start of the line and the offset
FullD(text, off) == Cardinality({j \in (LineStartD(text, off) + 1)..Len(text) : EndOf(text, j) <= off})

InsideD(text, off)  == \E j \in 1..Len(text) : StartOf(text, j) < off /\ off < EndOf(text, j)              \* R1
CrlfMidD(text, off) == \E j \in 1..(Len(text) - 1) : text[j] = CR /\ text[j + 1] = LF /\ EndOf(text, j) = off  \* R2

ColSetD(text, off) ==
    LET f == FullD(text, off) IN
    IF InsideD(text, off) THEN {f + 1, f + 2}
    ELSE IF CrlfMidD(text, off) THEN {f, f + 1}
    ELSE {f + 1}

\* the displayed line: characters from position i on that are not in Stop
RECURSIVE RunLenD(_, _, _)
RunLenD(text, i, Stop) == IF i > Len(text) \/ text[i] \in Stop THEN 0 ELSE 1 + RunLenD(text, i + 1, Stop)

(* ===================== 2. the same over run-length texts (affordable for long lines) ===================== *)
\* A run-length text is a sequence of runs <<class, count>>, count >= 1.  A \r is always a run of its own
\* (whether it is a break depends on what follows it); every other class may be repeated.  AsRuns / Expand
\* convert; PositionGen lets TLC check on every enumerated text and offset that the operators of this section
\* equal the definitions of section 1.
RunsOK(rt) == \A j \in 1..Len(rt) : rt[j][1] \in Classes /\ rt[j][2] >= 1 /\ (rt[j][2] > 1 => rt[j][1] # CR)

RECURSIVE NChars(_, _)
NChars(rt, j) == IF j > Len(rt) THEN 0 ELSE rt[j][2] + NChars(rt, j + 1)

RECURSIVE ExpandR(_, _)
ExpandR(rt, j) == IF j > Len(rt) THEN <<>> ELSE [i \in 1..rt[j][2] |-> rt[j][1]] \o ExpandR(rt, j + 1)
Expand(rt) == ExpandR(rt, 1)

\* equal neighbours of a class in Merge become one run
RECURSIVE AsRunsR(_, _, _, _)
AsRunsR(text, Merge, i, acc) ==
    IF i > Len(text) THEN acc
    ELSE LET c == text[i]  m == Len(acc) IN
         IF m > 0 /\ c \in Merge /\ acc[m][1] = c
         THEN AsRunsR(text, Merge, i + 1, [acc EXCEPT ![m] = <<c, acc[m][2] + 1>>])
         ELSE AsRunsR(text, Merge, i + 1, Append(acc, <<c, 1>>))
AsRuns(text)    == AsRunsR(text, NonBreak, 1, <<>>)            \* what the harness logs
AsRunsAll(text) == AsRunsR(text, Classes \ {CR}, 1, <<>>)      \* also runs of \n, U+2028, U+2029

\* Scan returns  line: the line number;  ls: characters before the line start;  k: characters that ended at or
\* before off;  b: byte offset at which character k ended (= where character k+1 starts).
\* j: current run, cb: characters before it, b: bytes before it
RECURSIVE ScanR(_, _, _, _, _, _, _)
ScanR(rt, off, j, cb, b, line, ls) ==
    IF j > Len(rt) THEN [line |-> line, ls |-> ls, k |-> cb, b |-> b]
    ELSE LET c == rt[j][1]  m == rt[j][2]  w == W(c)
             \* every character of the run completes a break
             brk == IsBreak(c) /\ ~(c = CR /\ j < Len(rt) /\ rt[j + 1][1] = LF)
         IN
         IF b + m * w <= off                                       \* the whole run ends at or before the offset
         THEN IF brk THEN ScanR(rt, off, j + 1, cb + m, b + m * w, line + m, cb + m)
                     ELSE ScanR(rt, off, j + 1, cb + m, b + m * w, line, ls)
         ELSE LET q == IF off <= b THEN 0 ELSE (off - b) \div w IN  \* q < m characters of this run have ended
              [line |-> IF brk THEN line + q ELSE line,
               ls   |-> IF brk /\ q > 0 THEN cb + q ELSE ls,
               k    |-> cb + q, b |-> b + q * w]
Scan(rt, off) == ScanR(rt, off, 1, 0, 0, 1, 0)

\* text is Expand(rt), handed in so that it is computed once
ColSetS(text, s, off) ==
    LET f == s.k - s.ls IN
    IF s.k < Len(text) /\ s.b < off THEN {f + 1, f + 2}                                                  \* R1
    ELSE IF s.k >= 1 /\ s.k < Len(text) /\ s.b = off
            THEN (IF text[s.k] = CR /\ text[s.k + 1] = LF THEN {f, f + 1} ELSE {f + 1})                  \* R2
    ELSE {f + 1}
\* the column where it is determined (offset on a character boundary and not inside a \r\n)
ColOf(rt, off)  == LET s == Scan(rt, off) IN s.k - s.ls + 1
LineOf(rt, off) == Scan(rt, off).line

\* (TLC re-evaluates a LET definition at every use; binding through a singleton set evaluates Scan once)
LineColOK(rt, text, off, line, col) ==
    \E s \in {Scan(rt, off)} : line = s.line /\ col \in ColSetS(text, s, off)

\* number of characters from character number from+1 on, up to the next character whose class is in Stop
RECURSIVE RunLenR(_, _, _, _, _)
RunLenR(rt, from, Stop, j, cb) ==
    IF j > Len(rt) THEN cb - from
    ELSE IF cb + rt[j][2] <= from THEN RunLenR(rt, from, Stop, j + 1, cb + rt[j][2])       \* run before the line
    ELSE IF rt[j][1] \in Stop THEN (IF cb < from THEN 0 ELSE cb - from)      \* the line may start inside a run of breaks
    ELSE RunLenR(rt, from, Stop, j + 1, cb + rt[j][2])
HardLen(rt, ls) == RunLenR(rt, ls, {LF, CR}, 1, 0)
AnyLen(rt, ls)  == RunLenR(rt, ls, {LF, CR, LS, PS}, 1, 0)

\* agreement of section 2 with section 1 (checked by TLC in PositionGen)
Agrees(text, off) ==
    LET rt == AsRuns(text)  s == Scan(rt, off)  ra == AsRunsAll(text) IN
    /\ RunsOK(rt) /\ Expand(rt) = text
    /\ RunsOK(ra) /\ Expand(ra) = text /\ Scan(ra, off) = s
    /\ HardLen(ra, s.ls) = HardLen(rt, s.ls) /\ AnyLen(ra, s.ls) = AnyLen(rt, s.ls)
    /\ s.line = LineD(text, off) /\ s.ls = LineStartD(text, off)
    /\ ColSetS(text, s, off) = ColSetD(text, off)
    /\ HardLen(rt, s.ls) = RunLenD(text, s.ls + 1, {LF, CR})
    /\ AnyLen(rt, s.ls) = RunLenD(text, s.ls + 1, {LF, CR, LS, PS})

(* ===================== 3. the context ===================== *)
\* The displayed line starts where the line starts and runs up to (not including) the next \n or \r, or the end
\* of the text -- or (R4) already up to the next U+2028/U+2029.
\*
\* What the harness reads off the context string (it only parses, it does not judge):
\*   wf    the context is two lines; the first starts with the 5-wide right-aligned line number and ": ";
\*         the second is spaces followed by a single '^'
\*   pl    the line number printed in that prefix
\*   ef,er an elision marker "..." precedes / follows the displayed text
\*   disp  the displayed text between the markers, one display code per character
\*         (1..4: a printable character of that class shown as itself, 0: a middle dot, 99: anything else)
\*   k     number of displayed characters to the left of the caret (prefix and front marker not counted)
\* n is the number of characters of the line, col the reported column.
\* The caret must designate the display form of the character in column col, or the position right after the
\* text when that column lies beyond the last character of the line.
WindowOK(text, ls, n, col, o) ==
    LET t == IF col - 1 > n THEN n ELSE col - 1
        w == Len(o.disp)
        a == t - o.k                           \* characters of the line elided in front
        total == w + (IF o.ef THEN 3 ELSE 0) + (IF o.er THEN 3 ELSE 0)
    IN /\ o.k >= 0 /\ o.k <= w /\ a >= 0 /\ a + w <= n
       /\ \A i \in 1..w : o.disp[i] = Render(text[ls + a + i])       \* what is shown is that stretch of the line
       /\ (o.ef <=> a > 0) /\ (o.er <=> a + w < n)                    \* a marker exactly where something is missing
       /\ (t < n => o.k < w)                                          \* the caret is under a displayed character
       /\ ((o.ef \/ o.er) => total >= RoughLo /\ total <= RoughHi)    \* R5
       /\ (~(o.ef \/ o.er) => n <= RoughHi)

CtxOKs(rt, text, off, ls, line, col, o) ==
    /\ o.wf /\ o.pl = line
    /\ IF off < 0 THEN TRUE                                           \* R3
       ELSE IF WindowOK(text, ls, HardLen(rt, ls), col, o) THEN TRUE
       ELSE WindowOK(text, ls, AnyLen(rt, ls), col, o)                \* R4
CtxOK(rt, text, off, line, col, o) == CtxOKs(rt, text, off, Scan(rt, off).ls, line, col, o)

\* the whole first sentence of the property for one (text, offset) and one observed result
PositionOK(rt, text, off, line, col, o) ==
    \E s \in {Scan(rt, off)} :
        /\ line = s.line /\ col \in ColSetS(text, s, off)
        /\ CtxOKs(rt, text, off, s.ls, line, col, o)
=============================================================================
