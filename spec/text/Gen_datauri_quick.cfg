SPECIFICATION Spec
CONSTANTS
  Fam = "datauri"
  MaxLen = 3
INVARIANT Emit
CHECK_DEADLOCK FALSE
