SPECIFICATION Spec
CONSTANTS
  Kind = "cdata"
  MaxLen = 6
  FullLen = 99
INVARIANT Emit
CHECK_DEADLOCK FALSE
