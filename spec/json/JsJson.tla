------------------------------- MODULE JsJson -------------------------------
(***************************************************************************)
(* Growth specification (kinds P + T), beyond the listed properties: the   *)
(* conversion of a JavaScript tree to JSON (js.AST.JSON, the JSONer        *)
(* methods of js/ast.go).                                                  *)
(*                                                                         *)
(* A JSON text is a JavaScript expression (ECMAScript 2019, "JSON          *)
(* superset").  So for every document D that the RFC 8259 grammar derives  *)
(* (JsonGrammar.tla enumerates them; the harness spells each) the text     *)
(* "(" D ")" is a program, js.Parse accepts it, and AST.JSON writes a JSON *)
(* text that denotes the value of D.  The harness also respells D with     *)
(* JavaScript forms that denote the same value (single-quoted strings,     *)
(* template literals without substitutions, unquoted keys, trailing        *)
(* commas, numbers written `.5`, `1.`, `1_000`, comments): for those the   *)
(* conversion may decline (the documentation promises no particular subset *)
(* of JavaScript), but what it writes without an error is a JSON text of   *)
(* the same value.                                                         *)
(*                                                                         *)
(* Events:                                                                 *)
(*   Open{origin}    "json": the text is D itself; "respelled": a JS form  *)
(*   Conv{parsed, err, valid, same}                                        *)
(*        parsed: js.Parse returned a tree; err: JSON() returned an error; *)
(*        valid: the written text is JSON (encoding/json.Valid, the        *)
(*        reference C10 names); same: it unmarshals to the value of D.     *)
(***************************************************************************)
EXTENDS Integers, Sequences, TraceIO

VARIABLES origin, l, bad
tvars == <<origin, l, bad>>
e == Trace[l]

Conv(parsed, err, valid, same) ==
    /\ parsed                                  \* JSON is a subset of JavaScript; the respellings are JavaScript by construction
    /\ (origin = "json" => ~err)               \* a JSON text is converted
    /\ (~err => valid /\ same)                 \* nothing is written that is not JSON, or that denotes another value
    /\ UNCHANGED origin

TInit == l = 1 /\ bad = FALSE /\ origin = ""
IsStart == e.ev = "Open"
Returned == e.out = "ret"
Step == CASE e.ev = "Conv" -> Conv(e.parsed, e.err, e.valid, e.same)
          [] OTHER -> FALSE
TStart == l <= NEvents /\ IsStart /\ origin' = e.origin /\ bad' = FALSE /\ l' = l + 1
TStep  == l <= NEvents /\ ~IsStart /\ ~bad /\ Returned /\ Step /\ l' = l + 1 /\ UNCHANGED bad
TFail  == /\ l <= NEvents /\ ~IsStart /\ ~bad /\ ~(Returned /\ ENABLED Step)
          /\ RecordFail(e, l) /\ bad' = TRUE /\ l' = l + 1 /\ UNCHANGED origin
TSkip  == l <= NEvents /\ ~IsStart /\ bad /\ l' = l + 1 /\ UNCHANGED <<origin, bad>>
TNext == TStart \/ TStep \/ TFail \/ TSkip
TSpec == TInit /\ [][TNext]_tvars
Accepted == TLCGet("stats").diameter = NEvents + 1
=============================================================================
