SPECIFICATION Spec
CONSTANTS
  MaxTok = 7
  KeyContainersAreErrors = TRUE
PROPERTY Refines
CHECK_DEADLOCK FALSE
