---------------------------- MODULE JsonStream ----------------------------
(***************************************************************************)
(* Property-level specification (kind P) for C10: a push-down monitor over *)
(* the units json.Parser.Next returns, for ANY input, plus the             *)
(* acceptance / reconstruction rule for inputs that encoding/json accepts. *)
(* The harness locates every unit in the input and reports the             *)
(* non-whitespace bytes between consecutive units as `gap`.                *)
(***************************************************************************)
EXTENDS Integers, Sequences

VARIABLES stack,      \* open containers, innermost last: "o" | "a"
          afterKey,   \* innermost container is an object whose key has just been delivered
          prevVal,    \* the previous unit completed a value or a container in the current container
          lastStart,  \* the previous unit was a Start unit
          out,        \* units re-joined so far, as the statement prescribes (bytes)
          valid,      \* encoding/json.Valid(input)
          compact,    \* the input with insignificant whitespace removed (encoding/json.Compact), if valid
          ended       \* the end of input has been reported
jvars == <<stack, afterKey, prevVal, lastStart, out, valid, compact, ended>>

Open(v, c) == stack' = <<>> /\ afterKey' = FALSE /\ prevVal' = FALSE /\ lastStart' = FALSE /\ out' = <<>>
              /\ valid' = v /\ compact' = c /\ ended' = FALSE

Top == IF stack = <<>> THEN "none" ELSE stack[Len(stack)]
\* what State() has to say for a given stack
InnerState(st, ak) == IF st = <<>> THEN "Value"
                      ELSE IF st[Len(st)] = "a" THEN "Array"
                      ELSE IF ak THEN "ObjectValue" ELSE "ObjectKey"
IsEnd(k)   == k \in {"EndObject", "EndArray"}
IsStart(k) == k \in {"StartObject", "StartArray"}
IsValue(k) == k \in {"String", "Number", "Literal"}

\* the separator a caller writes before a unit, decided from State() read before the call (the statement's rule)
Sep(stateBefore, k) ==
    IF lastStart \/ IsEnd(k) THEN <<>>
    ELSE IF stateBefore \in {"ObjectKey", "Array"} THEN <<44>>       \* ','
    ELSE IF stateBefore = "ObjectValue" THEN <<58>>                  \* ':'
    ELSE <<>>

\* a non-error unit:  k kind name, data its bytes, sb/sa State() before/after the call, gap: non-whitespace symbols
\* ("comma" | "colon" | "other") between the previous unit and this one
Unit(k, data, sb, sa, gap) ==
    LET isKey == Top = "o" /\ ~afterKey /\ k = "String"
        stack2 == IF IsStart(k) THEN Append(stack, IF k = "StartObject" THEN "o" ELSE "a")
                  ELSE IF IsEnd(k) THEN SubSeq(stack, 1, Len(stack) - 1) ELSE stack
        ak2 == IF isKey THEN TRUE
               ELSE IF IsStart(k) THEN FALSE
               ELSE IF IsEnd(k) THEN FALSE      \* a closed container was a value: its parent (if an object) expects a key again
               ELSE FALSE
    IN
    /\ k \in {"String", "Number", "Literal", "StartObject", "EndObject", "StartArray", "EndArray"}
    /\ ~ended
    /\ (k = "EndObject" => Top = "o")                      \* never an End for an unopened or differently-typed container
    /\ (k = "EndArray"  => Top = "a")
    /\ (Top = "o" /\ ~afterKey => k \in {"String", "EndObject"})   \* a key that is not a string is an error, not a unit
    /\ (Top = "o" /\ afterKey => gap = <<"colon">>)        \* a missing colon after a key is an error, not a unit
    /\ (prevVal /\ ~IsEnd(k) /\ stack # <<>> => gap = <<"comma">>)  \* a missing comma between two values is an error
    /\ sa = InnerState(stack2, ak2)                        \* State() describes the innermost open container
    /\ stack' = stack2 /\ afterKey' = ak2
    /\ prevVal' = (~isKey /\ ~IsStart(k))
    /\ lastStart' = IsStart(k)
    /\ out' = out \o Sep(sb, k) \o data
    /\ UNCHANGED <<valid, compact, ended>>

\* an error report: eof = Err() is io.EOF
ErrorRep(eof) ==
    /\ (valid /\ ~ended => eof /\ stack = <<>> /\ out = compact)   \* valid documents parse without error and re-join to themselves
    /\ ended' = (ended \/ eof)
    /\ UNCHANGED <<stack, afterKey, prevVal, lastStart, out, valid, compact>>
=============================================================================
