SPECIFICATION Spec
CONSTANTS
  MaxTok = 4
  KeyContainersAreErrors = FALSE
PROPERTY Refines
CHECK_DEADLOCK FALSE
