---------------------------- MODULE JsonGrammar ----------------------------
(***************************************************************************)
(* Generator (kind G) for C10: RFC 8259 as grammar-as-behaviour.  A state  *)
(* is a sentential form; every step applies one production to the leftmost *)
(* non-terminal; a form without non-terminals is a document skeleton:      *)
(* a sequence of token classes (str, num, lit, braces, brackets, comma,    *)
(* colon).  The harness spells every class (all escape forms, all number   *)
(* forms, the three literals) and places whitespace at every structural    *)
(* position by seed; being grammatical, the document is valid JSON and the *)
(* property fixes what must be observed.  With Mode = "all" the module     *)
(* instead enumerates every sequence of token classes (valid or not) for   *)
(* the nesting and error clauses.                                          *)
(***************************************************************************)
EXTENDS Integers, Sequences, TLC, Json, CSV, IOUtils

CONSTANTS MaxTok, Mode     \* Mode: "grammar" | "all"

NT == {"V", "AR", "ES", "OB", "MS"}
Prods(nt) ==
    CASE nt = "V"  -> {<<"str">>, <<"num">>, <<"lit">>, <<"lbrack", "AR">>, <<"lbrace", "OB">>}
      [] nt = "AR" -> {<<"rbrack">>, <<"V", "ES">>}
      [] nt = "ES" -> {<<"rbrack">>, <<"comma", "V", "ES">>}
      [] nt = "OB" -> {<<"rbrace">>, <<"str", "colon", "V", "MS">>}
      [] nt = "MS" -> {<<"rbrace">>, <<"comma", "str", "colon", "V", "MS">>}
Classes == {"lbrace", "rbrace", "lbrack", "rbrack", "comma", "colon", "str", "num", "lit", "junk"}

VARIABLE form
CaseFile == IOEnv.VERIF_CASES
Write(f, v) == CSVWrite("%1$s", <<ToJson([toks |-> f, grammatical |-> v])>>, CaseFile)

HasNT(f) == \E i \in 1..Len(f) : f[i] \in NT
FirstNT(f) == CHOOSE i \in 1..Len(f) : f[i] \in NT /\ \A j \in 1..(i - 1) : f[j] \notin NT

Init == IF Mode = "grammar" THEN form = <<"V">> ELSE form = <<>> /\ Write(<<>>, FALSE)
Next ==
    IF Mode = "grammar"
    THEN /\ HasNT(form)
         /\ LET i == FirstNT(form) IN
            \E p \in Prods(form[i]) :
              /\ form' = SubSeq(form, 1, i - 1) \o p \o SubSeq(form, i + 1, Len(form))
              /\ Len(form') <= MaxTok
              /\ (~HasNT(form') => Write(form', TRUE))
    ELSE /\ Len(form) < MaxTok
         /\ \E c \in Classes : form' = Append(form, c) /\ Write(form', FALSE)
Spec == Init /\ [][Next]_form
=============================================================================
