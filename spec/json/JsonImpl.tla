---------------------------- MODULE JsonImpl ----------------------------
(***************************************************************************)
(* Implementation-shaped specification (kind I) of json.Parser.Next        *)
(* (json/parse.go) over TOKEN CLASSES: the state stack, needComma, the     *)
(* comma / colon handling and every error branch, as the Go code has them  *)
(* (including the two repairs: objects/arrays in key position are errors,  *)
(* and the bookkeeping is undone when the input ends where a value was     *)
(* expected).  TLC checks  I => P  (JsonStream.tla) for EVERY sequence of  *)
(* token classes up to MaxTok: this settles at design level that an End    *)
(* unit is never produced for an unopened or differently-typed container,  *)
(* that State() names the innermost container, and that a missing comma,   *)
(* a missing colon and a non-string key are errors instead of units.       *)
(***************************************************************************)
EXTENDS Integers, Sequences, FiniteSets

CONSTANTS MaxTok,
          KeyContainersAreErrors   \* TRUE: the repaired code ('{[' is an error); FALSE: the code before the repair

Classes == {"lbrace", "rbrace", "lbrack", "rbrack", "comma", "colon", "str", "num", "lit", "junk"}

VARIABLES toks, idx,            \* the input as token classes; index of the next token (1-based)
          st,                   \* p.state: stack of "Value" | "ObjectKey" | "ObjectValue" | "Array"
          needComma,
          gapAcc,               \* separators consumed since the end of the last unit (what the harness observes as `gap`)
          lastStartI, outI,     \* ghosts mirroring the property spec's bookkeeping
          halted,               \* an error report was returned (the harness stops there)
          out
ivars == <<toks, idx, st, needComma, gapAcc, lastStartI, outI, halted, out>>

Tok(i) == IF i <= Len(toks) THEN toks[i] ELSE "eof"
TopSt == st[Len(st)]
Pop(s) == SubSeq(s, 1, Len(s) - 1)
SetTop(s, v) == [s EXCEPT ![Len(s)] = v]
\* after closing a container: an object that was waiting for this value now expects a key again
AfterClose(s) == IF s[Len(s)] = "ObjectValue" THEN SetTop(s, "ObjectKey") ELSE s

PStack == [i \in 1..(Len(st) - 1) |-> IF st[i + 1] = "Array" THEN "a" ELSE "o"]
P == INSTANCE JsonStream WITH stack <- PStack, afterKey <- (TopSt = "ObjectValue"), prevVal <- needComma, lastStart <- lastStartI,
                              out <- outI, valid <- FALSE, compact <- <<>>, ended <- FALSE

\* (nested quantifiers: TLC enumerates a function set lazily, but builds a UNION of them explicitly and refuses above 10^6 elements)
Init == /\ \E n \in 0..MaxTok : IF n = 0 THEN toks = <<>>
                                 ELSE \E c \in Classes : \E t \in [1..(n - 1) -> Classes] : toks = <<c>> \o t
        /\ idx = 1 /\ st = <<"Value">> /\ needComma = FALSE /\ gapAcc = <<>> /\ lastStartI = FALSE /\ outI = <<>> /\ halted = FALSE
        /\ out = [op |-> "none"]

Err(why) == /\ halted' = TRUE /\ out' = [op |-> "Error", eof |-> FALSE, why |-> why]
            /\ UNCHANGED <<toks, idx, st, needComma, gapAcc, lastStartI, outI>>
Eof      == /\ halted' = TRUE /\ out' = [op |-> "Error", eof |-> TRUE, why |-> "eof"]
            /\ UNCHANGED <<toks, idx, st, needComma, gapAcc, lastStartI, outI>>
\* return unit k having consumed up to index i2 (exclusive), with new stack s2 and needComma n2; trailing: separators consumed after the unit
Unit(k, i2, s2, n2, gapNow, trailing) ==
    /\ out' = [op |-> "Unit", k |-> k, sb |-> TopSt, sa |-> s2[Len(s2)], gap |-> gapNow]
    /\ idx' = i2 /\ st' = s2 /\ needComma' = n2 /\ gapAcc' = trailing
    /\ lastStartI' = (k \in {"StartObject", "StartArray"})
    /\ outI' = outI \o P!Sep(TopSt, k)
    /\ UNCHANGED <<toks, halted>>

Step ==
    /\ ~halted
    /\ LET c0 == Tok(idx)
           state == TopSt
           commaOK == state \in {"Array", "ObjectKey"}
           \* a leading comma is consumed first
           i1 == IF c0 = "comma" /\ commaOK THEN idx + 1 ELSE idx
           nc == IF c0 = "comma" /\ commaOK THEN FALSE ELSE needComma
           gap1 == IF c0 = "comma" /\ commaOK THEN Append(gapAcc, "comma") ELSE gapAcc
           c == Tok(i1)
       IN
       IF c0 = "comma" /\ ~commaOK THEN Err("unexpected comma")
       ELSE IF nc /\ c \notin {"rbrace", "rbrack", "eof"} THEN Err("expected comma")
       ELSE IF KeyContainersAreErrors /\ state = "ObjectKey" /\ c \in {"lbrace", "lbrack"} THEN Err("expected key")
       ELSE IF c = "lbrace" THEN Unit("StartObject", i1 + 1, Append(st, "ObjectKey"), nc, gap1, <<>>)
       ELSE IF c = "rbrace" THEN
            IF state # "ObjectKey" THEN Err("unexpected right brace")
            ELSE Unit("EndObject", i1 + 1, AfterClose(Pop(st)), TRUE, gap1, <<>>)
       ELSE IF c = "lbrack" THEN Unit("StartArray", i1 + 1, Append(st, "Array"), nc, gap1, <<>>)
       ELSE IF c = "rbrack" THEN
            IF state # "Array" THEN Err("unexpected right bracket")
            ELSE Unit("EndArray", i1 + 1, AfterClose(Pop(st)), TRUE, gap1, <<>>)
       ELSE IF state = "ObjectKey" THEN
            IF c # "str" THEN Err("expected key")
            ELSE IF Tok(i1 + 1) # "colon" THEN Err("expected colon")
            ELSE Unit("String", i1 + 2, SetTop(st, "ObjectValue"), nc, gap1, <<"colon">>)
       ELSE \* a value is expected
            IF c \in {"str", "num", "lit"}
            THEN Unit(CASE c = "str" -> "String" [] c = "num" -> "Number" [] OTHER -> "Literal", i1 + 1,
                      IF state = "ObjectValue" THEN SetTop(st, "ObjectKey") ELSE st, TRUE, gap1, <<>>)
            ELSE IF c = "eof" THEN Eof
            ELSE Err("unexpected character")

Next == Step
Spec == Init /\ [][Next]_ivars

o == out'
PStep == CASE o.op = "Unit"  -> P!Unit(o.k, <<>>, o.sb, o.sa, o.gap)
           [] o.op = "Error" -> TRUE          \* an error report ends the judged part of the stream
           [] OTHER -> FALSE
Refines == [][PStep]_ivars
=============================================================================
