SPECIFICATION Spec
CONSTANTS
  MaxTok = 15
  Mode = "grammar"
CHECK_DEADLOCK FALSE
