---------------------------- MODULE JsonTrace ----------------------------
(* Trace specification (kind T) for C10: judges traces of harness/suites/jsonp against JsonStream.tla. *)
EXTENDS JsonStream, TraceIO

VARIABLES l, bad
tvars == <<jvars, l, bad>>
e == Trace[l]

TInit == /\ l = 1 /\ bad = FALSE /\ stack = <<>> /\ afterKey = FALSE /\ prevVal = FALSE /\ lastStart = FALSE /\ out = <<>>
         /\ valid = FALSE /\ compact = <<>> /\ ended = FALSE
IsStartEv == e.ev = "Open"
Returned == e.out = "ret"
Step == CASE e.ev = "Next" -> (IF e.err THEN ErrorRep(e.eof) ELSE Unit(e.kname, e.data, e.sb, e.sa, e.gap))
          [] OTHER -> FALSE

TStart == l <= NEvents /\ IsStartEv /\ Open(e.valid, e.compact) /\ bad' = FALSE /\ l' = l + 1
TStep  == l <= NEvents /\ ~IsStartEv /\ ~bad /\ Returned /\ Step /\ l' = l + 1 /\ UNCHANGED bad
TFail  == /\ l <= NEvents /\ ~IsStartEv /\ ~bad /\ ~(Returned /\ ENABLED Step)
          /\ RecordFail(e, l) /\ bad' = TRUE /\ l' = l + 1 /\ UNCHANGED jvars
TSkip  == l <= NEvents /\ ~IsStartEv /\ bad /\ l' = l + 1 /\ UNCHANGED <<jvars, bad>>
TNext == TStart \/ TStep \/ TFail \/ TSkip
TSpec == TInit /\ [][TNext]_tvars
Accepted == TLCGet("stats").diameter = NEvents + 1
=============================================================================
