SPECIFICATION Spec
CONSTANTS
  MaxTok = 5
  Mode = "all"
CHECK_DEADLOCK FALSE
