SPECIFICATION Spec
CONSTANTS
  MaxTok = 6
  Mode = "all"
CHECK_DEADLOCK FALSE
