SPECIFICATION Spec
CONSTANTS
  MaxTok = 11
  Mode = "grammar"
CHECK_DEADLOCK FALSE
