SPECIFICATION Spec
CONSTANTS
  MaxTok = 6
  KeyContainersAreErrors = TRUE
PROPERTY Refines
CHECK_DEADLOCK FALSE
