SPECIFICATION Spec
CONSTANTS
  Prefixes = {"none"}
  Alphabet = {"lt", "gt", "slash", "sp", "x", "eq", "nul"}
  MaxLen = 5
  Emit = FALSE
  VoidClosesTag = TRUE
  NameStopNeedsGt = TRUE
  DoctypeQuote = "remember"
  NulInTagIsError = FALSE
INVARIANT TypeOK
PROPERTY RefinesXml
PROPERTY RefinesTok
CHECK_DEADLOCK FALSE
