SPECIFICATION Spec
CONSTANTS
  Prefixes = {"doctype"}
  Alphabet = {"dq", "sq", "gt", "x", "nul"}
  MaxLen = 3
  Emit = FALSE
  VoidClosesTag = TRUE
  NameStopNeedsGt = TRUE
  DoctypeQuote = "nonul"
  NulInTagIsError = TRUE
INVARIANT TypeOK
PROPERTY RefinesXml
PROPERTY RefinesTok
CHECK_DEADLOCK FALSE
