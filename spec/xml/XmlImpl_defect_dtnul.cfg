SPECIFICATION Spec
CONSTANTS
  Alphabet = {"doctype", "dq", "sq", "gt", "x", "nul"}
  MaxLen = 4
  Emit = FALSE
  VoidClosesTag = TRUE
  NameStopNeedsGt = TRUE
  DoctypeQuote = "nonul"
  NulInTagIsError = TRUE
INVARIANT TypeOK
PROPERTY RefinesXml
PROPERTY RefinesTok
CHECK_DEADLOCK FALSE
