SPECIFICATION Spec
CONSTANTS
  Prefixes = {"doctype"}
  Alphabet = {"dq", "sq", "gt", "lb", "x", "nul"}
  MaxLen = 4
  Emit = TRUE
  VoidClosesTag = TRUE
  NameStopNeedsGt = TRUE
  DoctypeQuote = "toggle"
  NulInTagIsError = TRUE
INVARIANT TypeOK
PROPERTY RefinesXml
PROPERTY RefinesTok
CHECK_DEADLOCK FALSE
