SPECIFICATION Spec
CONSTANTS
  Alphabet = {"doctype", "dq", "sq", "gt", "lb", "x", "nul"}
  MaxLen = 5
  Emit = TRUE
  VoidClosesTag = TRUE
  NameStopNeedsGt = TRUE
  DoctypeQuote = "toggle"
  NulInTagIsError = TRUE
INVARIANT TypeOK
PROPERTY RefinesXml
PROPERTY RefinesTok
CHECK_DEADLOCK FALSE
