SPECIFICATION Spec
CONSTANTS
  Alphabet = {"cdata", "cdend", "cdo", "cdc", "lt", "bang", "dash", "rb", "gt", "x", "nul"}
  MaxLen = 6
  Emit = TRUE
  VoidClosesTag = TRUE
  NameStopNeedsGt = TRUE
  DoctypeQuote = "remember"
  NulInTagIsError = TRUE
INVARIANT TypeOK
PROPERTY RefinesXml
PROPERTY RefinesTok
CHECK_DEADLOCK FALSE
