SPECIFICATION Spec
CONSTANTS
  Prefixes = {"cdata", "cdo"}
  Alphabet = {"cdend", "cdc", "dash", "rb", "gt", "lt", "x", "nul"}
  MaxLen = 6
  Emit = TRUE
  VoidClosesTag = TRUE
  NameStopNeedsGt = TRUE
  DoctypeQuote = "remember"
  NulInTagIsError = TRUE
INVARIANT TypeOK
PROPERTY RefinesXml
PROPERTY RefinesTok
CHECK_DEADLOCK FALSE
