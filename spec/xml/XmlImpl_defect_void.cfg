SPECIFICATION Spec
CONSTANTS
  Prefixes = {"none"}
  Alphabet = {"lt", "gt", "slash", "sp", "x", "eq", "nul"}
  MaxLen = 5
  Emit = FALSE
  VoidClosesTag = FALSE
  NameStopNeedsGt = TRUE
  DoctypeQuote = "remember"
  NulInTagIsError = TRUE
INVARIANT TypeOK
PROPERTY RefinesXml
PROPERTY RefinesTok
CHECK_DEADLOCK FALSE
