SPECIFICATION Spec
CONSTANTS
  Prefixes = {"none"}
  Alphabet = {"lt", "gt", "slash", "qmark", "eq", "sp", "nl", "x", "nul"}
  MaxLen = 5
  Emit = TRUE
  VoidClosesTag = TRUE
  NameStopNeedsGt = TRUE
  DoctypeQuote = "remember"
  NulInTagIsError = TRUE
INVARIANT TypeOK
PROPERTY RefinesXml
PROPERTY RefinesTok
CHECK_DEADLOCK FALSE
