SPECIFICATION Spec
CONSTANTS
  Prefixes = {"doctype"}
  Alphabet = {"cdo", "cdc", "lt", "gt", "lb", "rb", "dq", "sq", "x", "nul"}
  MaxLen = 6
  Emit = TRUE
  VoidClosesTag = TRUE
  NameStopNeedsGt = TRUE
  DoctypeQuote = "remember"
  NulInTagIsError = TRUE
INVARIANT TypeOK
PROPERTY RefinesXml
PROPERTY RefinesTok
CHECK_DEADLOCK FALSE
