------------------------------ MODULE XmlDoc ------------------------------
(***************************************************************************)
(* Generator (kind G) for C11: the document grammar of XML 1.0 (Fifth      *)
(* Edition) as grammar-as-behaviour.  A state is a sentential form; every  *)
(* step applies one production to the LEFTMOST non-terminal, so each       *)
(* derivation tree is generated once.  A form without non-terminals is a   *)
(* well-formed document given as a sequence of ATOMS (names of spellings;  *)
(* the harness chooses among several byte spellings per atom by seed).     *)
(*                                                                         *)
(* Productions transcribed (numbers of the Recommendation):                *)
(*   [1] document  [22] prolog  [23] XMLDecl  [24] VersionInfo  [25] Eq    *)
(*   [27] Misc  [28] doctypedecl  [28a] DeclSep  [28b] intSubset           *)
(*   [75] ExternalID  [11] SystemLiteral  [12] PubidLiteral                *)
(*   [9] EntityValue  [71] GEDecl  [15] Comment  [16] PI  [18] CDSect      *)
(*   [39] element  [40] STag  [41] Attribute  [10] AttValue  [42] ETag     *)
(*   [43] content  [44] EmptyElemTag  [14] CharData  [80] EncodingDecl     *)
(*   [32] SDDecl.                                                          *)
(* Lexical side conditions of those productions are stated once, as        *)
(* forbidden substrings / suffixes over the SHAPE of the body pieces       *)
(* (Forbidden, BadEnd below): "--" inside and "-" at the end of a comment  *)
(* [15], "]]>" inside CDATA [20]; and NeedsSep: two character-data items   *)
(* (or two S items of Misc) may not be adjacent (they would be ONE item).  *)
(*                                                                         *)
(* What must be observed (Expected) is computed here from the atoms: one   *)
(* token per construct with the library's type name, the atoms making up   *)
(* Text() and AttrVal() (a negative entry -b is the literal byte b: the    *)
(* #x20 that attribute-value normalisation [3.3.3] puts in place of a      *)
(* tab / newline / carriage return), and the element-name /                *)
(* attribute-name / attribute-value report a conforming reader gives.      *)
(*                                                                         *)
(* Bounds: MaxC constructs (XML declaration, DOCTYPE, comment, PI, CDATA   *)
(* section, character data, element, attribute: one each), MaxV            *)
(* variations (every choice other than the default spelling: optional      *)
(* white space, a body that is not one plain piece, optional parts of      *)
(* declarations, items of the internal subset), MaxT constructs plus       *)
(* variations, MaxP pieces per body.                                       *)
(***************************************************************************)
EXTENDS Integers, Sequences, FiniteSets, TLC, Json, CSV, IOUtils

CONSTANTS MaxC, MaxV, MaxT, MaxP

A(x)     == [t |-> "a", v |-> x, k |-> 0]
Ak(x, n) == [t |-> "a", v |-> x, k |-> n]
N(x)     == [t |-> "n", v |-> x, k |-> 0]
Nk(x, n) == [t |-> "n", v |-> x, k |-> n]
P(r, cc, vv) == [rhs |-> r, c |-> cc, v |-> vv]

Quotes == {"dq", "sq"}
Other(q) == IF q = "dq" THEN "sq" ELSE "dq"

(*************************** body pieces and their shapes *******************)
\* attribute values [10]: no '<', no '&' (entity-free values), not the delimiting quote
\* ("]]>" is allowed in an attribute value by [10], but encoding/xml, which the statement names as the reference, rejects it
\* there: not generated)
AvCommon == {"v.text", "v.gt", "v.sp", "v.tab", "v.nl", "v.cr", "v.eq", "v.slashgt"}
Pieces(ctx) ==
    CASE ctx = "av.dq" -> AvCommon \cup {"v.sq", "v.qgt"}
      [] ctx = "av.sq" -> AvCommon \cup {"v.dq", "v.qgt"}
      [] ctx = "pv.dq" -> AvCommon \cup {"v.sq"}          \* inside a PI: no "?>" [16]
      [] ctx = "pv.sq" -> AvCommon \cup {"v.dq"}
      [] ctx = "cmt"   -> {"c.text", "c.dash", "c.dashgt", "c.gt", "c.lt", "c.quote", "c.qgt", "c.cdend", "c.tag", "c.amp"}
      [] ctx = "cd"    -> {"cd.text", "cd.rb", "cd.rbrb", "cd.rbgt", "cd.gt", "cd.lt", "cd.amp", "cd.tag", "cd.cmt"}
      [] ctx = "xl.dq" -> {"xl.dq.text", "xl.dq.gt", "xl.dq.sq", "xl.dq.lb", "xl.dq.rb"}   \* SystemLiteral [11]
      [] ctx = "xl.sq" -> {"xl.sq.text", "xl.sq.gt", "xl.sq.dq", "xl.sq.lb", "xl.sq.rb"}
      [] ctx = "el.dq" -> {"el.dq.text", "el.dq.gt", "el.dq.sq", "el.dq.lb", "el.dq.rb"}   \* EntityValue [9]
      [] ctx = "el.sq" -> {"el.sq.text", "el.sq.gt", "el.sq.dq", "el.sq.lb", "el.sq.rb"}
      [] ctx = "dc"    -> {"dc.text", "dc.gt", "dc.dq", "dc.sq", "dc.lb", "dc.rb"}         \* comment in the internal subset
Ctxs == {"av.dq", "av.sq", "pv.dq", "pv.sq", "cmt", "cd", "xl.dq", "xl.sq", "el.dq", "el.sq", "dc"}
AllPieces == UNION {Pieces(c) : c \in Ctxs}
\* the plain piece of every context: a body consisting of just this piece is the default spelling (costs no variation)
Plain == {"v.text", "c.text", "cd.text", "xl.dq.text", "xl.sq.text", "el.dq.text", "el.sq.text", "dc.text"}

\* the characters of a piece that a lexical side condition of the grammar talks about ("x": any other)
Shape(a) ==
    CASE a = "c.dash"   -> <<"-">>
      [] a = "c.dashgt" -> <<"-", "x">>
      [] a = "cd.rb"    -> <<"]">>
      [] a = "cd.rbrb"  -> <<"]", "]">>
      [] a = "cd.rbgt"  -> <<"]", ">">>
      [] a = "cd.gt"    -> <<">">>
      [] a = "v.cr"     -> <<"cr">>
      [] a = "v.nl"     -> <<"nl">>
      [] OTHER          -> <<"x">>
\* [15]: no "--" in a comment; [20]: no "]]>" in CDATA; attribute values: CR LF is ONE line end by 2.11 and becomes ONE
\* space by 3.3.3, which a lexer handing out slices of its input cannot deliver: the statement leaves it open, not generated
Forbidden(ctx) ==
    CASE ctx \in {"cmt", "dc"} -> {<<"-", "-">>}
      [] ctx = "cd" -> {<<"]", "]", ">">>}
      [] ctx \in {"av.dq", "av.sq", "pv.dq", "pv.sq"} -> {<<"cr", "nl">>}
      [] OTHER -> {}
BadEnd(ctx) == IF ctx \in {"cmt", "dc"} THEN {"-"} ELSE {}    \* [15]: "--->" is not allowed

Contains(s, pat) == \E i \in 1..(Len(s) - Len(pat) + 1) : SubSeq(s, i, i + Len(pat) - 1) = pat
RECURSIVE ShapeOf(_, _, _)
ShapeOf(f, from, to) == IF from > to THEN <<>> ELSE ShapeOf(f, from, to - 1) \o Shape(f[to].v)
\* the shape of the pieces already placed in the body that ends just before position i (k of them)
BodyShape(f, i, k) == ShapeOf(f, i - k, i - 1)
PieceOk(ctx, f, i, k, p) == LET s == BodyShape(f, i, k) \o Shape(p) IN \A pat \in Forbidden(ctx) : ~Contains(s, pat)
CloseOk(ctx, f, i, k) == LET s == BodyShape(f, i, k) IN s = <<>> \/ s[Len(s)] \notin BadEnd(ctx)

(*************************** the grammar ************************************)
\* an item of Misc* / content that is character data; two of them may not be adjacent
NeedsSep(a, b) == a \in {"misc.s", "chardata"} /\ b \in {"misc.s", "chardata"}

QuotedFixed(name, val) == {<<A("s"), A(name), N("eq"), A(q), A(val), A(q)>> : q \in Quotes}
BodyNT(x) == \E c \in Ctxs : x = "body." \o c
CtxOf(x) == CHOOSE c \in Ctxs : x = "body." \o c

\* Prods(it, f, i, ne): the productions applicable to non-terminal `it` at position i of form f; ne = elements so far
Prods(it, f, i, ne) ==
    LET x == it.v  k == it.k IN
    CASE x = "document" -> {P(<<N("prolog"), N("root"), N("miscs")>>, 0, 0)}                               \* [1]
      [] x = "prolog"   -> {P(<<N("xdeclopt"), N("miscs"), N("dtopt")>>, 0, 0)}                            \* [22]
      [] x = "xdeclopt" -> {P(<<>>, 0, 0)} \cup                                                            \* [23] [24]
                           {P(<<A("pi.open"), A("xd.xml"), A("s"), A("xd.version"), N("eq"), A(q), A("xd.v10"), A(q),
                                N("encopt"), N("sdopt"), N("sopt"), A("pi.close")>>, 1, IF q = "dq" THEN 0 ELSE 1) : q \in Quotes}
      [] x = "encopt"   -> {P(<<>>, 0, 0)} \cup {P(r, 0, 1) : r \in QuotedFixed("xd.encoding", "xd.utf8")}      \* [80]
      [] x = "sdopt"    -> {P(<<>>, 0, 0)} \cup {P(r, 0, 1) : r \in QuotedFixed("xd.standalone", "xd.yesno")}   \* [32]
      [] x = "eq"       -> {P(<<A("eq")>>, 0, 0), P(<<A("s"), A("eq")>>, 0, 1), P(<<A("eq"), A("s")>>, 0, 1),   \* [25]
                            P(<<A("s"), A("eq"), A("s")>>, 0, 1)}
      [] x = "sopt"     -> {P(<<>>, 0, 0), P(<<A("s")>>, 0, 1)}
      [] x = "dtopt"    -> {P(<<>>, 0, 0), P(<<N("doctype"), N("miscs")>>, 1, 0)}
      \* Misc* [27] as  S? (markup S?)*
      [] x = "miscs"    -> {P(<<>>, 0, 0), P(<<A("misc.s")>>, 0, 1), P(<<N("miscm"), N("miscs")>>, 0, 0),
                            P(<<A("misc.s"), N("miscm"), N("miscs")>>, 0, 1)}
      [] x = "miscm"    -> {P(<<N("comment")>>, 1, 0), P(<<N("pi")>>, 1, 0)}
      [] x = "comment"  -> {P(<<A("cmt.open"), N("body.cmt"), A("cmt.close")>>, 0, 0)}                     \* [15]
      [] x = "cdata"    -> {P(<<A("cd.open"), N("body.cd"), A("cd.close")>>, 0, 0)}                        \* [18]-[21]
      [] x = "pi"       -> {P(<<A("pi.open"), A("pitarget"), Nk("pattrs", 1), N("sopt"), A("pi.close")>>, 0, 0)}   \* [16]
      [] x = "pattrs"   -> {P(<<>>, 0, 0)} \cup                                                            \* pseudo-attributes
                           {P(<<A("s"), Ak("aname", k), N("eq"), A(q), N("body.pv." \o q), A(q), Nk("pattrs", k + 1)>>, 1, IF q = "dq" THEN 0 ELSE 1) : q \in Quotes}
      \* doctypedecl [28]
      [] x = "doctype"  -> {P(<<A("dt.open"), A("dt.s"), A("dt.name"), N("extid"), N("dtsopt"), N("subsetopt"), A("dt.close")>>, 0, 0)}
      [] x = "dtsopt"   -> {P(<<>>, 0, 0), P(<<A("dt.s")>>, 0, 1)}
      [] x = "extid"    -> {P(<<>>, 0, 0)} \cup                                                            \* [75]
                           {P(<<A("dt.s"), A("dt.SYSTEM"), A("dt.s"), A("dt." \o q), N("body.xl." \o q), A("dt." \o q)>>, 0, 1) : q \in Quotes} \cup
                           {P(<<A("dt.s"), A("dt.PUBLIC"), A("dt.s"), A("dt." \o q[1]), A("dt.pubid"), A("dt." \o q[1]), A("dt.s"),
                                A("dt." \o q[2]), N("body.xl." \o q[2]), A("dt." \o q[2])>>, 0, 1) : q \in Quotes \X Quotes}
      [] x = "subsetopt" -> {P(<<>>, 0, 0), P(<<A("dt.lb"), Nk("subset", 0), A("dt.rb"), N("dtsopt")>>, 0, 0)}
      [] x = "subset"   -> {P(<<>>, 0, 0)} \cup                                                            \* [28b]
                           (IF k >= MaxP THEN {} ELSE
                            LET vv == 1 IN
                            {P(<<A("ds.entopen"), A("dt." \o q), N("body.el." \o q), A("dt." \o q), A("ds.declclose"), Nk("subset", k + 1)>>, 0, vv) : q \in Quotes} \cup
                            {P(<<A("dc.open"), N("body.dc"), A("dc.close"), Nk("subset", k + 1)>>, 0, vv),
                             P(<<A("ds.s"), Nk("subset", k + 1)>>, 0, vv),
                             P(<<A("ds.peref"), Nk("subset", k + 1)>>, 0, vv),
                             P(<<A("ds.elemdecl"), Nk("subset", k + 1)>>, 0, vv)})
      \* element [39] [40] [42] [44]; the root is an element
      [] x \in {"root", "element"} ->
                           {P(<<A("stag.lt"), Ak("ename", ne + 1), Nk("attrs", 1), N("sopt"), A("stag.gt"), N("content"),
                                A("etag.lt"), Ak("ename", ne + 1), N("sopt"), A("etag.gt")>>, 1, 0),
                            P(<<A("stag.lt"), Ak("ename", ne + 1), Nk("attrs", 1), N("sopt"), A("stag.void")>>, 1, 0)}
      [] x = "attrs"    -> {P(<<>>, 0, 0)} \cup                                                            \* [41] [10]
                           {P(<<A("s"), Ak("aname", k), N("eq"), A(q), N("body.av." \o q), A(q), Nk("attrs", k + 1)>>, 1, 0) : q \in Quotes}
      \* content [43] as  CharData? (markup CharData?)*
      [] x = "content"  -> {P(<<>>, 0, 0), P(<<A("chardata")>>, 1, 0), P(<<N("cmark"), N("content")>>, 0, 0),
                            P(<<A("chardata"), N("cmark"), N("content")>>, 1, 0)}
      [] x = "cmark"    -> {P(<<N("element")>>, 0, 0), P(<<N("cdata")>>, 1, 0), P(<<N("pi")>>, 1, 0), P(<<N("comment")>>, 1, 0)}
      \* bodies: pieces one at a time; k pieces placed so far; the first piece is free, further ones are variations
      [] BodyNT(x)      -> LET ctx == CtxOf(x) IN
                           (IF CloseOk(ctx, f, i, k) THEN {P(<<>>, 0, IF k = 0 THEN 1 ELSE 0)} ELSE {}) \cup
                           (IF k >= MaxP THEN {} ELSE
                            {P(<<A(p), Nk(x, k + 1)>>, 0, IF k = 0 /\ p \in Plain THEN 0 ELSE 1) : p \in {pp \in Pieces(ctx) : PieceOk(ctx, f, i, k, pp)}})

VARIABLES form, nc, nv, ne
vars == <<form, nc, nv, ne>>

IsNT(it) == it.t = "n"
HasNT(f) == \E i \in 1..Len(f) : IsNT(f[i])
FirstNT(f) == CHOOSE i \in 1..Len(f) : IsNT(f[i]) /\ \A j \in 1..(i - 1) : ~IsNT(f[j])
RootPending(f) == \E i \in 1..Len(f) : IsNT(f[i]) /\ f[i].v \in {"document", "prolog", "root"}

(*************************** what must be observed **************************)
ANames == {"aname", "xd.version", "xd.encoding", "xd.standalone"}
OpenKind(a) ==
    CASE a = "stag.lt" -> "StartTag"          [] a = "pi.open" -> "StartTagPI"       [] a = "etag.lt" -> "EndTag"
      [] a \in ANames -> "Attribute"          [] a = "stag.gt" -> "StartTagClose"    [] a = "stag.void" -> "StartTagCloseVoid"
      [] a = "pi.close" -> "StartTagClosePI"  [] a \in {"chardata", "misc.s"} -> "Text"
      [] a = "cmt.open" -> "Comment"          [] a = "cd.open" -> "CDATA"            [] a = "dt.open" -> "DOCTYPE"
      [] OTHER -> ""
DtInner == {"dt.s", "dt.name", "dt.SYSTEM", "dt.PUBLIC", "dt.pubid", "dt.dq", "dt.sq", "dt.lb", "dt.rb", "ds.entopen", "ds.declclose",
            "ds.s", "ds.peref", "ds.elemdecl", "dc.open", "dc.close"}
            \cup Pieces("xl.dq") \cup Pieces("xl.sq") \cup Pieces("el.dq") \cup Pieces("el.sq") \cup Pieces("dc")
TextAtoms == {"ename", "pitarget", "xd.xml", "chardata", "misc.s"} \cup ANames \cup Pieces("cmt") \cup Pieces("cd") \cup DtInner
ValPieces == Pieces("av.dq") \cup Pieces("av.sq")
ValAtoms  == {"dq", "sq", "xd.v10", "xd.utf8", "xd.yesno"} \cup ValPieces
Normalised == {"v.tab", "v.nl", "v.cr"}        \* 3.3.3: each becomes #x20

Last(s) == s[Len(s)]
SetLast(s, r) == [s EXCEPT ![Len(s)] = r]
StepTok(acc, a, i) ==
    LET ok == OpenKind(a) IN
    IF ok # "" THEN Append(acc, [k |-> ok, at |-> i, opt |-> (a = "misc.s"), text |-> IF a \in TextAtoms THEN <<i>> ELSE <<>>, val |-> <<>>])
    ELSE IF acc = <<>> THEN acc
    ELSE IF a \in TextAtoms THEN SetLast(acc, [Last(acc) EXCEPT !.text = Append(@, i)])
    ELSE IF a \in ValAtoms THEN SetLast(acc, [Last(acc) EXCEPT !.val = Append(@, IF a \in Normalised THEN -32 ELSE i)])
    ELSE acc
RECURSIVE Fold(_, _, _)
Fold(f, i, acc) == IF i > Len(f) THEN acc ELSE Fold(f, i + 1, StepTok(acc, f[i].v, i))
Expected(f) == Fold(f, 1, <<>>)

\* the report of a conforming reader, straight from the atoms: element events <<1 start | 2 end, name atom>>,
\* attribute names and attribute values (without the quotes) of ELEMENTS, in document order
RECURSIVE Rep(_, _, _)
Rep(f, i, r) ==
    IF i > Len(f) THEN r ELSE
    LET a == f[i].v IN
    Rep(f, i + 1,
        IF a = "stag.lt" THEN [r EXCEPT !.names = Append(@, <<1, i + 1>>), !.cur = i + 1, !.elem = TRUE]
        ELSE IF a = "pi.open" THEN [r EXCEPT !.elem = FALSE]
        ELSE IF a = "etag.lt" THEN [r EXCEPT !.names = Append(@, <<2, i + 1>>)]
        ELSE IF a = "stag.void" THEN [r EXCEPT !.names = Append(@, <<2, r.cur>>)]
        ELSE IF a = "aname" /\ r.elem THEN [r EXCEPT !.anames = Append(@, i), !.avals = Append(@, <<>>)]
        ELSE IF a \in ValPieces /\ r.elem THEN [r EXCEPT !.avals = SetLast(@, Append(Last(@), IF a \in Normalised THEN -32 ELSE i))]
        ELSE r)
Report(f) == Rep(f, 1, [names |-> <<>>, anames |-> <<>>, avals |-> <<>>, cur |-> 0, elem |-> FALSE])

CaseFile == IOEnv.VERIF_CASES
AtomName(it) == IF it.k = 0 THEN it.v ELSE it.v \o ":" \o ToString(it.k)
Write(f, c, v) ==
    LET r == Report(f) IN
    CSVWrite("%1$s", <<ToJson([atoms |-> [j \in 1..Len(f) |-> AtomName(f[j])], exp |-> Expected(f),
                               names |-> r.names, anames |-> r.anames, avals |-> r.avals, c |-> c, v |-> v])>>, CaseFile)

\* adjacent character-data items never arise (the grammar interleaves them with markup); checked, not assumed
SepOk(f) == \A j \in 1..(Len(f) - 1) : ~(f[j].t = "a" /\ f[j + 1].t = "a" /\ NeedsSep(f[j].v, f[j + 1].v))

Init == form = <<N("document")>> /\ nc = MaxC /\ nv = MaxV /\ ne = 0
Next ==
    /\ HasNT(form)
    /\ LET i == FirstNT(form) IN
       \E p \in Prods(form[i], form, i, ne) :
          LET isRoot == form[i].v = "root"
              f2 == SubSeq(form, 1, i - 1) \o p.rhs \o SubSeq(form, i + 1, Len(form)) IN
          /\ p.c <= nc - (IF RootPending(form) /\ ~isRoot THEN 1 ELSE 0)     \* one construct is reserved for the root element
          /\ p.v <= nv
          /\ (MaxC - nc) + (MaxV - nv) + p.c + p.v <= MaxT
          /\ form' = f2 /\ nc' = nc - p.c /\ nv' = nv - p.v
          /\ ne' = (IF form[i].v \in {"root", "element"} THEN ne + 1 ELSE ne)
          /\ (~HasNT(f2) => Assert(SepOk(f2), "adjacent character data") /\ Write(f2, MaxC - nc', MaxV - nv'))
Spec == Init /\ [][Next]_vars
=============================================================================
