----------------------------- MODULE XmlTrace -----------------------------
(* Trace specification (kind T) for C11: judges the traces of harness/suites/xmldoc against XmlStream.tla. *)
EXTENDS XmlStream, TraceIO

VARIABLES l, bad
tvars == <<xvars, l, bad>>
e == Trace[l]

TInit == /\ l = 1 /\ bad = FALSE /\ tag = "none" /\ cur = <<>> /\ idx = 1 /\ lrep = EmptyRep /\ ended = FALSE
         /\ wf = FALSE /\ nul = FALSE /\ exp = <<>> /\ grep = EmptyRep /\ srep = EmptyRep
IsStartEv == e.ev = "Open"
Returned == e.out = "ret"
Step == CASE e.ev = "Tok" -> Tok(e.kname, e.text, e.val)
          [] e.ev = "Err" -> ErrRep(e.eof, e.none)
          [] e.ev = "End" -> End
          [] OTHER -> FALSE

TStart == l <= NEvents /\ IsStartEv /\ Open(e.wf, e.nul, e.exp, e.gen, e.std) /\ bad' = FALSE /\ l' = l + 1
TStep  == l <= NEvents /\ ~IsStartEv /\ ~bad /\ Returned /\ Step /\ l' = l + 1 /\ UNCHANGED bad
TFail  == /\ l <= NEvents /\ ~IsStartEv /\ ~bad /\ ~(Returned /\ ENABLED Step)
          /\ RecordFail(e, l) /\ bad' = TRUE /\ l' = l + 1 /\ UNCHANGED xvars
TSkip  == l <= NEvents /\ ~IsStartEv /\ bad /\ l' = l + 1 /\ UNCHANGED <<xvars, bad>>
TNext == TStart \/ TStep \/ TFail \/ TSkip
TSpec == TInit /\ [][TNext]_tvars
Accepted == TLCGet("stats").diameter = NEvents + 1
=============================================================================
