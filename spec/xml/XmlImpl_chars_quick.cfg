SPECIFICATION Spec
CONSTANTS
  Prefixes = {"none"}
  Alphabet = {"lt", "gt", "slash", "bang", "qmark", "dash", "eq", "dq", "sq", "lb", "rb", "sp", "nl", "x", "nul"}
  MaxLen = 4
  Emit = TRUE
  VoidClosesTag = TRUE
  NameStopNeedsGt = TRUE
  DoctypeQuote = "remember"
  NulInTagIsError = TRUE
INVARIANT TypeOK
PROPERTY RefinesXml
PROPERTY RefinesTok
CHECK_DEADLOCK FALSE
