------------------------------ MODULE XmlImpl ------------------------------
(***************************************************************************)
(* Implementation-shaped specification (kind I) of xml.Lexer.Next          *)
(* (/repo/xml/lex.go) over a CLASS ALPHABET of input characters.           *)
(*                                                                         *)
(* The input is a sequence of ATOMS chosen by TLC (a prefix atom from      *)
(* Prefixes followed by every sequence up to MaxLen over Alphabet).  An    *)
(* atom is a single character class or a multi-character spelling that     *)
(* opens / closes a construct ("doctype" = <!DOCTYPE ...); prefixes and    *)
(* atoms only shorten the way to deep states: the model                    *)
(* itself runs on the flattened sequence of CHARACTER classes, one         *)
(* operator per Go function, same order of tests, same cursor arithmetic   *)
(* (parse.Input: buf = input + NUL terminator, pos, start).  The lexer     *)
(* tests bytes only against < > / ! ? - = " ' [ ] space tab/LF/CR NUL and  *)
(* the letters of CDATA / DOCTYPE; every other byte is the class "x".      *)
(*                                                                         *)
(* One step = one call of Next; it yields a token [k, lo, hi, text range,  *)
(* attrval range, rewritten positions] (absolute character indices,        *)
(* 0-based, end exclusive) or the error report, or "Panic" (an index       *)
(* outside buf).  The model stops at the error report, like the drivers.   *)
(*                                                                         *)
(* TLC checks  I => P  for every atom string within the bound:             *)
(*   RefinesXml : every step is a step of xml/XmlStream.tla (all-input     *)
(*                clauses: Attribute only between a StartTag / StartTagPI  *)
(*                and its closing token; an embedded NUL gives an error    *)
(*                report that is neither EOF nor nil; nothing after the    *)
(*                error report);                                           *)
(*   RefinesTok : every step is a step of proto/TokenStream.tla as far as  *)
(*                it is expressible on classes (tokens non-empty, ending   *)
(*                at the cursor, ordered and non-overlapping, Text/AttrVal *)
(*                inside the token, bytes rewritten only in Attribute      *)
(*                tokens, uncovered characters only white space in a tag). *)
(* Both together imply termination: every non-error step moves `end`       *)
(* forward by at least one character, so an error report is reached after  *)
(* at most Len(input) tokens ("the stream ends with an error report").     *)
(*                                                                         *)
(* The state graph is also the generator of the differential replay: at    *)
(* the error report the whole predicted token list is written out (Emit)   *)
(* and `vdrive xmldoc impl` compares it with what the code does on         *)
(* concrete bytes (MODEL-DRIFT if they differ; a verdict only from P).     *)
(* Measured on the unchanged tree (2026-09-26, seeds 1-3): no drift - the   *)
(* code returns exactly the predicted tokens, Text(), AttrVal(), rewritten *)
(* bytes and error report on all 417 k quick and 4.2 M thorough inputs.    *)
(* Not observable through lexers.RunTokens and therefore not compared:     *)
(* the cursor offset of the error report (`at`).                           *)
(*                                                                         *)
(* Defect switches (see XmlImpl_defect_*.cfg) model plausible regressions: *)
(*   VoidClosesTag = FALSE   inTag is not cleared at "/>"                  *)
(*   NameStopNeedsGt = FALSE the attribute-name loop stops at any '/' '?'  *)
(*   DoctypeQuote = "nonul"  `quote != 0` without `&& c != 0`              *)
(*   NulInTagIsError = FALSE NUL in a tag returns ErrorToken, l.err unset  *)
(*   DoctypeQuote = "toggle" one boolean in-string flag toggled by both    *)
(*                           quote characters: NOT visible to the all-     *)
(*                           input clauses (token boundaries move, every   *)
(*                           clause still holds); it is used to show that  *)
(*                           the differential replay detects a wrong model.*)
(***************************************************************************)
EXTENDS Integers, Sequences, FiniteSets, TLC, Json, CSV, IOUtils

CONSTANTS Prefixes,         \* every input starts with one of these atoms ("none": no prefix; the way into a sub-automaton) ...
          Alphabet,         \* ... followed by every sequence over these atoms ...
          MaxLen,           \* ... of up to MaxLen atoms
          Emit,             \* TRUE: write every input with the predicted token list (IOEnv.VERIF_CASES)
          VoidClosesTag, NameStopNeedsGt, DoctypeQuote, NulInTagIsError

Single == {"lt", "gt", "slash", "bang", "qmark", "dash", "eq", "dq", "sq", "lb", "rb", "sp", "nl", "x", "nul"}
Multi == [cdo     |-> <<"lt", "bang", "dash", "dash">>,
          cdc     |-> <<"dash", "dash", "gt">>,
          cdata   |-> <<"lt", "bang", "lb", "C", "D", "A", "T", "A", "lb">>,
          cdend   |-> <<"rb", "rb", "gt">>,
          doctype |-> <<"lt", "bang", "D", "O", "C", "T", "Y", "P", "E">>,
          stag    |-> <<"lt", "x">>,              \* "<a"
          attr    |-> <<"sp", "x", "eq">>]        \* " a=": the way into an attribute value
Atoms == Single \cup DOMAIN Multi
ASSUME Alphabet \subseteq Atoms /\ Prefixes \subseteq Atoms \cup {"none"} /\ DoctypeQuote \in {"remember", "toggle", "nonul"}

Expand(a) == IF a \in Single THEN <<a>> ELSE Multi[a]
RECURSIVE Flat(_)
Flat(s) == IF s = <<>> THEN <<>> ELSE Expand(Head(s)) \o Flat(Tail(s))

VARIABLES atoms,          \* the input as atoms
          buf,            \* parse.Input.buf as character classes: Flat(atoms) \o <<"nul">>; rewritten in place by shiftAttribute
          pos, start,     \* parse.Input.pos / start (0-based)
          inTag,          \* Lexer.inTag
          halted,         \* the error report (or a panic) was returned
          out,            \* result of the latest call
          hist,           \* tokens returned so far (for the replay case)
          gTag, gCur, gRep,   \* ghosts mirroring XmlStream's bookkeeping (tag, cur, lrep)
          gEnd, gIn           \* ghosts mirroring TokenStream's bookkeeping (end, inTag)
ivars == <<atoms, buf, pos, start, inTag, halted, out, hist, gTag, gCur, gRep, gEnd, gIn>>

N == Len(buf) - 1                                   \* number of input characters; buf[N + 1] is the terminator
Pk(p) == IF p < Len(buf) THEN buf[p + 1] ELSE "oob" \* r.Peek at absolute position p; outside buf is the Go panic
ErrNil(p) == p < N                                  \* Input.Err() = nil at p: `len(buf)-1 <= pos` is io.EOF
At(p, s) == \A i \in 1..Len(s) : Pk(p + i - 1) = s[i]    \* Lexer.at (stops at the first mismatch, so never outside buf)
Ws(c) == c \in {"sp", "nl"}                         \* ' ' | '\t' '\n' '\r'
HasNul == \E i \in 1..N : buf[i] = "nul"

X == INSTANCE XmlStream WITH tag <- gTag, cur <- gCur, idx <- 1, lrep <- gRep, ended <- halted, wf <- FALSE, nul <- HasNul,
                             exp <- <<>>, grep <- [names |-> <<>>, anames |-> <<>>, avals |-> <<>>],
                             srep <- [names |-> <<>>, anames |-> <<>>, avals |-> <<>>]
T == INSTANCE TokenStream WITH fam <- "xml", concat <- FALSE, end <- gEnd, seenErr <- halted, inTag <- gIn

Init == /\ \E p \in Prefixes : \E n \in 0..MaxLen : \E s \in [1..n -> Alphabet] : atoms = (IF p = "none" THEN <<>> ELSE <<p>>) \o s
        /\ buf = Flat(atoms) \o <<"nul">>
        /\ pos = 0 /\ start = 0 /\ inTag = FALSE /\ halted = FALSE /\ out = [op |-> "none"] /\ hist = <<>>
        /\ gTag = "none" /\ gCur = <<>> /\ gRep = X!EmptyRep /\ gEnd = 0 /\ gIn = FALSE

(* ---- results of a call ---- *)
\* token of type k = buf[lo..hi), Text() = buf[tlo..thi), AttrVal() = buf[vlo..vhi) (empty range at lo: nil),
\* norm: positions rewritten to ' ', tag2: inTag afterwards.  The cursor ends at hi (Shift).
Token(k, lo, hi, tlo, thi, vlo, vhi, norm, tag2) ==
    [op |-> "Tok", k |-> k, lo |-> lo, hi |-> hi, tlo |-> tlo, thi |-> thi, vlo |-> vlo, vhi |-> vhi, norm |-> norm, tag2 |-> tag2]
\* ErrorToken with the cursor left at p: Err() is io.EOF at the terminator; at an embedded NUL it is l.err if that was set, else nil
ErrorAt(p, setErr) == [op |-> "Err", at |-> p, eof |-> ~ErrNil(p), none |-> ErrNil(p) /\ ~setErr]
Panic == [op |-> "Panic"]

(* ---- shiftDOCTYPEText: the cursor is behind "<!DOCTYPE" ---- *)
Opened(c) == IF DoctypeQuote = "toggle" THEN "on" ELSE c            \* `quote = c`
Closes(q, c) == IF DoctypeQuote = "toggle" THEN c \in {"dq", "sq"} ELSE c = q   \* `c == quote`
RECURSIVE DtComment(_)
DtComment(p) == IF Pk(p) = "nul" \/ (Pk(p) = "dash" /\ Pk(p + 1) = "dash" /\ Pk(p + 2) = "gt") THEN p ELSE DtComment(p + 1)
RECURSIVE DtLoop(_, _, _)
DtLoop(p, quote, inBr) ==
    LET c == Pk(p) IN
    IF c = "oob" THEN Panic
    ELSE IF quote # "" /\ (DoctypeQuote = "nonul" \/ c # "nul") THEN DtLoop(p + 1, IF Closes(quote, c) THEN "" ELSE quote, inBr)
    ELSE IF c \in {"dq", "sq"} THEN DtLoop(p + 1, Opened(c), inBr)
    ELSE IF c = "lt" /\ At(p, <<"lt", "bang", "dash", "dash">>) THEN      \* comment in the internal subset
         LET q == DtComment(p + 4) IN
         IF Pk(q) = "nul" THEN DtLoop(q, quote, inBr)                   \* `continue` at the NUL
         ELSE DtLoop(q + 3, quote, inBr)                                \* Move(2), then the Move(1) of the loop
    ELSE IF c \in {"lb", "rb"} THEN DtLoop(p + 1, quote, c = "lb")
    ELSE IF c = "gt" /\ ~inBr THEN Token("DOCTYPE", start, p + 1, start + 9, p, start, start, {}, FALSE)
    ELSE IF c = "nul" THEN Token("DOCTYPE", start, p, start + 9, p, start, start, {}, FALSE)
    ELSE DtLoop(p + 1, quote, inBr)
ShiftDOCTYPEText(p) == DtLoop(p, "", FALSE)

(* ---- shiftCDATAText: behind "<![CDATA[" ---- *)
RECURSIVE ShiftCDATAText(_)
ShiftCDATAText(p) ==
    LET c == Pk(p) IN
    IF c = "rb" /\ Pk(p + 1) = "rb" /\ Pk(p + 2) = "gt" THEN Token("CDATA", start, p + 3, start + 9, p, start, start, {}, FALSE)
    ELSE IF c = "nul" THEN Token("CDATA", start, p, start + 9, p, start, start, {}, FALSE)
    ELSE ShiftCDATAText(p + 1)

(* ---- shiftCommentText: behind "<!--"; an unterminated comment has no Text() ---- *)
RECURSIVE ShiftCommentText(_)
ShiftCommentText(p) ==
    LET c == Pk(p) IN
    IF c = "dash" /\ Pk(p + 1) = "dash" /\ Pk(p + 2) = "gt" THEN Token("Comment", start, p + 3, start + 4, p, start, start, {}, FALSE)
    ELSE IF c = "nul" THEN Token("Comment", start, p, start, start, start, start, {}, FALSE)
    ELSE ShiftCommentText(p + 1)

(* ---- shiftStartTag: behind "<" or "<?"; nameStart = where the cursor is ---- *)
TagNameEnds(p) == LET c == Pk(p) IN
    c = "sp" \/ c = "gt" \/ (c \in {"slash", "qmark"} /\ Pk(p + 1) = "gt") \/ c = "nl" \/ c = "nul"
RECURSIVE TagNameLoop(_)
TagNameLoop(p) == IF TagNameEnds(p) THEN p ELSE TagNameLoop(p + 1)
ShiftStartTag(k, nameStart) ==
    LET p == TagNameLoop(nameStart) IN Token(k, start, p, nameStart, p, start, start, {}, TRUE)

(* ---- shiftEndTag: behind "</" ---- *)
RECURSIVE EndTagLoop(_)
EndTagLoop(p) == IF Pk(p) \in {"gt", "nul"} THEN p ELSE EndTagLoop(p + 1)
RECURSIVE TrimRight(_, _)
TrimRight(lo, hi) == IF hi > lo /\ Ws(Pk(hi - 1)) THEN TrimRight(lo, hi - 1) ELSE hi
ShiftEndTag(p0) ==
    LET p == EndTagLoop(p0)
        hi == IF Pk(p) = "gt" THEN p + 1 ELSE p IN
    Token("EndTag", start, hi, start + 2, TrimRight(start + 2, p), start, start, {}, FALSE)

(* ---- shiftAttribute: the cursor is at the first character behind the white space; start is still the end of the previous
        token, so the token includes that white space ---- *)
AttrNameEnds(p) == LET c == Pk(p) IN
    c = "sp" \/ c = "eq" \/ c = "gt" \/ (c \in {"slash", "qmark"} /\ (~NameStopNeedsGt \/ Pk(p + 1) = "gt")) \/ c = "nl" \/ c = "nul"
RECURSIVE AttrNameLoop(_)
AttrNameLoop(p) == IF AttrNameEnds(p) THEN p ELSE AttrNameLoop(p + 1)
RECURSIVE SkipWs(_)
SkipWs(p) == IF Ws(Pk(p)) THEN SkipWs(p + 1) ELSE p
RECURSIVE QuotedLoop(_, _)
QuotedLoop(p, delim) == IF Pk(p) = delim THEN p + 1 ELSE IF Pk(p) = "nul" THEN p ELSE QuotedLoop(p + 1, delim)
UnquotedEnds(p) == LET c == Pk(p) IN
    c = "sp" \/ c = "gt" \/ (c \in {"slash", "qmark"} /\ Pk(p + 1) = "gt") \/ c = "nl" \/ c = "nul"
RECURSIVE UnquotedLoop(_)
UnquotedLoop(p) == IF UnquotedEnds(p) THEN p ELSE UnquotedLoop(p + 1)
ShiftAttribute(nameStart) ==
    LET nameEnd == AttrNameLoop(nameStart)
        p2 == SkipWs(nameEnd)                   \* after attribute name state
    IN IF Pk(p2) = "eq" THEN
         LET attrPos == SkipWs(p2 + 1)          \* before attribute value state
             delim == Pk(attrPos)
             quoted == delim \in {"dq", "sq"}
             hi == IF quoted THEN QuotedLoop(attrPos + 1, delim) ELSE UnquotedLoop(attrPos)
             \* tab / LF / CR behind the opening quote are overwritten with ' ' as the cursor passes them
             norm == IF quoted THEN {q \in (attrPos + 1)..(hi - 1) : Pk(q) = "nl"} ELSE {}
         IN Token("Attribute", start, hi, nameStart, nameEnd, attrPos, hi, norm, TRUE)
       ELSE Token("Attribute", start, nameEnd, nameStart, nameEnd, start, start, {}, TRUE)     \* Rewind(nameEnd)

(* ---- Next ---- *)
NextInTag ==
    LET p == SkipWs(pos)                        \* before attribute name state
        c == Pk(p)
    IN IF c = "nul" THEN ErrorAt(p, NulInTagIsError)
       ELSE IF c # "gt" /\ ((c # "slash" /\ c # "qmark") \/ Pk(p + 1) # "gt") THEN ShiftAttribute(p)
       ELSE \* Skip(): the white space is dropped; inTag = false
            IF c = "slash" THEN Token("StartTagCloseVoid", p, p + 2, p, p, p, p, {}, ~VoidClosesTag)
            ELSE IF c = "qmark" THEN Token("StartTagClosePI", p, p + 2, p, p, p, p, {}, FALSE)
            ELSE Token("StartTagClose", p, p + 1, p, p, p, p, {}, FALSE)

RECURSIVE TextLoop(_)
TextLoop(p) == IF Pk(p) \in {"lt", "nul"} THEN p ELSE TextLoop(p + 1)
NextContent ==
    LET p == TextLoop(pos)
        c == Pk(p)
        text == Token("Text", start, p, start, p, start, start, {}, FALSE)
    IN IF c = "lt" THEN
            IF p > start THEN text
            ELSE LET c1 == Pk(p + 1) IN
                 IF c1 = "slash" THEN ShiftEndTag(p + 2)
                 ELSE IF c1 = "bang" THEN
                      IF At(p + 2, <<"dash", "dash">>) THEN ShiftCommentText(p + 4)
                      ELSE IF At(p + 2, <<"lb", "C", "D", "A", "T", "A", "lb">>) THEN ShiftCDATAText(p + 9)
                      ELSE IF At(p + 2, <<"D", "O", "C", "T", "Y", "P", "E">>) THEN ShiftDOCTYPEText(p + 9)
                      ELSE ShiftStartTag("StartTag", p + 1)                 \* Move(-2), Move(1)
                 ELSE IF c1 = "qmark" THEN ShiftStartTag("StartTagPI", p + 2)
                 ELSE ShiftStartTag("StartTag", p + 1)
       ELSE \* c = 0
            IF p > start THEN text ELSE ErrorAt(p, TRUE)

Call == IF inTag THEN NextInTag ELSE NextContent

(* ---- the replay case ---- *)
CaseFile == IOEnv.VERIF_CASES
EmitCase(h, r) == Emit =>
    CSVWrite("%1$s", <<ToJson([atoms |-> atoms, chars |-> Flat(atoms), toks |-> h,
                               end |-> IF r.op = "Err" THEN [panic |-> FALSE, eof |-> r.eof, none |-> r.none, at |-> r.at]
                                       ELSE [panic |-> TRUE, eof |-> FALSE, none |-> FALSE, at |-> 0]])>>, CaseFile)

\* XmlStream.tla reads Text() / AttrVal() as byte values (it strips quotes and compares white space): one byte per class
Byte(c) == CASE c = "dq" -> 34 [] c = "sq" -> 39 [] c = "sp" -> 32 [] c = "nl" -> 10 [] c = "nul" -> 0 [] c = "lt" -> 60 [] c = "gt" -> 62
             [] c = "slash" -> 47 [] c = "bang" -> 33 [] c = "qmark" -> 63 [] c = "dash" -> 45 [] c = "eq" -> 61 [] c = "lb" -> 91
             [] c = "rb" -> 93 [] c = "x" -> 120 [] c = "C" -> 67 [] c = "D" -> 68 [] c = "A" -> 65 [] c = "T" -> 84 [] c = "O" -> 79
             [] c = "Y" -> 89 [] c = "P" -> 80 [] c = "E" -> 69
Bytes(b, lo, hi) == [i \in 1..(hi - lo) |-> Byte(b[lo + i])]
\* (\E r \in {e} : ...  makes TLC evaluate e once)
Step ==
    /\ ~halted
    /\ \E r \in {Call} :
       IF r.op = "Tok" THEN
            \E b2 \in {IF r.norm = {} THEN buf ELSE [i \in 1..Len(buf) |-> IF (i - 1) \in r.norm THEN "sp" ELSE buf[i]]} :
            \E text \in {Bytes(b2, r.tlo, r.thi)} : \E val \in {Bytes(b2, r.vlo, r.vhi)} :
               /\ buf' = b2 /\ pos' = r.hi /\ start' = r.hi /\ inTag' = r.tag2
               /\ out' = r
               /\ hist' = Append(hist, [k |-> r.k, lo |-> r.lo, hi |-> r.hi, tlo |-> r.tlo, thi |-> r.thi,
                                        vlo |-> r.vlo, vhi |-> r.vhi, norm |-> r.norm])
               /\ gTag' = (IF r.k = "StartTag" THEN "elem" ELSE IF r.k = "StartTagPI" THEN "pi" ELSE IF X!Closes(r.k) THEN "none" ELSE gTag)
               /\ gCur' = (IF r.k = "StartTag" THEN text ELSE gCur)
               /\ gRep' = X!Extend(gRep, r.k, text, val)
               /\ gEnd' = r.hi
               /\ gIn' = (IF T!OpensTag(r.k) THEN TRUE ELSE IF T!ClosesTag(r.k) THEN FALSE ELSE gIn)
               /\ UNCHANGED <<atoms, halted>>
       ELSE /\ halted' = TRUE /\ out' = r
            /\ pos' = (IF r.op = "Err" THEN r.at ELSE pos)
            /\ EmitCase(hist, r)
            /\ UNCHANGED <<atoms, buf, start, inTag, hist, gTag, gCur, gRep, gEnd, gIn>>

Next == Step
Spec == Init /\ [][Next]_ivars

(* ---- I => P ---- *)
o == out'
GapOf(lo) == {IF Ws(buf[i + 1]) THEN "ws" ELSE "other" : i \in gEnd..(lo - 1)}
In(a, b, lo, hi) == a = b \/ (lo <= a /\ a <= b /\ b <= hi)
TokRec == [err |-> FALSE, kname |-> o.k, n |-> o.hi - o.lo, al |-> TRUE, lo |-> o.lo, hi |-> o.hi, off |-> pos',
           capEq |-> TRUE, relex |-> TRUE, gap |-> GapOf(o.lo),
           edits |-> IF o.norm = {} THEN {} ELSE {"ws2sp"},
           subsIn |-> In(o.tlo, o.thi, o.lo, o.hi) /\ In(o.vlo, o.vhi, o.lo, o.hi)]
ErrRec == [err |-> TRUE, kname |-> "Error", n |-> 0, al |-> FALSE, lo |-> 0, hi |-> 0, off |-> pos', capEq |-> TRUE, relex |-> TRUE,
           gap |-> {}, edits |-> {}, subsIn |-> TRUE]
XStep == CASE o.op = "Tok" -> X!Tok(o.k, Bytes(buf', o.tlo, o.thi), Bytes(buf', o.vlo, o.vhi))
           [] o.op = "Err" -> X!ErrRep(o.eof, o.none)
           [] OTHER -> FALSE                    \* a panic is not a step of P
TStep == CASE o.op = "Tok" -> T!Tok(TokRec)
           [] o.op = "Err" -> T!Tok(ErrRec)
           [] OTHER -> FALSE
RefinesXml == [][XStep]_ivars
RefinesTok == [][TStep]_ivars

\* the text of an empty range at lo is nil; the close tokens and an unterminated comment have no Text()
TypeOK == /\ 0 <= start /\ start <= pos /\ pos <= N
          /\ (~halted => pos = start)           \* every token is shifted out completely
          /\ gEnd = start
=============================================================================
