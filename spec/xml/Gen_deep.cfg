SPECIFICATION Spec
CONSTANTS
  MaxC = 9
  MaxV = 6
  MaxT = 15
  MaxP = 3
CHECK_DEADLOCK FALSE
