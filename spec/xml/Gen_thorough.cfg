SPECIFICATION Spec
CONSTANTS
  MaxC = 4
  MaxV = 2
  MaxT = 5
  MaxP = 2
CHECK_DEADLOCK FALSE
