SPECIFICATION Spec
CONSTANTS
  MaxC = 3
  MaxV = 1
  MaxP = 2
CHECK_DEADLOCK FALSE
