----------------------------- MODULE XmlStream -----------------------------
(***************************************************************************)
(* Property-level specification (kind P) for C11.  One step per token that *)
(* xml.Lexer.Next returns, for ANY input, plus the acceptance rule for     *)
(* documents generated from the XML 1.0 grammar (XmlDoc.tla).              *)
(*                                                                         *)
(* All inputs:                                                             *)
(*   - an Attribute token occurs only between a StartTag / StartTagPI      *)
(*     token and its closing token;                                        *)
(*   - if the input contains a NUL byte, the report that ends the token    *)
(*     stream is an error whose Err() is neither io.EOF nor nil;           *)
(*   - the token stream does end with an error report (End is enabled only *)
(*     after one: a caller is never left without an answer).               *)
(* Generated well-formed documents (wf):                                   *)
(*   - the tokens are the expected ones, in order: type, Text() for the    *)
(*     types that have a name or content, AttrVal() for attributes (with   *)
(*     its quotes; tab / newline / CR inside it appear as spaces).  White  *)
(*     space between the constructs of prolog and epilogue (S of Misc) is  *)
(*     not a construct: a Text token holding exactly that white space may  *)
(*     or may not be returned (opt).  Text() of a DOCTYPE token is         *)
(*     compared up to leading and trailing white space (the statement says *)
(*     "content"; the S after the keyword is mandatory in the grammar).    *)
(*   - the stream ends with io.EOF, and the report of element names,       *)
(*     attribute names and attribute values read off the tokens equals     *)
(*     the generator's and what encoding/xml (Strict, RawToken) reports    *)
(*     for the same bytes; encoding/xml does not perform the attribute-    *)
(*     value normalisation of XML 1.0 section 3.3.3 (tab, newline -> #x20),*)
(*     so that normalisation is applied to its values here (Norm).         *)
(***************************************************************************)
EXTENDS Integers, Sequences

VARIABLES tag,      \* "none" | "elem" | "pi": between a StartTag / StartTagPI token and its closing token
          cur,      \* Text() of the latest StartTag token
          idx,      \* wf: index of the next expected token
          lrep,     \* report read off the tokens so far: [names, anames, avals]
          ended,    \* the error report has been delivered
          wf, nul,  \* the input is a generated well-formed document / contains a NUL byte
          exp,      \* wf: expected tokens [k, text, val, opt]
          grep, srep  \* wf: report of the generator / of encoding/xml: [ok, names, anames, avals]
xvars == <<tag, cur, idx, lrep, ended, wf, nul, exp, grep, srep>>

EmptyRep == [names |-> <<>>, anames |-> <<>>, avals |-> <<>>]

Open(w, n, x, g, s) ==
    /\ tag' = "none" /\ cur' = <<>> /\ idx' = 1 /\ lrep' = EmptyRep /\ ended' = FALSE
    /\ wf' = w /\ nul' = n /\ exp' = x /\ grep' = g /\ srep' = s

Opens(k)  == k \in {"StartTag", "StartTagPI"}
Closes(k) == k \in {"StartTagClose", "StartTagCloseVoid", "StartTagClosePI"}
Named(k)  == k \in {"StartTag", "StartTagPI", "EndTag", "Attribute", "Text", "Comment", "CDATA", "DOCTYPE"}

WS == {9, 10, 13, 32}
Trim(s) == LET keep == {i \in 1..Len(s) : s[i] \notin WS} IN
           IF keep = {} THEN <<>>
           ELSE LET lo == CHOOSE i \in keep : \A j \in keep : i <= j
                    hi == CHOOSE i \in keep : \A j \in keep : i >= j IN SubSeq(s, lo, hi)
TextEq(k, a, b) == IF k = "DOCTYPE" THEN Trim(a) = Trim(b) ELSE a = b
Matches(x, k, text, val) == /\ x.k = k
                            /\ (Named(k) => TextEq(k, x.text, text))
                            /\ (k = "Attribute" => x.val = val)

Quote(c) == c \in {34, 39}
StripQ(v) == IF Len(v) >= 2 /\ Quote(v[1]) /\ v[Len(v)] = v[1] THEN SubSeq(v, 2, Len(v) - 1) ELSE v
Norm(v) == [i \in 1..Len(v) |-> IF v[i] \in {9, 10, 13} THEN 32 ELSE v[i]]
NormAll(vs) == [i \in 1..Len(vs) |-> Norm(vs[i])]

\* the report a reader gives, extended by one token
Extend(r, k, text, val) ==
    IF k = "StartTag" THEN [r EXCEPT !.names = Append(@, <<1>> \o text)]
    ELSE IF k = "EndTag" THEN [r EXCEPT !.names = Append(@, <<2>> \o text)]
    ELSE IF k = "StartTagCloseVoid" /\ tag = "elem" THEN [r EXCEPT !.names = Append(@, <<2>> \o cur)]
    ELSE IF k = "Attribute" /\ tag = "elem" THEN [r EXCEPT !.anames = Append(@, text), !.avals = Append(@, StripQ(val))]
    ELSE r

\* a non-error token: k type name, text = Text(), val = AttrVal()
Tok(k, text, val) ==
    /\ ~ended
    /\ (k = "Attribute" => tag # "none")
    /\ IF wf
       THEN LET j == IF idx <= Len(exp) /\ exp[idx].opt /\ ~Matches(exp[idx], k, text, val) THEN idx + 1 ELSE idx IN
            /\ j <= Len(exp)
            /\ Matches(exp[j], k, text, val)
            /\ idx' = j + 1
       ELSE idx' = idx
    /\ tag' = (IF k = "StartTag" THEN "elem" ELSE IF k = "StartTagPI" THEN "pi" ELSE IF Closes(k) THEN "none" ELSE tag)
    /\ cur' = (IF k = "StartTag" THEN text ELSE cur)
    /\ lrep' = Extend(lrep, k, text, val)
    /\ UNCHANGED <<ended, wf, nul, exp, grep, srep>>

RestOptional == \A j \in idx..Len(exp) : exp[j].opt
Agree == /\ lrep = grep
         /\ srep.ok
         /\ srep.names = grep.names /\ srep.anames = grep.anames /\ NormAll(srep.avals) = grep.avals

\* the error report: eof = (Err() = io.EOF), none = (Err() = nil: an Error token without an error)
ErrRep(eof, none) ==
    /\ ~ended
    /\ (nul => ~eof /\ ~none)
    /\ (wf => eof /\ RestOptional /\ Agree)
    /\ ended' = TRUE
    /\ UNCHANGED <<tag, cur, idx, lrep, wf, nul, exp, grep, srep>>

\* the caller stopped calling Next
End == ended /\ UNCHANGED xvars
=============================================================================
