SPECIFICATION Spec
CONSTANTS
  Prefixes = {"stag"}
  Alphabet = {"attr", "eq", "dq", "sq", "sp", "nl", "x", "gt", "slash", "nul"}
  MaxLen = 5
  Emit = TRUE
  VoidClosesTag = TRUE
  NameStopNeedsGt = TRUE
  DoctypeQuote = "remember"
  NulInTagIsError = TRUE
INVARIANT TypeOK
PROPERTY RefinesXml
PROPERTY RefinesTok
CHECK_DEADLOCK FALSE
