SPECIFICATION Spec
CONSTANTS
  Alphabet = {"lt", "gt", "slash", "qmark", "bang", "eq", "dq", "sp", "nl", "x", "nul"}
  MaxLen = 6
  Emit = TRUE
  VoidClosesTag = TRUE
  NameStopNeedsGt = TRUE
  DoctypeQuote = "remember"
  NulInTagIsError = TRUE
INVARIANT TypeOK
PROPERTY RefinesXml
PROPERTY RefinesTok
CHECK_DEADLOCK FALSE
