SPECIFICATION Spec
CONSTANTS
  Fams = {"css"}
  LenCss = 4
  LenHtml = 0
  LenXml = 0
  LenJson = 0
  LenJs = 0
  Reduced = TRUE
CHECK_DEADLOCK FALSE
