---------------------------- MODULE ProtoTrace ----------------------------
(* Trace specification (kind T) for C01: judges the traces of harness/suites/lexers against NextProtocol.tla. *)
EXTENDS NextProtocol, TraceIO

VARIABLES l, bad
tvars == <<pvars, l, bad>>
e == Trace[l]

TInit == l = 1 /\ bad = FALSE /\ len = 0 /\ calls = 0 /\ phase = "run" /\ last = NoRep /\ sawEOF = FALSE
IsStart == e.ev = "Open"
Returned == e.out = "ret"

Step ==
    CASE e.ev = "Next"  -> Report([err |-> e.err, eof |-> e.eof, kind |-> e.kind, etext |-> e.etext, off |-> e.off, n |-> e.n, oob |-> e.oob])
      [] e.ev = "Bulk"  -> Bulk(e.count, e.allret, e.oob, e.maxoff)
      [] e.ev = "Parse" -> ParseRet(e.ok, e.tree)
      [] e.ev \in {"String", "JS", "Walk", "JSON"} -> MethodRet
      [] OTHER -> FALSE

TStart == l <= NEvents /\ IsStart /\ Open(e.len) /\ bad' = FALSE /\ l' = l + 1
TStep  == l <= NEvents /\ ~IsStart /\ ~bad /\ Returned /\ Step /\ l' = l + 1 /\ UNCHANGED bad
TFail  == /\ l <= NEvents /\ ~IsStart /\ ~bad /\ ~(Returned /\ ENABLED Step)
          /\ RecordFail(e, l) /\ bad' = TRUE /\ l' = l + 1 /\ UNCHANGED pvars
TSkip  == l <= NEvents /\ ~IsStart /\ bad /\ l' = l + 1 /\ UNCHANGED <<pvars, bad>>
TNext == TStart \/ TStep \/ TFail \/ TSkip
TSpec == TInit /\ [][TNext]_tvars
TInv == bad \/ TypeOK
Accepted == TLCGet("stats").diameter = NEvents + 1
=============================================================================
