SPECIFICATION Spec
CONSTANTS
  Fams = {"css", "html", "xml", "json", "js"}
  LenCss = 3
  LenHtml = 3
  LenXml = 3
  LenJson = 3
  LenJs = 3
  Reduced = TRUE
CHECK_DEADLOCK FALSE
