---------------------------- MODULE TokenTrace ----------------------------
(* Trace specification (kind T) for C02: judges the token-level traces of harness/suites/lexers against TokenStream.tla. *)
EXTENDS TokenStream, TraceIO

VARIABLES l, bad
tvars == <<tvars2, l, bad>>
e == Trace[l]
ToSet(s) == {s[k] : k \in DOMAIN s}

TInit == l = 1 /\ bad = FALSE /\ fam = "" /\ concat = FALSE /\ end = 0 /\ seenErr = FALSE /\ inTag = FALSE
IsStart == e.ev = "Open"
Returned == e.out = "ret"
Opt(f, d) == IF Has(e, f) THEN e[f] ELSE d

Step ==
    CASE e.ev = "Next" -> Tok([err |-> e.err, kname |-> e.kname, n |-> e.n, al |-> e.al, lo |-> e.lo, hi |-> e.hi, off |-> e.off,
                               capEq |-> e.capEq, relex |-> Opt("relex", TRUE), gap |-> ToSet(Opt("gap", <<>>)),
                               edits |-> ToSet(Opt("edits", <<>>)), subsIn |-> e.subsIn])
      [] OTHER -> FALSE

TStart == l <= NEvents /\ IsStart /\ Open(e.family, e.concat) /\ bad' = FALSE /\ l' = l + 1
TStep  == l <= NEvents /\ ~IsStart /\ ~bad /\ Returned /\ Step /\ l' = l + 1 /\ UNCHANGED bad
TFail  == /\ l <= NEvents /\ ~IsStart /\ ~bad /\ ~(Returned /\ ENABLED Step)
          /\ RecordFail(e, l) /\ bad' = TRUE /\ l' = l + 1 /\ UNCHANGED tvars2
TSkip  == l <= NEvents /\ ~IsStart /\ bad /\ l' = l + 1 /\ UNCHANGED <<tvars2, bad>>
TNext == TStart \/ TStep \/ TFail \/ TSkip
TSpec == TInit /\ [][TNext]_tvars
Accepted == TLCGet("stats").diameter = NEvents + 1
=============================================================================
