---------------------------- MODULE TokenStream ----------------------------
(***************************************************************************)
(* Property-level specification (kind P) for C02: tokens are faithful,     *)
(* ordered, non-empty slices of the input.  One step per token a lexer     *)
(* returns; the harness locates the token inside the input by its address. *)
(***************************************************************************)
EXTENDS Integers, Sequences, FiniteSets

VARIABLES fam,      \* "css" | "js" | "html" | "xml"
          concat,   \* CSS/JS lexers: tokens concatenate to the consumed bytes and re-lex to themselves
          end,      \* end offset of the previous token
          seenErr,  \* an error token has been returned
          inTag     \* HTML/XML: between a start tag and its closing token
tvars2 == <<fam, concat, end, seenErr, inTag>>

Open(f, c) == fam' = f /\ concat' = c /\ end' = 0 /\ seenErr' = FALSE /\ inTag' = FALSE

\* bytes a token may differ in from the input: HTML lower-cases tag and attribute NAMES (so only in start tags, end tags and
\* attribute tokens, and there not inside the attribute value); XML turns tab/newline into space inside quoted attribute values
AllowedEdits(k) == IF fam = "html" THEN (IF k \in {"StartTag", "EndTag", "Attribute", "SVG", "Math"} THEN {"lower"} ELSE {})
                   ELSE IF fam = "xml" THEN (IF k = "Attribute" THEN {"ws2sp"} ELSE {}) ELSE {}
OpensTag(k)  == k \in {"StartTag", "StartTagPI"}
ClosesTag(k) == k \in {"StartTagClose", "StartTagVoid", "StartTagCloseVoid", "StartTagClosePI"}

\* t: [err, kname, n, al, lo, hi, off, capEq, relex, gap, edits, subsIn]  (gap/edits: sets of class names)
Tok(t) ==
    /\ (~t.err =>
          /\ t.n > 0                                  \* non-empty
          /\ t.al                                     \* a piece of the input itself
          /\ t.hi = t.off                             \* ending at the cursor offset reported right after the call
          /\ t.lo >= end                              \* increasing, non-overlapping
          /\ t.capEq                                  \* appending to it cannot overwrite input bytes
          /\ t.subsIn                                 \* Text / AttrKey / AttrVal are sub-slices of it
          /\ t.edits \subseteq AllowedEdits(t.kname)  \* bytes altered only as the statement allows
          /\ (concat /\ ~seenErr => t.lo = end /\ t.relex)     \* nothing skipped; lexing it alone yields it again
          \* uncovered bytes: only whitespace inside a tag.  Judged up to the first error report: what an error report
          \* itself consumed (e.g. '<math>' before an embedded NUL) is not a token, and the statement does not say what
          \* follows a lexical error.
          /\ (~concat /\ ~seenErr => t.gap \subseteq {"ws"} /\ (t.gap # {} => inTag)))
    /\ end' = (IF t.al /\ ~t.err THEN t.hi ELSE end)
    /\ seenErr' = (seenErr \/ t.err)
    /\ inTag' = (IF t.err THEN inTag ELSE IF OpensTag(t.kname) THEN TRUE ELSE IF ClosesTag(t.kname) THEN FALSE ELSE inTag)
    /\ UNCHANGED <<fam, concat>>
=============================================================================
