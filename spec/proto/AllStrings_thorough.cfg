SPECIFICATION Spec
CONSTANTS
  Fams = {"css", "html", "xml", "json", "js"}
  LenCss = 3
  LenHtml = 4
  LenXml = 4
  LenJson = 4
  LenJs = 3
  Reduced = FALSE
CHECK_DEADLOCK FALSE
