---------------------------- MODULE NextProtocol ----------------------------
(***************************************************************************)
(* Property-level specification (kind P) for C01: the calling protocol of  *)
(* every entry point that consumes untrusted text.  A behaviour is the     *)
(* sequence of reports one entry point hands to a caller who keeps calling *)
(* Next -- also after errors and after the end.                            *)
(*                                                                         *)
(* There is deliberately NO action for a call that panics, hangs or kills  *)
(* the process: such an event is explained by nothing.                     *)
(***************************************************************************)
EXTENDS Integers, Sequences

VARIABLES len,      \* length of the input
          calls,    \* Next calls so far
          phase,    \* "run" | "ended": the end-of-input report has been seen (an error report that was repeated)
          last,     \* the previous report
          sawEOF    \* an error report whose Err() is io.EOF has been seen
pvars == <<len, calls, phase, last, sawEOF>>

NoRep == [err |-> FALSE, kind |-> -1, etext |-> "", off |-> -1, n |-> -1]
Same(r, l) == r.kind = l.kind /\ r.etext = l.etext /\ r.off = l.off /\ r.n = l.n
Bound == 4 * len + 16           \* "a number of calls linear in the input length" -- generous on purpose

Open(n) == len' = n /\ calls' = 0 /\ phase' = "run" /\ last' = NoRep /\ sawEOF' = FALSE

\* r: [err, eof, kind, etext, off, n, oob]
Report(r) ==
    /\ r.off >= 0 /\ r.off <= len                     \* the cursor stays inside the input
    /\ ~r.oob                                         \* no byte handed out that lies outside the input
    /\ (phase = "ended" => r.err /\ Same(r, last))    \* once the end has been reported every further call reports it again
    /\ (sawEOF => r.err /\ r.eof)                     \* io.EOF is final
    /\ calls' = calls + 1
    /\ phase' = (IF phase = "ended" \/ (r.err /\ last.err /\ Same(r, last)) THEN "ended" ELSE "run")
    /\ (phase' = "run" => calls' <= Bound)            \* the end is reached within a linear number of calls
    /\ last' = [err |-> r.err, kind |-> r.kind, etext |-> r.etext, off |-> r.off, n |-> r.n]
    /\ sawEOF' = (sawEOF \/ (r.err /\ r.eof))
    /\ UNCHANGED len

\* a run of `count` calls summarised by the harness (very long nesting inputs): all returned, nothing out of bounds
Bulk(count, allret, oob, maxoff) ==
    /\ allret /\ ~oob /\ maxoff <= len
    /\ phase = "run" /\ calls' = calls + count /\ calls' <= Bound
    /\ last' = NoRep /\ UNCHANGED <<len, phase, sawEOF>>

\* js.Parse and the methods of the tree it returns: each must simply return
ParseRet(ok, tree) == (~ok => ~tree) /\ calls' = calls + 1 /\ UNCHANGED <<len, phase, last, sawEOF>>
MethodRet == calls' = calls + 1 /\ UNCHANGED <<len, phase, last, sawEOF>>

TypeOK == calls >= 0 /\ phase \in {"run", "ended"} /\ sawEOF \in BOOLEAN
=============================================================================
