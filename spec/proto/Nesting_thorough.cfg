SPECIFICATION Spec
CONSTANTS
  Depths = {10, 1001, 10000, 100000, 1000000}
  ParserDepths = {300000}
  Variants = {"closed", "open", "half"}
CHECK_DEADLOCK FALSE
