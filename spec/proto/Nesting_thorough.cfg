SPECIFICATION Spec
CONSTANTS
  Depths = {10, 1001, 10000, 100000, 1000000}
  ParserDepths = {300000}
  CounterDepths = {255, 256, 257, 65534, 65535, 65536, 65537, 131073}
  Variants = {"closed", "open", "half"}
CHECK_DEADLOCK FALSE
