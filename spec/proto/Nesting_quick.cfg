SPECIFICATION Spec
CONSTANTS
  Depths = {1001, 100000}
  Variants = {"closed", "open"}
CHECK_DEADLOCK FALSE
