SPECIFICATION Spec
CONSTANTS
  Depths = {1001, 100000}
  ParserDepths = {1000000}
  CounterDepths = {65535, 65536, 65537}
  Variants = {"closed", "open"}
CHECK_DEADLOCK FALSE
