SPECIFICATION Spec
CONSTANTS
  Depths = {1001, 100000}
  ParserDepths = {1000000}
  Variants = {"closed", "open"}
CHECK_DEADLOCK FALSE
