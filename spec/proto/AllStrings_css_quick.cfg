SPECIFICATION Spec
CONSTANTS
  Fams = {"css"}
  LenCss = 3
  LenHtml = 0
  LenXml = 0
  LenJson = 0
  LenJs = 0
  Reduced = FALSE
CHECK_DEADLOCK FALSE
