------------------------------ MODULE Nesting ------------------------------
(***************************************************************************)
(* Generator (kind G) for the "however deeply the input nests" clause of   *)
(* C01: every recursive construct of every language x depth x             *)
(* {closed, truncated after the openers, truncated after half the closers} *)
(* x entry point.  The model of the expected behaviour is trivial on       *)
(* purpose: whatever the depth, the entry point returns (a tree, units, or *)
(* an error) -- NextProtocol.tla has no action for anything else.          *)
(* A case is  pre open^depth mid close^depth post.                         *)
(***************************************************************************)
EXTENDS Integers, Sequences, TLC, Json, CSV, IOUtils

CONSTANTS Depths, ParserDepths, Variants,    \* ParserDepths: additional depths for the recursive-descent entry points
          CounterDepths                     \* repetition counts for the Counters families

F(fam, name, pre, open, mid, close, post) ==
    [fam |-> fam, name |-> name, pre |-> pre, open |-> open, mid |-> mid, close |-> close, post |-> post]

Families == {
  \* ---- JavaScript: expressions
  F("js", "paren", "", "(", "a", ")", ""), F("js", "array", "", "[", "a", "]", ""), F("js", "object", "x=", "{a:", "1", "}", ""),
  F("js", "template", "", "`${", "a", "}`", ""), F("js", "not", "", "!", "a", "", ""), F("js", "neg", "", "- ", "a", "", ""),
  F("js", "typeof", "", "typeof ", "a", "", ""), F("js", "new", "", "new ", "a", "", ""), F("js", "await", "async function f(){", "await ", "a", "", "}"),
  F("js", "yield", "function*f(){", "yield ", "a", "", "}"), F("js", "cond", "", "a?b:", "c", "", ""), F("js", "exp", "", "a**", "b", "", ""),
  F("js", "assign", "", "a=", "b", "", ""), F("js", "arrow", "", "a=>", "b", "", ""), F("js", "arrowparen", "", "(a)=>", "b", "", ""),
  F("js", "call", "a", "", "", "(b)", ""), F("js", "member", "a", "", "", ".b", ""), F("js", "optchain", "a", "", "", "?.b", ""),
  F("js", "index", "a", "", "", "[b]", ""), F("js", "binary", "a", "", "", "+a", ""), F("js", "comma", "a", "", "", ",a", ""),
  F("js", "nullish", "a", "", "", "??a", ""), F("js", "callarg", "", "f(", "a", ")", ""), F("js", "spread", "", "[...", "a", "]", ""),
  F("js", "taggedtpl", "a", "", "", "`b`", ""), F("js", "incr", "", "++", "a", "", ""),
  \* ---- JavaScript: every level holds a complete sibling group before the next level opens
  F("js", "parensibling", "", "((a),", "a", ")", ""), F("js", "arraysibling", "", "[(a),", "a", "]", ""), F("js", "callsibling", "", "f((a),", "a", ")", ""),
  F("js", "arrayarray", "", "[[a],", "b", "]", ""), F("js", "objectsibling", "x=", "{a:(b),c:", "d", "}", ""), F("js", "blocksibling", "", "{a;", "", "}", ""),
  F("js", "ifsibling", "", "if(a){b}else{", "", "}", ""), F("js", "funcsibling", "", "function f(){g();", "", "}", ""), F("js", "condsibling", "", "(a)?(b):", "c", "", ""),
  F("js", "templatesibling", "", "`${(a)}${", "b", "}`", ""), F("js", "arrowsibling", "", "(a=(b))=>", "c", "", ""), F("js", "bindingsibling", "let ", "[[a],", "b", "]", "=c"),
  \* ---- JavaScript: bindings
  F("js", "arraybinding", "let ", "[", "a", "]", "=b"), F("js", "objectbinding", "let ", "{a:", "b", "}", "=c"),
  F("js", "parambinding", "function f(", "[", "a", "]", "){}"), F("js", "bindingdefault", "let [a=", "[b=", "c", "]", "]=d"),
  F("js", "arrowbinding", "(", "[", "a", "]", ")=>b"),
  \* ---- JavaScript: statements and declarations
  F("js", "block", "", "{", "", "}", ""), F("js", "function", "", "function f(){", "", "}", ""), F("js", "funcexpr", "x=", "function(){return ", "a", "}", ""),
  F("js", "class", "", "class A{m(){", "", "}}", ""), F("js", "classexpr", "x=", "class{m(){return ", "a", "}}", ""), F("js", "if", "", "if(a)", "b", "", ""),
  F("js", "ifelse", "", "if(a){}else ", "b", "", ""), F("js", "label", "", "a:", "b", "", ""), F("js", "for", "", "for(;;)", "a", "", ""),
  F("js", "while", "", "while(a)", "b", "", ""), F("js", "do", "", "do ", "a", " while(b)", ""), F("js", "with", "", "with(a)", "b", "", ""),
  F("js", "try", "", "try{", "", "}finally{}", ""), F("js", "switch", "", "switch(a){case b:", "", "}", ""), F("js", "staticblock", "class A{", "static{", "", "}", "}"),
  F("js", "getter", "x=", "{get a(){return ", "b", "}}", ""),
  \* ---- CSS
  F("css", "paren", "a{b:", "(", "c", ")", "}"), F("css", "bracket", "a{b:", "[", "c", "]", "}"), F("css", "func", "a{b:", "f(", "c", ")", "}"),
  F("css", "brace", "", "{", "", "}", ""), F("css", "ruleset", "", "a{", "b:c", "}", ""), F("css", "media", "", "@media x{", "a{b:c}", "}", ""),
  F("css", "selparen", "", "a:not(", "b", ")", "{c:d}"), F("css", "selbracket", "a", "[", "b", "]", "{c:d}"), F("css", "declbrace", "a{b:", "{", "c", "}", "}"),
  F("css", "inlineparen", "b:", "(", "c", ")", ""), F("css", "atbrace", "@x ", "{", "", "}", ""),
  F("css", "rulesetsibling", "", "a{b:c;", "d:e", "}", ""), F("css", "parensibling", "a{b:", "((c) ", "d", ")", "}"),
  \* (custom properties have their own value loop: every bracket kind inside one, in a ruleset and inline)
  F("css", "customparen", "a{--x:", "(", "c", ")", "}"), F("css", "custombracket", "a{--x:", "[", "c", "]", "}"),
  F("css", "custombrace", "--x:", "{", "b:c", "}", ""), F("css", "customfunc", ":root{--x:", "var(", "--y", ")", "}"),
  \* ---- JSON
  F("json", "arraysibling", "", "[[1],", "2", "]", ""), F("json", "objectsibling", "", "{\"a\":[],\"b\":", "1", "}", ""),
  F("json", "array", "", "[", "1", "]", ""), F("json", "object", "", "{\"a\":", "1", "}", ""), F("json", "mixed", "", "[{\"a\":", "1", "}]", ""),
  \* ---- XML / HTML
  F("xml", "element", "", "<a>", "x", "</a>", ""), F("xml", "attr", "", "<a b=\"c\">", "", "</a>", ""), F("xml", "cdata", "", "<![CDATA[", "x", "]]>", ""),
  F("html", "element", "", "<div>", "x", "</div>", ""), F("html", "svg", "", "<svg>", "x", "</svg>", ""), F("html", "math", "", "<math>", "x", "</math>", ""),
  F("html", "comment", "", "<!--", "x", "-->", ""), F("html", "tmpl", "", "{{", "x", "}}", ""), F("html", "script", "", "<script>", "x", "</script>", "") }

\* ---- repetition rather than nesting: the same unit CounterDepths times in a row (the parser's bookkeeping counts uses,
\* declarations and list lengths in 16-bit fields: the interesting counts are those around 2^16), closed variant only
Counters == {
  F("jscount", "uses-then-arrow", "var a;", "a;", "a=>1", "", ""), F("jscount", "uses", "var a;", "a;", "", "", ""),
  F("jscount", "undeclared-uses-then-arrow", "", "a;", "a=>1", "", ""), F("jscount", "uses-in-function", "function f(a){", "a;", "", "", "}"),
  F("jscount", "uses-in-blocks", "let a;", "{a;}", "a=>a", "", ""), F("jscount", "uses-in-args", "var a;f(", "a,", "a", "", ")"),
  F("jscount", "uses-in-default", "var a;function f(b=[", "a,", "a", "", "]){a}"), F("jscount", "uses-in-for-head", "for(var a;", "a,", "a", "", ";){let a}"),
  F("jscount", "closures", "var a;", "()=>a;", "a=>a", "", ""), F("jscount", "redeclare", "", "var a;", "a=>a", "", ""),
  F("jscount", "params", "function f(", "a,", "a", "", "){}"), F("jscount", "array-holes", "x=[", ",", "", "", "]"),
  F("jscount", "labels", "", "a:", "a=>a", "", "") }

LangsOf(fam) == CASE fam = "js"   -> {"js.parse.0.0", "js.parse.1.1", "js.lex"}
                  [] fam = "jscount" -> {"js.parse.0.0", "js.parse.1.1"}
                  [] fam = "css"  -> {"css.parse", "css.inline", "css.lex"}
                  [] fam = "json" -> {"json"}
                  [] fam = "xml"  -> {"xml"}
                  [] fam = "html" -> {"html", "html.tmpl.go"}

VARIABLE c
CaseFile == IOEnv.VERIF_CASES
Recursive == {"js.parse.0.0", "js.parse.1.1"}
Cases == {[f |-> f, lang |-> lg, depth |-> d, variant |-> v] : f \in Families, lg \in {"js.parse.0.0", "js.parse.1.1", "js.lex", "css.parse",
          "css.inline", "css.lex", "json", "xml", "html", "html.tmpl.go"}, d \in Depths \cup ParserDepths, v \in Variants}
         \cup {[f |-> f, lang |-> lg, depth |-> d, variant |-> "closed"] : f \in Counters, lg \in Recursive, d \in CounterDepths}
Valid(x) == x.lang \in LangsOf(x.f.fam) /\ (x.f.fam = "jscount" \/ x.depth \in Depths \/ x.lang \in Recursive)
\* every case is one initial state; it is written out when TLC computes it
Init == /\ c \in {x \in Cases : Valid(x)}
        /\ CSVWrite("%1$s", <<ToJson([lang |-> c.lang, name |-> c.f.name, pre |-> c.f.pre, open |-> c.f.open, mid |-> c.f.mid,
                                      close |-> c.f.close, post |-> c.f.post, depth |-> c.depth, variant |-> c.variant])>>, CaseFile)
Next == UNCHANGED c
Spec == Init /\ [][Next]_c
=============================================================================
