SPECIFICATION Spec
CONSTANTS
  Alphabet = {"slash", "gt", "lt", "letter", "ws", "bang"}
  Prefix <- PreRawOpen
  Suffix <- PreNone
  MaxLen = 5
  Family = "rawstart"
  Emit = FALSE
  AsCoded = {"solidus-in-name"}
  Defect = "none"
INVARIANT TypeOK
PROPERTY RefinesHtml
PROPERTY RefinesTok
CHECK_DEADLOCK FALSE
