SPECIFICATION Spec
CONSTANTS
  Mode = "tmpl"
  MaxLen = 5
  Sample = TRUE
INVARIANT Emit
CHECK_DEADLOCK FALSE
