SPECIFICATION Spec
CONSTANTS
  Alphabet = {"lt", "slash", "style", "gt", "nul", "letter"}
  Prefix <- PreStyle
  Suffix <- PreNone
  MaxLen = 4
  Family = "rawtext"
  Emit = FALSE
  AsCoded = {}
  Defect = "nul-ends-name"
INVARIANT TypeOK
PROPERTY RefinesHtml
PROPERTY RefinesTok
CHECK_DEADLOCK FALSE
