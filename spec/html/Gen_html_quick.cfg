SPECIFICATION Spec
CONSTANTS
  Mode = "html"
  MaxLen = 3
  Sample = FALSE
INVARIANT Emit
CHECK_DEADLOCK FALSE
