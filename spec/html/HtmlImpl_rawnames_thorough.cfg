SPECIFICATION Spec
CONSTANTS
  Alphabet = {"script", "style", "title", "textarea", "xmp", "iframe", "plaintext", "a", "gt", "lt", "slash"}
  Prefix <- PreLt
  Suffix <- PreNone
  MaxLen = 5
  Family = "rawnames"
  Emit = TRUE
  AsCoded = {}
  Defect = "none"
INVARIANT TypeOK
PROPERTY RefinesHtml
PROPERTY RefinesTok
CHECK_DEADLOCK FALSE
