----------------------------- MODULE HtmlStream -----------------------------
(***************************************************************************)
(* Property-level specification (kind P) for C09, the clauses that hold    *)
(* for ANY input: a mode monitor over the tokens html.Lexer.Next returns.  *)
(*                                                                         *)
(*  1. Attribute tokens occur only between a StartTag and its              *)
(*     StartTagClose / StartTagVoid token (and these two only after a      *)
(*     StartTag).                                                          *)
(*  2. After the start tag of a raw-text element (script, style, title,    *)
(*     textarea, xmp, iframe, plaintext) closes, the next token is a       *)
(*     single Text token - or directly the matching end tag if the content *)
(*     is empty - and the token after that Text is the matching end tag:   *)
(*     no markup token occurs before it.  plaintext has no end tag.        *)
(*     "Matching" is the tokenizer's notion: the tag name (the bytes of    *)
(*     Text() up to the first whitespace or '/') equals the element name.  *)
(*  3. With template delimiters configured, for documents whose delimited  *)
(*     regions are known (the generator placed them): a region lies inside *)
(*     exactly one token, and HasTemplate() is true exactly for the tokens *)
(*     that contain one.                                                   *)
(* The end of the input may come anywhere (truncated documents).           *)
(***************************************************************************)
EXTENDS Integers, Sequences, FiniteSets

VARIABLES inTag,    \* between a StartTag and its StartTagClose / StartTagVoid
          tagName,  \* Text() of that StartTag
          phase,    \* "none" | "content" (a raw-text start tag has just closed) | "after" (its Text was returned)
          raw,      \* the raw-text element concerned
          known,    \* the template regions of this input are known
          regs,     \* their byte ranges <<lo, hi>> (hi exclusive)
          cov       \* regions seen inside a token so far
svars == <<inTag, tagName, phase, raw, known, regs, cov>>

RawNames == {"script", "style", "title", "textarea", "xmp", "iframe", "plaintext"}
Kinds == {"Comment", "Doctype", "StartTag", "StartTagClose", "StartTagVoid", "EndTag", "Attribute", "Text",
          "SVG", "Math", "XML", "Template"}

Open(k, r) == inTag' = FALSE /\ tagName' = "" /\ phase' = "none" /\ raw' = "" /\ known' = k /\ regs' = r /\ cov' = {}

Inside(r, lo, hi) == lo <= r[1] /\ r[2] <= hi
Apart(r, lo, hi)  == hi <= r[1] \/ r[2] <= lo
MatchingEnd(k, name) == k = "EndTag" /\ name = raw /\ raw # "plaintext"

\* k: token type name; name: tag name for StartTag / EndTag ("" otherwise); [lo, hi): where the token lies in the
\* input (lo < 0: it could not be located); tmpl: HasTemplate()
Tok(k, name, lo, hi, tmpl) ==
    /\ k \in Kinds
    /\ (k = "Attribute" => inTag)
    /\ (k \in {"StartTagClose", "StartTagVoid"} => inTag)
    /\ (phase = "content" => k = "Text" \/ MatchingEnd(k, name))
    /\ (phase = "after" => MatchingEnd(k, name))
    /\ (known /\ lo >= 0 =>
            /\ \A i \in DOMAIN regs : Inside(regs[i], lo, hi) \/ Apart(regs[i], lo, hi)
            /\ tmpl = (\E i \in DOMAIN regs : Inside(regs[i], lo, hi)))
    /\ inTag' = (IF k = "StartTag" THEN TRUE ELSE IF k \in {"StartTagClose", "StartTagVoid"} THEN FALSE ELSE inTag)
    /\ tagName' = (IF k = "StartTag" THEN name ELSE tagName)
    /\ phase' = (IF k = "StartTagClose" /\ tagName \in RawNames THEN "content"
                 ELSE IF phase = "content" /\ k = "Text" THEN "after" ELSE "none")
    /\ raw' = (IF k = "StartTagClose" /\ tagName \in RawNames THEN tagName ELSE raw)
    /\ cov' = (IF known /\ lo >= 0 THEN cov \cup {i \in DOMAIN regs : Inside(regs[i], lo, hi)} ELSE cov)
    /\ UNCHANGED <<known, regs>>

\* the error report that ends the token list; eof: Err() is io.EOF
End(eof) ==
    /\ (known /\ eof => cov = DOMAIN regs)       \* every region was delivered
    /\ UNCHANGED svars
=============================================================================
