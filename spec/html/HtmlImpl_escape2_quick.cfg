SPECIFICATION Spec
CONSTANTS
  Alphabet = {"lt", "slash", "script", "gt", "dash", "ws", "letter"}
  Prefix <- PreEscape2
  Suffix <- PreNone
  MaxLen = 5
  Family = "escape2"
  Emit = TRUE
  AsCoded = {}
  Defect = "none"
INVARIANT TypeOK
PROPERTY RefinesHtml
PROPERTY RefinesTok
CHECK_DEADLOCK FALSE
