SPECIFICATION Spec
CONSTANTS
  Alphabet = {"ws", "eq", "dquote", "squote", "slash", "gt", "letter", "nul"}
  Prefix <- PreTag
  Suffix <- PreNone
  MaxLen = 6
  Family = "attr"
  Emit = TRUE
  AsCoded = {}
  Defect = "none"
INVARIANT TypeOK
PROPERTY RefinesHtml
PROPERTY RefinesTok
CHECK_DEADLOCK FALSE
