SPECIFICATION Spec
CONSTANTS
  Alphabet = {"lt", "slash", "style", "script", "gt", "nul", "letter", "other"}
  Prefix <- PreStyle
  Suffix <- PreNone
  MaxLen = 6
  Family = "rawtext"
  Emit = TRUE
  AsCoded = {}
  Defect = "none"
INVARIANT TypeOK
PROPERTY RefinesHtml
PROPERTY RefinesTok
CHECK_DEADLOCK FALSE
