SPECIFICATION Spec
CONSTANTS
  Alphabet = {"lt", "slash", "script", "gt", "dash", "letter", "nul"}
  Prefix <- PreEscape
  Suffix <- PreNone
  MaxLen = 5
  Family = "escape"
  Emit = TRUE
  AsCoded = {}
  Defect = "none"
INVARIANT TypeOK
PROPERTY RefinesHtml
PROPERTY RefinesTok
CHECK_DEADLOCK FALSE
