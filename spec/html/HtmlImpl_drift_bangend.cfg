SPECIFICATION Spec
CONSTANTS
  Alphabet = {"dash", "bang", "gt", "letter"}
  Prefix <- PreComment
  Suffix <- PreNone
  MaxLen = 5
  Family = "drift"
  Emit = TRUE
  AsCoded = {}
  Defect = "no-bang-comment-end"
INVARIANT TypeOK
PROPERTY RefinesHtml
PROPERTY RefinesTok
CHECK_DEADLOCK FALSE
