SPECIFICATION Spec
CONSTANTS
  Alphabet = {"gt", "slash", "lt", "svg", "dquote", "squote", "ws", "nul"}
  Prefix <- PreSvg
  Suffix <- PostSvg
  MaxLen = 5
  Family = "foreign"
  Emit = TRUE
  AsCoded = {}
  Defect = "none"
INVARIANT TypeOK
PROPERTY RefinesHtml
PROPERTY RefinesTok
CHECK_DEADLOCK FALSE
