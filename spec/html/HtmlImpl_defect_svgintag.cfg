SPECIFICATION Spec
CONSTANTS
  Alphabet = {"lt", "slash", "svg", "gt", "ws", "other"}
  Prefix <- PreSvgOpen
  Suffix <- PreNone
  MaxLen = 5
  Family = "foreign"
  Emit = FALSE
  AsCoded = {}
  Defect = "svg-keeps-intag"
INVARIANT TypeOK
PROPERTY RefinesHtml
PROPERTY RefinesTok
CHECK_DEADLOCK FALSE
