SPECIFICATION Spec
CONSTANTS
  Alphabet = {"slash", "gt", "ws", "lt", "letter", "bang", "script", "nul"}
  Prefix <- PreRawOpen
  Suffix <- PreNone
  MaxLen = 6
  Family = "rawstart"
  Emit = TRUE
  AsCoded = {}
  Defect = "none"
INVARIANT TypeOK
PROPERTY RefinesHtml
PROPERTY RefinesTok
CHECK_DEADLOCK FALSE
