----------------------------- MODULE HtmlImpl -----------------------------
(***************************************************************************)
(* Implementation-shaped specification (kind I) of html.Lexer.Next         *)
(* (/repo/html/lex.go) over a CLASS ALPHABET of input characters, with the *)
(* template delimiters OFF (html.NewLexer; NewTemplateLexer is not         *)
(* modelled).                                                              *)
(*                                                                         *)
(* The input is Prefix \o s \o Suffix for EVERY string s of up to MaxLen    *)
(* symbols over Alphabet (the prefix only shortens the way into a deep     *)
(* state, e.g. <script><!-- ; the suffix </svg>x makes the end of an SVG   *)
(* token visible).  A symbol is a single-character class, as close as      *)
(* possible to the tests the code makes                                    *)
(*    lt < gt > slash / bang ! qmark ? dash - eq = dquote " squote '       *)
(*    ws (space tab LF CR FF)  letter (a-zA-Z)  nul (a NUL inside the      *)
(*    input)  rbrack ]  other (anything else)                              *)
(* or a whole-word atom: the ten names html.ToHash knows (script style     *)
(* title textarea xmp iframe plaintext svg math xml), "a" (an ordinary tag *)
(* name), "doctype" (spelled in any case) and "cdata" (the seven bytes     *)
(* [CDATA[ ).  Words are runs of letters ("cdata": of non-letters), so     *)
(* every test of the code on one of their bytes has the same outcome for   *)
(* all of them, and no concatenation of the spellings the harness uses     *)
(* (harness/suites/htmldoc/impl.go) forms another special name: ToHash of  *)
(* a run of symbols is a special name iff the run is that one word.  ASCII *)
(* case is not part of the alphabet: the harness varies it, the code       *)
(* compares names after ToLower (and `doctype` with atCaseInsensitive).    *)
(*                                                                         *)
(* One step = one call of Next.  One operator per Go function, same order  *)
(* of tests; positions are 1-based symbol indices, Pk(p) = "eof" behind    *)
(* the input is the terminating NUL of parse.Input, where Err() is         *)
(* io.EOF (c == 0 && l.r.Err() != nil  <=>  c = "eof").  Between two calls *)
(* start = pos always (every return path Shifts or Skips), so `pos` is the *)
(* whole cursor.  A step yields a token [k, via (the branch of the code    *)
(* that returned it), lo, hi, tlo, thi (Text()/AttrKey()), vlo, vhi        *)
(* (AttrVal()), lower (ToLower was applied in place)] with 0-based,        *)
(* end-exclusive symbol offsets, or the error report (k = "Error"); the    *)
(* model stops at the error report, like lexers.RunTokens.                 *)
(*                                                                         *)
(* TLC checks  I => P  for every input within the bound:                   *)
(*   RefinesHtml : every step is a step of html/HtmlStream.tla (all-input  *)
(*                 clauses: Attribute / StartTagClose / StartTagVoid only  *)
(*                 inside a tag; after the start tag of a raw-text element *)
(*                 closes: one Text, then the matching end tag; the stream *)
(*                 ends with an error report).  known <- FALSE: no template*)
(*                 regions.  Refinement mapping: P's inTag is l.inTag; the *)
(*                 raw-text phase of P is history the code does not keep   *)
(*                 (ghosts gTagName, gPhase, gRaw, updated as P says - TLC *)
(*                 checks that too, it is part of P's action).             *)
(*   RefinesTok  : every step is a step of proto/TokenStream.tla as far as *)
(*                 it can be said on classes: tokens non-empty, ending at  *)
(*                 the cursor, ordered and non-overlapping, Text()/AttrVal *)
(*                 inside the token, ToLower only on the token types the   *)
(*                 spec lists, uncovered symbols only white space inside a *)
(*                 tag.  TokenStream's `end` is the cursor, pos - 1.       *)
(*                 (Termination follows: every token moves `end`.)         *)
(*                                                                         *)
(* KNOWN DEVIATION of the code from P (constant AsCoded).  The main        *)
(* configurations run the REPAIRED model (AsCoded = {}): it satisfies P,   *)
(* and on the inputs where the code takes the other branch the             *)
(* differential replay sees a difference AND a real token stream that      *)
(* HtmlStream rejects - a finding (known_findings.jsonl), not drift.       *)
(* HtmlImpl_ascoded_solidus.cfg puts the code's branch back: TLC must      *)
(* reject it.                                                              *)
(*   "solidus-in-name" shiftStartTag hashes the whole run up to white      *)
(*                     space, '>' or '/>': <script/x> is a tag named       *)
(*                     "script/x" and its content is lexed as markup       *)
(*                     (HTML: the tag name ends at '/').  Repaired model:  *)
(*                     same token boundaries; when '>' closes the tag the  *)
(*                     name up to the first '/' decides about raw text     *)
(*                     (nothing changes for '/>', where P is silent).      *)
(* (Until 4d24b63 there was a second one, isTagNameEnd accepting any NUL;  *)
(* it is now the regression "nul-ends-name" below.)                        *)
(* Differential replay (checks/c09impl.py) on the tree at 4d24b63: the     *)
(* code differs from this model ONLY on inputs of that deviation (quick:   *)
(* 10 of 301 000 inputs, thorough: 468 of 3.8 million, every one of them a *)
(* token stream HtmlStream rejects); remaining model drift: none.          *)
(* DEFECT switches (constant Defect, HtmlImpl_defect_*.cfg): plausible     *)
(* regressions that TLC must reject:                                       *)
(*   "textarea-not-raw"         textarea missing from shiftStartTag's list *)
(*   "intag-not-reset"          l.inTag = false missing at '>' and '/>'    *)
(*   "svg-keeps-intag"          l.inTag = false missing after shiftXML     *)
(*   "any-nonletter-ends-name"  isTagNameEnd always true (before a02bf8c)  *)
(*   "nul-ends-name"            isTagNameEnd accepts NUL (before 4d24b63)  *)
(*   "any-raw-end-tag"          h != 0 instead of h == l.rawTag            *)
(*   "empty-text"               0 < len(rawText) not tested                *)
(* and one wrong model that NO all-input clause can see                    *)
(*   "no-bang-comment-end"      '--!>' does not end a comment              *)
(* (HtmlImpl_drift_bangend.cfg): TLC accepts it, the differential replay   *)
(* must report it as drift - the self-test of the replay.                  *)
(*                                                                         *)
(* shiftXML is modelled as the code has it since 4b407c7 (both quote kinds *)
(* inside tags only, nested elements of the same name counted, the end tag *)
(* name not delimited); P says nothing about where an SVG / Math token     *)
(* ends - the well-formed documents of HtmlDoc.tla judge that.             *)
(* The atom "xml" is modelled (XMLToken) but kept out of the alphabets:    *)
(* TokenStream!AllowedEdits does not list XML among the lower-cased types. *)
(***************************************************************************)
EXTENDS Integers, Sequences, FiniteSets, TLC, Json, CSV, IOUtils

CONSTANTS Alphabet,   \* symbols the inputs are built from
          Prefix,     \* every input starts with these symbols
          MaxLen,     \* followed by up to MaxLen symbols of Alphabet
          Suffix,     \* and ends with these
          Family,     \* name of this configuration (copied into the cases)
          Emit,       \* TRUE: write every input with the predicted token list to IOEnv.VERIF_CASES
          AsCoded,    \* known deviations modelled as the code has them (see above)
          Defect      \* "none" or the regression modelled

Special == {"script", "style", "title", "textarea", "xmp", "iframe", "plaintext", "svg", "math", "xml"}   \* html/hash.go
Words   == Special \cup {"a", "doctype"}
Singles == {"lt", "gt", "slash", "bang", "qmark", "dash", "eq", "dquote", "squote", "ws", "letter", "nul", "rbrack",
            "cdata", "other"}
Symbols == Singles \cup Words
Deviations == {"solidus-in-name"}
Defects == {"none", "textarea-not-raw", "intag-not-reset", "svg-keeps-intag", "any-nonletter-ends-name", "nul-ends-name",
            "any-raw-end-tag", "empty-text", "no-bang-comment-end"}
ASSUME /\ Alphabet \subseteq Symbols /\ Prefix \in Seq(Symbols) /\ Suffix \in Seq(Symbols) /\ MaxLen \in Nat
       /\ AsCoded \subseteq Deviations /\ Defect \in Defects

VARIABLES inp,                \* the input, a sequence of symbols, followed by Pad
          pos,                \* l.r.pos = l.r.start (1-based index of the next symbol)
          inTag, rawTag,      \* l.inTag, l.rawTag ("" = 0)
          halted,             \* "no", or the error report that was returned: "eof" (Err() = io.EOF) | "error"
          hist,               \* the tokens returned so far
          dev,                \* known deviations whose as-coded branch would have decided otherwise on this input
          gTagName, gPhase, gRaw   \* ghosts: the bookkeeping of HtmlStream that the code has no counterpart for
vars == <<inp, pos, inTag, rawTag, halted, hist, dev, gTagName, gPhase, gRaw>>

\* refinement mappings: P's inTag is l.inTag, TokenStream's end is the cursor; the raw-text phase is history (ghosts)
H == INSTANCE HtmlStream WITH tagName <- gTagName, phase <- gPhase, raw <- gRaw, known <- FALSE, regs <- <<>>, cov <- {}
T == INSTANCE TokenStream WITH fam <- "html", concat <- FALSE, end <- pos - 1, seenErr <- (halted # "no")

(* ---------------------------- parse.Input ---------------------------- *)
\* inp carries four "eof" symbols behind the input proper: the code looks at most three symbols ahead (Peek(3)) of a
\* position that is at most the terminator, so Pk never leaves inp (and TLC need not test p <= N on every Peek)
Pad == <<"eof", "eof", "eof", "eof">>
N == Len(inp) - 4
Pk(p) == inp[p]
IsWs(c) == c = "ws"                                   \* ' ' '\t' '\n' '\r' '\f'
IsLetter(c) == c = "letter" \/ c \in Words            \* 'a'..'z' 'A'..'Z'
\* ToHash(ToLower(symbols lo .. hi-1)), "" = 0
Hash(lo, hi) == IF hi = lo + 1 /\ Pk(lo) \in Special THEN Pk(lo) ELSE ""

RECURSIVE SkipWs(_), Letters(_), Find(_, _)
SkipWs(p)  == IF IsWs(Pk(p)) THEN SkipWs(p + 1) ELSE p
Letters(p) == IF IsLetter(Pk(p)) THEN Letters(p + 1) ELSE p         \* for { if c = Peek(0); !letter {break}; Move(1) }
Find(p, S) == IF Pk(p) \in S \/ Pk(p) = "eof" THEN p ELSE Find(p + 1, S)

(* what a call returns.  lo..vhi are 1-based here; Off() turns them into offsets *)
None == [k |-> "Error", via |-> "eof", lo |-> 1, hi |-> 1, tlo |-> 1, thi |-> 1, vlo |-> 1, vhi |-> 1, lower |-> FALSE,
         eof |-> TRUE, inTag2 |-> FALSE, rawTag2 |-> "", devs |-> {}]
Tk(k, via, lo, hi, tlo, thi) == [None EXCEPT !.k = k, !.via = via, !.lo = lo, !.hi = hi, !.tlo = tlo, !.thi = thi]

(* ---------------------------- isTagNameEnd ---------------------------- *)
NameEnd(c) == \/ c \in {"ws", "slash", "gt"}
              \/ (c = "nul" /\ Defect = "nul-ends-name")            \* the code before 4d24b63: c == 0 without asking Err()
              \/ Defect = "any-nonletter-ends-name"                 \* the code before a02bf8c
NameEndOrEof(c) == NameEnd(c) \/ c = "eof"                          \* isTagNameEnd(c) || c == 0 && l.r.Err() != nil

(* ---------------------------- shiftRawText ---------------------------- *)
\* returns the position the cursor is left at (the Text token is start .. that position)
RECURSIVE RT(_, _), Esc(_, _)
RT(tag, p) ==
    LET c == Pk(p) IN
    IF c = "lt" THEN
        IF Pk(p + 1) = "slash" THEN
            LET q == Letters(p + 2)                                  \* mark = p; Move(2); letters
                h == Hash(p + 2, q) IN
            IF (IF Defect = "any-raw-end-tag" THEN h # "" ELSE h = tag) /\ NameEndOrEof(Pk(q))
            THEN p                                                   \* Rewind(mark); return Shift()
            ELSE RT(tag, q)
        ELSE IF tag = "script" /\ Pk(p + 1) = "bang" /\ Pk(p + 2) = "dash" /\ Pk(p + 3) = "dash"
        THEN Esc(p + 4, FALSE)
        ELSE RT(tag, p + 1)
    ELSE IF c = "eof" THEN p
    ELSE RT(tag, p + 1)
\* inside <!-- of a script: the double-escape flag inScript
Esc(p, inScript) ==
    LET c == Pk(p) IN
    IF c = "dash" /\ Pk(p + 1) = "dash" /\ Pk(p + 2) = "gt" THEN RT("script", p + 3)
    ELSE IF c = "lt" THEN
        LET isEnd == Pk(p + 1) = "slash"
            m == IF isEnd THEN p + 2 ELSE p + 1                      \* mark
            q == Letters(m) IN
        IF Hash(m, q) = "script" /\ NameEndOrEof(Pk(q)) THEN
            IF ~isEnd THEN Esc(q, TRUE)
            ELSE IF ~inScript THEN m - 2                             \* Rewind(mark - 2); return Shift()
            ELSE Esc(q, FALSE)
        ELSE Esc(q, inScript)
    ELSE IF c = "eof" THEN p
    ELSE Esc(p + 1, inScript)
ShiftRawText(tag, p) == IF tag = "plaintext" THEN N + 1 ELSE RT(tag, p)

(* ---------------------------- shiftBogusComment, shiftEndTag ---------------------------- *)
\* l.text = Lexeme()[2:] up to '>' or the end
ShiftBogusComment(s, p) ==
    LET q == Find(p, {"gt"}) IN
    Tk("Comment", "bogus", s, IF Pk(q) = "gt" THEN q + 1 ELSE q, s + 2, q)

RECURSIVE TrimWs(_, _)
TrimWs(lo, hi) == IF hi > lo /\ IsWs(Pk(hi - 1)) THEN TrimWs(lo, hi - 1) ELSE hi
ShiftEndTag(s, p) ==
    LET q == Find(p, {"gt"}) IN
    [Tk("EndTag", "endtag", s, IF Pk(q) = "gt" THEN q + 1 ELSE q, s + 2, TrimWs(s + 2, q)) EXCEPT !.lower = TRUE]

(* ---------------------------- readMarkup ---------------------------- *)
RECURSIVE CommentEnd(_), CDataEnd(_)
\* <<end of Text(), end of the token>>
CommentEnd(p) == IF Pk(p) = "eof" THEN <<p, p>>
                 ELSE IF Pk(p) = "dash" /\ Pk(p + 1) = "dash" /\ Pk(p + 2) = "gt" THEN <<p, p + 3>>
                 ELSE IF Pk(p) = "dash" /\ Pk(p + 1) = "dash" /\ Pk(p + 2) = "bang" /\ Pk(p + 3) = "gt"
                         /\ Defect # "no-bang-comment-end" THEN <<p, p + 4>>
                 ELSE CommentEnd(p + 1)
CDataEnd(p) == IF Pk(p) = "eof" THEN <<p, p>>
               ELSE IF Pk(p) = "rbrack" /\ Pk(p + 1) = "rbrack" /\ Pk(p + 2) = "gt" THEN <<p, p + 3>>
               ELSE CDataEnd(p + 1)
\* s: the '<'; p = s + 2: after "<!"
ReadMarkup(s, p) ==
    IF Pk(p) = "dash" /\ Pk(p + 1) = "dash" THEN
        LET e == CommentEnd(p + 2) IN Tk("Comment", "comment", s, e[2], s + 4, e[1])          \* Lexeme()[4:]
    ELSE IF Pk(p) = "cdata" THEN
        LET e == CDataEnd(p + 1) IN Tk("Text", "cdata", s, e[2], s + 3, e[1])                 \* Lexeme()[9:] = 3 symbols
    ELSE IF Pk(p) = "doctype" THEN
        \* `if Peek(0) == ' ' {Move(1)}` moves over a symbol that is not '>': no effect on the result
        LET q == Find(p + 1, {"gt"}) IN
        Tk("Doctype", "doctype", s, IF Pk(q) = "gt" THEN q + 1 ELSE q, s + 3, q)              \* Lexeme()[9:] = 3 symbols
    ELSE ShiftBogusComment(s, p)

(* ---------------------------- shiftXML ---------------------------- *)
\* [end, err]: the cursor after the call; err: l.err was set (NUL inside the input).
\* inT: inside a tag (at first the svg / math start tag itself); quote: "" or the quote of the attribute value we are
\* in; depth: open nested elements of the same name; nested: the tag we are in is the start tag of such an element
RECURSIVE X1(_, _, _, _, _, _)
X2(p) == LET q == Find(p, {"gt", "nul"}) IN
         IF Pk(q) = "gt" THEN [end |-> q + 1, err |-> FALSE] ELSE [end |-> q, err |-> Pk(q) = "nul"]
X1(h, p, inT, quote, depth, nested) ==
    LET c == Pk(p)
        zero == c \in {"nul", "eof"} IN                              \* c == 0
    IF quote # "" /\ ~zero THEN X1(h, p + 1, inT, IF c = quote THEN "" ELSE quote, depth, nested)
    ELSE IF inT /\ ~zero THEN
        IF c \in {"dquote", "squote"} THEN X1(h, p + 1, inT, c, depth, nested)
        ELSE IF c = "gt" THEN X1(h, p + 1, FALSE, quote, IF nested /\ Pk(p - 1) # "slash" THEN depth + 1 ELSE depth, nested)
        ELSE X1(h, p + 1, inT, quote, depth, nested)
    ELSE IF c = "lt" /\ IsLetter(Pk(p + 1)) THEN
        LET q == Letters(p + 1) IN                                   \* Move(1); mark; letters
        X1(h, q, TRUE, quote, depth, Hash(p + 1, q) = h /\ NameEnd(Pk(q)))       \* isTagNameEnd alone: not the end of input
    ELSE IF c = "lt" /\ Pk(p + 1) = "slash" THEN
        LET q == Letters(p + 2) IN
        IF Hash(p + 2, q) = h THEN (IF depth = 0 THEN X2(q) ELSE X1(h, q, inT, quote, depth - 1, nested))
        ELSE X1(h, q, inT, quote, depth, nested)
    ELSE IF zero THEN [end |-> p, err |-> c = "nul"]
    ELSE X1(h, p + 1, inT, quote, depth, nested)
ShiftXML(h, p) == X1(h, p, TRUE, "", 0, FALSE)

(* ---------------------------- shiftStartTag ---------------------------- *)
RECURSIVE TagNameEnd(_)
TagNameEnd(p) == LET c == Pk(p) IN
                 IF c \in {"ws", "gt", "eof"} \/ (c = "slash" /\ Pk(p + 1) = "gt") THEN p ELSE TagNameEnd(p + 1)
RawList == {"textarea", "title", "style", "xmp", "iframe", "script", "plaintext"} \ (IF Defect = "textarea-not-raw" THEN {"textarea"} ELSE {})
\* s: the '<'; the cursor is at s + 1, l.inTag has been set
ShiftStartTag(s) ==
    LET q == TagNameEnd(s + 1)
        h == Hash(s + 1, q)                                          \* ToHash(l.text): the whole run
    IN
    IF h \in {"svg", "math", "xml"} THEN
        LET x == ShiftXML(h, q) IN
        IF x.err THEN [None EXCEPT !.via = "nul-in-xml", !.eof = FALSE, !.inTag2 = TRUE]
        ELSE [Tk(CASE h = "svg" -> "SVG" [] h = "math" -> "Math" [] OTHER -> "XML", "xml", s, x.end, s + 1, q)
                EXCEPT !.lower = TRUE, !.inTag2 = (Defect = "svg-keeps-intag")]
    ELSE [Tk("StartTag", "starttag", s, q, s + 1, q)
            EXCEPT !.lower = TRUE, !.inTag2 = TRUE, !.rawTag2 = IF h \in RawList THEN h ELSE ""]

(* ---------------------------- shiftAttribute ---------------------------- *)
RECURSIVE AttrNameEnd(_)
AttrNameEnd(p) == LET c == Pk(p) IN
                  IF c \in {"ws", "eq", "gt", "eof"} \/ (c = "slash" /\ Pk(p + 1) = "gt") THEN p ELSE AttrNameEnd(p + 1)
\* s: l.r.start (the white space before the name belongs to the token); ns: nameStart
ShiftAttribute(s, ns) ==
    LET ne == AttrNameEnd(ns)
        r == SkipWs(ne) IN
    IF Pk(r) = "eq" THEN
        LET ap == SkipWs(r + 1)                                      \* attrPos
            delim == Pk(ap)
            e == IF delim \in {"dquote", "squote"}
                 THEN LET q == Find(ap + 1, {delim}) IN IF Pk(q) = delim THEN q + 1 ELSE q
                 ELSE Find(ap, {"ws", "gt"})
        IN [Tk("Attribute", IF delim \in {"dquote", "squote"} THEN "attr-quoted" ELSE "attr-unquoted", s, e, ns, ne)
               EXCEPT !.vlo = ap, !.vhi = e, !.lower = TRUE, !.inTag2 = TRUE]
    ELSE [Tk("Attribute", "attr-novalue", s, ne, ns, ne) EXCEPT !.lower = TRUE, !.inTag2 = TRUE]   \* Rewind(nameEnd)

(* ---------------------------- Next ---------------------------- *)
NextInTag ==
    LET p == SkipWs(pos)
        c == Pk(p) IN
    IF c = "eof" THEN [None EXCEPT !.via = "eof-in-tag", !.inTag2 = TRUE]
    ELSE IF c # "gt" /\ (c # "slash" \/ Pk(p + 1) # "gt")
    THEN [ShiftAttribute(pos, p) EXCEPT !.rawTag2 = rawTag]         \* l.rawTag waits for the tag to close
    ELSE IF c = "slash"
    THEN [Tk("StartTagVoid", "void", p, p + 2, p, p) EXCEPT !.inTag2 = (Defect = "intag-not-reset"), !.rawTag2 = rawTag]
    ELSE \* known deviation "solidus-in-name".  As coded l.rawTag was decided by shiftStartTag from the whole run
         \* ("script/x" is no special name).  Repaired: when '>' closes the tag, the name up to the first '/' or white
         \* space decides - which is the name HtmlStream goes by (gTagName) - and nothing else changes (token
         \* boundaries, '/>').
         LET rep == IF gTagName \in RawList THEN gTagName ELSE rawTag IN
         [Tk("StartTagClose", "close", p, p + 1, p, p)
             EXCEPT !.inTag2 = (Defect = "intag-not-reset"),
                    !.rawTag2 = IF "solidus-in-name" \in AsCoded THEN rawTag ELSE rep,
                    !.devs = IF rep # rawTag THEN {"solidus-in-name"} ELSE {}]

\* the text / tag-open loop; s = l.r.start
RECURSIVE Scan(_, _)
Scan(s, p) ==
    LET c == Pk(p) IN
    IF c = "lt" THEN
        LET c1 == Pk(p + 1)
            isEndTag == c1 = "slash" /\ Pk(p + 2) # "gt" /\ Pk(p + 2) # "eof" IN
        IF ~isEndTag /\ ~IsLetter(c1) /\ c1 # "bang" /\ c1 # "qmark" THEN Scan(s, p + 1)           \* not a tag
        ELSE IF s < p THEN Tk("Text", "text", s, p, s, p)
        ELSE IF isEndTag THEN
            IF ~IsLetter(Pk(p + 2)) THEN ShiftBogusComment(s, p + 2) ELSE ShiftEndTag(s, p + 2)
        ELSE IF IsLetter(c1) THEN ShiftStartTag(s)
        ELSE IF c1 = "bang" THEN ReadMarkup(s, p + 2)
        ELSE ShiftBogusComment(s, p + 1)                                                          \* <?
    ELSE IF c = "eof" THEN (IF s < p THEN Tk("Text", "text", s, p, s, p) ELSE None)
    ELSE Scan(s, p + 1)

Call ==
    IF inTag THEN NextInTag
    ELSE IF rawTag # "" THEN
        LET e == ShiftRawText(rawTag, pos) IN
        IF pos < e \/ Defect = "empty-text" THEN Tk("Text", "rawtext", pos, e, pos, e) ELSE Scan(pos, pos)
    ELSE Scan(pos, pos)

(* ---------------------------- behaviour ---------------------------- *)
\* prefixes for the configuration files (a .cfg cannot spell a tuple): Prefix <- PreScript
PreNone     == <<>>
PreLt       == <<"lt">>
PreTag      == <<"lt", "a">>                                          \* inside a start tag
PreRawOpen  == <<"lt", "script">>                                     \* inside the start tag of a raw-text element
PreStyle    == <<"lt", "style", "gt">>                                \* in raw text
PreEscape   == <<"lt", "script", "gt", "lt", "bang", "dash", "dash">> \* in a script, after <!--
PreEscape2  == PreEscape \o <<"lt", "script", "gt">>                  \* ... double-escaped (inScript)
PreEscape3  == PreEscape2 \o <<"lt", "slash", "script", "gt">>        \* ... and back (inScript reset)
PreSvg      == <<"lt", "svg">>                                        \* in shiftXML
PreSvgOpen  == <<"lt", "svg", "gt">>
PreSvgNest  == <<"lt", "svg", "gt", "lt", "svg">>                     \* ... in the start tag of a nested svg
PreComment  == <<"lt", "bang", "dash", "dash">>
PostSvg     == <<"lt", "slash", "svg", "gt", "other">>                \* shows where the SVG token ended
Strings == UNION {[1..n -> Alphabet] : n \in 0..MaxLen}
Init == /\ inp \in {Prefix \o s \o Suffix \o Pad : s \in Strings}
        /\ pos = 1 /\ inTag = FALSE /\ rawTag = "" /\ halted = "no" /\ hist = <<>> /\ dev = {}
        /\ gTagName = "" /\ gPhase = "none" /\ gRaw = ""

Off(p) == p - 1
\* "Matching is the tokenizer's notion: the bytes of Text() up to the first whitespace or '/'" (HtmlStream.tla); a run
\* of several symbols is no special name
NameOf(lo, hi) == LET e == Find(lo, {"ws", "slash"}) IN
                  IF (IF e < hi THEN e ELSE hi) = lo + 1 /\ Pk(lo) \in Words THEN Pk(lo) ELSE "?"
Shown(r, name) == [k |-> r.k, via |-> r.via, lo |-> Off(r.lo), hi |-> Off(r.hi), tlo |-> Off(r.tlo), thi |-> Off(r.thi),
                   vlo |-> Off(r.vlo), vhi |-> Off(r.vhi), name |-> name, lower |-> r.lower]

CaseFile == IOEnv.VERIF_CASES
EmitCase(r) == Emit =>
    CSVWrite("%1$s", <<ToJson([fam |-> Family, cls |-> SubSeq(inp, 1, N), toks |-> hist, eof |-> r.eof, via |-> r.via,
                               dev |-> dev \cup r.devs])>>, CaseFile)

Step ==
    /\ halted = "no"
    /\ LET r == Call
           k == r.k
           name == IF k \in {"StartTag", "EndTag"} THEN NameOf(r.tlo, r.thi) ELSE ""      \* the name P is told
           enter == k = "StartTagClose" /\ gTagName \in H!RawNames
       IN /\ dev' = dev \cup r.devs
          /\ UNCHANGED inp
          /\ IF k = "Error"
             THEN /\ halted' = (IF r.eof THEN "eof" ELSE "error") /\ EmitCase(r)
                  /\ UNCHANGED <<pos, inTag, rawTag, hist, gTagName, gPhase, gRaw>>
             ELSE /\ pos' = r.hi /\ inTag' = r.inTag2 /\ rawTag' = r.rawTag2 /\ hist' = Append(hist, Shown(r, name))
                  /\ UNCHANGED halted
                  \* the bookkeeping of HtmlStream!Tok (TLC checks that it IS P's: RefinesHtml)
                  /\ gTagName' = (IF k = "StartTag" THEN name ELSE gTagName)
                  /\ gPhase' = (IF enter THEN "content" ELSE IF gPhase = "content" /\ k = "Text" THEN "after" ELSE "none")
                  /\ gRaw' = (IF enter THEN gTagName ELSE gRaw)
Next == Step
Spec == Init /\ [][Next]_vars

(* ---------------------------- I => P ---------------------------- *)
\* what the step returned (offsets)
o == IF halted' # "no" THEN [k |-> "Error", lo |-> 0, hi |-> 0, tlo |-> 0, thi |-> 0, vlo |-> 0, vhi |-> 0, name |-> "", lower |-> FALSE]
     ELSE hist'[Len(hist')]
HStep == IF o.k = "Error" THEN H!End(halted' = "eof")
         ELSE H!Tok(o.k, o.name, o.lo, o.hi, FALSE)
Inside(lo, hi, r) == lo = hi \/ (r.lo <= lo /\ hi <= r.hi)
TStep == T!Tok([err |-> o.k = "Error", kname |-> o.k, n |-> o.hi - o.lo, al |-> TRUE, lo |-> o.lo, hi |-> o.hi,
                off |-> pos' - 1, capEq |-> TRUE, relex |-> TRUE,
                gap |-> {IF IsWs(Pk(i)) THEN "ws" ELSE "other" : i \in pos..o.lo},          \* symbols pos .. lo (1-based) are skipped
                edits |-> IF o.lower THEN {"lower"} ELSE {},
                subsIn |-> Inside(o.tlo, o.thi, o) /\ Inside(o.vlo, o.vhi, o)])
RefinesHtml == [][HStep]_vars
RefinesTok  == [][TStep]_vars

TypeOK == /\ pos \in 1..(N + 1) /\ inTag \in BOOLEAN /\ rawTag \in RawList \cup {""} /\ halted \in {"no", "eof", "error"}
          /\ gPhase \in {"none", "content", "after"}
=============================================================================
