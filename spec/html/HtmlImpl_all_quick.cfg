SPECIFICATION Spec
CONSTANTS
  Alphabet = {"lt", "gt", "slash", "bang", "qmark", "dash", "eq", "dquote", "squote", "ws", "letter", "nul", "rbrack", "cdata", "other", "a", "doctype", "script", "style", "title", "textarea", "xmp", "iframe", "plaintext", "svg", "math"}
  Prefix <- PreNone
  Suffix <- PreNone
  MaxLen = 3
  Family = "all"
  Emit = TRUE
  AsCoded = {}
  Defect = "none"
INVARIANT TypeOK
PROPERTY RefinesHtml
PROPERTY RefinesTok
CHECK_DEADLOCK FALSE
