SPECIFICATION Spec
CONSTANTS
  Alphabet = {"dash", "bang", "gt", "lt", "letter", "rbrack"}
  Prefix <- PreComment
  Suffix <- PreNone
  MaxLen = 7
  Family = "comment"
  Emit = TRUE
  AsCoded = {}
  Defect = "none"
INVARIANT TypeOK
PROPERTY RefinesHtml
PROPERTY RefinesTok
CHECK_DEADLOCK FALSE
