SPECIFICATION Spec
CONSTANTS
  Alphabet = {"lt", "slash", "script", "gt", "dash", "ws", "letter"}
  Prefix <- PreEscape3
  Suffix <- PreNone
  MaxLen = 6
  Family = "escape3"
  Emit = TRUE
  AsCoded = {}
  Defect = "none"
INVARIANT TypeOK
PROPERTY RefinesHtml
PROPERTY RefinesTok
CHECK_DEADLOCK FALSE
