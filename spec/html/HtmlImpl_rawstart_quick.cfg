SPECIFICATION Spec
CONSTANTS
  Alphabet = {"slash", "gt", "ws", "lt", "letter", "script", "nul"}
  Prefix <- PreRawOpen
  Suffix <- PreNone
  MaxLen = 5
  Family = "rawstart"
  Emit = TRUE
  AsCoded = {}
  Defect = "none"
INVARIANT TypeOK
PROPERTY RefinesHtml
PROPERTY RefinesTok
CHECK_DEADLOCK FALSE
