SPECIFICATION Spec
CONSTANTS
  Alphabet = {"gt", "slash", "lt", "svg", "ws", "other", "squote"}
  Prefix <- PreSvgNest
  Suffix <- PostSvg
  MaxLen = 6
  Family = "foreign2"
  Emit = TRUE
  AsCoded = {}
  Defect = "none"
INVARIANT TypeOK
PROPERTY RefinesHtml
PROPERTY RefinesTok
CHECK_DEADLOCK FALSE
