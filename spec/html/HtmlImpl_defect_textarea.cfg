SPECIFICATION Spec
CONSTANTS
  Alphabet = {"textarea", "a", "lt", "gt", "slash"}
  Prefix <- PreLt
  Suffix <- PreNone
  MaxLen = 4
  Family = "ta"
  Emit = FALSE
  AsCoded = {}
  Defect = "textarea-not-raw"
INVARIANT TypeOK
PROPERTY RefinesHtml
PROPERTY RefinesTok
CHECK_DEADLOCK FALSE
