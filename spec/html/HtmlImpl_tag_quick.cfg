SPECIFICATION Spec
CONSTANTS
  Alphabet = {"lt", "gt", "slash", "eq", "dquote", "ws", "letter", "nul"}
  Prefix <- PreNone
  Suffix <- PreNone
  MaxLen = 5
  Family = "tag"
  Emit = TRUE
  AsCoded = {}
  Defect = "none"
INVARIANT TypeOK
PROPERTY RefinesHtml
PROPERTY RefinesTok
CHECK_DEADLOCK FALSE
