SPECIFICATION Spec
CONSTANTS
  Alphabet = {"ws", "eq", "dquote", "squote", "slash", "gt", "letter"}
  Prefix <- PreTag
  Suffix <- PreNone
  MaxLen = 5
  Family = "attr"
  Emit = TRUE
  AsCoded = {}
  Defect = "none"
INVARIANT TypeOK
PROPERTY RefinesHtml
PROPERTY RefinesTok
CHECK_DEADLOCK FALSE
