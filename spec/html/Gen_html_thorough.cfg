SPECIFICATION Spec
CONSTANTS
  Mode = "html"
  MaxLen = 5
  Sample = TRUE
INVARIANT Emit
CHECK_DEADLOCK FALSE
