SPECIFICATION Spec
CONSTANTS
  Mode = "tmpl"
  MaxLen = 3
  Sample = FALSE
INVARIANT Emit
CHECK_DEADLOCK FALSE
