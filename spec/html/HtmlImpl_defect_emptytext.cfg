SPECIFICATION Spec
CONSTANTS
  Alphabet = {"lt", "slash", "style", "script", "gt", "other"}
  Prefix <- PreStyle
  Suffix <- PreNone
  MaxLen = 4
  Family = "rawtext"
  Emit = FALSE
  AsCoded = {}
  Defect = "empty-text"
INVARIANT TypeOK
PROPERTY RefinesHtml
PROPERTY RefinesTok
CHECK_DEADLOCK FALSE
