SPECIFICATION Spec
CONSTANTS
  Alphabet = {"lt", "gt", "slash", "ws", "letter", "eq"}
  Prefix <- PreNone
  Suffix <- PreNone
  MaxLen = 4
  Family = "tag"
  Emit = FALSE
  AsCoded = {}
  Defect = "intag-not-reset"
INVARIANT TypeOK
PROPERTY RefinesHtml
PROPERTY RefinesTok
CHECK_DEADLOCK FALSE
