------------------------------ MODULE HtmlDoc ------------------------------
(***************************************************************************)
(* Generator (kind G) for C09: the HTML syntax (WHATWG HTML, "Writing HTML *)
(* documents" and the tokenizer states of "Parsing HTML documents") as     *)
(* grammar-as-behaviour at the level of CONSTRUCTS:                        *)
(*                                                                         *)
(*      doc ::= construct doc | <empty>                                    *)
(*                                                                         *)
(* A state is a document: a sequence of constructs.  Every construct is a  *)
(* record  [c: label, a: atoms, e: expected tokens, last: nothing may      *)
(* follow].  Atoms are small strings naming a spelling class ("ws",        *)
(* "key:u", "val:dq.gt", "r:la.x:script", "lit:<!--"); the harness spells  *)
(* each one in several ways chosen by seed.  An expected token is          *)
(*   k     token type name                                                 *)
(*   lbl   which part of which construct it is (used to name a finding)    *)
(*   lo,hi the atoms the token's bytes consist of (1-based, inclusive)     *)
(*   fold  how many of these atoms, from lo, are compared ignoring ASCII   *)
(*         case (the lexer may lower-case names in place); the rest must   *)
(*         be byte-identical                                               *)
(*   dm    "exact" | "ltrim": leading whitespace of [lo,hi] may or may not *)
(*         be part of the token (the statement does not say whether the    *)
(*         whitespace before an attribute belongs to its token)            *)
(*   tlo,thi,tm  Text()/AttrKey(): the atoms it consists of and how it is  *)
(*         compared: "lower" (the atoms' bytes lower-cased), "exact",      *)
(*         "fold" (either case), "ltrim" (modulo leading whitespace),      *)
(*         "lowerprefix" (begins with the lower-cased bytes, and what      *)
(*         follows does not start with a name character), "any"            *)
(*   vlo,vhi,vm  AttrVal(): "exact" over the atoms, "empty", or "none"     *)
(*   tp    HasTemplate()                                                   *)
(* All of this is computed here, from the standard and the property        *)
(* statement, never in Go or Python.                                       *)
(*                                                                         *)
(* Merge relation (which neighbours would lex differently if juxtaposed):  *)
(*  - text directly followed by text is one text token: not generated      *)
(*  - an attribute is always preceded by whitespace (names/values merge)   *)
(*  - an unquoted attribute value directly followed by "/>": the '/'       *)
(*    belongs to the value (attribute value (unquoted) state), so          *)
(*    whitespace is required there (CloseOK); the value kind "uq.slash"    *)
(*    exercises exactly that: <a b=x/> is a non-void tag with value "x/"   *)
(*  - nothing can follow a plaintext element                               *)
(* Whitespace is inserted, in addition, wherever HTML merely allows it     *)
(* (around '=', before '>' and '/>', after an end tag's name).             *)
(*                                                                         *)
(* Exhaustive mode (Sample = FALSE): all documents of at most MaxLen       *)
(* constructs made of core constructs, plus every construct of the full    *)
(* vocabulary alone, after each Pre context, before each Post context and  *)
(* between both.  Sample = TRUE (run with -simulate): every step appends   *)
(* one random construct of the full vocabulary.                            *)
(***************************************************************************)
EXTENDS Integers, Sequences, FiniteSets, TLC, Json, CSV, IOUtils

CONSTANTS Mode,      \* "html": plain lexer;  "tmpl": documents with template regions (run under each dialect)
          MaxLen,    \* constructs per document
          Sample     \* see above

VARIABLES doc, sp    \* sp: position of the one construct that is not a core construct (0: none)
vars == <<doc, sp>>

---------------------------------------------------------------------------
(* expected tokens *)
Tk(k, lbl, lo, hi) == [k |-> k, lbl |-> lbl, lo |-> lo, hi |-> hi, fold |-> 0, dm |-> "exact",
                       tlo |-> 1, thi |-> 0, tm |-> "any", vlo |-> 1, vhi |-> 0, vm |-> "none", tp |-> FALSE]
Shift(t, d) == [t EXCEPT !.lo = @ + d, !.hi = @ + d, !.tlo = @ + d, !.thi = @ + d, !.vlo = @ + d, !.vhi = @ + d]
ShiftAll(e, d) == [i \in 1..Len(e) |-> Shift(e[i], d)]
Cat(c1, c2) == [c |-> c1.c, a |-> c1.a \o c2.a, e |-> c1.e \o ShiftAll(c2.e, Len(c1.a)), last |-> c2.last]
Con(c, a, e) == [c |-> c, a |-> a, e |-> e, last |-> FALSE]

Cases == {"l", "u", "m"}          \* lower, UPPER, Mixed
RawElems == {"script", "style", "title", "textarea", "xmp", "iframe"}     \* plus plaintext, which never ends
Name(el, cs) == "name:" \o el \o ":" \o cs

(* template regions: atoms "T:<kind>"; "T:end:<elem>" holds the element's end tag inside a quoted string *)
TK == {"T:simple", "T:str", "T:dqclose", "T:sqclose", "T:esc"}
TAtoms == TK \cup {"T:end:" \o el : el \in RawElems}
HasT(s) == \E i \in 1..Len(s) : s[i] \in TAtoms

---------------------------------------------------------------------------
(* start tags: '<' name (ws attribute)* ws? ('>' | '/>') *)
Attr(n, key, eq, val, uq) == [n |-> n, key |-> key, eq |-> eq, val |-> val, uq |-> uq]
AttrAtoms(at) == <<"ws">> \o at.key \o at.eq \o at.val
AttrTok(at, off) ==
    LET n == Len(AttrAtoms(at))
        kl == Len(at.key)
    IN [Tk("Attribute", "attr." \o at.n, off + 1, off + n) EXCEPT
          !.fold = 1 + kl, !.dm = "ltrim",
          !.tlo = off + 2, !.thi = off + 1 + kl, !.tm = IF HasT(at.key) THEN "fold" ELSE "lower",
          !.vlo = off + n - Len(at.val) + 1, !.vhi = off + n, !.vm = IF at.val = <<>> THEN "empty" ELSE "exact",
          !.tp = HasT(at.key) \/ HasT(at.val)]
RECURSIVE AttrsA(_), AttrsE(_, _)
AttrsA(as) == IF as = <<>> THEN <<>> ELSE AttrAtoms(Head(as)) \o AttrsA(Tail(as))
AttrsE(as, off) == IF as = <<>> THEN <<>>
                   ELSE <<AttrTok(Head(as), off)>> \o AttrsE(Tail(as), off + Len(AttrAtoms(Head(as))))

Closes == {<<"lit:>">>, <<"ws", "lit:>">>, <<"lit:/>">>, <<"ws", "lit:/>">>}
CloseOK(as, cl) == as = <<>> \/ ~(as[Len(as)].uq /\ cl = <<"lit:/>">>)
STag(lbl, name, as, cl) ==
    LET a == <<"lit:<", name>> \o AttrsA(as) \o cl
        n == Len(a)
        ck == IF cl[Len(cl)] = "lit:/>" THEN "StartTagVoid" ELSE "StartTagClose"
    IN Con(lbl, a,
           <<[Tk("StartTag", lbl \o ".open", 1, 2) EXCEPT !.fold = 2, !.tlo = 2, !.thi = 2, !.tm = "lower"]>>
           \o AttrsE(as, 2) \o <<Tk(ck, lbl \o ".close", n, n)>>)

(* end tags: '</' name ws? '>' ; after a raw-text element also with trailing attributes.  "wse" is whitespace
   without form feed, "ff" a form feed (both are whitespace in the tag name state) *)
Trails == {<<>>, <<"wse">>, <<"ff">>}
RawTrails == Trails \cup {<<"wse", "etrail">>}
ETag(lbl, name, trail) ==
    LET a == <<"lit:</", name>> \o trail \o <<"lit:>">>
        n == Len(a)
        l2 == IF trail = <<"ff">> THEN "etag.ff" ELSE IF Len(trail) = 2 THEN lbl \o ".attrs" ELSE lbl
    IN Con(lbl, a, <<[Tk("EndTag", l2, 1, n) EXCEPT !.fold = n, !.tlo = 2, !.thi = 2,
                                                  !.tm = IF Len(trail) = 2 THEN "lowerprefix" ELSE "lower"]>>)

ValKinds == {"uq", "uq.slash", "uq.amp"}
    \cup {q \o k : q \in {"dq", "sq"}, k \in {"", ".empty", ".gt", ".oq", ".slash", ".lt", ".eq", ".nl"}}
Val(k) == [n |-> k, a |-> <<"val:" \o k>>, uq |-> k \in {"uq", "uq.slash", "uq.amp"}]
Eqs == {[n |-> "", a |-> <<"lit:=">>], [n |-> "~w=", a |-> <<"ws", "lit:=">>],
        [n |-> "~=w", a |-> <<"lit:=", "ws">>], [n |-> "~w=w", a |-> <<"ws", "lit:=", "ws">>]}
Key(cs) == <<"key:" \o cs>>
NoVal(cs) == Attr("none", Key(cs), <<>>, <<>>, FALSE)
AV(cs, eq, k) == Attr(k \o eq.n, Key(cs), eq.a, Val(k).a, Val(k).uq)
PlainEq == [n |-> "", a |-> <<"lit:=">>]
A1 == {NoVal(cs) : cs \in Cases}
      \cup {AV(cs, PlainEq, k) : cs \in {"u", "m"}, k \in {"uq", "dq", "sq"}}
      \cup {AV("l", eq, k) : eq \in Eqs, k \in ValKinds}
ASmall == {NoVal("l"), AV("l", PlainEq, "uq"), AV("l", PlainEq, "dq")}
AFirst == {NoVal("l")} \cup {AV("l", PlainEq, k) : k \in {"uq", "uq.slash", "dq", "sq", "dq.slash"}}
ASecond == {NoVal("u")} \cup {AV("m", eq, k) : eq \in Eqs, k \in {"uq", "dq", "sq"}}

G(cs) == Name("g", cs)     \* a generic element name (not one of the ten special names), spelled by seed
STags ==
    {STag("stag", G(cs), <<>>, cl) : cs \in Cases, cl \in Closes}
    \cup {STag("stag", G("l"), <<p[1]>>, p[2]) : p \in {q \in A1 \X Closes : CloseOK(<<q[1]>>, q[2])}}
    \cup {STag("stag", G(cs), <<a>>, <<"lit:>">>) : cs \in {"u", "m"}, a \in ASmall}
    \cup {STag("stag", G("l"), <<a, b>>, cl) : a \in AFirst, b \in ASecond, cl \in {<<"lit:>">>, <<"ws", "lit:/>">>}}
ETags == {ETag("etag", G(cs), t) : cs \in Cases, t \in Trails}

---------------------------------------------------------------------------
(* text, comment, doctype, CDATA *)
Texts == {Con("text", <<"txt:" \o k>>, <<[Tk("Text", "text", 1, 1) EXCEPT !.tlo = 1, !.thi = 1, !.tm = "exact"]>>)
            : k \in {"plain", "amp", "gt", "ws", "uni"}}
Comments == {Con("comment", <<"lit:<!--", "cmt:" \o k, "lit:-->">>,
                 <<[Tk("Comment", "comment." \o k, 1, 3) EXCEPT !.tlo = 2, !.thi = 2, !.tm = "exact"]>>)
               : k \in {"empty", "plain", "tag", "dash", "dashdash", "dashgt", "bang", "enddash"}}     \* enddash: the data ends with '-' ("--->": comment end state, '-' is data)
Doctypes == {Con("doctype", <<"lit:<!", "dt:" \o cs, "ws", "dtbody:" \o k, "lit:>">>,
                 <<[Tk("Doctype", "doctype", 1, 5) EXCEPT !.fold = 2, !.tlo = 3, !.thi = 4, !.tm = "ltrim"]>>)
               : cs \in Cases, k \in {"html", "public", "system"}}
CDatas == {Con("cdata", <<"lit:<![CDATA[", "cd:" \o k, "lit:]]>">>,
               <<[Tk("Text", "cdata." \o k, 1, 3) EXCEPT !.tlo = 2, !.thi = 2, !.tm = "exact"]>>)
             : k \in {"plain", "markup", "brackets", "bracketgt", "empty"}}

---------------------------------------------------------------------------
(* raw-text elements.  Content atoms: plain ones, look-alike end tags, and (all elements; meaningful for script)
   the pieces of the script escape shapes: esc:o '<!--', esc:c '-->', esc:s '<script' + delimiter,
   esc:e '</script' + delimiter, esc:sx '<scriptx', esc:sd '<script-' (not a delimiter: no double escape) *)
RPlain(el) == {"r:txt", "r:lt", "r:tag", "r:amp"}
RLook(el) == {"r:" \o k \o ":" \o el : k \in {"la.x", "la.sp", "la.other", "la.len.u", "la.len.m", "la.digit", "la.bs"}}
Esc == {"esc:o", "esc:s", "esc:e", "esc:c", "esc:sx", "esc:sd"}
RA(el) == RPlain(el) \cup RLook(el) \cup (IF el = "script" THEN Esc ELSE (Esc \ {"esc:e"}) \cup {"r:la.self:" \o el})

(* HTML "script data", "script data escaped", "script data double escaped" states, at atom granularity:
   the state after the content, or "dead" if an appropriate end tag would end the element inside the content *)
SStep(st, a) ==
    IF st = "dead" THEN "dead"
    ELSE IF a = "esc:o" THEN (IF st = "data" THEN "esc" ELSE st)
    ELSE IF a = "esc:c" THEN (IF st \in {"esc", "desc"} THEN "data" ELSE st)
    ELSE IF a = "esc:s" THEN (IF st = "esc" THEN "desc" ELSE st)
    ELSE IF a = "esc:e" THEN (IF st = "desc" THEN "esc" ELSE "dead")
    ELSE st
RECURSIVE SRun(_, _)
SRun(st, s) == IF s = <<>> THEN st ELSE SRun(SStep(st, Head(s)), Tail(s))
ScriptOK(s) == SRun("data", s) \in {"data", "esc"}      \* the element's own end tag then ends it

SeqsUpTo(S, n) == UNION {[1..k -> S] : k \in 0..n}
ScriptContents == {s \in SeqsUpTo(RA("script"), 2) \cup SeqsUpTo({"esc:o", "esc:s", "esc:e", "esc:c"}, 5)
                           \cup [1..3 -> {"esc:o", "esc:s", "esc:e", "esc:c", "esc:sx", "esc:sd", "r:txt"}] : ScriptOK(s)}
Contents(el) == IF el = "script" THEN ScriptContents
                ELSE IF el = "textarea" THEN SeqsUpTo(RA(el), 2)
                ELSE SeqsUpTo(RA(el), 1)
SmallContents(el) == {<<>>, <<"r:txt">>, <<"r:la.x:" \o el>>}

Raw(el, c1, c2, as, content, trail) ==
    LET lbl == "raw." \o el
        st == STag(lbl, Name(el, c1), as, <<"lit:>">>)
        n == Len(content)
        tx == IF n = 0 THEN Con(lbl, <<>>, <<>>)
              ELSE Con(lbl, content, <<[Tk("Text", lbl \o ".text", 1, n) EXCEPT !.tlo = 1, !.thi = n, !.tm = "exact",
                                                                              !.tp = HasT(content)]>>)
    IN Cat(Cat(st, tx), ETag(lbl \o ".end", Name(el, c2), trail))
Raws ==
    UNION {{Raw(el, "l", "l", <<>>, s, <<>>) : s \in Contents(el)} : el \in RawElems}
    \cup UNION {{Raw(el, cc[1], cc[2], <<>>, s, t) : cc \in {<<"u", "m">>, <<"m", "u">>, <<"l", "u">>},
                                                      s \in SmallContents(el), t \in RawTrails} : el \in RawElems}
    \cup {Raw(el, "l", "l", <<a>>, <<"r:txt">>, <<>>) : el \in RawElems, a \in {NoVal("l"), AV("l", PlainEq, "dq")}}
Plaintexts ==
    {[Cat(STag("raw.plaintext", Name("plaintext", cs), <<>>, <<"lit:>">>),
          IF s = <<>> THEN Con("raw.plaintext", <<>>, <<>>)
          ELSE Con("raw.plaintext", s, <<[Tk("Text", "raw.plaintext.text", 1, Len(s)) EXCEPT !.tlo = 1, !.thi = Len(s), !.tm = "exact"]>>))
        EXCEPT !.last = TRUE]
       : cs \in Cases, s \in SeqsUpTo(RA("plaintext") \cup {"r:close:plaintext"}, 1)}

---------------------------------------------------------------------------
(* embedded svg / math: the whole subtree is one token *)
XA(el) == {"x:txt", "x:el", "x:void", "x:otherend"}
          \cup {"x:" \o k \o ":" \o el : k \in {"nested", "dq.closer", "sq.closer", "la.x", "la.sp"}}
XAttrs(el) == {<<>>, <<"x:attr">>, <<"x:attr.dq.closer:" \o el>>, <<"x:attr.sq.closer:" \o el>>}
Xml(el, c1, c2, sat, content, trail) ==
    LET a == <<"lit:<", Name(el, c1)>> \o sat \o <<"lit:>">> \o content \o <<"lit:</", Name(el, c2)>> \o trail \o <<"lit:>">>
    IN Con(el, a, <<[Tk(IF el = "svg" THEN "SVG" ELSE "Math", el, 1, Len(a)) EXCEPT !.fold = 2, !.tlo = 2, !.thi = 2, !.tm = "lower"]>>)
Xmls ==
    UNION {{Xml(el, "l", "l", <<>>, s, <<>>) : s \in SeqsUpTo(XA(el), 2)}
           \cup {Xml(el, cc[1], cc[2], sat, s, t) : cc \in {<<"u", "m">>, <<"m", "l">>},
                                                    sat \in XAttrs(el), s \in {<<>>, <<"x:txt">>}, t \in {<<>>, <<"wse">>}}
           \cup {Xml(el, "l", "l", sat, <<"x:el">>, <<>>) : sat \in XAttrs(el)}
             : el \in {"svg", "math"}}

---------------------------------------------------------------------------
(* template configuration: delimited regions in text, as attribute name, in attribute values, in raw text.
   Never a region directly followed by name characters inside a tag. *)
TRegion(t) == Con("tmpl", <<t>>, <<[Tk("Template", "tmpl", 1, 1) EXCEPT !.tp = TRUE]>>)
DQ == "lit:dq"
SQ == "lit:sq"
TAttrs ==
    {Attr("Tname", <<t>>, <<>>, <<>>, FALSE) : t \in TK}
    \cup {Attr("Tname=" \o k, <<t>>, <<"lit:=">>, Val(k).a, Val(k).uq) : t \in TK, k \in {"uq", "dq"}}
    \cup {Attr("preTname", <<"key:l", t>>, <<>>, <<>>, FALSE) : t \in TK}
    \cup {Attr("preTname=uq", <<"key:l", t>>, <<"lit:=">>, <<"val:uq">>, TRUE) : t \in TK}
    \cup {Attr("uqT" \o eq.n, Key("l"), eq.a, <<t>>, TRUE) : t \in TK, eq \in {PlainEq, [n |-> "~w=w", a |-> <<"ws", "lit:=", "ws">>]}}
    \cup {Attr("uqT", Key(cs), <<"lit:=">>, <<t>>, TRUE) : t \in TK, cs \in {"u", "m"}}
    \cup {Attr("uqTT", Key("l"), <<"lit:=">>, <<t, "T:simple">>, TRUE) : t \in TK}
    \cup {Attr("uqpreT", Key("l"), <<"lit:=">>, <<"val:uqpre", t>>, TRUE) : t \in TK}
    \cup UNION {{Attr(q[1] \o "T", Key("m"), <<"lit:=">>, <<q[2], t, q[2]>>, FALSE),
                 Attr(q[1] \o "preT", Key("l"), <<"lit:=">>, <<q[2], "val:in", t, q[2]>>, FALSE),
                 Attr(q[1] \o "Tpost", Key("l"), <<"lit:=">>, <<q[2], t, "val:in", q[2]>>, FALSE),
                 Attr(q[1] \o "preTpost", Key("u"), <<"lit:=">>, <<q[2], "val:in", t, "val:in", q[2]>>, FALSE)}
                  : t \in TK, q \in {<<"dq", DQ>>, <<"sq", SQ>>}}
TSTags ==
    {STag("stag", G("l"), <<a>>, cl) : a \in TAttrs, cl \in {<<"lit:>">>, <<"ws", "lit:/>">>}}
    \cup {STag("stag", G("l"), <<a>>, <<"lit:/>">>) : a \in {x \in TAttrs : ~x.uq}}
    \cup {STag("stag", G("m"), <<a, AV("l", PlainEq, "dq")>>, <<"lit:>">>) : a \in TAttrs}
    \cup {STag("stag", G("u"), <<b, a>>, <<"lit:>">>) : a \in TAttrs, b \in {NoVal("l"), AV("l", PlainEq, "uq"), AV("l", PlainEq, "sq")}}
TContents(el) ==
    {<<t>> : t \in TK} \cup {<<"r:txt", t>> : t \in TK} \cup {<<t, "r:txt">> : t \in TK}
    \cup {<<t, "r:la.x:" \o el>> : t \in TK} \cup {<<"T:end:" \o el>>, <<"r:txt", "T:end:" \o el, "r:txt">>}
    \cup (IF el = "script" THEN {<<"esc:o", t, "esc:c">> : t \in TK} \cup {<<"esc:o", "T:end:script", "esc:c">>} ELSE {})
TRaws == UNION {{Raw(el, "l", "u", <<>>, s, <<>>) : s \in TContents(el)} : el \in RawElems}

---------------------------------------------------------------------------
(* vocabulary, core constructs and contexts *)
TextPlain == Con("text", <<"txt:plain">>, <<[Tk("Text", "text", 1, 1) EXCEPT !.tlo = 1, !.thi = 1, !.tm = "exact"]>>)
STagPlain == STag("stag", G("l"), <<>>, <<"lit:>">>)
ETagPlain == ETag("etag", G("l"), <<>>)
Full == IF Mode = "html"
        THEN Texts \cup Comments \cup Doctypes \cup CDatas \cup STags \cup ETags \cup Raws \cup Plaintexts \cup Xmls
        ELSE {TRegion(t) : t \in TK} \cup TSTags \cup TRaws
Core == IF Mode = "html"
        THEN {TextPlain, STagPlain, ETagPlain,
              Con("comment", <<"lit:<!--", "cmt:plain", "lit:-->">>, <<[Tk("Comment", "comment.plain", 1, 3) EXCEPT !.tlo = 2, !.thi = 2, !.tm = "exact"]>>),
              Raw("script", "l", "l", <<>>, <<"r:txt">>, <<>>),
              Xml("svg", "l", "l", <<>>, <<"x:txt">>, <<>>)}
        ELSE {TextPlain, STagPlain, TRegion("T:simple")}
Pre == {TextPlain, ETagPlain}
Post == {TextPlain, STagPlain}

Vocab == TLCEval(Full \cup Core)      \* evaluated once: RandomElement enumerates its argument
CanFollow(d, c) == IF d = <<>> THEN TRUE ELSE ~d[Len(d)].last /\ ~(d[Len(d)].c = "text" /\ c.c = "text")

(* vacuity: the atom classes (atom names without their element parameter) and token labels that an exhaustive run must
   have used; written as the first line of the case file and checked against what was actually replayed *)
Required ==
    IF Mode = "html"
    THEN [atoms |-> {"ws", "wse", "ff", "etrail", "lit", "name", "key:l", "key:u", "key:m", "dt:l", "dt:u", "dt:m",
                     "esc:o", "esc:s", "esc:e", "esc:c", "esc:sx", "esc:sd", "r:txt", "r:lt", "r:tag", "r:amp", "r:la.self", "r:close",
                     "x:txt", "x:el", "x:void", "x:otherend", "x:attr", "x:attr.dq.closer", "x:attr.sq.closer"}
                    \cup {"val:" \o k : k \in ValKinds}
                    \cup {"r:" \o k : k \in {"la.x", "la.sp", "la.other", "la.len.u", "la.len.m", "la.digit", "la.bs"}}
                    \cup {"x:" \o k : k \in {"nested", "dq.closer", "sq.closer", "la.x", "la.sp"}}
                    \cup {"txt:" \o k : k \in {"plain", "amp", "gt", "ws", "uni"}}
                    \cup {"cmt:" \o k : k \in {"empty", "plain", "tag", "dash", "dashdash", "dashgt", "bang", "enddash"}}     \* enddash: the data ends with '-' ("--->": comment end state, '-' is data)
                    \cup {"cd:" \o k : k \in {"plain", "markup", "brackets", "bracketgt", "empty"}}
                    \cup {"dtbody:" \o k : k \in {"html", "public", "system"}},
          labels |-> {"text", "doctype", "stag.open", "stag.close", "etag", "etag.ff", "svg", "math", "attr.none"}
                     \cup {"attr." \o k \o eq.n : k \in ValKinds, eq \in Eqs}
                     \cup UNION {{"raw." \o el \o ".open", "raw." \o el \o ".close", "raw." \o el \o ".text"}
                                   : el \in RawElems \cup {"plaintext"}}
                     \cup UNION {{"raw." \o el \o ".end", "raw." \o el \o ".end.attrs"} : el \in RawElems}]
    ELSE [atoms |-> TK \cup {"T:end", "val:uqpre", "val:in", "esc:o", "esc:c", "r:txt", "r:la.x"},
          labels |-> {"tmpl", "attr.Tname", "attr.Tname=uq", "attr.Tname=dq", "attr.preTname", "attr.preTname=uq", "attr.uqT", "attr.uqT~w=w",
                      "attr.uqTT", "attr.uqpreT"}
                     \cup {q \o k : q \in {"attr.dq", "attr.sq"}, k \in {"T", "preT", "Tpost", "preTpost"}}
                     \cup {"raw." \o el \o ".text" : el \in RawElems}]

Init == /\ doc = <<>> /\ sp = 0
        /\ CSVWrite("%1$s", <<ToJson([required |-> Required])>>, IOEnv.VERIF_CASES)
Next ==
    /\ Len(doc) < MaxLen
    /\ IF Sample
       THEN /\ \E c \in {RandomElement(Vocab)} : CanFollow(doc, c) /\ doc' = Append(doc, c)   \* (a LET would draw twice)
            /\ UNCHANGED sp
       ELSE \/ /\ sp = 0
               /\ \E c \in Core : CanFollow(doc, c) /\ doc' = Append(doc, c)
               /\ UNCHANGED sp
            \/ /\ sp = 0
               /\ IF doc = <<>> THEN TRUE ELSE Len(doc) = 1 /\ doc[1] \in Pre
               /\ \E c \in Full \ Core : CanFollow(doc, c) /\ doc' = Append(doc, c)
               /\ sp' = Len(doc) + 1
            \/ /\ sp # 0 /\ sp = Len(doc)
               /\ \E c \in Post : CanFollow(doc, c) /\ doc' = Append(doc, c)
               /\ UNCHANGED sp
Spec == Init /\ [][Next]_vars

---------------------------------------------------------------------------
(* emission: one case per non-empty document *)
RECURSIVE Flat(_)
Flat(d) == IF d = <<>> THEN [a |-> <<>>, e |-> <<>>, cs |-> <<>>]
           ELSE LET h == d[Len(d)]
                    r == Flat(SubSeq(d, 1, Len(d) - 1))
                IN [a |-> r.a \o h.a, e |-> r.e \o ShiftAll(h.e, Len(r.a)), cs |-> Append(r.cs, h.c)]
CaseFile == IOEnv.VERIF_CASES
Emit == doc = <<>> \/ (Sample /\ Len(doc) < MaxLen - 1)
        \/ LET f == Flat(doc) IN CSVWrite("%1$s", <<ToJson([mode |-> Mode, cs |-> f.cs, atoms |-> f.a, exp |-> f.e])>>, CaseFile)

=============================================================================
