SPECIFICATION Spec
CONSTANTS
  Alphabet = {"lt", "bang", "dash", "gt", "qmark", "doctype", "cdata", "rbrack"}
  Prefix <- PreLt
  Suffix <- PreNone
  MaxLen = 5
  Family = "markup"
  Emit = TRUE
  AsCoded = {}
  Defect = "none"
INVARIANT TypeOK
PROPERTY RefinesHtml
PROPERTY RefinesTok
CHECK_DEADLOCK FALSE
