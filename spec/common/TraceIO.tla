------------------------------ MODULE TraceIO ------------------------------
(***************************************************************************)
(* Shared plumbing of every trace specification (kind T in DESIGN.md §2.1).*)
(*                                                                         *)
(* A trace file is ndjson, one event per line, several traces concatenated.*)
(* Every event carries  t (trace id), i (sequence number in its trace) and *)
(* ev (event name).  The first event of a trace is its constructor event   *)
(* (the T spec says which names start a trace).                            *)
(*                                                                         *)
(* Validation never stops at the first rejected event: the T spec takes a  *)
(* Fail step (enabled only when the property-level action for the event is *)
(* NOT enabled), appends one line to the fail file and skips the rest of   *)
(* that trace.  So one TLC run judges thousands of traces, and the verdict *)
(* is the content of the fail file.  This is sound only because every      *)
(* event determines the post-state (all results are logged): the trace     *)
(* spec never branches, so "Step not enabled" means "no behaviour of the   *)
(* property spec explains this event".                                     *)
(***************************************************************************)
EXTENDS Integers, Sequences, TLC, Json, IOUtils, CSV

TraceFile == IOEnv.VERIF_TRACE
FailFile  == IOEnv.VERIF_FAIL

Trace == ndJsonDeserialize(TraceFile)
NEvents == Len(Trace)

Has(r, f) == f \in DOMAIN r

\* one line of the fail file: which trace, which event, and a free-form note
RecordFail(e, l) ==
    CSVWrite("%1$s", <<ToJson([t |-> e.t, i |-> e.i, l |-> l, ev |-> e.ev])>>, FailFile)

\* acceptance: the whole file was consumed (every event either explained or recorded as failed)
Consumed(l) == l = NEvents + 1
=============================================================================
