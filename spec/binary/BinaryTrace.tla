---------------------------- MODULE BinaryTrace ----------------------------
(***************************************************************************)
(* Trace specification (kind T) for C19: every event recorded from the     *)
(* real BinaryReader / BinaryWriter / BitmapWriter / BitmapReader, on      *)
(* whichever backend, must be a step of Binary.tla.                        *)
(***************************************************************************)
EXTENDS Binary, TraceIO

VARIABLES l, bad
tvars == <<bvars, l, bad>>

e == Trace[l]

TInit == /\ l = 1 /\ bad = FALSE
         /\ mode = "none" /\ data = <<>> /\ pos = 0 /\ err = "nil" /\ order = "BE"
         /\ bits = <<>> /\ bitpos = 0 /\ beof = FALSE

IsStart == e.ev = "New"

IsFixedRead  == e.ev \in {"ReadUint8", "ReadUint16", "ReadUint24", "ReadUint32", "ReadUint64",
                          "ReadInt8", "ReadInt16", "ReadInt24", "ReadInt32", "ReadInt64"}
IsFixedWrite == e.ev \in {"WriteUint8", "WriteUint16", "WriteUint24", "WriteUint32", "WriteUint64",
                          "WriteInt8", "WriteInt16", "WriteInt24", "WriteInt32", "WriteInt64"}

\* the property-level action that has to explain the current event
Step ==
    CASE IsFixedRead          -> ReadFixed(e.w, e.v, e.xs, e.p, e.x)
      [] e.ev = "ReadByte"    -> ReadByte(e.v, e.e, e.p, e.x)
      [] e.ev = "ReadBytes"   -> ReadBytes(e.n, e.b, e.p, e.x)
      [] e.ev = "Read"        -> Read(e.k, e.n, e.b, e.e, e.p, e.x)
      [] e.ev = "ReadAt"      -> ReadAt(e.k, e.off, e.n, e.b, e.e, e.p, e.x)
      [] e.ev = "Seek"        -> Seek(e.off, e.wh, e.r, e.e, e.p, e.x)
      [] e.ev = "Pos"         -> PosOp(e.r)
      [] e.ev = "Len"         -> LenOp(e.r)
      [] e.ev = "Err"         -> ErrOp(e.e)
      [] IsFixedWrite         -> WriteFixed(e.w, e.v, e.n, e.tail)
      [] e.ev = "WriteBytes"  -> WriteBytes(e.b, e.n, e.tail)
      [] e.ev = "WBytes"      -> WBytes(e.b)
      [] e.ev = "WLen"        -> WLen(e.r)
      [] e.ev = "Open"        -> Open(e.data, e.order)
      [] e.ev = "BitWrite"    -> BitWrite(e.bit, e.buf)
      [] e.ev = "BitWLen"     -> BitWLen(e.r)
      [] e.ev = "BitOpen"     -> BitOpen(e.data)
      [] e.ev = "BitRead"     -> BitRead(e.bit, e.p, e.eof)
      [] e.ev = "BitPos"      -> BitPos(e.r)
      [] e.ev = "BitEOF"      -> BitEOF(e.e)
      [] OTHER                -> FALSE

\* a call that did not return normally (panic) is explained by no action at all
Returned == IF Has(e, "out") THEN e.out = "ret" ELSE TRUE

TStart == /\ l <= NEvents /\ IsStart
          /\ New(e.kind, e.data, e.order)
          /\ bad' = FALSE /\ l' = l + 1
TStep  == /\ l <= NEvents /\ ~IsStart /\ ~bad
          /\ Returned /\ Step
          /\ l' = l + 1 /\ UNCHANGED bad
TFail  == /\ l <= NEvents /\ ~IsStart /\ ~bad
          /\ ~(Returned /\ ENABLED Step)
          /\ RecordFail(e, l)
          /\ bad' = TRUE /\ l' = l + 1 /\ UNCHANGED bvars
TSkip  == /\ l <= NEvents /\ ~IsStart /\ bad
          /\ l' = l + 1 /\ UNCHANGED <<bvars, bad>>

TNext == TStart \/ TStep \/ TFail \/ TSkip
TSpec == TInit /\ [][TNext]_tvars

TInv == bad \/ Inv
Done == Consumed(l)
Accepted == TLCGet("stats").diameter = NEvents + 1
=============================================================================
