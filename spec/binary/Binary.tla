------------------------------ MODULE Binary ------------------------------
(***************************************************************************)
(* Property-level specification (kind P) of parse.BinaryReader,            *)
(* parse.BinaryWriter, parse.BitmapWriter and parse.BitmapReader --        *)
(* property C19.                                                           *)
(*                                                                         *)
(* Written from the property statement and the contracts of io.Reader,     *)
(* io.ReaderAt, io.Seeker and io.ByteReader -- not from the Go control     *)
(* flow.  There is no notion of a backend in here: the statement says the  *)
(* behaviour is the same whichever source the data come from.              *)
(*                                                                         *)
(* Every action takes the observed result as a parameter and is enabled    *)
(* exactly when the property allows that result.  Every reader call is     *)
(* logged together with Pos() and Err() as observed right after it (p, x), *)
(* so the post-state is a function of the event even where the statement   *)
(* is silent (position after a read that ran past the end, position after  *)
(* a refused Seek).                                                        *)
(*                                                                         *)
(* Bytes are integers 0..255.  A w-byte integer value never enters TLC as  *)
(* a number: it is the sequence of its w bytes, most significant first     *)
(* (the harness converts; `xs` says the Go value did not fit in w bytes,   *)
(* e.g. an "int24" outside -2^23..2^23-1).                                 *)
(***************************************************************************)
EXTENDS Integers, Sequences

VARIABLES mode,    \* "none" | "reader" | "writer" | "bitw" | "bitr"
          data,    \* reader: the bytes it ranges over; writer: bytes written so far; bitw/bitr: the bit buffer
          pos,     \* reader position
          err,     \* "nil" | "eof": the reader's first error
          order,   \* "BE" | "LE"
          bits,    \* bitw: the bits written so far (sequence of 0/1)
          bitpos,  \* bitr: number of bits delivered
          beof     \* bitr: a Read has reported EOF
bvars == <<mode, data, pos, err, order, bits, bitpos, beof>>

N == Len(data)
Min(a, b) == IF a < b THEN a ELSE b
Max(a, b) == IF a > b THEN a ELSE b
Widths == {1, 2, 3, 4, 8}
ErrNames == {"nil", "eof"}

Rev(s) == [i \in 1..Len(s) |-> s[Len(s) + 1 - i]]
\* memory order <-> significance order (most significant byte first); its own inverse
Ordered(bs, o) == IF o = "BE" THEN bs ELSE Rev(bs)
Zero(w) == [i \in 1..w |-> 0]
\* the n bytes at 0-based offset a (fewer, or none, if the data end before)
Sub(a, n) == SubSeq(data, a + 1, Min(a + n, N))
IsPrefix(s, t) == Len(s) <= Len(t) /\ s = SubSeq(t, 1, Len(s))
Avail == N - pos                                  \* what Len() reports: the bytes not yet consumed

TypeOK == /\ mode \in {"none", "reader", "writer", "bitw", "bitr"}
          /\ pos \in Nat /\ err \in ErrNames /\ order \in {"BE", "LE"}
          /\ bitpos \in 0..(8 * N) /\ beof \in BOOLEAN
          /\ (beof => bitpos = 8 * N)

(* ------------------------------ constructors ------------------------------ *)
New(k, d, o) ==
    /\ k \in {"reader", "writer", "bitw", "bitr"} /\ o \in {"BE", "LE"}
    /\ mode' = k /\ data' = d /\ order' = o
    /\ pos' = 0 /\ err' = "nil" /\ bits' = <<>> /\ bitpos' = 0 /\ beof' = FALSE

\* a reader is opened over what the writer produced: the round trip.  d is what the harness handed over.
Open(d, o) ==
    /\ mode = "writer" /\ d = data /\ o \in {"BE", "LE"}
    /\ mode' = "reader" /\ order' = o /\ pos' = 0 /\ err' = "nil"
    /\ UNCHANGED <<data, bits, bitpos, beof>>

Moved(p, x) == pos' = p /\ err' = x /\ UNCHANGED <<mode, data, order, bits, bitpos, beof>>
\* where a call that could not be served may leave the position: not backwards, not beyond the end
PastEnd(p) == p \in pos..Max(pos, N)

(* ------------------------------ typed reads ------------------------------ *)
\* Each call has a predicate XxxOK(args, results, p, x) -- "the property allows these results in this state" --
\* and the action Xxx == XxxOK /\ Moved(p, x).  The generator (BinaryGen.tla) evaluates the same predicates.

\* "Err() staying nil until a read actually runs past the end, after which reads return zero values and
\*  Err() is io.EOF"; a read that fits returns the bytes in the reader's byte order and consumes them.
ReadFixedOK(w, v, xs, p, x) ==
    /\ mode = "reader" /\ w \in Widths /\ Len(v) = w /\ xs = FALSE
    /\ IF Avail >= w
       THEN v = Ordered(Sub(pos, w), order) /\ p = pos + w /\ x = err
       ELSE v = Zero(w) /\ x = "eof" /\ PastEnd(p)
ReadFixed(w, v, xs, p, x) == ReadFixedOK(w, v, xs, p, x) /\ Moved(p, x)

\* io.ByteReader: the byte and a nil error, or an error and nothing consumed
ReadByteOK(v, e, p, x) ==
    /\ mode = "reader"
    /\ IF Avail >= 1
       THEN v = Sub(pos, 1) /\ e = "nil" /\ p = pos + 1 /\ x = err
       ELSE e = "eof" /\ x = "eof" /\ PastEnd(p)
ReadByte(v, e, p, x) == ReadByteOK(v, e, p, x) /\ Moved(p, x)

\* a byte string of length n; if the data end before, what is returned is shorter than n (a prefix of the rest)
ReadBytesOK(n, b, p, x) ==
    /\ mode = "reader" /\ n >= 0
    /\ IF Avail >= n
       THEN b = Sub(pos, n) /\ p = pos + n /\ x = err
       ELSE Len(b) < n /\ IsPrefix(b, Sub(pos, n)) /\ x = "eof" /\ PastEnd(p)
ReadBytes(n, b, p, x) == ReadBytesOK(n, b, p, x) /\ Moved(p, x)

(* ------------------------------ io.Reader / io.ReaderAt / io.Seeker ------------------------------ *)
\* io.Reader: 0 <= n <= len(p) bytes, the next n of the stream; they are consumed; io.EOF only at the end of
\* the stream and never another error (the source does not fail); no progress only at the end or for len(p)=0.
\* The statement does not say whether Read feeds Err(): it may, but only if the call ran past the end.
ReadOK(k, n, b, e, p, x) ==
    /\ mode = "reader" /\ k >= 0
    /\ n \in 0..Min(k, Max(0, Avail)) /\ b = Sub(pos, n) /\ p = pos + n
    /\ e \in ErrNames /\ (e = "eof" => pos + n >= N)
    /\ ((k > 0 /\ n = 0) => e = "eof")
    /\ (x = err \/ (x = "eof" /\ pos + k > N))
Read(k, n, b, e, p, x) == ReadOK(k, n, b, e, p, x) /\ Moved(p, x)

\* io.ReaderAt: exactly the bytes that exist at off, n < len(p) only with an error (end of data: io.EOF);
\* a full read may report io.EOF only if it ends at or beyond the end; position and Err() are not affected.
ReadAtOK(k, off, n, b, e, p, x) ==
    /\ mode = "reader" /\ k >= 0 /\ p = pos /\ x = err
    /\ IF off < 0
       THEN n = 0 /\ (k > 0 => e # "nil")       \* no byte exists there: nothing is read, and 0 < len(p) needs an error
       ELSE /\ n = Min(k, Max(0, N - off)) /\ b = Sub(off, n)
            /\ (n < k => e = "eof")
            /\ (n = k => (e = "nil" \/ (e = "eof" /\ off + k >= N)))
ReadAt(k, off, n, b, e, p, x) == ReadAtOK(k, off, n, b, e, p, x) /\ Moved(p, x)

\* io.Seeker, "Seek agrees with bytes.Reader for every whence and every target inside [0, Len]"; before the
\* start is an error (io.Seeker); beyond the end the statement is silent: refuse, or accept and be there.
Target(off, wh) == CASE wh = 0 -> off [] wh = 1 -> pos + off [] wh = 2 -> N + off
SeekOK(off, wh, r, e, p, x) ==
    /\ mode = "reader" /\ wh \in {0, 1, 2} /\ x = err /\ p \in Nat
    /\ LET t == Target(off, wh) IN
       IF 0 <= t /\ t <= N THEN e = "nil" /\ r = t /\ p = t
       ELSE IF t < 0 THEN e # "nil"
       ELSE (e = "nil" => (r = t /\ p = t))
Seek(off, wh, r, e, p, x) == SeekOK(off, wh, r, e, p, x) /\ Moved(p, x)

PosOp(r) == mode = "reader" /\ r = pos   /\ UNCHANGED bvars
LenOp(r) == mode = "reader" /\ r = Avail /\ UNCHANGED bvars
ErrOp(e) == mode = "reader" /\ e = err   /\ UNCHANGED bvars

(* ------------------------------ writer ------------------------------ *)
\* v: the value's w bytes, most significant first.  n: Len() after the call, tail: the last bytes of Bytes().
Written(bs, n, tail) ==
    /\ n = N + Len(bs) /\ tail = bs
    /\ data' = data \o bs /\ UNCHANGED <<mode, pos, err, order, bits, bitpos, beof>>
WriteFixed(w, v, n, tail) == mode = "writer" /\ w \in Widths /\ Len(v) = w /\ Written(Ordered(v, order), n, tail)
WriteBytes(b, n, tail)    == mode = "writer" /\ Written(b, n, tail)
WBytes(b) == mode = "writer" /\ b = data /\ UNCHANGED bvars
WLen(r)   == mode = "writer" /\ r = N    /\ UNCHANGED bvars

(* ------------------------------ bitmaps ------------------------------ *)
Pow2(k) == 2 ^ k
Bit(buf, k) == (buf[(k \div 8) + 1] \div Pow2(7 - (k % 8))) % 2       \* bit k of the buffer, most significant first
BitsOf(buf, n) == [k \in 1..n |-> Bit(buf, k - 1)]

\* buf: Bytes() after the call: it holds every bit written so far, in order
BitWrite(bit, buf) ==
    /\ mode = "bitw" /\ bit \in {0, 1}
    /\ LET nb == Append(bits, bit) IN
       /\ 8 * Len(buf) >= Len(nb) /\ BitsOf(buf, Len(nb)) = nb
       /\ bits' = nb /\ data' = buf
    /\ UNCHANGED <<mode, pos, err, order, bitpos, beof>>
BitWLen(r) == mode = "bitw" /\ r = N /\ UNCHANGED bvars
\* the reader is given the writer's buffer
BitOpen(d) ==
    /\ mode = "bitw" /\ d = data
    /\ mode' = "bitr" /\ bitpos' = 0 /\ beof' = FALSE
    /\ UNCHANGED <<data, pos, err, order, bits>>
\* "yields all 8*len(buf) bits of any buffer before reporting EOF"
BitRead(bit, p, eof) ==
    /\ mode = "bitr"
    /\ IF bitpos < 8 * N
       THEN eof = FALSE /\ bit = Bit(data, bitpos) /\ p = bitpos + 1
       ELSE eof = TRUE /\ bit = 0 /\ p = bitpos
    /\ bitpos' = p /\ beof' = eof
    /\ UNCHANGED <<mode, data, pos, err, order, bits>>
BitPos(r) == mode = "bitr" /\ r = bitpos /\ UNCHANGED bvars
BitEOF(e) == mode = "bitr" /\ e = beof   /\ UNCHANGED bvars

Inv == TypeOK
=============================================================================
