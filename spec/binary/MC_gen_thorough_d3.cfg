SPECIFICATION Spec
CONSTANTS
  Kinds = {"reader", "writer", "bitw", "bitr"}
  Lens = {0, 1, 2, 3, 4, 5, 6, 7, 8, 9}
  Depth = 3
  MaxWide = 3
  WDepth = 4
  BitDepth = 12
INVARIANT GInv
INVARIANT EmitInv
CHECK_DEADLOCK FALSE
