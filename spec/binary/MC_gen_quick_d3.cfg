SPECIFICATION Spec
CONSTANTS
  Kinds = {"reader"}
  Lens = {0, 1, 2, 3, 4, 5, 6, 7, 8, 9}
  Depth = 3
  MaxWide = 0
  WDepth = 0
  BitDepth = 0
INVARIANT GInv
INVARIANT EmitInv
CHECK_DEADLOCK FALSE
