SPECIFICATION Spec
CONSTANTS
  Backends = {"bytes", "reader", "readereof", "seeker", "readerat", "mmap"}
  MaxLen = 9
  MaxArg = 3
  Fix = {"mmaple", "mmapzero", "guard", "eofwith"}
PROPERTY Refines
VIEW View
CHECK_DEADLOCK FALSE
