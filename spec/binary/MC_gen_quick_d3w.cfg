SPECIFICATION Spec
CONSTANTS
  Kinds = {"reader"}
  Lens = {0, 1, 2, 3}
  Depth = 3
  MaxWide = 1
  WDepth = 0
  BitDepth = 0
INVARIANT GInv
INVARIANT EmitInv
CHECK_DEADLOCK FALSE
