----------------------------- MODULE BinaryGen -----------------------------
(***************************************************************************)
(* Generator (kind G) for C19.  TLC enumerates                             *)
(*   - reader scenarios: every data length in Lens x both byte orders x    *)
(*     every sequence of Depth calls (at most MaxWide of them ReadAt/Seek, *)
(*     whose argument spaces are wide: all (off, whence) with target in    *)
(*     [-1, Len+1]; ReadAt at -1, 0, pos, Len-2 .. Len+1);                 *)
(*   - writer scenarios: every sequence of up to WDepth typed writes, both *)
(*     orders (the harness reads them back on every backend);              *)
(*   - bitmap scenarios: every bit string up to BitDepth, and raw buffers. *)
(* Every step is a step of Binary.tla (this module EXTENDS it and takes    *)
(* its actions), made with the canonical result the property allows; what  *)
(* must be observed is computed by Binary.tla's own XxxOK predicates and   *)
(* written next to each call: canonical result, the set `es` of error      *)
(* classes the property allows with it, the range plo..phi of positions.   *)
(* "Positions as contents": the byte at index i is i+1.                    *)
(***************************************************************************)
EXTENDS Binary, FiniteSets, TLC, Json, CSV, IOUtils

CONSTANTS Kinds,     \* which families of scenarios: subset of {"reader", "writer", "bitw", "bitr"}
          Lens,      \* data lengths of the reader scenarios, e.g. 0..9
          Depth,     \* calls per reader scenario
          MaxWide,   \* at most this many ReadAt/Seek calls per scenario
          WDepth,    \* typed writes per writer scenario (0..WDepth)
          BitDepth   \* bits per bitmap scenario (0..BitDepth)

\* raw buffers for BitmapReader
BitBufs == {<<>>, <<165>>, <<1>>, <<128, 1>>, <<255, 0, 129>>, <<0, 0>>, <<90, 60, 195, 36>>}

VARIABLES ops,       \* the calls so far, with what must be observed
          wide,      \* number of ReadAt/Seek calls so far
          fwd        \* TRUE: a forward-only source can serve the history (no ReadAt that reads, no Seek that moves)
gvars == <<bvars, ops, wide, fwd>>

Iota(n) == [i \in 1..n |-> i]
E3 == {"nil", "eof", "other"}

Init == /\ pos = 0 /\ err = "nil" /\ bits = <<>> /\ bitpos = 0 /\ beof = FALSE
        /\ ops = <<>> /\ wide = 0 /\ fwd = TRUE
        /\ mode \in Kinds
        /\ \/ mode = "reader" /\ data \in {Iota(n) : n \in Lens} /\ order \in {"BE", "LE"}
           \/ mode = "writer" /\ data = <<>> /\ order \in {"BE", "LE"}
           \/ mode = "bitw" /\ data = <<>> /\ order = "BE"
           \/ mode = "bitr" /\ data \in BitBufs /\ order = "BE"

Rec(op, w, n, k, off, wh, v, b, r, es, p, plo, phi, x) ==
    [op |-> op, w |-> w, n |-> n, k |-> k, off |-> off, wh |-> wh, v |-> v, b |-> b, r |-> r,
     es |-> es, p |-> p, plo |-> plo, phi |-> phi, x |-> x]
Log(rec, isWide, keepsFwd) ==
    /\ ops' = Append(ops, rec)
    /\ wide' = wide + (IF isWide THEN 1 ELSE 0)
    /\ fwd' = (fwd /\ keepsFwd)

Room == mode = "reader" /\ Len(ops) < Depth
HiP == Max(pos, N)

(* ---- reader calls, canonical results ---- *)
GFixed == \E w \in Widths :
    LET fits == Avail >= w
        v == IF fits THEN Ordered(Sub(pos, w), order) ELSE Zero(w)
        p == IF fits THEN pos + w ELSE HiP
        x == IF fits THEN err ELSE "eof"
    IN /\ Room /\ ReadFixed(w, v, FALSE, p, x)
       /\ Log(Rec("Fixed", w, 0, 0, 0, 0, v, <<>>, 0, {}, p, IF fits THEN p ELSE pos, p, x), FALSE, TRUE)

GReadByte ==
    LET fits == Avail >= 1
        v == IF fits THEN Sub(pos, 1) ELSE <<0>>
        p == IF fits THEN pos + 1 ELSE HiP
        x == IF fits THEN err ELSE "eof"
        es == {e \in E3 : ReadByteOK(v, e, p, x)}
    IN /\ Room /\ es # {} /\ ReadByte(v, CHOOSE e \in es : TRUE, p, x)
       /\ Log(Rec("ReadByte", 1, 0, 0, 0, 0, v, <<>>, 0, es, p, IF fits THEN p ELSE pos, p, x), FALSE, TRUE)

GReadBytes == \E n \in {0, 2, Max(0, Avail), Max(0, Avail) + 1} :
    LET fits == Avail >= n
        b == Sub(pos, n)
        p == IF fits THEN pos + n ELSE HiP
        x == IF fits THEN err ELSE "eof"
    IN /\ Room /\ ReadBytes(n, b, p, x)
       /\ Log(Rec("ReadBytes", 0, n, 0, 0, 0, <<>>, b, 0, {}, p, IF fits THEN p ELSE pos, p, x), FALSE, TRUE)

GRead == \E k \in {0, 2, Max(0, Avail) + 1} :
    LET n == Min(k, Max(0, Avail))
        b == Sub(pos, n)
        p == pos + n
        es == {e \in E3 : ReadOK(k, n, b, e, p, err)}
    IN /\ Room /\ es # {} /\ Read(k, n, b, CHOOSE e \in es : TRUE, p, err)
       /\ Log(Rec("Read", 0, n, k, 0, 0, <<>>, b, 0, es, p, p, p, err), FALSE, TRUE)

GReadAt == \E k \in {0, 2}, off \in ({-1, 0, pos, N - 2, N - 1, N, N + 1} \cap (-1..(N + 1))) :
    LET n == IF off < 0 THEN 0 ELSE Min(k, Max(0, N - off))
        b == IF off < 0 THEN <<>> ELSE Sub(off, n)
        es == {e \in E3 : ReadAtOK(k, off, n, b, e, pos, err)}
    IN /\ Room /\ wide < MaxWide /\ es # {} /\ ReadAt(k, off, n, b, CHOOSE e \in es : TRUE, pos, err)
       /\ Log(Rec("ReadAt", 0, n, k, off, 0, <<>>, b, 0, es, pos, pos, pos, err), TRUE, k = 0 /\ off = pos)

\* all (off, whence) with target in [-1, Len+1]; canonically a target outside [0, Len] is refused and nothing moves
GSeek == \E wh \in {0, 1, 2}, t \in -1..(N + 1) :
    LET off == t - (CASE wh = 0 -> 0 [] wh = 1 -> pos [] wh = 2 -> N)
        inside == 0 <= t /\ t <= N
        p == IF inside THEN t ELSE pos
        r == IF inside THEN t ELSE 0
        es == {e \in E3 : SeekOK(off, wh, r, e, p, err)}
    IN /\ Room /\ wide < MaxWide /\ es # {} /\ Seek(off, wh, r, CHOOSE e \in es : TRUE, p, err)
       /\ Log(Rec("Seek", 0, 0, 0, off, wh, <<>>, <<>>, r, es, p, p, p, err), TRUE, p = pos)

(* ---- writer calls: the value's bytes are fresh integers 255, 254, ... (so the signed values are negative), ---- *)
(* ---- most significant first                                                                            ---- *)
GWrite == \E w \in Widths :
    LET v == [i \in 1..w |-> 255 - (N + i)]
        bs == Ordered(v, order)
    IN /\ mode = "writer" /\ Len(ops) < WDepth /\ WriteFixed(w, v, N + w, bs)
       /\ Log(Rec("Write", w, N + w, 0, 0, 0, v, bs, 0, {}, 0, 0, 0, "nil"), FALSE, TRUE)
GWriteBytes == \E k \in {0, 3} :
    LET b == [i \in 1..k |-> 255 - (N + i)]
    IN /\ mode = "writer" /\ Len(ops) < WDepth /\ WriteBytes(b, N + k, b)
       /\ Log(Rec("WriteBytes", 0, N + k, k, 0, 0, <<>>, b, 0, {}, 0, 0, 0, "nil"), FALSE, TRUE)

(* ---- bitmap writer: the buffer the property asks for at least holds the bits; canonically the shortest one ---- *)
Pack(bs) == [j \in 1..((Len(bs) + 7) \div 8) |->
               LET B(i) == IF 8 * (j - 1) + i <= Len(bs) THEN bs[8 * (j - 1) + i] ELSE 0
               IN 128 * B(1) + 64 * B(2) + 32 * B(3) + 16 * B(4) + 8 * B(5) + 4 * B(6) + 2 * B(7) + B(8)]
GBit == \E bit \in {0, 1} :
    /\ mode = "bitw" /\ Len(bits) < BitDepth /\ BitWrite(bit, Pack(Append(bits, bit)))
    /\ UNCHANGED <<ops, wide, fwd>>

Next == GFixed \/ GReadByte \/ GReadBytes \/ GRead \/ GReadAt \/ GSeek \/ GWrite \/ GWriteBytes \/ GBit
Spec == Init /\ [][Next]_gvars

(* ---- emission: one ndjson line per scenario ---- *)
IsCase == CASE mode = "reader" -> Len(ops) = Depth
            [] OTHER -> TRUE
CaseFile == IOEnv.VERIF_CASES
Scenario ==
    CASE mode = "reader" -> [kind |-> "reader", len |-> N, order |-> order, fwd |-> fwd, ops |-> ops]
      [] mode = "writer" -> [kind |-> "writer", len |-> N, order |-> order, fwd |-> TRUE, ops |-> ops, bytes |-> data]
      [] mode = "bitw"   -> [kind |-> "bitw", len |-> Len(bits), order |-> order, fwd |-> TRUE, ops |-> <<>>, bits |-> bits]
      [] OTHER           -> [kind |-> "bitr", len |-> N, order |-> order, fwd |-> TRUE, ops |-> <<>>, bytes |-> data,
                             bits |-> BitsOf(data, 8 * N)]
EmitInv == IsCase => CSVWrite("%1$s", <<ToJson(Scenario)>>, CaseFile)
GInv == Inv /\ pos <= N
=============================================================================
