SPECIFICATION Spec
CONSTANTS
  Kinds = {"reader", "writer", "bitw", "bitr"}
  Lens = {0, 1, 2, 3, 4, 5, 6, 7, 8, 9}
  Depth = 2
  MaxWide = 2
  WDepth = 3
  BitDepth = 9
INVARIANT GInv
INVARIANT EmitInv
CHECK_DEADLOCK FALSE
