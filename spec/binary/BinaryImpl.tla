---------------------------- MODULE BinaryImpl ----------------------------
(***************************************************************************)
(* Implementation-shaped specification (kind I) of parse.BinaryReader      *)
(* (binary.go, binary_unix.go): the five IBinaryReader implementations'    *)
(* Bytes(b, n, off) clamping rules, and the BinaryReader methods on top of *)
(* them, computing what the Go code computes.  TLC checks  I => P : every  *)
(* step is a step of Binary.tla (action property Refines).                 *)
(*                                                                         *)
(* The constant Fix names the repairs applied to the model; Fix = {} is    *)
(* the code as it stands.  With all of them the refinement holds (so the   *)
(* proposed one-line patches are sufficient at the level of the model);    *)
(* leaving any one out makes TLC report a violation of Refines (the        *)
(* MC_impl_no_*.cfg configurations, run with expect_violation).            *)
(*   "seekend"   Seek(off, 2) moves to Len+off            (code: Len-off)  *)
(*   "mmaple"    mmap clamps when  len-off <  n           (code: <=)       *)
(*   "mmapzero"  mmap answers nil, nil for n = 0          (code: no case)  *)
(*   "guard"     1-byte reads test len(data) < 1          (code: == nil)   *)
(*   "eofwith"   a read loop that has all n bytes ignores the io.EOF that  *)
(*               came with the last of them               (code: returns)  *)
(* Signedness is not modelled (values are byte sequences), so the missing  *)
(* sign extension of ReadInt24 is outside this module.                     *)
(***************************************************************************)
EXTENDS Integers, Sequences, FiniteSets, TLC

CONSTANTS Backends,   \* subset of {"bytes", "reader", "readereof", "seeker", "readerat", "mmap"}
          MaxLen,     \* data lengths 0..MaxLen
          MaxArg,     \* ReadBytes / Read / ReadAt sizes 0..MaxArg
          Fix         \* repairs applied, see above

VARIABLES backend, idata, ipos, ierr, iorder,
          rpos,       \* offset of the underlying stream (plain io.Reader)
          out         \* last call and its results
ivars == <<backend, idata, ipos, ierr, iorder, rpos, out>>

P == INSTANCE Binary WITH mode <- "reader", data <- idata, pos <- ipos, err <- ierr, order <- iorder,
                          bits <- <<>>, bitpos <- 0, beof <- FALSE

NN == Len(idata)
Min(a, b) == IF a < b THEN a ELSE b
Max(a, b) == IF a > b THEN a ELSE b
Iota(n) == [i \in 1..n |-> i]
Cut(off, n) == SubSeq(idata, off + 1, Min(off + n, NN))
Res(d, e, isnil) == [d |-> d, e |-> e, isnil |-> isnil]       \* returned slice, error, "the slice is nil"

(* ---- IBinaryReader.Bytes(b, n, off); withBuf: the caller passed a buffer (Read/ReadAt) ---- *)
MemBytes(n, off, withBuf) ==
    IF off < 0 \/ n < 0 THEN Res(<<>>, "other", TRUE)
    ELSE IF n = 0 THEN Res(<<>>, "nil", TRUE)
    ELSE IF NN <= off THEN Res(<<>>, "eof", TRUE)
    ELSE IF NN - off < n THEN Res(Cut(off, NN - off), "eof", FALSE)
    ELSE Res(Cut(off, n), "nil", FALSE)

MmapBytes(n, off, withBuf) ==
    IF off < 0 \/ n < 0 THEN Res(<<>>, "other", TRUE)
    ELSE IF "mmapzero" \in Fix /\ n = 0 THEN Res(<<>>, "nil", TRUE)
    ELSE IF NN <= off THEN Res(<<>>, "eof", TRUE)
    ELSE IF (IF "mmaple" \in Fix THEN NN - off < n ELSE NN - off <= n) THEN Res(Cut(off, NN - off), "eof", FALSE)
    ELSE Res(Cut(off, n), "nil", FALSE)

\* the read loops of the io.Reader / io.ReadSeeker sources, from stream offset `at`; eofWith: the source reports
\* io.EOF together with its last bytes
Loop(n, at, eofWith) ==
    LET avail == Max(0, NN - at) IN
    IF avail > n THEN Res(Cut(at, n), "nil", FALSE)
    ELSE IF avail = n THEN Res(Cut(at, n), IF eofWith /\ "eofwith" \notin Fix THEN "eof" ELSE "nil", FALSE)
    ELSE Res(Cut(at, avail), "eof", FALSE)                     \* b[:i]: never nil, even when empty

ReaderBytes(n, off, withBuf) ==
    IF off # rpos THEN Res(<<>>, "other", TRUE)
    ELSE IF n = 0 THEN Res(<<>>, "nil", TRUE)
    ELSE Loop(n, rpos, backend = "readereof")
SeekerBytes(n, off, withBuf) ==
    IF n = 0 THEN Res(<<>>, "nil", TRUE)
    ELSE IF off < 0 THEN Res(<<>>, "other", TRUE)              \* the source's Seek fails
    ELSE Loop(n, off, FALSE)
ReaderAtBytes(n, off, withBuf) ==
    IF n = 0 THEN Res(<<>>, "nil", TRUE)
    ELSE IF off < 0 THEN Res(<<>>, "other", FALSE)             \* the source's ReadAt fails: b[:0]
    ELSE Loop(n, off, FALSE)

BytesImpl(n, off, withBuf) ==
    CASE backend = "bytes"    -> MemBytes(n, off, withBuf)
      [] backend = "mmap"     -> MmapBytes(n, off, withBuf)
      [] backend \in {"reader", "readereof"} -> ReaderBytes(n, off, withBuf)
      [] backend = "seeker"   -> SeekerBytes(n, off, withBuf)
      [] backend = "readerat" -> ReaderAtBytes(n, off, withBuf)
Streams == backend \in {"reader", "readereof"}
\* the plain reader's stream advances by what a served request delivered
RposAfter(n, off, res) == IF Streams /\ off = rpos THEN rpos + Len(res.d) ELSE rpos

Init == /\ backend \in Backends /\ idata \in {Iota(n) : n \in 0..MaxLen} /\ iorder \in {"BE", "LE"}
        /\ ipos = 0 /\ ierr = "nil" /\ rpos = 0 /\ out = [op |-> "New"]

Same == UNCHANGED <<backend, idata, iorder>>
Zero(w) == [i \in 1..w |-> 0]

(* ---- BinaryReader methods ---- *)
\* ReadBytes(n): data, err := f.Bytes(nil, n, pos); pos += len(data); if r.err == nil { r.err = err }
DoReadBytes(n) == LET res == BytesImpl(n, ipos, FALSE) IN
    [res |-> res, p |-> ipos + Len(res.d), x |-> IF ierr = "nil" THEN res.e ELSE ierr, rp |-> RposAfter(n, ipos, res)]

ReadBytes == \E n \in 0..MaxArg : LET r == DoReadBytes(n) IN
    /\ ipos' = r.p /\ ierr' = r.x /\ rpos' = r.rp /\ Same
    /\ out' = [op |-> "ReadBytes", n |-> n, b |-> r.res.d, p |-> r.p, x |-> r.x]

\* ReadUint8: `if data == nil { return 0 }; return data[0]`  -- indexing an empty non-nil slice is the Go panic;
\* the wider reads test `len(data) < w`
ReadFixed == \E w \in {1, 2, 3, 4, 8} : LET r == DoReadBytes(w) IN
    /\ ipos' = r.p /\ ierr' = r.x /\ rpos' = r.rp /\ Same
    /\ out' = [op |-> "ReadFixed", w |-> w, p |-> r.p, x |-> r.x,
               panic |-> (w = 1 /\ "guard" \notin Fix /\ ~r.res.isnil /\ Len(r.res.d) = 0),
               v |-> IF w = 1 /\ "guard" \notin Fix
                     THEN (IF r.res.isnil \/ Len(r.res.d) = 0 THEN Zero(1) ELSE r.res.d)
                     ELSE (IF Len(r.res.d) < w THEN Zero(w) ELSE P!Ordered(r.res.d, iorder))]

\* Read(b): data, err := f.Bytes(b, len(b), pos); pos += len(data); return len(data), err
Read == \E k \in 0..MaxArg : LET res == BytesImpl(k, ipos, TRUE) IN
    /\ ipos' = ipos + Len(res.d) /\ rpos' = RposAfter(k, ipos, res) /\ UNCHANGED ierr /\ Same
    /\ out' = [op |-> "Read", k |-> k, n |-> Len(res.d), b |-> res.d, e |-> res.e, p |-> ipos + Len(res.d), x |-> ierr]

\* ReadAt(b, off): data, err := f.Bytes(b, len(b), off); a forward-only source is not asked (see C19.py, assumptions)
ReadAt == \E k \in 0..MaxArg, off \in -1..(NN + 1) : LET res == BytesImpl(k, off, TRUE) IN
    /\ ~Streams
    /\ UNCHANGED <<ipos, ierr, rpos>> /\ Same
    /\ out' = [op |-> "ReadAt", k |-> k, off |-> off, n |-> Len(res.d), b |-> res.d, e |-> res.e, p |-> ipos, x |-> ierr]

SeekImpl(off, wh) ==
    CASE wh = 0 -> IF off < 0 \/ NN < off THEN [r |-> 0, e |-> "other", p |-> ipos] ELSE [r |-> off, e |-> "nil", p |-> off]
      [] wh = 1 -> IF ipos + off < 0 \/ NN < ipos + off THEN [r |-> 0, e |-> "other", p |-> ipos]
                   ELSE [r |-> ipos + off, e |-> "nil", p |-> ipos + off]
      [] wh = 2 -> IF "seekend" \in Fix
                   THEN (IF off < -NN \/ 0 < off THEN [r |-> 0, e |-> "other", p |-> ipos]
                         ELSE [r |-> NN + off, e |-> "nil", p |-> NN + off])
                   ELSE (IF off < -NN \/ 0 < off THEN [r |-> 0, e |-> "other", p |-> ipos]
                         ELSE [r |-> NN - off, e |-> "nil", p |-> NN - off])
\* a forward-only source is only asked to stay where it is, or given a target outside [0, Len]
Seek == \E wh \in {0, 1, 2}, t \in -1..(NN + 1) :
    LET off == t - (CASE wh = 0 -> 0 [] wh = 1 -> ipos [] wh = 2 -> NN)
        s == SeekImpl(off, wh) IN
    /\ (Streams => (t = ipos \/ t < 0 \/ t > NN))
    /\ ipos' = s.p /\ UNCHANGED <<ierr, rpos>> /\ Same
    /\ out' = [op |-> "Seek", off |-> off, wh |-> wh, r |-> s.r, e |-> s.e, p |-> s.p, x |-> ierr]

Pos   == out' = [op |-> "Pos", r |-> ipos]      /\ UNCHANGED <<ipos, ierr, rpos>> /\ Same
LenOp == out' = [op |-> "Len", r |-> NN - ipos] /\ UNCHANGED <<ipos, ierr, rpos>> /\ Same
ErrOp == out' = [op |-> "Err", e |-> ierr]      /\ UNCHANGED <<ipos, ierr, rpos>> /\ Same

\* the model stops at a state the property has already rejected (position beyond the end after the Seek defect)
Live == ipos <= NN /\ ierr \in {"nil", "eof"}
Next == Live /\ (ReadBytes \/ ReadFixed \/ Read \/ ReadAt \/ Seek \/ Pos \/ LenOp \/ ErrOp)
Spec == Init /\ [][Next]_ivars

(* ---- I => P ---- *)
o == out'
PStep ==
    CASE o.op = "ReadBytes" -> P!ReadBytes(o.n, o.b, o.p, o.x)
      [] o.op = "ReadFixed" -> ~o.panic /\ P!ReadFixed(o.w, o.v, FALSE, o.p, o.x)
      [] o.op = "Read"      -> P!Read(o.k, o.n, o.b, o.e, o.p, o.x)
      [] o.op = "ReadAt"    -> P!ReadAt(o.k, o.off, o.n, o.b, o.e, o.p, o.x)
      [] o.op = "Seek"      -> P!Seek(o.off, o.wh, o.r, o.e, o.p, o.x)
      [] o.op = "Pos"       -> P!PosOp(o.r)
      [] o.op = "Len"       -> P!LenOp(o.r)
      [] o.op = "Err"       -> P!ErrOp(o.e)
      [] OTHER              -> FALSE
Refines == [][PStep]_ivars

\* out is an output-only variable
View == <<backend, idata, ipos, ierr, iorder, rpos>>
=============================================================================
