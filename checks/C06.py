"""C06 - JS tokens follow the ECMAScript lexical grammar.

P  spec/js/JsTokens.tla        vocabulary (atoms per ECMA-262 clause 12), NeedsSep / MergesStrict (longest match and follow
                               restrictions), bracket context of '}', acceptance predicates (TokenInv, Matches)
G  spec/js/JsTokensGen.tla     token sequences with separator choices: all pairs x six separators, pairs inside a template
                               substitution, triples, every trivia sequence, regular-expression bodies; -simulate for long sequences
T  spec/js/JsTokensTrace.tla   judges the traces of harness/suites/jstok (js.Lexer.Next / RegExp)
I  spec/js/JsLexImpl.tla       the lexer automaton over a class alphabet: TLC I => P on every class string, differential replay
                               (checks/c06impl.py; a difference is MODEL-DRIFT, a verdict only from JsTokensTrace.tla: where the
                               first differing report is one the model flags as prescribed - det, TLC-checked by DetSound - the
                               trace carries the model's tokens as its expectation and is judged like a generator case)
"""
import json
import os

TRIVIA = ("Whitespace", "LineTerminator", "Comment", "CommentLineTerminator")


def text_of(inp, lo=None, hi=None):
    b = bytes(inp if lo is None else inp[lo:hi])
    try:
        return b.decode("utf-8")
    except Exception:
        return repr(b)


def ctx_class(unit, kind):
    """Neighbours are named by class in a signature (punctuators by spelling: they are what longest match depends on)."""
    if unit in ("^", "$"):
        return unit
    if kind in TRIVIA:
        return {"Whitespace": "ws", "LineTerminator": "lt"}.get(kind, "cmt")
    first = unit.split("+")[0]
    if first.startswith("p."):
        return first
    if first.startswith("re."):
        return "re"
    if first.startswith("tmpl."):
        return ".".join(first.split(".")[:2])
    return first.split(".")[0]


def classify(f):
    """(context, construct, what differs, event) for a rejected event; judge() turns them into a signature."""
    tr = f["trace"]
    o = tr[0]
    ev = next((x for x in tr if x["i"] == f["i"]), {})
    idx = f["i"] - 1                      # 0-based index of the report
    units = o.get("units") or []
    ek = o.get("ek") or []
    here = units[idx] if idx < len(units) else "$"
    if here.startswith("re.open"):
        # a regular-expression unit is named by the set of body atoms it is made of
        parts = here.split("+")
        here = "re:%s(%s)" % ("/=" if parts[0] == "re.open.eq" else "/", ",".join(sorted({x[3:] for x in parts[1:] if x not in ("re.close", "re.flags")})))
    prev = ctx_class(units[idx - 1], ek[idx - 1]) if 0 < idx <= len(units) else "^"
    impl = o.get("plan") == "impl" and not o.get("free")      # see below
    if ev.get("out") != "ret":
        return ("", "impl", "%s|panic" % (ek[idx] if idx < len(ek) else "$"), ev) if impl else (prev, here, "panic", ev)
    # all-input invariants first
    if ev.get("cls") in ("kw", "punct", "op") and ev.get("text") != ev.get("canon"):
        return "", "canonical-spelling", "%s" % ev.get("kname"), ev
    if ev.get("kname") in ("Comment", "CommentLineTerminator"):
        b = bytes(ev.get("text") or [])
        has = any(x in b for x in (b"\n", b"\r", b"\xe2\x80\xa8", b"\xe2\x80\xa9"))
        if has != (ev["kname"] == "CommentLineTerminator"):
            return "", "comment-line-terminator", "%s-%s-one" % (ev["kname"], "with" if has else "without"), ev
    if o.get("free"):
        return "", "free", "unexplained", ev
    if impl:
        # differential replay of JsLexImpl.tla: the expectation is the model's reports up to the first one that differs, which the
        # model flags as prescribed (det).  The signature names the prescribed kind and what the lexer reported in its place.
        want = ek[idx] if idx < len(ek) else "$"
        if ev.get("err"):
            msg = (ev.get("etext") or "").split(" on line")[0]
            if msg.startswith("unexpected ") and not msg.startswith(("unexpected EOF", "unexpected identifier")):
                msg = "unexpected character"          # "unexpected <rune>": one mechanism, whatever the rune
            got = "end-of-input" if ev.get("eof") else "error:" + msg.replace(" ", "-")[:40]
        elif idx >= len(ek) or ev.get("kname") != want:
            got = "%s" % ev.get("kname")
        elif ev.get("lo") != o["elo"][idx]:
            got = "%s:misplaced" % want
        elif ev.get("hi") != o["ehi"][idx]:
            got = "%s:%s" % (want, "longer" if ev.get("hi") > o["ehi"][idx] else "shorter")
        elif ev.get("pre") != o["epre"][idx]:
            got = "%s:before-RegExp:%s-expected-%s" % (want, ev.get("pre") or "none", o["epre"][idx] or "none")
        else:
            got = "%s:text-not-the-input-bytes" % want
        return "", "impl", "%s|%s" % (want, got), ev
    if idx >= len(ek):
        return prev, "$", ("extra-token:%s" % ev.get("kname") if not ev.get("err") else "error-instead-of-end"), ev
    if ek[idx] in ("Whitespace", "LineTerminator"):
        here = here.split(".")[0] + "." + here.split(".")[1]
    if ev.get("err"):
        what = "end-of-input" if ev.get("eof") else "error:" + (ev.get("etext") or "").split(" on line")[0].replace(" ", "-")[:40]
    elif ev.get("pre") != o["epre"][idx]:
        what = "before-RegExp:%s-expected-%s" % (ev.get("pre") or "none", o["epre"][idx] or "none")
    elif ev.get("lo") == o["elo"][idx] and ev.get("hi") == o["ehi"][idx]:
        what = "kind:%s-expected-%s" % (ev.get("kname"), ek[idx]) if ev.get("kname") != ek[idx] else "text-not-the-input-bytes"
    elif ev.get("lo") == o["elo"][idx] and ev.get("hi") > o["ehi"][idx]:
        nxt = ctx_class(units[idx + 1], ek[idx + 1]) if idx + 1 < len(units) else "$"
        what = "merged-with-next:%s:%s" % (nxt, ev.get("kname"))
    elif ev.get("lo") == o["elo"][idx]:
        what = "split:%s" % ev.get("kname")
    else:
        what = "misplaced:%s" % ev.get("kname")
    return prev, here, what, ev


def signatures(fails):
    """jstok/<context>|<construct>/<what differs>; the context (class of the preceding unit) is '*' when the same
    construct fails in the same way after three or more different contexts (the context is then not the mechanism)."""
    cl = [classify(f) for f in fails]
    ctxs = {}
    for prev, here, what, _ in cl:
        ctxs.setdefault((here, what), set()).add(prev)
    out = []
    for prev, here, what, ev in cl:
        if prev == "":
            out.append(("jstok/%s/%s" % (here, what), ev))
        else:
            out.append(("jstok/%s|%s/%s" % ("*" if len(ctxs[(here, what)]) >= 3 else prev, here, what), ev))
    return out


def open_record(o):
    return {k: o.get(k) for k in ("input", "ek", "elo", "ehi", "epre", "free", "prefix", "units", "plan")}


def rerun(ck, records):
    """Re-drive recorded inputs with their expectations; returns the set of 1-based record numbers rejected again."""
    p = ck.path("rerun-in.ndjson")
    with open(p, "w") as f:
        for r in records:
            f.write(json.dumps(r) + "\n")
    ck.drive("jstok", "file", "-in", p, "-out", ck.path("rerun.ndjson"))
    again = ck.validate("js", "JsTokensTrace", "JsTokensTrace.cfg", ck.path("rerun.ndjson"), shards=1)
    ck.cov["traces_validated_against_impl"] -= len(records)
    return {f["t"] for f in again}


def judge(ck, fails, origin):
    first = {}
    for f, (sig, ev) in zip(fails, signatures(fails)):
        if sig in ck.violations or sig in ck.known_hits:
            ck.violation(sig, "", {})
            continue
        if sig in first:
            first[sig]["n"] += 1
            continue
        first[sig] = {"f": f, "ev": ev, "n": 1}
    if not first:
        return
    sigs = sorted(first)
    bad = rerun(ck, [open_record(first[s]["f"]["trace"][0]) for s in sigs])
    for k, s in enumerate(sigs):
        if (k + 1) not in bad:
            ck.fatal("rejected trace did not reproduce: %s" % s)
        f, ev = first[s]["f"], first[s]["ev"]
        o = f["trace"][0]
        obs = [{"kind": x.get("kname"), "text": text_of(o["input"], x.get("lo"), x.get("hi")), "err": x.get("etext")} for x in f["trace"][1:f["i"] + 1]][-4:]
        exp = [{"kind": k_, "text": text_of(o["input"], lo, hi)} for k_, lo, hi in zip(o["ek"], o["elo"], o["ehi"])]
        if o.get("plan") == "impl" and not o.get("free") and s.startswith("jstok/impl/"):
            want = "spec/js/JsLexImpl.tla flags report %d as PRESCRIBED by JsTokens.tla / ECMA-262 clause 12 (det, checked by TLC: DetSound) and all reports before it agree: expected %s (classes %s)" % (
                f["i"], json.dumps(exp[f["i"] - 1] if f["i"] - 1 < len(exp) else "end of input", ensure_ascii=False), o.get("units"))
        elif o.get("free") or s.count("/") == 2 and "|" not in s:
            want = "TokenInv of JsTokens.tla (canonical spelling of keyword/punctuator/operator types; CommentLineTerminator iff the comment has a line terminator)"
        else:
            want = "JsTokens.tla expects %s (units %s)" % (
                json.dumps(exp[f["i"] - 1] if f["i"] - 1 < len(exp) else "end of input", ensure_ascii=False), o.get("units"))
        what = "js.Lexer on %s: report %d is %s (canonical %s); %s" % (
            json.dumps(text_of(o["input"])), f["i"], json.dumps(obs[-1], ensure_ascii=False), json.dumps(text_of(ev.get("canon") or [])), want)
        ck.violation(s, what, {"suite": "jstok", "origin": origin, **open_record(o), "input_text": text_of(o["input"]),
                               "expected": exp, "observed_tail": obs, "rejected_event_index": f["i"],
                               "how": "bin/check C06 --replay <this file> lexes the input again (RegExp() at the marked offsets) and validates "
                                      "the trace with spec/js/JsTokensTrace.tla"})
        for _ in range(first[s]["n"] - 1):
            ck.violation(s, "", {})


def selftest(ck, tp):
    """Binding of the trace spec: a trace with one corrupted kind and a trace with its last report dropped must both be rejected."""
    traces, cur = [], None
    for line in open(tp):
        e = json.loads(line)
        if e["i"] == 0:
            if len(traces) == 2:
                break
            cur = None
            if not e.get("free") and len(e.get("ek") or []) >= 2:
                cur = [e]
                traces.append(cur)
        elif cur is not None:
            cur.append(e)
    if len(traces) < 2:
        ck.fatal("selftest: no traces to corrupt")
    a, b = traces
    a[1]["kname"] = "Identifier" if a[1]["kname"] != "Identifier" else "String"
    a[1]["cls"] = ""
    del b[-2]                      # the end-of-input report; the End event then comes one report early
    for k, t in enumerate((a, b)):
        for e in t:
            e["t"] = k + 1
    sp = ck.path("selftest.ndjson")
    with open(sp, "w") as f:
        for t in (a, b):
            for e in t:
                f.write(json.dumps(e) + "\n")
    rej = {x["t"] for x in ck.validate("js", "JsTokensTrace", "JsTokensTrace.cfg", sp, shards=1)}
    ck.cov["traces_validated_against_impl"] -= 2
    if rej != {1, 2}:
        ck.fatal("selftest: JsTokensTrace accepted a corrupted token kind or a dropped report (rejected: %s)" % sorted(rej))


def group(ck, name, plans, used_all, selftest_here=False):
    """TLC generates every plan of the group; the cases are replayed in one harness run and judged in one validation."""
    allc = ck.path("cases-%s.ndjson" % name)
    total = 0
    with open(allc, "w") as out:
        for plan, cfg, variants, tlckw in plans:
            cases = ck.path("cases-%s.ndjson" % plan)
            r = ck.tlc("js", "JsTokensGen", cfg, label="generator: " + plan, env={"VERIF_CASES": cases}, timeout=900, **{"workers": 4, **tlckw})
            if not os.path.exists(cases):
                ck.fatal("generator %s wrote no cases" % plan)
            n = 0
            for line in open(cases):
                out.write(line)
                n += 1
            if n < 2:
                ck.fatal("generator %s produced no cases" % plan)
            if r.distinct and n > r.distinct + 1:
                ck.fatal("more cases than states in %s" % plan)
            ck.cov.setdefault("cases_by_plan", {})[plan] = n - 1
            total += n - 1
            os.remove(cases)
    tp = ck.path("trace-%s.ndjson" % name)
    double = ",".join(pl for pl, _, v, _ in plans if v == 2) or "-"
    s = ck.drive("jstok", "replay", "-cases", allc, "-out", tp, "-seed", ck.seed, "-double", double, "-mutevery", 25, timeout=900)
    if s["cases"] != total:
        ck.fatal("group %s: %d cases generated, %d replayed" % (name, total, s["cases"]))
    vocab = s.get("vocab")        # the vocabulary line TLC wrote, and how often each atom occurs in the cases
    if not vocab:
        ck.fatal("generators of group %s did not emit the vocabulary" % name)
    for a, n in (s.get("used") or {}).items():
        used_all[a] = used_all.get(a, 0) + n
    ck.cov["evaluations"] += s["executions"] + s["free_executions"]
    ck.cov["distinct_nontrivial"] += s["distinct_nontrivial"]
    ck.cov["samples"] += (s.get("samples") or [])[:2]
    judge(ck, ck.validate("js", "JsTokensTrace", "JsTokensTrace.cfg", tp, timeout=900), name)
    if selftest_here:
        selftest(ck, tp)
    os.remove(tp)
    os.remove(allc)
    return vocab


def run(ck):
    thorough = ck.tier == "thorough"
    used, vocab = {}, None
    sim = {"simulate": 20000, "depth": 40, "seed": ck.seed, "workers": 1}     # TLC's simulation workers share the seed: one worker
    if thorough:
        groups = [("g1", [("pairs", "Gen_pairs.cfg", 2, {}), ("seps_t", "Gen_seps_t.cfg", 2, {}), ("edges", "Gen_edges.cfg", 2, {}),
                          ("regexp_t", "Gen_regexp_t.cfg", 1, {})]),
                  ("g2", [("ctxpairs_t", "Gen_ctxpairs_t.cfg", 1, {})]),
                  ("g3", [("triples_t", "Gen_triples_t.cfg", 1, {})]),
                  ("g4", [("nest_t", "Gen_nest_t.cfg", 1, {})])]
    else:
        groups = [("g1", [("pairs", "Gen_pairs.cfg", 1, {}), ("ctxpairs", "Gen_ctxpairs.cfg", 2, {}), ("triples", "Gen_triples.cfg", 1, {}),
                          ("seps", "Gen_seps.cfg", 2, {}), ("edges", "Gen_edges.cfg", 2, {}), ("regexp", "Gen_regexp.cfg", 1, {}),
                          ("nest", "Gen_nest.cfg", 1, {})])]
    for k, (name, plans) in enumerate(groups):
        vocab = group(ck, name, plans, used, selftest_here=(k == 0))
    # vacuity: every atom of the vocabulary occurs in some exhaustively enumerated case
    missing = sorted(set(vocab) - set(used))
    if missing:
        ck.fatal("atoms of JsTokens.tla never used by the generators: %s" % missing)
    ck.cov["atoms"] = len(vocab)
    ck.cov["least_used_atoms"] = sorted(used.items(), key=lambda x: (x[1], x[0]))[:5]
    ck.cov["exhaustive"] = True
    if thorough:
        group(ck, "g5", [("seq", "Gen_seq.cfg", 2, sim)], used)
        ck.cov["exhaustive"] = "all plans but seq (simulation: 20000 behaviours of 12 units, cases at 4, 8, 12)"
    plans_run = [pl for _, ps in groups for pl, _, _, _ in ps] + (["seq"] if thorough else [])
    ck.cov["constants"] = {"MaxNest": 3, "MaxBody": 3 if thorough else 2, "MaxLen (seq)": 12, "MaxLen (nest)": 6 if thorough else 5, "plans": plans_run}
    ck.cov["rule"] = ("a case is a sequence of units (atoms of JsTokens.tla, one token each) that TLC derived with a separator choice at every "
                      "boundary, allowed by NeedsSep/MergesStrict and the bracket context; spelled by seed (keyword and punctuator atoms have one "
                      "spelling); pairs: every two significant units x {none when safe, space, tab, LF, U+2028, comment}; ctxpairs: inside `${ }; "
                      "triples over a reduced set; seps/edges: every whitespace, line terminator and comment form between, before and after units; "
                      "regexp: every body of up to MaxBody atoms after '/' and '/='; nest: every sequence of template pieces, braces, parentheses, an identifier up to MaxLen; every 25th case also mutated (valid UTF-8 only) and judged by the "
                      "all-input invariants alone. non-trivial = distinct concretised case with at least two significant units.")
    ck.assumptions += ["Integer/Decimal/Hexadecimal/Octal/Binary are read as the obvious classes of NumericLiteral (see JsTokens.tla)",
                       "inside a template substitution ( ) { } are balanced; at top level they are free; goal symbol InputElementDiv elsewhere",
                       "two whitespace atoms or two line terminators are never adjacent (token granularity of trivia runs is not fixed by the statement)",
                       "'<!--' and '-->' (Annex B HTML-like comments) are never formed by adjacent tokens; legacy octal forms are not generated",
                       "valid UTF-8 inputs only"]
    import c06impl
    c06impl.run(ck, thorough)       # design level: the lexer automaton (spec/js/JsLexImpl.tla) refines the property-level specs; differential replay


def replay(ck, path):
    obj = json.load(open(path))
    ck.cov["samples"] = [{"input": obj.get("input_text")}]
    ck.cov["evaluations"] = 1
    if rerun(ck, [open_record(obj)]):
        ck.violation(obj["sig"], obj.get("what", "replayed input rejected again"), open_record(obj))
