"""C18 - Walk visits every node of the tree once with balanced Enter/Exit.

P  spec/js/Walk.tla        allowed Enter/Exit sequences on a given tree under a given policy (stack machine)
I  spec/js/WalkImpl.tla    the recursive traversal over every tree <= NN nodes x every policy; TLC: I => P; models of a forgotten
                           child and of an early Exit are rejected
T  spec/js/WalkTrace.tla   Enter/Exit sequences recorded from js.Walk on trees from js.Parse, ground truth by reflection
"""
import json
import os


def classify(f):
    tr = f["trace"]
    ev = next((x for x in tr if x["i"] == f["i"]), {})
    o = tr[0]
    if ev.get("out") != "ret":
        return "walk/panic", ev, ""
    kinds = {x["id"]: x.get("kind") for x in tr if x.get("ev") == "Enter"}
    par = o["par"]

    def anc(n):
        r = []
        while n > 0 and par[n - 1] != 0:
            n = par[n - 1]
            r.append(n)
        return r
    if ev["ev"] == "Enter":
        if ev["id"] < 0:
            return "walk/enter-node-not-in-tree/%s" % ev.get("kind"), ev, ""
        seen = [x for x in tr if x["i"] < f["i"] and x.get("ev") == "Enter" and x["id"] == ev["id"]]
        return "walk/enter-%s/%s" % ("twice" if seen else "out-of-place", ev.get("kind")), ev, ""
    if ev["ev"] == "Exit":
        return "walk/exit-unbalanced/%s" % kinds.get(ev.get("id"), "unknown"), ev, ""
    if ev["ev"] == "Done":
        entered = {x["id"] for x in tr if x.get("ev") == "Enter"}
        stopped = {x["id"] for x in tr if x.get("ev") == "Enter" and not x["cont"]}
        opened = len([x for x in tr if x.get("ev") == "Enter" and x["cont"]]) - len([x for x in tr if x.get("ev") == "Exit"])
        if opened != 0:
            return "walk/exit-missing", ev, ""
        for r in o["req"]:
            if r not in entered and not (set(anc(r)) & stopped):
                chain = [kinds.get(a, "?") for a in anc(r)]
                return "walk/required-node-not-entered/under-%s" % (chain[0] if chain else "?"), ev, "node %d under %s" % (r, "<".join(chain[:3]))
    return "walk/rejected", ev, ""


def reproduce(ck, src):
    p = ck.path("rerun-in.ndjson")
    with open(p, "w") as f:
        f.write(json.dumps({"input": src}) + "\n")
    ck.drive("walk", "file", "-in", p, "-out", ck.path("rerun.ndjson"), "-seed", ck.seed)
    again = ck.validate("js", "WalkTrace", "WalkTrace.cfg", ck.path("rerun.ndjson"), shards=1)
    ck.cov["traces_validated_against_impl"] -= 3
    return bool(again)


def judge(ck, fails):
    for f in fails:
        sig, ev, note = classify(f)
        if sig in ck.violations or sig in ck.known_hits:
            ck.violation(sig, "", {})
            continue
        src = f["trace"][0]["src"]
        if not reproduce(ck, src):
            ck.fatal("rejected trace did not reproduce: %s" % sig)
        ck.violation(sig, "js.Walk on %s (policy %s): %s %s rejected by Walk.tla" % (
            json.dumps(bytes(src).decode("utf-8", "replace")), f["trace"][0].get("policy"), json.dumps(ev), note),
            {"suite": "walk", "input": src, "policy": f["trace"][0].get("policy"), "trace": f["trace"][: f["i"] + 1][-30:], "rejected_event_index": f["i"],
             "how": "bin/check C18 --replay <this file> parses the program again, rebuilds the tree by reflection, walks it and validates with spec/js/WalkTrace.tla"})


def run(ck):
    thorough = ck.tier == "thorough"
    ck.tlc("js", "WalkImpl", "WalkImpl_ok6.cfg" if thorough else "WalkImpl_ok.cfg", label="I=>P: recursive Walk on every tree x every policy", timeout=900)
    ck.tlc("js", "WalkImpl", "WalkImpl_forget.cfg", label="model with a forgotten child is rejected by P", expect_violation="Refines")
    ck.tlc("js", "WalkImpl", "WalkImpl_early.cfg", label="model with an early Exit is rejected by P", expect_violation="Refines")
    ck.cov["exhaustive"] = True
    ck.cov["constants"] = {"NN": 6 if thorough else 5}
    # thorough: one tree of 2100 levels (700 nested calls; the parser's limits count grammar nesting, not tree levels), walked
    # under the descend-everywhere policy only: validating its trace takes about three minutes
    extra = ["-deep", 700] if thorough else []
    s = ck.drive("walk", "record", "-out", ck.path("walk.ndjson"), "-seed", ck.seed, "-harvest", 3000 if thorough else 500,
                 "-combos", 3000 if thorough else 400, *extra, timeout=3000)
    if s["programs_accepted"] < 50:
        ck.fatal("too few programs accepted by js.Parse: %s" % s)
    ck.cov["evaluations"] = s["executions"]
    ck.cov["distinct_nontrivial"] = s["distinct_nontrivial"]
    ck.cov["samples"] = (s.get("samples") or [])[:3]
    ck.cov["node_kinds_seen"] = sorted(s.get("node_kinds_seen") or [])
    ck.cov["rule"] = ("programs: a fixed list of snippets covering every node kind, the string literals of the repository's js tests that js.Parse accepts, "
                      "and seeded combinations; each tree walked under three policies (descend everywhere; stop at a seeded random subset; stop at "
                      "identifiers and literals). non-trivial = distinct accepted program with more than 8 nodes.")
    judge(ck, ck.validate("js", "WalkTrace", "WalkTrace.cfg", ck.path("walk.ndjson"), timeout=3000))
    ck.assumptions += ["ground truth = struct fields, slices, pointers and interfaces of the AST reached by reflection, excluding Scope tables, VarDecl.Scope and Var.Link",
                       "a node is identified by its slot (parent, position): by address and type, or by content where Walk hands over a copy or a value",
                       "required = implements IStmt/IExpr/IBinding or is a *Var, and is not an all-zero placeholder struct"]


def replay(ck, path):
    obj = json.load(open(path))
    ck.cov["samples"] = [{"input": obj["input"]}]
    ck.cov["evaluations"] = 1
    if reproduce(ck, obj["input"]):
        ck.violation(obj["sig"], obj.get("what", "replayed program rejected again"), {"input": obj["input"]})
