"""C04 - Identifier resolution in the JS tree follows ECMAScript scoping.

G+P  spec/js/ScopeSem.tla    programs as sequences of scope constructs and items; the ECMAScript resolution function (which binding every
                             identifier occurrence denotes) is defined in TLA+; TLC enumerates all programs up to a size and samples larger ones
T    spec/js/ScopeTrace.tla  the partition observed on the tree js.Parse returns (via fresh names + printing), after re-parsing, and Uses
"""
import json
import os
import re


def iso(a, b):
    return len(a) == len(b) and all((x < 0) == (y < 0) and (x >= 0 or x == y) for x, y in zip(a, b)) and \
        all((a[i] == a[j]) == (b[i] == b[j]) for i in range(len(a)) for j in range(i))


def classify(f):
    tr = f["trace"]
    ev = next((x for x in tr if x["i"] == f["i"]), {})
    o = tr[0]
    src = bytes(o["src"]).decode("utf-8", "replace")
    if ev.get("out") != "ret":
        return "scope/%s/panic" % ev.get("ev"), ev, src
    if ev["ev"] == "Parse":
        return ("scope/lexical-redeclaration-accepted" if o["verdict"] == "rejected" else "scope/valid-program-rejected") + ("/WhileToFor" if ev.get("w2f") else ""), ev, src
    exp, obs = o["exp"], ev.get("obs", [])
    if ev["ev"] == "Vars" and iso(exp, obs) and ev.get("keys") != ev.get("xkeys"):
        return "scope/property-key-changed-by-renaming", ev, src
    if ev["ev"] == "Vars" and iso(exp, obs):
        return "scope/uses-count-differs-from-printed-occurrences", ev, src
    if ev["ev"] == "Reparse" and not ev.get("ok"):
        return "scope/renamed-program-does-not-parse", ev, src
    feat = None
    kinds, names = o.get("kinds") or [], o.get("names") or []
    if len(exp) == len(obs) == len(kinds):
        decl_kinds = ("decl-var", "decl-let", "decl-const", "fnname", "fxname", "cxname", "clsname", "param", "forlet", "forvar", "catch")
        pair = next(((i, j) for i in range(len(exp)) for j in range(i) if (exp[i] == exp[j]) != (obs[i] == obs[j])), None)
        if pair is None:
            pair = next(((i, i) for i in range(len(exp)) if (exp[i] < 0) != (obs[i] < 0) or (exp[i] < 0 and exp[i] != obs[i])), (0, 0))
        i = pair[0] if kinds[pair[0]] not in decl_kinds or kinds[pair[1]] in decl_kinds else pair[1]
        role = "use" if kinds[i] == "use" else kinds[i]
        want = next((kinds[k] for k in range(len(exp)) if k != i and exp[k] == exp[i] and kinds[k] in decl_kinds), "free" if exp[i] < 0 else "nothing-else")
        got = next((kinds[k] for k in range(len(obs)) if k != i and obs[k] == obs[i] and kinds[k] in decl_kinds), None)
        if got is None:
            got = "free" if obs[i] < 0 else "a-var-of-its-own"
            if obs[i] < 0 and any(kinds[k] == "default" and names[k] == names[i] and k < i for k in range(len(obs))):
                got += "+same-name-in-an-earlier-parameter-default"
        ctx = sorted(set((o.get("ctx") or [[]] * len(exp))[i]))
        lexwant = want in ("decl-let", "decl-const", "clsname")
        if lexwant and "forvar-same-name" in ctx:
            role = "use/ctx:in-body-of-for-var-loop-declaring-the-name"
        elif lexwant and "loopcond-same-name" in ctx:
            role = "use/ctx:in-body-of-a-loop-whose-condition-mentions-the-name"
        elif "default-same-name" in ctx and want not in ("cxname", "param"):
            role = "use/ctx:name-also-in-a-parameter-default-of-an-enclosing-function"
        feat = "%s/expected:%s/observed:%s%s" % (role, want, got, "/after-reparse" if ev["ev"] == "Reparse" and iso(exp, next((x.get("obs") for x in tr if x.get("ev") == "Vars"), [])) else "")
    if feat is None:
        feat = "partition-differs"
    return "scope/" + feat, ev, src


def later_defaults(f):
    """Further signatures of a rejected program: every parameter default that names an EARLIER parameter of its function and does
    not share that parameter's Var (the first differing pair alone would name only the first defect of the program)."""
    tr = f["trace"]
    o, ev = tr[0], tr[f["i"]]
    exp, obs, kinds = o.get("exp") or [], ev.get("obs") or [], o.get("kinds") or []
    out = []
    if ev.get("out") == "ret" and ev["ev"] in ("Vars", "Reparse") and len(exp) == len(obs) == len(kinds):
        for i in range(len(exp)):
            if kinds[i] == "default" and any(kinds[k] == "param" and exp[k] == exp[i] and obs[k] != obs[i] for k in range(i)):
                out.append("scope/default-after-its-parameter/expected:param/observed:%s" % ("free" if obs[i] < 0 else "another-var"))
    return out


def judge(ck, fails):
    for f in fails:
        sig, ev, src = classify(f)
        for extra in later_defaults(f):
            if extra not in ck.violations and extra not in ck.known_hits:
                ck.violation(extra, "js.Parse on %s: a parameter default naming an earlier parameter is not bound to it; expected partition %s, observed %s" % (
                    json.dumps(src), f["trace"][0]["exp"], ev.get("obs")),
                    {"suite": "scope", "src": src, "trace": f["trace"][: f["i"] + 1], "rejected_event_index": f["i"],
                     "how": "bin/check C04 re-generates and re-runs the programs; this program is in 'src'"})
        if sig in ck.violations or sig in ck.known_hits:
            ck.violation(sig, "", {})
            continue
        # js.Parse is a deterministic function of the source text: the recorded trace is the reproduction
        ck.violation(sig, "js.Parse on %s: expected partition %s, event %s rejected by ScopeTrace.tla" % (
            json.dumps(src), f["trace"][0]["exp"], json.dumps({k: v for k, v in ev.items() if k not in ("text", "t")})[:300]),
            {"suite": "scope", "src": src, "trace": f["trace"][: f["i"] + 1], "rejected_event_index": f["i"],
             "how": "bin/check C04 re-generates and re-runs the programs; this program is in 'src'"})


def run(ck):
    thorough = ck.tier == "thorough"
    cases = ck.path("cases.ndjson")
    ck.tlc("js", "ScopeSem", "ScopeSem_thorough.cfg" if thorough else "ScopeSem_quick.cfg",
           label="generator + ECMAScript resolution oracle (exhaustive)", env={"VERIF_CASES": cases}, timeout=3000, heap="12g")
    ck.cov["exhaustive"] = True
    ck.cov["constants"] = {"Names": ["a", "b"], "MaxItems": 5 if thorough else 4, "MaxDepth": 2,
                           "simulate": {"Names": ["a", "b", "c"], "MaxItems": 9, "MaxDepth": 4}}
    sim = ck.path("cases-sim.ndjson")
    ck.tlc("js", "ScopeSem", "ScopeSem_sim.cfg", label="generator: random deep programs (-simulate)", env={"VERIF_CASES": sim}, timeout=3000,
           simulate=60000 if thorough else 6000, depth=12, seed=ck.seed, workers=1, count=False)
    with open(cases, "a") as out:
        out.write(open(sim).read())
    s = ck.drive("scope", "replay", "-cases", cases, "-out", ck.path("scope.ndjson"), "-sample", 200 if thorough else 40,
                 "-inputs", ck.path("programs.ndjson"), timeout=3000)
    if s["cases"] == 0:
        ck.fatal("generator produced no programs")
    ck.log("%d programs, %d differ from the oracle (decided by ScopeTrace.tla)" % (s["cases"], s["mismatches"]))
    ck.cov["evaluations"] = s["executions"]
    ck.cov["distinct_nontrivial"] = s["distinct_nontrivial"]
    ck.cov["samples"] = (s.get("samples") or [])[:3]
    ck.cov["expected_rejected"] = s.get("expected_rejected")
    ck.cov["rule"] = ("every program of at most MaxItems items (declarations, uses, arrow-head look-alikes, brackets of 9 scope kinds with parameter "
                      "lists) over the names, plus seeded random larger programs; programs whose treatment the statement leaves open are not generated; "
                      "non-trivial = accepted program whose occurrences belong to bindings of at least two scopes.")
    judge(ck, ck.validate("js", "ScopeTrace", "ScopeTrace.cfg", ck.path("scope.ndjson"), timeout=3000))
    ck.assumptions += ["observation is through the statement's own consequence: fresh names for all declared Vars, print, read identifiers in order",
                       "not generated: function declarations in blocks, var/let clashes, parameter/body name clashes with defaults, catch-parameter "
                       "redeclaration, function-expression names shadowed at their own function's top level"]


def replay(ck, path):
    obj = json.load(open(path))
    ck.fatal("C04 replay files hold the program in 'src' (%s); re-run bin/check C04 to re-judge it" % obj.get("src"))
